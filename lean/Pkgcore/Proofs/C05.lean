import Pkgcore.Spec.C05
import Pkgcore.Proofs.C04
/-! helper lemmas for C05 -/
namespace Pkgcore.C05
open Pkgcore.C01 Pkgcore.C01.Spec Pkgcore.C04 Pkgcore.C04.Spec Pkgcore.C05.Spec Std
open Pkgcore.C02 (Op Str verHashKey VKey CompK)

/-! ### USE deps: per-flag states -/

/-- the three states a valid package can be in with respect to a flag -/
inductive St | on | off | missing
  deriving DecidableEq, Repr

def States.has (s : States) : St → Bool
  | .on => s.on | .off => s.off | .missing => s.missing

/-- the state of flag `f` in package `p` -/
def st (p : Pkg) (f : Str) : St :=
  if p.iuse.contains f then (if p.use.contains f then .on else .off) else .missing

theorem has_inter (s t : States) (x : St) : (s.inter t).has x = (s.has x && t.has x) := by
  cases x <;> rfl

theorem foldl_has (l : List UseDep) (s0 : States) (x : St) :
    (l.foldl (fun s u => s.inter (allowed u)) s0).has x = (s0.has x && l.all fun u => (allowed u).has x) := by
  induction l generalizing s0 with
  | nil => simp
  | cons u l ih => simp only [List.foldl_cons, ih, has_inter, List.all_cons, Bool.and_assoc]

theorem statesFor_has (deps : List UseDep) (f : Str) (x : St) :
    (statesFor deps f).has x = deps.all fun u => !(u.flag == f) || (allowed u).has x := by
  unfold statesFor
  rw [foldl_has]
  have h0 : (States.mk true true true).has x = true := by cases x <;> rfl
  rw [h0, Bool.true_and]
  induction deps with
  | nil => rfl
  | cons u l ih =>
    by_cases h : (u.flag == f) = true
    · simp [List.filter_cons, h, ih]
    · simp only [Bool.not_eq_true] at h
      simp [List.filter_cons, h, ih]

theorem nonempty_iff (s : States) : s.nonempty = true ↔ ∃ x, s.has x = true := by
  constructor
  · intro h
    simp only [States.nonempty, Bool.or_eq_true] at h
    rcases h with (h | h) | h
    · exact ⟨.on, h⟩
    · exact ⟨.off, h⟩
    · exact ⟨.missing, h⟩
  · rintro ⟨x, h⟩
    cases x <;> simp_all [States.has, States.nonempty]

/-- on valid packages a USE dep holds iff the package's state of the flag is one the dep allows -/
theorem useHolds_iff_allowed (p : Pkg) (u : UseDep) (hp : ∀ f, p.use.contains f = true → p.iuse.contains f = true) :
    useHolds p u = (allowed u).has (st p u.flag) := by
  obtain ⟨flag, on, dflt⟩ := u
  have hv := hp flag
  simp only [useHolds, flagState, allowed, st]
  cases hi : p.iuse.contains flag <;> cases hu : p.use.contains flag
  · cases on <;> cases dflt with
    | none => simp [States.has]
    | some d => cases d <;> simp [States.has]
  · rw [hu, hi] at hv; exact absurd (hv rfl) (by decide)
  · cases on <;> cases dflt with
    | none => simp [States.has]
    | some d => cases d <;> simp [States.has]
  · cases on <;> cases dflt with
    | none => simp [States.has]
    | some d => cases d <;> simp [States.has]

/-- completeness of the USE test: if a valid package satisfies every dep, no flag is left without a state -/
theorem useOk_of_all_hold (deps : List UseDep) (p : Pkg) (hp : ∀ f, p.use.contains f = true → p.iuse.contains f = true)
    (h : deps.all (useHolds p) = true) : useOk deps = true := by
  unfold useOk
  apply List.all_eq_true.mpr
  intro u _
  apply (nonempty_iff _).mpr
  refine ⟨st p u.flag, ?_⟩
  rw [statesFor_has]
  apply List.all_eq_true.mpr
  intro w hw
  by_cases hf : (w.flag == u.flag) = true
  · have := List.all_eq_true.mp h w hw
    rw [useHolds_iff_allowed p w hp] at this
    have e : w.flag = u.flag := by simpa using hf
    rw [e] at this
    simp [this]
  · simp only [Bool.not_eq_true] at hf
    simp [hf]

/-- the state the witness package gives to a flag -/
def choose (s : States) : St := if s.on then .on else if s.off then .off else .missing

theorem choose_has (s : States) (h : s.nonempty = true) : s.has (choose s) = true := by
  obtain ⟨a, b, c⟩ := s
  cases a <;> cases b <;> cases c <;> simp_all [States.nonempty, choose, States.has]

theorem witness_use_valid (deps : List UseDep) (f : Str) :
    (witnessUse deps).contains f = true → (witnessIuse deps).contains f = true := by
  simp only [witnessUse, witnessIuse, List.contains_iff_mem, List.mem_filter, Bool.or_eq_true]
  rintro ⟨h1, h2⟩
  exact ⟨h1, Or.inl h2⟩

theorem st_witness (deps : List UseDep) (p : Pkg) (hi : p.iuse = witnessIuse deps) (hu : p.use = witnessUse deps)
    (u : UseDep) (hmem : u ∈ deps) : st p u.flag = choose (statesFor deps u.flag) := by
  have hf : u.flag ∈ flags deps := List.mem_map.mpr ⟨u, hmem, rfl⟩
  unfold st choose
  rw [hi, hu]
  have e1 : (witnessIuse deps).contains u.flag = ((statesFor deps u.flag).on || (statesFor deps u.flag).off) := by
    rw [Bool.eq_iff_iff]
    simp only [witnessIuse, List.contains_iff_mem, List.mem_filter, hf, true_and]
  have e2 : (witnessUse deps).contains u.flag = (statesFor deps u.flag).on := by
    rw [Bool.eq_iff_iff]
    simp only [witnessUse, List.contains_iff_mem, List.mem_filter, hf, true_and]
  rw [e1, e2]
  cases (statesFor deps u.flag).on <;> cases (statesFor deps u.flag).off <;> rfl

/-- soundness of the USE test: the witness package satisfies every dep -/
theorem all_hold_of_useOk (deps : List UseDep) (p : Pkg) (hi : p.iuse = witnessIuse deps) (hu : p.use = witnessUse deps)
    (h : useOk deps = true) : deps.all (useHolds p) = true := by
  have hp : ∀ f, p.use.contains f = true → p.iuse.contains f = true := by
    intro f; rw [hi, hu]; exact witness_use_valid deps f
  apply List.all_eq_true.mpr
  intro u hmem
  rw [useHolds_iff_allowed p u hp, st_witness deps p hi hu u hmem]
  have hne := List.all_eq_true.mp h u hmem
  have := choose_has _ hne
  rw [statesFor_has] at this
  have := List.all_eq_true.mp this u hmem
  simpa using this

end Pkgcore.C05

namespace Pkgcore.C05
open Pkgcore.C01 Pkgcore.C01.Spec Pkgcore.C04 Pkgcore.C04.Spec Pkgcore.C05.Spec Std
open Pkgcore.C02 (Op Str verHashKey VKey CompK)

attribute [local instance] lexOrd

/-! ### the version order as a lexicographic pair (version value, revision) -/

abbrev VKT := Nat × List CompKey × Nat × List (Int × Nat)

/-- the PMS value of a version without its revision (the first four components of C01's `key`) -/
def VK (v : Ver) : VKT :=
  (natOfDigits (v.comps.headD []), v.comps.tail.map compKey, letterKey v.letter, v.sufs.map sufKey ++ [(0, 0)])

/-- a version with revision as a point of the order -/
def PK (x : Ver × Str) : VKT × Nat := (VK x.1, natOfDigits x.2)

theorem key_compare_regroup (v v' : Ver) (r r' : Rev) :
    compare (key v r) (key v' r') = (compare (VK v) (VK v')).then (compare (revNat r) (revNat r')) := by
  simp only [key, VK, lex_pair, Ordering.then_assoc]

theorem pms_eq_PK (v v' : Ver) (r r' : Str) (h : WF v) (h' : WF v') :
    pmsCmp v (some r) v' (some r') = compare (PK (v, r)) (PK (v', r')) := by
  rw [pmsCmp_eq_key _ _ _ _ h h', key_compare_regroup]; rfl

theorem pms_none_eq (v v' : Ver) (h : WF v) (h' : WF v') :
    pmsCmp v none v' none = compare (VK v) (VK v') := by
  rw [pmsCmp_eq_key _ _ _ _ h h', key_compare_regroup]
  simp [revNat]

theorem pms_none_eq_iff (v v' : Ver) (h : WF v) (h' : WF v') :
    pmsCmp v none v' none = .eq ↔ VK v = VK v' := by
  rw [pms_none_eq v v' h h']
  exact LawfulEqCmp.compare_eq_iff_eq (cmp := (compare : VKT → VKT → Ordering))

/-! generic facts about lexicographic pairs -/
section pairs
variable {α β : Type} [Ord α] [Ord β] [TransOrd α] [TransOrd β] [LawfulEqOrd α] [LawfulEqOrd β]

theorem pair_snd (a : α) (x y : β) : compare (a, x) (a, y) = compare x y := by
  rw [lex_pair, ReflCmp.compare_self (cmp := (compare : α → α → Ordering))]; rfl

theorem pair_lt_of_fst_lt (a b : α) (x y : β) (h : compare a b = .lt) : compare (a, x) (b, y) = .lt := by
  rw [lex_pair, h]; rfl

theorem pair_fst_isLE (a b : α) (x y : β) (h : (compare (a, x) (b, y)).isLE) : (compare a b).isLE := by
  rw [lex_pair] at h
  cases hc : compare a b <;> simp_all [Ordering.then]

theorem pair_sandwich (a b : α) (x y z : β) (h1 : (compare (a, x) (b, y)).isLE) (h2 : (compare (b, y) (a, z)).isLE) :
    b = a := by
  have e1 := pair_fst_isLE a b x y h1
  have e2 := pair_fst_isLE b a y z h2
  have := OrientedCmp.isLE_antisymm (cmp := (compare : α → α → Ordering)) e2 e1
  exact (LawfulEqCmp.compare_eq_iff_eq (cmp := (compare : α → α → Ordering))).mp this

theorem pair_lt_fst_of_ne (a b : α) (x y : β) (h : compare (a, x) (b, y) = .lt) (hne : a ≠ b) :
    compare a b = .lt := by
  rw [lex_pair] at h
  cases hc : compare a b
  · rfl
  · exact absurd ((LawfulEqCmp.compare_eq_iff_eq (cmp := (compare : α → α → Ordering))).mp hc) hne
  · rw [hc] at h; simp [Ordering.then] at h
end pairs

theorem list_compare_append_left (p a b : List (Int × Nat)) : compare (p ++ a) (p ++ b) = compare a b := by
  induction p with
  | nil => rfl
  | cons x p ih =>
    simp only [List.cons_append, List.compare_cons_cons, ih]
    rw [ReflCmp.compare_self (cmp := (compare : Int × Nat → Int × Nat → Ordering))]; rfl

/-- `v_alpha` is smaller than `v` at any revision -/
theorem below_lt (v : Ver) (r : Str) : compare (PK (below v)) (PK (v, r)) = .lt := by
  apply pair_lt_of_fst_lt
  simp only [below, VK, lex_pair]
  rw [ReflCmp.compare_self (cmp := (compare : Nat → Nat → Ordering)),
    ReflCmp.compare_self (cmp := (compare : List CompKey → List CompKey → Ordering)),
    ReflCmp.compare_self (cmp := (compare : Nat → Nat → Ordering))]
  simp only [Ordering.eq_then, List.map_append, List.append_assoc]
  rw [list_compare_append_left]
  rfl

theorem natOfDigits_toDigits (n : Nat) : natOfDigits (Nat.toDigits 10 n) = n := by
  have := Nat.ofDigitChars_ten_toDigits (n := n)
  rw [Nat.ofDigitChars_eq_foldl] at this
  exact this

/-- `v-r(r+1)` is greater than `v-r` -/
theorem above_gt (v : Ver) (r : Str) : compare (PK (v, r)) (PK (above v r)) = .lt := by
  simp only [PK, above, natOfDigits_toDigits]
  rw [pair_snd]
  exact Nat.compare_eq_lt.mpr (Nat.lt_succ_self _)

theorem above_VK (v : Ver) (r : Str) : VK (above v r).1 = VK v := rfl

theorem below_WF (v : Ver) (h : WF v) : WF (below v).1 := h
theorem above_WF (v : Ver) (r : Str) (h : WF v) : WF (above v r).1 := h

end Pkgcore.C05

namespace Pkgcore.C05
open Pkgcore.C01 Pkgcore.C01.Spec Pkgcore.C04 Pkgcore.C04.Spec Pkgcore.C05.Spec Std
open Pkgcore.C02 (Op Str verHashKey VKey CompK compK)

attribute [local instance] lexOrd

/-! ### the glob on version values -/

/-- transfer of "is a prefix" between two maps that identify the same pairs of elements -/
theorem prefix_map_transfer {α β γ : Type} (f : α → β) (g : α → γ) (hfg : ∀ a b, f a = f b ↔ g a = g b)
    (l1 l2 : List α) : l1.map f <+: l2.map f ↔ l1.map g <+: l2.map g := by
  induction l1 generalizing l2 with
  | nil => simp
  | cons a l1 ih =>
    cases l2 with
    | nil => simp
    | cons b l2 =>
      simp only [List.map_cons, List.cons_prefix_cons, hfg a b, ih l2]

theorem take_beq_iff_prefix {α : Type} [BEq α] [LawfulBEq α] (l1 l2 : List α) :
    (l2.take l1.length == l1) = true ↔ l1 <+: l2 := by
  rw [beq_iff_eq, List.prefix_iff_eq_take]
  exact eq_comm

/-- the glob `=gv-rgr*` against `v-r`, on version values -/
def GlobP (gv : Ver) (gr : Str) (v : Ver) (r : Str) : Prop :=
  if natOfDigits gr ≠ 0 then VK gv = VK v ∧ natOfDigits gr = natOfDigits r
  else if gv.sufs ≠ [] then
    (VK gv).1 = (VK v).1 ∧ (VK gv).2.1 = (VK v).2.1 ∧ (VK gv).2.2.1 = (VK v).2.2.1 ∧
      gv.sufs.map sufKey <+: v.sufs.map sufKey
  else if gv.letter ≠ none then
    (VK gv).1 = (VK v).1 ∧ (VK gv).2.1 = (VK v).2.1 ∧ (VK gv).2.2.1 = (VK v).2.2.1
  else (VK gv).1 = (VK v).1 ∧ (VK gv).2.1 <+: (VK v).2.1

theorem sufPair_iff (x y : Suf × Str) : (x.1, natOfDigits x.2) = (y.1, natOfDigits y.2) ↔ sufKey x = sufKey y := by
  simp only [sufKey, Prod.mk.injEq, C02.rank_inj]

theorem sufs_map_eq_iff (xs ys : List (Suf × Str)) :
    xs.map (fun x => (x.1, natOfDigits x.2)) = ys.map (fun x => (x.1, natOfDigits x.2)) ↔ xs.map sufKey = ys.map sufKey := by
  induction xs generalizing ys with
  | nil => cases ys <;> simp
  | cons x xs ih => cases ys with
    | nil => simp
    | cons y ys => simp only [List.map_cons, List.cons.injEq, ih, sufPair_iff]

theorem sufKey_append_inj (a b : List (Int × Nat)) : a ++ [((0 : Int), (0 : Nat))] = b ++ [(0, 0)] ↔ a = b :=
  List.append_left_inj _

theorem verGlobMatch_iff (gv : Ver) (gr : Str) (v : Ver) (r : Str) (hg : WF gv) (hv : WF v) :
    verGlobMatch gv gr v r = true ↔ GlobP gv gr v r := by
  obtain ⟨n1, _⟩ := hg
  obtain ⟨n2, _⟩ := hv
  unfold verGlobMatch GlobP VK verHashKey
  cases hc1 : gv.comps with
  | nil => exact absurd hc1 n1
  | cons a as =>
    cases hc2 : v.comps with
    | nil => exact absurd hc2 n2
    | cons b bs =>
      have numsEq : ((CompK.int (natOfDigits a) :: as.map compK) == (CompK.int (natOfDigits b) :: bs.map compK)) = true ↔
          natOfDigits a = natOfDigits b ∧ as.map compKey = bs.map compKey := by
        rw [beq_iff_eq, List.cons.injEq, CompK.int.injEq, C02.map_compK_eq_iff]
      have numsPre : ((CompK.int (natOfDigits b) :: bs.map compK).take (CompK.int (natOfDigits a) :: as.map compK).length
            == (CompK.int (natOfDigits a) :: as.map compK)) = true ↔
          natOfDigits a = natOfDigits b ∧ as.map compKey <+: bs.map compKey := by
        rw [take_beq_iff_prefix, List.cons_prefix_cons, CompK.int.injEq,
          prefix_map_transfer compK compKey C02.compK_eq_iff]
      have letEq : (gv.letter == v.letter) = true ↔ letterKey gv.letter = letterKey v.letter := by
        rw [beq_iff_eq, C02.letterKey_inj]
      have sufEq : ((gv.sufs.map fun x => (x.1, natOfDigits x.2)) == (v.sufs.map fun x => (x.1, natOfDigits x.2))) = true ↔
          gv.sufs.map sufKey ++ [((0 : Int), (0 : Nat))] = v.sufs.map sufKey ++ [(0, 0)] := by
        rw [beq_iff_eq, sufs_map_eq_iff, sufKey_append_inj]
      have sufPre : ((v.sufs.map fun x => (x.1, natOfDigits x.2)).take (gv.sufs.map fun x => (x.1, natOfDigits x.2)).length
            == (gv.sufs.map fun x => (x.1, natOfDigits x.2))) = true ↔ gv.sufs.map sufKey <+: v.sufs.map sufKey := by
        rw [take_beq_iff_prefix]
        exact prefix_map_transfer _ sufKey sufPair_iff _ _
      have sufNe : ((gv.sufs.map fun x => (x.1, natOfDigits x.2)) ≠ []) ↔ gv.sufs ≠ [] := by simp
      simp only [List.headD_cons, List.tail_cons]
      by_cases h1 : natOfDigits gr = 0
      · by_cases h2 : gv.sufs = []
        · by_cases h3 : gv.letter = none
          · simp only [h1, h2, h3, ne_eq, not_true_eq_false, if_false, List.map_nil]
            exact numsPre
          · simp only [h1, h2, h3, ne_eq, not_true_eq_false, not_false_eq_true, if_false, if_true, List.map_nil,
              Bool.and_eq_true, numsEq, letEq, and_assoc]
        · simp only [h1, ne_eq, not_true_eq_false, if_false, sufNe, h2, not_false_eq_true, if_true,
            Bool.and_eq_true, numsEq, letEq, sufPre, and_assoc]
      · simp only [ne_eq, h1, not_false_eq_true, if_true, Bool.and_eq_true, numsEq, letEq, sufEq, beq_iff_eq,
          Prod.mk.injEq, and_assoc]

end Pkgcore.C05

namespace Pkgcore.C05
open Pkgcore.C01 Pkgcore.C01.Spec Pkgcore.C04 Pkgcore.C04.Spec Pkgcore.C05.Spec Std
open Pkgcore.C02 (Op Str verHashKey VKey CompK compK)

attribute [local instance] lexOrd

/-! ### lists with a common prefix are contiguous in the lexicographic order -/

theorem prefix_convex {α : Type} [Ord α] [TransOrd α] [LawfulEqOrd α] (P X Y Z : List α)
    (hx : P <+: X) (hz : P <+: Z) (h1 : (compare X Y).isLE) (h2 : (compare Y Z).isLE) : P <+: Y := by
  induction P generalizing X Y Z with
  | nil => exact List.nil_prefix
  | cons p P ih =>
    obtain ⟨X', rfl⟩ := hx
    obtain ⟨Z', rfl⟩ := hz
    cases Y with
    | nil => simp [List.compare_cons_nil] at h1
    | cons q Y =>
      simp only [List.cons_append, List.compare_cons_cons] at h1 h2
      have e1 : (compare p q).isLE := by cases hc : compare p q <;> simp_all [Ordering.then]
      have e2 : (compare q p).isLE := by cases hc : compare q p <;> simp_all [Ordering.then]
      have hpq : p = q :=
        (LawfulEqCmp.compare_eq_iff_eq (cmp := (compare : α → α → Ordering))).mp
          (OrientedCmp.isLE_antisymm (cmp := (compare : α → α → Ordering)) e1 e2)
      subst hpq
      rw [ReflCmp.compare_self (cmp := (compare : α → α → Ordering))] at h1 h2
      simp only [Ordering.eq_then] at h1 h2
      rw [List.cons_prefix_cons]
      exact ⟨rfl, ih (P ++ X') Y (P ++ Z') (List.prefix_append _ _) (List.prefix_append _ _) h1 h2⟩

theorem prefix_of_prefix_concat {α : Type} (P A : List α) (s : α) (h : P <+: A ++ [s]) (hs : s ∉ P) : P <+: A := by
  by_cases hl : P.length ≤ A.length
  · exact List.prefix_of_prefix_length_le h (List.prefix_append A [s]) hl
  · have hlen : P.length = (A ++ [s]).length := by
      have := h.length_le
      simp only [List.length_append, List.length_cons, List.length_nil] at this ⊢
      omega
    have := h.eq_of_length hlen
    exact absurd (by rw [this]; simp) hs

theorem sentinel_not_mem (xs : List (Suf × Str)) : ((0 : Int), (0 : Nat)) ∉ xs.map sufKey := by
  intro h
  simp only [List.mem_map] at h
  obtain ⟨x, _, hx⟩ := h
  simp only [sufKey, Prod.mk.injEq] at hx
  exact rank_ne_zero _ hx.1

/-! ### facts about the glob used by `intersects` -/

theorem verGlobMatch_vtoks (gv : Ver) (gr : Str) (v : Ver) (r : Str) :
    verGlobMatch gv gr v r = (vtoks (verHashKey gv gr)).isPrefixOf (vtoks (verHashKey v r)) :=
  globBody_vtoks (verHashKey gv gr) (verHashKey v r)

theorem glob_own (gv : Ver) (gr : Str) : verGlobMatch gv gr gv gr = true := by
  rw [verGlobMatch_vtoks]
  exact List.isPrefixOf_iff_prefix.mpr (List.prefix_refl _)

/-- two globs with a common package: one matches the other's own version -/
theorem glob_linear (g1 : Ver) (r1 : Str) (g2 : Ver) (r2 : Str) (v : Ver) (r : Str)
    (h1 : verGlobMatch g1 r1 v r = true) (h2 : verGlobMatch g2 r2 v r = true) :
    verGlobMatch g2 r2 g1 r1 = true ∨ verGlobMatch g1 r1 g2 r2 = true := by
  rw [verGlobMatch_vtoks, List.isPrefixOf_iff_prefix] at h1 h2
  rw [verGlobMatch_vtoks, verGlobMatch_vtoks, List.isPrefixOf_iff_prefix, List.isPrefixOf_iff_prefix]
  rcases List.prefix_or_prefix_of_prefix h1 h2 with h | h
  · exact Or.inr h
  · exact Or.inl h

/-- a glob with a non-zero revision matches exactly the packages equal to its own version -/
theorem glob_rev (gv : Ver) (gr : Str) (v : Ver) (r : Str) (hg : WF gv) (hv : WF v) (hr : natOfDigits gr ≠ 0) :
    verGlobMatch gv gr v r = true ↔ PK (gv, gr) = PK (v, r) := by
  rw [verGlobMatch_iff gv gr v r hg hv]
  simp only [GlobP, hr, ne_eq, not_false_eq_true, if_true, PK, Prod.mk.injEq]

/-- without a revision the glob looks at the version only -/
theorem glob_norev (gv : Ver) (gr : Str) (v : Ver) (r r' : Str) (hg : WF gv) (hv : WF v) (hr : natOfDigits gr = 0) :
    verGlobMatch gv gr v r = verGlobMatch gv [] v r' := by
  rw [Bool.eq_iff_iff, verGlobMatch_iff gv gr v r hg hv, verGlobMatch_iff gv [] v r' hg hv]
  simp only [GlobP, hr, natOfDigits_nil, ne_eq, not_true_eq_false, if_false]

theorem glob_below (gv : Ver) (v : Ver) (hg : WF gv) (hv : WF v) (h : verGlobMatch gv [] v [] = true) :
    verGlobMatch gv [] (below v).1 (below v).2 = true := by
  rw [verGlobMatch_iff gv [] v [] hg hv] at h
  rw [verGlobMatch_iff gv [] _ _ hg (below_WF v hv)]
  simp only [GlobP, natOfDigits_nil, ne_eq, not_true_eq_false, if_false, below, VK, List.map_append] at h ⊢
  by_cases hs : gv.sufs = []
  · simp only [hs, not_true_eq_false, if_false] at h ⊢
    exact h
  · simp only [hs, not_false_eq_true, if_true] at h ⊢
    exact ⟨h.1, h.2.1, h.2.2.1, h.2.2.2.trans (List.prefix_append _ _)⟩

/-- **the versions a revision-less glob matches are contiguous in the version order** -/
theorem glob_convex (gv : Ver) (x y z : Ver × Str) (hg : WF gv) (hx : WF x.1) (hy : WF y.1) (hz : WF z.1)
    (mx : verGlobMatch gv [] x.1 x.2 = true) (mz : verGlobMatch gv [] z.1 z.2 = true)
    (h1 : (compare (PK x) (PK y)).isLE) (h2 : (compare (PK y) (PK z)).isLE) :
    verGlobMatch gv [] y.1 y.2 = true := by
  rw [verGlobMatch_iff gv [] _ _ hg hx] at mx
  rw [verGlobMatch_iff gv [] _ _ hg hz] at mz
  rw [verGlobMatch_iff gv [] _ _ hg hy]
  simp only [GlobP, natOfDigits_nil, ne_eq, not_true_eq_false, if_false] at mx mz ⊢
  -- the order on version values
  have v1 := pair_fst_isLE _ _ _ _ h1
  have v2 := pair_fst_isLE _ _ _ _ h2
  generalize hX : VK x.1 = X at *
  generalize hY : VK y.1 = Y at *
  generalize hZ : VK z.1 = Z at *
  generalize hG : VK gv = G at *
  obtain ⟨xf, xc, xl, xs⟩ := X
  obtain ⟨yf, yc, yl, ys⟩ := Y
  obtain ⟨zf, zc, zl, zs⟩ := Z
  obtain ⟨gf, gc, gl, gs⟩ := G
  simp only at mx mz ⊢ v1 v2
  -- first component
  have ef : xf = zf := by
    by_cases hs : gv.sufs = []
    · by_cases hl : gv.letter = none
      · simp only [hs, hl, not_true_eq_false, if_false] at mx mz; rw [← mx.1, ← mz.1]
      · simp only [hs, hl, not_true_eq_false, not_false_eq_true, if_false, if_true] at mx mz; rw [← mx.1, ← mz.1]
    · simp only [hs, not_false_eq_true, if_true] at mx mz; rw [← mx.1, ← mz.1]
  subst ef
  have eyf : yf = xf := pair_sandwich xf yf _ _ _ v1 v2
  subst eyf
  rw [pair_snd] at v1 v2
  by_cases hs : gv.sufs = []
  · by_cases hl : gv.letter = none
    · simp only [hs, hl, not_true_eq_false, if_false] at mx mz ⊢
      refine ⟨mx.1, ?_⟩
      exact prefix_convex gc xc yc zc mx.2 mz.2 (pair_fst_isLE _ _ _ _ v1) (pair_fst_isLE _ _ _ _ v2)
    · simp only [hs, hl, not_true_eq_false, not_false_eq_true, if_false, if_true] at mx mz ⊢
      have ec : xc = zc := by rw [← mx.2.1, ← mz.2.1]
      subst ec
      have eyc : yc = xc := pair_sandwich xc yc _ _ _ v1 v2
      subst eyc
      rw [pair_snd] at v1 v2
      have el : xl = zl := by rw [← mx.2.2, ← mz.2.2]
      subst el
      have eyl : yl = xl := pair_sandwich xl yl _ _ _ v1 v2
      subst eyl
      exact mx
  · simp only [hs, not_false_eq_true, if_true] at mx mz ⊢
    have ec : xc = zc := by rw [← mx.2.1, ← mz.2.1]
    subst ec
    have eyc : yc = xc := pair_sandwich xc yc _ _ _ v1 v2
    subst eyc
    rw [pair_snd] at v1 v2
    have el : xl = zl := by rw [← mx.2.2.1, ← mz.2.2.1]
    subst el
    have eyl : yl = xl := pair_sandwich xl yl _ _ _ v1 v2
    subst eyl
    rw [pair_snd] at v1 v2
    refine ⟨mx.1, mx.2.1, mx.2.2.1, ?_⟩
    have exs : xs = x.1.sufs.map sufKey ++ [(0, 0)] := by simp [VK] at hX; exact hX.2.2.2.symm
    have eys : ys = y.1.sufs.map sufKey ++ [(0, 0)] := by simp [VK] at hY; exact hY.2.2.2.symm
    have ezs : zs = z.1.sufs.map sufKey ++ [(0, 0)] := by simp [VK] at hZ; exact hZ.2.2.2.symm
    have p1 : gv.sufs.map sufKey <+: xs := by rw [exs]; exact mx.2.2.2.trans (List.prefix_append _ _)
    have p3 : gv.sufs.map sufKey <+: zs := by rw [ezs]; exact mz.2.2.2.trans (List.prefix_append _ _)
    have p2 := prefix_convex _ xs ys zs p1 p3 v1 v2
    rw [eys] at p2
    exact prefix_of_prefix_concat _ _ _ p2 (sentinel_not_mem gv.sufs)

end Pkgcore.C05

namespace Pkgcore.C05
open Pkgcore.C01 Pkgcore.C01.Spec Pkgcore.C04 Pkgcore.C04.Spec Pkgcore.C05.Spec Std
open Pkgcore.C02 (Op Str verHashKey VKey CompK compK)

attribute [local instance] lexOrd

/-! ### constraints as order statements -/

abbrev Pt := Ver × Str

def LT (a b : Pt) : Prop := compare (PK a) (PK b) = .lt
def LE (a b : Pt) : Prop := (compare (PK a) (PK b)).isLE = true
/-- `a < b` or `a ≤ b` -/
def Rel (strict : Bool) (a b : Pt) : Prop := if strict then LT a b else LE a b

instance (a b : Pt) : Decidable (LT a b) := by unfold LT; infer_instance
instance (a b : Pt) : Decidable (LE a b) := by unfold LE; infer_instance
instance (s : Bool) (a b : Pt) : Decidable (Rel s a b) := by unfold Rel; infer_instance

theorem LE_refl (a : Pt) : LE a a := by
  unfold LE; rw [ReflCmp.compare_self (cmp := (compare : VKT × Nat → VKT × Nat → Ordering))]; rfl
theorem LT.le {a b : Pt} (h : LT a b) : LE a b := by unfold LT at h; unfold LE; rw [h]; rfl
theorem LE_trans {a b c : Pt} (h1 : LE a b) (h2 : LE b c) : LE a c := TransCmp.isLE_trans h1 h2
theorem LT_of_LT_of_LE {a b c : Pt} (h1 : LT a b) (h2 : LE b c) : LT a c := TransCmp.lt_of_lt_of_isLE h1 h2
theorem LT_of_LE_of_LT {a b c : Pt} (h1 : LE a b) (h2 : LT b c) : LT a c := TransCmp.lt_of_isLE_of_lt h1 h2
theorem LT_trans {a b c : Pt} (h1 : LT a b) (h2 : LT b c) : LT a c := TransCmp.lt_trans h1 h2
theorem LT_irrefl (a : Pt) : ¬ LT a a := by
  unfold LT; rw [ReflCmp.compare_self (cmp := (compare : VKT × Nat → VKT × Nat → Ordering))]; decide
theorem not_LT {a b : Pt} : ¬ LT a b ↔ LE b a := by
  unfold LT LE
  rw [OrientedCmp.eq_swap (cmp := (compare : VKT × Nat → VKT × Nat → Ordering)) (a := PK b) (b := PK a)]
  cases compare (PK a) (PK b) <;> simp [Ordering.swap, Ordering.isLE]
theorem not_LE {a b : Pt} : ¬ LE a b ↔ LT b a := by
  unfold LT LE
  rw [OrientedCmp.eq_swap (cmp := (compare : VKT × Nat → VKT × Nat → Ordering)) (a := PK b) (b := PK a)]
  cases compare (PK a) (PK b) <;> simp [Ordering.swap, Ordering.isLE]
theorem LE_total (a b : Pt) : LE a b ∨ LT b a := by
  by_cases h : LE a b
  · exact Or.inl h
  · exact Or.inr (not_LE.mp h)

theorem Rel.le {s : Bool} {a b : Pt} (h : Rel s a b) : LE a b := by
  cases s
  · exact h
  · exact LT.le h
theorem Rel_of_LT {s : Bool} {a b : Pt} (h : LT a b) : Rel s a b := by
  cases s
  · exact LT.le h
  · exact h
theorem Rel_of_Rel_of_LE {s : Bool} {a b c : Pt} (h1 : Rel s a b) (h2 : LE b c) : Rel s a c := by
  cases s
  · exact LE_trans h1 h2
  · exact LT_of_LT_of_LE h1 h2
theorem Rel_of_LE_of_Rel {s : Bool} {a b c : Pt} (h1 : LE a b) (h2 : Rel s b c) : Rel s a c := by
  cases s
  · exact LE_trans h1 h2
  · exact LT_of_LE_of_LT h1 h2
theorem not_Rel {s : Bool} {a b : Pt} : ¬ Rel s a b ↔ Rel (!s) b a := by
  cases s
  · exact not_LE
  · exact not_LT

/-- points with the same version value are ordered by their revisions -/
theorem LT_sameV {a b : Pt} (h : VK a.1 = VK b.1) : LT a b ↔ natOfDigits a.2 < natOfDigits b.2 := by
  unfold LT PK
  rw [h, pair_snd]
  exact Nat.compare_eq_lt
theorem LE_sameV {a b : Pt} (h : VK a.1 = VK b.1) : LE a b ↔ natOfDigits a.2 ≤ natOfDigits b.2 := by
  unfold LE PK
  rw [h, pair_snd]
  exact Nat.isLE_compare
theorem sandwich_VK {a y c : Pt} (h1 : LE a y) (h2 : LE y c) (h : VK a.1 = VK c.1) : VK y.1 = VK a.1 := by
  unfold LE PK at h1 h2
  rw [← h] at h2
  exact pair_sandwich _ _ _ _ _ h1 h2
theorem LT_of_VK_lt {a b : Pt} (r r' : Str) (h : LT a b) (hne : VK a.1 ≠ VK b.1) : LT (a.1, r) (b.1, r') := by
  unfold LT PK at *
  exact pair_lt_of_fst_lt _ _ _ _ (pair_lt_fst_of_ne _ _ _ _ h hne)
theorem PK_eq_iff {a b : Pt} : compare (PK a) (PK b) = .eq ↔ PK a = PK b :=
  LawfulEqCmp.compare_eq_iff_eq (cmp := (compare : VKT × Nat → VKT × Nat → Ordering))

/-! ### `Sat`: a constraint accepts a version (PMS semantics of C04) -/

def Sat (c : VC) (x : Pt) : Prop := opSpec c.1 c.2.1 c.2.2 x.1 x.2 = true

theorem vMatch_eq_opSpec (op : Op) (v : Ver) (r : Str) (pv : Ver) (pr : Str) (hop : op ≠ .glob) (hv : WF v) (hp : WF pv) :
    vMatch op v r pv pr = opSpec op v r pv pr := by
  have := versionRestr_eq op v r false ⟨[], [], pv, pr, [], [], [], [], []⟩ hv hp
  simp only [hop, if_false, Bool.bne_false] at this
  rw [← this]
  cases op <;> first | exact absurd rfl hop | rfl

theorem sat_glob (v : Ver) (r : Str) (x : Pt) (hv : WF v) (hx : WF x.1) :
    Sat (.glob, v, r) x ↔ verGlobMatch v r x.1 x.2 = true := by
  unfold Sat opSpec
  rw [← verGlobMatch_eq_spec v r x.1 x.2 hv hx]

theorem sat_tilde (v : Ver) (r : Str) (x : Pt) (hv : WF v) (hx : WF x.1) :
    Sat (.tilde, v, r) x ↔ VK x.1 = VK v := by
  unfold Sat opSpec
  simp only [beq_iff_eq]
  exact pms_none_eq_iff x.1 v hx hv

theorem sat_eq (v : Ver) (r : Str) (x : Pt) (hv : WF v) (hx : WF x.1) :
    Sat (.eq, v, r) x ↔ PK x = PK (v, r) := by
  unfold Sat opSpec
  simp only [beq_iff_eq]
  rw [pms_eq_PK x.1 v x.2 r hx hv]
  exact PK_eq_iff

/-- the four range operators as order statements -/
theorem sat_ranged (op : Op) (v : Ver) (r : Str) (x : Pt) (hop : isRanged op = true) (hv : WF v) (hx : WF x.1) :
    Sat (op, v, r) x ↔ if isLtOp op then Rel (isStrict op) x (v, r) else Rel (isStrict op) (v, r) x := by
  unfold Sat opSpec
  have e := pms_eq_PK x.1 v x.2 r hx hv
  have sw : compare (PK (v, r)) (PK x) = (compare (PK x) (PK (v, r))).swap :=
    OrientedCmp.eq_swap (cmp := (compare : VKT × Nat → VKT × Nat → Ordering))
  cases op <;> simp only [isRanged, isLtOp, isGtOp, Bool.or_self, Bool.false_eq_true] at hop <;>
    simp only [isLtOp, isStrict, Rel, LT, LE, if_true, if_false, Bool.false_eq_true, e, sw] <;>
    cases compare (PK x) (PK (v, r)) <;> simp [Ordering.swap, Ordering.isLE]

/-- PMS-equal versions are accepted alike -/
theorem sat_congr (c : VC) (x y : Pt) (hc : WF c.2.1) (hx : WF x.1) (hy : WF y.1) (h : PK x = PK y) : Sat c x ↔ Sat c y := by
  unfold Sat
  have heq : pmsCmp x.1 (some x.2) y.1 (some y.2) = .eq := by
    rw [pms_eq_PK _ _ _ _ hx hy]; exact PK_eq_iff.mpr h
  rw [opSpec_congr c.1 c.2.1 c.2.2 x.1 x.2 y.1 y.2 hc hx hy heq]

end Pkgcore.C05

namespace Pkgcore.C05
open Pkgcore.C01 Pkgcore.C01.Spec Pkgcore.C04 Pkgcore.C04.Spec Pkgcore.C05.Spec Std
open Pkgcore.C02 (Op Str verHashKey VKey CompK compK)

attribute [local instance] lexOrd

/-! ### two ranges in opposite directions -/

/-- `H` is an upper bound (`<`/`<=`, strict iff `sH`), `L` a lower bound (`>`/`>=`, strict iff `sL`):
what `rangedVs` tests -/
def Between (sL sH : Bool) (L H : Pt) : Prop :=
  Rel sL L H ∧ Rel sH L H ∧
    (sL = true → sH = true → VK L.1 = VK H.1 → (natOfDigits L.2 - natOfDigits H.2) + (natOfDigits H.2 - natOfDigits L.2) > 1)

theorem between_complete (sL sH : Bool) (L H x : Pt) (h1 : Rel sL L x) (h2 : Rel sH x H) : Between sL sH L H := by
  refine ⟨Rel_of_Rel_of_LE h1 h2.le, Rel_of_LE_of_Rel h1.le h2, ?_⟩
  intro e1 e2 hv
  subst e1; subst e2
  have hx : VK x.1 = VK L.1 := sandwich_VK (LT.le h1) (LT.le h2) hv
  have a1 := (LT_sameV hx.symm).mp h1
  have a2 := (LT_sameV (hx.trans hv)).mp h2
  omega

theorem between_upper_end (sL : Bool) (L H : Pt) (h : Between sL false L H) : Rel sL L H ∧ Rel false H H :=
  ⟨h.1, LE_refl H⟩

theorem between_lower_end (sH : Bool) (L H : Pt) (h : Between false sH L H) : Rel false L L ∧ Rel sH L H :=
  ⟨LE_refl L, h.2.1⟩

theorem between_strict (L H : Pt) (h : Between true true L H) :
    Rel true L (above L.1 L.2) ∧ Rel true (above L.1 L.2) H := by
  refine ⟨above_gt L.1 L.2, ?_⟩
  have hlt : LT L H := h.1
  by_cases hv : VK L.1 = VK H.1
  · have gap := h.2.2 rfl rfl hv
    have a1 := (LT_sameV hv).mp hlt
    apply (LT_sameV (a := above L.1 L.2) (b := H) hv).mpr
    simp only [above, natOfDigits_toDigits]
    omega
  · exact LT_of_VK_lt _ H.2 hlt hv

end Pkgcore.C05

namespace Pkgcore.C05
open Pkgcore.C01 Pkgcore.C01.Spec Pkgcore.C04 Pkgcore.C04.Spec Pkgcore.C05.Spec Std
open Pkgcore.C02 (Op Str verHashKey VKey CompK compK)

attribute [local instance] lexOrd

theorem ranged_ne_glob {o : Op} (h : isRanged o = true) : o ≠ .glob := by
  cases o <;> simp_all [isRanged, isLtOp, isGtOp]

theorem sameV_iff (v v' : Ver) (h : WF v) (h' : WF v') : (verCmp v none v' none == .eq) = true ↔ VK v = VK v' := by
  rw [verCmp_eq_pms_aux _ _ _ _ (Or.inl ⟨rfl, rfl⟩), beq_iff_eq]
  exact pms_none_eq_iff v v' h h'

/-- what `rangedVs` computes for two ranges -/
theorem rangedVs_ranged_iff (ro : Op) (rv : Ver) (rr : Str) (oo : Op) (ov : Ver) (orv : Str)
    (hro : isRanged ro = true) (hoo : isRanged oo = true) (hrv : WF rv) (hov : WF ov) :
    rangedVs (ro, rv, rr) (oo, ov, orv) = true ↔
      Sat (oo, ov, orv) (rv, rr) ∧ Sat (ro, rv, rr) (ov, orv) ∧
        (isStrict ro = true → isStrict oo = true → VK rv = VK ov →
          (natOfDigits rr - natOfDigits orv) + (natOfDigits orv - natOfDigits rr) > 1) := by
  unfold rangedVs
  simp only [hoo, if_true]
  rw [vMatch_eq_opSpec oo ov orv rv rr (ranged_ne_glob hoo) hov hrv,
    vMatch_eq_opSpec ro rv rr ov orv (ranged_ne_glob hro) hrv hov]
  unfold Sat
  by_cases h1 : opSpec oo ov orv rv rr = true
  · by_cases h2 : opSpec ro rv rr ov orv = true
    · simp only [h1, h2, Bool.and_self, Bool.not_true, Bool.false_eq_true, if_false, true_and]
      by_cases h3 : (isStrict ro && isStrict oo && (verCmp rv none ov none == .eq)) = true
      · simp only [h3, if_true, decide_eq_true_eq]
        simp only [Bool.and_eq_true] at h3
        constructor
        · intro g _ _ _; exact g
        · intro g; exact g h3.1.1 h3.1.2 ((sameV_iff rv ov hrv hov).mp h3.2)
      · simp only [h3, Bool.false_eq_true, if_false, true_iff]
        intro s1 s2 hv
        exact absurd (by simp [s1, s2, (sameV_iff rv ov hrv hov).mpr hv]) h3
    · simp [h1, h2]
  · simp [h1]

end Pkgcore.C05

namespace Pkgcore.C05
open Pkgcore.C01 Pkgcore.C01.Spec Pkgcore.C04 Pkgcore.C04.Spec Pkgcore.C05.Spec Std
open Pkgcore.C02 (Op Str verHashKey VKey CompK compK)

attribute [local instance] lexOrd

/-! ### `rangedVs`: soundness -/

theorem isGt_of_ranged_not_lt {o : Op} (h : isRanged o = true) (h' : isLtOp o = false) : isGtOp o = true := by
  cases o <;> simp_all [isRanged, isLtOp, isGtOp]

theorem sat_upper (o : Op) (v : Ver) (r : Str) (x : Pt) (h : isLtOp o = true) (hv : WF v) (hx : WF x.1) :
    Sat (o, v, r) x ↔ Rel (isStrict o) x (v, r) := by
  rw [sat_ranged o v r x (by simp [isRanged, h]) hv hx]; simp [h]

theorem sat_lower (o : Op) (v : Ver) (r : Str) (x : Pt) (h : isGtOp o = true) (hv : WF v) (hx : WF x.1) :
    Sat (o, v, r) x ↔ Rel (isStrict o) (v, r) x := by
  have hl : isLtOp o = false := by cases o <;> simp_all [isLtOp, isGtOp]
  rw [sat_ranged o v r x (by simp [isRanged, h]) hv hx]; simp [hl]

theorem rangedVs_sound (ro : Op) (rv : Ver) (rr : Str) (oo : Op) (ov : Ver) (orv : Str)
    (hro : isRanged ro = true) (hll : (isLtOp ro && isLtOp oo) = false) (hgg : (isGtOp ro && isGtOp oo) = false)
    (hrv : WF rv) (hov : WF ov)
    (h : rangedVs (ro, rv, rr) (oo, ov, orv) = true) :
    Sat (ro, rv, rr) (rangedWitness (ro, rv, rr) (oo, ov, orv)) ∧
      Sat (oo, ov, orv) (rangedWitness (ro, rv, rr) (oo, ov, orv)) ∧
      WF (rangedWitness (ro, rv, rr) (oo, ov, orv)).1 := by
  by_cases hoo : isRanged oo = true
  · -- two ranges in opposite directions
    obtain ⟨h1, h2, h3⟩ := (rangedVs_ranged_iff ro rv rr oo ov orv hro hoo hrv hov).mp h
    simp only [rangedWitness, hoo, if_true]
    by_cases hA : isLtOp ro = true
    · have hB : isLtOp oo = false := by simpa [hA] using hll
      have hBg := isGt_of_ranged_not_lt hoo hB
      have hAg : isGtOp ro = false := by cases ro <;> simp_all [isLtOp, isGtOp]
      rw [sat_lower oo ov orv _ hBg hov hrv] at h1
      rw [sat_upper ro rv rr _ hA hrv hov] at h2
      have bt : Between (isStrict oo) (isStrict ro) (ov, orv) (rv, rr) :=
        ⟨h1, h2, fun a b c => by have := h3 b a c.symm; simp only at this ⊢; omega⟩
      cases hs1 : isStrict ro
      · rw [hs1] at bt
        simp only [Bool.not_false, if_true]
        have := between_upper_end _ _ _ bt
        exact ⟨(sat_upper ro rv rr _ hA hrv hrv).mpr (by rw [hs1]; exact this.2),
          (sat_lower oo ov orv _ hBg hov hrv).mpr this.1, hrv⟩
      · cases hs2 : isStrict oo
        · rw [hs2] at bt
          simp only [Bool.not_true, Bool.false_eq_true, if_false, Bool.not_false, if_true]
          have := between_lower_end _ _ _ bt
          exact ⟨(sat_upper ro rv rr _ hA hrv hov).mpr this.2,
            (sat_lower oo ov orv _ hBg hov hov).mpr (by rw [hs2]; exact this.1), hov⟩
        · rw [hs1, hs2] at bt
          simp only [Bool.not_true, Bool.false_eq_true, if_false, hAg]
          have := between_strict _ _ bt
          exact ⟨(sat_upper ro rv rr _ hA hrv (above_WF _ _ hov)).mpr (by rw [hs1]; exact this.2),
            (sat_lower oo ov orv _ hBg hov (above_WF _ _ hov)).mpr (by rw [hs2]; exact this.1), above_WF _ _ hov⟩
    · have hA' : isLtOp ro = false := by simpa using hA
      have hAg := isGt_of_ranged_not_lt hro hA'
      have hBg : isGtOp oo = false := by simpa [hAg] using hgg
      have hB : isLtOp oo = true := by cases oo <;> simp_all [isRanged, isLtOp, isGtOp]
      rw [sat_upper oo ov orv _ hB hov hrv] at h1
      rw [sat_lower ro rv rr _ hAg hrv hov] at h2
      have bt : Between (isStrict ro) (isStrict oo) (rv, rr) (ov, orv) := ⟨h2, h1, fun a b c => h3 a b c⟩
      cases hs1 : isStrict ro
      · rw [hs1] at bt
        simp only [Bool.not_false, if_true]
        have := between_lower_end _ _ _ bt
        exact ⟨(sat_lower ro rv rr _ hAg hrv hrv).mpr (by rw [hs1]; exact this.1),
          (sat_upper oo ov orv _ hB hov hrv).mpr this.2, hrv⟩
      · cases hs2 : isStrict oo
        · rw [hs2] at bt
          simp only [Bool.not_true, Bool.false_eq_true, if_false, Bool.not_false, if_true]
          have := between_upper_end _ _ _ bt
          exact ⟨(sat_lower ro rv rr _ hAg hrv hov).mpr this.1,
            (sat_upper oo ov orv _ hB hov hov).mpr (by rw [hs2]; exact this.2), hov⟩
        · rw [hs1, hs2] at bt
          simp only [Bool.not_true, Bool.false_eq_true, if_false, hAg, if_true]
          have := between_strict _ _ bt
          exact ⟨(sat_lower ro rv rr _ hAg hrv (above_WF _ _ hrv)).mpr (by rw [hs1]; exact this.1),
            (sat_upper oo ov orv _ hB hov (above_WF _ _ hrv)).mpr (by rw [hs2]; exact this.2), above_WF _ _ hrv⟩
  · have hoo' : isRanged oo = false := by simpa using hoo
    have hng := ranged_ne_glob hro
    by_cases ht : oo = .tilde
    · subst ht
      simp only [rangedVs, rangedWitness, hoo', Bool.false_eq_true, if_false, if_true] at h ⊢
      by_cases hm : vMatch ro rv rr ov orv = true
      · simp only [hm, if_true]
        refine ⟨?_, (sat_tilde ov orv _ hov hov).mpr rfl, hov⟩
        unfold Sat; rw [← vMatch_eq_opSpec ro rv rr ov orv hng hrv hov]; exact hm
      · simp only [hm, Bool.false_eq_true, if_false, Bool.and_eq_true] at h ⊢
        obtain ⟨hg, hm2⟩ := h
        have hsv : VK rv = VK ov := by
          have : Sat (.tilde, ov, orv) (rv, rr) := by
            unfold Sat; rw [← vMatch_eq_opSpec .tilde ov orv rv rr (by decide) hov hrv]; exact hm2
          exact (sat_tilde ov orv _ hov hrv).mp this
        refine ⟨(sat_lower ro rv rr _ hg hrv (above_WF _ _ hov)).mpr (Rel_of_LT ?_),
          (sat_tilde ov orv _ hov (above_WF _ _ hov)).mpr rfl, above_WF _ _ hov⟩
        apply (LT_sameV (a := (rv, rr)) (b := above ov rr) hsv).mpr
        simp only [above, natOfDigits_toDigits]; omega
    · by_cases hgl : oo = .glob
      · subst hgl
        simp only [rangedVs, rangedWitness, hoo', Bool.false_eq_true, if_false, reduceCtorEq, if_true] at h ⊢
        by_cases hm : vMatch ro rv rr ov orv = true
        · simp only [hm, if_true]
          refine ⟨?_, (sat_glob ov orv _ hov hov).mpr (glob_own ov orv), hov⟩
          unfold Sat; rw [← vMatch_eq_opSpec ro rv rr ov orv hng hrv hov]; exact hm
        · simp only [hm, Bool.false_eq_true, if_false] at h ⊢
          by_cases hz : natOfDigits orv = 0
          · simp only [hz, ne_eq, not_true_eq_false, if_false] at h
            by_cases hl : isLtOp ro = true
            · simp only [hl, if_true]
              refine ⟨(sat_upper ro rv rr _ hl hrv (below_WF _ hrv)).mpr (Rel_of_LT (below_lt rv rr)),
                (sat_glob ov orv _ hov (below_WF _ hrv)).mpr ?_, below_WF _ hrv⟩
              rw [glob_norev ov orv _ _ (below rv).2 hov (below_WF _ hrv) hz]
              exact glob_below ov rv hov hrv h
            · have hl' : isLtOp ro = false := by simpa using hl
              simp only [hl', Bool.false_eq_true, if_false]
              have hg := isGt_of_ranged_not_lt hro hl'
              refine ⟨(sat_lower ro rv rr _ hg hrv (above_WF _ _ hrv)).mpr (Rel_of_LT (above_gt rv rr)),
                (sat_glob ov orv _ hov (above_WF _ _ hrv)).mpr ?_, above_WF _ _ hrv⟩
              rw [glob_norev ov orv _ _ [] hov (above_WF _ _ hrv) hz]
              exact h
          · simp [hz] at h
      · -- `=` is excluded by the caller; nothing else is left
        cases oo <;> simp_all [rangedVs, isRanged, isLtOp, isGtOp]

end Pkgcore.C05

namespace Pkgcore.C05
open Pkgcore.C01 Pkgcore.C01.Spec Pkgcore.C04 Pkgcore.C04.Spec Pkgcore.C05.Spec Std
open Pkgcore.C02 (Op Str verHashKey VKey CompK compK)

attribute [local instance] lexOrd

/-! ### `rangedVs`: completeness -/

theorem rangedVs_complete (ro : Op) (rv : Ver) (rr : Str) (oo : Op) (ov : Ver) (orv : Str)
    (hro : isRanged ro = true) (hll : (isLtOp ro && isLtOp oo) = false) (hgg : (isGtOp ro && isGtOp oo) = false)
    (hoe : oo ≠ .eq) (hrv : WF rv) (hov : WF ov) (htil : oo = .tilde → natOfDigits orv = 0)
    (x : Pt) (hx : WF x.1) (s1 : Sat (ro, rv, rr) x) (s2 : Sat (oo, ov, orv) x) :
    rangedVs (ro, rv, rr) (oo, ov, orv) = true := by
  have hng := ranged_ne_glob hro
  by_cases hoo : isRanged oo = true
  · apply (rangedVs_ranged_iff ro rv rr oo ov orv hro hoo hrv hov).mpr
    by_cases hA : isLtOp ro = true
    · have hB : isLtOp oo = false := by simpa [hA] using hll
      have hBg := isGt_of_ranged_not_lt hoo hB
      rw [sat_upper ro rv rr _ hA hrv hx] at s1
      rw [sat_lower oo ov orv _ hBg hov hx] at s2
      have bt := between_complete (isStrict oo) (isStrict ro) (ov, orv) (rv, rr) x s2 s1
      refine ⟨(sat_lower oo ov orv _ hBg hov hrv).mpr bt.1, (sat_upper ro rv rr _ hA hrv hov).mpr bt.2.1, ?_⟩
      intro a b c
      have := bt.2.2 b a c.symm
      simp only at this ⊢; omega
    · have hA' : isLtOp ro = false := by simpa using hA
      have hAg := isGt_of_ranged_not_lt hro hA'
      have hBg : isGtOp oo = false := by simpa [hAg] using hgg
      have hB : isLtOp oo = true := by cases oo <;> simp_all [isRanged, isLtOp, isGtOp]
      rw [sat_lower ro rv rr _ hAg hrv hx] at s1
      rw [sat_upper oo ov orv _ hB hov hx] at s2
      have bt := between_complete (isStrict ro) (isStrict oo) (rv, rr) (ov, orv) x s1 s2
      exact ⟨(sat_upper oo ov orv _ hB hov hrv).mpr bt.2.1, (sat_lower ro rv rr _ hAg hrv hov).mpr bt.1,
        fun a b c => bt.2.2 a b c⟩
  · have hoo' : isRanged oo = false := by simpa using hoo
    by_cases ht : oo = .tilde
    · subst ht
      have hz := htil rfl
      simp only [rangedVs, hoo', Bool.false_eq_true, if_false, if_true]
      by_cases hm : vMatch ro rv rr ov orv = true
      · simp [hm]
      · simp only [hm, Bool.false_eq_true, if_false, Bool.and_eq_true]
        have hvx : VK x.1 = VK ov := (sat_tilde ov orv x hov hx).mp s2
        have hns : ¬ Sat (ro, rv, rr) (ov, orv) := by
          unfold Sat; rw [← vMatch_eq_opSpec ro rv rr ov orv hng hrv hov]; exact hm
        -- `ov-r0` is the least version with this value
        have hle : LE (ov, orv) x := (LE_sameV (a := (ov, orv)) (b := x) hvx.symm).mpr (by simp only [hz]; omega)
        by_cases hA : isLtOp ro = true
        · rw [sat_upper ro rv rr _ hA hrv hx] at s1
          exact absurd ((sat_upper ro rv rr _ hA hrv hov).mpr (Rel_of_LE_of_Rel hle s1)) hns
        · have hA' : isLtOp ro = false := by simpa using hA
          have hAg := isGt_of_ranged_not_lt hro hA'
          rw [sat_lower ro rv rr _ hAg hrv hx] at s1
          rw [sat_lower ro rv rr _ hAg hrv hov] at hns
          have h1 : LE (ov, orv) (rv, rr) := (not_Rel.mp hns).le
          have hv : VK rv = VK ov := sandwich_VK (a := (ov, orv)) (y := (rv, rr)) (c := x) h1 s1.le hvx.symm
          refine ⟨hAg, ?_⟩
          rw [vMatch_eq_opSpec .tilde ov orv rv rr (by decide) hov hrv]
          exact (sat_tilde ov orv (rv, rr) hov hrv).mpr hv
    · by_cases hgl : oo = .glob
      · subst hgl
        simp only [rangedVs, hoo', Bool.false_eq_true, if_false, reduceCtorEq, if_true]
        by_cases hm : vMatch ro rv rr ov orv = true
        · simp [hm]
        · simp only [hm, Bool.false_eq_true, if_false]
          have hns : ¬ Sat (ro, rv, rr) (ov, orv) := by
            unfold Sat; rw [← vMatch_eq_opSpec ro rv rr ov orv hng hrv hov]; exact hm
          have gx : verGlobMatch ov orv x.1 x.2 = true := (sat_glob ov orv x hov hx).mp s2
          by_cases hz : natOfDigits orv = 0
          · simp only [hz, ne_eq, not_true_eq_false, if_false]
            -- both `x` and the glob's own version are matched by the revision-less glob; `rv-rr` lies between them
            have gx0 : verGlobMatch ov [] x.1 x.2 = true := by rw [← glob_norev ov orv x.1 x.2 x.2 hov hx hz]; exact gx
            have go0 : verGlobMatch ov [] ov orv = true := by
              rw [← glob_norev ov orv ov orv orv hov hov hz]; exact glob_own ov orv
            have key : verGlobMatch ov [] rv rr = true := by
              by_cases hA : isLtOp ro = true
              · rw [sat_upper ro rv rr _ hA hrv hx] at s1
                rw [sat_upper ro rv rr _ hA hrv hov] at hns
                exact glob_convex ov x (rv, rr) (ov, orv) hov hx hrv hov gx0 go0 s1.le (not_Rel.mp hns).le
              · have hA' : isLtOp ro = false := by simpa using hA
                have hAg := isGt_of_ranged_not_lt hro hA'
                rw [sat_lower ro rv rr _ hAg hrv hx] at s1
                rw [sat_lower ro rv rr _ hAg hrv hov] at hns
                exact glob_convex ov (ov, orv) (rv, rr) x hov hov hrv hx go0 gx0 (not_Rel.mp hns).le s1.le
            rw [← glob_norev ov [] rv rr [] hov hrv natOfDigits_nil]; exact key
          · have := (glob_rev ov orv x.1 x.2 hov hx hz).mp gx
            exact absurd ((sat_congr (ro, rv, rr) x (ov, orv) hrv hx hov this.symm).mp s1) hns
      · cases oo <;> simp_all [isRanged, isLtOp, isGtOp]

end Pkgcore.C05

namespace Pkgcore.C05
open Pkgcore.C01 Pkgcore.C01.Spec Pkgcore.C04 Pkgcore.C04.Spec Pkgcore.C05.Spec Std
open Pkgcore.C02 (Op Str verHashKey VKey CompK compK)

attribute [local instance] lexOrd

/-! ### `vInter`: the branches -/

theorem verCmp_eq_PK (va vb : Ver) (ra rb : Str) (ha : WF va) (hb : WF vb) :
    verCmp va (some ra) vb (some rb) = compare (PK (va, ra)) (PK (vb, rb)) := by
  rw [verCmp_eq_pms_aux _ _ _ _ (Or.inr ⟨rfl, rfl⟩), pms_eq_PK va vb ra rb ha hb]

theorem both_upper_sound (oa ob : Op) (va vb : Ver) (ra rb : Str) (ha : isLtOp oa = true) (hb : isLtOp ob = true)
    (wa : WF va) (wb : WF vb) :
    Sat (oa, va, ra) (if (verCmp va (some ra) vb (some rb) == .gt) = true then below vb else below va) ∧
    Sat (ob, vb, rb) (if (verCmp va (some ra) vb (some rb) == .gt) = true then below vb else below va) ∧
    WF (if (verCmp va (some ra) vb (some rb) == .gt) = true then below vb else below va).1 := by
  rw [verCmp_eq_PK va vb ra rb wa wb]
  by_cases hg : compare (PK (va, ra)) (PK (vb, rb)) = .gt
  · simp only [hg, beq_self_eq_true, if_true]
    have hba : LT (vb, rb) (va, ra) := OrientedCmp.lt_of_gt (cmp := (compare : VKT × Nat → VKT × Nat → Ordering)) hg
    have h1 : LT (below vb) (vb, rb) := below_lt vb rb
    exact ⟨(sat_upper oa va ra _ ha wa (below_WF _ wb)).mpr (Rel_of_LT (LT_trans h1 hba)),
      (sat_upper ob vb rb _ hb wb (below_WF _ wb)).mpr (Rel_of_LT h1), below_WF _ wb⟩
  · have hne : (compare (PK (va, ra)) (PK (vb, rb)) == Ordering.gt) = false := by
      cases h : compare (PK (va, ra)) (PK (vb, rb)) <;> simp_all
    simp only [hne, Bool.false_eq_true, if_false]
    have hab : LE (va, ra) (vb, rb) := by
      unfold LE; cases h : compare (PK (va, ra)) (PK (vb, rb)) <;> simp_all [Ordering.isLE]
    have h1 : LT (below va) (va, ra) := below_lt va ra
    exact ⟨(sat_upper oa va ra _ ha wa (below_WF _ wa)).mpr (Rel_of_LT h1),
      (sat_upper ob vb rb _ hb wb (below_WF _ wa)).mpr (Rel_of_LT (LT_of_LT_of_LE h1 hab)), below_WF _ wa⟩

theorem both_lower_sound (oa ob : Op) (va vb : Ver) (ra rb : Str) (ha : isGtOp oa = true) (hb : isGtOp ob = true)
    (wa : WF va) (wb : WF vb) :
    Sat (oa, va, ra) (if (verCmp va (some ra) vb (some rb) == .lt) = true then above vb rb else above va ra) ∧
    Sat (ob, vb, rb) (if (verCmp va (some ra) vb (some rb) == .lt) = true then above vb rb else above va ra) ∧
    WF (if (verCmp va (some ra) vb (some rb) == .lt) = true then above vb rb else above va ra).1 := by
  rw [verCmp_eq_PK va vb ra rb wa wb]
  by_cases hl : compare (PK (va, ra)) (PK (vb, rb)) = .lt
  · simp only [hl, beq_self_eq_true, if_true]
    have h1 : LT (vb, rb) (above vb rb) := above_gt vb rb
    exact ⟨(sat_lower oa va ra _ ha wa (above_WF _ _ wb)).mpr (Rel_of_LT (LT_trans hl h1)),
      (sat_lower ob vb rb _ hb wb (above_WF _ _ wb)).mpr (Rel_of_LT h1), above_WF _ _ wb⟩
  · have hne : (compare (PK (va, ra)) (PK (vb, rb)) == Ordering.lt) = false := by
      cases h : compare (PK (va, ra)) (PK (vb, rb)) <;> simp_all
    simp only [hne, Bool.false_eq_true, if_false]
    have hba : LE (vb, rb) (va, ra) := not_LT.mp hl
    have h1 : LT (va, ra) (above va ra) := above_gt va ra
    exact ⟨(sat_lower oa va ra _ ha wa (above_WF _ _ wa)).mpr (Rel_of_LT h1),
      (sat_lower ob vb rb _ hb wb (above_WF _ _ wa)).mpr (Rel_of_LT (LT_of_LE_of_LT hba h1)), above_WF _ _ wa⟩

/-- what the `=` branches compute: does `c` accept the version `p`? -/
def accepts (c : VC) (p : Pt) : Bool :=
  if c.1 = .glob then verGlobMatch c.2.1 c.2.2 p.1 p.2 else vMatch c.1 c.2.1 c.2.2 p.1 p.2

theorem accepts_iff (c : VC) (p : Pt) (hc : WF c.2.1) (hp : WF p.1) : accepts c p = true ↔ Sat c p := by
  obtain ⟨o, v, r⟩ := c
  unfold accepts
  by_cases h : o = .glob
  · subst h; simp only [if_true]; exact (sat_glob v r p hc hp).symm
  · simp only [h, if_false]; unfold Sat; rw [vMatch_eq_opSpec o v r p.1 p.2 h hc hp]

theorem sat_own_eq (v : Ver) (r : Str) (h : WF v) : Sat (.eq, v, r) (v, r) := (sat_eq v r (v, r) h h).mpr rfl

end Pkgcore.C05

namespace Pkgcore.C05
open Pkgcore.C01 Pkgcore.C01.Spec Pkgcore.C04 Pkgcore.C04.Spec Pkgcore.C05.Spec Std
open Pkgcore.C02 (Op Str verHashKey VKey CompK compK)

attribute [local instance] lexOrd

/-- a version constraint as `atom.__init__` produces it: valid version; `~` never carries a revision -/
def VCok (c : VC) : Prop := WF c.2.1 ∧ (c.1 = .tilde → natOfDigits c.2.2 = 0)

/-! ### `vInter`: soundness — the witness is accepted by both constraints -/

theorem vInter_sound (a b : VC) (ha : VCok a) (hb : VCok b) (h : vInter a b = true) :
    Sat a (vWitness a b) ∧ Sat b (vWitness a b) ∧ WF (vWitness a b).1 := by
  obtain ⟨oa, va, ra⟩ := a
  obtain ⟨ob, vb, rb⟩ := b
  have wa : WF va := ha.1
  have wb : WF vb := hb.1
  by_cases c1 : (isLtOp oa && isLtOp ob) = true
  · simp only [vWitness, c1, if_true]
    simp only [Bool.and_eq_true] at c1
    exact both_upper_sound oa ob va vb ra rb c1.1 c1.2 wa wb
  have c1' : (isLtOp oa && isLtOp ob) = false := by simpa using c1
  by_cases c2 : (isGtOp oa && isGtOp ob) = true
  · simp only [vWitness, c1', Bool.false_eq_true, if_false, c2, if_true]
    simp only [Bool.and_eq_true] at c2
    exact both_lower_sound oa ob va vb ra rb c2.1 c2.2 wa wb
  have c2' : (isGtOp oa && isGtOp ob) = false := by simpa using c2
  simp only [vInter, vWitness, c1', c2', Bool.or_self, Bool.false_eq_true, if_false] at h ⊢
  by_cases e1 : oa = .eq
  · subst e1
    simp only [if_true] at h ⊢
    exact ⟨sat_own_eq va ra wa, (accepts_iff (ob, vb, rb) (va, ra) wb wa).mp h, wa⟩
  simp only [e1, if_false] at h ⊢
  by_cases e2 : ob = .eq
  · subst e2
    simp only [if_true] at h ⊢
    exact ⟨(accepts_iff (oa, va, ra) (vb, rb) wa wb).mp h, sat_own_eq vb rb wb, wb⟩
  simp only [e2, if_false] at h ⊢
  by_cases e3 : oa = .tilde ∧ ob = .tilde
  · obtain ⟨rfl, rfl⟩ := e3
    simp only [and_self, if_true] at h ⊢
    exact ⟨(sat_tilde va ra _ wa wa).mpr rfl, (sat_tilde vb rb _ wb wa).mpr ((sameV_iff va vb wa wb).mp h), wa⟩
  simp only [e3, if_false] at h ⊢
  by_cases e4 : oa = .glob ∧ ob = .glob
  · obtain ⟨rfl, rfl⟩ := e4
    simp only [and_self, if_true, Bool.or_eq_true] at h ⊢
    by_cases g : verGlobMatch vb rb va ra = true
    · simp only [g, if_true]
      exact ⟨(sat_glob va ra _ wa wa).mpr (glob_own va ra), (sat_glob vb rb _ wb wa).mpr g, wa⟩
    · simp only [g, Bool.false_eq_true, if_false, false_or] at h ⊢
      exact ⟨(sat_glob va ra _ wa wb).mpr h, (sat_glob vb rb _ wb wb).mpr (glob_own vb rb), wb⟩
  simp only [e4, if_false] at h ⊢
  by_cases e5 : oa = .glob ∧ ob = .tilde
  · obtain ⟨rfl, rfl⟩ := e5
    simp only [and_self, if_true] at h ⊢
    exact ⟨(sat_glob va ra _ wa wb).mpr h, (sat_tilde vb rb _ wb wb).mpr rfl, wb⟩
  simp only [e5, if_false] at h ⊢
  by_cases e6 : ob = .glob ∧ oa = .tilde
  · obtain ⟨rfl, rfl⟩ := e6
    simp only [and_self, if_true] at h ⊢
    exact ⟨(sat_tilde va ra _ wa wa).mpr rfl, (sat_glob vb rb _ wb wa).mpr h, wa⟩
  simp only [e6, if_false] at h ⊢
  by_cases e7 : isRanged oa = true
  · simp only [e7, if_true] at h ⊢
    exact rangedVs_sound oa va ra ob vb rb e7 c1' c2' wa wb h
  · have e7' : isRanged oa = false := by simpa using e7
    simp only [e7', Bool.false_eq_true, if_false] at h ⊢
    have hrb : isRanged ob = true := by
      cases oa <;> cases ob <;> simp_all [isRanged, isLtOp, isGtOp]
    have k1 : (isLtOp ob && isLtOp oa) = false := by cases oa <;> simp_all [isRanged, isLtOp, isGtOp]
    have k2 : (isGtOp ob && isGtOp oa) = false := by cases oa <;> simp_all [isRanged, isLtOp, isGtOp]
    have := rangedVs_sound ob vb rb oa va ra hrb k1 k2 wb wa h
    exact ⟨this.2.1, this.1, this.2.2⟩

end Pkgcore.C05

namespace Pkgcore.C05
open Pkgcore.C01 Pkgcore.C01.Spec Pkgcore.C04 Pkgcore.C04.Spec Pkgcore.C05.Spec Std
open Pkgcore.C02 (Op Str verHashKey VKey CompK compK)

attribute [local instance] lexOrd

/-! ### `vInter`: completeness — a common version forces the answer `True` -/

theorem vInter_complete (a b : VC) (ha : VCok a) (hb : VCok b) (x : Pt) (hx : WF x.1)
    (sa : Sat a x) (sb : Sat b x) : vInter a b = true := by
  obtain ⟨oa, va, ra⟩ := a
  obtain ⟨ob, vb, rb⟩ := b
  have wa : WF va := ha.1
  have wb : WF vb := hb.1
  by_cases c0 : ((isLtOp oa && isLtOp ob) || (isGtOp oa && isGtOp ob)) = true
  · simp only [vInter, c0, if_true]
  have c0' : ((isLtOp oa && isLtOp ob) || (isGtOp oa && isGtOp ob)) = false := by simpa using c0
  have c1' : (isLtOp oa && isLtOp ob) = false := by
    cases h : (isLtOp oa && isLtOp ob) <;> simp_all
  have c2' : (isGtOp oa && isGtOp ob) = false := by
    cases h : (isGtOp oa && isGtOp ob) <;> simp_all
  simp only [vInter, c0', Bool.false_eq_true, if_false]
  by_cases e1 : oa = .eq
  · subst e1
    simp only [if_true]
    have hp : PK x = PK (va, ra) := (sat_eq va ra x wa hx).mp sa
    exact (accepts_iff (ob, vb, rb) (va, ra) wb wa).mpr ((sat_congr (ob, vb, rb) x (va, ra) wb hx wa hp).mp sb)
  simp only [e1, if_false]
  by_cases e2 : ob = .eq
  · subst e2
    simp only [if_true]
    have hp : PK x = PK (vb, rb) := (sat_eq vb rb x wb hx).mp sb
    exact (accepts_iff (oa, va, ra) (vb, rb) wa wb).mpr ((sat_congr (oa, va, ra) x (vb, rb) wa hx wb hp).mp sa)
  simp only [e2, if_false]
  by_cases e3 : oa = .tilde ∧ ob = .tilde
  · obtain ⟨rfl, rfl⟩ := e3
    simp only [and_self, if_true]
    have h1 := (sat_tilde va ra x wa hx).mp sa
    have h2 := (sat_tilde vb rb x wb hx).mp sb
    exact (sameV_iff va vb wa wb).mpr (h1.symm.trans h2)
  simp only [e3, if_false]
  by_cases e4 : oa = .glob ∧ ob = .glob
  · obtain ⟨rfl, rfl⟩ := e4
    simp only [and_self, if_true, Bool.or_eq_true]
    exact glob_linear va ra vb rb x.1 x.2 ((sat_glob va ra x wa hx).mp sa) ((sat_glob vb rb x wb hx).mp sb)
  simp only [e4, if_false]
  -- a glob and a `~`: the glob matches the `~`'s version at the glob's own revision
  have globTilde : ∀ (gv : Ver) (gr : Str) (tv : Ver) (tr : Str), WF gv → WF tv →
      Sat (.glob, gv, gr) x → Sat (.tilde, tv, tr) x → verGlobMatch gv gr tv gr = true := by
    intro gv gr tv tr wg wt sg st'
    have hv : VK x.1 = VK tv := (sat_tilde tv tr x wt hx).mp st'
    have gx := (sat_glob gv gr x wg hx).mp sg
    by_cases hz : natOfDigits gr = 0
    · have e : PK (x.1, gr) = PK (tv, gr) := by simp only [PK, hv]
      have s' : Sat (.glob, gv, gr) (x.1, gr) := by
        apply (sat_glob gv gr (x.1, gr) wg hx).mpr
        rw [glob_norev gv gr x.1 gr x.2 wg hx hz, ← glob_norev gv gr x.1 x.2 x.2 wg hx hz]; exact gx
      exact (sat_glob gv gr (tv, gr) wg wt).mp ((sat_congr (.glob, gv, gr) (x.1, gr) (tv, gr) wg hx wt e).mp s')
    · have e := (glob_rev gv gr x.1 x.2 wg hx hz).mp gx
      apply (glob_rev gv gr tv gr wg wt hz).mpr
      simp only [PK, Prod.mk.injEq] at e ⊢
      exact ⟨e.1.trans hv, trivial⟩
  by_cases e5 : oa = .glob ∧ ob = .tilde
  · obtain ⟨rfl, rfl⟩ := e5
    simp only [and_self, if_true]
    exact globTilde va ra vb rb wa wb sa sb
  simp only [e5, if_false]
  by_cases e6 : ob = .glob ∧ oa = .tilde
  · obtain ⟨rfl, rfl⟩ := e6
    simp only [and_self, if_true]
    exact globTilde vb rb va ra wb wa sb sa
  simp only [e6, if_false]
  by_cases e7 : isRanged oa = true
  · simp only [e7, if_true]
    exact rangedVs_complete oa va ra ob vb rb e7 c1' c2' e2 wa wb hb.2 x hx sa sb
  · have e7' : isRanged oa = false := by simpa using e7
    simp only [e7', Bool.false_eq_true, if_false]
    have hrb : isRanged ob = true := by
      cases oa <;> cases ob <;> simp_all [isRanged, isLtOp, isGtOp]
    have k1 : (isLtOp ob && isLtOp oa) = false := by cases oa <;> simp_all [isRanged, isLtOp, isGtOp]
    have k2 : (isGtOp ob && isGtOp oa) = false := by cases oa <;> simp_all [isRanged, isLtOp, isGtOp]
    exact rangedVs_complete ob vb rb oa va ra hrb k1 k2 e1 wb wa ha.2 x hx sb sa

/-- a single constraint is satisfiable, by `ownWitness` -/
theorem ownWitness_sat (c : VC) (hc : VCok c) : Sat c (ownWitness c) ∧ WF (ownWitness c).1 := by
  obtain ⟨o, v, r⟩ := c
  have w : WF v := hc.1
  cases o
  case lt => exact ⟨(sat_upper .lt v r _ rfl w (below_WF _ w)).mpr (below_lt v r), below_WF _ w⟩
  case gt => exact ⟨(sat_lower .gt v r _ rfl w (above_WF _ _ w)).mpr (above_gt v r), above_WF _ _ w⟩
  case le => exact ⟨(sat_upper .le v r _ rfl w w).mpr (LE_refl _), w⟩
  case ge => exact ⟨(sat_lower .ge v r _ rfl w w).mpr (LE_refl _), w⟩
  case eq => exact ⟨sat_own_eq v r w, w⟩
  case tilde => exact ⟨(sat_tilde v r _ w w).mpr rfl, w⟩
  case glob => exact ⟨(sat_glob v r _ w w).mpr (glob_own v r), w⟩

end Pkgcore.C05
