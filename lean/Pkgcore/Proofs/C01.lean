import Pkgcore.Spec.C01
/-! helper lemmas for C01 -/
namespace Pkgcore.C01
open Pkgcore.C01.Spec Std

theorem ite_ne_eq_then (c d : Ordering) : (if c ≠ .eq then c else d) = c.then d := by
  cases c <;> simp [Ordering.then]

theorem natcmp_self (n : Nat) : compare n n = .eq := by simp
theorem listcmp_self (l : List Char) : compare l l = .eq := ReflCmp.compare_self

theorem pmsComp_self (a : List Char) : pmsComp a a = .eq := by
  unfold pmsComp; split <;> simp [listcmp_self]

theorem sufVal_eq_rank (s : Suf) : sufVal s = rank s := by
  cases s <;> decide

theorem rank_ne_zero (s : Suf) : rank s ≠ 0 := by cases s <;> decide

def lenCmp (as bs : List (List Char)) : Ordering :=
  if as.length > bs.length then .gt else if bs.length > as.length then .lt else .eq

theorem compLoop_rest (i : Nat) (as bs : List (List Char)) :
    (compLoop (i + 1) as bs).then (lenCmp as bs) = pmsRest as bs := by
  induction as generalizing i bs with
  | nil => cases bs <;> simp [compLoop, lenCmp, pmsRest]
  | cons a as ih =>
    cases bs with
    | nil => simp [compLoop, lenCmp, pmsRest]
    | cons b bs =>
      have hl : lenCmp (a :: as) (b :: bs) = lenCmp as bs := by simp [lenCmp]
      rw [hl]
      unfold compLoop
      by_cases hab : a = b
      · subst hab; simp [pmsRest, pmsComp_self, ih]
      · simp only [hab, if_false, pmsRest]
        rw [ite_ne_eq_then, Ordering.then_assoc, ih]
        congr 1
        unfold pmsComp
        by_cases h : a.head? = some '0' ∨ b.head? = some '0'
        · have : ¬ (a.head? ≠ some '0' ∧ b.head? ≠ some '0') := by
            intro ⟨h1, h2⟩; cases h <;> contradiction
          simp [h, this]
        · have h' : a.head? ≠ some '0' ∧ b.head? ≠ some '0' := by
            constructor <;> intro hc <;> exact h (by simp [hc])
          simp [h, h']

theorem compLoop_numbers (as bs : List (List Char)) :
    (compLoop 0 as bs).then (lenCmp as bs) = pmsNumbers as bs := by
  cases as with
  | nil => cases bs <;> simp [compLoop, lenCmp, pmsNumbers]
  | cons a as =>
    cases bs with
    | nil => simp [compLoop, lenCmp, pmsNumbers]
    | cons b bs =>
      have hl : lenCmp (a :: as) (b :: bs) = lenCmp as bs := by simp [lenCmp]
      rw [hl]
      unfold compLoop
      by_cases hab : a = b
      · subst hab; simp [pmsNumbers, compLoop_rest]
      · simp only [hab, if_false, pmsNumbers, true_or, if_true]
        rw [ite_ne_eq_then, Ordering.then_assoc, compLoop_rest]

theorem pmsNumbers_self (as : List (List Char)) : pmsNumbers as as = .eq := by
  have hr : ∀ l : List (List Char), pmsRest l l = .eq := by
    intro l; induction l with
    | nil => simp [pmsRest]
    | cons a l ih => simp [pmsRest, pmsComp_self, ih]
  cases as <;> simp [pmsNumbers, hr]

theorem pmsLetter_self (a : Option Char) : pmsLetter a a = .eq := by
  cases a <;> simp [pmsLetter]

theorem cmp_int_nat (x y : Int) (a b : Nat) (h1 : x < y ↔ a < b) (h2 : y < x ↔ b < a) :
    compare x y = compare a b := by
  rcases Nat.lt_trichotomy a b with h | h | h
  · rw [Nat.compare_eq_lt.mpr h, Int.compare_eq_lt.mpr (h1.mpr h)]
  · subst h
    have hx : ¬ x < y := fun c => Nat.lt_irrefl _ (h1.mp c)
    have hy : ¬ y < x := fun c => Nat.lt_irrefl _ (h2.mp c)
    have : x = y := by omega
    subst this; simp
  · rw [Nat.compare_eq_gt.mpr h, Int.compare_eq_gt.mpr (h2.mpr h)]

theorem letterVal_cmp (a b : Option Char) :
    compare (letterVal a) (letterVal b) = pmsLetter a b := by
  cases a <;> cases b <;> simp only [letterVal, pmsLetter]
  · simp
  · rw [Int.compare_eq_lt]; omega
  · rw [Int.compare_eq_gt]; omega
  · apply cmp_int_nat <;> omega

end Pkgcore.C01

namespace Pkgcore.C01
open Pkgcore.C01.Spec Std

theorem int_cmp_zero_rank (s : Suf) : compare (0 : Int) (rank s) = if s = .p then .lt else .gt := by
  cases s <;> decide
theorem int_cmp_rank_zero (s : Suf) : compare (rank s) (0 : Int) = if s = .p then .gt else .lt := by
  cases s <;> decide

theorem pmsSufs_self (l : List (Suf × List Char)) : pmsSufs l l = .eq := by
  induction l with
  | nil => simp [pmsSufs]
  | cons x l ih => obtain ⟨s, n⟩ := x; simp [pmsSufs, ih]

theorem sufLoop_eq (xs ys : List (Suf × List Char)) : sufLoop xs ys = pmsSufs xs ys := by
  induction xs generalizing ys with
  | nil =>
    cases ys with
    | nil => simp [sufLoop, pmsSufs]
    | cons y ys =>
      obtain ⟨s, n⟩ := y
      simp only [sufLoop, pmsSufs, sufVal_eq_rank, ne_eq, rank_ne_zero, not_false_eq_true, if_true,
        int_cmp_zero_rank]
  | cons x xs ih =>
    obtain ⟨s, n⟩ := x
    cases ys with
    | nil =>
      simp only [sufLoop, pmsSufs, sufVal_eq_rank, ne_eq, rank_ne_zero, not_false_eq_true, if_true,
        int_cmp_rank_zero]
    | cons y ys =>
      obtain ⟨t, m⟩ := y
      unfold sufLoop
      by_cases h : (s, n) = (t, m)
      · cases h; simp [pmsSufs, ih]
      · simp only [h, if_false, pmsSufs, sufVal_eq_rank]
        rw [ite_ne_eq_then, ite_ne_eq_then, ih, Ordering.then_assoc]

/-- revisions are used consistently: both `None` (the `~` operator) or both `Revision` objects -/
def RevsOk (r1 r2 : Rev) : Prop := (r1 = none ∧ r2 = none) ∨ (r1.isSome ∧ r2.isSome)

theorem natOfDigits_nil : natOfDigits [] = 0 := rfl

theorem rev_shortcut (r1 r2 : Rev) (h : RevsOk r1 r2) :
    (if (!r1.truthy && !r2.truthy) = true then Ordering.eq else cmpRev r1 r2)
      = compare (revNat r1) (revNat r2) := by
  rcases h with ⟨h1, h2⟩ | ⟨h1, h2⟩
  · subst h1; subst h2; simp [Rev.truthy, revNat]
  · cases r1 with
    | none => simp at h1
    | some a =>
      cases r2 with
      | none => simp at h2
      | some b =>
        cases a <;> cases b <;> simp [Rev.truthy, revNat, cmpRev, natOfDigits_nil]

theorem cmpRev_eq (r1 r2 : Rev) (h : RevsOk r1 r2) : cmpRev r1 r2 = compare (revNat r1) (revNat r2) := by
  rcases h with ⟨h1, h2⟩ | ⟨h1, h2⟩
  · subst h1; subst h2; simp [cmpRev, revNat]
  · cases r1 <;> cases r2 <;> simp_all [cmpRev, revNat]

theorem lenCmp_eq_of_letter (c1 c2 : List (List Char)) (l1 l2 : Option Char) :
    (lenCmp c1 c2).then (compare (letterVal l1) (letterVal l2)) =
      (if c1.length > c2.length then Ordering.gt
       else if c2.length > c1.length then .lt
       else if letterVal l1 ≠ letterVal l2 then compare (letterVal l1) (letterVal l2) else .eq) := by
  unfold lenCmp
  split
  · rfl
  · split
    · rfl
    · split
      · rfl
      · rename_i h; simp at h; simp [h]

end Pkgcore.C01

namespace Pkgcore.C01
open Pkgcore.C01.Spec Std

theorem verCmp_eq_pms_aux (v1 v2 : Ver) (r1 r2 : Rev) (h : RevsOk r1 r2) :
    verCmp v1 r1 v2 r2 = pmsCmp v1 r1 v2 r2 := by
  unfold verCmp pmsCmp
  by_cases hv : v1 = v2
  · subst hv
    simp only [if_true, pmsNumbers_self, pmsLetter_self, pmsSufs_self, Ordering.then]
    exact rev_shortcut r1 r2 h
  · simp only [hv, if_false]
    have hd : (if v1.comps = v2.comps ∧ v1.letter = v2.letter then Ordering.eq
        else
          if compLoop 0 v1.comps v2.comps ≠ .eq then compLoop 0 v1.comps v2.comps
          else if v1.comps.length > v2.comps.length then .gt
          else if v2.comps.length > v1.comps.length then .lt
          else if letterVal v1.letter ≠ letterVal v2.letter then compare (letterVal v1.letter) (letterVal v2.letter)
          else .eq) = (pmsNumbers v1.comps v2.comps).then (pmsLetter v1.letter v2.letter) := by
      by_cases he : v1.comps = v2.comps ∧ v1.letter = v2.letter
      · obtain ⟨h1, h2⟩ := he
        simp [h1, h2, pmsNumbers_self, pmsLetter_self]
      · simp only [he, if_false]
        rw [ite_ne_eq_then, ← lenCmp_eq_of_letter, ← Ordering.then_assoc, compLoop_numbers, letterVal_cmp]
    rw [hd, ite_ne_eq_then, ite_ne_eq_then, sufLoop_eq, cmpRev_eq r1 r2 h, Ordering.then_assoc]

end Pkgcore.C01

namespace Pkgcore.C01
open Pkgcore.C01.Spec Std

theorem zero_lt_digit (c : Char) (h : c.isDigit = true) (hne : c ≠ '0') : compare '0' c = .lt := by
  have h1 : '0' < c := by
    simp [Char.isDigit] at h
    have h3 : c.val ≠ '0'.val := fun e => hne (Char.ext e)
    rw [Char.lt_def]
    have e : '0'.val = 48 := rfl
    rw [e] at h3 ⊢
    obtain ⟨ha, hb⟩ := h
    rw [UInt32.le_iff_toNat_le] at ha
    rw [UInt32.lt_iff_toNat_lt]
    have : c.val.toNat ≠ (48 : UInt32).toNat := fun e => h3 (UInt32.toNat_inj.mp e)
    simp at *
    omega
  simp [compare, compareOfLessAndEq, h1]

attribute [local instance] lexOrd

theorem lex_pair {α β} [Ord α] [Ord β] (a c : α) (b d : β) :
    compare (a, b) (c, d) = (compare a c).then (compare b d) := rfl

-- (the key embedding `CompKey`, `compKey`, `Key`, `letterKey`, `sufKey`, `key` is defined in Spec/C01.lean so that
-- executable specs of other properties can use it without importing proofs)

theorem rstrip0_zero_lt (t u : List Char) (c : Char) (hc : c.isDigit = true) (hne : c ≠ '0') :
    compare (rstrip0 ('0' :: t)) (rstrip0 (c :: u)) = .lt := by
  have h2 : rstrip0 (c :: u) = c :: rstrip0 u := by simp [rstrip0, hne]
  rw [h2]
  by_cases h : rstrip0 t = []
  · simp [rstrip0, h]
  · simp [rstrip0, h, zero_lt_digit c hc hne]

theorem pmsComp_eq_key (a b : List Char) (ha : digits a) (hb : digits b) :
    pmsComp a b = compare (compKey a) (compKey b) := by
  obtain ⟨hane, had⟩ := ha
  obtain ⟨hbne, hbd⟩ := hb
  cases a with
  | nil => exact absurd rfl hane
  | cons x t =>
    cases b with
    | nil => exact absurd rfl hbne
    | cons y u =>
      have hx := had x (by simp)
      have hy := hbd y (by simp)
      unfold pmsComp compKey
      by_cases h1 : x = '0' <;> by_cases h2 : y = '0'
      · subst h1; subst h2; simp [lex_pair]
      · subst h1
        simp only [List.head?_cons, true_or, if_true, Option.some.injEq, h2, if_false, lex_pair]
        rw [rstrip0_zero_lt t u y hy h2]; rfl
      · subst h2
        simp only [List.head?_cons, or_true, if_true, Option.some.injEq, h1, if_false, lex_pair]
        have := rstrip0_zero_lt u t x hx h1
        rw [OrientedCmp.eq_swap (cmp := compare) (a := rstrip0 (x :: t)), this]; rfl
      · simp [h1, h2, lex_pair]

theorem pmsRest_eq_key (as bs : List (List Char)) (ha : ∀ c ∈ as, digits c) (hb : ∀ c ∈ bs, digits c) :
    pmsRest as bs = compare (as.map compKey) (bs.map compKey) := by
  induction as generalizing bs with
  | nil => cases bs <;> simp [pmsRest]
  | cons a as ih =>
    cases bs with
    | nil => simp [pmsRest]
    | cons b bs =>
      simp only [pmsRest, List.map_cons, List.compare_cons_cons]
      rw [pmsComp_eq_key a b (ha a (by simp)) (hb b (by simp)),
        ih bs (fun c hc => ha c (by simp [hc])) (fun c hc => hb c (by simp [hc]))]

theorem letterKey_cmp (a b : Option Char) : pmsLetter a b = compare (letterKey a) (letterKey b) := by
  cases a <;> cases b <;> simp only [pmsLetter, letterKey]
  · simp
  · symm; rw [Nat.compare_eq_lt]; omega
  · symm; rw [Nat.compare_eq_gt]; omega
  · rename_i x y
    rcases Nat.lt_trichotomy x.toNat y.toNat with h | h | h
    · rw [Nat.compare_eq_lt.mpr h, Nat.compare_eq_lt.mpr (by omega)]
    · rw [h]; simp
    · rw [Nat.compare_eq_gt.mpr h, Nat.compare_eq_gt.mpr (by omega)]

theorem pmsSufs_eq_key (xs ys : List (Suf × List Char)) :
    pmsSufs xs ys = compare (xs.map sufKey ++ [((0 : Int), (0 : Nat))]) (ys.map sufKey ++ [(0, 0)]) := by
  induction xs generalizing ys with
  | nil =>
    cases ys with
    | nil => simp [pmsSufs, lex_pair]
    | cons y ys =>
      obtain ⟨s, n⟩ := y
      simp only [pmsSufs, List.map_nil, List.nil_append, List.map_cons, List.cons_append,
        List.compare_cons_cons, lex_pair, sufKey, int_cmp_zero_rank]
      by_cases hp : s = .p <;> simp [hp, Ordering.then]
  | cons x xs ih =>
    obtain ⟨s, n⟩ := x
    cases ys with
    | nil =>
      simp only [pmsSufs, List.map_nil, List.nil_append, List.map_cons, List.cons_append,
        List.compare_cons_cons, lex_pair, sufKey, int_cmp_rank_zero]
      by_cases hp : s = .p <;> simp [hp, Ordering.then]
    | cons y ys =>
      obtain ⟨t, m⟩ := y
      simp only [pmsSufs, List.map_cons, List.cons_append, List.compare_cons_cons, lex_pair, sufKey, ih]

theorem pmsCmp_eq_key (v1 v2 : Ver) (r1 r2 : Rev) (h1 : WF v1) (h2 : WF v2) :
    pmsCmp v1 r1 v2 r2 = compare (key v1 r1) (key v2 r2) := by
  obtain ⟨n1, d1⟩ := h1
  obtain ⟨n2, d2⟩ := h2
  unfold pmsCmp key
  cases hc1 : v1.comps with
  | nil => exact absurd hc1 n1
  | cons a as =>
    cases hc2 : v2.comps with
    | nil => exact absurd hc2 n2
    | cons b bs =>
      simp only [pmsNumbers, List.headD_cons, List.tail_cons, lex_pair]
      rw [pmsRest_eq_key as bs (fun c hc => d1 c (by simp [hc1, hc])) (fun c hc => d2 c (by simp [hc2, hc])),
        ← letterKey_cmp, ← pmsSufs_eq_key, Ordering.then_assoc]

end Pkgcore.C01
