import Pkgcore.Spec.C36
/-! # C36 helper lemmas: what each `_verify` outcome means, and invariants of the fetch loop -/
namespace Pkgcore.C36
open Pkgcore.C36.Spec

theorem verify_ok_iff (t : Target) (f : File) :
    verify t f = .ok ↔ (Verified t f = true ∧ (t.size.isSome = true ∨ File.nonEmpty f = true)) := by
  cases f with
  | missing => simp [verify, Verified]
  | present sz ok =>
    rcases t with ⟨_ | want, other⟩
    · by_cases h0 : sz = 0 <;> cases other <;> cases ok <;> simp [verify, verifySums, Verified, File.nonEmpty, h0]
    · by_cases h : sz = want
      · subst h; cases other <;> cases ok <;> simp [verify, verifySums, Verified]
      · have h' : ¬ want = sz := fun e => h e.symm
        by_cases hl : sz < want <;> simp [verify, Verified, h, h', hl]

theorem verify_chksum_iff (t : Target) (f : File) : verify t f = .chksum ↔ Wrong t f = true := by
  cases f with
  | missing => simp [verify, Wrong]
  | present sz ok =>
    rcases t with ⟨_ | want, other⟩
    · by_cases h0 : sz = 0 <;> cases other <;> cases ok <;> simp [verify, verifySums, Wrong, h0]
    · by_cases h : sz = want
      · subst h; cases other <;> cases ok <;> simp [verify, verifySums, Wrong]
      · by_cases hl : sz < want
        · have : ¬ want < sz := by omega
          simp [verify, Wrong, h, hl, this]
        · have : want < sz := by omega
          simp [verify, Wrong, h, hl, this]

theorem verify_tooSmall_iff (t : Target) (f : File) : verify t f = .tooSmall ↔ Partial t f = true := by
  cases f with
  | missing => simp [verify, Partial]
  | present sz ok =>
    rcases t with ⟨_ | want, other⟩
    · by_cases h0 : sz = 0 <;> cases other <;> cases ok <;> simp [verify, verifySums, Partial, h0]
    · by_cases h : sz = want
      · subst h; cases other <;> cases ok <;> simp [verify, verifySums, Partial]
      · by_cases hl : sz < want <;> simp [verify, Partial, h, hl]

theorem verify_empty_iff (t : Target) (f : File) :
    verify t f = .empty ↔ (t.size = none ∧ ∃ ok, f = .present 0 ok) := by
  cases f with
  | missing => simp [verify]
  | present sz ok =>
    rcases t with ⟨_ | want, other⟩
    · by_cases h0 : sz = 0 <;> cases other <;> cases ok <;> simp [verify, verifySums, h0]
    · by_cases h : sz = want
      · subst h; cases other <;> cases ok <;> simp [verify, verifySums]
      · by_cases hl : sz < want <;> simp [verify, h, hl]

/-- the state the next verification sees is acceptable to it exactly when the outcome is `Acceptable` -/
theorem verify_left_ok_iff (t : Target) (o : Outcome) :
    verify t (leftOf t o) = .ok ↔ Acceptable t o = true := by
  unfold leftOf Acceptable
  by_cases h : (!o.exit0 && t.noChksums) = true
  · have h' := h
    simp only [Bool.and_eq_true, Bool.not_eq_true'] at h'
    simp [verify, h'.1, h'.2]
  · rw [if_neg h, verify_ok_iff]
    have : (!t.noChksums || o.exit0) = true := by
      cases he : o.exit0 <;> cases hn : t.noChksums <;> simp_all
    simp [this]

theorem verify_left_chksum_iff (t : Target) (o : Outcome) :
    verify t (leftOf t o) = .chksum ↔ Wrong t o.file = true := by
  unfold leftOf
  by_cases h : (!o.exit0 && t.noChksums) = true
  · rw [if_pos h]
    simp only [Bool.and_eq_true, Bool.not_eq_true'] at h
    have hn := h.2
    rcases t with ⟨_ | want, other⟩ <;> cases other <;> simp [Target.noChksums] at hn
    cases o.file with
    | missing => simp [verify, Wrong]
    | present sz ok => simp [verify, Wrong]
  · rw [if_neg h, verify_chksum_iff]

/-- `firstDecisive` in closed form: some state is acceptable and no earlier one is wrong -/
theorem firstDecisive_iff (t : Target) (l : List Outcome) :
    firstDecisive t l = true ↔
      ∃ k, ∃ h : k < l.length, Acceptable t l[k] = true ∧ ∀ j, ∀ hj : j < k, Wrong t (l[j]'(by omega)).file = false := by
  induction l with
  | nil => simp [firstDecisive]
  | cons o rest ih =>
    unfold firstDecisive
    by_cases ha : Acceptable t o = true
    · simp only [ha, if_true, true_iff]
      exact ⟨0, by simp, by simpa using ha, by intro j hj; omega⟩
    · simp only [ha, if_false, Bool.false_eq_true]
      by_cases hw : Wrong t o.file = true
      · simp only [hw, if_true, Bool.false_eq_true, false_iff]
        rintro ⟨k, hk, hacc, hno⟩
        cases k with
        | zero => exact ha (by simpa using hacc)
        | succ k => have := hno 0 (by omega); simp [hw] at this
      · simp only [hw, if_false, Bool.false_eq_true]
        rw [ih]
        constructor
        · rintro ⟨k, hk, hacc, hno⟩
          refine ⟨k + 1, by simp; omega, by simpa using hacc, ?_⟩
          intro j hj
          cases j with
          | zero => simpa using hw
          | succ j => simpa using hno j (by omega)
        · rintro ⟨k, hk, hacc, hno⟩
          cases k with
          | zero => exact absurd (by simpa using hacc) ha
          | succ k =>
            refine ⟨k, by simp at hk; omega, by simpa using hacc, ?_⟩
            intro j hj
            simpa using hno (j + 1) (by omega)

/-- `fetch` returns exactly when the verification of the current file succeeds or a later state is decisive -/
theorem fetch_returned_iff_aux (t : Target) (n : Nat) (f : File) (outs : List Outcome) :
    (fetch t n f outs).result = .returned ↔
      (verify t f = .ok ∨ (verify t f ≠ .chksum ∧ firstDecisive t (outs.take n) = true)) := by
  induction n generalizing f outs with
  | zero =>
    simp only [fetch, List.take_zero, firstDecisive]
    cases verify t f <;> simp [V.toResult]
  | succ n ih =>
    unfold fetch
    cases hv : verify t f with
    | ok => simp
    | chksum => simp
    | missing | tooSmall | empty =>
      all_goals
        cases outs with
        | nil => simp [firstDecisive]
        | cons o outs' =>
          simp only [List.take_succ_cons, firstDecisive, ih, ne_eq, verify_left_ok_iff, verify_left_chksum_iff]
          by_cases ha : Acceptable t o = true
          · simp [ha]
          · by_cases hw : Wrong t o.file = true <;> simp [ha, hw]

/-- every executed step starts from what the previous one left; the first from the initial file -/
def Chained : File → List Step → Prop
  | _, [] => True
  | f, s :: rest => s.seen = f ∧ Chained s.left rest

theorem fetch_chained (t : Target) (n : Nat) (f : File) (outs : List Outcome) :
    Chained f (fetch t n f outs).steps := by
  induction n generalizing f outs with
  | zero => simp [fetch, Chained]
  | succ n ih =>
    unfold fetch
    cases hv : verify t f <;> try simp [Chained]
    all_goals
      cases outs with
      | nil => simp [Chained]
      | cons o outs' => exact ⟨rfl, ih _ _⟩

/-- per-step facts: how `handed`, `cmd`, `left` follow from `seen` and `out`; the steps consume the outcomes in order -/
theorem fetch_steps_spec (t : Target) (n : Nat) (f : File) (outs : List Outcome) :
    ∀ s ∈ (fetch t n f outs).steps,
      s.handed = handedOf (verify t s.seen) s.seen ∧ s.cmd = cmdOf (verify t s.seen) ∧ s.left = leftOf t s.out ∧
      verify t s.seen ≠ .ok ∧ verify t s.seen ≠ .chksum := by
  induction n generalizing f outs with
  | zero => simp [fetch]
  | succ n ih =>
    unfold fetch
    cases hv : verify t f <;> try simp
    all_goals
      cases outs with
      | nil => simp
      | cons o outs' =>
        simp only [List.mem_cons, forall_eq_or_imp, hv]
        exact ⟨by simp, ih _ _⟩

theorem fetch_steps_outs (t : Target) (n : Nat) (f : File) (outs : List Outcome) :
    (fetch t n f outs).steps.map (·.out) = outs.take (fetch t n f outs).steps.length := by
  induction n generalizing f outs with
  | zero => simp [fetch]
  | succ n ih =>
    unfold fetch
    cases hv : verify t f <;> try simp
    all_goals
      cases outs with
      | nil => simp
      | cons o outs' => simpa using ih _ _

theorem fetch_steps_le (t : Target) (n : Nat) (f : File) (outs : List Outcome) :
    (fetch t n f outs).steps.length ≤ n ∧ (fetch t n f outs).steps.length ≤ outs.length := by
  induction n generalizing f outs with
  | zero => simp [fetch]
  | succ n ih =>
    unfold fetch
    cases hv : verify t f <;> try simp
    all_goals
      cases outs with
      | nil => simp
      | cons o outs' => have := ih (leftOf t o) outs'; simp; omega

/-- the last state of a chained run -/
def lastLeft : File → List Step → File
  | f, [] => f
  | _, s :: rest => lastLeft s.left rest

/-- what the run ends in: the result is decided by the verification of the last state, except that
running out of URIs is reported as such -/
theorem fetch_end (t : Target) (n : Nat) (f : File) (outs : List Outcome) :
    let r := fetch t n f outs
    let last := lastLeft f r.steps
    (r.result ≠ .outOfUris → r.result = (verify t last).toResult ∧ r.final = last) ∧
    (r.result = .outOfUris → r.steps.length = outs.length ∧ r.steps.length < n ∧
        r.final = handedOf (verify t last) last ∧ verify t last ≠ .ok ∧ verify t last ≠ .chksum) ∧
    (r.result = .missing ∨ r.result = .tooSmall ∨ r.result = .empty → r.steps.length = n) := by
  induction n generalizing f outs with
  | zero => cases hv : verify t f <;> simp [fetch, lastLeft, V.toResult, hv]
  | succ n ih =>
    unfold fetch
    cases hv : verify t f with
    | ok => simp [lastLeft, V.toResult, hv]
    | chksum => simp [lastLeft, V.toResult, hv]
    | missing | tooSmall | empty =>
      all_goals
        cases outs with
        | nil => simp [lastLeft, hv]
        | cons o outs' =>
          have := ih (leftOf t o) outs'
          simp only [lastLeft, List.length_cons] at this ⊢
          refine ⟨this.1, ?_, ?_⟩
          · intro h; obtain ⟨a, b, c⟩ := this.2.1 h; exact ⟨by omega, by omega, c⟩
          · intro h; have := this.2.2 h; omega

theorem lastLeft_cases (f : File) (steps : List Step) :
    lastLeft f steps = f ∨ ∃ s ∈ steps, lastLeft f steps = s.left := by
  induction steps generalizing f with
  | nil => exact Or.inl rfl
  | cons s rest ih =>
    right
    rcases ih s.left with h | ⟨s', hs', h⟩
    · exact ⟨s, by simp, by simpa [lastLeft] using h⟩
    · exact ⟨s', by simp [hs'], by simpa [lastLeft] using h⟩

/-- the last state is the initial file when nothing was run, otherwise what the *last* executed step left -/
theorem lastLeft_getLast (f : File) (steps : List Step) :
    (steps = [] ∧ lastLeft f steps = f) ∨ ∃ s, steps.getLast? = some s ∧ lastLeft f steps = s.left := by
  induction steps generalizing f with
  | nil => exact Or.inl ⟨rfl, rfl⟩
  | cons s rest ih =>
    right
    rcases ih s.left with ⟨h0, h⟩ | ⟨s', hs', h⟩
    · subst h0; exact ⟨s, by simp, by simp [lastLeft]⟩
    · refine ⟨s', ?_, by simpa [lastLeft] using h⟩
      cases rest with
      | nil => simp at hs'
      | cons a rest' => simpa [List.getLast?_cons_cons] using hs'

theorem fetch_of_verify_ok (t : Target) (n : Nat) (f : File) (outs : List Outcome) (h : verify t f = .ok) :
    (fetch t n f outs).result = .returned := by
  cases n <;> simp [fetch, h, V.toResult]

theorem fetch_of_verify_chksum (t : Target) (n : Nat) (f : File) (outs : List Outcome) (h : verify t f = .chksum) :
    (fetch t n f outs).result = .chksum := by
  cases n <;> simp [fetch, h, V.toResult]

theorem fetch_step_acceptable (t : Target) (n : Nat) (f : File) (outs : List Outcome)
    (h : ∃ s ∈ (fetch t n f outs).steps, Acceptable t s.out = true) : (fetch t n f outs).result = .returned := by
  induction n generalizing f outs with
  | zero => simp [fetch] at h
  | succ n ih =>
    unfold fetch at h ⊢
    cases hv : verify t f <;> rw [hv] at h <;> try simp at h
    all_goals
      cases outs with
      | nil => simp at h
      | cons o outs' =>
        simp only [List.mem_cons, exists_eq_or_imp] at h
        rcases h with h | h
        · exact fetch_of_verify_ok t n _ _ ((verify_left_ok_iff t o).2 h)
        · exact ih _ _ h

theorem fetch_step_wrong (t : Target) (n : Nat) (f : File) (outs : List Outcome)
    (h : ∃ s ∈ (fetch t n f outs).steps, Wrong t s.out.file = true) : (fetch t n f outs).result = .chksum := by
  induction n generalizing f outs with
  | zero => simp [fetch] at h
  | succ n ih =>
    unfold fetch at h ⊢
    cases hv : verify t f <;> rw [hv] at h <;> try simp at h
    all_goals
      cases outs with
      | nil => simp at h
      | cons o outs' =>
        simp only [List.mem_cons, exists_eq_or_imp] at h
        rcases h with h | h
        · exact fetch_of_verify_chksum t n _ _ ((verify_left_chksum_iff t o).2 h)
        · exact ih _ _ h

end Pkgcore.C36
