import Pkgcore.Spec.C32
import Pkgcore.Proofs.C31
/-! # C32 — helper lemmas -/
namespace Pkgcore.C32
open Pkgcore.C32.Spec
open Pkgcore.C31 (Str digits joinSep replaceChar natOfDigits digits_spec isDigit_facts)

/-! ## rendering of integers, folding of line breaks -/

theorem digit_not_special {c : Char} (h : c.isDigit = true) : c ≠ '\n' ∧ c ≠ '\\' ∧ c ≠ '\x07' := by
  obtain ⟨h1, _, h3, h4, _⟩ := isDigit_facts h
  refine ⟨h3, h4, ?_⟩
  intro e; subst e; revert h; decide

theorem intStr_chars (n : Int) : ∀ c ∈ intStr n, c ≠ '\n' ∧ c ≠ '\\' ∧ c ≠ '\x07' := by
  intro c hc
  unfold intStr at hc
  split at hc
  · rcases List.mem_cons.1 hc with rfl | h
    · decide
    · exact digit_not_special ((digits_spec _).1 c h)
  · exact digit_not_special ((digits_spec _).1 c hc)

theorem digits_zero_iff (n : Nat) : digits n = ['0'] ↔ n = 0 := by
  constructor
  · intro h
    have := (digits_spec n).2.2
    rw [h] at this
    simpa [natOfDigits] using this.symm
  · rintro rfl; rw [digits]; rfl

theorem intStr_zero_iff (n : Int) : intStr n = ['0'] ↔ n = 0 := by
  unfold intStr
  split
  · next h =>
    constructor
    · intro e; have := (List.cons.inj e).1; exact absurd this (by decide)
    · intro e; omega
  · next h =>
    rw [digits_zero_iff]; omega

theorem flat_no_newline (s : Str) : '\n' ∉ flat s := by
  induction s with
  | nil => simp [flat, replaceChar]
  | cons c s ih =>
    simp only [flat, replaceChar, List.flatMap_cons, List.mem_append] at ih ⊢
    rintro (h | h)
    · split at h
      · simp at h
      · next hc => simp at h; exact hc h.symm
    · exact ih h

theorem encodeRet_no_newline (r : Ret) : '\n' ∉ encodeRet r := by
  cases r with
  | none => decide
  | int n => simp [encodeRet, flat_no_newline]
  | str s => simp [encodeRet, flat_no_newline]
  | tuple c m =>
    simp only [encodeRet, List.mem_append, List.mem_cons, not_or]
    exact ⟨fun h => (intStr_chars c _ h).1 rfl, by decide, flat_no_newline m⟩

theorem takeWhile_append_stop {p : Char → Bool} (a : Str) (c : Char) (r : Str)
    (ha : ∀ x ∈ a, p x = true) (hc : p c = false) : (a ++ c :: r).takeWhile p = a := by
  induction a with
  | nil => simp [hc]
  | cons x a ih =>
    simp only [List.cons_append, List.takeWhile_cons, ha x (by simp), if_true]
    rw [ih (fun y hy => ha y (by simp [hy]))]

theorem statusField_encodeRet (r : Ret) :
    statusField (encodeRet r) = match r with | .tuple c _ => intStr c | _ => ['0'] := by
  cases r with
  | none => rfl
  | int n => simp [encodeRet, statusField, List.takeWhile]
  | str s => simp [encodeRet, statusField, List.takeWhile]
  | tuple c m =>
    simp only [encodeRet, statusField]
    apply takeWhile_append_stop
    · intro x hx
      have := (intStr_chars c x hx).2.2
      simpa using this
    · simp

theorem bashSuccess_encodeRet (r : Ret) : bashSuccess (encodeRet r) = succeeded (.ok r) := by
  unfold bashSuccess
  rw [statusField_encodeRet]
  cases r with
  | tuple c m =>
    simp only [succeeded]
    by_cases h : c = 0
    · subst h
      have : intStr 0 = ['0'] := (intStr_zero_iff 0).2 rfl
      rw [this]; rfl
    · have : intStr c ≠ ['0'] := fun e => h ((intStr_zero_iff c).1 e)
      have e1 : (intStr c == ['0']) = false := by simpa using this
      have e2 : (c == 0) = false := by simpa using h
      rw [e1, e2]
  | _ => rfl

/-! ## `read` without `-r` -/

theorem escState_prefix (p s : Str) (hp : '\\' ∉ p) : escState false (p ++ s) = escState false s := by
  induction p with
  | nil => rfl
  | cons c p ih =>
    have hc : (c == '\\') = false := by
      have : c ≠ '\\' := fun e => hp (by simp [e])
      simpa using this
    rw [List.cons_append, escState, hc]
    exact ih (fun h => hp (by simp [h]))

theorem unesc_prefix (p s : Str) (hp : '\\' ∉ p) : unescAux false (p ++ s) = p ++ unescAux false s := by
  induction p with
  | nil => rfl
  | cons c p ih =>
    have hc : c ≠ '\\' := fun e => hp (by simp [e])
    rw [List.cons_append, unescAux]
    simp only [hc, if_false]
    rw [ih (fun h => hp (by simp [h]))]
    rfl

theorem bashReadAux_clean (p : Bool) (l : Str) (hn : '\n' ∉ l) (he : escState p l = false) (rest : Str) :
    bashReadAux p (l ++ '\n' :: rest) = some (unescAux p l, rest) := by
  induction l generalizing p with
  | nil =>
    cases p with
    | true => simp [escState] at he
    | false => simp [bashReadAux, unescAux]
  | cons c cs ih =>
    have hc : c ≠ '\n' := fun e => hn (by simp [e])
    have hn' : '\n' ∉ cs := fun m => hn (by simp [m])
    cases p with
    | true =>
      rw [escState] at he
      rw [List.cons_append, bashReadAux]
      simp only [hc, if_false, ih false hn' he, unescAux]
    | false =>
      rw [escState] at he
      rw [List.cons_append, bashReadAux]
      by_cases hb : c = '\\'
      · subst hb
        simp only [if_true, unescAux]
        exact ih true hn' (by simpa using he)
      · have hbb : (c == '\\') = false := by simpa using hb
        rw [hbb] at he
        simp only [hb, hc, if_false, ih false hn' he, unescAux]

/-- one `read` consumes exactly a clean line and its newline -/
theorem bashRead_clean (l : Str) (h : Clean l) (rest : Str) :
    bashRead (l ++ '\n' :: rest) = some (unesc l, rest) :=
  bashReadAux_clean false l h.1 h.2 rest

theorem no_backslash_closed (s : Str) (h : '\\' ∉ s) : escOpen s = false := by
  have := escState_prefix s [] h
  simpa [escOpen, escState] using this

theorem intStr_no_backslash (n : Int) : '\\' ∉ intStr n := fun h => (intStr_chars n _ h).2.1 rfl

/-- the encoded reply is clean as soon as its (folded) message leaves no backslash dangling -/
def RetClosed : Ret → Prop
  | .str s => escOpen (flat s) = false
  | .tuple _ m => escOpen (flat m) = false
  | _ => True

theorem clean_encodeRet (r : Ret) (hm : RetClosed r) : Clean (encodeRet r) := by
  refine ⟨encodeRet_no_newline r, ?_⟩
  cases r with
  | none => decide
  | int n =>
    have h : '\\' ∉ ('0' :: '\x07' :: flat (intStr n)) := by
      simp only [List.mem_cons, not_or]
      refine ⟨by decide, by decide, ?_⟩
      intro h
      simp only [flat, replaceChar, List.mem_flatMap] at h
      obtain ⟨c, hc, hx⟩ := h
      split at hx
      · simp at hx
      · simp at hx; exact (intStr_chars n c hc).2.1 hx.symm
    exact no_backslash_closed _ h
  | str s =>
    show escState false (['0', '\x07'] ++ flat s) = false
    rw [escState_prefix _ _ (by decide)]; exact hm
  | tuple c m =>
    show escState false (intStr c ++ '\x07' :: flat m) = false
    rw [escState_prefix _ _ (intStr_no_backslash c)]
    show escState false (['\x07'] ++ flat m) = false
    rw [escState_prefix _ _ (by decide)]; exact hm

/-- the status the daemon sees after its `read` is the status that was encoded -/
theorem status_after_read (r : Ret) : bashSuccess (unesc (encodeRet r)) = succeeded (.ok r) := by
  rw [← bashSuccess_encodeRet]
  cases r with
  | none => rfl
  | int n => rfl
  | str s => rfl
  | tuple c m =>
    simp only [encodeRet, unesc]
    rw [unesc_prefix _ _ (intStr_no_backslash c)]
    simp only [bashSuccess, statusField]
    have e1 := takeWhile_append_stop (p := (· != '\x07')) (intStr c) '\x07' (flat m)
      (fun x hx => by have := (intStr_chars c x hx).2.2; simpa using this) (by simp)
    have hu : unescAux false ('\x07' :: flat m) = '\x07' :: unescAux false (flat m) := by
      rw [unescAux]; simp
    rw [hu]
    have e2 := takeWhile_append_stop (p := (· != '\x07')) (intStr c) '\x07' (unescAux false (flat m))
      (fun x hx => by have := (intStr_chars c x hx).2.2; simpa using this) (by simp)
    rw [e1, e2]

/-! ## `serve` -/

/-- the single reply of a request, as a function of the outcome -/
def replyOf (_nonfatal : Bool) : Outcome → Str
  | .ok ret => encodeRet ret
  | .cmdError c m => encodeRet (.tuple c m)
  | .otherError => encodeRet (.tuple 1 "internal failure".toList)

theorem serve_eq (W : World) (name : Str) (r : Request) :
    serve W name r =
      ([replyOf (strip r.nonfatal == "true".toList) (outcomeOf W name r)],
       match outcomeOf W name r with
       | .ok _ => true
       | .cmdError _ _ => strip r.nonfatal == "true".toList
       | .otherError => false) := by
  unfold serve call
  cases h : outcomeOf W name r with
  | ok ret => simp [replyOf]
  | cmdError c m =>
    cases hn : (strip r.nonfatal == "true".toList) <;> simp [replyOf, raisedReply]
  | otherError => simp [replyOf, raisedReply]

/-- the message part of the reply leaves no backslash dangling -/
def MsgClosed : Outcome → Prop
  | .ok (.str s) => escOpen (flat s) = false
  | .ok (.tuple _ m) => escOpen (flat m) = false
  | .cmdError _ m => escOpen (flat m) = false
  | _ => True

theorem clean_replyOf (nf : Bool) (o : Outcome) (h : MsgClosed o) : Clean (replyOf nf o) := by
  cases o with
  | ok ret =>
    cases ret with
    | none => exact clean_encodeRet .none trivial
    | int n => exact clean_encodeRet (.int n) trivial
    | str s => exact clean_encodeRet (.str s) h
    | tuple c m => exact clean_encodeRet (.tuple c m) h
  | cmdError c m => exact clean_encodeRet (.tuple c m) h
  | otherError =>
    refine clean_encodeRet (.tuple 1 _) ?_
    show escOpen (flat "internal failure".toList) = false
    decide

theorem success_replyOf (nf : Bool) (o : Outcome) (hc : CodeOk o) :
    bashSuccess (unesc (replyOf nf o)) = succeeded o ∧ bashSuccess (replyOf nf o) = succeeded o := by
  cases o with
  | ok ret => exact ⟨status_after_read ret, bashSuccess_encodeRet ret⟩
  | cmdError c m =>
    have hc' : c ≠ 0 := hc
    have e2 : (c == 0) = false := by simpa using hc'
    have h1 := status_after_read (.tuple c m)
    have h2 := bashSuccess_encodeRet (.tuple c m)
    simp only [succeeded, e2] at h1 h2
    exact ⟨h1, h2⟩
  | otherError =>
    have h1 := status_after_read (.tuple 1 "internal failure".toList)
    have h2 := bashSuccess_encodeRet (.tuple 1 "internal failure".toList)
    exact ⟨h1, h2⟩

/-! ## the dispatch loop -/

def linesOf (reqs : List (Str × Request)) : List Str := reqs.flatMap requestLines

def repliesOf (W : World) (reqs : List (Str × Request)) : List Str :=
  reqs.flatMap fun nr => (serve W nr.1 nr.2).1

/-- the command line of a request is a known helper name written as one word -/
def Known (helpers : List Str) (nr : Str × Request) : Prop :=
  cmdWord nr.1 = nr.1 ∧ helpers.contains nr.1 = true

theorem session_step (W : World) (helpers : List Str) (nr : Str × Request) (hk : Known helpers nr)
    (fuel : Nat) (rest : List Str) :
    session W helpers (fuel + 1) (requestLines nr ++ rest) =
      if (serve W nr.1 nr.2).2 then
        ((serve W nr.1 nr.2).1 ++ (session W helpers fuel rest).1, (session W helpers fuel rest).2.1,
          (session W helpers fuel rest).2.2)
      else ((serve W nr.1 nr.2).1, rest, .buildFailed) := by
  obtain ⟨n, r⟩ := nr
  obtain ⟨h1, h2⟩ := hk
  simp only at h1 h2
  simp only [requestLines, List.cons_append, List.nil_append, session, h1, h2, if_true]

theorem session_all_go (W : World) (helpers : List Str) (reqs : List (Str × Request))
    (hk : ∀ nr ∈ reqs, Known helpers nr) (hgo : ∀ nr ∈ reqs, (serve W nr.1 nr.2).2 = true)
    (f : Nat) (tail : List Str) :
    session W helpers (reqs.length + f) (linesOf reqs ++ tail) =
      (repliesOf W reqs ++ (session W helpers f tail).1, (session W helpers f tail).2.1,
        (session W helpers f tail).2.2) := by
  induction reqs with
  | nil => simp [linesOf, repliesOf]
  | cons nr reqs ih =>
    have e : (nr :: reqs).length + f = (reqs.length + f) + 1 := by simp; omega
    have hl : linesOf (nr :: reqs) ++ tail = requestLines nr ++ (linesOf reqs ++ tail) := by
      simp [linesOf]
    rw [e, hl, session_step W helpers nr (hk nr (by simp)), hgo nr (by simp)]
    simp only [if_true]
    rw [ih (fun x hx => hk x (by simp [hx])) (fun x hx => hgo x (by simp [hx]))]
    simp [repliesOf]

theorem session_stops (W : World) (helpers : List Str) (pre : List (Str × Request)) (nr : Str × Request)
    (post : List (Str × Request)) (hk : ∀ x ∈ pre ++ [nr], Known helpers x)
    (hgo : ∀ x ∈ pre, (serve W x.1 x.2).2 = true) (hstop : (serve W nr.1 nr.2).2 = false)
    (f : Nat) (tail : List Str) :
    session W helpers (pre.length + (f + 1)) (linesOf (pre ++ nr :: post) ++ tail) =
      (repliesOf W (pre ++ [nr]), linesOf post ++ tail, .buildFailed) := by
  have hl : linesOf (pre ++ nr :: post) ++ tail = linesOf pre ++ (requestLines nr ++ (linesOf post ++ tail)) := by
    simp [linesOf]
  rw [hl, session_all_go W helpers pre (fun x hx => hk x (by simp [hx])) hgo,
    session_step W helpers nr (hk nr (by simp)), hstop]
  simp [repliesOf]

/-! ## reading a sequence of replies -/

theorem readReplies_clean (ls : List Str) (h : ∀ l ∈ ls, Clean l) (rest : Str) :
    readReplies ls.length (wire ls ++ rest) = some (ls.map fun l => bashSuccess (unesc l), rest) := by
  induction ls with
  | nil => simp [readReplies, wire]
  | cons l ls ih =>
    have : wire (l :: ls) ++ rest = l ++ '\n' :: (wire ls ++ rest) := by simp [wire]
    rw [List.length_cons, readReplies, this, daemonReadsReply, bashRead_clean l (h l (by simp))]
    simp only []
    rw [ih (fun x hx => h x (by simp [hx]))]
    rfl

/-! ## the `install` fallback -/

theorem installGroups_ok_iff (gs : List (Int × List Str)) :
    installGroups gs = .ok .none ↔ ∀ g ∈ gs, g.1 = 0 := by
  induction gs with
  | nil => simp [installGroups]
  | cons g gs ih =>
    obtain ⟨ret, out⟩ := g
    rw [installGroups]
    by_cases h : ret = 0
    · simp [h, ih]
    · simp [h]

theorem installGroups_codeOk (gs : List (Int × List Str)) : CodeOk (installGroups gs) := by
  induction gs with
  | nil => trivial
  | cons g gs ih =>
    obtain ⟨ret, out⟩ := g
    rw [installGroups]
    by_cases h : ret = 0
    · simpa [h] using ih
    · simp [h, CodeOk]

theorem installGroups_succeeded (gs : List (Int × List Str)) :
    succeeded (installGroups gs) = true ↔ ∀ g ∈ gs, g.1 = 0 := by
  rw [← installGroups_ok_iff]
  induction gs with
  | nil => simp [installGroups, succeeded]
  | cons g gs ih =>
    obtain ⟨ret, out⟩ := g
    rw [installGroups]
    by_cases h : ret = 0
    · simpa [h] using ih
    · simp [h, succeeded]

theorem installDirsPy_succeeded (w : Bool) (steps : List DirStep) :
    succeeded (installDirsPy w steps) = dirsDone w steps := by
  induction steps with
  | nil => rfl
  | cons s rest ih =>
    obtain ⟨p, mk, att⟩ := s
    cases mk with
    | some e => simp [installDirsPy, succeeded, dirsDone]
    | none =>
      cases w with
      | false => simpa [installDirsPy, dirsDone] using ih
      | true =>
        cases att with
        | some e => simp [installDirsPy, succeeded, dirsDone]
        | none => simpa [installDirsPy, dirsDone] using ih

theorem installDirsPy_codeOk (w : Bool) (steps : List DirStep) : CodeOk (installDirsPy w steps) := by
  induction steps with
  | nil => trivial
  | cons s rest ih =>
    obtain ⟨p, mk, att⟩ := s
    cases mk with
    | some e => simp [installDirsPy, CodeOk]
    | none =>
      cases w with
      | false => simpa [installDirsPy] using ih
      | true =>
        cases att with
        | some e => simp [installDirsPy, CodeOk]
        | none => simpa [installDirsPy] using ih

/-- nothing after the first failing directory is attempted: the outcome only depends on the steps up to it -/
theorem installDirsPy_stops (w : Bool) (pre : List DirStep) (s : DirStep) (post1 post2 : List DirStep)
    (hs : dirsDone w [s] = false) :
    installDirsPy w (pre ++ s :: post1) = installDirsPy w (pre ++ s :: post2) := by
  induction pre with
  | nil =>
    obtain ⟨p, mk, att⟩ := s
    cases mk with
    | some e => simp [installDirsPy]
    | none =>
      cases w with
      | false => simp [dirsDone] at hs
      | true =>
        cases att with
        | some e => simp [installDirsPy]
        | none => simp [dirsDone] at hs
  | cons q pre ih =>
    obtain ⟨p, mk, att⟩ := q
    cases mk with
    | some e => simp [installDirsPy]
    | none =>
      cases w with
      | false => simpa [installDirsPy] using ih
      | true =>
        cases att with
        | some e => simp [installDirsPy]
        | none => simpa [installDirsPy] using ih

end Pkgcore.C32
