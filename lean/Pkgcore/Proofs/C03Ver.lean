import Pkgcore.Proofs.C03Prim
import Pkgcore.Spec.C03
/-!
# C03 — version text: C01's lexer is sound (the converse of `lex_render`), character facts about `render`
-/
namespace Pkgcore.C03
open Pkgcore.C01 Pkgcore.C01.Spec Pkgcore.C02 Pkgcore.C03.Spec

theorem eq_dropLast_append_of_getLast? {α : Type} {s : List α} {c : α} (h : s.getLast? = some c) :
    s = s.dropLast ++ [c] := by
  obtain ⟨ys, rfl⟩ := List.getLast?_eq_some_iff.mp h
  simp

theorem lexSuf_sound {part : Str} {s : Suf} {n : Str} (h : lexSuf part = some (s, n)) :
    allDigits n = true ∧ renderSuf (s, n) = part := by
  unfold lexSuf at h
  obtain ⟨nm, _, hf⟩ := List.exists_of_findSome?_eq_some h
  simp only at hf
  split at hf
  · rename_i hc
    simp only [Option.some.injEq, Prod.mk.injEq] at hf
    obtain ⟨rfl, rfl⟩ := hf
    refine ⟨hc.2, ?_⟩
    have hp := hc.1
    rw [List.isPrefixOf_iff_prefix] at hp
    simpa [renderSuf] using List.prefix_iff_eq_append.mp hp
  · cases hf

theorem mapM_lexSuf_sound {rest : List Str} {sufs : List (Suf × Str)} (h : rest.mapM lexSuf = some sufs) :
    (∀ x ∈ sufs, allDigits x.2 = true) ∧ sufs.map renderSuf = rest := by
  induction rest generalizing sufs with
  | nil => simp at h; subst h; simp
  | cons p ps ih =>
    rw [List.mapM_cons] at h
    cases hp : lexSuf p with
    | none => simp [hp] at h
    | some x =>
      cases hps : ps.mapM lexSuf with
      | none => simp [hp, hps] at h
      | some xs =>
        simp [hp, hps] at h
        subst h
        obtain ⟨s, n⟩ := x
        obtain ⟨h1, h2⟩ := lexSuf_sound hp
        obtain ⟨i1, i2⟩ := ih hps
        refine ⟨?_, by simp [h2, i2]⟩
        intro y hy
        simp only [List.mem_cons] at hy
        rcases hy with rfl | hy
        · exact h1
        · exact i1 y hy

theorem lexDotted_sound {d : Str} {comps : List Str} {letter : Option Char} (h : lexDotted d = some (comps, letter)) :
    comps ≠ [] ∧ (∀ c ∈ comps, digits c) ∧ (∀ c, letter = some c → isAsciiAlpha c = true) ∧
      renderDotted comps letter = d := by
  unfold lexDotted at h
  simp only at h
  cases hl : (splitOn '.' d).getLast? with
  | none => simp [hl] at h
  | some last =>
    simp only [hl] at h
    have hcs : splitOn '.' d = (splitOn '.' d).dropLast ++ [last] := eq_dropLast_append_of_getLast? hl
    -- the (digits, letter) split of the last component
    have key : ∀ (lastDigits : Str) (lt : Option Char),
        last = lastDigits ++ lt.toList → (∀ c, lt = some c → isAsciiAlpha c = true) →
        (if (((splitOn '.' d).dropLast ++ [lastDigits]).all fun c => !c.isEmpty && allDigits c) = true
          then some ((splitOn '.' d).dropLast ++ [lastDigits], lt) else none) = some (comps, letter) →
        comps ≠ [] ∧ (∀ c ∈ comps, digits c) ∧ (∀ c, letter = some c → isAsciiAlpha c = true) ∧
          renderDotted comps letter = d := by
      intro lastDigits lt hlast hlt h
      split at h
      · rename_i hall
        simp only [Option.some.injEq, Prod.mk.injEq] at h
        obtain ⟨rfl, rfl⟩ := h
        simp only [List.all_eq_true] at hall
        refine ⟨by simp, ?_, hlt, ?_⟩
        · intro c hc
          have := hall c hc
          simp only [Bool.and_eq_true, Bool.not_eq_true', List.isEmpty_eq_false_iff] at this
          exact ⟨this.1, (allDigits_iff c).mp this.2⟩
        · unfold renderDotted
          rw [joinSep_concat, ← hlast, ← hcs, joinSep_splitOn]
      · cases h
    cases hg : last.getLast? with
    | none =>
      simp only [hg] at h
      exact key last none (by simp) (by simp) h
    | some c =>
      simp only [hg] at h
      by_cases hc : isAsciiAlpha c = true
      · simp only [hc, if_true] at h
        refine key last.dropLast (some c) (by simpa using eq_dropLast_append_of_getLast? hg) ?_ h
        intro c' hc'
        simp only [Option.some.injEq] at hc'
        exact hc' ▸ hc
      · simp only [hc, Bool.false_eq_true, if_false] at h
        exact key last none (by simp) (by simp) h

/-- **the lexer only accepts renderings of well-formed versions** (converse of C01's `lex_render`) -/
theorem lexVer_sound {s : Str} {v : Ver} (h : lexVer s = some v) : WFfull v ∧ C01.render v = s := by
  unfold lexVer at h
  cases hs : splitOn '_' s with
  | nil => exact absurd hs (splitOn_ne_nil '_' s)
  | cons d rest =>
    simp only [hs] at h
    cases hd : lexDotted d with
    | none => simp [hd] at h
    | some p =>
      obtain ⟨comps, letter⟩ := p
      cases hr : rest.mapM lexSuf with
      | none => simp [hd, hr] at h
      | some sufs =>
        simp only [hd, hr, Option.some.injEq] at h
        subst h
        obtain ⟨h1, h2, h3, h4⟩ := lexDotted_sound hd
        obtain ⟨h5, h6⟩ := mapM_lexSuf_sound hr
        refine ⟨⟨⟨h1, h2⟩, h3, h5⟩, ?_⟩
        unfold C01.render
        simp only [h4, h6]
        rw [← hs, joinSep_splitOn]

theorem lexVer_iff {s : Str} {v : Ver} : lexVer s = some v ↔ WFfull v ∧ C01.render v = s :=
  ⟨lexVer_sound, fun ⟨h1, h2⟩ => h2 ▸ lexVer_render_aux v h1⟩

theorem alnum_of_digit {c : Char} (h : c.isDigit = true) : c.isAlphanum = true := by
  simp [Char.isAlphanum, h]
theorem alnum_of_alpha {c : Char} (h : c.isAlpha = true) : c.isAlphanum = true := by
  simp [Char.isAlphanum, h]

theorem sufName_alnum (s : Suf) : ∀ x ∈ s.name.toList, x.isAlphanum = true := by
  cases s <;> decide

/-- the characters of a version text: `[A-Za-z0-9._]` -/
theorem render_chars {v : Ver} (h : WFfull v) : ∀ x ∈ C01.render v, x.isAlphanum = true ∨ x = '.' ∨ x = '_' := by
  obtain ⟨⟨_, hdig⟩, hlet, hsuf⟩ := h
  intro x hx
  unfold C01.render at hx
  rcases mem_joinSep _ _ _ hx with h' | ⟨p, hp, hxp⟩
  · exact Or.inr (Or.inr h')
  · simp only [List.mem_cons, List.mem_map] at hp
    rcases hp with rfl | ⟨y, hy, rfl⟩
    · simp only [renderDotted, List.mem_append] at hxp
      rcases hxp with hxp | hxp
      · rcases mem_joinSep _ _ _ hxp with h' | ⟨c, hc, hxc⟩
        · exact Or.inr (Or.inl h')
        · exact Or.inl (alnum_of_digit ((hdig c hc).2 x hxc))
      · cases hl : v.letter with
        | none => simp [hl] at hxp
        | some c =>
          simp [hl] at hxp; subst hxp
          exact Or.inl (alnum_of_alpha (hlet x hl))
    · obtain ⟨s, n⟩ := y
      simp only [renderSuf, List.mem_append] at hxp
      rcases hxp with hxp | hxp
      · exact Or.inl (sufName_alnum s x hxp)
      · exact Or.inl (alnum_of_digit ((allDigits_iff n).mp (hsuf _ hy) x hxp))

theorem joinSep_head (sep : Char) (p : Str) (l : List Str) (c : Char) (t : Str) (h : p = c :: t) :
    ∃ t', joinSep sep (p :: l) = c :: t' := by
  cases l with
  | nil => exact ⟨t, by simp [joinSep, h]⟩
  | cons q r => exact ⟨t ++ sep :: joinSep sep (q :: r), by simp [joinSep, h]⟩

/-- a version text starts with a digit -/
theorem render_head {v : Ver} (h : WFfull v) : ∃ c t, C01.render v = c :: t ∧ c.isDigit = true := by
  obtain ⟨⟨hne, hdig⟩, _, _⟩ := h
  obtain ⟨comps, letter, sufs⟩ := v
  simp only at hne hdig
  cases comps with
  | nil => exact absurd rfl hne
  | cons c0 cs =>
    obtain ⟨h0, h1⟩ := hdig c0 (by simp)
    cases c0 with
    | nil => exact absurd rfl h0
    | cons d ds =>
      have hd : d.isDigit = true := h1 d (by simp)
      obtain ⟨t1, e1⟩ := joinSep_head '.' (d :: ds) cs d ds rfl
      obtain ⟨t2, e2⟩ := joinSep_head '_' (renderDotted ((d :: ds) :: cs) letter) (sufs.map renderSuf) d
        (t1 ++ letter.toList) (by simp [renderDotted, e1])
      exact ⟨d, t2, by simp [C01.render, e2], hd⟩

theorem verOk_lenient_iff (v : Ver) : verOk lenient v = true ↔ WFfull v := by
  simp only [verOk, lenient, Bool.and_eq_true, Bool.not_eq_true', List.isEmpty_eq_false_iff, List.all_eq_true,
    digitsOk, WFfull, C01.Spec.WF, digits, allDigits]
  constructor
  · rintro ⟨⟨⟨h1, h2⟩, h3⟩, h4⟩
    refine ⟨⟨h1, fun c hc => ?_⟩, ?_, fun x hx => by simpa using h4 x hx⟩
    · have := h2 c hc
      exact ⟨this.1, this.2⟩
    · intro c hc
      simp only [hc] at h3
      exact h3
  · rintro ⟨⟨h1, h2⟩, h3, h4⟩
    refine ⟨⟨⟨h1, fun c hc => ⟨(h2 c hc).1, (h2 c hc).2⟩⟩, ?_⟩, fun x hx => by simpa using h4 x hx⟩
    cases hl : v.letter with
    | none => rfl
    | some c => exact h3 c hl

theorem verOk_mono {v : Ver} (h : verOk pms v = true) : verOk lenient v = true := by
  simp only [verOk, pms, lenient, Bool.and_eq_true] at h ⊢
  refine ⟨⟨h.1.1, ?_⟩, h.2⟩
  cases hl : v.letter with
  | none => rfl
  | some c =>
    have := h.1.2
    simp only [hl] at this
    simp only [Char.isAlpha, this, Bool.or_true]

end Pkgcore.C03
