import Pkgcore.Spec.C28
import Pkgcore.Proofs.C27
/-! # C28 helper lemmas -/
namespace Pkgcore.C28
open Pkgcore.C24 Pkgcore.Generated.C28 Pkgcore.C28.Spec

/-! ## sorting by a string key -/

section SortLemmas
variable {α : Type} (key : α → Str)

theorem insertBy_perm (e : α) (l : List α) : (insertBy key e l).Perm (e :: l) := by
  induction l with
  | nil => exact List.Perm.refl _
  | cons x xs ih =>
    unfold insertBy
    split
    · exact List.Perm.refl _
    · exact ((List.Perm.cons x ih).trans (List.Perm.swap e x xs))

theorem sortBy_perm (l : List α) : (sortBy key l).Perm l := by
  induction l with
  | nil => exact List.Perm.refl _
  | cons e r ih =>
    show (insertBy key e (sortBy key r)).Perm (e :: r)
    exact (insertBy_perm key e _).trans (List.Perm.cons e ih)

theorem insertBy_pairwise (e : α) (l : List α) (h : l.Pairwise fun a b => key a ≤ key b) :
    (insertBy key e l).Pairwise fun a b => key a ≤ key b := by
  induction l with
  | nil => simp [insertBy]
  | cons x xs ih =>
    unfold insertBy
    have hx := List.pairwise_cons.mp h
    split
    · rename_i hle
      refine List.pairwise_cons.mpr ⟨?_, h⟩
      intro b hb
      simp only [List.mem_cons] at hb
      rcases hb with rfl | hb
      · exact hle
      · exact List.le_trans hle (hx.1 b hb)
    · rename_i hnle
      have hxe : key x ≤ key e := by
        rcases List.le_total (key e) (key x) with h1 | h1
        · exact absurd h1 hnle
        · exact h1
      refine List.pairwise_cons.mpr ⟨?_, ih hx.2⟩
      intro b hb
      have := (insertBy_perm key e xs).mem_iff.mp hb
      simp only [List.mem_cons] at this
      rcases this with rfl | hb'
      · exact hxe
      · exact hx.1 b hb'

theorem sortBy_pairwise (l : List α) : (sortBy key l).Pairwise fun a b => key a ≤ key b := by
  induction l with
  | nil => simp [sortBy]
  | cons e r ih => exact insertBy_pairwise key e _ ih

theorem key_inj_of_nodup (l : List α) (h : (l.map key).Nodup) (a b : α) (ha : a ∈ l) (hb : b ∈ l)
    (hk : key a = key b) : a = b := by
  induction l with
  | nil => simp at ha
  | cons x xs ih =>
    simp only [List.map_cons, List.nodup_cons] at h
    simp only [List.mem_cons] at ha hb
    rcases ha with rfl | ha <;> rcases hb with rfl | hb
    · rfl
    · exact absurd (hk ▸ List.mem_map_of_mem (f := key) hb) h.1
    · exact absurd (hk ▸ List.mem_map_of_mem (f := key) ha) h.1
    · exact ih h.2 ha hb

/-- the sorted result depends only on the set of items, not on the order they arrive in -/
theorem sortBy_eq_of_perm (l₁ l₂ : List α) (hp : l₁.Perm l₂) (hnd : (l₁.map key).Nodup) :
    sortBy key l₁ = sortBy key l₂ := by
  apply List.Perm.eq_of_pairwise (le := fun a b => key a ≤ key b)
  · intro a b ha hb h1 h2
    have ha' : a ∈ l₁ := (sortBy_perm key l₁).mem_iff.mp ha
    have hb' : b ∈ l₁ := hp.mem_iff.mpr ((sortBy_perm key l₂).mem_iff.mp hb)
    exact key_inj_of_nodup key l₁ hnd a b ha' hb' (List.le_antisymm h1 h2)
  · exact sortBy_pairwise key l₁
  · exact sortBy_pairwise key l₂
  · exact (sortBy_perm key l₁).trans (hp.trans (sortBy_perm key l₂).symm)

theorem sortBy_sorted (l : List α) (h : l.Pairwise fun a b => key a ≤ key b) (hnd : (l.map key).Nodup) :
    sortBy key l = l := by
  apply List.Perm.eq_of_pairwise (le := fun a b => key a ≤ key b)
  · intro a b ha hb h1 h2
    exact key_inj_of_nodup key l hnd a b ((sortBy_perm key l).mem_iff.mp ha) hb (List.le_antisymm h1 h2)
  · exact sortBy_pairwise key l
  · exact h
  · exact sortBy_perm key l

end SortLemmas

/-! ## numbers and tokens -/

theorem parseHex_hexPadTo (w n : Nat) : parseHex (hexPadTo w n) = some n := by
  unfold parseHex hexPadTo
  have hne : (List.replicate (w - (Nat.toDigits 16 n).length) '0' ++ Nat.toDigits 16 n).isEmpty = false := by
    have : Nat.toDigits 16 n ≠ [] := Nat.toDigits_ne_nil
    cases h : Nat.toDigits 16 n with
    | nil => exact absurd h this
    | cons _ _ => simp
  simp only [hne, Bool.false_eq_true, if_false, hexFold_zeros, (toDigits16_spec n).2]

theorem hexPadTo_chars (w n : Nat) : hexPadTo w n ≠ [] ∧ ∀ c ∈ hexPadTo w n, c ∈ C27.numChars := by
  unfold hexPadTo
  constructor
  · intro h
    exact Nat.toDigits_ne_nil (List.append_eq_nil_iff.mp h).2
  · intro c hc
    simp only [List.mem_append, List.mem_replicate] at hc
    rcases hc with ⟨_, rfl⟩ | hc
    · decide
    · exact C27.toDigits_num 16 (by decide) (by decide) _ c hc

theorem numChars_noSpace : ∀ c ∈ C27.numChars, isSpace c = false := by decide

theorem renderInt_noSpace (i : Int) : noSpace (renderInt i) := by
  have := C27.serChf_chars .flat i
  exact ⟨this.1, fun c hc => numChars_noSpace c (this.2 c hc)⟩

theorem hexPadTo_noSpace (w n : Nat) : noSpace (hexPadTo w n) :=
  ⟨(hexPadTo_chars w n).1, fun c hc => numChars_noSpace c ((hexPadTo_chars w n).2 c hc)⟩

/-- `str.split()`: a token followed by a white-space character -/
theorem pySplitGo_token (t rest cur : Str) (s : Char) (ht : ∀ c ∈ t, isSpace c = false) (hs : isSpace s = true)
    (hne : cur.reverse ++ t ≠ []) :
    pySplitGo (t ++ s :: rest) cur = (cur.reverse ++ t) :: pySplitGo rest [] := by
  induction t generalizing cur with
  | nil =>
    have : cur.isEmpty = false := by
      cases cur with
      | nil => simp at hne
      | cons _ _ => rfl
    simp [pySplitGo, hs, this]
  | cons c cs ih =>
    have hc : isSpace c = false := ht c (by simp)
    have := ih (c :: cur) (fun x hx => ht x (by simp [hx])) (by simp)
    simp only [List.cons_append, pySplitGo, hc, Bool.false_eq_true, if_false, this]
    simp

theorem isSpace_sp : isSpace ' ' = true := by decide
theorem isSpace_nl : isSpace '\n' = true := by decide

/-! ## one Manifest line -/

def chfNames : List Str := chfWidths.map (·.1.toList)

theorem chf_ok : ∀ c ∈ chfNames, lower (upper c) = c ∧ c ≠ tag "size" ∧ upper c ≠ [] ∧ ∀ ch ∈ upper c, isSpace ch = false := by
  decide

theorem mem_chfNames (c : Str) (h : chfWidths.any (fun w => w.1.toList == c) = true) : c ∈ chfNames := by
  simp only [List.any_eq_true, beq_iff_eq] at h
  obtain ⟨w, hw, rfl⟩ := h
  exact List.mem_map_of_mem hw

/-- the part of a line after the size: ` CHF hex` pairs and the newline -/
def pairTail (pairs : List (Str × Nat)) : Str :=
  pairs.flatMap (fun (chf, v) => ' ' :: upper chf ++ ' ' :: hexPadTo (widthOf chf) v) ++ ['\n']

def pairTokens (pairs : List (Str × Nat)) : List Str :=
  pairs.flatMap fun p => [upper p.1, hexPadTo (widthOf p.1) p.2]

theorem pySplit_tail (t : Str) (pairs : List (Str × Nat)) (ht : noSpace t) (hp : ∀ p ∈ pairs, p.1 ∈ chfNames) :
    pySplitGo (t ++ pairTail pairs) [] = t :: pairTokens pairs := by
  induction pairs generalizing t with
  | nil =>
    have := pySplitGo_token t [] [] '\n' ht.2 isSpace_nl (by simpa using ht.1)
    simpa [pairTail, pairTokens, pySplitGo] using this
  | cons p r ih =>
    obtain ⟨chf, v⟩ := p
    have hc := chf_ok chf (hp (chf, v) (by simp))
    have e : t ++ pairTail ((chf, v) :: r)
        = t ++ ' ' :: (upper chf ++ ' ' :: (hexPadTo (widthOf chf) v ++ pairTail r)) := by
      simp [pairTail, List.append_assoc]
    rw [e, pySplitGo_token t _ [] ' ' ht.2 isSpace_sp (by simpa using ht.1),
      pySplitGo_token (upper chf) _ [] ' ' hc.2.2.2 isSpace_sp (by simpa using hc.2.2.1),
      ih _ (hexPadTo_noSpace _ _) (fun q hq => hp q (by simp [hq]))]
    simp [pairTokens]

theorem convertPairs_tokens (pairs : List (Str × Nat)) (hp : ∀ p ∈ pairs, p.1 ∈ chfNames) :
    convertPairs (pairTokens pairs) = some pairs := by
  induction pairs with
  | nil => rfl
  | cons p r ih =>
    obtain ⟨chf, v⟩ := p
    have hc := chf_ok chf (hp (chf, v) (by simp))
    have ih' := ih (fun q hq => hp q (by simp [hq]))
    simp only [pairTokens, List.flatMap_cons, List.cons_append, List.nil_append] at ih' ⊢
    simp only [convertPairs, hc.1, if_neg hc.2.1, parseHex_hexPadTo, ih']

theorem dedupPairs_nodup (l : List (Str × Nat)) (h : (l.map (·.1)).Nodup) : dedupPairs l = l := by
  unfold dedupPairs
  suffices ∀ acc : List (Str × Nat), ((acc ++ l).map (·.1)).Nodup →
      l.foldl (fun d p => if d.any (·.1 == p.1) then d.map (fun q => if q.1 == p.1 then p else q) else d ++ [p]) acc
        = acc ++ l by simpa using this [] (by simpa using h)
  intro acc hacc
  clear h
  induction l generalizing acc with
  | nil => simp
  | cons p r ih =>
    have hp : acc.any (·.1 == p.1) = false := by
      rw [List.any_eq_false]
      intro x hx hk
      have hxe : x.1 = p.1 := by simpa using hk
      simp only [List.map_append, List.map_cons] at hacc
      have := (List.nodup_append.mp hacc).2.2
      exact this _ (List.mem_map_of_mem (f := (·.1)) hx) _ (by simp) hxe
    simp only [List.foldl_cons, hp, Bool.false_eq_true, if_false]
    rw [ih (acc ++ [p]) (by simpa using hacc)]
    simp

/-- a line without its newline -/
def lineBody (mtype name : Str) (s : Sums) : Str :=
  mtype ++ ' ' :: name ++ ' ' :: renderInt s.size
    ++ (sortBy (·.1) s.others).flatMap (fun (chf, v) => ' ' :: upper chf ++ ' ' :: hexPadTo (widthOf chf) v)

theorem manifestLine_eq (mtype name : Str) (s : Sums) : manifestLine mtype name s = lineBody mtype name s ++ ['\n'] := rfl

theorem sorted_others_ok (s : Sums) (h : goodSums s) :
    (∀ p ∈ sortBy (·.1) s.others, p.1 ∈ chfNames) ∧ ((sortBy (·.1) s.others).map (·.1)).Nodup := by
  have hperm := sortBy_perm (·.1) s.others
  exact ⟨fun p hp => mem_chfNames _ (h.2 p (hperm.mem_iff.mp hp)), (hperm.map (·.1)).nodup_iff.mpr h.1⟩

theorem pySplit_line (mtype name : Str) (s : Sums) (hm : noSpace mtype) (hn : noSpace name) (hs : goodSums s) :
    pySplit (lineBody mtype name s ++ ['\n'])
      = mtype :: name :: renderInt s.size :: pairTokens (sortBy (·.1) s.others) := by
  have e : lineBody mtype name s ++ ['\n']
      = mtype ++ ' ' :: (name ++ ' ' :: (renderInt s.size ++ pairTail (sortBy (·.1) s.others))) := by
    simp [lineBody, pairTail, List.append_assoc]
  unfold pySplit
  rw [e, pySplitGo_token mtype _ [] ' ' hm.2 isSpace_sp (by simpa using hm.1),
    pySplitGo_token name _ [] ' ' hn.2 isSpace_sp (by simpa using hn.1),
    pySplit_tail _ _ (renderInt_noSpace _) (sorted_others_ok s hs).1]
  simp

theorem pySplit_body (mtype name : Str) (s : Sums) (hm : noSpace mtype) (hn : noSpace name) (hs : goodSums s) :
    pySplit (lineBody mtype name s) = mtype :: name :: renderInt s.size :: pairTokens (sortBy (·.1) s.others) := by
  -- splitting ignores the trailing newline
  have h := pySplit_line mtype name s hm hn hs
  have key : ∀ (l cur : Str), pySplitGo (l ++ ['\n']) cur = pySplitGo l cur := by
    intro l
    induction l with
    | nil => intro cur; cases cur <;> simp [pySplitGo, isSpace_nl]
    | cons c cs ih =>
      intro cur
      simp only [List.cons_append, pySplitGo]
      split
      · split <;> simp [ih]
      · exact ih _
  unfold pySplit at h ⊢
  rw [← key]; exact h

theorem pairTokens_length_even (pairs : List (Str × Nat)) : (pairTokens pairs).length % 2 = 0 := by
  induction pairs with
  | nil => rfl
  | cons p r ih => simp [pairTokens] at ih ⊢; omega

theorem isSpace_no_break (s : Str) (h : ∀ c ∈ s, isSpace c = false) : Spec.noLineBreak s := by
  constructor <;> (intro m; have := h _ m; revert this; decide)

theorem lineBody_noBreak (mtype name : Str) (s : Sums) (hm : noSpace mtype) (hn : noSpace name) (hs : goodSums s) :
    C24.Spec.noLineBreak (lineBody mtype name s) := by
  have hchars : ∀ c ∈ lineBody mtype name s, c ≠ '\n' ∧ c ≠ '\r' := by
    intro c hc
    have nb : ∀ t : Str, (∀ x ∈ t, isSpace x = false) → c ∈ t → c ≠ '\n' ∧ c ≠ '\r' := fun t ht m => by
      have := ht c m
      constructor <;> (intro e; subst e; revert this; decide)
    simp only [lineBody, List.mem_append, List.mem_cons, List.mem_flatMap] at hc
    rcases hc with ((hc | rfl | hc) | rfl | hc) | ⟨p, hp, hc⟩
    · exact nb _ hm.2 hc
    · decide
    · exact nb _ hn.2 hc
    · decide
    · exact nb _ (renderInt_noSpace _).2 hc
    · obtain ⟨chf, v⟩ := p
      have hcn := chf_ok chf ((sorted_others_ok s hs).1 (chf, v) hp)
      rcases hc with (rfl | hc) | (rfl | hc)
      · decide
      · exact nb _ hcn.2.2.2 hc
      · decide
      · exact nb _ (hexPadTo_noSpace _ _).2 hc
  exact ⟨fun m => (hchars _ m).1 rfl, fun m => (hchars _ m).2 rfl⟩

/-! ## the parse loop over a rendered text -/

def typeTag : MType → Str
  | .dist => tag "DIST" | .aux => tag "AUX" | .ebuild => tag "EBUILD" | .misc => tag "MISC"

def bucket : MType → Parsed → List (Str × Sums)
  | .dist, p => p.dist | .aux, p => p.aux | .ebuild, p => p.ebuild | .misc, p => p.misc

def appendTo : MType → Parsed → List (Str × Sums) → Parsed
  | .dist, p, l => { p with dist := p.dist ++ l }
  | .aux, p, l => { p with aux := p.aux ++ l }
  | .ebuild, p, l => { p with ebuild := p.ebuild ++ l }
  | .misc, p, l => { p with misc := p.misc ++ l }

structure Rec where
  t : MType
  name : Str
  sums : Sums

def recBody (r : Rec) : Str := lineBody (typeTag r.t) r.name r.sums
def addRec (p : Parsed) (r : Rec) : Parsed := appendTo r.t p [(r.name, canonSums r.sums)]

theorem typeTag_noSpace (t : MType) : noSpace (typeTag t) := by
  cases t <;> exact ⟨by decide, by decide⟩

theorem addParsed_ok (p : Parsed) (t : MType) (name : Str) (s : Sums) (h : name ∉ (bucket t p).map (·.1)) :
    addParsed p (typeTag t) name s = some (appendTo t p [(name, s)]) := by
  have hd : (bucket t p).any (·.1 == name) = false := by
    rw [List.any_eq_false]
    intro x hx hk
    exact h (by rw [← (by simpa using hk : x.1 = name)]; exact List.mem_map_of_mem hx)
  cases t <;> simp only [bucket] at hd <;> simp [addParsed, typeTag, appendTo, hd, tag]

theorem bucket_appendTo (t t' : MType) (p : Parsed) (l : List (Str × Sums)) :
    bucket t (appendTo t' p l) = bucket t p ++ (if t = t' then l else []) := by
  cases t <;> cases t' <;> simp [bucket, appendTo]

theorem parseLoop_cons (l : Str) (ls : List Str) (p : Parsed) :
    parseLoop (l :: ls) p =
      match pySplit l with
      | [] => parseLoop ls p
      | [_] => none
      | [_, _] => none
      | t :: name :: size :: rest =>
        if rest.length % 2 ≠ 0 then none
        else match parseInt size, convertPairs rest with
          | some n, some pairs =>
            (match addParsed p t name ⟨n, dedupPairs pairs⟩ with
              | some p' => parseLoop ls p'
              | none => none)
          | _, _ => none := rfl

theorem parse_step (r : Rec) (ls : List Str) (p : Parsed) (hn : noSpace r.name) (hs : goodSums r.sums)
    (hfresh : r.name ∉ (bucket r.t p).map (·.1)) :
    parseLoop (recBody r :: ls) p = parseLoop ls (addRec p r) := by
  have hsplit := pySplit_body (typeTag r.t) r.name r.sums (typeTag_noSpace r.t) hn hs
  have hso := sorted_others_ok r.sums hs
  rw [parseLoop_cons]
  unfold recBody
  rw [hsplit]
  simp only [pairTokens_length_even, ne_eq, not_true_eq_false, if_false, parseInt_renderInt,
    convertPairs_tokens _ hso.1, dedupPairs_nodup _ hso.2]
  have := addParsed_ok p r.t r.name ⟨r.sums.size, sortBy (·.1) r.sums.others⟩ hfresh
  simp only [this]
  rfl

theorem parseLoop_recs (R : List Rec) (p : Parsed)
    (hok : ∀ r ∈ R, noSpace r.name ∧ goodSums r.sums)
    (hnd : ∀ t, ((bucket t p).map (·.1) ++ (R.filter (·.t = t)).map (·.name)).Nodup) :
    parseLoop (R.map recBody ++ [[]]) p = some (R.foldl addRec p) := by
  induction R generalizing p with
  | nil => simp [parseLoop, pySplit, pySplitGo]
  | cons r R ih =>
    have hfresh : r.name ∉ (bucket r.t p).map (·.1) := by
      have := hnd r.t
      simp only [List.filter_cons, decide_true, if_true, List.map_cons] at this
      have h2 := (List.nodup_append.mp this).2.2
      intro hm
      exact h2 _ hm _ (by simp) rfl
    simp only [List.map_cons, List.cons_append, List.foldl_cons]
    rw [parse_step r _ p (hok r (by simp)).1 (hok r (by simp)).2 hfresh]
    apply ih _ (fun x hx => hok x (by simp [hx]))
    intro t
    have := hnd t
    simp only [addRec, bucket_appendTo]
    by_cases ht : t = r.t
    · subst ht
      simp only [if_true, List.filter_cons, decide_true, List.map_cons, List.map_append, List.map_nil,
        List.append_assoc, List.singleton_append] at this ⊢
      exact this
    · have hne : ¬ (r.t = t) := fun e => ht e.symm
      simp only [if_neg ht, List.append_nil, List.filter_cons, hne, decide_false, Bool.false_eq_true, if_false] at this ⊢
      exact this

theorem bucket_foldl (R : List Rec) (p : Parsed) (t : MType) :
    bucket t (R.foldl addRec p) = bucket t p ++ (R.filter (·.t = t)).map fun r => (r.name, canonSums r.sums) := by
  induction R generalizing p with
  | nil => simp
  | cons r R ih =>
    simp only [List.foldl_cons, ih, addRec, bucket_appendTo, List.filter_cons]
    by_cases ht : t = r.t
    · subst ht; simp
    · have hne : ¬ (r.t = t) := fun e => ht e.symm
      simp [ht, hne]

theorem splitLines_recs (R : List Rec) (hok : ∀ r ∈ R, noSpace r.name ∧ goodSums r.sums) :
    splitLines (R.flatMap fun r => recBody r ++ ['\n']) = R.map recBody ++ [[]] := by
  induction R with
  | nil => simp [splitLines]
  | cons r R ih =>
    have hb : C24.Spec.noLineBreak (recBody r) :=
      lineBody_noBreak _ _ _ (typeTag_noSpace r.t) (hok r (by simp)).1 (hok r (by simp)).2
    simp only [List.flatMap_cons, List.append_assoc, List.map_cons, List.cons_append, List.nil_append]
    rw [splitLines_line (recBody r) _ hb, ih (fun x hx => hok x (by simp [hx]))]

/-- parsing the text rendered from a list of records gives the records back, bucket by bucket -/
theorem parse_recs (R : List Rec) (hok : ∀ r ∈ R, noSpace r.name ∧ goodSums r.sums)
    (hnd : ∀ t, ((R.filter (·.t = t)).map (·.name)).Nodup) :
    ∃ p, parseManifest (R.flatMap fun r => recBody r ++ ['\n']) = some p ∧
      ∀ t, bucket t p = (R.filter (·.t = t)).map fun r => (r.name, canonSums r.sums) := by
  refine ⟨R.foldl addRec {}, ?_, ?_⟩
  · unfold parseManifest
    rw [splitLines_recs R hok]
    exact parseLoop_recs R {} hok (fun t => by cases t <;> simpa [bucket] using hnd _)
  · intro t
    rw [bucket_foldl]
    cases t <;> simp [bucket]

/-! ## the scan loop and what a Manifest covers -/

/-- what the loop files under bucket `t` for one scanned object -/
def pick (t : MType) (o : ScanObj) : Option (Str × Sums) :=
  match t, classify o with
  | .aux, .aux n => some (n, o.sums)
  | .ebuild, .ebuild n => some (n, o.sums)
  | .misc, .misc n => some (n, o.sums)
  | _, _ => none

theorem isPrefixOf_eq (p s : Str) (h : p.isPrefixOf s = true) : s = p ++ s.drop p.length := by
  induction p generalizing s with
  | nil => simp
  | cons c cs ih =>
    cases s with
    | nil => simp [List.isPrefixOf] at h
    | cons d ds =>
      simp only [List.isPrefixOf, Bool.and_eq_true, beq_iff_eq] at h
      obtain ⟨rfl, h2⟩ := h
      simp only [List.cons_append, List.length_cons, List.drop_succ_cons, List.cons.injEq, true_and]
      exact ih ds h2

theorem isPrefixOf_snoc (p a : Str) (x : Char) (hx : x ∉ p) : p.isPrefixOf (a ++ [x]) = p.isPrefixOf a := by
  induction p generalizing a with
  | nil => simp [List.isPrefixOf]
  | cons c cs ih =>
    have hc : c ≠ x := fun e => hx (by simp [e])
    cases a with
    | nil => simp [List.isPrefixOf, hc]
    | cons d ds =>
      simp only [List.cons_append, List.isPrefixOf]
      rw [ih ds (fun m => hx (by simp [m]))]

theorem classify_aux_path (o : ScanObj) (n : Str) (h : classify o = .aux n) : o.path = tag "/files/" ++ n := by
  unfold classify at h
  split at h; · cases h
  split at h; · cases h
  split at h
  · rename_i hs
    simp only [Cls.aux.injEq] at h
    subst h
    exact isPrefixOf_eq _ _ hs
  · split at h
    · split at h <;> cases h
    · cases h

theorem classify_top_path (o : ScanObj) (n : Str) (h : classify o = .ebuild n ∨ classify o = .misc n) :
    o.path = '/' :: n ∧ '/' ∉ n := by
  unfold classify at h
  split at h; · rcases h with h | h <;> cases h
  split at h; · rcases h with h | h <;> cases h
  split at h; · rcases h with h | h <;> cases h
  split at h
  · rename_i ht
    simp only [topLevel, Bool.and_eq_true, decide_eq_true_eq, Bool.not_eq_true'] at ht
    have hn : n = o.path.drop 1 := by
      split at h <;> rcases h with h | h <;> first | (cases h; rfl) | cases h
    cases hp : o.path with
    | nil => rw [hp] at ht; simp at ht
    | cons c cs =>
      rw [hp] at ht hn
      simp only [List.head?_cons, Option.some.injEq, List.drop_succ_cons, List.drop_zero] at ht hn
      subst hn
      obtain ⟨rfl, h2⟩ := ht
      exact ⟨rfl, by simpa using h2⟩
  · rcases h with h | h <;> cases h

theorem dictPut_fresh (d : List (Str × Sums)) (n : Str) (s : Sums) (h : n ∉ d.map (·.1)) : dictPut d n s = d ++ [(n, s)] := by
  have : d.any (·.1 == n) = false := by
    rw [List.any_eq_false]
    intro x hx hk
    exact h (by rw [← (by simpa using hk : x.1 = n)]; exact List.mem_map_of_mem hx)
  simp [dictPut, this]

/-- the path a bucket entry came from -/
def pathOf : MType → Str → Str
  | .aux, n => tag "/files/" ++ n
  | _, n => '/' :: n

def bucketB : MType → Buckets → List (Str × Sums)
  | .aux, b => b.aux | .ebuild, b => b.ebuild | .misc, b => b.misc | .dist, _ => []

theorem scanLoop_ok (scan : List ScanObj) (b : Buckets) (hl : ∀ o ∈ scan, classify o ≠ .bad)
    (hp : (scan.map (·.path)).Nodup)
    (hf : ∀ t, ∀ x ∈ bucketB t b, pathOf t x.1 ∉ scan.map (·.path)) :
    scanLoop scan b = some ⟨b.aux ++ scan.filterMap (pick .aux), b.ebuild ++ scan.filterMap (pick .ebuild),
      b.misc ++ scan.filterMap (pick .misc)⟩ := by
  induction scan generalizing b with
  | nil => simp [scanLoop]
  | cons o os ih =>
    simp only [List.map_cons, List.nodup_cons] at hp
    have hl' : ∀ x ∈ os, classify x ≠ .bad := fun x hx => hl x (by simp [hx])
    have hold : ∀ t, ∀ x ∈ bucketB t b, pathOf t x.1 ∉ os.map (·.path) := fun t x hx m =>
      hf t x hx (by simp [m])
    have fresh : ∀ t n, pathOf t n = o.path → n ∉ (bucketB t b).map (·.1) := by
      intro t n hpn hm
      obtain ⟨x, hx, rfl⟩ := List.mem_map.mp hm
      exact hf t x hx (by simp [hpn])
    have hnew : ∀ t n, pathOf t n = o.path → pathOf t n ∉ os.map (·.path) := fun t n e => e ▸ hp.1
    unfold scanLoop
    cases hc : classify o with
    | bad => exact absurd hc (hl o (by simp))
    | skip =>
      simp only
      rw [ih b hl' hp.2 hold]
      simp [List.filterMap_cons, pick, hc]
    | aux n =>
      have hpath := (classify_aux_path o n hc).symm
      simp only
      have hfr : n ∉ b.aux.map (·.1) := fresh .aux n hpath
      rw [dictPut_fresh b.aux n o.sums hfr, ih _ hl' hp.2 (by
        intro t x hx
        cases t <;> simp only [bucketB, List.mem_append, List.mem_singleton] at hx
        · exact hold .dist x (by simpa [bucketB] using hx)
        · rcases hx with hx | rfl
          · exact hold .aux x hx
          · exact hnew .aux n hpath
        · exact hold .ebuild x hx
        · exact hold .misc x hx)]
      simp [List.filterMap_cons, pick, hc]
    | ebuild n =>
      have hpath : pathOf .ebuild n = o.path := (classify_top_path o n (Or.inl hc)).1.symm
      simp only
      have hfr : n ∉ b.ebuild.map (·.1) := fresh .ebuild n hpath
      rw [dictPut_fresh b.ebuild n o.sums hfr, ih _ hl' hp.2 (by
        intro t x hx
        cases t <;> simp only [bucketB, List.mem_append, List.mem_singleton] at hx
        · exact hold .dist x (by simpa [bucketB] using hx)
        · exact hold .aux x hx
        · rcases hx with hx | rfl
          · exact hold .ebuild x hx
          · exact hnew .ebuild n hpath
        · exact hold .misc x hx)]
      simp [List.filterMap_cons, pick, hc]
    | misc n =>
      have hpath : pathOf .misc n = o.path := (classify_top_path o n (Or.inr hc)).1.symm
      simp only
      have hfr : n ∉ b.misc.map (·.1) := fresh .misc n hpath
      rw [dictPut_fresh b.misc n o.sums hfr, ih _ hl' hp.2 (by
        intro t x hx
        cases t <;> simp only [bucketB, List.mem_append, List.mem_singleton] at hx
        · exact hold .dist x (by simpa [bucketB] using hx)
        · exact hold .aux x hx
        · exact hold .ebuild x hx
        · rcases hx with hx | rfl
          · exact hold .misc x hx
          · exact hnew .misc n hpath)]
      simp [List.filterMap_cons, pick, hc]

/-! ## the loop's classification is the component-wise specification -/

theorem kindOf_excluded (path : Str) (h : isExcluded path = true) : kindOf path = none := by
  unfold kindOf
  simp only [isExcluded] at h
  simp [h]

theorem kindOf_files (n : Str) (h : isExcluded (tag "/files/" ++ n) = false) :
    kindOf (tag "/files/" ++ n) = some (.aux, n) := by
  have hs : splitOn '/' (tag "/files/" ++ n) = [] :: tag "files" :: splitOn '/' n := by
    have e : tag "/files/" ++ n = [] ++ '/' :: (tag "files" ++ '/' :: n) := by simp [tag]
    rw [e, splitOn_append_sep, splitOn_append_sep, splitOn_nosep '/' (tag "files") (by decide)]
    rfl
  unfold kindOf
  simp only [isExcluded, hs] at h
  simp only [hs, h, Bool.false_eq_true, if_false]
  cases hn : splitOn '/' n with
  | nil => exact absurd hn (splitOn_ne_nil '/' n)
  | cons r rs =>
    simp only [if_true]
    rw [← hn, joinWith_splitOn]

theorem kindOf_top (n : Str) (hn : '/' ∉ n) (h : isExcluded ('/' :: n) = false) :
    kindOf ('/' :: n) = some (if endsWith (tag ".ebuild") ('/' :: n) then .ebuild else .misc, n) := by
  have hs : splitOn '/' ('/' :: n) = [[], n] := by
    have e : '/' :: n = [] ++ '/' :: n := rfl
    rw [e, splitOn_append_sep, splitOn_nosep '/' n hn]; rfl
  have he : endsWith (tag ".ebuild") ('/' :: n) = (tag ".ebuild").reverse.isPrefixOf n.reverse := by
    unfold endsWith
    rw [List.reverse_cons, isPrefixOf_snoc _ _ _ (by decide)]
  unfold kindOf
  simp only [isExcluded, hs] at h
  simp only [hs, h, Bool.false_eq_true, if_false, he]

theorem kindOf_classify (o : ScanObj) (hreg : o.isReg = true) :
    (classify o = .skip → kindOf o.path = none) ∧
    (∀ n, classify o = .aux n → kindOf o.path = some (.aux, n)) ∧
    (∀ n, classify o = .ebuild n → kindOf o.path = some (.ebuild, n)) ∧
    (∀ n, classify o = .misc n → kindOf o.path = some (.misc, n)) := by
  by_cases hex : isExcluded o.path = true
  · have hc : classify o = .skip := by simp [classify, hreg, hex]
    refine ⟨fun _ => kindOf_excluded _ hex, ?_, ?_, ?_⟩ <;> (intro n h; rw [hc] at h; cases h)
  · have hex' : isExcluded o.path = false := by simpa using hex
    refine ⟨?_, ?_, ?_, ?_⟩
    · intro h
      unfold classify at h
      simp only [hreg, Bool.not_true, Bool.false_eq_true, if_false, hex'] at h
      split at h
      · cases h
      · split at h
        · split at h <;> cases h
        · cases h
    · intro n h
      have hp := classify_aux_path o n h
      rw [hp] at hex' ⊢
      exact kindOf_files n hex'
    · intro n h
      have ⟨hp, hn⟩ := classify_top_path o n (Or.inl h)
      have hk := kindOf_top n hn (hp ▸ hex')
      unfold classify at h
      simp only [hreg, Bool.not_true, Bool.false_eq_true, if_false, hex'] at h
      split at h; · cases h
      split at h
      · split at h
        · rename_i he; rw [hp] at he ⊢; rw [hk, if_pos he]
        · cases h
      · cases h
    · intro n h
      have ⟨hp, hn⟩ := classify_top_path o n (Or.inr h)
      have hk := kindOf_top n hn (hp ▸ hex')
      unfold classify at h
      simp only [hreg, Bool.not_true, Bool.false_eq_true, if_false, hex'] at h
      split at h; · cases h
      split at h
      · split at h
        · cases h
        · rename_i he; rw [hp] at he ⊢; rw [hk, if_neg he]
      · cases h

/-- what the specification says the scan contributes to bucket `t` -/
def specPick (t : MType) (o : ScanObj) : Option (Str × Sums) :=
  if o.isReg then (match kindOf o.path with
    | some (t', n) => if t' = t then some (n, canonSums o.sums) else none
    | none => none)
  else none

theorem pick_spec (t : MType) (ht : t ≠ .dist) (o : ScanObj) (hnb : classify o ≠ .bad) :
    (pick t o).map (fun x => (x.1, canonSums x.2)) = specPick t o := by
  unfold specPick
  by_cases hreg : o.isReg = true
  · obtain ⟨k1, k2, k3, k4⟩ := kindOf_classify o hreg
    simp only [hreg, if_true]
    cases hc : classify o with
    | bad => exact absurd hc hnb
    | skip => rw [k1 hc]; cases t <;> simp [pick, hc]
    | aux n => rw [k2 n hc]; cases t <;> simp [pick, hc]
    | ebuild n => rw [k3 n hc]; cases t <;> simp [pick, hc]
    | misc n => rw [k4 n hc]; cases t <;> simp [pick, hc]
  · have hf : o.isReg = false := by simpa using hreg
    have hc : classify o = .skip := by simp [classify, hf]
    simp only [hf, Bool.false_eq_true, if_false]
    cases t <;> simp [pick, hc]

theorem filterMap_pick_spec (t : MType) (ht : t ≠ .dist) (scan : List ScanObj) (hl : ∀ o ∈ scan, classify o ≠ .bad) :
    (scan.filterMap (pick t)).map (fun x => (x.1, canonSums x.2)) = scan.filterMap (specPick t) := by
  induction scan with
  | nil => rfl
  | cons o os ih =>
    have h1 := pick_spec t ht o (hl o (by simp))
    have ih' := ih (fun x hx => hl x (by simp [hx]))
    simp only [List.filterMap_cons]
    cases hp : pick t o with
    | none => rw [hp] at h1; simp only [Option.map_none] at h1; rw [← h1]; exact ih'
    | some x => rw [hp] at h1; simp only [Option.map_some] at h1; rw [← h1, List.map_cons, ih']

theorem entries_scan (t : MType) (ht : t ≠ .dist) (scan : List ScanObj) (fetch : List Fetchable) :
    entries t scan fetch = sortBy (·.1) (scan.filterMap (specPick t)) := by
  cases t <;> first | exact absurd rfl ht | rfl

/-! ## facts about what the loop picked -/

theorem pick_mem (t : MType) (scan : List ScanObj) (x : Str × Sums) (h : x ∈ scan.filterMap (pick t)) :
    ∃ o ∈ scan, pick t o = some x := by
  obtain ⟨o, ho, hp⟩ := List.mem_filterMap.mp h
  exact ⟨o, ho, hp⟩

theorem pick_facts (t : MType) (o : ScanObj) (x : Str × Sums) (h : pick t o = some x) :
    t ≠ .dist ∧ o.isReg = true ∧ x.2 = o.sums ∧ pathOf t x.1 = o.path ∧ kindOf o.path = some (t, x.1) := by
  have hreg : o.isReg = true := by
    cases hr : o.isReg with
    | true => rfl
    | false =>
      have hc : classify o = .skip := by simp [classify, hr]
      cases t <;> simp [pick, hc] at h
  obtain ⟨_, k2, k3, k4⟩ := kindOf_classify o hreg
  cases t with
  | dist => simp [pick] at h
  | aux =>
    cases hc : classify o <;> simp [pick, hc] at h
    rename_i n; subst h
    exact ⟨by simp, hreg, rfl, (classify_aux_path o n hc).symm, k2 n hc⟩
  | ebuild =>
    cases hc : classify o <;> simp [pick, hc] at h
    rename_i n; subst h
    exact ⟨by simp, hreg, rfl, (classify_top_path o n (Or.inl hc)).1.symm, k3 n hc⟩
  | misc =>
    cases hc : classify o <;> simp [pick, hc] at h
    rename_i n; subst h
    exact ⟨by simp, hreg, rfl, (classify_top_path o n (Or.inr hc)).1.symm, k4 n hc⟩

theorem pathOf_inj (t : MType) (a b : Str) (h : pathOf t a = pathOf t b) : a = b := by
  cases t <;> simp [pathOf] at h <;> exact h

theorem picked_paths_sublist (t : MType) (scan : List ScanObj) :
    ((scan.filterMap (pick t)).map fun x => pathOf t x.1).Sublist (scan.map (·.path)) := by
  induction scan with
  | nil => simp
  | cons o os ih =>
    simp only [List.filterMap_cons, List.map_cons]
    cases hp : pick t o with
    | none => exact ih.cons _
    | some x =>
      simp only [List.map_cons]
      rw [(pick_facts t o x hp).2.2.2.1]
      exact ih.cons_cons _

theorem picked_names_nodup (t : MType) (scan : List ScanObj) (hp : (scan.map (·.path)).Nodup) :
    ((scan.filterMap (pick t)).map (·.1)).Nodup := by
  have h1 : ((scan.filterMap (pick t)).map fun x => pathOf t x.1).Nodup := (picked_paths_sublist t scan).nodup hp
  have : ((scan.filterMap (pick t)).map fun x => pathOf t x.1) = ((scan.filterMap (pick t)).map (·.1)).map (pathOf t) := by
    simp [List.map_map]
  rw [this] at h1
  exact List.Pairwise.of_map (pathOf t) (fun a b hne e => hne (by rw [e])) h1

theorem filter_map_type {β : Type} (L : List β) (t0 t : MType) (f : β → Str) (g : β → Sums) :
    (L.map fun x => (⟨t0, f x, g x⟩ : Rec)).filter (fun r => decide (r.t = t)) = if t0 = t then L.map (fun x => ⟨t0, f x, g x⟩) else [] := by
  by_cases h : t0 = t
  · have : L.filter (fun _ => true) = L := List.filter_eq_self.mpr (fun _ _ => rfl)
    simp [h, List.filter_map, Function.comp_def, this]
  · simp [h, List.filter_map, Function.comp_def]

end Pkgcore.C28
