import Pkgcore.Proofs.C03Ver
/-!
# C03 — USE dependency tokens: the validation loop accepts exactly the PMS forms
-/
namespace Pkgcore.C03
open Pkgcore.C01 Pkgcore.C02 Pkgcore.C03.Spec

/-- a character with property `p` differs from one without -/
theorem ne_of_class {p : Char → Bool} {c x : Char} (hc : p c = true) (hx : p x = false) : c ≠ x := by
  intro e; subst e; simp [hc] at hx

theorem validUseFlag_iff (z : Str) : validUseFlag z = true ↔ useFlagOk z = true := by
  cases z with
  | nil => simp [validUseFlag, useFlagOk]
  | cons c cs =>
    simp only [validUseFlag, useFlagOk, nameChars, isAlnum, List.all_cons, Bool.and_eq_true, List.all_eq_true,
      Bool.or_eq_true, List.contains_cons, List.contains_nil, Bool.or_false, beq_iff_eq]
    constructor
    · rintro ⟨h1, h2⟩
      exact ⟨⟨Or.inl h1, fun x hx => by simpa [or_assoc] using h2 x hx⟩, h1⟩
    · rintro ⟨⟨_, h2⟩, h1⟩
      exact ⟨h1, fun x hx => by simpa [or_assoc] using h2 x hx⟩

def useFlagChar (c : Char) : Bool := c.isAlphanum || c == '+' || c == '_' || c == '@' || c == '-'

/-- shape of a valid flag name: first character alphanumeric, all characters flag characters -/
theorem useFlagOk_shape {f : Str} (h : useFlagOk f = true) :
    ∃ c cs, f = c :: cs ∧ c.isAlphanum = true ∧ ∀ x ∈ f, useFlagChar x = true := by
  cases f with
  | nil => simp [useFlagOk] at h
  | cons c cs =>
    simp only [useFlagOk, nameChars, Bool.and_eq_true, List.all_eq_true, Bool.or_eq_true, List.contains_cons,
      List.contains_nil, Bool.or_false, beq_iff_eq] at h
    refine ⟨c, cs, rfl, h.2, fun x hx => ?_⟩
    have := h.1 x hx
    simp only [useFlagChar, Bool.or_eq_true, beq_iff_eq]
    simpa [or_assoc] using this

theorem getLast?_flag {f : Str} (h : useFlagOk f = true) : ∃ l, f.getLast? = some l ∧ useFlagChar l = true := by
  obtain ⟨c, cs, rfl, _, hall⟩ := useFlagOk_shape h
  have hne : (c :: cs) ≠ [] := by simp
  exact ⟨(c :: cs).getLast hne, List.getLast?_eq_some_getLast hne, hall _ (List.getLast_mem hne)⟩

/-- a 3-character suffix test on `y ++ s` with `|s| = 3` compares with `s` -/
theorem isSuffixOf_append_same_length {suf y s : Str} (hl : suf.length = s.length) :
    suf.isSuffixOf (y ++ s) = true ↔ suf = s := by
  rw [List.isSuffixOf_iff_suffix]
  constructor
  · rintro ⟨t, ht⟩
    exact (List.append_inj' ht hl).2
  · rintro rfl
    exact List.suffix_append _ _

/-! ## completeness: every PMS form passes the loop body -/

theorem stripUseAffixes_concat (x : Str) (l : Char) (hl : l = '=' ∨ l = '?') :
    stripUseAffixes (x ++ [l]) =
      match x with
      | [] => .error .useEmptyTok
      | c :: t =>
        match (if c = '!' then t else c :: t) with
        | [] => .error .useEmptyTok
        | d :: r => if d = '-' then .error .useMalformed else .ok (d :: r) := by
  unfold stripUseAffixes
  rw [List.getLast?_concat, List.dropLast_concat]
  simp only [hl, if_true]
  cases x with
  | nil => rfl
  | cons c t =>
    simp only
    by_cases hc : c = '!'
    · simp only [hc, if_true]
      cases t <;> rfl
    · simp only [hc, if_false]

theorem stripUseAffixes_plain (c : Char) (t : Str) (l : Char) (hl : (c :: t).getLast? = some l)
    (hl1 : l ≠ '=') (hl2 : l ≠ '?') :
    stripUseAffixes (c :: t) = if c = '-' then .ok t else .ok (c :: t) := by
  unfold stripUseAffixes
  simp only [hl, hl1, hl2, or_self, if_false]

theorem stripUseAffixes_forms {pre suf w : Str} (hf : (pre, suf) ∈ useForms) {c : Char} {rest : Str}
    (hw : w = c :: rest) (hc1 : c ≠ '!') (hc2 : c ≠ '-') {l : Char} (hl : w.getLast? = some l)
    (hl1 : l ≠ '=') (hl2 : l ≠ '?') : stripUseAffixes (pre ++ w ++ suf) = .ok w := by
  subst hw
  simp only [useForms, List.mem_cons, Prod.mk.injEq, List.not_mem_nil, or_false] at hf
  rcases hf with ⟨rfl, rfl⟩ | ⟨rfl, rfl⟩ | ⟨rfl, rfl⟩ | ⟨rfl, rfl⟩ | ⟨rfl, rfl⟩ | ⟨rfl, rfl⟩
  · simp only [List.nil_append, List.append_nil]
    rw [stripUseAffixes_plain c rest l hl hl1 hl2]; simp [hc2]
  · have : ('-' :: c :: rest).getLast? = some l := by
      rw [show '-' :: c :: rest = ['-'] ++ (c :: rest) from rfl, List.getLast?_append, hl]; rfl
    simp only [List.append_nil]
    rw [show ['-'] ++ c :: rest = '-' :: c :: rest from rfl, stripUseAffixes_plain '-' (c :: rest) l this hl1 hl2]
    simp
  · rw [List.nil_append, stripUseAffixes_concat _ _ (Or.inl rfl)]; simp [hc1, hc2]
  · rw [show ['!'] ++ c :: rest = '!' :: c :: rest from rfl, stripUseAffixes_concat _ _ (Or.inl rfl)]; simp [hc2]
  · rw [List.nil_append, stripUseAffixes_concat _ _ (Or.inr rfl)]; simp [hc1, hc2]
  · rw [show ['!'] ++ c :: rest = '!' :: c :: rest from rfl, stripUseAffixes_concat _ _ (Or.inr rfl)]; simp [hc2]

theorem checkUseTok_complete {o : Opts} {t : Str} (h : useTokOk o t) : checkUseTok o t = .ok () := by
  obtain ⟨pre, flag, dfl, suf, hf, hd, hflag, rfl⟩ := h
  obtain ⟨c, cs, hfc, hc, hall⟩ := useFlagOk_shape hflag
  obtain ⟨lf, hlf, hlfc⟩ := getLast?_flag hflag
  have hc1 : c ≠ '!' := ne_of_class (p := Char.isAlphanum) hc (by decide)
  have hc2 : c ≠ '-' := ne_of_class (p := Char.isAlphanum) hc (by decide)
  have hvalid : validUseFlag flag = true := (validUseFlag_iff flag).mpr hflag
  have hne : flag.isEmpty = false := by simp [hfc]
  -- the three possible defaults
  have hdcases : dfl = [] ∨ (o.useDepDefaults = true ∧ (dfl = ['(', '+', ')'] ∨ dfl = ['(', '-', ')'])) := by
    unfold useDefaults at hd
    split at hd
    · rename_i ho
      simp only [List.mem_cons, List.not_mem_nil, or_false] at hd
      rcases hd with h | h | h
      · exact Or.inl h
      · exact Or.inr ⟨ho, Or.inl h⟩
      · exact Or.inr ⟨ho, Or.inr h⟩
    · simp only [List.mem_cons, List.not_mem_nil, or_false] at hd
      exact Or.inl hd
  rcases hdcases with rfl | ⟨ho, rfl | rfl⟩
  · -- no default
    have hstrip := stripUseAffixes_forms (w := flag) hf hfc hc1 hc2 hlf
      (ne_of_class (p := useFlagChar) hlfc (by decide)) (ne_of_class (p := useFlagChar) hlfc (by decide))
    have hl3 : lf ≠ ')' := ne_of_class (p := useFlagChar) hlfc (by decide)
    simp only [List.append_nil] at hstrip ⊢
    unfold checkUseTok
    rw [hstrip]
    simp [hlf, hl3, hne, hvalid]
  · have hw : flag ++ ['(', '+', ')'] = c :: (cs ++ ['(', '+', ')']) := by simp [hfc]
    have hl : (flag ++ ['(', '+', ')']).getLast? = some ')' := by simp [List.getLast?_append]
    have hstrip := stripUseAffixes_forms (w := flag ++ ['(', '+', ')']) hf hw hc1 hc2 hl (by decide) (by decide)
    rw [List.append_assoc pre flag]
    unfold checkUseTok
    rw [hstrip]
    simp [hl, ho, stripSuffix?_append, hne, hvalid]
  · have hw : flag ++ ['(', '-', ')'] = c :: (cs ++ ['(', '-', ')']) := by simp [hfc]
    have hl : (flag ++ ['(', '-', ')']).getLast? = some ')' := by simp [List.getLast?_append]
    have hstrip := stripUseAffixes_forms (w := flag ++ ['(', '-', ')']) hf hw hc1 hc2 hl (by decide) (by decide)
    have hnone : stripSuffix? ['(', '+', ')'] (flag ++ ['(', '-', ')']) = none := by
      unfold stripSuffix?
      have : ¬ (['(', '+', ')'].isSuffixOf (flag ++ ['(', '-', ')']) = true) := by
        rw [isSuffixOf_append_same_length (by rfl)]; decide
      simp [this]
    rw [List.append_assoc pre flag]
    unfold checkUseTok
    rw [hstrip]
    simp [hl, ho, hnone, stripSuffix?_append, hne, hvalid]

/-! ## soundness: what passes the loop body is one of the PMS forms -/

theorem stripUseAffixes_sound {t y : Str} (h : stripUseAffixes t = .ok y) :
    ∃ pre suf, (pre, suf) ∈ useForms ∧ t = pre ++ y ++ suf := by
  unfold stripUseAffixes at h
  cases hl : t.getLast? with
  | none => simp [hl] at h
  | some l =>
    simp only [hl] at h
    have ht := eq_dropLast_append_of_getLast? hl
    by_cases hq : l = '=' ∨ l = '?'
    · simp only [hq, if_true] at h
      cases hd : t.dropLast with
      | nil => simp [hd] at h
      | cons c tl =>
        simp only [hd] at h
        rw [hd] at ht
        by_cases hc : c = '!'
        · simp only [hc, if_true] at h
          cases tl with
          | nil => simp at h
          | cons d r =>
            simp only at h
            split at h
            · cases h
            · simp only [Except.ok.injEq] at h
              subst h
              rcases hq with rfl | rfl
              · exact ⟨['!'], ['='], by simp [useForms], by rw [ht, hc]; simp⟩
              · exact ⟨['!'], ['?'], by simp [useForms], by rw [ht, hc]; simp⟩
        · simp only [hc, if_false] at h
          split at h
          · cases h
          · simp only [Except.ok.injEq] at h
            subst h
            rcases hq with rfl | rfl
            · exact ⟨[], ['='], by simp [useForms], by rw [ht]; simp⟩
            · exact ⟨[], ['?'], by simp [useForms], by rw [ht]; simp⟩
    · simp only [hq, if_false] at h
      cases t with
      | nil => simp at hl
      | cons c tl =>
        simp only at h
        by_cases hc : c = '-'
        · simp only [hc, if_true, Except.ok.injEq] at h
          subst h
          exact ⟨['-'], [], by simp [useForms], by simp [hc]⟩
        · simp only [hc, if_false, Except.ok.injEq] at h
          subst h
          exact ⟨[], [], by simp [useForms], by simp⟩

theorem checkUseTok_sound {o : Opts} {t : Str} (h : checkUseTok o t = .ok ()) : useTokOk o t := by
  unfold checkUseTok at h
  cases hs : stripUseAffixes t with
  | error e => simp [hs] at h
  | ok y =>
    simp only [hs] at h
    obtain ⟨pre, suf, hf, rfl⟩ := stripUseAffixes_sound hs
    cases hl : y.getLast? with
    | none => simp [hl] at h
    | some l =>
      simp only [hl] at h
      -- y = z ++ dfl with dfl an allowed default and z a valid flag
      have key : ∀ z dfl, y = z ++ dfl → dfl ∈ useDefaults o.useDepDefaults →
          (if z.isEmpty = true then (Except.error Err.useEmptyTok : Except Err Unit)
            else if (!validUseFlag z) = true then .error .useBadFlag else .ok ()) = .ok () →
          useTokOk o (pre ++ y ++ suf) := by
        intro z dfl hy hd hz
        split at hz
        · cases hz
        · split at hz
          · cases hz
          · rename_i hv
            simp only [Bool.not_eq_true', Bool.not_eq_false] at hv
            exact ⟨pre, z, dfl, suf, hf, hd, (validUseFlag_iff z).mp hv, by rw [hy]; simp⟩
      have hnil : ([] : Str) ∈ useDefaults o.useDepDefaults := by
        unfold useDefaults; split <;> simp
      by_cases hp : l = ')'
      · simp only [hp, if_true] at h
        cases ho : o.useDepDefaults with
        | false => simp [ho] at h
        | true =>
          simp only [ho, Bool.not_true, Bool.false_eq_true, if_false] at h
          cases h1 : stripSuffix? ['(', '+', ')'] y with
          | some z =>
            simp only [h1] at h
            exact key z _ (stripSuffix?_sound h1) (by simp [useDefaults, ho]) h
          | none =>
            simp only [h1] at h
            cases h2 : stripSuffix? ['(', '-', ')'] y with
            | some z =>
              simp only [h2] at h
              exact key z _ (stripSuffix?_sound h2) (by simp [useDefaults, ho]) h
            | none =>
              simp only [h2] at h
              exact key y [] (by simp) hnil h
      · simp only [hp, if_false] at h
        exact key y [] (by simp) hnil h

theorem checkUseToks_iff (o : Opts) (l : List Str) : checkUseToks o l = .ok () ↔ ∀ t ∈ l, checkUseTok o t = .ok () := by
  induction l with
  | nil => simp [checkUseToks]
  | cons t ts ih =>
    unfold checkUseToks
    cases ht : checkUseTok o t with
    | error e => simp [ht]
    | ok u => simp [ht, ih]

theorem mem_sortUse (l : List Str) (t : Str) : t ∈ sortUse l ↔ t ∈ l :=
  (List.mergeSort_perm l _).mem_iff

theorem parseUse_ok_iff (o : Opts) (body : Str) (u : List Str) :
    parseUse o body = .ok u ↔ u = sortUse (splitOn ',' body) ∧ ∀ t ∈ splitOn ',' body, checkUseTok o t = .ok () := by
  unfold parseUse
  simp only
  cases hc : checkUseToks o (sortUse (splitOn ',' body)) with
  | error e =>
    simp only [reduceCtorEq, false_iff, not_and]
    intro _ hall
    have := (checkUseToks_iff o _).mpr (fun t ht => hall t ((mem_sortUse _ t).mp ht))
    rw [hc] at this
    cases this
  | ok x =>
    have := (checkUseToks_iff o _).mp hc
    simp only [Except.ok.injEq]
    constructor
    · rintro rfl
      exact ⟨rfl, fun t ht => this t ((mem_sortUse _ t).mpr ht)⟩
    · rintro ⟨rfl, _⟩
      rfl

end Pkgcore.C03
