import Pkgcore.Spec.C37
/-! # C37 helper lemmas -/
namespace Pkgcore.C37
open Pkgcore.C37.Spec

/-! ## well-formedness (what the named constructors and `&`/`any_of` guarantee) -/

mutual
/-- no condition uses the reserved field names `OP` / `CP` -/
def Chart.WF : Chart → Prop
  | .crit c => c.field ≠ "OP" ∧ c.field ≠ "CP"
  | .group _ ts => Chart.WFs ts
def Chart.WFs : List Chart → Prop
  | [] => True
  | t :: ts => Chart.WF t ∧ Chart.WFs ts
end

theorem Chart.WFs_append (a b : List Chart) : Chart.WFs (a ++ b) ↔ Chart.WFs a ∧ Chart.WFs b := by
  induction a with
  | nil => simp [Chart.WFs]
  | cons t ts ih => simp [Chart.WFs, ih, and_assoc]

/-! ## slots used by a rendering -/

/-- every parameter of `ps` is a chart parameter whose slot lies in `[s, s')` -/
def InRange (ps : List Param) (s s' : Nat) : Prop :=
  ∀ p ∈ ps, ∃ k, slotOf p.1 = some k ∧ s ≤ k ∧ k < s'

theorem InRange.append {a b : List Param} {s s' : Nat} (ha : InRange a s s') (hb : InRange b s s') :
    InRange (a ++ b) s s' := by
  intro p hp
  rcases List.mem_append.1 hp with h | h
  · exact ha p h
  · exact hb p h

theorem InRange.mono {a : List Param} {s s' t t' : Nat} (h : InRange a s s') (h1 : t ≤ s) (h2 : s' ≤ t') :
    InRange a t t' := by
  intro p hp
  obtain ⟨k, hk, h3, h4⟩ := h p hp
  exact ⟨k, hk, by omega, by omega⟩

theorem renderCrit_inRange (c : Criterion) (s : Nat) : InRange (renderCrit c s) s (s + 1) := by
  intro p hp
  simp only [renderCrit, List.mem_append, List.mem_cons, List.mem_map, List.not_mem_nil, or_false] at hp
  rcases hp with ((rfl | rfl) | ⟨x, _, rfl⟩) | hp
  · exact ⟨s, rfl, by omega, by omega⟩
  · exact ⟨s, rfl, by omega, by omega⟩
  · exact ⟨s, rfl, by omega, by omega⟩
  · split at hp
    · simp only [List.mem_cons, List.not_mem_nil, or_false] at hp
      subst hp
      exact ⟨s, rfl, by omega, by omega⟩
    · cases hp

mutual
theorem renderChart_lt (t : Chart) (s : Nat) : s < (renderChart t s).2 := by
  cases t with
  | crit c => simp [renderChart]
  | group j ts =>
    simp only [renderChart]
    have := renderCharts_le ts (s + 1)
    omega
theorem renderCharts_le (ts : List Chart) (s : Nat) : s ≤ (renderCharts ts s).2 := by
  cases ts with
  | nil => simp [renderCharts]
  | cons t ts =>
    simp only [renderCharts]
    have h1 := renderChart_lt t s
    have h2 := renderCharts_le ts (renderChart t s).2
    omega
end

mutual
theorem renderChart_inRange (t : Chart) (s : Nat) : InRange (renderChart t s).1 s (renderChart t s).2 := by
  cases t with
  | crit c => exact renderCrit_inRange c s
  | group j ts =>
    simp only [renderChart]
    have hle := renderCharts_le ts (s + 1)
    refine InRange.append (InRange.append ?_ ?_) ?_
    · intro p hp
      simp only [List.mem_cons, List.not_mem_nil, or_false] at hp
      rcases hp with rfl | rfl <;> exact ⟨s, rfl, by omega, by omega⟩
    · exact (renderCharts_inRange ts (s + 1)).mono (by omega) (by omega)
    · intro p hp
      simp only [List.mem_cons, List.not_mem_nil, or_false] at hp
      subst hp
      exact ⟨_, rfl, by omega, by omega⟩
theorem renderCharts_inRange (ts : List Chart) (s : Nat) : InRange (renderCharts ts s).1 s (renderCharts ts s).2 := by
  cases ts with
  | nil => intro p hp; simp [renderCharts] at hp
  | cons t ts =>
    simp only [renderCharts]
    have h1 := renderChart_lt t s
    have h2 := renderCharts_le ts (renderChart t s).2
    exact InRange.append ((renderChart_inRange t s).mono (by omega) h2)
      ((renderCharts_inRange ts _).mono (by omega) (by omega))
end

/-! ## `valuesOf` -/

theorem valuesOf_append (a b : List Param) (k : Key) : valuesOf (a ++ b) k = valuesOf a k ++ valuesOf b k := by
  simp [valuesOf]

theorem valuesOf_nil (k : Key) : valuesOf [] k = [] := rfl

theorem valuesOf_cons (p : Param) (a : List Param) (k : Key) :
    valuesOf (p :: a) k = (if p.1 = k then [p.2] else []) ++ valuesOf a k := by
  by_cases h : p.1 = k <;> simp [valuesOf, h]

/-- a key whose slot is outside the range of a rendering does not occur in it -/
theorem valuesOf_outside {ps : List Param} {s s' : Nat} (h : InRange ps s s') (key : Key) (k : Nat)
    (hk : slotOf key = some k) (hout : k < s ∨ s' ≤ k) : valuesOf ps key = [] := by
  simp only [valuesOf, List.map_eq_nil_iff, List.filter_eq_nil_iff, decide_eq_true_eq]
  intro p hp hpk
  obtain ⟨k', hk', h1, h2⟩ := h p hp
  rw [hpk, hk] at hk'
  cases hk'
  omega

/-- a key without slot (plain, paging) does not occur in a rendering -/
theorem valuesOf_noslot {ps : List Param} {s s' : Nat} (h : InRange ps s s') (key : Key)
    (hk : slotOf key = none) : valuesOf ps key = [] := by
  simp only [valuesOf, List.map_eq_nil_iff, List.filter_eq_nil_iff, decide_eq_true_eq]
  intro p hp hpk
  obtain ⟨k', hk', _⟩ := h p hp
  rw [hpk, hk] at hk'
  cases hk'

theorem valuesOf_renderCrit_f (c : Criterion) (s : Nat) : valuesOf (renderCrit c s) (.f s) = [c.field] := by
  cases hn : c.negate <;> simp [renderCrit, valuesOf, List.filter_map, Function.comp_def, hn]
theorem valuesOf_renderCrit_o (c : Criterion) (s : Nat) : valuesOf (renderCrit c s) (.o s) = [c.op] := by
  cases hn : c.negate <;> simp [renderCrit, valuesOf, List.filter_map, Function.comp_def, hn]
theorem valuesOf_renderCrit_j (c : Criterion) (s : Nat) : valuesOf (renderCrit c s) (.j s) = [] := by
  cases hn : c.negate <;> simp [renderCrit, valuesOf, List.filter_map, Function.comp_def, hn]
theorem valuesOf_renderCrit_n (c : Criterion) (s : Nat) :
    valuesOf (renderCrit c s) (.n s) = if c.negate then ["1"] else [] := by
  cases hn : c.negate <;> simp [renderCrit, valuesOf, List.filter_map, Function.comp_def, hn]
theorem valuesOf_renderCrit_v (c : Criterion) (s : Nat) : valuesOf (renderCrit c s) (.v s) = c.values := by
  cases hn : c.negate <;> simp [renderCrit, valuesOf, List.filter_map, Function.comp_def, hn]

/-! ## reading a rendering back -/

/-- `P` and `R` carry the same chart parameters in the slots `[s, s')` -/
def Agree (P R : List Param) (s s' : Nat) : Prop :=
  ∀ key k, slotOf key = some k → s ≤ k → k < s' → valuesOf P key = valuesOf R key

theorem step_congr {P R : List Param} {k : Nat}
    (h : ∀ key, slotOf key = some k → valuesOf P key = valuesOf R key) (st : List Frame) :
    step P st k = step R st k := by
  unfold step
  rw [h (.f k) rfl, h (.o k) rfl, h (.v k) rfl, h (.j k) rfl, h (.n k) rfl]

theorem step_crit (c : Criterion) (s : Nat) (fr : Frame) (st : List Frame)
    (hwf : c.field ≠ "OP" ∧ c.field ≠ "CP") :
    step (renderCrit c s) (fr :: st) s = some (fr.push (erase (.crit c)) :: st) := by
  unfold step
  rw [valuesOf_renderCrit_f, valuesOf_renderCrit_o, valuesOf_renderCrit_j, valuesOf_renderCrit_n,
    valuesOf_renderCrit_v]
  cases hn : c.negate <;> simp [hwf.1, hwf.2, erase, hn]

/-- the parameters of a rendered group at its opening slot -/
theorem group_open (j : String) (ts : List Chart) (s : Nat) (key : Key) (hk : slotOf key = some s) :
    valuesOf (renderChart (.group j ts) s).1 key
      = valuesOf [((Key.f s), "OP"), (Key.j s, j)] key := by
  simp only [renderChart, valuesOf_append]
  have hle := renderCharts_le ts (s + 1)
  rw [valuesOf_outside (renderCharts_inRange ts (s + 1)) key s hk (by omega)]
  have : valuesOf [(Key.f (renderCharts ts (s + 1)).2, "CP")] key = [] := by
    rw [valuesOf_cons, valuesOf_nil]
    have : Key.f (renderCharts ts (s + 1)).2 ≠ key := by
      rintro rfl
      simp only [slotOf, Option.some.injEq] at hk
      omega
    simp [this]
  simp [this]

/-- the parameters of a rendered group at its closing slot -/
theorem group_close (j : String) (ts : List Chart) (s : Nat) (key : Key)
    (hk : slotOf key = some (renderCharts ts (s + 1)).2) :
    valuesOf (renderChart (.group j ts) s).1 key
      = valuesOf [(Key.f (renderCharts ts (s + 1)).2, "CP")] key := by
  simp only [renderChart, valuesOf_append]
  have hle := renderCharts_le ts (s + 1)
  rw [valuesOf_outside (renderCharts_inRange ts (s + 1)) key _ hk (by omega)]
  have : valuesOf [((Key.f s), "OP"), (Key.j s, j)] key = [] := by
    have h1 : Key.f s ≠ key := by
      rintro rfl
      simp only [slotOf, Option.some.injEq] at hk
      omega
    have h2 : Key.j s ≠ key := by
      rintro rfl
      simp only [slotOf, Option.some.injEq] at hk
      omega
    simp [valuesOf_cons, valuesOf_nil, h1, h2]
  simp [this]

/-- the parameters of a rendered group at the slots of its children -/
theorem group_inner (j : String) (ts : List Chart) (s : Nat) (key : Key) (k : Nat) (hk : slotOf key = some k)
    (h1 : s + 1 ≤ k) (h2 : k < (renderCharts ts (s + 1)).2) :
    valuesOf (renderChart (.group j ts) s).1 key = valuesOf (renderCharts ts (s + 1)).1 key := by
  simp only [renderChart, valuesOf_append]
  have ha : valuesOf [((Key.f s), "OP"), (Key.j s, j)] key = [] := by
    have h1 : Key.f s ≠ key := by
      rintro rfl
      simp only [slotOf, Option.some.injEq] at hk
      omega
    have h2 : Key.j s ≠ key := by
      rintro rfl
      simp only [slotOf, Option.some.injEq] at hk
      omega
    simp [valuesOf_cons, valuesOf_nil, h1, h2]
  have hb : valuesOf [(Key.f (renderCharts ts (s + 1)).2, "CP")] key = [] := by
    have : Key.f (renderCharts ts (s + 1)).2 ≠ key := by
      rintro rfl
      simp only [slotOf, Option.some.injEq] at hk
      omega
    simp [valuesOf_cons, valuesOf_nil, this]
  simp [ha, hb]

theorem step_open (j : String) (s : Nat) (st : List Frame) :
    step [((Key.f s), "OP"), (Key.j s, j)] st s = some (⟨j, []⟩ :: st) := by
  simp [step, valuesOf]

theorem step_close (s : Nat) (top parent : Frame) (st : List Frame) :
    step [(Key.f s, "CP")] (top :: parent :: st) s = some (parent.push (.group top.join top.children) :: st) := by
  simp [step, valuesOf]

theorem range'_succ_right (s n : Nat) : List.range' s (n + 1) = List.range' s n ++ [s + n] := by
  rw [List.range'_concat]; simp

mutual
/-- reading the slots of one rendered chart appends what it denotes to the innermost open group -/
theorem read_chart (t : Chart) (s : Nat) (P : List Param) (fr : Frame) (st : List Frame)
    (hwf : t.WF) (hag : Agree P (renderChart t s).1 s (renderChart t s).2) :
    (List.range' s ((renderChart t s).2 - s)).foldlM (step P) (fr :: st) = some (fr.push (erase t) :: st) := by
  cases t with
  | crit c =>
    have hs : (renderChart (.crit c) s).2 - s = 1 := by simp [renderChart]
    rw [hs]
    simp only [List.range'_one, List.foldlM_cons, List.foldlM_nil, bind_pure]
    rw [step_congr (fun key hk => hag key s hk (by omega) (by simp [renderChart])) ]
    exact step_crit c s fr st hwf
  | group j ts =>
    have hle := renderCharts_le ts (s + 1)
    have hs2 : (renderChart (.group j ts) s).2 = (renderCharts ts (s + 1)).2 + 1 := by simp only [renderChart]
    have hrange : List.range' s ((renderChart (.group j ts) s).2 - s)
        = [s] ++ (List.range' (s + 1) ((renderCharts ts (s + 1)).2 - (s + 1)) ++ [(renderCharts ts (s + 1)).2]) := by
      have e : (renderChart (.group j ts) s).2 - s = ((renderCharts ts (s + 1)).2 - (s + 1)) + 1 + 1 := by
        simp only [renderChart]; omega
      rw [e, List.range'_succ, List.range'_concat]
      have e3 : s + 1 + 1 * ((renderCharts ts (s + 1)).2 - (s + 1)) = (renderCharts ts (s + 1)).2 := by omega
      rw [e3]; rfl
    rw [hrange]
    simp only [List.foldlM_append, List.foldlM_cons, List.foldlM_nil, bind_pure]
    -- opening slot
    rw [step_congr (P := P) (R := [((Key.f s), "OP"), (Key.j s, j)])
      (fun key hk => (hag key s hk (by omega) (by omega)).trans (group_open j ts s key hk)), step_open]
    simp only [Option.bind_eq_bind, Option.bind_some]
    -- children
    have hch := read_charts ts (s + 1) P ⟨j, []⟩ (fr :: st) hwf
      (fun key k hk h1 h2 => (hag key k hk (by omega) (by omega)).trans (group_inner j ts s key k hk h1 h2))
    rw [hch]
    simp only [Option.bind_some]
    -- closing slot
    rw [step_congr (P := P) (R := [(Key.f (renderCharts ts (s + 1)).2, "CP")])
      (fun key hk => (hag key _ hk (by omega) (by omega)).trans (group_close j ts s key hk)), step_close]
    simp [Frame.push, erase]
/-- the same for a sequence of charts -/
theorem read_charts (ts : List Chart) (s : Nat) (P : List Param) (fr : Frame) (st : List Frame)
    (hwf : Chart.WFs ts) (hag : Agree P (renderCharts ts s).1 s (renderCharts ts s).2) :
    (List.range' s ((renderCharts ts s).2 - s)).foldlM (step P) (fr :: st)
      = some ({ fr with children := fr.children ++ erase.eraseList ts } :: st) := by
  cases ts with
  | nil => simp [renderCharts, erase.eraseList]
  | cons t ts =>
    have h1 := renderChart_lt t s
    have h2 := renderCharts_le ts (renderChart t s).2
    have hs : (renderCharts (t :: ts) s).2 - s
        = ((renderChart t s).2 - s) + ((renderCharts ts (renderChart t s).2).2 - (renderChart t s).2) := by
      simp only [renderCharts]; omega
    rw [hs, ← List.range'_append_1, List.foldlM_append]
    have hag1 : Agree P (renderChart t s).1 s (renderChart t s).2 := by
      intro key k hk h3 h4
      rw [hag key k hk h3 (by simp only [renderCharts]; omega)]
      simp only [renderCharts, valuesOf_append]
      rw [valuesOf_outside (renderCharts_inRange ts _) key k hk (by omega)]
      simp
    have hag2 : Agree P (renderCharts ts (renderChart t s).2).1 (renderChart t s).2
        (renderCharts ts (renderChart t s).2).2 := by
      intro key k hk h3 h4
      rw [hag key k hk (by omega) (by simp only [renderCharts]; omega)]
      simp only [renderCharts, valuesOf_append]
      rw [valuesOf_outside (renderChart_inRange t s) key k hk (by omega)]
      simp
    rw [read_chart t s P fr st hwf.1 hag1]
    simp only [Option.bind_eq_bind, Option.bind_some]
    have e : s + ((renderChart t s).2 - s) = (renderChart t s).2 := by omega
    rw [e, read_charts ts _ P (fr.push (erase t)) st hwf.2 hag2]
    simp [Frame.push, erase.eraseList]
end

/-! ## the `f` parameters of a rendering: one per slot, in increasing order -/

theorem range'_group (s s'' : Nat) (h : s + 1 ≤ s'') :
    List.range' s (s'' + 1 - s) = [s] ++ (List.range' (s + 1) (s'' - (s + 1)) ++ [s'']) := by
  have e : s'' + 1 - s = (s'' - (s + 1)) + 1 + 1 := by omega
  rw [e, List.range'_succ, List.range'_concat]
  have e3 : s + 1 + 1 * (s'' - (s + 1)) = s'' := by omega
  rw [e3]; rfl

def fKeys (ps : List Param) : List Key := (ps.filter (fun p => isF p.1)).map (·.1)

theorem fKeys_append (a b : List Param) : fKeys (a ++ b) = fKeys a ++ fKeys b := by simp [fKeys]

theorem fKeys_renderCrit (c : Criterion) (s : Nat) : fKeys (renderCrit c s) = [Key.f s] := by
  cases hn : c.negate <;> simp [fKeys, renderCrit, isF, List.filter_map, Function.comp_def, hn]

mutual
theorem fKeys_chart (t : Chart) (s : Nat) :
    fKeys (renderChart t s).1 = (List.range' s ((renderChart t s).2 - s)).map Key.f := by
  cases t with
  | crit c => simp [renderChart, fKeys_renderCrit]
  | group j ts =>
    have hle := renderCharts_le ts (s + 1)
    have ih := fKeys_charts ts (s + 1)
    simp only [renderChart, fKeys_append, ih, range'_group s _ hle]
    simp [fKeys, isF]
theorem fKeys_charts (ts : List Chart) (s : Nat) :
    fKeys (renderCharts ts s).1 = (List.range' s ((renderCharts ts s).2 - s)).map Key.f := by
  cases ts with
  | nil => simp [renderCharts, fKeys]
  | cons t ts =>
    have h1 := renderChart_lt t s
    have h2 := renderCharts_le ts (renderChart t s).2
    have hs : (renderCharts (t :: ts) s).2 - s
        = ((renderChart t s).2 - s) + ((renderCharts ts (renderChart t s).2).2 - (renderChart t s).2) := by
      simp only [renderCharts]; omega
    rw [hs, ← List.range'_append_1]
    have e : s + ((renderChart t s).2 - s) = (renderChart t s).2 := by omega
    simp only [renderCharts, fKeys_append, fKeys_chart t s, fKeys_charts ts _, List.map_append, e]
end

/-! ## plain and paging parameters carry no slot -/

theorem slotOf_simpleParams (simple : List (String × List String)) :
    ∀ p ∈ simpleParams simple, ∃ k, p.1 = Key.simple k := by
  intro p hp
  simp only [simpleParams, List.mem_flatMap, List.mem_map] at hp
  obtain ⟨kv, _, x, _, rfl⟩ := hp
  exact ⟨kv.1, rfl⟩

theorem key_pagingParams (q : BugQuery) :
    ∀ p ∈ pagingParams q, p.1 = Key.limit ∨ p.1 = Key.offset ∨ p.1 = Key.order := by
  intro p hp
  simp only [pagingParams, List.mem_append] at hp
  rcases hp with (hp | hp) | hp
  · cases hl : q.limit <;> simp_all
  · cases ho : q.offset with
    | none => simp_all
    | some o =>
      rw [ho] at hp
      by_cases h0 : o = 0 <;> simp_all
  · cases ho : q.order <;> simp_all

/-- a list of parameters none of which has a slot -/
def NoSlots (ps : List Param) : Prop := ∀ p ∈ ps, slotOf p.1 = none

theorem noSlots_simple (simple : List (String × List String)) : NoSlots (simpleParams simple) := by
  intro p hp
  obtain ⟨k, hk⟩ := slotOf_simpleParams simple p hp
  rw [hk]; rfl

theorem noSlots_paging (q : BugQuery) : NoSlots (pagingParams q) := by
  intro p hp
  rcases key_pagingParams q p hp with h | h | h <;> rw [h] <;> rfl

theorem NoSlots.valuesOf {ps : List Param} (h : NoSlots ps) (key : Key) (k : Nat) (hk : slotOf key = some k) :
    valuesOf ps key = [] := by
  simp only [Spec.valuesOf, List.map_eq_nil_iff, List.filter_eq_nil_iff, decide_eq_true_eq]
  intro p hp hpk
  have := h p hp
  rw [hpk, hk] at this
  cases this

theorem NoSlots.fKeys {ps : List Param} (h : NoSlots ps) : fKeys ps = [] := by
  simp only [Pkgcore.C37.fKeys, List.map_eq_nil_iff, List.filter_eq_nil_iff]
  intro p hp
  have := h p hp
  cases hk : p.1 <;> simp_all [slotOf, isF]

/-- **reading a rendered search gives back its charts** -/
theorem readCharts_params (q : BugQuery) (hwf : Chart.WFs q.charts) :
    readCharts q.params = some (erase.eraseList q.charts) := by
  have hle := renderCharts_le q.charts 1
  have hn : (q.params.filter (fun p => isF p.1)).length = (renderCharts q.charts 1).2 - 1 := by
    have : (q.params.filter (fun p => isF p.1)).length = (fKeys q.params).length := by simp [fKeys]
    rw [this]
    simp only [BugQuery.params, fKeys_append, (noSlots_simple _).fKeys, (noSlots_paging _).fKeys, fKeys_charts]
    simp
  unfold readCharts
  simp only [hn]
  have hall : q.params.all (slotInBounds ((renderCharts q.charts 1).2 - 1)) = true := by
    simp only [List.all_eq_true, BugQuery.params, List.mem_append, slotInBounds]
    rintro p ((hp | hp) | hp)
    · rw [noSlots_simple _ p hp]
    · obtain ⟨k, hk, h1, h2⟩ := renderCharts_inRange q.charts 1 p hp
      rw [hk]; simp only [decide_eq_true_eq]; omega
    · rw [noSlots_paging _ p hp]
  rw [if_pos hall]
  have hag : Agree q.params (renderCharts q.charts 1).1 1 (renderCharts q.charts 1).2 := by
    intro key k hk _ _
    simp only [BugQuery.params, valuesOf_append, (noSlots_simple _).valuesOf key k hk,
      (noSlots_paging _).valuesOf key k hk]
    simp
  rw [read_charts q.charts 1 q.params ⟨"AND", []⟩ [] hwf hag]
  simp

/-! ## group markers are balanced -/

def fVals (ps : List Param) : List String := (ps.filter (fun p => isF p.1)).map (·.2)

theorem fVals_append (a b : List Param) : fVals (a ++ b) = fVals a ++ fVals b := by simp [fVals]

theorem fVals_renderCrit (c : Criterion) (s : Nat) : fVals (renderCrit c s) = [c.field] := by
  cases hn : c.negate <;> simp [fVals, renderCrit, isF, List.filter_map, Function.comp_def, hn]

theorem NoSlots.fVals {ps : List Param} (h : NoSlots ps) : fVals ps = [] := by
  simp only [Pkgcore.C37.fVals, List.map_eq_nil_iff, List.filter_eq_nil_iff]
  intro p hp
  have := h p hp
  cases hk : p.1 <;> simp_all [slotOf, isF]

mutual
theorem balanced_chart (t : Chart) (s : Nat) (rest : List String) (d : Nat) (hwf : t.WF) :
    balanced (fVals (renderChart t s).1 ++ rest) d = balanced rest d := by
  cases t with
  | crit c =>
    simp only [renderChart, fVals_renderCrit, List.cons_append, List.nil_append, balanced, hwf.1, hwf.2, if_false]
  | group j ts =>
    have ih := balanced_charts ts (s + 1) ("CP" :: rest) (d + 1) hwf
    have e : fVals (renderChart (.group j ts) s).1 ++ rest
        = "OP" :: (fVals (renderCharts ts (s + 1)).1 ++ ("CP" :: rest)) := by
      simp [renderChart, fVals, isF]
    rw [e]
    simp only [balanced, if_true, ih]
    simp
theorem balanced_charts (ts : List Chart) (s : Nat) (rest : List String) (d : Nat) (hwf : Chart.WFs ts) :
    balanced (fVals (renderCharts ts s).1 ++ rest) d = balanced rest d := by
  cases ts with
  | nil => simp [renderCharts, fVals]
  | cons t ts =>
    simp only [renderCharts, fVals_append, List.append_assoc]
    rw [balanced_chart t s _ d hwf.1, balanced_charts ts _ rest d hwf.2]
end

/-! ## plain parameters -/

/-- the plain key `k` is constrained to (among others) the value `v` -/
def Mention (simple : List (String × List String)) (k v : String) : Prop := ∃ vs, (k, vs) ∈ simple ∧ v ∈ vs

theorem mem_simpleParams (simple : List (String × List String)) (p : Param) :
    p ∈ simpleParams simple ↔ ∃ k v, p = (Key.simple k, v) ∧ Mention simple k v := by
  simp only [simpleParams, List.mem_flatMap, List.mem_map, Mention]
  constructor
  · rintro ⟨⟨k, vs⟩, hkv, x, hx, rfl⟩
    exact ⟨k, x, rfl, vs, hkv, hx⟩
  · rintro ⟨k, v, rfl, vs, hkv, hv⟩
    exact ⟨(k, vs), hkv, v, hv, rfl⟩

/-- a parameter with a plain key can only come from the plain part of `params()` -/
theorem mem_params_simple (q : BugQuery) (k v : String) :
    (Key.simple k, v) ∈ q.params ↔ Mention q.simple k v := by
  simp only [BugQuery.params, List.mem_append]
  constructor
  · rintro ((h | h) | h)
    · obtain ⟨k', v', e, hm⟩ := (mem_simpleParams _ _).1 h
      cases e; exact hm
    · obtain ⟨_, hk, _⟩ := renderCharts_inRange q.charts 1 _ h
      cases hk
    · rcases key_pagingParams q _ h with e | e | e <;> cases e
  · intro h
    exact Or.inl (Or.inl ((mem_simpleParams _ _).2 ⟨k, v, rfl, h⟩))

theorem simpleHolds_params (S : String → String → Bool) (q : BugQuery) :
    simpleHolds S q.params = true ↔
      ∀ k v, Mention q.simple k v → ∃ v', Mention q.simple k v' ∧ S k v' = true := by
  simp only [simpleHolds, List.all_eq_true]
  constructor
  · intro h k v hm
    have := h (Key.simple k, v) ((mem_params_simple q k v).2 hm)
    simp only [List.any_eq_true, Bool.and_eq_true, beq_iff_eq] at this
    obtain ⟨⟨k', v'⟩, hp', hk', hs⟩ := this
    simp only at hk' hs
    subst hk'
    exact ⟨v', (mem_params_simple q k v').1 hp', hs⟩
  · rintro h ⟨key, v⟩ hp
    cases key with
    | simple k =>
      simp only [List.any_eq_true, Bool.and_eq_true, beq_iff_eq]
      obtain ⟨v', hm, hs⟩ := h k v ((mem_params_simple q k v).1 hp)
      exact ⟨(Key.simple k, v'), (mem_params_simple q k v').2 hm, rfl, hs⟩
    | _ => simp only

theorem eraseList_append (a b : List Chart) :
    erase.eraseList (a ++ b) = erase.eraseList a ++ erase.eraseList b := by
  induction a with
  | nil => rfl
  | cons t ts ih => simp [erase.eraseList, ih]

theorem evalAll_append (I : String → String → List String → Bool) (a b : List Tree) :
    evalAll I (a ++ b) = (evalAll I a && evalAll I b) := by
  induction a with
  | nil => simp [evalAll]
  | cons t ts ih => simp [evalAll, ih, Bool.and_assoc]

theorem mem_mentioned (simple : List (String × List String)) (k v : String) :
    v ∈ mentioned simple k ↔ Mention simple k v := by
  simp only [mentioned, List.mem_flatMap, List.mem_filter, decide_eq_true_eq, Mention]
  constructor
  · rintro ⟨⟨k', vs⟩, ⟨hm, rfl⟩, hv⟩
    exact ⟨vs, hm, hv⟩
  · rintro ⟨vs, hm, hv⟩
    exact ⟨(k, vs), ⟨hm, rfl⟩, hv⟩

/-! ## `_merge_simple` -/

/-- no plain key occurs twice (what the named constructors build and `&` preserves) -/
def KeysNodup (m : List (String × List String)) : Prop := (m.map Prod.fst).Nodup

theorem keys_dictSet (m : List (String × List String)) (k : String) (x : List String) :
    (dictSet m k x).map Prod.fst = if k ∈ m.map Prod.fst then m.map Prod.fst else m.map Prod.fst ++ [k] := by
  induction m with
  | nil => simp [dictSet]
  | cons kv rest ih =>
    obtain ⟨k0, x0⟩ := kv
    by_cases h : k0 = k
    · subst h; simp [dictSet]
    · have h' : ¬ k = k0 := fun e => h e.symm
      simp only [dictSet, h, if_false, List.map_cons, ih, List.mem_cons, h', false_or]
      by_cases hm : k ∈ rest.map Prod.fst <;> simp [hm]

theorem KeysNodup.dictSet {m : List (String × List String)} (h : KeysNodup m) (k : String) (x : List String) :
    KeysNodup (dictSet m k x) := by
  unfold KeysNodup at *
  rw [keys_dictSet]
  by_cases hm : k ∈ m.map Prod.fst
  · simp only [hm, if_true]; exact h
  · simp only [hm, if_false]
    rw [List.nodup_append]
    refine ⟨h, by simp, ?_⟩
    intro a ha b hb
    simp only [List.mem_cons, List.not_mem_nil, or_false] at hb
    subst hb
    rintro rfl
    exact hm ha

theorem mem_dictSet {m : List (String × List String)} (hnd : KeysNodup m) (k : String) (x : List String)
    (k' : String) (x' : List String) :
    (k', x') ∈ dictSet m k x ↔ (k' = k ∧ x' = x) ∨ (k' ≠ k ∧ (k', x') ∈ m) := by
  induction m with
  | nil => simp [dictSet]
  | cons kv rest ih =>
    obtain ⟨k0, x0⟩ := kv
    have hnd' : KeysNodup rest := by
      unfold KeysNodup at *; exact (List.nodup_cons.1 hnd).2
    have hk0 : k0 ∉ rest.map Prod.fst := by
      unfold KeysNodup at hnd; exact (List.nodup_cons.1 hnd).1
    by_cases h : k0 = k
    · subst h
      simp only [dictSet, if_true, List.mem_cons, Prod.mk.injEq]
      constructor
      · rintro (⟨rfl, rfl⟩ | hr)
        · exact Or.inl ⟨rfl, rfl⟩
        · refine Or.inr ⟨?_, Or.inr hr⟩
          rintro rfl
          exact hk0 (List.mem_map.2 ⟨(k', x'), hr, rfl⟩)
      · rintro (⟨rfl, rfl⟩ | ⟨hne, (⟨rfl, _⟩ | hr)⟩)
        · exact Or.inl ⟨rfl, rfl⟩
        · exact absurd rfl hne
        · exact Or.inr hr
    · simp only [dictSet, h, if_false, List.mem_cons, Prod.mk.injEq, ih hnd']
      constructor
      · rintro (⟨rfl, rfl⟩ | ⟨rfl, rfl⟩ | ⟨hne, hr⟩)
        · exact Or.inr ⟨h, Or.inl ⟨rfl, rfl⟩⟩
        · exact Or.inl ⟨rfl, rfl⟩
        · exact Or.inr ⟨hne, Or.inr hr⟩
      · rintro (⟨rfl, rfl⟩ | ⟨hne, (⟨rfl, rfl⟩ | hr)⟩)
        · exact Or.inr (Or.inl ⟨rfl, rfl⟩)
        · exact Or.inl ⟨rfl, rfl⟩
        · exact Or.inr (Or.inr ⟨hne, hr⟩)

theorem mention_cons (kv : String × List String) (rest : List (String × List String)) (k v : String) :
    Mention (kv :: rest) k v ↔ (kv.1 = k ∧ v ∈ kv.2) ∨ Mention rest k v := by
  obtain ⟨k0, x0⟩ := kv
  simp only [Mention, List.mem_cons, Prod.mk.injEq]
  constructor
  · rintro ⟨vs, (⟨rfl, rfl⟩ | hr), hv⟩
    · exact Or.inl ⟨rfl, hv⟩
    · exact Or.inr ⟨vs, hr, hv⟩
  · rintro (⟨rfl, hv⟩ | ⟨vs, hr, hv⟩)
    · exact ⟨x0, Or.inl ⟨rfl, rfl⟩, hv⟩
    · exact ⟨vs, Or.inr hr, hv⟩

theorem mem_dictGet {m : List (String × List String)} (hnd : KeysNodup m) (k v : String) :
    v ∈ dictGet m k ↔ Mention m k v := by
  induction m with
  | nil => simp [dictGet, Mention]
  | cons kv rest ih =>
    obtain ⟨k0, x0⟩ := kv
    have hnd' : KeysNodup rest := by
      unfold KeysNodup at *; exact (List.nodup_cons.1 hnd).2
    have hk0 : k0 ∉ rest.map Prod.fst := by
      unfold KeysNodup at hnd; exact (List.nodup_cons.1 hnd).1
    rw [mention_cons]
    by_cases h : k0 = k
    · subst h
      simp only [dictGet, if_true]
      constructor
      · intro hv; exact Or.inl ⟨trivial, hv⟩
      · rintro (⟨_, hv⟩ | ⟨vs, hr, _⟩)
        · exact hv
        · exact absurd (List.mem_map.2 ⟨(k0, vs), hr, rfl⟩) hk0
    · simp only [dictGet, h, if_false, ih hnd']
      constructor
      · intro hr; exact Or.inr hr
      · rintro (⟨e, _⟩ | hr)
        · exact e.elim
        · exact hr

theorem dictSet_new (m : List (String × List String)) (k : String) (x : List String)
    (h : k ∉ m.map Prod.fst) : dictSet m k x = m ++ [(k, x)] := by
  induction m with
  | nil => rfl
  | cons kv rest ih =>
    obtain ⟨k0, x0⟩ := kv
    simp only [List.map_cons, List.mem_cons, not_or] at h
    have h0 : ¬ k0 = k := fun e => h.1 e.symm
    simp [dictSet, h0, ih h.2]

theorem dictOf_aux (acc l : List (String × List String)) (h : KeysNodup (acc ++ l)) :
    l.foldl (fun m kv => dictSet m kv.1 kv.2) acc = acc ++ l := by
  induction l generalizing acc with
  | nil => simp
  | cons kv rest ih =>
    have hk : kv.1 ∉ acc.map Prod.fst := by
      unfold KeysNodup at h
      simp only [List.map_append, List.map_cons] at h
      have := (List.nodup_append.1 h).2.2
      intro hin
      exact this _ hin _ (List.mem_cons_self) rfl
    simp only [List.foldl_cons]
    rw [dictSet_new acc kv.1 kv.2 hk, ih]
    · simp
    · simpa using h

theorem dictOf_eq {l : List (String × List String)} (h : KeysNodup l) : dictOf l = l := by
  have := dictOf_aux [] l (by simpa using h)
  simpa [dictOf] using this

/-- one turn of the loop of `_merge_simple` -/
theorem mention_mergeStep {m : List (String × List String)} (hnd : KeysNodup m) (kv : String × List String)
    (k v : String) :
    Mention (dictSet m kv.1 (dictGet m kv.1 ++ kv.2.filter (fun x => !(dictGet m kv.1).contains x))) k v
      ↔ Mention m k v ∨ (kv.1 = k ∧ v ∈ kv.2) := by
  unfold Mention
  constructor
  · rintro ⟨vs, hmem, hv⟩
    rcases (mem_dictSet hnd _ _ _ _).1 hmem with ⟨rfl, rfl⟩ | ⟨hne, hr⟩
    · simp only [List.mem_append, List.mem_filter] at hv
      rcases hv with hv | ⟨hv, _⟩
      · exact Or.inl ((mem_dictGet hnd _ _).1 hv)
      · exact Or.inr ⟨rfl, hv⟩
    · exact Or.inl ⟨vs, hr, hv⟩
  · rintro (⟨vs, hr, hv⟩ | ⟨rfl, hv⟩)
    · by_cases hk : k = kv.1
      · subst hk
        refine ⟨_, (mem_dictSet hnd _ _ _ _).2 (Or.inl ⟨rfl, rfl⟩), ?_⟩
        exact List.mem_append.2 (Or.inl ((mem_dictGet hnd _ _).2 ⟨vs, hr, hv⟩))
      · exact ⟨vs, (mem_dictSet hnd _ _ _ _).2 (Or.inr ⟨hk, hr⟩), hv⟩
    · refine ⟨_, (mem_dictSet hnd _ _ _ _).2 (Or.inl ⟨rfl, rfl⟩), ?_⟩
      by_cases hin : v ∈ dictGet m kv.1
      · exact List.mem_append.2 (Or.inl hin)
      · exact List.mem_append.2 (Or.inr (List.mem_filter.2 ⟨hv, by simpa using hin⟩))

theorem mergeFold (right m : List (String × List String)) (hnd : KeysNodup m) :
    KeysNodup (right.foldl (fun merged kv =>
      dictSet merged kv.1 (dictGet merged kv.1 ++ kv.2.filter (fun x => !(dictGet merged kv.1).contains x))) m) ∧
    ∀ k v, Mention (right.foldl (fun merged kv =>
      dictSet merged kv.1 (dictGet merged kv.1 ++ kv.2.filter (fun x => !(dictGet merged kv.1).contains x))) m) k v
        ↔ Mention m k v ∨ Mention right k v := by
  induction right generalizing m with
  | nil => simp [hnd, Mention]
  | cons kv rest ih =>
    simp only [List.foldl_cons]
    have := ih _ (hnd.dictSet kv.1 (dictGet m kv.1 ++ kv.2.filter (fun x => !(dictGet m kv.1).contains x)))
    refine ⟨this.1, fun k v => ?_⟩
    rw [this.2 k v, mention_mergeStep hnd kv k v, mention_cons]
    constructor
    · rintro ((h | h) | h)
      · exact Or.inl h
      · exact Or.inr (Or.inl h)
      · exact Or.inr (Or.inr h)
    · rintro (h | h | h)
      · exact Or.inl (Or.inl h)
      · exact Or.inl (Or.inr h)
      · exact Or.inr h

/-- **`_merge_simple`**: the merged keys are duplicate-free and constrain each key to the *union* of both sides -/
theorem mention_mergeSimple (left right : List (String × List String)) (hl : KeysNodup left) :
    KeysNodup (mergeSimple left right) ∧
      ∀ k v, Mention (mergeSimple left right) k v ↔ Mention left k v ∨ Mention right k v := by
  unfold mergeSimple
  rw [dictOf_eq hl]
  exact mergeFold right left hl

/-! ## batching: the loop -/

def costSum (cost : String → Nat) (b : List String) : Nat := (b.map cost).sum

theorem costSum_append (cost : String → Nat) (a b : List String) :
    costSum cost (a ++ b) = costSum cost a + costSum cost b := by simp [costSum]

theorem batchLoop_flatten (cost : String → Nat) (budget : Int) (vs cur : List String) (used : Nat) :
    (batchLoop cost budget vs cur used).flatten = cur ++ vs := by
  induction vs generalizing cur used with
  | nil => simp [batchLoop]
  | cons v vs ih =>
    unfold batchLoop
    split
    · simp [ih]
    · simp [ih]

theorem batchLoop_nonempty (cost : String → Nat) (budget : Int) (vs cur : List String) (used : Nat)
    (h : cur ≠ [] ∨ vs ≠ []) : ∀ b ∈ batchLoop cost budget vs cur used, b ≠ [] := by
  induction vs generalizing cur used with
  | nil =>
    intro b hb
    simp only [batchLoop, List.mem_cons, List.not_mem_nil, or_false] at hb
    subst hb
    rcases h with h | h
    · exact h
    · exact absurd rfl h
  | cons v vs ih =>
    intro b hb
    unfold batchLoop at hb
    split at hb
    next hc =>
      rcases List.mem_cons.1 hb with rfl | hb
      · intro e; simp [e] at hc
      · exact ih [v] (cost v) (Or.inl (by simp)) b hb
    next => exact ih (cur ++ [v]) (used + cost v) (Or.inl (by simp)) b hb

/-- every yielded batch is a single value or stays within the budget -/
theorem batchLoop_bound (cost : String → Nat) (budget : Int) (vs cur : List String) (used : Nat)
    (hused : used = costSum cost cur) (hinv : cur.length ≤ 1 ∨ (costSum cost cur : Int) ≤ budget) :
    ∀ b ∈ batchLoop cost budget vs cur used, b.length ≤ 1 ∨ (costSum cost b : Int) ≤ budget := by
  induction vs generalizing cur used with
  | nil =>
    intro b hb
    simp only [batchLoop, List.mem_cons, List.not_mem_nil, or_false] at hb
    subst hb; exact hinv
  | cons v vs ih =>
    intro b hb
    unfold batchLoop at hb
    split at hb
    next hc =>
      rcases List.mem_cons.1 hb with rfl | hb
      · exact hinv
      · exact ih [v] (cost v) (by simp [costSum]) (Or.inl (by simp)) b hb
    next hc =>
      refine ih (cur ++ [v]) (used + cost v) (by simp [hused, costSum]) ?_ b hb
      by_cases he : cur = []
      · subst he; exact Or.inl (by simp)
      · right
        have : ¬ ((used + cost v : Nat) : Int) > budget := by
          intro h; exact hc ⟨by simp [he], h⟩
        have hsum : costSum cost (cur ++ [v]) = costSum cost cur + cost v := by simp [costSum]
        rw [hsum]
        rw [hused] at this
        omega

/-! ## batching: the shape of a rebuilt query -/

theorem sumLen_append (el : String → Nat) (a b : List Param) : sumLen el (a ++ b) = sumLen el a + sumLen el b := by
  simp [sumLen]

theorem sumLen_axis (el : String → Nat) (ax : Key) (vals : List String) :
    sumLen el (vals.map fun x => (ax, x)) = costSum (fun v => el ax.toString + 1 + el v + 1) vals := by
  simp [sumLen, costSum, Function.comp_def]

theorem valuesOf_axis (ax : Key) (vals : List String) : valuesOf (vals.map fun x => (ax, x)) ax = vals := by
  induction vals with
  | nil => rfl
  | cons v vs ih => simp [valuesOf_cons, ih]

theorem valuesOf_none {ps : List Param} {ax : Key} (h : ∀ p ∈ ps, p.1 ≠ ax) : valuesOf ps ax = [] := by
  simp only [valuesOf, List.map_eq_nil_iff, List.filter_eq_nil_iff, decide_eq_true_eq]
  exact h

theorem filter_ne_self {ps : List Param} {ax : Key} (h : ∀ p ∈ ps, p.1 ≠ ax) :
    ps.filter (fun p => p.1 ≠ ax) = ps := by
  rw [List.filter_eq_self]
  intro p hp
  simpa using h p hp

theorem filter_ne_axis (ax : Key) (vals : List String) :
    (vals.map fun x => (ax, x)).filter (fun p => p.1 ≠ ax) = [] := by
  simp [List.filter_eq_nil_iff]

/-- everything the batching theorems need to know about the chosen axis -/
structure Shape (q : BugQuery) (c : Candidate) (ax : Key) (A B : List Param) : Prop where
  rebuilt : ∀ vals, (q.rebuild c.axis vals).params = A ++ (vals.map fun x => (ax, x)) ++ B
  other : ∀ p ∈ A ++ B, p.1 ≠ ax
  rest : q.params.filter (fun p => p.1 ≠ ax) = A ++ B
  values : valuesOf q.params ax = c.values

theorem maxBy_mem (score : Candidate → Nat) (l : List Candidate) (c : Candidate) (h : maxBy score l = some c) :
    c ∈ l := by
  induction l generalizing c with
  | nil => cases h
  | cons a l ih =>
    unfold maxBy at h
    cases hm : maxBy score l with
    | none => rw [hm] at h; cases h; exact List.mem_cons_self
    | some d =>
      rw [hm] at h
      simp only at h
      split at h
      · cases h; exact List.mem_cons_of_mem _ (ih _ hm)
      · cases h; exact List.mem_cons_self

theorem chartCandidates_mem (ts : List Chart) (i0 : Nat) (cand : Candidate) (h : cand ∈ chartCandidates ts i0) :
    ∃ pre c0 post, ts = pre ++ Chart.crit c0 :: post ∧ cand.axis = .chart (i0 + pre.length) ∧
      cand.key = c0.field ∧ cand.values = c0.values := by
  induction ts generalizing i0 with
  | nil => simp [chartCandidates] at h
  | cons t ts ih =>
    cases t with
    | crit c0 =>
      simp only [chartCandidates, List.mem_append] at h
      rcases h with h | h
      · split at h
        · simp only [List.mem_cons, List.not_mem_nil, or_false] at h
          subst h
          exact ⟨[], c0, ts, rfl, rfl, rfl, rfl⟩
        · cases h
      · obtain ⟨pre, c1, post, e, ha, hk, hv⟩ := ih (i0 + 1) h
        refine ⟨Chart.crit c0 :: pre, c1, post, by simp [e], ?_, hk, hv⟩
        rw [ha]; simp only [List.length_cons]; congr 1; omega
    | group j cs =>
      simp only [chartCandidates] at h
      obtain ⟨pre, c1, post, e, ha, hk, hv⟩ := ih (i0 + 1) h
      refine ⟨Chart.group j cs :: pre, c1, post, by simp [e], ?_, hk, hv⟩
      rw [ha]; simp only [List.length_cons]; congr 1; omega

theorem renderCharts_append (a b : List Chart) (s : Nat) :
    renderCharts (a ++ b) s
      = ((renderCharts a s).1 ++ (renderCharts b (renderCharts a s).2).1, (renderCharts b (renderCharts a s).2).2) := by
  induction a generalizing s with
  | nil => simp [renderCharts]
  | cons t ts ih => simp [renderCharts, ih]

theorem setChartValues_at (pre : List Chart) (c0 : Criterion) (post : List Chart) (vals : List String) :
    setChartValues (pre ++ Chart.crit c0 :: post) pre.length vals
      = pre ++ Chart.crit { c0 with values := vals } :: post := by
  induction pre with
  | nil => simp [setChartValues]
  | cons t ts ih =>
    cases t <;> simp [setChartValues, ih]

theorem simpleParams_append (a b : List (String × List String)) :
    simpleParams (a ++ b) = simpleParams a ++ simpleParams b := by simp [simpleParams]

theorem simpleParams_filter_ne (simple : List (String × List String)) (key : String) :
    (simpleParams simple).filter (fun p => p.1 ≠ Key.simple key)
      = simpleParams (simple.filter (fun kv => kv.1 ≠ key)) := by
  induction simple with
  | nil => rfl
  | cons kv rest ih =>
    obtain ⟨k, vs⟩ := kv
    have hc : simpleParams ((k, vs) :: rest) = vs.map (fun x => (Key.simple k, x)) ++ simpleParams rest := by
      simp [simpleParams]
    rw [hc, List.filter_append, ih]
    by_cases h : k = key
    · subst h
      simp [List.filter_eq_nil_iff]
    · have : (vs.map fun x => (Key.simple k, x)).filter (fun p => p.1 ≠ Key.simple key)
          = vs.map fun x => (Key.simple k, x) := by
        rw [List.filter_eq_self]
        intro p hp
        obtain ⟨x, _, rfl⟩ := List.mem_map.1 hp
        simp [h]
      rw [this]
      simp [h, simpleParams]

theorem valuesOf_simpleParams {simple : List (String × List String)} (hnd : KeysNodup simple) (k : String)
    (vs : List String) (h : (k, vs) ∈ simple) : valuesOf (simpleParams simple) (Key.simple k) = vs := by
  induction simple with
  | nil => cases h
  | cons kv rest ih =>
    obtain ⟨k0, x0⟩ := kv
    have hnd' : KeysNodup rest := by
      unfold KeysNodup at *; exact (List.nodup_cons.1 hnd).2
    have hk0 : k0 ∉ rest.map Prod.fst := by
      unfold KeysNodup at hnd; exact (List.nodup_cons.1 hnd).1
    have hc : simpleParams ((k0, x0) :: rest) = x0.map (fun x => (Key.simple k0, x)) ++ simpleParams rest := by
      simp [simpleParams]
    rw [hc, valuesOf_append]
    rcases List.mem_cons.1 h with e | hr
    · cases e
      rw [valuesOf_axis]
      have : valuesOf (simpleParams rest) (Key.simple k) = [] := by
        apply valuesOf_none
        intro p hp hpk
        obtain ⟨k', v', rfl, vs', hm, _⟩ := (mem_simpleParams rest p).1 hp
        cases hpk
        exact hk0 (List.mem_map.2 ⟨(k, vs'), hm, rfl⟩)
      simp [this]
    · have hne : k0 ≠ k := by
        rintro rfl
        exact hk0 (List.mem_map.2 ⟨(k0, vs), hr, rfl⟩)
      have : valuesOf (x0.map fun x => (Key.simple k0, x)) (Key.simple k) = [] := by
        apply valuesOf_none
        intro p hp hpk
        obtain ⟨x, _, rfl⟩ := List.mem_map.1 hp
        cases hpk
        exact hne rfl
      rw [this, ih hnd' hr]; rfl

/-- the key under which the split values are rendered: the plain key, or `v<slot>` of the split condition -/
def axisKey (q : BugQuery) : Axis → Key
  | .simple key => Key.simple key
  | .chart idx => Key.v (renderCharts (q.charts.take idx) 1).2

theorem inRange_ne {ps : List Param} {s s' : Nat} (h : InRange ps s s') (key : Key) (k : Nat)
    (hk : slotOf key = some k) (hout : k < s ∨ s' ≤ k) : ∀ p ∈ ps, p.1 ≠ key := by
  intro p hp e
  obtain ⟨k', hk', h1, h2⟩ := h p hp
  rw [e, hk] at hk'
  cases hk'
  omega

theorem noSlots_ne {ps : List Param} (h : NoSlots ps) (key : Key) (k : Nat) (hk : slotOf key = some k) :
    ∀ p ∈ ps, p.1 ≠ key := by
  intro p hp e
  have := h p hp
  rw [e, hk] at this
  cases this

theorem shape_simple (q : BugQuery) (hnd : KeysNodup q.simple) (key : String) (vs : List String)
    (hmem : (key, vs) ∈ q.simple) :
    Shape q ⟨key, vs, .simple key⟩ (Key.simple key)
      (simpleParams (q.simple.filter (fun kv => kv.1 ≠ key))) ((renderCharts q.charts 1).1 ++ pagingParams q) := by
  have hA : ∀ p ∈ simpleParams (q.simple.filter (fun kv => kv.1 ≠ key)), p.1 ≠ Key.simple key := by
    intro p hp e
    obtain ⟨k', v', rfl, vs', hm, _⟩ := (mem_simpleParams _ p).1 hp
    cases e
    simpa using (List.mem_filter.1 hm).2
  have hC : ∀ p ∈ (renderCharts q.charts 1).1, p.1 ≠ Key.simple key := by
    intro p hp e
    obtain ⟨_, hk, _⟩ := renderCharts_inRange q.charts 1 p hp
    rw [e] at hk; cases hk
  have hP : ∀ p ∈ pagingParams q, p.1 ≠ Key.simple key := by
    intro p hp e
    rcases key_pagingParams q p hp with h | h | h <;> rw [e] at h <;> cases h
  refine ⟨?_, ?_, ?_, ?_⟩
  · intro vals
    simp only [BugQuery.rebuild, BugQuery.params, simpleParams_append, List.append_assoc]
    congr 1
    cases vals with
    | nil => simp [simpleParams, pagingParams]
    | cons v vals => simp [simpleParams, pagingParams]
  · intro p hp
    rcases List.mem_append.1 hp with h | h
    · exact hA p h
    · rcases List.mem_append.1 h with h | h
      · exact hC p h
      · exact hP p h
  · simp only [BugQuery.params, List.filter_append, simpleParams_filter_ne, filter_ne_self hC, filter_ne_self hP,
      List.append_assoc]
  · simp only [BugQuery.params, valuesOf_append, valuesOf_none hC, valuesOf_none hP, List.append_nil]
    exact valuesOf_simpleParams hnd key vs hmem

theorem shape_chart (q : BugQuery) (pre : List Chart) (c0 : Criterion) (post : List Chart)
    (hq : q.charts = pre ++ Chart.crit c0 :: post) :
    Shape q ⟨c0.field, c0.values, .chart pre.length⟩ (Key.v (renderCharts pre 1).2)
      (simpleParams q.simple ++ (renderCharts pre 1).1 ++
        [(Key.f (renderCharts pre 1).2, c0.field), (Key.o (renderCharts pre 1).2, c0.op)])
      ((if c0.negate then [(Key.n (renderCharts pre 1).2, "1")] else []) ++
        (renderCharts post ((renderCharts pre 1).2 + 1)).1 ++ pagingParams q) := by
  have hS := noSlots_ne (noSlots_simple q.simple) (Key.v (renderCharts pre 1).2) _ rfl
  have hP := noSlots_ne (noSlots_paging q) (Key.v (renderCharts pre 1).2) _ rfl
  have hpre := inRange_ne (renderCharts_inRange pre 1) (Key.v (renderCharts pre 1).2) _ rfl (Or.inr (Nat.le_refl _))
  have hpost := inRange_ne (renderCharts_inRange post ((renderCharts pre 1).2 + 1)) (Key.v (renderCharts pre 1).2) _ rfl
    (Or.inl (Nat.lt_succ_self _))
  have hfo : ∀ p ∈ [(Key.f (renderCharts pre 1).2, c0.field), (Key.o (renderCharts pre 1).2, c0.op)],
      p.1 ≠ Key.v (renderCharts pre 1).2 := by
    intro p hp
    simp only [List.mem_cons, List.not_mem_nil, or_false] at hp
    rcases hp with rfl | rfl <;> simp
  have hn : ∀ p ∈ (if c0.negate then [(Key.n (renderCharts pre 1).2, "1")] else []),
      p.1 ≠ Key.v (renderCharts pre 1).2 := by
    intro p hp
    split at hp
    · simp only [List.mem_cons, List.not_mem_nil, or_false] at hp
      subst hp; simp
    · cases hp
  have hrender : ∀ c1 : Criterion, c1.field = c0.field → c1.op = c0.op → c1.negate = c0.negate →
      (renderCharts (pre ++ Chart.crit c1 :: post) 1).1
        = (renderCharts pre 1).1 ++ ([(Key.f (renderCharts pre 1).2, c0.field), (Key.o (renderCharts pre 1).2, c0.op)]
            ++ (c1.values.map fun x => (Key.v (renderCharts pre 1).2, x))
            ++ (if c0.negate then [(Key.n (renderCharts pre 1).2, "1")] else []))
          ++ (renderCharts post ((renderCharts pre 1).2 + 1)).1 := by
    intro c1 h1 h2 h3
    rw [renderCharts_append]
    simp only [renderCharts, renderChart, renderCrit, h1, h2, h3, List.append_assoc]
  refine ⟨?_, ?_, ?_, ?_⟩
  · intro vals
    simp only [BugQuery.rebuild, BugQuery.params, hq, setChartValues_at]
    rw [hrender { c0 with values := vals } rfl rfl rfl]
    simp [pagingParams, List.append_assoc]
  · intro p hp
    simp only [List.mem_append] at hp
    rcases hp with ((h | h) | h) | ((h | h) | h)
    · exact hS p h
    · exact hpre p h
    · exact hfo p h
    · exact hn p h
    · exact hpost p h
    · exact hP p h
  · simp only [BugQuery.params, hq]
    rw [hrender c0 rfl rfl rfl]
    simp only [List.filter_append, filter_ne_self hS, filter_ne_self hP, filter_ne_self hpre, filter_ne_self hpost,
      filter_ne_self hfo, filter_ne_self hn, filter_ne_axis, List.nil_append, List.append_assoc]
  · simp only [BugQuery.params, hq]
    rw [hrender c0 rfl rfl rfl]
    simp only [valuesOf_append, valuesOf_none hS, valuesOf_none hP, valuesOf_none hpre, valuesOf_none hpost,
      valuesOf_none hfo, valuesOf_none hn, valuesOf_axis, List.append_nil, List.nil_append]

/-- whatever `_split_axis` picks has the shape the batching theorems need -/
theorem shape_of_splitAxis (q : BugQuery) (hnd : KeysNodup q.simple) (c : Candidate) (hc : q.splitAxis = some c) :
    ∃ A B, Shape q c (axisKey q c.axis) A B ∧
      ((∃ key, c.axis = .simple key ∧ c.key = key) ∨
       (∃ idx, c.axis = .chart idx)) := by
  have hmem := maxBy_mem _ _ c hc
  rcases List.mem_append.1 hmem with h | h
  · obtain ⟨kv, hkv, rfl⟩ := List.mem_map.1 h
    have hin := (List.mem_filter.1 hkv).1
    exact ⟨_, _, shape_simple q hnd kv.1 kv.2 hin, Or.inl ⟨kv.1, rfl, rfl⟩⟩
  · obtain ⟨pre, c0, post, hq, hax, hk, hv⟩ := chartCandidates_mem q.charts 0 c h
    have hs := shape_chart q pre c0 post hq
    have hc' : c = ⟨c0.field, c0.values, .chart pre.length⟩ := by
      cases c; simp only [Nat.zero_add] at hax; simp_all
    have hkey : axisKey q c.axis = Key.v (renderCharts pre 1).2 := by
      rw [hc']; simp [axisKey, hq]
    rw [hkey, hc']
    exact ⟨_, _, hs, Or.inr ⟨pre.length, rfl⟩⟩

theorem costSum_mono (f g : String → Nat) (h : ∀ v, f v ≤ g v) (l : List String) : costSum f l ≤ costSum g l := by
  induction l with
  | nil => simp [costSum]
  | cons v vs ih =>
    simp only [costSum, List.map_cons, List.sum_cons] at *
    have := h v
    omega

theorem Shape.valuesOf_rebuilt {q : BugQuery} {c : Candidate} {ax : Key} {A B : List Param} (h : Shape q c ax A B)
    (vals : List String) : valuesOf (q.rebuild c.axis vals).params ax = vals := by
  have hA : ∀ p ∈ A, p.1 ≠ ax := fun p hp => h.other p (List.mem_append.2 (Or.inl hp))
  have hB : ∀ p ∈ B, p.1 ≠ ax := fun p hp => h.other p (List.mem_append.2 (Or.inr hp))
  rw [h.rebuilt, valuesOf_append, valuesOf_append, valuesOf_none hA, valuesOf_none hB, valuesOf_axis]
  simp

theorem Shape.rest_rebuilt {q : BugQuery} {c : Candidate} {ax : Key} {A B : List Param} (h : Shape q c ax A B)
    (vals : List String) : (q.rebuild c.axis vals).params.filter (fun p => p.1 ≠ ax) = A ++ B := by
  have hA : ∀ p ∈ A, p.1 ≠ ax := fun p hp => h.other p (List.mem_append.2 (Or.inl hp))
  have hB : ∀ p ∈ B, p.1 ≠ ax := fun p hp => h.other p (List.mem_append.2 (Or.inr hp))
  rw [h.rebuilt, List.filter_append, List.filter_append, filter_ne_self hA, filter_ne_self hB, filter_ne_axis]
  simp

theorem Shape.sumLen_rebuilt {q : BugQuery} {c : Candidate} {ax : Key} {A B : List Param} (h : Shape q c ax A B)
    (el : String → Nat) (vals : List String) :
    sumLen el (q.rebuild c.axis vals).params
      = sumLen el A + sumLen el B + costSum (fun v => el ax.toString + 1 + el v + 1) vals := by
  rw [h.rebuilt, sumLen_append, sumLen_append, sumLen_axis]
  omega

end Pkgcore.C37
