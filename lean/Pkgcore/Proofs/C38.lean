import Pkgcore.Spec.C38
/-! # C38 helper lemmas -/
namespace Pkgcore.C38
open Pkgcore.C38.Spec

variable {α : Type}

/-! ## lines -/

theorem splitLines_flatten (text : Str) : (splitLines text).flatten = text := by
  induction text with
  | nil => rfl
  | cons c cs ih =>
    unfold splitLines
    cases h : splitLines cs with
    | nil =>
      rw [h] at ih
      simp only [List.flatten_nil] at ih
      simp [← ih]
    | cons l ls =>
      rw [h] at ih
      simp only
      split
      · simp only [List.flatten_cons] at ih ⊢
        rw [ih]; rfl
      · simp only [List.flatten_cons, List.cons_append] at ih ⊢
        rw [ih]

theorem rstrip_prefix (p : Char → Bool) (s : Str) : rstrip p s <+: s := by
  unfold rstrip
  have h : s.reverse.dropWhile p <:+ s.reverse := List.dropWhile_suffix p
  have := List.reverse_prefix.2 h
  simpa using this

theorem rstrip_append_drop (p : Char → Bool) (s : Str) : rstrip p s ++ s.drop (rstrip p s).length = s := by
  obtain ⟨t, ht⟩ := rstrip_prefix p s
  have h2 := congrArg (List.drop (rstrip p s).length) ht
  rw [List.drop_left] at h2
  rw [← h2, ht]

/-- every parsed entry carries its whole line -/
theorem parseLine_raw_eol (parseAtom : Str → Option α) (n : Nat) (line : Str) (e : Entry α)
    (h : parseLine parseAtom n line = some e) : e.raw ++ e.eol = line := by
  unfold parseLine at h
  simp only at h
  split at h
  · cases h; exact rstrip_append_drop _ _
  · split at h
    · cases h
    · cases h; exact rstrip_append_drop _ _

theorem parseLines_render (parseAtom : Str → Option α) (n : Nat) (lines : List Str) (es : List (Entry α))
    (h : parseLines parseAtom n lines = .ok es) : renderEntries es = lines.flatten := by
  induction lines generalizing n es with
  | nil => cases h; rfl
  | cons l ls ih =>
    unfold parseLines at h
    cases hl : parseLine parseAtom n l with
    | none => rw [hl] at h; cases h
    | some e =>
      rw [hl] at h
      simp only at h
      cases hr : parseLines parseAtom (n + 1) ls with
      | error k => rw [hr] at h; cases h
      | ok es' =>
        rw [hr] at h
        cases h
        simp only [renderEntries, List.flatMap_cons, List.flatten_cons]
        rw [parseLine_raw_eol parseAtom n l e hl]
        congr 1
        exact ih (n + 1) es' hr

/-! ## character classes (finite tables) -/

theorem hash_not_space : isSpace '#' = false := by decide
theorem space_is_space : isSpace ' ' = true := by decide
theorem nl_is_space : isSpace '\n' = true := by decide
theorem nl_is_break : isBreak '\n' = true := by decide
/-- every line boundary of `splitlines` is whitespace (so a token never contains one) -/
theorem break_is_space (c : Char) (h : isBreak c = true) : isSpace c = true := by
  have key : ∀ n ∈ Generated.C38.breakTable, n ∈ Generated.C38.spaceTable := by decide
  simp only [isBreak, isSpace, List.contains_eq_mem, decide_eq_true_eq] at *
  exact key _ h

/-! ## tokens and the whitespace around them -/

theorem scan_render (b : Str) : (scan b).render = b := by
  induction b with
  | nil => rfl
  | cons c cs ih =>
    unfold scan
    simp only
    split
    · -- whitespace
      split
      next h => simp only [Segs.render, h, List.flatMap_nil, List.nil_append] at ih ⊢; rw [ih]
      next ws tok rest h =>
        simp only [Segs.render, h, List.flatMap_cons, List.cons_append, List.append_assoc] at ih ⊢
        rw [ih]
    · split
      next tok rest h =>
        simp only [Segs.render, h, List.flatMap_cons, List.nil_append, List.cons_append, List.append_assoc] at ih ⊢
        rw [ih]
      next items hne =>
        simp only [Segs.render, List.flatMap_cons, List.nil_append, List.cons_append] at ih ⊢
        rw [ih]

/-- well-formed decomposition: separators are whitespace (non-empty except possibly the first), tokens are
non-empty and free of whitespace, the tail is whitespace -/
structure Segs.WF (s : Segs) : Prop where
  ws : ∀ it ∈ s.items, Blank it.1
  tok : ∀ it ∈ s.items, it.2 ≠ [] ∧ ∀ c ∈ it.2, isSpace c = false
  sep : ∀ it ∈ s.items.tail, it.1 ≠ []
  trail : Blank s.trail

theorem scan_wf (b : Str) : (scan b).WF := by
  induction b with
  | nil => exact ⟨by simp [scan], by simp [scan], by simp [scan], by simp [scan, Blank]⟩
  | cons c cs ih =>
    unfold scan
    simp only
    split
    next hsp =>
      split
      next h =>
        refine ⟨by simp, by simp, by simp, ?_⟩
        intro x hx
        rcases List.mem_cons.1 hx with rfl | hx
        · exact hsp
        · exact ih.trail x hx
      next ws tok rest h =>
        have hmem : (ws, tok) ∈ (scan cs).items := by rw [h]; exact List.mem_cons_self
        refine ⟨?_, ?_, ?_, ih.trail⟩
        · intro it hit
          rcases List.mem_cons.1 hit with rfl | hit
          · intro x hx
            rcases List.mem_cons.1 hx with rfl | hx
            · exact hsp
            · exact ih.ws _ hmem x hx
          · exact ih.ws it (by rw [h]; exact List.mem_cons_of_mem _ hit)
        · intro it hit
          rcases List.mem_cons.1 hit with rfl | hit
          · exact ih.tok (ws, tok) hmem
          · exact ih.tok it (by rw [h]; exact List.mem_cons_of_mem _ hit)
        · intro it hit
          have := ih.sep it
          rw [h] at this
          exact this hit
    next hsp =>
      have hsp' : isSpace c = false := by simpa using hsp
      split
      next tok rest h =>
        have hmem : (([] : Str), tok) ∈ (scan cs).items := by rw [h]; exact List.mem_cons_self
        refine ⟨?_, ?_, ?_, ih.trail⟩
        · intro it hit
          rcases List.mem_cons.1 hit with rfl | hit
          · intro x hx; cases hx
          · exact ih.ws it (by rw [h]; exact List.mem_cons_of_mem _ hit)
        · intro it hit
          rcases List.mem_cons.1 hit with rfl | hit
          · refine ⟨by simp, ?_⟩
            intro x hx
            rcases List.mem_cons.1 hx with rfl | hx
            · exact hsp'
            · exact (ih.tok _ hmem).2 x hx
          · exact ih.tok it (by rw [h]; exact List.mem_cons_of_mem _ hit)
        · intro it hit
          have := ih.sep it
          rw [h] at this
          exact this hit
      next items hne =>
        refine ⟨?_, ?_, ?_, ih.trail⟩
        · intro it hit
          rcases List.mem_cons.1 hit with rfl | hit
          · intro x hx; cases hx
          · exact ih.ws it hit
        · intro it hit
          rcases List.mem_cons.1 hit with rfl | hit
          · refine ⟨by simp, ?_⟩
            intro x hx
            simp only [List.mem_cons, List.not_mem_nil, or_false] at hx
            subst hx; exact hsp'
          · exact ih.tok it hit
        · intro it hit
          simp only [List.tail_cons] at hit
          -- the following item is not of the form ([], tok)
          cases hitems : (scan cs).items with
          | nil => rw [hitems] at hit; cases hit
          | cons it0 rest =>
            rw [hitems] at hit
            rcases List.mem_cons.1 hit with rfl | hit
            · intro hnil
              obtain ⟨w, t⟩ := it
              simp only at hnil
              subst hnil
              exact hne t rest hitems
            · have := ih.sep it
              rw [hitems] at this
              exact this hit

theorem scan_cons_space (c : Char) (cs : Str) (hc : isSpace c = true) :
    scan (c :: cs) = match (scan cs).items with
      | [] => ⟨[], c :: (scan cs).trail⟩
      | (ws, tok) :: rest => ⟨(c :: ws, tok) :: rest, (scan cs).trail⟩ := by
  rw [scan]; simp only [hc, if_true]; rfl

theorem scan_cons_nonspace (c : Char) (cs : Str) (hc : isSpace c = false) :
    scan (c :: cs) = match (scan cs).items with
      | ([], tok) :: rest => ⟨([], c :: tok) :: rest, (scan cs).trail⟩
      | items => ⟨([], [c]) :: items, (scan cs).trail⟩ := by
  rw [scan]; simp only [hc, Bool.false_eq_true, if_false]; rfl

theorem scan_blank_append (ws : Str) (hws : Blank ws) (r : Str) :
    scan (ws ++ r) = match (scan r).items with
      | [] => ⟨[], ws ++ (scan r).trail⟩
      | (w, t) :: rest => ⟨(ws ++ w, t) :: rest, (scan r).trail⟩ := by
  induction ws with
  | nil => cases h : (scan r).items <;> simp <;> (cases hs : scan r; simp_all)
  | cons c cs ih =>
    have hc : isSpace c = true := hws c List.mem_cons_self
    have hcs : Blank cs := fun x hx => hws x (List.mem_cons_of_mem _ hx)
    simp only [List.cons_append]
    rw [scan_cons_space _ _ hc, ih hcs]
    cases h : (scan r).items with
    | nil => simp
    | cons it rest => obtain ⟨w, t⟩ := it; simp

/-- what follows a token: nothing, or whitespace -/
def StartsBlank (r : Str) : Prop := r = [] ∨ ∃ c cs, r = c :: cs ∧ isSpace c = true

theorem scan_startsBlank (r : Str) (h : StartsBlank r) : ∀ tok rest, (scan r).items ≠ ([], tok) :: rest := by
  intro tok rest hitems
  rcases h with rfl | ⟨c, cs, rfl, hc⟩
  · simp [scan] at hitems
  · rw [scan_cons_space _ _ hc] at hitems
    split at hitems
    · simp at hitems
    · simp at hitems

theorem scan_tok_append (t : Str) (hne : t ≠ []) (hns : ∀ c ∈ t, isSpace c = false) (r : Str) (hr : StartsBlank r) :
    scan (t ++ r) = ⟨([], t) :: (scan r).items, (scan r).trail⟩ := by
  induction t with
  | nil => exact absurd rfl hne
  | cons c cs ih =>
    have hc : isSpace c = false := hns c List.mem_cons_self
    simp only [List.cons_append]
    rw [scan_cons_nonspace _ _ hc]
    by_cases hcs : cs = []
    · subst hcs
      simp only [List.nil_append]
      split
      next tok rest h => exact absurd h (scan_startsBlank r hr tok rest)
      next => rfl
    · have := ih hcs (fun x hx => hns x (List.mem_cons_of_mem _ hx))
      rw [this]

theorem blank_startsBlank (w : Str) (h : Blank w) : StartsBlank w := by
  cases w with
  | nil => exact Or.inl rfl
  | cons c cs => exact Or.inr ⟨c, cs, rfl, h c List.mem_cons_self⟩

/-- a well-formed decomposition is what `scan` finds in its rendering -/
theorem scan_of_wf (s : Segs) (h : s.WF) : scan s.render = s := by
  obtain ⟨items, trail⟩ := s
  induction items with
  | nil =>
    simp only [Segs.render, List.flatMap_nil, List.nil_append]
    have := scan_blank_append trail h.trail []
    simpa [scan] using this
  | cons it rest ih =>
    obtain ⟨ws, tok⟩ := it
    have hrest : Segs.WF ⟨rest, trail⟩ :=
      ⟨fun it hit => h.ws it (List.mem_cons_of_mem _ hit), fun it hit => h.tok it (List.mem_cons_of_mem _ hit),
       fun it hit => h.sep it (by simp only [List.tail_cons]; exact List.mem_of_mem_tail hit), h.trail⟩
    have ihr := ih hrest
    have hR : StartsBlank (Segs.render ⟨rest, trail⟩) := by
      cases rest with
      | nil => simpa [Segs.render] using blank_startsBlank trail h.trail
      | cons it1 rest1 =>
        obtain ⟨w1, t1⟩ := it1
        have hw1 : w1 ≠ [] := h.sep (w1, t1) (by simp)
        have hb1 : Blank w1 := h.ws (w1, t1) (by simp)
        cases w1 with
        | nil => exact absurd rfl hw1
        | cons c cs =>
          exact Or.inr ⟨c, cs ++ (t1 ++ Segs.render ⟨rest1, trail⟩), by simp [Segs.render], hb1 c List.mem_cons_self⟩
    have hrender : Segs.render ⟨(ws, tok) :: rest, trail⟩ = ws ++ (tok ++ Segs.render ⟨rest, trail⟩) := by
      simp [Segs.render]
    rw [hrender, scan_blank_append ws (h.ws (ws, tok) List.mem_cons_self),
      scan_tok_append tok (h.tok (ws, tok) List.mem_cons_self).1 (h.tok (ws, tok) List.mem_cons_self).2 _ hR, ihr]
    simp

theorem scan_append_space (x : Str) (c : Char) (hc : isSpace c = true) :
    scan (x ++ [c]) = ⟨(scan x).items, (scan x).trail ++ [c]⟩ := by
  induction x with
  | nil => simp [scan, hc]
  | cons d x ih =>
    simp only [List.cons_append]
    by_cases hd : isSpace d = true
    · rw [scan_cons_space _ _ hd, scan_cons_space _ _ hd, ih]
      cases h : (scan x).items with
      | nil => simp
      | cons it rest => obtain ⟨w, t⟩ := it; simp
    · have hd' : isSpace d = false := by simpa using hd
      rw [scan_cons_nonspace _ _ hd', scan_cons_nonspace _ _ hd', ih]
      cases h : (scan x).items with
      | nil => simp
      | cons it rest =>
        obtain ⟨w, t⟩ := it
        cases w <;> simp

/-! ## the comment -/

/-- whether a `#` right after the string `a` would start a comment -/
def endState (st : Bool) (a : Str) : Bool :=
  match a.getLast? with
  | none => st
  | some c => isSpace c

theorem endState_cons (st : Bool) (c : Char) (cs : Str) : endState st (c :: cs) = endState (isSpace c) cs := by
  cases cs with
  | nil => simp [endState]
  | cons d ds =>
    simp only [endState, List.getLast?_cons_cons]
    cases h : (d :: ds).getLast? with
    | none => simp at h
    | some x => rfl

theorem endState_append_ne (st : Bool) (a b : Str) (hb : b ≠ []) : endState st (a ++ b) = endState st b := by
  cases b with
  | nil => exact absurd rfl hb
  | cons d ds => simp [endState, List.getLast?_append, List.getLast?_cons]

theorem splitCommentAux_append_of_none (st : Bool) (a b : Str) (h : splitCommentAux st a = (a, [])) :
    splitCommentAux st (a ++ b)
      = (a ++ (splitCommentAux (endState st a) b).1, (splitCommentAux (endState st a) b).2) := by
  induction a generalizing st with
  | nil => simp [endState]
  | cons c cs ih =>
    simp only [List.cons_append]
    rw [splitCommentAux] at h ⊢
    by_cases hc : c = '#' ∧ st = true
    · simp only [hc, and_self, if_true] at h
      cases h
    · simp only [hc, if_false] at h ⊢
      have h2 : splitCommentAux (isSpace c) cs = (cs, []) := by
        cases hr : splitCommentAux (isSpace c) cs with
        | mk x y =>
          rw [hr] at h
          simp only [Prod.mk.injEq, List.cons.injEq, true_and] at h
          rw [h.1, h.2]
      rw [ih (isSpace c) h2, endState_cons]

theorem splitCommentAux_blank (st : Bool) (ws : Str) (h : Blank ws) : splitCommentAux st ws = (ws, []) := by
  induction ws generalizing st with
  | nil => rfl
  | cons c cs ih =>
    have hc : isSpace c = true := h c List.mem_cons_self
    have hne : c ≠ '#' := by rintro rfl; rw [hash_not_space] at hc; cases hc
    rw [splitCommentAux]
    simp only [hne, false_and, if_false, ih (isSpace c) (fun x hx => h x (List.mem_cons_of_mem _ hx))]

theorem splitCommentAux_tok (st : Bool) (t : Str) (hns : ∀ c ∈ t, isSpace c = false)
    (hh : st = true → t.head? ≠ some '#') : splitCommentAux st t = (t, []) := by
  induction t generalizing st with
  | nil => rfl
  | cons c cs ih =>
    have hc : isSpace c = false := hns c List.mem_cons_self
    rw [splitCommentAux]
    have hcond : ¬ (c = '#' ∧ st = true) := by
      rintro ⟨rfl, hst⟩
      exact hh hst rfl
    simp only [hcond, if_false, hc,
      ih false (fun x hx => hns x (List.mem_cons_of_mem _ hx)) (fun h => by cases h)]

theorem endState_blank (st : Bool) (ws : Str) (h : Blank ws) (hne : ws ≠ []) : endState st ws = true := by
  unfold endState
  cases hl : ws.getLast? with
  | none => exact absurd (List.getLast?_eq_none_iff.1 hl) hne
  | some c => exact h c (List.mem_of_getLast? hl)

theorem endState_tok (st : Bool) (t : Str) (hns : ∀ c ∈ t, isSpace c = false) (hne : t ≠ []) :
    endState st t = false := by
  unfold endState
  cases hl : t.getLast? with
  | none => exact absurd (List.getLast?_eq_none_iff.1 hl) hne
  | some c => exact hns c (List.mem_of_getLast? hl)

/-- a well-formed layout whose tokens do not start with `#` contains no comment start -/
theorem splitCommentAux_render (s : Segs) (h : s.WF) (hh : ∀ it ∈ s.items, it.2.head? ≠ some '#') (st : Bool) :
    splitCommentAux st s.render = (s.render, []) ∧
      endState st s.render = (if s.trail ≠ [] then true else if s.items ≠ [] then false else st) := by
  obtain ⟨items, trail⟩ := s
  induction items generalizing st with
  | nil =>
    simp only [Segs.render, List.flatMap_nil, List.nil_append]
    refine ⟨splitCommentAux_blank st trail h.trail, ?_⟩
    by_cases ht : trail = []
    · subst ht; simp [endState]
    · simp [ht, endState_blank st trail h.trail ht]
  | cons it rest ih =>
    obtain ⟨ws, tok⟩ := it
    have hrest : Segs.WF ⟨rest, trail⟩ :=
      ⟨fun it hit => h.ws it (List.mem_cons_of_mem _ hit), fun it hit => h.tok it (List.mem_cons_of_mem _ hit),
       fun it hit => h.sep it (by simp only [List.tail_cons]; exact List.mem_of_mem_tail hit), h.trail⟩
    have hws := h.ws (ws, tok) List.mem_cons_self
    have htok := h.tok (ws, tok) List.mem_cons_self
    have hhead := hh (ws, tok) List.mem_cons_self
    have hrender : Segs.render ⟨(ws, tok) :: rest, trail⟩ = ws ++ (tok ++ Segs.render ⟨rest, trail⟩) := by
      simp [Segs.render]
    have ihr := ih (endState (endState st ws) tok) hrest (fun it hit => hh it (List.mem_cons_of_mem _ hit))
    rw [hrender, splitCommentAux_append_of_none st ws _ (splitCommentAux_blank st ws hws),
      splitCommentAux_append_of_none _ tok _ (splitCommentAux_tok _ tok htok.2 (fun _ => hhead)), ihr.1]
    refine ⟨rfl, ?_⟩
    have htokE : endState (endState st ws) tok = false := endState_tok _ tok htok.2 htok.1
    by_cases hR : Segs.render ⟨rest, trail⟩ = []
    · -- nothing after the token
      have hr0 : rest = [] ∧ trail = [] := by
        cases rest with
        | nil => simpa [Segs.render] using hR
        | cons it1 r1 =>
          have := (h.tok it1 (by simp)).1
          simp [Segs.render] at hR
          exact absurd hR.2.1 this
      rw [hR, List.append_nil, endState_append_ne st ws tok htok.1, endState_tok st tok htok.2 htok.1]
      simp [hr0.2]
    · rw [← List.append_assoc, endState_append_ne st _ _ hR]
      have := ihr.2
      have e1 : ∀ st', endState st' (Segs.render ⟨rest, trail⟩) = endState false (Segs.render ⟨rest, trail⟩) := by
        intro st'
        unfold endState
        cases hl : (Segs.render ⟨rest, trail⟩).getLast? with
        | none => exact absurd (List.getLast?_eq_none_iff.1 hl) hR
        | some c => rfl
      rw [e1 st, ← e1 (endState (endState st ws) tok), this, htokE]
      by_cases ht : trail = [] <;> simp [ht]

/-- what `_COMMENT_RE.search` returns: the parts recompose the string, the first part holds no comment start,
and the second part is empty or starts with a `#` in comment position -/
theorem splitCommentAux_spec (st : Bool) (r b c : Str) (h : splitCommentAux st r = (b, c)) :
    r = b ++ c ∧ splitCommentAux st b = (b, []) ∧ (c = [] ∨ (c.head? = some '#' ∧ endState st b = true)) := by
  induction r generalizing st b c with
  | nil => cases h; simp [splitCommentAux]
  | cons x xs ih =>
    rw [splitCommentAux] at h
    by_cases hc : x = '#' ∧ st = true
    · simp only [hc, and_self, if_true] at h
      cases h
      obtain ⟨rfl, rfl⟩ := hc
      exact ⟨rfl, rfl, Or.inr ⟨rfl, rfl⟩⟩
    · simp only [hc, if_false] at h
      cases hr : splitCommentAux (isSpace x) xs with
      | mk b' c' =>
        rw [hr] at h
        cases h
        obtain ⟨h1, h2, h3⟩ := ih (isSpace x) b' c' hr
        refine ⟨by simp [h1], ?_, ?_⟩
        · rw [splitCommentAux]; simp only [hc, if_false, h2]
        · rcases h3 with h3 | ⟨h3, h4⟩
          · exact Or.inl h3
          · exact Or.inr ⟨h3, by rw [endState_cons]; exact h4⟩

theorem splitComment_recompose (b c : Str) (hb : splitCommentAux true b = (b, []))
    (hc : c = [] ∨ (c.head? = some '#' ∧ endState true b = true)) : splitComment (b ++ c) = (b, c) := by
  unfold splitComment
  rw [splitCommentAux_append_of_none true b c hb]
  rcases hc with rfl | ⟨h1, h2⟩
  · simp [splitCommentAux]
  · cases c with
    | nil => cases h1
    | cons x xs =>
      simp only [List.head?_cons, Option.some.injEq] at h1
      subst h1
      rw [h2, splitCommentAux]
      simp

/-! ## rewriting the keywords of a line -/

theorem joinSp_cons (k : Str) (ks : List Str) : joinSp (k :: ks) = k ++ ks.flatMap (fun k' => ' ' :: k') := by
  induction ks generalizing k with
  | nil => simp [joinSp]
  | cons k2 ks ih => simp [joinSp, ih k2]

theorem render_kwItems (ws0 t0 sep : Str) (kws : List Str) (trail : Str) :
    Segs.render ⟨(ws0, t0) :: kwItems sep kws, trail⟩
      = ws0 ++ t0 ++ (if kws.isEmpty then [] else sep) ++ joinSp kws ++ trail := by
  cases kws with
  | nil => simp [Segs.render, kwItems, joinSp]
  | cons k ks =>
    simp only [Segs.render, kwItems, List.flatMap_cons, List.flatMap_map, joinSp_cons, List.isEmpty_cons,
      Bool.false_eq_true, if_false, List.append_assoc]
    congr 4

/-- the model of `with_keywords` writes exactly the layout `rewrittenItems` followed by the old comment -/
theorem withKeywords_raw (e : Entry α) (pkg : α) (hp : e.pkg = some pkg) (kws : List Str)
    (hne : (scan (splitComment e.raw).1).items ≠ []) :
    (e.withKeywords kws).raw = (rewrittenItems (scan (splitComment e.raw).1) kws).render ++ (splitComment e.raw).2 ∧
    (e.withKeywords kws).keywords = kws ∧ (e.withKeywords kws).pkg = e.pkg ∧ (e.withKeywords kws).lineno = e.lineno ∧
    (e.withKeywords kws).comment = e.comment ∧ (e.withKeywords kws).eol = e.eol := by
  unfold Entry.withKeywords rewrittenItems
  simp only [hp]
  cases hi : (scan (splitComment e.raw).1).items with
  | nil => exact absurd hi hne
  | cons it0 rest =>
    obtain ⟨ws0, t0⟩ := it0
    cases rest with
    | nil => simp [render_kwItems]
    | cons it1 rest1 =>
      obtain ⟨ws1, t1⟩ := it1
      cases kws with
      | nil => simp [Segs.render, joinSp]
      | cons k ks => simp [render_kwItems]

theorem withKeywords_noop (e : Entry α) (kws : List Str)
    (h : e.pkg = none ∨ (scan (splitComment e.raw).1).items = []) : e.withKeywords kws = e := by
  unfold Entry.withKeywords
  cases hp : e.pkg with
  | none => rfl
  | some pkg =>
    rcases h with h | h
    · rw [hp] at h; cases h
    · simp only [h]

/-- the first token of a string without comment start does not begin with `#` -/
theorem first_token_no_hash (body : Str) (hb : splitCommentAux true body = (body, []))
    (ws0 t0 : Str) (rest : List (Str × Str)) (hi : (scan body).items = (ws0, t0) :: rest) :
    t0.head? ≠ some '#' := by
  intro hh
  have hwf := scan_wf body
  have hws : Blank ws0 := hwf.ws (ws0, t0) (by rw [hi]; exact List.mem_cons_self)
  have hrender : body = ws0 ++ (t0 ++ Segs.render ⟨rest, (scan body).trail⟩) := by
    conv => lhs; rw [← scan_render body]
    simp [Segs.render, hi]
  have hst : endState true ws0 = true := by
    by_cases h0 : ws0 = []
    · subst h0; rfl
    · exact endState_blank true ws0 hws h0
  cases t0 with
  | nil => cases hh
  | cons c cs =>
    simp only [List.head?_cons, Option.some.injEq] at hh
    subst hh
    have := splitCommentAux_append_of_none true ws0 ('#' :: cs ++ Segs.render ⟨rest, (scan body).trail⟩)
      (splitCommentAux_blank true ws0 hws)
    rw [← hrender, hb, hst] at this
    rw [List.cons_append, splitCommentAux] at this
    simp at this

theorem rewrittenItems_wf (s : Segs) (h : s.WF) (kws : List Str) (hk : ∀ k ∈ kws, Tok k) :
    (rewrittenItems s kws).WF := by
  have hkw : ∀ (sep : Str), Blank sep → sep ≠ [] →
      (∀ it ∈ kwItems sep kws, Blank it.1 ∧ it.1 ≠ [] ∧ it.2 ≠ [] ∧ ∀ c ∈ it.2, isSpace c = false) := by
    intro sep hb hne it hit
    cases kws with
    | nil => cases hit
    | cons k ks =>
      simp only [kwItems, List.mem_cons, List.mem_map] at hit
      rcases hit with rfl | ⟨k', hk', rfl⟩
      · exact ⟨hb, hne, (hk k List.mem_cons_self).1, (hk k List.mem_cons_self).2.1⟩
      · refine ⟨?_, by simp, (hk k' (List.mem_cons_of_mem _ hk')).1, (hk k' (List.mem_cons_of_mem _ hk')).2.1⟩
        intro c hc
        simp only [List.mem_cons, List.not_mem_nil, or_false] at hc
        subst hc; exact space_is_space
  unfold rewrittenItems
  cases hi : s.items with
  | nil => simpa [hi] using h
  | cons it0 rest =>
    obtain ⟨ws0, t0⟩ := it0
    have h0ws : Blank ws0 := h.ws (ws0, t0) (by rw [hi]; exact List.mem_cons_self)
    have h0tok := h.tok (ws0, t0) (by rw [hi]; exact List.mem_cons_self)
    have build : ∀ (sep : Str), Blank sep → sep ≠ [] → Segs.WF ⟨(ws0, t0) :: kwItems sep kws, s.trail⟩ := by
      intro sep hb hne
      have hk' := hkw sep hb hne
      refine ⟨?_, ?_, ?_, h.trail⟩
      · intro it hit
        rcases List.mem_cons.1 hit with rfl | hit
        · exact h0ws
        · exact (hk' it hit).1
      · intro it hit
        rcases List.mem_cons.1 hit with rfl | hit
        · exact h0tok
        · exact ⟨(hk' it hit).2.2.1, (hk' it hit).2.2.2⟩
      · intro it hit
        simp only [List.tail_cons] at hit
        exact (hk' it hit).2.1
    cases rest with
    | nil => exact build [' '] (fun c hc => by simp at hc; subst hc; exact space_is_space) (by simp)
    | cons it1 rest1 =>
      obtain ⟨ws1, t1⟩ := it1
      have h1ws : Blank ws1 := h.ws (ws1, t1) (by rw [hi]; simp)
      have h1ne : ws1 ≠ [] := h.sep (ws1, t1) (by rw [hi]; simp)
      cases kws with
      | nil =>
        refine ⟨?_, ?_, by simp, ?_⟩
        · intro it hit
          simp only [List.mem_cons, List.not_mem_nil, or_false] at hit
          subst hit; exact h0ws
        · intro it hit
          simp only [List.mem_cons, List.not_mem_nil, or_false] at hit
          subst hit; exact h0tok
        · intro c hc
          rcases List.mem_append.1 hc with hc | hc
          · exact h1ws c hc
          · exact h.trail c hc
      | cons k ks => exact build ws1 h1ws h1ne

theorem rewrittenItems_heads (s : Segs) (kws : List Str) (hk : ∀ k ∈ kws, Tok k)
    (h0 : ∀ ws0 t0 rest, s.items = (ws0, t0) :: rest → t0.head? ≠ some '#') :
    ∀ it ∈ (rewrittenItems s kws).items, it.2.head? ≠ some '#' := by
  have hkw : ∀ sep, ∀ it ∈ kwItems sep kws, it.2.head? ≠ some '#' := by
    intro sep it hit
    cases kws with
    | nil => cases hit
    | cons k ks =>
      simp only [kwItems, List.mem_cons, List.mem_map] at hit
      rcases hit with rfl | ⟨k', hk', rfl⟩
      · exact (hk k List.mem_cons_self).2.2
      · exact (hk k' (List.mem_cons_of_mem _ hk')).2.2
  unfold rewrittenItems
  cases hi : s.items with
  | nil => intro it hit; rw [hi] at hit; cases hit
  | cons it0 rest =>
    obtain ⟨ws0, t0⟩ := it0
    have ht0 := h0 ws0 t0 rest hi
    cases rest with
    | nil =>
      intro it hit
      rcases List.mem_cons.1 hit with rfl | hit
      · exact ht0
      · exact hkw _ it hit
    | cons it1 rest1 =>
      obtain ⟨ws1, t1⟩ := it1
      cases kws with
      | nil =>
        intro it hit
        simp only [List.mem_cons, List.not_mem_nil, or_false] at hit
        subst hit; exact ht0
      | cons k ks =>
        intro it hit
        rcases List.mem_cons.1 hit with rfl | hit
        · exact ht0
        · exact hkw _ it hit

theorem rewrittenItems_trail_ne (s : Segs) (kws : List Str) (h : s.trail ≠ []) : (rewrittenItems s kws).trail ≠ [] := by
  unfold rewrittenItems
  cases hi : s.items with
  | nil => simpa [hi] using h
  | cons it0 rest =>
    obtain ⟨ws0, t0⟩ := it0
    cases rest with
    | nil => exact h
    | cons it1 rest1 =>
      obtain ⟨ws1, t1⟩ := it1
      cases kws with
      | nil => simp [h]
      | cons k ks => exact h

/-- in a string without comment start no token begins with `#` -/
theorem tokens_no_hash (items : List (Str × Str)) (trail : Str) (h : Segs.WF ⟨items, trail⟩) (st : Bool)
    (hst : st = true ∨ ∀ it ∈ items.head?, it.1 ≠ [])
    (hb : splitCommentAux st (Segs.render ⟨items, trail⟩) = (Segs.render ⟨items, trail⟩, [])) :
    ∀ it ∈ items, it.2.head? ≠ some '#' := by
  induction items generalizing st with
  | nil => intro it hit; cases hit
  | cons it0 rest ih =>
    obtain ⟨ws, tok⟩ := it0
    have hrest : Segs.WF ⟨rest, trail⟩ :=
      ⟨fun it hit => h.ws it (List.mem_cons_of_mem _ hit), fun it hit => h.tok it (List.mem_cons_of_mem _ hit),
       fun it hit => h.sep it (by simp only [List.tail_cons]; exact List.mem_of_mem_tail hit), h.trail⟩
    have hws := h.ws (ws, tok) List.mem_cons_self
    have htok := h.tok (ws, tok) List.mem_cons_self
    have hrender : Segs.render ⟨(ws, tok) :: rest, trail⟩ = ws ++ (tok ++ Segs.render ⟨rest, trail⟩) := by
      simp [Segs.render]
    have hst' : endState st ws = true := by
      by_cases h0 : ws = []
      · subst h0
        rcases hst with hst | hst
        · simpa [endState] using hst
        · exact absurd rfl (hst (([] : Str), tok) (by simp))
      · exact endState_blank st ws hws h0
    rw [hrender, splitCommentAux_append_of_none st ws _ (splitCommentAux_blank st ws hws), hst'] at hb
    have hb1 : splitCommentAux true (tok ++ Segs.render ⟨rest, trail⟩) = (tok ++ Segs.render ⟨rest, trail⟩, []) := by
      cases hr : splitCommentAux true (tok ++ Segs.render ⟨rest, trail⟩) with
      | mk x y =>
        rw [hr] at hb
        simp only [Prod.mk.injEq, List.append_cancel_left_eq] at hb
        rw [hb.1, hb.2]
    have hhead : tok.head? ≠ some '#' := by
      intro hh
      cases tok with
      | nil => cases hh
      | cons c cs =>
        simp only [List.head?_cons, Option.some.injEq] at hh
        subst hh
        rw [List.cons_append, splitCommentAux] at hb1
        simp at hb1
    intro it hit
    rcases List.mem_cons.1 hit with rfl | hit
    · exact hhead
    · rw [splitCommentAux_append_of_none true tok _ (splitCommentAux_tok true tok htok.2 (fun _ => hhead)),
        endState_tok true tok htok.2 htok.1] at hb1
      have hb2 : splitCommentAux false (Segs.render ⟨rest, trail⟩) = (Segs.render ⟨rest, trail⟩, []) := by
        cases hr : splitCommentAux false (Segs.render ⟨rest, trail⟩) with
        | mk x y =>
          rw [hr] at hb1
          simp only [Prod.mk.injEq, List.append_cancel_left_eq] at hb1
          rw [hb1.1, hb1.2]
      refine ih hrest false (Or.inr ?_) hb2 it hit
      intro it1 hit1
      cases rest with
      | nil => cases hit1
      | cons r0 rs =>
        simp only [List.head?_cons, Option.mem_def, Option.some.injEq] at hit1
        subst hit1
        exact h.sep r0 (by simp)

/-! ## sentinel expansion -/

theorem expandKeywords_eq_flatMap (suggested : List Str) (previous : Option (List Str)) (lineno n : Nat)
    (ks kws : List Str) (h : expandKeywords suggested previous lineno n ks = .ok kws) :
    kws = ks.flatMap (expandOne suggested (previous.getD [])) := by
  induction ks generalizing kws with
  | nil => cases h; rfl
  | cons k ks ih =>
    simp only [expandKeywords] at h
    by_cases h1 : k = ALL
    · simp only [h1, if_true] at h
      cases hr : expandKeywords suggested previous lineno n ks with
      | error e => rw [hr] at h; cases h
      | ok r =>
        rw [hr] at h; cases h
        simp [expandOne, h1, ih r hr]
    · simp only [h1, if_false] at h
      by_cases h2 : k = SAME
      · simp only [h2, if_true] at h
        cases previous with
        | none => cases h
        | some prev =>
          simp only at h
          split at h
          · cases h
          · cases hr : expandKeywords suggested (some prev) lineno n ks with
            | error e => rw [hr] at h; cases h
            | ok r =>
              rw [hr] at h; cases h
              have hne : SAME ≠ ALL := by decide
              simp [expandOne, h2, hne, ih r hr]
      · simp only [h2, if_false] at h
        cases hr : expandKeywords suggested previous lineno n ks with
        | error e => rw [hr] at h; cases h
        | ok r =>
          rw [hr] at h; cases h
          simp [expandOne, h1, h2, ih r hr]

theorem flatMap_expandOne_id (suggested previous : List Str) (ks : List Str)
    (h : ∀ k ∈ ks, isSentinel k = false) : ks.flatMap (expandOne suggested previous) = ks := by
  induction ks with
  | nil => rfl
  | cons k ks ih =>
    have hk := h k List.mem_cons_self
    simp only [isSentinel, Bool.or_eq_false_iff, decide_eq_false_iff_not] at hk
    simp [expandOne, hk.1, hk.2, ih (fun k' hk' => h k' (List.mem_cons_of_mem _ hk'))]

/-- two lists related entry by entry (same length) -/
inductive Forall2 {β γ : Type} (R : β → γ → Prop) : List β → List γ → Prop
  | nil : Forall2 R [] []
  | cons {a b l₁ l₂} : R a b → Forall2 R l₁ l₂ → Forall2 R (a :: l₁) (b :: l₂)

/-- an entry of the expansion: untouched, or rewritten because a sentinel changed its keywords -/
def Touched (e e' : Entry α) : Prop :=
  e' = e ∨ (e.pkg ≠ none ∧ (∃ k ∈ e.keywords, isSentinel k = true) ∧ e'.keywords ≠ e.keywords ∧
            e' = e.withKeywords e'.keywords)

theorem withKeywords_keywords_of_parsed (e : Entry α) (kws : List Str)
    (h : e.pkg ≠ none → (scan (splitComment e.raw).1).items ≠ []) (hp : e.pkg ≠ none) :
    (e.withKeywords kws).keywords = kws := by
  cases hpk : e.pkg with
  | none => exact absurd hpk hp
  | some pkg => exact (withKeywords_raw e pkg hpk kws (h hp)).2.1

theorem expandLoop_touched (suggest : α → List Str) (previous : Option (List Str)) (es es' : List (Entry α))
    (ch : Bool) (hparsed : ∀ e ∈ es, e.pkg ≠ none → (scan (splitComment e.raw).1).items ≠ [])
    (h : expandLoop suggest previous es = .ok (es', ch)) :
    Forall2 Touched es es' ∧ (ch = false → es' = es) := by
  induction es generalizing previous es' ch with
  | nil => simp only [expandLoop] at h; cases h; exact ⟨Forall2.nil, fun _ => rfl⟩
  | cons e es ih =>
    have hp' : ∀ e' ∈ es, e'.pkg ≠ none → (scan (splitComment e'.raw).1).items ≠ [] :=
      fun e' he' => hparsed e' (List.mem_cons_of_mem _ he')
    simp only [expandLoop] at h
    cases hpkg : e.pkg with
    | none =>
      simp only [hpkg] at h
      cases hr : expandLoop suggest previous es with
      | error err => rw [hr] at h; cases h
      | ok r =>
        rw [hr] at h; cases h
        obtain ⟨h1, h2⟩ := ih previous r.1 r.2 hp' (by rw [hr])
        exact ⟨Forall2.cons (Or.inl rfl) h1, fun hc => by rw [h2 hc]⟩
    | some pkg =>
      simp only [hpkg] at h
      cases hk : expandKeywords (suggest pkg) previous e.lineno e.keywords.length e.keywords with
      | error err => rw [hk] at h; cases h
      | ok kws =>
        rw [hk] at h
        simp only at h
        by_cases hne : kws ≠ e.keywords
        · simp only [hne, ne_eq, not_false_eq_true, if_true] at h
          cases hr : expandLoop suggest (some kws) es with
          | error err => rw [hr] at h; cases h
          | ok r =>
            rw [hr] at h; cases h
            obtain ⟨h1, _⟩ := ih (some kws) r.1 r.2 hp' (by rw [hr])
            have hpne : e.pkg ≠ none := by rw [hpkg]; simp
            have hkw : (e.withKeywords kws).keywords = kws :=
              withKeywords_keywords_of_parsed e kws (hparsed e List.mem_cons_self) hpne
            refine ⟨Forall2.cons (Or.inr ⟨hpne, ?_, by rw [hkw]; exact hne, by rw [hkw]⟩) h1, fun hc => by cases hc⟩
            -- some keyword is a sentinel, otherwise nothing would have changed
            apply Classical.byContradiction
            intro hno
            have hall : ∀ k ∈ e.keywords, isSentinel k = false := by
              intro k hk'
              cases hs : isSentinel k with
              | false => rfl
              | true => exact absurd ⟨k, hk', hs⟩ hno
            have := expandKeywords_eq_flatMap _ _ _ _ _ _ hk
            rw [flatMap_expandOne_id _ _ _ hall] at this
            exact hne this
        · have heq : kws = e.keywords := Classical.not_not.1 hne
          simp only [heq, ne_eq, not_true_eq_false, if_false] at h
          cases hr : expandLoop suggest (some e.keywords) es with
          | error err => rw [hr] at h; cases h
          | ok r =>
            rw [hr] at h; cases h
            obtain ⟨h1, h2⟩ := ih (some e.keywords) r.1 r.2 hp' (by rw [hr])
            exact ⟨Forall2.cons (Or.inl rfl) h1, fun hc => by rw [h2 hc]⟩

/-- an entry produced by `_parse` that names a package has a first token -/
theorem parseLine_has_token (parseAtom : Str → Option α) (n : Nat) (line : Str) (e : Entry α)
    (h : parseLine parseAtom n line = some e) (hp : e.pkg ≠ none) :
    (scan (splitComment e.raw).1).items ≠ [] := by
  unfold parseLine at h
  simp only at h
  split at h
  · cases h; exact absurd rfl hp
  next t ks htok =>
    split at h
    · cases h
    · cases h
      simp only
      intro hnil
      -- the body the parser tokenised is the comment-free prefix, possibly without its last (whitespace) character
      generalize hraw : rstrip isCRLF line = raw at *
      have hs := splitCommentAux_spec true raw (splitComment raw).1 (splitComment raw).2 rfl
      by_cases hc : (splitComment raw).2.isEmpty = true
      · simp only [hc, if_true] at htok
        have h2 : (splitComment raw).2 = [] := by simpa using hc
        have hraw2 : raw = (splitComment raw).1 := by
          have := hs.1; rw [h2, List.append_nil] at this; exact this
        rw [← hraw2] at hnil
        simp [tokens, hnil] at htok
      · simp only [hc, Bool.false_eq_true, if_false] at htok
        -- dropLast removes a whitespace character (or nothing): same tokens
        have hdl : (scan (splitComment raw).1.dropLast).items = (scan (splitComment raw).1).items := by
          rcases hs.2.2 with hnil2 | ⟨_, hend⟩
          · rw [hnil2] at hc; simp at hc
          · by_cases hb : (splitComment raw).1 = []
            · rw [hb]; rfl
            · have hl := List.getLast?_eq_some_getLast hb
              have hsp : isSpace ((splitComment raw).1.getLast hb) = true := by
                unfold endState at hend
                rw [hl] at hend; exact hend
              conv => rhs; rw [← List.dropLast_concat_getLast hb, scan_append_space _ _ hsp]
        simp [tokens, hdl, hnil] at htok

/-- the tokens of a parsed package line: the spec and the keywords, in the comment-free part of the line -/
theorem parseLine_tokens (parseAtom : Str → Option α) (n : Nat) (line : Str) (e : Entry α)
    (h : parseLine parseAtom n line = some e) (hp : e.pkg ≠ none) :
    ∃ ws0 t0 rest, (scan (splitComment e.raw).1).items = (ws0, t0) :: rest ∧ parseAtom t0 = e.pkg ∧
      e.keywords = rest.map (·.2) := by
  have hne := parseLine_has_token parseAtom n line e h hp
  unfold parseLine at h
  simp only at h
  split at h
  · cases h; exact absurd rfl hp
  next t ks htok =>
    split at h
    · cases h
    next pkg hpa =>
      cases h
      simp only at hne ⊢
      generalize hraw : rstrip isCRLF line = raw at *
      have hs := splitCommentAux_spec true raw (splitComment raw).1 (splitComment raw).2 rfl
      have hsame : tokens (if (splitComment raw).2.isEmpty = true then raw else (splitComment raw).1.dropLast)
          = tokens (splitComment raw).1 := by
        by_cases hc : (splitComment raw).2.isEmpty = true
        · have h2 : (splitComment raw).2 = [] := by simpa using hc
          have hraw2 : raw = (splitComment raw).1 := by
            have := hs.1; rw [h2, List.append_nil] at this; exact this
          simp only [hc, if_true]; rw [← hraw2]
        · simp only [hc, Bool.false_eq_true, if_false]
          rcases hs.2.2 with hnil2 | ⟨_, hend⟩
          · rw [hnil2] at hc; simp at hc
          · by_cases hb : (splitComment raw).1 = []
            · rw [hb]; rfl
            · have hl := List.getLast?_eq_some_getLast hb
              have hsp : isSpace ((splitComment raw).1.getLast hb) = true := by
                unfold endState at hend
                rw [hl] at hend; exact hend
              unfold tokens
              conv => rhs; rw [← List.dropLast_concat_getLast hb, scan_append_space _ _ hsp]
      rw [hsame] at htok
      unfold tokens at htok
      cases hi : (scan (splitComment raw).1).items with
      | nil => rw [hi] at htok; cases htok
      | cons it0 rest =>
        obtain ⟨ws0, t0⟩ := it0
        rw [hi] at htok
        simp only [List.map_cons, List.cons.injEq] at htok
        exact ⟨ws0, t0, rest, rfl, by rw [htok.1]; exact hpa, htok.2.symm⟩

/-- every token of the comment-free part of a line is a proper token -/
theorem scan_body_tok (raw : Str) : ∀ it ∈ (scan (splitComment raw).1).items, Tok it.2 := by
  intro it hit
  have hs := splitCommentAux_spec true raw (splitComment raw).1 (splitComment raw).2 rfl
  have hwf := scan_wf (splitComment raw).1
  have hr := scan_render (splitComment raw).1
  have hb : splitCommentAux true (Segs.render ⟨(scan (splitComment raw).1).items, (scan (splitComment raw).1).trail⟩)
      = (Segs.render ⟨(scan (splitComment raw).1).items, (scan (splitComment raw).1).trail⟩, []) := by
    have : (⟨(scan (splitComment raw).1).items, (scan (splitComment raw).1).trail⟩ : Segs) = scan (splitComment raw).1 := rfl
    rw [this, hr]; exact hs.2.1
  have hh := tokens_no_hash _ _ hwf true (Or.inl rfl) hb it hit
  exact ⟨(hwf.tok it hit).1, (hwf.tok it hit).2, hh⟩

theorem tok_NO : Tok NO := by
  refine ⟨by simp [NO], ?_, by decide⟩
  intro c hc
  simp only [NO, List.mem_cons, List.not_mem_nil, or_false] at hc
  subst hc; decide

theorem expandKeywords_tok (suggested : List Str) (previous : Option (List Str)) (lineno n : Nat)
    (ks kws : List Str) (h : expandKeywords suggested previous lineno n ks = .ok kws)
    (hs : ∀ k ∈ suggested, Tok k) (hp : ∀ prev, previous = some prev → ∀ k ∈ prev, Tok k) (hk : ∀ k ∈ ks, Tok k) :
    ∀ k ∈ kws, Tok k := by
  rw [expandKeywords_eq_flatMap _ _ _ _ _ _ h]
  intro k hk'
  obtain ⟨k0, hk0, hmem⟩ := List.mem_flatMap.1 hk'
  unfold expandOne at hmem
  split at hmem
  · split at hmem
    · simp only [List.mem_cons, List.not_mem_nil, or_false] at hmem; subst hmem; exact tok_NO
    · exact hs k hmem
  · split at hmem
    · cases previous with
      | none => cases hmem
      | some prev => exact hp prev rfl k hmem
    · simp only [List.mem_cons, List.not_mem_nil, or_false] at hmem; rw [hmem]; exact hk k0 hk0

theorem expandLoop_tok (suggest : α → List Str) (previous : Option (List Str)) (es es' : List (Entry α)) (ch : Bool)
    (hs : ∀ pkg, ∀ k ∈ suggest pkg, Tok k) (hp : ∀ prev, previous = some prev → ∀ k ∈ prev, Tok k)
    (hk : ∀ e ∈ es, ∀ k ∈ e.keywords, Tok k)
    (hparsed : ∀ e ∈ es, e.pkg ≠ none → (scan (splitComment e.raw).1).items ≠ [])
    (h : expandLoop suggest previous es = .ok (es', ch)) : ∀ e' ∈ es', ∀ k ∈ e'.keywords, Tok k := by
  induction es generalizing previous es' ch with
  | nil => simp only [expandLoop] at h; cases h; intro e' he'; cases he'
  | cons e es ih =>
    have hk' : ∀ e' ∈ es, ∀ k ∈ e'.keywords, Tok k := fun e' he' => hk e' (List.mem_cons_of_mem _ he')
    have hp' : ∀ e' ∈ es, e'.pkg ≠ none → (scan (splitComment e'.raw).1).items ≠ [] :=
      fun e' he' => hparsed e' (List.mem_cons_of_mem _ he')
    simp only [expandLoop] at h
    cases hpkg : e.pkg with
    | none =>
      simp only [hpkg] at h
      cases hr : expandLoop suggest previous es with
      | error err => rw [hr] at h; cases h
      | ok r =>
        rw [hr] at h; cases h
        intro e' he'
        rcases List.mem_cons.1 he' with rfl | he'
        · exact hk e' List.mem_cons_self
        · exact ih previous r.1 r.2 hp hk' hp' (by rw [hr]) e' he'
    | some pkg =>
      simp only [hpkg] at h
      cases hkw : expandKeywords (suggest pkg) previous e.lineno e.keywords.length e.keywords with
      | error err => rw [hkw] at h; cases h
      | ok kws =>
        rw [hkw] at h
        simp only at h
        have htok := expandKeywords_tok _ _ _ _ _ _ hkw (hs pkg) hp (hk e List.mem_cons_self)
        have hprev : ∀ prev, some kws = some prev → ∀ k ∈ prev, Tok k := by
          intro prev hprev; cases hprev; exact htok
        by_cases hne : kws ≠ e.keywords
        · simp only [hne, ne_eq, not_false_eq_true, if_true] at h
          cases hr : expandLoop suggest (some kws) es with
          | error err => rw [hr] at h; cases h
          | ok r =>
            rw [hr] at h; cases h
            intro e' he'
            rcases List.mem_cons.1 he' with rfl | he'
            · have hpne : e.pkg ≠ none := by rw [hpkg]; simp
              rw [withKeywords_keywords_of_parsed e kws (hparsed e List.mem_cons_self) hpne]
              exact htok
            · exact ih (some kws) r.1 r.2 hprev hk' hp' (by rw [hr]) e' he'
        · have heq : kws = e.keywords := Classical.not_not.1 hne
          simp only [heq, ne_eq, not_true_eq_false, if_false] at h
          cases hr : expandLoop suggest (some e.keywords) es with
          | error err => rw [hr] at h; cases h
          | ok r =>
            rw [hr] at h; cases h
            intro e' he'
            rcases List.mem_cons.1 he' with rfl | he'
            · exact hk e' List.mem_cons_self
            · exact ih (some e.keywords) r.1 r.2 (heq ▸ hprev) hk' hp' (by rw [hr]) e' he'

theorem parseLines_mem (parseAtom : Str → Option α) (n : Nat) (lines : List Str) (es : List (Entry α))
    (h : parseLines parseAtom n lines = .ok es) : ∀ e ∈ es, ∃ k line, parseLine parseAtom k line = some e := by
  induction lines generalizing n es with
  | nil => cases h; intro e he; cases he
  | cons l ls ih =>
    unfold parseLines at h
    cases hl : parseLine parseAtom n l with
    | none => rw [hl] at h; cases h
    | some e0 =>
      rw [hl] at h
      simp only at h
      cases hr : parseLines parseAtom (n + 1) ls with
      | error k => rw [hr] at h; cases h
      | ok es' =>
        rw [hr] at h; cases h
        intro e he
        rcases List.mem_cons.1 he with rfl | he
        · exact ⟨n, l, hl⟩
        · exact ih (n + 1) es' hr e he

/-! ## building a list -/

theorem rstrip_of_last (p : Char → Bool) (s : Str) (c : Char) (hl : s.getLast? = some c) (hc : p c = false) :
    rstrip p s = s := by
  unfold rstrip
  have hne : s ≠ [] := by rintro rfl; cases hl
  have : s.reverse = c :: s.dropLast.reverse := by
    have h1 := List.getLast?_eq_some_getLast hne
    rw [hl] at h1
    cases h1
    conv => lhs; rw [← List.dropLast_concat_getLast hne]
    simp
  rw [this, List.dropWhile_cons]
  simp only [hc, Bool.false_eq_true, if_false]
  rw [← this, List.reverse_reverse]

theorem rstrip_append_one (p : Char → Bool) (s : Str) (c d : Char) (hl : s.getLast? = some c) (hc : p c = false)
    (hd : p d = true) : rstrip p (s ++ [d]) = s := by
  unfold rstrip
  simp only [List.reverse_append, List.reverse_cons, List.reverse_nil, List.nil_append, List.cons_append,
    List.dropWhile_cons, hd, if_true]
  exact rstrip_of_last p s c hl hc

/-- no line boundary inside -/
def BreakFree (l : Str) : Prop := ∀ c ∈ l, isBreak c = false

theorem splitLines_breakFree_append (l r : Str) (h : BreakFree l) :
    splitLines (l ++ r) = match splitLines r with
      | [] => if l = [] then [] else [l]
      | x :: xs => (l ++ x) :: xs := by
  induction l with
  | nil => cases hr : splitLines r <;> simp [hr]
  | cons c cs ih =>
    have hc : isBreak c = false := h c List.mem_cons_self
    have ih' := ih (fun x hx => h x (List.mem_cons_of_mem _ hx))
    simp only [List.cons_append]
    rw [splitLines, ih']
    cases hr : splitLines r with
    | nil =>
      by_cases hcs : cs = []
      · subst hcs; simp
      · simp [hcs, hc]
    | cons x xs => simp [hc]

theorem splitLines_nl (r : Str) : splitLines ('\n' :: r) = ['\n'] :: splitLines r := by
  rw [splitLines]
  cases hr : splitLines r with
  | nil => rfl
  | cons l ls =>
    have : isBreak '\n' = true := nl_is_break
    simp [this]

/-- the lines `"\n".join(lines)` splits into -/
def nlLines : List Str → List Str
  | [] => []
  | [l] => [l]
  | l :: ls => (l ++ ['\n']) :: nlLines ls

theorem splitLines_joinNl (lines : List Str) (h : ∀ l ∈ lines, l ≠ [] ∧ BreakFree l) :
    splitLines (joinNl lines) = nlLines lines := by
  induction lines with
  | nil => rfl
  | cons l ls ih =>
    have hl := h l List.mem_cons_self
    have ih' := ih (fun x hx => h x (List.mem_cons_of_mem _ hx))
    cases ls with
    | nil =>
      have := splitLines_breakFree_append l [] hl.2
      simp only [List.append_nil] at this
      simp [joinNl, nlLines, this, splitLines, hl.1]
    | cons l2 ls2 =>
      simp only [joinNl, nlLines]
      rw [splitLines_breakFree_append l _ hl.2, splitLines_nl, ih']

theorem joinSp_spec (spec : Str) (kws : List Str) :
    joinSp (spec :: kws) = Segs.render ⟨([], spec) :: kwItems [' '] kws, []⟩ := by
  rw [render_kwItems]
  cases kws with
  | nil => simp [joinSp]
  | cons k ks => simp [joinSp]

/-- a built line: the spec and the keywords separated by single spaces -/
theorem built_line_wf (spec : Str) (kws : List Str) (hs : Tok spec) (hk : ∀ k ∈ kws, Tok k) :
    Segs.WF ⟨([], spec) :: kwItems [' '] kws, []⟩ ∧
    (∀ it ∈ (([] : Str), spec) :: kwItems [' '] kws, it.2.head? ≠ some '#') := by
  have hkw : ∀ it ∈ kwItems [' '] kws, it.1 = [' '] ∧ Tok it.2 := by
    intro it hit
    cases kws with
    | nil => cases hit
    | cons k ks =>
      simp only [kwItems, List.mem_cons, List.mem_map] at hit
      rcases hit with rfl | ⟨k', hk', rfl⟩
      · exact ⟨rfl, hk k List.mem_cons_self⟩
      · exact ⟨rfl, hk k' (List.mem_cons_of_mem _ hk')⟩
  refine ⟨⟨?_, ?_, ?_, by intro c hc; cases hc⟩, ?_⟩
  · intro it hit
    rcases List.mem_cons.1 hit with rfl | hit
    · intro c hc; cases hc
    · rw [(hkw it hit).1]
      intro c hc
      simp only [List.mem_cons, List.not_mem_nil, or_false] at hc
      subst hc; exact space_is_space
  · intro it hit
    rcases List.mem_cons.1 hit with rfl | hit
    · exact ⟨hs.1, hs.2.1⟩
    · exact ⟨(hkw it hit).2.1, (hkw it hit).2.2.1⟩
  · intro it hit
    simp only [List.tail_cons] at hit
    rw [(hkw it hit).1]; simp
  · intro it hit
    rcases List.mem_cons.1 hit with rfl | hit
    · exact hs.2.2
    · exact (hkw it hit).2.2.2

theorem render_last_nonspace (spec : Str) (kws : List Str) (hs : Tok spec) (hk : ∀ k ∈ kws, Tok k) :
    ∃ c, (joinSp (spec :: kws)).getLast? = some c ∧ isSpace c = false := by
  induction kws generalizing spec with
  | nil =>
    simp only [joinSp]
    have hne := hs.1
    exact ⟨spec.getLast hne, List.getLast?_eq_some_getLast hne, hs.2.1 _ (List.getLast_mem hne)⟩
  | cons k ks ih =>
    obtain ⟨c, hc1, hc2⟩ := ih k (hk k List.mem_cons_self) (fun k' hk' => hk k' (List.mem_cons_of_mem _ hk'))
    refine ⟨c, ?_, hc2⟩
    simp only [joinSp]
    have hne : joinSp (k :: ks) ≠ [] := by rintro h; rw [h] at hc1; cases hc1
    rw [show spec ++ ' ' :: joinSp (k :: ks) = (spec ++ [' ']) ++ joinSp (k :: ks) by simp,
      List.getLast?_append, hc1]
    rfl

theorem kwItems_map_snd (sep : Str) (kws : List Str) : (kwItems sep kws).map (·.2) = kws := by
  cases kws with
  | nil => rfl
  | cons k ks => simp [kwItems, Function.comp_def]

theorem isCRLF_space (c : Char) (h : isCRLF c = true) : isSpace c = true := by
  simp only [isCRLF, Bool.or_eq_true, decide_eq_true_eq] at h
  rcases h with rfl | rfl <;> decide

theorem joinSp_breakFree (toks : List Str) (h : ∀ t ∈ toks, ∀ c ∈ t, isSpace c = false) : BreakFree (joinSp toks) := by
  have hns : ∀ c, isSpace c = false → isBreak c = false := by
    intro c hc
    cases hb : isBreak c with
    | false => rfl
    | true => rw [break_is_space c hb] at hc; cases hc
  induction toks with
  | nil => intro c hc; cases hc
  | cons t ts ih =>
    have ht := h t List.mem_cons_self
    have ih' := ih (fun t' ht' => h t' (List.mem_cons_of_mem _ ht'))
    cases ts with
    | nil => intro c hc; exact hns c (ht c hc)
    | cons t2 ts2 =>
      intro c hc
      simp only [joinSp, List.mem_append, List.mem_cons] at hc
      rcases hc with hc | rfl | hc
      · exact hns c (ht c hc)
      · decide
      · exact ih' c hc

/-- parsing one line written by `build` -/
theorem parseLine_built (parseAtom : Str → Option α) (n : Nat) (spec : Str) (kws : List Str) (pkg : α)
    (hs : Tok spec) (hk : ∀ k ∈ kws, Tok k) (hp : parseAtom spec = some pkg) (eol : Str)
    (heol : eol = [] ∨ eol = ['\n']) :
    parseLine parseAtom n (joinSp (spec :: kws) ++ eol)
      = some ⟨n, joinSp (spec :: kws), some pkg, kws, [], eol⟩ := by
  obtain ⟨c, hc1, hc2⟩ := render_last_nonspace spec kws hs hk
  have hcrlf : isCRLF c = false := by
    cases h : isCRLF c with
    | false => rfl
    | true => rw [isCRLF_space c h] at hc2; cases hc2
  have hraw : rstrip isCRLF (joinSp (spec :: kws) ++ eol) = joinSp (spec :: kws) := by
    rcases heol with rfl | rfl
    · rw [List.append_nil]; exact rstrip_of_last _ _ c hc1 hcrlf
    · exact rstrip_append_one _ _ c '\n' hc1 hcrlf (by decide)
  obtain ⟨hwf, hheads⟩ := built_line_wf spec kws hs hk
  have hsc : splitComment (joinSp (spec :: kws)) = (joinSp (spec :: kws), []) := by
    rw [joinSp_spec]; exact (splitCommentAux_render _ hwf hheads true).1
  have htok : tokens (joinSp (spec :: kws)) = spec :: kws := by
    unfold tokens
    rw [joinSp_spec, scan_of_wf _ hwf]
    simp [kwItems_map_snd]
  unfold parseLine
  simp only [hraw, hsc, List.isEmpty_nil, if_true, htok, hp, List.drop_left]

theorem Forall2.imp {β γ : Type} {R S : β → γ → Prop} {l₁ : List β} {l₂ : List γ}
    (h : Forall2 R l₁ l₂) (hi : ∀ a b, a ∈ l₁ → b ∈ l₂ → R a b → S a b) : Forall2 S l₁ l₂ := by
  induction h with
  | nil => exact Forall2.nil
  | cons hab _ ih =>
    exact Forall2.cons (hi _ _ List.mem_cons_self List.mem_cons_self hab)
      (ih (fun a b ha hb => hi a b (List.mem_cons_of_mem _ ha) (List.mem_cons_of_mem _ hb)))

theorem Forall2.length_eq {β γ : Type} {R : β → γ → Prop} {l₁ : List β} {l₂ : List γ}
    (h : Forall2 R l₁ l₂) : l₁.length = l₂.length := by
  induction h with
  | nil => rfl
  | cons _ _ ih => simp [ih]

end Pkgcore.C38
