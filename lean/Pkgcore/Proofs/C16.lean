import Pkgcore.Spec.C16
import Pkgcore.Proofs.C01
/-!
# C16 — helper lemmas

Generic part: for a comparison `cmp` that is a total preorder on the elements satisfying `P`
(`Laws`), the stable descending sort `sortDesc` and the merge `iterSort` (fed with descending streams) return a
descending permutation of their input; a descending list is determined by its elements when no two of them
compare equal.  Specific part: `fHighest` and `cmpPkg` are such comparisons on well-formed candidates (through
C01's order embedding `key`), and what `fHighest` says in terms of the PMS order.
-/
namespace Pkgcore.C16
open List

/-! ## generic: sorting and merging with a total preorder -/

structure Laws {α} (P : α → Prop) (cmp : α → α → Ordering) : Prop where
  swap : ∀ x y, P x → P y → cmp x y = (cmp y x).swap
  trans : ∀ x y z, P x → P y → P z → cmp x y ≠ .lt → cmp y z ≠ .lt → cmp x z ≠ .lt

/-- descending: every element is not less than every later one -/
def Desc {α} (cmp : α → α → Ordering) (l : List α) : Prop := l.Pairwise fun a b => cmp a b ≠ .lt

variable {α : Type} {P : α → Prop} {cmp : α → α → Ordering}

theorem insertDesc_perm (cmp : α → α → Ordering) (a : α) (l : List α) : insertDesc cmp a l ~ a :: l := by
  induction l with
  | nil => exact .refl _
  | cons b l ih =>
    simp only [insertDesc]
    split
    · exact ((ih.cons b).trans (.swap a b l))
    · exact .refl _

theorem sortDesc_perm (cmp : α → α → Ordering) (l : List α) : sortDesc cmp l ~ l := by
  induction l with
  | nil => exact .refl _
  | cons a l ih => exact (insertDesc_perm cmp a _).trans (ih.cons a)

theorem insertDesc_desc (L : Laws P cmp) {a : α} {l : List α} (ha : P a) (hl : ∀ x ∈ l, P x) (d : Desc cmp l) :
    Desc cmp (insertDesc cmp a l) := by
  induction l with
  | nil => simp [insertDesc, Desc]
  | cons b l ih =>
    have hb : P b := hl b (by simp)
    have hl' : ∀ x ∈ l, P x := fun x hx => hl x (by simp [hx])
    obtain ⟨hbl, dl⟩ := List.pairwise_cons.mp d
    simp only [insertDesc]
    split
    · rename_i hgt
      have hgt' : cmp b a = .gt := by simpa using hgt
      refine List.pairwise_cons.mpr ⟨?_, ih hl' dl⟩
      intro x hx
      rcases (List.mem_cons.mp ((insertDesc_perm cmp a l).mem_iff.mp hx)) with rfl | hx
      · rw [hgt']; decide
      · exact hbl x hx
    · rename_i hngt
      have hab : cmp a b ≠ .lt := by
        rw [L.swap a b ha hb]
        intro h
        have : cmp b a = .gt := by cases hc : cmp b a <;> simp_all [Ordering.swap]
        exact hngt (by simp [this])
      refine List.pairwise_cons.mpr ⟨?_, d⟩
      intro x hx
      rcases List.mem_cons.mp hx with rfl | hx
      · exact hab
      · exact L.trans a b x ha hb (hl' x hx) hab (hbl x hx)

theorem sortDesc_desc (L : Laws P cmp) {l : List α} (hl : ∀ x ∈ l, P x) : Desc cmp (sortDesc cmp l) := by
  induction l with
  | nil => simp [sortDesc, Desc]
  | cons a l ih =>
    have hl' : ∀ x ∈ l, P x := fun x hx => hl x (by simp [hx])
    exact insertDesc_desc L (hl a (by simp)) (fun x hx => hl' x ((sortDesc_perm cmp l).mem_iff.mp hx)) (ih hl')

/-- a descending list is determined by its elements when distinct elements never compare equal -/
theorem desc_unique (L : Laws P cmp) {l₁ l₂ : List α} (h : l₁ ~ l₂) (hp : ∀ x ∈ l₁, P x)
    (strict : ∀ x ∈ l₁, ∀ y ∈ l₁, cmp x y = .eq → x = y) (d₁ : Desc cmp l₁) (d₂ : Desc cmp l₂) : l₁ = l₂ := by
  induction l₁ generalizing l₂ with
  | nil => exact (List.perm_nil.mp h.symm).symm
  | cons a l ih =>
    cases l₂ with
    | nil => exact absurd h.length_eq (by simp)
    | cons b l' =>
      obtain ⟨hal, dl⟩ := List.pairwise_cons.mp d₁
      obtain ⟨hbl, dl'⟩ := List.pairwise_cons.mp d₂
      have hab : a = b := by
        have hb_mem : b ∈ a :: l := h.mem_iff.mpr (by simp)
        have ha_mem : a ∈ b :: l' := h.mem_iff.mp (by simp)
        rcases List.mem_cons.mp hb_mem with e | hb
        · exact e.symm
        rcases List.mem_cons.mp ha_mem with e | ha
        · exact e
        have h1 := hal b hb
        have h2 := hbl a ha
        have pa := hp a (by simp)
        have pb := hp b hb_mem
        rw [L.swap b a pb pa] at h2
        have : cmp a b = .eq := by cases hc : cmp a b <;> simp_all [Ordering.swap]
        exact strict a (by simp) b hb_mem this
      subst hab
      have hperm : l ~ l' := (List.perm_cons a).mp h
      rw [ih hperm (fun x hx => hp x (by simp [hx]))
        (fun x hx y hy => strict x (by simp [hx]) y (by simp [hy])) dl dl']

/-! ### the merge -/

def elems (l : List (α × List α)) : List α := l.flatMap fun p => p.1 :: p.2

def headCmp (cmp : α → α → Ordering) (a b : α × List α) : Ordering := cmp a.1 b.1

theorem elems_perm {l l' : List (α × List α)} (h : l ~ l') : elems l ~ elems l' := h.flatMap_right _

theorem headLaws (L : Laws P cmp) : Laws (fun p : α × List α => P p.1) (headCmp cmp) :=
  ⟨fun x y hx hy => L.swap x.1 y.1 hx hy, fun x y z hx hy hz => L.trans x.1 y.1 z.1 hx hy hz⟩

/-- invariant of the `while` loop: every stream is descending, the streams are ordered by their heads -/
structure LoopInv (P : α → Prop) (cmp : α → α → Ordering) (l : List (α × List α)) : Prop where
  p : ∀ x ∈ elems l, P x
  streams : ∀ s ∈ l, Desc cmp (s.1 :: s.2)
  heads : Desc (headCmp cmp) l

theorem mem_elems {l : List (α × List α)} {x : α} : x ∈ elems l ↔ ∃ s ∈ l, x = s.1 ∨ x ∈ s.2 := by
  simp [elems, List.mem_flatMap]

/-- the first head dominates everything that is still to come -/
theorem head_ge_all (L : Laws P cmp) {h : α} {r : List α} {l : List (α × List α)} (I : LoopInv P cmp ((h, r) :: l)) :
    ∀ x ∈ r ++ elems l, cmp h x ≠ .lt := by
  have ph : P h := I.p h (by simp [elems])
  obtain ⟨hr, _⟩ := List.pairwise_cons.mp (I.streams (h, r) (by simp))
  obtain ⟨hh, _⟩ := List.pairwise_cons.mp I.heads
  intro x hx
  rcases List.mem_append.mp hx with hx | hx
  · exact hr x hx
  · obtain ⟨s, hs, hxs⟩ := mem_elems.mp hx
    have hs1 : cmp h s.1 ≠ .lt := hh s hs
    have ps1 : P s.1 := I.p s.1 (by simp only [elems, List.flatMap_cons]; exact List.mem_append_right _ (mem_elems.mpr ⟨s, hs, .inl rfl⟩))
    rcases hxs with rfl | hxs
    · exact hs1
    · have px : P x := I.p x (by simp only [elems, List.flatMap_cons]; exact List.mem_append_right _ hx)
      obtain ⟨hsr, _⟩ := List.pairwise_cons.mp (I.streams s (by simp [hs]))
      exact L.trans h s.1 x ph ps1 px hs1 (hsr x hxs)

theorem loopInv_tail {h : α} {r : List α} {l : List (α × List α)} (I : LoopInv P cmp ((h, r) :: l)) : LoopInv P cmp l :=
  ⟨fun x hx => I.p x (by simp only [elems, List.flatMap_cons]; exact List.mem_append_right _ hx),
   fun s hs => I.streams s (by simp [hs]), (List.pairwise_cons.mp I.heads).2⟩

theorem loopInv_advance (L : Laws P cmp) {h y : α} {r : List α} {l : List (α × List α)}
    (I : LoopInv P cmp ((h, y :: r) :: l)) :
    LoopInv P cmp (sortDesc (headCmp cmp) ((y, r) :: l)) := by
  have hperm := sortDesc_perm (headCmp cmp) ((y, r) :: l)
  have pall : ∀ x ∈ elems ((y, r) :: l), P x := by
    intro x hx
    apply I.p x
    simp only [elems, List.flatMap_cons, List.mem_append, List.mem_cons] at hx ⊢
    rcases hx with (rfl | hx) | hx
    · exact .inl (.inr (.inl rfl))
    · exact .inl (.inr (.inr hx))
    · exact .inr hx
  refine ⟨fun x hx => pall x ((elems_perm hperm).mem_iff.mp hx), ?_, ?_⟩
  · intro s hs
    rcases List.mem_cons.mp (hperm.mem_iff.mp hs) with rfl | hs
    · exact (List.pairwise_cons.mp (I.streams (h, y :: r) (by simp))).2
    · exact I.streams s (by simp [hs])
  · apply sortDesc_desc (headLaws L)
    intro s hs
    apply pall
    exact mem_elems.mpr ⟨s, hs, .inl rfl⟩

theorem loop_nil (sorter : List (α × List α) → List (α × List α)) (n : Nat) : iterSortLoop sorter n [] = [] := by
  cases n <;> rfl

/-- **the loop of `iter_sort`** yields a descending permutation of everything in its streams -/
theorem loop_spec (L : Laws P cmp) : ∀ (n : Nat) (l : List (α × List α)), (elems l).length ≤ n → LoopInv P cmp l →
    iterSortLoop (sortDesc (headCmp cmp)) n l ~ elems l ∧ Desc cmp (iterSortLoop (sortDesc (headCmp cmp)) n l) := by
  intro n
  induction n with
  | zero =>
    intro l hn _
    have : elems l = [] := List.length_eq_zero_iff.mp (Nat.le_zero.mp hn)
    simp [iterSortLoop, this, Desc]
  | succ n ih =>
    intro l hn I
    match l, hn, I with
    | [], _, _ => simp [iterSortLoop, elems, Desc]
    | (h, y :: r) :: l, hn, I =>
      have I' := loopInv_advance L I
      have hperm := sortDesc_perm (headCmp cmp) ((y, r) :: l)
      have hlen : (elems (sortDesc (headCmp cmp) ((y, r) :: l))).length ≤ n := by
        rw [(elems_perm hperm).length_eq]
        simp only [elems, List.flatMap_cons, List.length_append, List.length_cons] at hn ⊢
        omega
      obtain ⟨p1, d1⟩ := ih _ hlen I'
      have hge := head_ge_all L I
      simp only [iterSortLoop]
      refine ⟨?_, List.pairwise_cons.mpr ⟨?_, d1⟩⟩
      · have : elems ((h, y :: r) :: l) = h :: elems ((y, r) :: l) := by simp [elems]
        rw [this]
        exact (p1.trans (elems_perm hperm)).cons h
      · intro x hx
        apply hge
        have := (p1.trans (elems_perm hperm)).mem_iff.mp hx
        simpa [elems] using this
    | [(h, []), (h2, r2)], _, I =>
      simp only [iterSortLoop]
      refine ⟨by simp [elems], List.pairwise_cons.mpr ⟨?_, ?_⟩⟩
      · have := head_ge_all L I
        intro x hx; apply this; simpa [elems] using hx
      · exact I.streams (h2, r2) (by simp)
    | [(h, [])], hn, I =>
      simp [iterSortLoop, elems, Desc, loop_nil]
    | (h, []) :: a :: b :: l, hn, I =>
      have I' := loopInv_tail I
      have hlen : (elems (a :: b :: l)).length ≤ n := by
        simp only [elems, List.flatMap_cons, List.length_append, List.length_cons, List.length_nil] at hn ⊢
        omega
      obtain ⟨p1, d1⟩ := ih _ hlen I'
      have hge := head_ge_all L I
      simp only [iterSortLoop]
      refine ⟨?_, List.pairwise_cons.mpr ⟨?_, d1⟩⟩
      · have : elems ((h, []) :: a :: b :: l) = h :: elems (a :: b :: l) := by simp [elems]
        rw [this]; exact p1.cons h
      · intro x hx
        apply hge
        simpa using p1.mem_iff.mp hx

theorem heads_elems (its : List (List α)) : elems (heads its) = its.flatten := by
  induction its with
  | nil => simp [heads, elems]
  | cons it its ih =>
    cases it with
    | nil => simpa [heads, elems] using ih
    | cons x xs =>
      simp only [heads, List.filterMap_cons, elems, List.flatMap_cons, List.flatten_cons] at ih ⊢
      rw [ih]

theorem heads_streams {its : List (List α)} (h : ∀ it ∈ its, Desc cmp it) : ∀ s ∈ heads its, Desc cmp (s.1 :: s.2) := by
  intro s hs
  simp only [heads, List.mem_filterMap] at hs
  obtain ⟨it, hit, e⟩ := hs
  cases it with
  | nil => cases e
  | cons x xs => simp only [Option.some.injEq] at e; subst e; exact h _ hit

/-- **`iter_sort`** fed with descending iterables yields a descending permutation of all their elements -/
theorem iterSort_spec (L : Laws P cmp) {its : List (List α)} (hp : ∀ it ∈ its, ∀ x ∈ it, P x)
    (hd : ∀ it ∈ its, Desc cmp it) :
    iterSort (sortDesc (headCmp cmp)) its ~ its.flatten ∧ Desc cmp (iterSort (sortDesc (headCmp cmp)) its) := by
  have pall : ∀ x ∈ elems (heads its), P x := by
    intro x hx
    rw [heads_elems] at hx
    obtain ⟨it, hit, hx⟩ := List.mem_flatten.mp hx
    exact hp it hit x hx
  have hst := heads_streams hd
  have general : iterSortLoop (sortDesc (headCmp cmp)) ((its.map List.length).sum + 1) (sortDesc (headCmp cmp) (heads its))
      ~ its.flatten ∧ Desc cmp (iterSortLoop (sortDesc (headCmp cmp)) ((its.map List.length).sum + 1) (sortDesc (headCmp cmp) (heads its))) := by
    have hperm := sortDesc_perm (headCmp cmp) (heads its)
    have I : LoopInv P cmp (sortDesc (headCmp cmp) (heads its)) :=
      ⟨fun x hx => pall x ((elems_perm hperm).mem_iff.mp hx), fun s hs => hst s (hperm.mem_iff.mp hs),
       sortDesc_desc (headLaws L) fun s hs => pall s.1 (mem_elems.mpr ⟨s, hs, .inl rfl⟩)⟩
    have hlen : (elems (sortDesc (headCmp cmp) (heads its))).length ≤ (its.map List.length).sum + 1 := by
      rw [(elems_perm hperm).length_eq, heads_elems, List.length_flatten]; omega
    obtain ⟨p1, d1⟩ := loop_spec L _ _ hlen I
    refine ⟨?_, d1⟩
    rw [← heads_elems]
    exact p1.trans (elems_perm hperm)
  unfold iterSort
  split
  · rename_i h r hh
    have e : its.flatten = h :: r := by rw [← heads_elems, hh]; simp [elems]
    rw [e]
    exact ⟨.refl _, by simpa [hh] using hst (h, r) (by simp [hh])⟩
  · exact general

/-! ## specific: the resolver's comparators on well-formed candidates -/

open Pkgcore.C01 Pkgcore.C01.Spec Std
attribute [local instance] lexOrd

theorem cmpPkg_eq_pms (x y : Cand) : cmpPkg x y = pms x y :=
  verCmp_eq_pms_aux x.ver y.ver (some x.rev) (some y.rev) (Or.inr ⟨rfl, rfl⟩)

theorem fHighest_eq (x y : Cand) : fHighest x y = (pms x y).then (compare x.livefs y.livefs) := by
  unfold fHighest
  rw [cmpPkg_eq_pms]
  cases pms x y <;> cases x.livefs <;> cases y.livefs <;> decide

/-- order embedding: PMS key of the version, then `livefs` (`false < true`) -/
def K (x : Cand) : Key × Bool := (key x.ver (some x.rev), x.livefs)

theorem fHighest_key (x y : Cand) (hx : CandWF x) (hy : CandWF y) : fHighest x y = compare (K x) (K y) := by
  rw [fHighest_eq, pms, pmsCmp_eq_key _ _ _ _ hx hy]
  exact (lex_pair _ _ _ _).symm

theorem cmpPkg_key (x y : Cand) (hx : CandWF x) (hy : CandWF y) :
    cmpPkg x y = compare (key x.ver (some x.rev)) (key y.ver (some y.rev)) := by
  rw [cmpPkg_eq_pms, pms, pmsCmp_eq_key _ _ _ _ hx hy]

theorem ne_lt_iff_swap_isLE (o : Ordering) : o ≠ .lt ↔ o.swap.isLE = true := by cases o <;> decide

theorem laws_of_key {κ} [Ord κ] [TransCmp (compare : κ → κ → Ordering)] (k : Cand → κ) (c : Cand → Cand → Ordering)
    (h : ∀ x y, CandWF x → CandWF y → c x y = compare (k x) (k y)) : Laws CandWF c where
  swap x y hx hy := by rw [h x y hx hy, h y x hy hx]; exact OrientedCmp.eq_swap
  trans x y z hx hy hz h1 h2 := by
    rw [h x y hx hy, ne_lt_iff_swap_isLE, ← OrientedCmp.eq_swap] at h1
    rw [h y z hy hz, ne_lt_iff_swap_isLE, ← OrientedCmp.eq_swap] at h2
    rw [h x z hx hz, ne_lt_iff_swap_isLE, ← OrientedCmp.eq_swap]
    exact TransCmp.isLE_trans h2 h1

theorem lawsHighest : Laws CandWF fHighest := laws_of_key K fHighest fHighest_key
theorem lawsPkg : Laws CandWF cmpPkg := laws_of_key (fun x => key x.ver (some x.rev)) cmpPkg cmpPkg_key

/-- the code's comparator says exactly what the specification's `Before` says -/
theorem fHighest_ne_lt_iff (x y : Cand) : fHighest x y ≠ .lt ↔ Before x y := by
  rw [fHighest_eq, Before]
  cases pms x y <;> cases x.livefs <;> cases y.livefs <;> decide

theorem desc_iff_ordered (l : List Cand) : Desc fHighest l ↔ UpgradeOrdered l := by
  unfold Desc UpgradeOrdered
  constructor <;> intro h <;> exact h.imp fun {a b} hab => by first | exact (fHighest_ne_lt_iff a b).mp hab | exact (fHighest_ne_lt_iff a b).mpr hab

/-- a repository's own stream (sorted by version only) is also descending for `highest_iter_sort`'s comparator,
because all its packages share `repo.livefs` -/
theorem repoStream_desc {r : Repo} (hw : ∀ c ∈ r, CandWF c) (ho : RepoOk r) : Desc fHighest (repoStream r) := by
  have hperm := sortDesc_perm cmpPkg r
  have d : Desc cmpPkg (repoStream r) := sortDesc_desc lawsPkg hw
  unfold Desc at d ⊢
  refine List.Pairwise.imp_of_mem ?_ d
  intro a b ha hb hab
  have e : a.livefs = b.livefs := ho a (hperm.mem_iff.mp ha) b (hperm.mem_iff.mp hb)
  rw [cmpPkg_eq_pms] at hab
  rw [fHighest_eq, e]
  cases hp : pms a b <;> cases b.livefs <;> simp_all [Ordering.then]

theorem highestSorter_eq : highestSorter = sortDesc (headCmp fHighest) := rfl

/-- **every `multiplex_sorting_repo(highest_iter_sort, repos)` stream** is a permutation of the candidates, ordered by the policy -/
theorem merged_spec {dbs : List Repo} (hw : ∀ r ∈ dbs, ∀ c ∈ r, CandWF c) (ho : ∀ r ∈ dbs, RepoOk r) :
    iterSort highestSorter (dbs.map repoStream) ~ dbs.flatten ∧ UpgradeOrdered (iterSort highestSorter (dbs.map repoStream)) := by
  rw [highestSorter_eq]
  have hp : ∀ it ∈ dbs.map repoStream, ∀ x ∈ it, CandWF x := by
    intro it hit x hx
    obtain ⟨r, hr, rfl⟩ := List.mem_map.mp hit
    exact hw r hr x ((sortDesc_perm cmpPkg r).mem_iff.mp hx)
  have hd : ∀ it ∈ dbs.map repoStream, Desc fHighest it := by
    intro it hit
    obtain ⟨r, hr, rfl⟩ := List.mem_map.mp hit
    exact repoStream_desc (hw r hr) (ho r hr)
  obtain ⟨p1, d1⟩ := iterSort_spec lawsHighest hp hd
  refine ⟨p1.trans ?_, (desc_iff_ordered _).mp d1⟩
  clear p1 d1 hp hd hw ho
  induction dbs with
  | nil => exact .refl _
  | cons r dbs ih =>
    simp only [List.map_cons, List.flatten_cons]
    exact (sortDesc_perm cmpPkg r).append ih

theorem preferLivefs_perm (dbs : List Repo) : preferLivefs dbs ~ dbs := by
  unfold preferLivefs
  induction dbs with
  | nil => exact .refl _
  | cons r dbs ih =>
    simp only [List.filter_cons]
    cases isLivefs r
    · simp only [Bool.false_eq_true, if_false, Bool.not_false, if_true]
      exact (List.perm_middle).trans (ih.cons r)
    · simp only [if_true, Bool.not_true, Bool.false_eq_true, if_false, List.cons_append]
      exact ih.cons r

end Pkgcore.C16
