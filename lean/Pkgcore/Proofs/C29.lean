import Pkgcore.Spec.C29
/-! # C29 helper lemmas: crash states, operations confined to hidden names, the individual routines -/
namespace Pkgcore.C29
open Pkgcore.C29.Spec

/-! ## crash states = prefixes -/

theorem run_append (a b : List Op) (st : Store) : run (a ++ b) st = run b (run a st) := by
  simp [run, List.foldl_append]

theorem run_cons (op : Op) (ops : List Op) (st : Store) : run (op :: ops) st = run ops (step st op) := rfl

theorem self_mem_states (ops : List Op) (st : Store) : st ∈ states ops st := by
  cases ops <;> simp [states]

theorem run_mem_states (ops : List Op) (st : Store) : run ops st ∈ states ops st := by
  induction ops generalizing st with
  | nil => simp [states, run]
  | cons op ops ih => rw [run_cons]; simp only [states, List.mem_cons]; exact Or.inr (ih _)

theorem mem_states_append (A B : List Op) (st s : Store) :
    s ∈ states (A ++ B) st ↔ s ∈ states A st ∨ s ∈ states B (run A st) := by
  induction A generalizing st with
  | nil =>
    simp only [List.nil_append, states, List.mem_singleton, run, List.foldl_nil]
    constructor
    · exact Or.inr
    · rintro (rfl | h)
      · exact self_mem_states B _
      · exact h
  | cons op A ih =>
    simp only [List.cons_append, states, List.mem_cons, ih, run_cons]
    exact or_assoc.symm

theorem mem_states_iff_prefix (ops : List Op) (st s : Store) :
    s ∈ states ops st ↔ ∃ k, k ≤ ops.length ∧ s = run (ops.take k) st := by
  induction ops generalizing st with
  | nil => simp [states, run]
  | cons op ops ih =>
    simp only [states, List.mem_cons, ih, List.length_cons]
    constructor
    · rintro (rfl | ⟨k, hk, rfl⟩)
      · exact ⟨0, by omega, rfl⟩
      · exact ⟨k + 1, by omega, rfl⟩
    · rintro ⟨k, hk, rfl⟩
      cases k with
      | zero => exact Or.inl rfl
      | succ k => exact Or.inr ⟨k, by omega, rfl⟩

/-! ## operations confined to a set of names -/

theorem upd_ne (st : Store) (n m : Name) (v : Option Obj) (h : m ≠ n) : upd st n v m = st m := by simp [upd, h]
theorem upd_eq (st : Store) (n : Name) (v : Option Obj) : upd st n v n = v := by simp [upd]

/-- the operation touches entry `n` only -/
def OnlyOn (n : Name) : Op → Prop
  | .noop _ => True
  | .mkdir m | .rmdir m | .unlink m => m = n
  | .put m _ _ | .del m _ => m = n
  | .write m _ => m = n
  | .rename _ _ => False

/-- every entry the operation touches is hidden from listings -/
def HiddenOnly (h : Name → Bool) : Op → Prop
  | .noop _ => True
  | .mkdir m | .rmdir m | .unlink m => h m = true
  | .put m _ _ | .del m _ => h m = true
  | .write m _ => h m = true
  | .rename a b => h a = true ∧ h b = true

theorem hiddenOnly_of_onlyOn (h : Name → Bool) (n : Name) (hn : h n = true) (op : Op) (ho : OnlyOn n op) : HiddenOnly h op := by
  cases op <;> simp only [OnlyOn, HiddenOnly] at ho ⊢ <;> first | trivial | (subst ho; exact hn) | exact ho.elim

theorem modify_ne (st : Store) (n m : Name) (f : Option Obj → Option Obj) (h : m ≠ n) : modify st n f m = st m := by
  simp [modify, h]
theorem modify_eq (st : Store) (n : Name) (f : Option Obj → Option Obj) : modify st n f n = f (st n) := by
  simp [modify]

theorem step_onlyOn (n m : Name) (op : Op) (st : Store) (ho : OnlyOn n op) (hm : m ≠ n) : step st op m = st m := by
  cases op <;> simp only [OnlyOn] at ho
  case noop => rfl
  all_goals subst ho
  all_goals exact modify_ne _ _ _ _ hm

theorem run_onlyOn (n m : Name) (ops : List Op) (st : Store) (ho : ∀ op ∈ ops, OnlyOn n op) (hm : m ≠ n) :
    run ops st m = st m := by
  induction ops generalizing st with
  | nil => rfl
  | cons op ops ih =>
    rw [run_cons, ih _ (fun o h => ho o (List.mem_cons_of_mem _ h)), step_onlyOn n m op st (ho op List.mem_cons_self) hm]

/-- the two stores agree on every entry that is not hidden -/
def VisEq (h : Name → Bool) (st st' : Store) : Prop := ∀ n, h n = false → st' n = st n

theorem step_hiddenOnly (h : Name → Bool) (st : Store) (op : Op) (ho : HiddenOnly h op) : VisEq h st (step st op) := by
  intro n hn
  cases op <;> simp only [HiddenOnly] at ho
  case noop => rfl
  case rename a b =>
    have ha : n ≠ a := fun e => by rw [e, ho.1] at hn; cases hn
    have hb : n ≠ b := fun e => by rw [e, ho.2] at hn; cases hn
    simp only [step]
    by_cases hab : a = b
    · simp [hab]
    · simp only [hab, if_false]
      cases st a with
      | none => rfl
      | some o =>
        simp only
        by_cases hr : renameOk o (st b) = true
        · simp [hr, upd, ha, hb]
        · simp [hr]
  all_goals
    have hm : n ≠ _ := fun e => by rw [e, ho] at hn; cases hn
    exact modify_ne _ _ _ _ hm

theorem states_hiddenOnly (h : Name → Bool) (ops : List Op) (st : Store) (ho : ∀ op ∈ ops, HiddenOnly h op) :
    ∀ s ∈ states ops st, VisEq h st s := by
  induction ops generalizing st with
  | nil => intro s hs; simp [states] at hs; subst hs; intro _ _; rfl
  | cons op ops ih =>
    intro s hs
    simp only [states, List.mem_cons] at hs
    rcases hs with rfl | hs
    · intro _ _; rfl
    · intro n hn
      rw [ih _ (fun o h' => ho o (List.mem_cons_of_mem _ h')) s hs n hn]
      exact step_hiddenOnly h st op (ho op List.mem_cons_self) n hn

theorem viewVdb_congr (st st' : Store) (h : VisEq hiddenVdb st st') : viewVdb st' = viewVdb st := by
  funext n
  unfold viewVdb
  cases hn : hiddenVdb n
  · simp [h n hn]
  · simp

theorem viewBin_congr (st st' : Store) (h : VisEq hiddenBin st st') : viewBin st' = viewBin st := by
  funext n
  unfold viewBin
  cases hn : hiddenBin n
  · simp [h n hn]
  · simp

/-! ## names -/

theorem startsWith_append (p n : List Char) : startsWith p (p ++ n) = true := by
  simp [startsWith]

theorem hiddenVdb_of_tmpPrefix (n : Name) : hiddenVdb (tmpPrefix ++ n) = true := by
  unfold hiddenVdb
  have : Generated.C29.vdbSkipPrefixes.any (fun p => startsWith p.toList (tmpPrefix ++ n)) = true := by
    rw [List.any_eq_true]
    exact ⟨".tmp.", by decide, startsWith_append _ _⟩
  simp [this]

theorem hiddenVdb_tmpOf (n : Name) : hiddenVdb (tmpOf n) = true := hiddenVdb_of_tmpPrefix n
theorem hiddenVdb_hidOf (n : Name) : hiddenVdb (hidOf n) = true := by
  unfold hidOf; rw [List.append_assoc]; exact hiddenVdb_of_tmpPrefix _

theorem hiddenBin_of_tmpPrefix (n : Name) : hiddenBin (tmpPrefix ++ n) = true := by
  unfold hiddenBin
  have : Generated.C29.binSkipPrefixes.any (fun p => startsWith p.toList (tmpPrefix ++ n)) = true := by
    rw [List.any_eq_true]
    exact ⟨".tmp.", by decide, startsWith_append _ _⟩
  simp [this]

theorem hiddenBin_binTmpOf (pid : List Char) (n : Name) : hiddenBin (binTmpOf pid n) = true := by
  unfold binTmpOf; rw [List.append_assoc, List.append_assoc]; exact hiddenBin_of_tmpPrefix _

theorem tmpOf_ne (n : Name) : tmpOf n ≠ n := by
  intro h; have := congrArg List.length h; simp [tmpOf, tmpPrefix] at this; omega

theorem hidOf_ne (n : Name) : hidOf n ≠ n := by
  intro h; have := congrArg List.length h; simp [hidOf, tmpPrefix] at this; omega

theorem hidOf_ne_tmpOf (n : Name) : hidOf n ≠ tmpOf n := by
  intro h; have := congrArg List.length h; simp [hidOf, tmpOf, tmpPrefix] at this

/-! ## wiping and writing a flat directory -/

theorem filter_all_names (names : List Name) (fs : List (Name × Content)) (h : ∀ p ∈ fs, p.1 ∈ names) :
    names.foldl (fun acc f => acc.filter (fun p => p.1 ≠ f)) fs = [] := by
  induction names generalizing fs with
  | nil =>
    cases fs with
    | nil => rfl
    | cons p _ => exact absurd (h p List.mem_cons_self) (by simp)
  | cons f names ih =>
    simp only [List.foldl_cons]
    apply ih
    intro p hp
    simp only [List.mem_filter, decide_eq_true_eq] at hp
    rcases List.mem_cons.1 (h p hp.1) with e | e
    · exact absurd e hp.2
    · exact e

theorem run_dels (n : Name) (names : List Name) (st : Store) (fs : List (Name × Content)) (h : st n = some (.dir fs)) :
    run (names.map (Op.del n)) st n = some (.dir (names.foldl (fun acc f => acc.filter (fun p => p.1 ≠ f)) fs)) := by
  induction names generalizing st fs with
  | nil => simpa [run] using h
  | cons f names ih =>
    simp only [List.map_cons, run_cons, List.foldl_cons]
    apply ih
    simp [step, modify, h, delF]

theorem wipe_onlyOn (st : Store) (n : Name) : ∀ op ∈ wipeOps st n, OnlyOn n op := by
  intro op h
  unfold wipeOps at h
  split at h
  · simp only [List.mem_append, List.mem_map, List.mem_singleton] at h
    rcases h with ⟨p, _, rfl⟩ | rfl <;> simp [OnlyOn]
  · simp at h

/-- wiping a leftover (absent, or a flat directory) leaves nothing under that name -/
theorem wipe_run (st s : Store) (n : Name) (hs : s n = st n) (hok : ∀ c, st n ≠ some (.file c)) :
    run (wipeOps st n) s n = none := by
  unfold wipeOps
  cases h : st n with
  | none => simpa [run, h] using hs
  | some o =>
    cases o with
    | file c => exact absurd h (hok c)
    | dir fs =>
      simp only
      rw [run_append]
      have hmap : fs.map (fun p => Op.del n p.1) = (fs.map (·.1)).map (Op.del n) := by simp
      have := run_dels n (fs.map (·.1)) s fs (by rw [hs, h])
      rw [filter_all_names _ _ (fun p hp => List.mem_map.2 ⟨p, hp, rfl⟩)] at this
      rw [hmap]
      show modify (run _ s) n rmdirF n = none
      rw [modify_eq, this]; rfl

theorem setFile_fold_run (n : Name) (files : List (Name × Content)) (st : Store) (fs0 : List (Name × Content))
    (h : st n = some (.dir fs0)) :
    run (writeFiles n files) st n
      = some (.dir (files.foldl (fun fs p => setFile (setFile fs p.1 []) p.1 p.2) fs0)) := by
  induction files generalizing st fs0 with
  | nil => simpa [writeFiles, run] using h
  | cons p files ih =>
    simp only [writeFiles, List.flatMap_cons, List.cons_append, List.nil_append, run_cons, List.foldl_cons] at ih ⊢
    apply ih
    simp [step, modify, h, putF]

theorem writeFiles_onlyOn (n : Name) (files : List (Name × Content)) : ∀ op ∈ writeFiles n files, OnlyOn n op := by
  intro op h
  simp only [writeFiles, List.mem_flatMap, List.mem_cons, List.not_mem_nil, or_false] at h
  rcases h with ⟨p, _, rfl | rfl⟩ <;> simp [OnlyOn]

theorem addData_onlyOn (st : Store) (name : Name) (files : List (Name × Content)) :
    ∀ op ∈ vdbAddData st name files, OnlyOn (tmpOf name) op := by
  intro op h
  simp only [vdbAddData, List.mem_append, List.mem_cons, List.not_mem_nil, or_false] at h
  rcases h with (h | rfl | rfl | rfl) | h
  · exact wipe_onlyOn st _ op h
  · trivial
  · rfl
  · trivial
  · exact writeFiles_onlyOn _ _ op h

/-- after `add_data` the temp directory holds exactly the new metadata; nothing else changed -/
theorem addData_run (st : Store) (name : Name) (files : List (Name × Content))
    (hok : ∀ c, st (tmpOf name) ≠ some (.file c)) :
    run (vdbAddData st name files) st (tmpOf name) = some (.dir (written files)) ∧
    ∀ m, m ≠ tmpOf name → run (vdbAddData st name files) st m = st m := by
  refine ⟨?_, fun m hm => run_onlyOn _ m _ st (addData_onlyOn st name files) hm⟩
  unfold vdbAddData
  rw [run_append, run_append]
  have h1 := wipe_run st st (tmpOf name) rfl hok
  have h2 : run [.noop "mkdir-category".toList, .mkdir (tmpOf name), .noop "utime".toList]
      (run (wipeOps st (tmpOf name)) st) (tmpOf name) = some (.dir []) := by
    show modify (run _ st) (tmpOf name) mkdirF (tmpOf name) = _
    rw [modify_eq, h1]; rfl
  exact setFile_fold_run _ files _ [] h2

/-! ## single visible steps -/

theorem step_rename_to_absent (st : Store) (a b : Name) (o : Obj) (hab : a ≠ b) (ha : st a = some o) (hb : st b = none) :
    step st (.rename a b) = upd (upd st b (some o)) a none := by
  simp only [step, hab, if_false, ha, hb]
  cases o <;> simp [renameOk]

theorem step_rename_file_over_file (st : Store) (a b : Name) (c c' : Content) (hab : a ≠ b)
    (ha : st a = some (.file c)) (hb : st b = some (.file c')) :
    step st (.rename a b) = upd (upd st b (some (.file c))) a none := by
  simp [step, hab, ha, hb, renameOk]

/-! ## composing crash states -/

theorem forall_states_append (P : Store → Prop) (A B : List Op) (st : Store) :
    (∀ s ∈ states (A ++ B) st, P s) ↔ (∀ s ∈ states A st, P s) ∧ (∀ s ∈ states B (run A st), P s) := by
  constructor
  · intro h
    exact ⟨fun s hs => h s ((mem_states_append A B st s).2 (Or.inl hs)),
           fun s hs => h s ((mem_states_append A B st s).2 (Or.inr hs))⟩
  · rintro ⟨h1, h2⟩ s hs
    rcases (mem_states_append A B st s).1 hs with h | h
    · exact h1 s h
    · exact h2 s h

theorem forall_states_cons (P : Store → Prop) (op : Op) (B : List Op) (st : Store) :
    (∀ s ∈ states (op :: B) st, P s) ↔ P st ∧ ∀ s ∈ states B (step st op), P s := by
  simp [states]

theorem forall_states_nil (P : Store → Prop) (st : Store) : (∀ s ∈ states [] st, P s) ↔ P st := by
  simp [states]

/-- a segment confined to hidden names keeps the view at every crash state, and every visible entry -/
theorem seg_hidden_vdb (ops : List Op) (S : Store) (ho : ∀ op ∈ ops, HiddenOnly hiddenVdb op) :
    (∀ s ∈ states ops S, viewVdb s = viewVdb S) ∧ viewVdb (run ops S) = viewVdb S ∧
    ∀ n, hiddenVdb n = false → run ops S n = S n := by
  have h := states_hiddenOnly hiddenVdb ops S ho
  exact ⟨fun s hs => viewVdb_congr S s (h s hs), viewVdb_congr S _ (h _ (run_mem_states ops S)),
         h _ (run_mem_states ops S)⟩

theorem seg_hidden_bin (ops : List Op) (S : Store) (ho : ∀ op ∈ ops, HiddenOnly hiddenBin op) :
    (∀ s ∈ states ops S, viewBin s = viewBin S) ∧ viewBin (run ops S) = viewBin S ∧
    ∀ n, hiddenBin n = false → run ops S n = S n := by
  have h := states_hiddenOnly hiddenBin ops S ho
  exact ⟨fun s hs => viewBin_congr S s (h s hs), viewBin_congr S _ (h _ (run_mem_states ops S)),
         h _ (run_mem_states ops S)⟩

theorem hiddenOnly_of_all_onlyOn (h : Name → Bool) (n : Name) (hn : h n = true) (ops : List Op)
    (ho : ∀ op ∈ ops, OnlyOn n op) : ∀ op ∈ ops, HiddenOnly h op :=
  fun op hop => hiddenOnly_of_onlyOn h n hn op (ho op hop)

/-- a new entry appears by one rename from a hidden name -/
theorem view_rename_in (S : Store) (tmp name : Name) (W : List (Name × Content))
    (ht : hiddenVdb tmp = true) (hn : hiddenVdb name = false) (h1 : S tmp = some (.dir W)) (h2 : S name = none) :
    viewVdb (step S (.rename tmp name)) = addPkg (viewVdb S) name W := by
  have hne : tmp ≠ name := fun e => by rw [e, hn] at ht; cases ht
  rw [step_rename_to_absent S tmp name _ hne h1 h2]
  funext m
  unfold viewVdb addPkg
  by_cases hm : m = name
  · subst hm; simp [hn, upd, hne.symm]
  · by_cases hmt : m = tmp
    · subst hmt; simp [ht, hm]
    · simp [upd, hm, hmt]

/-- … or replaces nothing when the old one was renamed away first (same shape, kept for readability) -/
theorem view_rename_out (S : Store) (name hid : Name) (fs : List (Name × Content))
    (hh : hiddenVdb hid = true) (hn : hiddenVdb name = false) (h1 : S name = some (.dir fs)) (h2 : S hid = none) :
    viewVdb (step S (.rename name hid)) = removePkg (viewVdb S) name := by
  have hne : name ≠ hid := fun e => by rw [e, hh] at hn; cases hn
  rw [step_rename_to_absent S name hid _ hne h1 h2]
  funext m
  unfold viewVdb removePkg
  by_cases hm : m = name
  · subst hm; simp [upd]
  · by_cases hmh : m = hid
    · subst hmh; simp [hh]
    · simp [upd, hm, hmh]

theorem wipeHidden_onlyOn (st : Store) (name : Name) : ∀ op ∈ vdbWipeHidden st name, OnlyOn (hidOf name) op := by
  intro op h
  unfold vdbWipeHidden at h
  split at h
  · simp only [List.mem_append, List.mem_map, List.mem_singleton] at h
    rcases h with ⟨p, _, rfl⟩ | rfl <;> simp [OnlyOn]
  · simp at h

theorem wipeOps_congr (st s : Store) (n : Name) (h : s n = st n) : wipeOps s n = wipeOps st n := by
  unfold wipeOps; rw [h]

/-- `_hide_data`: crash states and result, from any state `S` that still has the entry and no file in the way -/
theorem hide_seg (st S : Store) (name : Name) (fs : List (Name × Content))
    (hn : hiddenVdb name = false) (hS : S name = some (.dir fs)) (hh : S (hidOf name) = st (hidOf name))
    (hok : ∀ c, st (hidOf name) ≠ some (.file c)) :
    (∀ s ∈ states (vdbHide st name) S, viewVdb s = viewVdb S ∨ viewVdb s = removePkg (viewVdb S) name) ∧
    viewVdb (run (vdbHide st name) S) = removePkg (viewVdb S) name ∧
    run (vdbHide st name) S (hidOf name) = some (.dir fs) ∧
    (∀ m, m ≠ name → m ≠ hidOf name → run (vdbHide st name) S m = S m) ∧
    run (vdbHide st name) S name = none := by
  have hhid := hiddenVdb_hidOf name
  have hw := seg_hidden_vdb (wipeOps st (hidOf name)) S
    (hiddenOnly_of_all_onlyOn _ _ hhid _ (wipe_onlyOn st _))
  have hwr := wipe_run st S (hidOf name) hh hok
  have hname : run (wipeOps st (hidOf name)) S name = some (.dir fs) := by rw [hw.2.2 name hn, hS]
  have hv := view_rename_out (run (wipeOps st (hidOf name)) S) name (hidOf name) fs hhid hn hname hwr
  rw [hw.2.1] at hv
  have hne : name ≠ hidOf name := (hidOf_ne name).symm
  unfold vdbHide
  refine ⟨?_, ?_, ?_, ?_, ?_⟩
  · rw [forall_states_append]
    refine ⟨fun s hs => Or.inl (hw.1 s hs), ?_⟩
    rw [forall_states_cons, forall_states_nil]
    exact ⟨Or.inl hw.2.1, Or.inr hv⟩
  · rw [run_append]; exact hv
  · rw [run_append]
    show step _ (.rename name (hidOf name)) (hidOf name) = _
    rw [step_rename_to_absent _ name (hidOf name) _ hne hname hwr]
    simp [upd, hne.symm]
  · intro m h1 h2
    rw [run_append]
    show step _ (.rename name (hidOf name)) m = _
    rw [step_rename_to_absent _ name (hidOf name) _ hne hname hwr]
    simp only [upd, h1, h2, if_false]
    exact run_onlyOn (hidOf name) m _ S (wipe_onlyOn st _) h2
  · rw [run_append]
    show step _ (.rename name (hidOf name)) name = _
    rw [step_rename_to_absent _ name (hidOf name) _ hne hname hwr]
    simp [upd]

/-! ## the vdb routines -/

theorem addData_seg (st : Store) (name : Name) (files : List (Name × Content))
    (hok : ∀ c, st (tmpOf name) ≠ some (.file c)) :
    (∀ s ∈ states (vdbAddData st name files) st, viewVdb s = viewVdb st) ∧
    viewVdb (run (vdbAddData st name files) st) = viewVdb st ∧
    run (vdbAddData st name files) st (tmpOf name) = some (.dir (written files)) ∧
    ∀ m, m ≠ tmpOf name → run (vdbAddData st name files) st m = st m := by
  have h := seg_hidden_vdb (vdbAddData st name files) st
    (hiddenOnly_of_all_onlyOn _ _ (hiddenVdb_tmpOf name) _ (addData_onlyOn st name files))
  have h2 := addData_run st name files hok
  exact ⟨h.1, h.2.1, h2.1, h2.2⟩

theorem vdb_install_aux (st : Store) (name : Name) (files : List (Name × Content))
    (hn : hiddenVdb name = false) (habs : st name = none) (hok : ∀ c, st (tmpOf name) ≠ some (.file c)) :
    CrashConsistent viewVdb (vdbInstall st name files) st (addPkg (viewVdb st) name (written files)) := by
  obtain ⟨ha1, ha2, ha3, ha4⟩ := addData_seg st name files hok
  have hname : run (vdbAddData st name files) st name = none := by rw [ha4 name (tmpOf_ne name).symm, habs]
  have hv := view_rename_in _ (tmpOf name) name _ (hiddenVdb_tmpOf name) hn ha3 hname
  rw [ha2] at hv
  unfold vdbInstall vdbInstallFinalize
  constructor
  · rw [forall_states_append]
    refine ⟨fun s hs => Or.inl (ha1 s hs), ?_⟩
    rw [forall_states_cons, forall_states_cons, forall_states_nil]
    exact ⟨Or.inl ha2, Or.inr hv, Or.inr hv⟩
  · rw [run_append]; exact hv

theorem wipeHidden_seg (st S : Store) (name : Name) :
    (∀ s ∈ states (vdbWipeHidden st name) S, viewVdb s = viewVdb S) ∧
    viewVdb (run (vdbWipeHidden st name) S) = viewVdb S ∧
    ∀ n, hiddenVdb n = false → run (vdbWipeHidden st name) S n = S n :=
  seg_hidden_vdb _ S (hiddenOnly_of_all_onlyOn _ _ (hiddenVdb_hidOf name) _ (wipeHidden_onlyOn st name))

/-- the hidden copy is really gone after `shutil.rmtree(tmp_remove_path)` -/
theorem wipeHidden_run (st S : Store) (name : Name) (fs : List (Name × Content))
    (h0 : st name = some (.dir fs)) (hS : S (hidOf name) = some (.dir fs)) :
    run (vdbWipeHidden st name) S (hidOf name) = none := by
  have : vdbWipeHidden st name = wipeOps S (hidOf name) := by simp [vdbWipeHidden, wipeOps, h0, hS]
  rw [this]
  exact wipe_run S S (hidOf name) rfl (by rw [hS]; intro c h; cases h)

theorem uninstallFinalize_seg (st S : Store) (name : Name) (fs : List (Name × Content))
    (hn : hiddenVdb name = false) (h0 : st name = some (.dir fs)) (hS : S name = some (.dir fs))
    (hh : S (hidOf name) = st (hidOf name)) (hok : ∀ c, st (hidOf name) ≠ some (.file c)) :
    (∀ s ∈ states (vdbUninstallFinalize st name) S, viewVdb s = viewVdb S ∨ viewVdb s = removePkg (viewVdb S) name) ∧
    viewVdb (run (vdbUninstallFinalize st name) S) = removePkg (viewVdb S) name ∧
    run (vdbUninstallFinalize st name) S (hidOf name) = none := by
  obtain ⟨hh1, hh2, hh3, _, _⟩ := hide_seg st S name fs hn hS hh hok
  have hw := wipeHidden_seg st (run (vdbHide st name) S) name
  unfold vdbUninstallFinalize
  simp only [List.append_assoc, List.singleton_append, List.cons_append]
  refine ⟨?_, ?_, ?_⟩
  · rw [forall_states_cons]
    refine ⟨Or.inl rfl, ?_⟩
    show ∀ s ∈ states (vdbHide st name ++ (vdbWipeHidden st name ++ [Op.noop "utime".toList])) S, _
    rw [forall_states_append]
    refine ⟨hh1, ?_⟩
    rw [forall_states_append]
    refine ⟨fun s hs => Or.inr (by rw [hw.1 s hs, hh2]), ?_⟩
    rw [forall_states_cons, forall_states_nil]
    exact ⟨Or.inr (by rw [hw.2.1, hh2]), Or.inr (by show viewVdb (run _ _) = _; rw [hw.2.1, hh2])⟩
  · rw [run_cons]
    show viewVdb (run (vdbHide st name ++ (vdbWipeHidden st name ++ [Op.noop "utime".toList])) S) = _
    rw [run_append, run_append]
    show viewVdb (run (vdbWipeHidden st name) _) = _
    rw [hw.2.1, hh2]
  · rw [run_cons]
    show run (vdbHide st name ++ (vdbWipeHidden st name ++ [Op.noop "utime".toList])) S (hidOf name) = _
    rw [run_append, run_append]
    show run (vdbWipeHidden st name) _ (hidOf name) = none
    exact wipeHidden_run st _ name fs h0 hh3

theorem vdb_uninstall_aux (st : Store) (name : Name) (fs : List (Name × Content))
    (hn : hiddenVdb name = false) (h0 : st name = some (.dir fs)) (hok : ∀ c, st (hidOf name) ≠ some (.file c)) :
    CrashConsistent viewVdb (vdbUninstall st name) st (removePkg (viewVdb st) name) := by
  obtain ⟨h1, h2, _⟩ := uninstallFinalize_seg st st name fs hn h0 h0 rfl hok
  unfold vdbUninstall
  constructor
  · rw [forall_states_append]
    refine ⟨h1, ?_⟩
    rw [forall_states_cons, forall_states_nil]
    exact ⟨Or.inr h2, Or.inr h2⟩
  · rw [run_append]; exact h2

theorem addPkg_removePkg {α : Type} (v : View α) (n : Name) (d : α) : addPkg (removePkg v n) n d = addPkg v n d := by
  funext m; unfold addPkg removePkg; by_cases h : m = n <;> simp [h]

theorem vdb_replace_diff_aux (st : Store) (old new : Name) (files fsO : List (Name × Content))
    (hne : old ≠ new) (ho : hiddenVdb old = false) (hn : hiddenVdb new = false)
    (h0 : st old = some (.dir fsO)) (habs : st new = none)
    (hokT : ∀ c, st (tmpOf new) ≠ some (.file c)) (hokH : ∀ c, st (hidOf old) ≠ some (.file c))
    (hth : hidOf old ≠ tmpOf new) :
    CrashConsistentVia viewVdb (vdbReplace st old new files) st
      (addPkg (viewVdb st) new (written files))
      (removePkg (addPkg (viewVdb st) new (written files)) old) := by
  obtain ⟨ha1, ha2, ha3, ha4⟩ := addData_seg st new files hokT
  let SA := run (vdbAddData st new files) st
  have hnew : SA new = none := by show run _ st new = none; rw [ha4 new (tmpOf_ne new).symm, habs]
  have hto : tmpOf new ≠ new := tmpOf_ne new
  have hv1 := view_rename_in SA (tmpOf new) new _ (hiddenVdb_tmpOf new) hn ha3 hnew
  rw [ha2] at hv1
  let S1 := step SA (.rename (tmpOf new) new)
  have hS1 : S1 = upd (upd SA new (some (.dir (written files)))) (tmpOf new) none :=
    step_rename_to_absent SA (tmpOf new) new _ hto ha3 hnew
  have hot : old ≠ tmpOf new := fun e => by rw [e, hiddenVdb_tmpOf] at ho; cases ho
  have hhn : hidOf old ≠ new := fun e => by rw [← e, hiddenVdb_hidOf] at hn; cases hn
  have hS1old : S1 old = some (.dir fsO) := by
    rw [hS1]; simp only [upd, hot, hne, if_false]; show run _ st old = _; rw [ha4 old hot, h0]
  have hS1hid : S1 (hidOf old) = st (hidOf old) := by
    rw [hS1]; simp only [upd, hth, hhn, if_false]; show run _ st (hidOf old) = _; rw [ha4 _ hth]
  obtain ⟨hu1, hu2, _⟩ := uninstallFinalize_seg st S1 old fsO ho h0 hS1old hS1hid hokH
  have hv1' : viewVdb S1 = addPkg (viewVdb st) new (written files) := hv1
  unfold vdbReplace vdbInstallFinalize
  simp only [hne, if_false]
  constructor
  · rw [forall_states_append]
    refine ⟨fun s hs => Or.inl (ha1 s hs), ?_⟩
    simp only [List.cons_append, List.nil_append]
    rw [forall_states_cons, forall_states_cons]
    refine ⟨Or.inl ha2, Or.inr (Or.inl hv1'), ?_⟩
    intro s hs
    rcases hu1 s hs with h | h
    · exact Or.inr (Or.inl (by rw [h, hv1']))
    · exact Or.inr (Or.inr (by rw [h, hv1']))
  · rw [run_append]
    simp only [List.cons_append, List.nil_append, run_cons]
    show viewVdb (run (vdbUninstallFinalize st old) S1) = _
    rw [hu2, hv1']

theorem vdb_replace_same_aux (st : Store) (name : Name) (files fsO : List (Name × Content))
    (hn : hiddenVdb name = false) (h0 : st name = some (.dir fsO))
    (hokT : ∀ c, st (tmpOf name) ≠ some (.file c)) (hokH : ∀ c, st (hidOf name) ≠ some (.file c)) :
    CrashConsistentVia viewVdb (vdbReplace st name name files) st
      (removePkg (viewVdb st) name) (addPkg (viewVdb st) name (written files)) := by
  obtain ⟨ha1, ha2, ha3, ha4⟩ := addData_seg st name files hokT
  let SA := run (vdbAddData st name files) st
  have hnt : name ≠ tmpOf name := (tmpOf_ne name).symm
  have hht : hidOf name ≠ tmpOf name := hidOf_ne_tmpOf name
  have hSAname : SA name = some (.dir fsO) := by show run _ st name = _; rw [ha4 name hnt, h0]
  have hSAhid : SA (hidOf name) = st (hidOf name) := ha4 _ hht
  obtain ⟨hh1, hh2, hh3, hh4, hh5⟩ := hide_seg st SA name fsO hn hSAname hSAhid hokH
  let SH := run (vdbHide st name) SA
  have hSHtmp : SH (tmpOf name) = some (.dir (written files)) := by
    show run _ SA (tmpOf name) = _
    rw [hh4 _ hnt.symm hht.symm]; exact ha3
  have hv := view_rename_in SH (tmpOf name) name _ (hiddenVdb_tmpOf name) hn hSHtmp hh5
  have hvSH : viewVdb SH = removePkg (viewVdb st) name := by show viewVdb (run _ SA) = _; rw [hh2, ha2]
  rw [hvSH, addPkg_removePkg] at hv
  let SF := step SH (.rename (tmpOf name) name)
  have hw := wipeHidden_seg st SF name
  have hvSF : viewVdb SF = addPkg (viewVdb st) name (written files) := hv
  unfold vdbReplace vdbInstallFinalize
  simp only [if_true, List.append_assoc, List.singleton_append, List.cons_append, List.nil_append]
  constructor
  · rw [forall_states_append]
    refine ⟨fun s hs => Or.inl (ha1 s hs), ?_⟩
    rw [forall_states_cons]
    refine ⟨Or.inl ha2, ?_⟩
    show ∀ s ∈ states (vdbHide st name ++ _) SA, _
    rw [forall_states_append]
    constructor
    · intro s hs
      rcases hh1 s hs with h | h
      · exact Or.inl (by rw [h, ha2])
      · exact Or.inr (Or.inl (by rw [h, ha2]))
    · rw [forall_states_cons, forall_states_cons]
      refine ⟨Or.inr (Or.inl hvSH), Or.inr (Or.inr hvSF), ?_⟩
      show ∀ s ∈ states (vdbWipeHidden st name ++ _) SF, _
      rw [forall_states_append]
      refine ⟨fun s hs => Or.inr (Or.inr (by rw [hw.1 s hs, hvSF])), ?_⟩
      rw [forall_states_cons, forall_states_nil]
      exact ⟨Or.inr (Or.inr (by rw [hw.2.1, hvSF])), Or.inr (Or.inr (by show viewVdb (run _ SF) = _; rw [hw.2.1, hvSF]))⟩
  · rw [run_append, run_cons]
    show viewVdb (run (vdbHide st name ++ _) SA) = _
    rw [run_append, run_cons, run_cons]
    show viewVdb (run (vdbWipeHidden st name ++ _) SF) = _
    rw [run_append]
    show viewVdb (run (vdbWipeHidden st name) SF) = _
    rw [hw.2.1, hvSF]

/-- in a same-version replace there *is* a crash state in which the package is not listed at all -/
theorem vdb_replace_same_gap_aux (st : Store) (name : Name) (files fsO : List (Name × Content))
    (hn : hiddenVdb name = false) (h0 : st name = some (.dir fsO))
    (hokT : ∀ c, st (tmpOf name) ≠ some (.file c)) (hokH : ∀ c, st (hidOf name) ≠ some (.file c)) :
    ∃ s ∈ states (vdbReplace st name name files) st, viewVdb s name = none := by
  obtain ⟨_, ha2, _, ha4⟩ := addData_seg st name files hokT
  have hnt : name ≠ tmpOf name := (tmpOf_ne name).symm
  have hSAname : run (vdbAddData st name files) st name = some (.dir fsO) := by rw [ha4 name hnt, h0]
  have hSAhid : run (vdbAddData st name files) st (hidOf name) = st (hidOf name) := ha4 _ (hidOf_ne_tmpOf name)
  obtain ⟨_, hh2, _, _, _⟩ := hide_seg st _ name fsO hn hSAname hSAhid hokH
  refine ⟨run (vdbHide st name) (run (vdbAddData st name files) st), ?_, ?_⟩
  · unfold vdbReplace
    simp only [if_true, List.append_assoc, List.singleton_append, List.cons_append]
    refine (mem_states_append _ _ st _).2 (Or.inr ?_)
    refine List.mem_cons_of_mem _ ?_
    exact (mem_states_append (vdbHide st name) _ _ _).2 (Or.inl (run_mem_states _ _))
  · rw [hh2]; simp [removePkg]

/-! ## the binpkg routines -/

theorem run_writes (tmp : Name) (cs : List Content) (c : Content) (S : Store) (hnd : ∀ fs, S tmp ≠ some (.dir fs)) :
    run ((cs ++ [c]).map (Op.write tmp)) S tmp = some (.file c) := by
  induction cs generalizing S with
  | nil =>
    show modify S tmp (writeF c) tmp = _
    rw [modify_eq]
    cases h : S tmp with
    | none => rfl
    | some o => cases o with
      | file _ => rfl
      | dir fs => exact absurd h (hnd fs)
  | cons x cs ih =>
    simp only [List.cons_append, List.map_cons, run_cons]
    apply ih
    intro fs
    show modify S tmp (writeF x) tmp ≠ _
    rw [modify_eq]
    cases h : S tmp with
    | none => simp [writeF]
    | some o => cases o with
      | file _ => simp [writeF]
      | dir fs' => exact absurd h (hnd fs')

theorem binAddData_onlyOn (tmp : Name) (pre : List Content) (c : Content) : ∀ op ∈ binAddData tmp pre c, OnlyOn tmp op := by
  intro op h
  simp only [binAddData, List.mem_append, List.mem_cons, List.not_mem_nil, or_false, List.mem_map] at h
  rcases h with (rfl | ⟨x, _, rfl⟩) | rfl <;> simp [OnlyOn]

theorem binAddData_seg (st : Store) (tmp : Name) (pre : List Content) (c : Content)
    (ht : hiddenBin tmp = true) (hnd : ∀ fs, st tmp ≠ some (.dir fs)) :
    (∀ s ∈ states (binAddData tmp pre c) st, viewBin s = viewBin st) ∧
    viewBin (run (binAddData tmp pre c) st) = viewBin st ∧
    run (binAddData tmp pre c) st tmp = some (.file c) ∧
    ∀ m, m ≠ tmp → run (binAddData tmp pre c) st m = st m := by
  have h := seg_hidden_bin (binAddData tmp pre c) st (hiddenOnly_of_all_onlyOn _ _ ht _ (binAddData_onlyOn tmp pre c))
  refine ⟨h.1, h.2.1, ?_, fun m hm => run_onlyOn tmp m _ st (binAddData_onlyOn tmp pre c) hm⟩
  unfold binAddData
  rw [run_append, run_append]
  show run ((pre ++ [c]).map (Op.write tmp)) st tmp = _
  exact run_writes tmp pre c _ hnd

theorem viewBin_rename_in (S : Store) (tmp final : Name) (c : Content)
    (ht : hiddenBin tmp = true) (hf : hiddenBin final = false) (h1 : S tmp = some (.file c))
    (h2 : S final = none ∨ ∃ c', S final = some (.file c')) :
    viewBin (step S (.rename tmp final)) = addPkg (viewBin S) final c := by
  have hne : tmp ≠ final := fun e => by rw [e, hf] at ht; cases ht
  have : step S (.rename tmp final) = upd (upd S final (some (.file c))) tmp none := by
    rcases h2 with h2 | ⟨c', h2⟩
    · exact step_rename_to_absent S tmp final _ hne h1 h2
    · exact step_rename_file_over_file S tmp final c c' hne h1 h2
  rw [this]
  funext m
  unfold viewBin addPkg
  by_cases hm : m = final
  · subst hm; simp [hf, upd, hne.symm]
  · by_cases hmt : m = tmp
    · subst hmt; simp [ht, hm]
    · simp [upd, hm, hmt]

theorem viewBin_unlink (S : Store) (n : Name) (c : Content) (h1 : S n = some (.file c)) :
    viewBin (step S (.unlink n)) = removePkg (viewBin S) n := by
  funext m
  show viewBin (modify S n unlinkF) m = _
  unfold viewBin removePkg
  by_cases hm : m = n
  · subst hm; simp [modify, h1, unlinkF]
  · simp [modify, hm]

theorem bin_install_aux (st : Store) (tmp final : Name) (pre : List Content) (c : Content)
    (ht : hiddenBin tmp = true) (hf : hiddenBin final = false) (habs : st final = none)
    (hnd : ∀ fs, st tmp ≠ some (.dir fs)) :
    CrashConsistent viewBin (binInstall tmp final pre c) st (addPkg (viewBin st) final c) := by
  obtain ⟨ha1, ha2, ha3, ha4⟩ := binAddData_seg st tmp pre c ht hnd
  have hne : final ≠ tmp := fun e => by rw [e, ht] at hf; cases hf
  have hv := viewBin_rename_in _ tmp final c ht hf ha3 (Or.inl (by rw [ha4 final hne, habs]))
  rw [ha2] at hv
  unfold binInstall
  constructor
  · rw [forall_states_append]
    refine ⟨fun s hs => Or.inl (ha1 s hs), ?_⟩
    rw [forall_states_cons, forall_states_nil]
    exact ⟨Or.inl ha2, Or.inr hv⟩
  · rw [run_append]; exact hv

theorem bin_uninstall_aux (st : Store) (final : Name) (c0 : Content) (h0 : st final = some (.file c0)) :
    CrashConsistent viewBin (binUninstall final) st (removePkg (viewBin st) final) := by
  have hv := viewBin_unlink st final c0 h0
  unfold binUninstall
  constructor
  · rw [forall_states_cons, forall_states_cons, forall_states_nil]
    exact ⟨Or.inl rfl, Or.inr hv, Or.inr hv⟩
  · exact hv

theorem bin_replace_same_aux (st : Store) (tmp name : Name) (pre : List Content) (c c0 : Content)
    (ht : hiddenBin tmp = true) (hf : hiddenBin name = false) (h0 : st name = some (.file c0))
    (hnd : ∀ fs, st tmp ≠ some (.dir fs)) :
    CrashConsistent viewBin (binReplace tmp name name pre c) st (addPkg (viewBin st) name c) := by
  obtain ⟨ha1, ha2, ha3, ha4⟩ := binAddData_seg st tmp pre c ht hnd
  have hne : name ≠ tmp := fun e => by rw [e, ht] at hf; cases hf
  have hv := viewBin_rename_in _ tmp name c ht hf ha3 (Or.inr ⟨c0, by rw [ha4 name hne, h0]⟩)
  rw [ha2] at hv
  unfold binReplace
  simp only [if_true, List.append_nil]
  constructor
  · rw [forall_states_append]
    refine ⟨fun s hs => Or.inl (ha1 s hs), ?_⟩
    rw [forall_states_cons, forall_states_cons, forall_states_nil]
    exact ⟨Or.inl ha2, Or.inl ha2, Or.inr hv⟩
  · rw [run_append]; exact hv

theorem bin_replace_diff_aux (st : Store) (tmp old new : Name) (pre : List Content) (c cO : Content)
    (hne : old ≠ new) (ht : hiddenBin tmp = true) (hn : hiddenBin new = false) (ho : hiddenBin old = false)
    (h0 : st old = some (.file cO)) (habs : st new = none) (hnd : ∀ fs, st tmp ≠ some (.dir fs)) :
    CrashConsistentVia viewBin (binReplace tmp old new pre c) st
      (addPkg (viewBin st) new c) (removePkg (addPkg (viewBin st) new c) old) := by
  obtain ⟨ha1, ha2, ha3, ha4⟩ := binAddData_seg st tmp pre c ht hnd
  let SA := run (binAddData tmp pre c) st
  have hnt : new ≠ tmp := fun e => by rw [e, ht] at hn; cases hn
  have hot : old ≠ tmp := fun e => by rw [e, ht] at ho; cases ho
  have hSAnew : SA new = none := by show run _ st new = _; rw [ha4 new hnt, habs]
  have hv1 := viewBin_rename_in SA tmp new c ht hn ha3 (Or.inl hSAnew)
  rw [ha2] at hv1
  let S1 := step SA (.rename tmp new)
  have hS1 : S1 = upd (upd SA new (some (.file c))) tmp none := step_rename_to_absent SA tmp new _ hnt.symm ha3 hSAnew
  have hS1old : S1 old = some (.file cO) := by
    rw [hS1]; simp only [upd, hot, hne, if_false]; show run _ st old = _; rw [ha4 old hot, h0]
  have hv2 := viewBin_unlink S1 old cO hS1old
  have hv1' : viewBin S1 = addPkg (viewBin st) new c := hv1
  rw [hv1'] at hv2
  unfold binReplace
  simp only [hne, if_false]
  constructor
  · rw [forall_states_append, forall_states_append]
    refine ⟨⟨fun s hs => Or.inl (ha1 s hs), ?_⟩, ?_⟩
    · rw [forall_states_cons, forall_states_cons, forall_states_nil]
      exact ⟨Or.inl ha2, Or.inl ha2, Or.inr (Or.inl hv1')⟩
    · rw [run_append]
      show ∀ s ∈ states [Op.unlink old] S1, _
      rw [forall_states_cons, forall_states_nil]
      exact ⟨Or.inr (Or.inl hv1'), Or.inr (Or.inr hv2)⟩
  · rw [run_append, run_append]
    exact hv2

/-! ## `written` is the identity on file lists with distinct names -/

theorem setFile_new (fs : List (Name × Content)) (f : Name) (c : Content) (h : ∀ p ∈ fs, p.1 ≠ f) :
    setFile fs f c = fs ++ [(f, c)] := by
  induction fs with
  | nil => rfl
  | cons p fs ih =>
    obtain ⟨g, d⟩ := p
    have hg : g ≠ f := h (g, d) List.mem_cons_self
    simp only [setFile, hg, if_false, List.cons_append]
    rw [ih (fun q hq => h q (List.mem_cons_of_mem _ hq))]

theorem setFile_last (fs : List (Name × Content)) (f : Name) (c d : Content) (h : ∀ p ∈ fs, p.1 ≠ f) :
    setFile (fs ++ [(f, d)]) f c = fs ++ [(f, c)] := by
  induction fs with
  | nil => simp [setFile]
  | cons p fs ih =>
    obtain ⟨g, e⟩ := p
    have hg : g ≠ f := h (g, e) List.mem_cons_self
    simp only [List.cons_append, setFile, hg, if_false]
    rw [ih (fun q hq => h q (List.mem_cons_of_mem _ hq))]

theorem written_fold (acc files : List (Name × Content)) (hd : (files.map (·.1)).Nodup)
    (hdis : ∀ p ∈ acc, ∀ q ∈ files, p.1 ≠ q.1) :
    files.foldl (fun fs p => setFile (setFile fs p.1 []) p.1 p.2) acc = acc ++ files := by
  induction files generalizing acc with
  | nil => simp
  | cons q files ih =>
    simp only [List.map_cons, List.nodup_cons] at hd
    have hq : ∀ p ∈ acc, p.1 ≠ q.1 := fun p hp => hdis p hp q List.mem_cons_self
    simp only [List.foldl_cons]
    rw [setFile_new acc q.1 [] hq, setFile_last acc q.1 q.2 [] hq, ih _ hd.2]
    · simp
    · intro p hp r hr
      rcases List.mem_append.1 hp with hp | hp
      · exact hdis p hp r (List.mem_cons_of_mem _ hr)
      · simp only [List.mem_singleton] at hp
        subst hp
        intro e
        exact hd.1 (List.mem_map.2 ⟨r, hr, e.symm⟩)

theorem written_of_nodup (files : List (Name × Content)) (hd : (files.map (·.1)).Nodup) : written files = files := by
  unfold written
  rw [written_fold [] files hd (by simp)]
  simp

end Pkgcore.C29
