import Pkgcore.Spec.C47
import Pkgcore.Proofs.C29
/-! # C47 helper lemmas (on top of the store/crash-state library of `Proofs/C29.lean`) -/
namespace Pkgcore.C47
open Pkgcore.C29 Pkgcore.C47.Spec

/-! ## names -/

theorem updOf_ne (r : Name) : updOf r ≠ r := by
  intro h; have := congrArg List.length h; simp [updOf] at this; omega
theorem oldOf_ne (r : Name) : oldOf r ≠ r := by
  intro h; have := congrArg List.length h; simp [oldOf] at this; omega
theorem updOf_ne_oldOf (r : Name) : updOf r ≠ oldOf r := by
  intro h; have := congrArg List.length h; simp [updOf, oldOf] at this

/-- "not the repository path" -/
def offRepo (repo : Name) : Name → Bool := fun n => n != repo

theorem offRepo_upd (r : Name) : offRepo r (updOf r) = true := by simp [offRepo, updOf_ne]
theorem offRepo_old (r : Name) : offRepo r (oldOf r) = true := by simp [offRepo, oldOf_ne]

theorem treeAt_congr (s st : Store) (repo : Name) (h : s repo = st repo) : treeAt s repo = treeAt st repo := by
  simp [treeAt, h]

theorem treeAt_dir (s : Store) (repo : Name) (fs : List (Name × Content)) (h : s repo = some (.dir fs)) :
    treeAt s repo = content fs := by simp [treeAt, h]

/-- a segment that never touches the repository path leaves it alone at every crash state -/
theorem seg_off (repo : Name) (ops : List Op) (S : Store) (ho : ∀ op ∈ ops, HiddenOnly (offRepo repo) op) :
    (∀ s ∈ states ops S, s repo = S repo) ∧ run ops S repo = S repo := by
  have h := states_hiddenOnly (offRepo repo) ops S ho
  have hr : offRepo repo repo = false := by simp [offRepo]
  exact ⟨fun s hs => h s hs repo hr, h _ (run_mem_states ops S) repo hr⟩

/-! ## staging and extraction -/

theorem stage_hidden (S : Store) (repo : Name) : ∀ op ∈ stageOps S repo, HiddenOnly (offRepo repo) op := by
  intro op h
  simp only [stageOps, List.mem_append, List.mem_cons, List.not_mem_nil, or_false] at h
  rcases h with (h | h) | rfl | rfl
  · exact hiddenOnly_of_onlyOn _ _ (offRepo_upd repo) op (wipe_onlyOn S _ op h)
  · exact hiddenOnly_of_onlyOn _ _ (offRepo_old repo) op (wipe_onlyOn S _ op h)
  · exact offRepo_upd repo
  · exact offRepo_old repo

theorem stage_run (S : Store) (repo : Name) (hu : ∀ c, S (updOf repo) ≠ some (.file c)) (ho : ∀ c, S (oldOf repo) ≠ some (.file c)) :
    run (stageOps S repo) S (updOf repo) = some (.dir []) ∧ run (stageOps S repo) S (oldOf repo) = some (.dir []) ∧
    run (stageOps S repo) S repo = S repo := by
  have hne := updOf_ne_oldOf repo
  refine ⟨?_, ?_, (seg_off repo _ S (stage_hidden S repo)).2⟩
  all_goals
    unfold stageOps
    rw [run_append, run_append]
    have h1 : run (wipeOps S (updOf repo)) S (updOf repo) = none := wipe_run S S _ rfl hu
    have h1o : run (wipeOps S (updOf repo)) S (oldOf repo) = S (oldOf repo) :=
      run_onlyOn (updOf repo) _ _ S (wipe_onlyOn S _) hne.symm
    have h2 : run (wipeOps S (oldOf repo)) (run (wipeOps S (updOf repo)) S) (oldOf repo) = none :=
      wipe_run S _ _ h1o ho
    have h2u : run (wipeOps S (oldOf repo)) (run (wipeOps S (updOf repo)) S) (updOf repo) = none := by
      rw [run_onlyOn (oldOf repo) _ _ _ (wipe_onlyOn S _) hne]; exact h1
  · show modify (modify _ (updOf repo) mkdirF) (oldOf repo) mkdirF (updOf repo) = _
    rw [modify_ne _ _ _ _ hne, modify_eq, h2u]; rfl
  · show modify (modify _ (updOf repo) mkdirF) (oldOf repo) mkdirF (oldOf repo) = _
    rw [modify_eq, modify_ne _ _ _ _ hne.symm, h2]; rfl

theorem extract_onlyOn (repo : Name) (files : List (Name × Content)) : ∀ op ∈ extractOps repo files, OnlyOn (updOf repo) op := by
  intro op h
  simp only [extractOps, List.mem_map] at h
  obtain ⟨p, _, rfl⟩ := h
  rfl

theorem extract_run (repo : Name) (files : List (Name × Content)) (S : Store) (fs0 : List (Name × Content))
    (h : S (updOf repo) = some (.dir fs0)) :
    run (extractOps repo files) S (updOf repo) = some (.dir (files.foldl (fun fs p => setFile fs p.1 p.2) fs0)) := by
  induction files generalizing S fs0 with
  | nil => simpa [extractOps, run] using h
  | cons p files ih =>
    simp only [extractOps, List.map_cons, run_cons, List.foldl_cons] at ih ⊢
    apply ih
    show modify S (updOf repo) (putF p.1 p.2) (updOf repo) = _
    rw [modify_eq, h]; rfl

theorem extracted_fold (acc files : List (Name × Content)) (hd : (files.map (·.1)).Nodup)
    (hdis : ∀ p ∈ acc, ∀ q ∈ files, p.1 ≠ q.1) :
    files.foldl (fun fs p => setFile fs p.1 p.2) acc = acc ++ files := by
  induction files generalizing acc with
  | nil => simp
  | cons q files ih =>
    simp only [List.map_cons, List.nodup_cons] at hd
    have hq : ∀ p ∈ acc, p.1 ≠ q.1 := fun p hp => hdis p hp q List.mem_cons_self
    simp only [List.foldl_cons]
    rw [setFile_new acc q.1 q.2 hq, ih _ hd.2]
    · simp
    · intro p hp r hr
      rcases List.mem_append.1 hp with hp | hp
      · exact hdis p hp r (List.mem_cons_of_mem _ hr)
      · simp only [List.mem_singleton] at hp
        subst hp
        intro e
        exact hd.1 (List.mem_map.2 ⟨r, hr, e.symm⟩)

theorem extracted_of_nodup (files : List (Name × Content)) (hd : (files.map (·.1)).Nodup) : extracted files = files := by
  unfold extracted
  rw [extracted_fold [] files hd (by simp)]
  simp

/-! ## bookkeeping files do not change the tree -/

theorem content_setFile_book (fs : List (Name × Content)) (f : Name) (c : Content) (hf : f ∈ bookkeeping) :
    content (setFile fs f c) = content fs := by
  induction fs with
  | nil => simp [setFile, content, hf]
  | cons p fs ih =>
    obtain ⟨g, d⟩ := p
    by_cases hg : g = f
    · subst hg; simp [setFile, content, hf]
    · simp only [setFile, hg, if_false]
      unfold content at ih ⊢
      simp only [List.filter_cons]
      rw [ih]

theorem etag_seg (repo : Name) (etag modified : Option Content) (S : Store) (fs : List (Name × Content))
    (h : S repo = some (.dir fs)) :
    ∀ s ∈ states (etagOps repo etag modified) S, treeAt s repo = content fs := by
  have hb0 : bookkeeping[0] ∈ bookkeeping := by decide
  have hb1 : bookkeeping[1] ∈ bookkeeping := by decide
  have base : treeAt S repo = content fs := by simp [treeAt, h]
  have put1 : ∀ (S' : Store) (fs' : List (Name × Content)) (f : Name) (c : Content), S' repo = some (.dir fs') →
      f ∈ bookkeeping → content fs' = content fs →
      step S' (.put repo f c) repo = some (.dir (setFile fs' f c)) ∧ content (setFile fs' f c) = content fs := by
    intro S' fs' f c h' hf hc
    refine ⟨?_, by rw [content_setFile_book _ _ _ hf, hc]⟩
    show modify S' repo (putF f c) repo = _
    rw [modify_eq, h']; rfl
  cases etag <;> cases modified <;> simp only [etagOps, List.append_nil, List.nil_append, List.cons_append]
  · rw [forall_states_nil]; exact base
  · rename_i m
    rw [forall_states_cons, forall_states_nil]
    obtain ⟨a, b⟩ := put1 S fs _ m h hb1 rfl
    exact ⟨base, by simp [treeAt, a, b]⟩
  · rename_i e
    rw [forall_states_cons, forall_states_nil]
    obtain ⟨a, b⟩ := put1 S fs _ e h hb0 rfl
    exact ⟨base, by simp [treeAt, a, b]⟩
  · rename_i e m
    rw [forall_states_cons, forall_states_cons, forall_states_nil]
    obtain ⟨a, b⟩ := put1 S fs _ e h hb0 rfl
    obtain ⟨a2, b2⟩ := put1 _ _ _ m a hb1 b
    exact ⟨base, by simp [treeAt, a, b], by simp [treeAt, a2, b2]⟩

theorem step_rename_dir_over_empty (st : Store) (a b : Name) (fs : List (Name × Content)) (hab : a ≠ b)
    (ha : st a = some (.dir fs)) (hb : st b = some (.dir [])) :
    step st (.rename a b) = upd (upd st b (some (.dir fs))) a none := by
  simp [step, hab, ha, hb, renameOk]

/-! ## the successful tail of a sync, from any state that has a directory at the repository path -/

theorem tail_ok (S : Store) (repo : Name) (X files : List (Name × Content)) (etag modified : Option Content)
    (hr : S repo = some (.dir X)) (hu : ∀ c, S (updOf repo) ≠ some (.file c)) (ho : ∀ c, S (oldOf repo) ≠ some (.file c)) :
    (∀ s ∈ states (tailOps S repo files etag modified) S,
        treeAt s repo = content X ∨ s repo = none ∨ treeAt s repo = content (extracted files)) ∧
    treeAt (run (tailOps S repo files etag modified) S) repo = content (extracted files) ∧
    run (tailOps S repo files etag modified) S (updOf repo) = none ∧
    ∃ s ∈ states (tailOps S repo files etag modified) S, s repo = none := by
  have hur := updOf_ne repo
  have hor := oldOf_ne repo
  have huo := updOf_ne_oldOf repo
  obtain ⟨hs1, hs2, hs3⟩ := stage_run S repo hu ho
  have hstage := seg_off repo _ S (stage_hidden S repo)
  let S1 := run (stageOps S repo) S
  have hex := seg_off repo (extractOps repo files) S1
    (fun op h => hiddenOnly_of_onlyOn _ _ (offRepo_upd repo) op (extract_onlyOn repo files op h))
  let S2 := run (extractOps repo files) S1
  have hS2u : S2 (updOf repo) = some (.dir (extracted files)) := extract_run repo files S1 [] hs1
  have hS2o : S2 (oldOf repo) = some (.dir []) := by
    show run _ S1 (oldOf repo) = _
    rw [run_onlyOn (updOf repo) _ _ S1 (extract_onlyOn repo files) huo.symm]; exact hs2
  have hS2r : S2 repo = some (.dir X) := by show run _ S1 repo = _; rw [hex.2]; exact hs3.trans hr
  let S3 := step S2 (.rename repo (oldOf repo))
  have hS3 : S3 = upd (upd S2 (oldOf repo) (some (.dir X))) repo none :=
    step_rename_dir_over_empty S2 repo (oldOf repo) X hor.symm hS2r hS2o
  have hS3r : S3 repo = none := by rw [hS3]; simp [upd]
  have hS3u : S3 (updOf repo) = some (.dir (extracted files)) := by
    rw [hS3]; simp only [upd, hur, huo, if_false]; exact hS2u
  let S4 := step S3 (.rename (updOf repo) repo)
  have hS4 : S4 = upd (upd S3 repo (some (.dir (extracted files)))) (updOf repo) none :=
    step_rename_to_absent S3 (updOf repo) repo _ hur hS3u hS3r
  have hS4r : S4 repo = some (.dir (extracted files)) := by rw [hS4]; simp [upd, hur.symm]
  have hS4u : S4 (updOf repo) = none := by rw [hS4]; simp [upd]
  have het := etag_seg repo etag modified S4 _ hS4r
  have hetu : run (etagOps repo etag modified) S4 (updOf repo) = none := by
    rw [run_onlyOn repo _ _ S4 _ hur]; exact hS4u
    intro op h
    cases etag <;> cases modified <;> simp [etagOps] at h <;> (try rcases h with rfl | rfl) <;> (try subst h) <;> rfl
  have hX : treeAt S repo = content X := by simp [treeAt, hr]
  unfold tailOps
  refine ⟨?_, ?_, ?_, ?_⟩
  · rw [forall_states_append, forall_states_append, forall_states_append]
    refine ⟨⟨⟨?_, ?_⟩, ?_⟩, ?_⟩
    · intro s hs; left; rw [treeAt_congr s S repo (hstage.1 s hs)]; exact hX
    · intro s hs; left
      have : s repo = S repo := (hex.1 s hs).trans hs3
      rw [treeAt_congr s S repo this]; exact hX
    · rw [run_append]
      show ∀ s ∈ states [Op.rename repo (oldOf repo), Op.rename (updOf repo) repo] S2, _
      rw [forall_states_cons, forall_states_cons, forall_states_nil]
      exact ⟨Or.inl (treeAt_dir S2 repo X hS2r), Or.inr (Or.inl hS3r), Or.inr (Or.inr (treeAt_dir S4 repo _ hS4r))⟩
    · rw [run_append, run_append]
      show ∀ s ∈ states (etagOps repo etag modified) S4, _
      exact fun s hs => Or.inr (Or.inr (het s hs))
  · rw [run_append, run_append, run_append]
    show treeAt (run (etagOps repo etag modified) S4) repo = _
    exact het _ (run_mem_states _ _)
  · rw [run_append, run_append, run_append]
    exact hetu
  · refine ⟨S3, ?_, hS3r⟩
    rw [mem_states_append]; left
    rw [mem_states_append]; right
    rw [run_append]
    show S3 ∈ states [Op.rename repo (oldOf repo), Op.rename (updOf repo) repo] S2
    exact List.mem_cons_of_mem _ (self_mem_states _ _)

/-! ## the head of a sync: recovery and `makedirs(basedir, exist_ok=True)` -/

theorem recover_nil_of_some (st : Store) (repo : Name) (o : Obj) (h : st repo = some o) : recoverOps st repo = [] := by
  simp [recoverOps, h]

theorem mkdir_existing (st : Store) (repo : Name) (o : Obj) (h : st repo = some o) : step st (.mkdir repo) = st := by
  funext n
  show modify st repo mkdirF n = st n
  by_cases hn : n = repo
  · subst hn; rw [modify_eq, h]; rfl
  · exact modify_ne _ _ _ _ hn

/-- no regular file sits at the repository path or at a staging name -/
def NoFiles (st : Store) (repo : Name) : Prop :=
  (∀ c, st repo ≠ some (.file c)) ∧ (∀ c, st (updOf repo) ≠ some (.file c)) ∧ (∀ c, st (oldOf repo) ≠ some (.file c))

/-- without recovery the head changes nothing a reader sees and ends with a directory at the repository path -/
theorem head_no_recover (st : Store) (repo : Name) (hrec : recoverOps st repo = []) (hnf : NoFiles st repo) :
    (∀ s ∈ states (headOps st repo) st, treeAt s repo = treeAt st repo) ∧
    (∃ X, run (headOps st repo) st repo = some (.dir X) ∧ content X = treeAt st repo) ∧
    NoFiles (run (headOps st repo) st) repo := by
  unfold headOps
  rw [hrec]
  simp only [List.nil_append]
  have hother : ∀ n, n ≠ repo → run [Op.mkdir repo] st n = st n := fun n hn => modify_ne _ _ _ _ hn
  have hnf' : ∀ X, run [Op.mkdir repo] st repo = some (.dir X) → NoFiles (run [Op.mkdir repo] st) repo := by
    intro X hX
    refine ⟨(by rw [hX]; intro c h; cases h), ?_, ?_⟩
    · rw [hother _ (updOf_ne repo)]; exact hnf.2.1
    · rw [hother _ (oldOf_ne repo)]; exact hnf.2.2
  cases h : st repo with
  | none =>
    have hr : run [Op.mkdir repo] st repo = some (.dir []) := by
      show modify st repo mkdirF repo = _; rw [modify_eq, h]; rfl
    refine ⟨?_, ⟨[], hr, by simp [treeAt, h, content]⟩, hnf' _ hr⟩
    rw [forall_states_cons, forall_states_nil]
    refine ⟨rfl, ?_⟩
    show treeAt (run [Op.mkdir repo] st) repo = _
    rw [treeAt_dir _ repo [] hr]; simp [treeAt, h, content]
  | some o =>
    cases o with
    | file c => exact absurd h (hnf.1 c)
    | dir X =>
      have hs : step st (.mkdir repo) = st := mkdir_existing st repo _ h
      have hr : run [Op.mkdir repo] st repo = some (.dir X) := by show step st (.mkdir repo) repo = _; rw [hs, h]
      refine ⟨?_, ⟨X, hr, by simp [treeAt, h]⟩, hnf' _ hr⟩
      rw [forall_states_cons, forall_states_nil]
      exact ⟨rfl, by rw [hs]⟩

theorem sync_ok_no_recover (st : Store) (repo : Name) (files : List (Name × Content)) (etag modified : Option Content)
    (hrec : recoverOps st repo = []) (hnf : NoFiles st repo) :
    OldGapOrNew (syncOps st repo .ok .ok files etag modified) st repo (content (extracted files)) ∧
    (st repo ≠ none → ∃ s ∈ states (syncOps st repo .ok .ok files etag modified) st, s repo = none) := by
  obtain ⟨h1, ⟨X, hX, hc⟩, hnf'⟩ := head_no_recover st repo hrec hnf
  obtain ⟨t1, t2, _, t4⟩ := tail_ok (run (headOps st repo) st) repo X files etag modified hX hnf'.2.1 hnf'.2.2
  simp only [syncOps]
  refine ⟨⟨?_, ?_⟩, fun _ => ?_⟩
  · rw [forall_states_append]
    refine ⟨fun s hs => Or.inl (h1 s hs), fun s hs => ?_⟩
    rcases t1 s hs with h | h | h
    · exact Or.inl (by rw [h, hc])
    · exact Or.inr (Or.inl h)
    · exact Or.inr (Or.inr h)
  · rw [run_append]; exact t2
  · obtain ⟨s, hs, hn⟩ := t4
    exact ⟨s, (mem_states_append _ _ st s).2 (Or.inr hs), hn⟩

theorem failed_no_recover (st : Store) (repo : Name) (d : Download) (u : Unpack) (files : List (Name × Content))
    (etag modified : Option Content) (hrec : recoverOps st repo = []) (hnf : NoFiles st repo)
    (hfail : d ≠ .ok ∨ ∃ k, u = .fails k) :
    Untouched (syncOps st repo d u files etag modified) st repo := by
  obtain ⟨h1, ⟨X, hX, hc⟩, hnf'⟩ := head_no_recover st repo hrec hnf
  have hrest : ∀ k, ∀ s ∈ states (headOps st repo ++ stageOps (run (headOps st repo) st) repo ++ extractOps repo (files.take k)) st,
      treeAt s repo = treeAt st repo := by
    intro k
    rw [forall_states_append, forall_states_append]
    refine ⟨⟨h1, ?_⟩, ?_⟩
    · intro s hs
      have hst := seg_off repo _ (run (headOps st repo) st) (stage_hidden (run (headOps st repo) st) repo)
      rw [treeAt_congr s _ repo (hst.1 s hs), treeAt_dir _ repo X hX, hc]
    · intro s hs
      rw [run_append] at hs
      have hst := seg_off repo _ (run (headOps st repo) st) (stage_hidden (run (headOps st repo) st) repo)
      have hex := seg_off repo (extractOps repo (files.take k))
        (run (stageOps (run (headOps st repo) st) repo) (run (headOps st repo) st))
        (fun op h => hiddenOnly_of_onlyOn _ _ (offRepo_upd repo) op (extract_onlyOn repo _ op h))
      rw [treeAt_congr s _ repo (hex.1 s hs), treeAt_congr _ _ repo hst.2, treeAt_dir _ repo X hX, hc]
  unfold Untouched
  cases d with
  | unreachable => simp only [syncOps, hrec]; rw [forall_states_nil]
  | unchanged => simp only [syncOps, hrec]; rw [forall_states_nil]
  | broken => simp only [syncOps]; exact h1
  | ok =>
    rcases hfail with h | ⟨k, rfl⟩
    · exact absurd rfl h
    · simp only [syncOps]; exact hrest k

/-- the head from an arbitrary state (recovery included) ends with a directory at the repository path and no files in the way -/
theorem head_general (st : Store) (repo : Name) (hnf : NoFiles st repo) :
    (∃ X, run (headOps st repo) st repo = some (.dir X)) ∧ NoFiles (run (headOps st repo) st) repo := by
  by_cases hrec : recoverOps st repo = []
  · obtain ⟨_, ⟨X, hX, _⟩, h3⟩ := head_no_recover st repo hrec hnf
    exact ⟨⟨X, hX⟩, h3⟩
  · -- recovery: the repository path is missing and `.repo.old` is a non-empty directory
    unfold recoverOps at hrec
    cases hr : st repo with
    | some o => simp [hr] at hrec
    | none =>
      cases ho : st (oldOf repo) with
      | none => simp [hr, ho] at hrec
      | some o =>
        cases o with
        | file c => simp [hr, ho] at hrec
        | dir fs =>
          cases fs with
          | nil => simp [hr, ho] at hrec
          | cons p fs =>
            have hops : headOps st repo = [.rename (oldOf repo) repo, .mkdir repo] := by simp [headOps, recoverOps, hr, ho]
            have h1 : step st (.rename (oldOf repo) repo) = upd (upd st repo (some (.dir (p :: fs)))) (oldOf repo) none :=
              step_rename_to_absent st _ _ _ (oldOf_ne repo) ho hr
            have h1r : step st (.rename (oldOf repo) repo) repo = some (.dir (p :: fs)) := by
              rw [h1]; simp [upd, (oldOf_ne repo).symm]
            have h2 := mkdir_existing _ repo _ h1r
            have hrun : run (headOps st repo) st = upd (upd st repo (some (.dir (p :: fs)))) (oldOf repo) none := by
              rw [hops]; simp only [run, List.foldl]; rw [h2, h1]
            rw [hrun]
            refine ⟨⟨p :: fs, by simp [upd, (oldOf_ne repo).symm]⟩, ?_, ?_, ?_⟩
            · intro c h; simp [upd, (oldOf_ne repo).symm] at h
            · intro c; simp only [upd, updOf_ne_oldOf repo, updOf_ne repo, if_false]; exact hnf.2.1 c
            · intro c h; simp [upd] at h

theorem next_sync_completes_aux (st : Store) (repo : Name) (files : List (Name × Content)) (etag modified : Option Content)
    (hnf : NoFiles st repo) :
    treeAt (run (syncOps st repo .ok .ok files etag modified) st) repo = content (extracted files) ∧
    run (syncOps st repo .ok .ok files etag modified) st (updOf repo) = none := by
  obtain ⟨⟨X, hX⟩, hnf'⟩ := head_general st repo hnf
  obtain ⟨_, t2, t3, _⟩ := tail_ok (run (headOps st repo) st) repo X files etag modified hX hnf'.2.1 hnf'.2.2
  simp only [syncOps]
  rw [run_append]
  exact ⟨t2, t3⟩

/-- interrupted between the two renames: the next sync starts by putting the old tree back, whatever happens afterwards -/
theorem recover_aux (s : Store) (repo : Name) (p : Name × Content) (fs : List (Name × Content))
    (hr : s repo = none) (ho : s (oldOf repo) = some (.dir (p :: fs))) (hu : ∀ c, s (updOf repo) ≠ some (.file c))
    (d : Download) (u : Unpack) (files : List (Name × Content)) (etag modified : Option Content) :
    let s1 := step s (.rename (oldOf repo) repo)
    treeAt s1 repo = content (p :: fs) ∧
    syncOps s repo d u files etag modified = .rename (oldOf repo) repo :: syncOps s1 repo d u files etag modified ∧
    recoverOps s1 repo = [] ∧ NoFiles s1 repo := by
  intro s1
  have h1 : s1 = upd (upd s repo (some (.dir (p :: fs)))) (oldOf repo) none :=
    step_rename_to_absent s _ _ _ (oldOf_ne repo) ho hr
  have h1r : s1 repo = some (.dir (p :: fs)) := by rw [h1]; simp [upd, (oldOf_ne repo).symm]
  have hrec1 : recoverOps s1 repo = [] := recover_nil_of_some s1 repo _ h1r
  have hrec : recoverOps s repo = [.rename (oldOf repo) repo] := by simp [recoverOps, hr, ho]
  have hhead : headOps s repo = .rename (oldOf repo) repo :: headOps s1 repo := by simp [headOps, hrec, hrec1]
  have hS : run (headOps s repo) s = run (headOps s1 repo) s1 := by rw [hhead]; rfl
  have hS' : run (Op.rename (oldOf repo) repo :: headOps s1 repo) s = run (headOps s1 repo) s1 := rfl
  refine ⟨treeAt_dir s1 repo _ h1r, ?_, hrec1, ?_⟩
  · cases d <;> simp only [syncOps, hrec, hrec1, hhead, hS', List.cons_append, List.nil_append, List.singleton_append]
    cases u <;> simp only [List.cons_append]
  · rw [h1]
    refine ⟨?_, ?_, ?_⟩
    · intro c h; simp [upd, (oldOf_ne repo).symm] at h
    · intro c; simp only [upd, updOf_ne_oldOf repo, updOf_ne repo, if_false]; exact hu c
    · intro c h; simp [upd] at h

end Pkgcore.C47
