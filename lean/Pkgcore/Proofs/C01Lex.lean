import Pkgcore.Model.C01Lex
import Pkgcore.Spec.C01
namespace Pkgcore.C01
open Pkgcore.C01.Spec

theorem splitOn_ne_nil (sep : Char) (s : List Char) : splitOn sep s ≠ [] := by
  induction s with
  | nil => simp [splitOn]
  | cons c cs ih =>
    unfold splitOn
    split
    · simp
    · split <;> simp

theorem splitOn_no_sep (sep : Char) (p : List Char) (h : sep ∉ p) : splitOn sep p = [p] := by
  induction p with
  | nil => simp [splitOn]
  | cons c cs ih =>
    have hc : c ≠ sep := fun e => h (by simp [e])
    have hcs : sep ∉ cs := fun e => h (by simp [e])
    simp [splitOn, hc, ih hcs]

theorem splitOn_append (sep : Char) (p rest : List Char) (h : sep ∉ p) :
    splitOn sep (p ++ sep :: rest) = p :: splitOn sep rest := by
  induction p with
  | nil => simp [splitOn]
  | cons c cs ih =>
    have hc : c ≠ sep := fun e => h (by simp [e])
    have hcs : sep ∉ cs := fun e => h (by simp [e])
    simp [splitOn, hc, ih hcs]

theorem splitOn_join (sep : Char) (parts : List (List Char)) (hne : parts ≠ [])
    (h : ∀ p ∈ parts, sep ∉ p) : splitOn sep (joinSep sep parts) = parts := by
  induction parts with
  | nil => exact absurd rfl hne
  | cons p t ih =>
    cases t with
    | nil => simp [joinSep, splitOn_no_sep sep p (h p (by simp))]
    | cons q t =>
      simp only [joinSep]
      rw [splitOn_append sep p _ (h p (by simp)), ih (by simp) (fun x hx => h x (by simp [hx]))]

end Pkgcore.C01

namespace Pkgcore.C01
open Pkgcore.C01.Spec

theorem ne_of_isDigit (c x : Char) (hc : c.isDigit = true) (hx : x.isDigit = false) : c ≠ x := by
  intro e; subst e; simp [hc] at hx

theorem digit_not_alpha (c : Char) (hc : c.isDigit = true) : c.isAlpha = false := by
  simp only [Char.isDigit, Bool.and_eq_true, decide_eq_true_eq] at hc
  obtain ⟨h1, h2⟩ := hc
  have h1 : '0'.val ≤ c.val := h1
  rw [UInt32.le_iff_toNat_le] at h1 h2
  simp only [Char.isAlpha, Char.isUpper, Char.isLower, Bool.or_eq_false_iff, Bool.and_eq_false_iff,
    decide_eq_false_iff_not, UInt32.le_iff_toNat_le]
  simp at h1 h2 ⊢
  omega

theorem allDigits_iff (cs : List Char) : allDigits cs = true ↔ ∀ c ∈ cs, c.isDigit = true := by
  simp [allDigits]

/-- a digit string does not start with the letter `r` (so `p` + digits is never read as `pre…`) -/
theorem not_prefix_re (n : List Char) (h : allDigits n = true) : ¬ ['r', 'e'] <+: n := by
  rintro ⟨t, ht⟩
  subst ht
  have hd : 'r'.isDigit = true := (allDigits_iff _).mp h 'r' (by simp)
  exact absurd hd (by decide)

theorem lexSuf_render (s : Suf) (n : List Char) (h : allDigits n = true) :
    lexSuf (renderSuf (s, n)) = some (s, n) := by
  cases s <;>
    simp [lexSuf, sufNames, renderSuf, Suf.name, List.findSome?, h, not_prefix_re n h]

theorem mapM_lexSuf_render (sufs : List (Suf × List Char)) (h : ∀ x ∈ sufs, allDigits x.2 = true) :
    (sufs.map renderSuf).mapM lexSuf = some sufs := by
  induction sufs with
  | nil => rfl
  | cons x t ih =>
    obtain ⟨s, n⟩ := x
    simp only [List.map_cons, List.mapM_cons, lexSuf_render s n (h (s, n) (by simp))]
    rw [ih (fun y hy => h y (by simp [hy]))]
    rfl

end Pkgcore.C01

namespace Pkgcore.C01
open Pkgcore.C01.Spec

theorem joinSep_cons_ne (sep : Char) (p : List Char) (l : List (List Char)) (h : l ≠ []) :
    joinSep sep (p :: l) = p ++ sep :: joinSep sep l := by
  cases l with
  | nil => exact absurd rfl h
  | cons q t => rfl

theorem joinSep_concat (sep : Char) (init : List (List Char)) (last x : List Char) :
    joinSep sep (init ++ [last]) ++ x = joinSep sep (init ++ [last ++ x]) := by
  induction init with
  | nil => simp [joinSep]
  | cons p t ih =>
    rw [List.cons_append, List.cons_append, joinSep_cons_ne sep p _ (by simp),
      joinSep_cons_ne sep p _ (by simp), List.append_assoc, List.cons_append, ih]

/-- well-formedness of a lexed version including letter and suffix numbers (= `isvalid_version_re`) -/
def WFfull (v : Ver) : Prop :=
  WF v ∧ (∀ c, v.letter = some c → isAsciiAlpha c = true) ∧ ∀ x ∈ v.sufs, allDigits x.2 = true

theorem digits_allDigits (c : List Char) (h : digits c) : (!c.isEmpty && allDigits c) = true := by
  obtain ⟨h1, h2⟩ := h
  have : c.isEmpty = false := by cases c <;> simp_all
  simp [this, (allDigits_iff c).mpr h2]

theorem dot_not_mem_digits (c : List Char) (h : ∀ x ∈ c, x.isDigit = true) : '.' ∉ c :=
  fun hm => absurd (h '.' hm) (by decide)

theorem lexDotted_render (init : List (List Char)) (last : List Char) (letter : Option Char)
    (hd : ∀ c ∈ init ++ [last], digits c) (hl : ∀ c, letter = some c → isAsciiAlpha c = true) :
    lexDotted (renderDotted (init ++ [last]) letter) = some (init ++ [last], letter) := by
  have hlast : digits last := hd last (by simp)
  have hsplit : splitOn '.' (renderDotted (init ++ [last]) letter) = init ++ [last ++ letter.toList] := by
    unfold renderDotted
    rw [joinSep_concat, splitOn_join _ _ (by simp)]
    intro p hp
    simp only [List.mem_append, List.mem_singleton] at hp
    rcases hp with hp | rfl
    · exact dot_not_mem_digits p (hd p (by simp [hp])).2
    · intro hm
      simp only [List.mem_append] at hm
      rcases hm with hm | hm
      · exact dot_not_mem_digits last hlast.2 hm
      · cases letter with
        | none => simp at hm
        | some c =>
          simp at hm; subst hm
          exact absurd (hl '.' rfl) (by decide)
  have hall : (init ++ [last]).all (fun c => !c.isEmpty && allDigits c) = true := by
    simp only [List.all_eq_true]
    intro c hc
    exact digits_allDigits c (hd c hc)
  unfold lexDotted
  simp only [hsplit, List.getLast?_append, List.getLast?_singleton, Option.some_or, List.dropLast_concat]
  cases letter with
  | none =>
    simp only [Option.toList_none, List.append_nil]
    obtain ⟨hne, hdig⟩ := hlast
    have : ∃ c, last.getLast? = some c ∧ c.isDigit = true := by
      refine ⟨last.getLast hne, List.getLast?_eq_some_getLast hne, hdig _ (List.getLast_mem hne)⟩
    obtain ⟨c, hc1, hc2⟩ := this
    simp [hc1, isAsciiAlpha, digit_not_alpha c hc2, hall]
  | some c =>
    have := hl c rfl
    simp [this, hall]

end Pkgcore.C01

namespace Pkgcore.C01
open Pkgcore.C01.Spec

theorem mem_joinSep (sep x : Char) (parts : List (List Char)) (h : x ∈ joinSep sep parts) :
    x = sep ∨ ∃ p ∈ parts, x ∈ p := by
  induction parts with
  | nil => simp [joinSep] at h
  | cons p t ih =>
    cases t with
    | nil => exact Or.inr ⟨p, by simp, by simpa [joinSep] using h⟩
    | cons q t =>
      simp only [joinSep, List.mem_append, List.mem_cons] at h
      rcases h with h | h | h
      · exact Or.inr ⟨p, by simp, h⟩
      · exact Or.inl h
      · rcases ih h with h' | ⟨r, hr, hx⟩
        · exact Or.inl h'
        · exact Or.inr ⟨r, by simp [hr], hx⟩

theorem underscore_not_in_suf (x : Suf × List Char) (h : allDigits x.2 = true) : '_' ∉ renderSuf x := by
  obtain ⟨s, n⟩ := x
  intro hm
  simp only [renderSuf, List.mem_append] at hm
  rcases hm with hm | hm
  · cases s <;> simp [Suf.name] at hm
  · exact absurd ((allDigits_iff n).mp h '_' hm) (by decide)

theorem lexVer_render_aux (v : Ver) (h : WFfull v) : lexVer (render v) = some v := by
  obtain ⟨⟨hne, hdig⟩, hlet, hsuf⟩ := h
  obtain ⟨comps, letter, sufs⟩ := v
  simp only at hne hdig hlet hsuf
  rcases List.eq_nil_or_concat comps with rfl | ⟨init, last, hcl⟩
  · exact absurd rfl hne
  · rw [List.concat_eq_append] at hcl
    subst hcl
    have hsplit : splitOn '_' (render ⟨init ++ [last], letter, sufs⟩)
        = renderDotted (init ++ [last]) letter :: sufs.map renderSuf := by
      unfold render
      apply splitOn_join _ _ (by simp)
      intro p hp
      simp only [List.mem_cons, List.mem_map] at hp
      rcases hp with rfl | ⟨x, hx, rfl⟩
      · intro hm
        simp only [renderDotted, List.mem_append] at hm
        rcases hm with hm | hm
        · rcases mem_joinSep _ _ _ hm with h' | ⟨c, hc, hxc⟩
          · exact absurd h' (by decide)
          · exact absurd ((hdig c hc).2 '_' hxc) (by decide)
        · cases letter with
          | none => simp at hm
          | some c => simp at hm; subst hm; exact absurd (hlet '_' rfl) (by decide)
      · exact underscore_not_in_suf x (hsuf x hx)
    unfold lexVer
    rw [hsplit]
    simp only [lexDotted_render init last letter hdig hlet, mapM_lexSuf_render sufs hsuf]

end Pkgcore.C01
