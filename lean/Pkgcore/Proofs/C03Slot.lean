import Pkgcore.Proofs.C03Cpv
/-!
# C03 — slot / sub-slot / slot operator / repo id, blockers and operators
-/
namespace Pkgcore.C03
open Pkgcore.C01 Pkgcore.C01.Spec Pkgcore.C02 Pkgcore.C03.Spec

/-- `slotOk` on the three attributes -/
def slotOk' (d : Dialect) (o : Opts) (sl ss op : Option Str) : Prop :=
  match sl with
  | some s =>
    o.hasSlotDeps = true ∧ slotNameOk d s = true ∧
      (match ss with
       | some x => o.subSlotting = true ∧ slotNameOk d x = true
       | none => True) ∧
      (op = none ∨ (o.subSlotting = true ∧ op = some ['=']))
  | none =>
    ss = none ∧ (op = none ∨ (o.subSlotting = true ∧ (op = some ['='] ∨ op = some ['*'])))

theorem slotOk_eq (d : Dialect) (o : Opts) (a : Atom) : slotOk d o a = slotOk' d o a.slot a.subslot a.slotOp := rfl

/-- the text after the `:` of a slot dependency -/
def slotTxtOf (sl ss op : Option Str) : Str :=
  match sl with
  | some s => s ++ (match ss with | some x => '/' :: x | none => []) ++ (if op = some ['='] then ['='] else [])
  | none => op.getD []

theorem checkSlotChunk_iff (c : Str) : checkSlotChunk c = .ok () ↔ slotNameOk lenient c = true := by
  cases c with
  | nil => simp [checkSlotChunk, slotNameOk]
  | cons x xs =>
    have hall : (x :: xs).all slotChar = nameChars ['+', '_', '.', '-'] (x :: xs) := by
      unfold nameChars
      congr 1
      funext y
      simp only [slotChar, isAlnum, List.contains_cons, List.contains_nil, Bool.or_false, Bool.or_assoc]
      cases y.isAlphanum <;> cases (y == '.') <;> cases (y == '+') <;> cases (y == '_') <;> cases (y == '-') <;> rfl
    unfold checkSlotChunk
    simp only [slotNameOk, lenient, if_true, List.isEmpty_cons, Bool.not_false, Bool.true_and, startsWithAny,
      List.contains_cons, List.contains_nil, Bool.or_false, ← hall]
    by_cases h1 : x = '-' ∨ x = '.'
    · simp only [h1, if_true, reduceCtorEq, false_iff]
      rcases h1 with rfl | rfl <;> simp
    · simp only [h1, if_false]
      have : (x == '-' || x == '.') = false := by
        simp only [not_or] at h1
        simp [h1.1, h1.2]
      cases hs : (x :: xs).all slotChar <;> simp [this]

theorem slotNameOk_chars {d : Dialect} {s : Str} (h : slotNameOk d s = true) :
    ∃ c cs, s = c :: cs ∧ nameChars ['+', '_', '.', '-'] s = true ∧ c ≠ '-' ∧ c ≠ '.' := by
  cases s with
  | nil => simp [slotNameOk] at h
  | cons c cs =>
    simp only [slotNameOk, Bool.and_eq_true, Bool.not_eq_true', startsWithAny] at h
    refine ⟨c, cs, rfl, h.1.2, ?_, ?_⟩
    · rintro rfl; have := h.2; split at this <;> simp at this
    · rintro rfl; have := h.2; split at this <;> simp at this

theorem slotNameOk_mono {s : Str} (h : slotNameOk pms s = true) : slotNameOk lenient s = true := by
  cases s with
  | nil => simp [slotNameOk] at h
  | cons c cs =>
    simp only [slotNameOk, pms, lenient, Bool.and_eq_true, Bool.not_eq_true', startsWithAny, if_true,
      Bool.false_eq_true, if_false, List.contains_cons, List.contains_nil, Bool.or_false, Bool.or_eq_false_iff] at h ⊢
    exact ⟨h.1, h.2.1, h.2.2.1⟩

/-- special characters are outside a name class -/
theorem not_mem_slotName {d : Dialect} {s : Str} {x : Char} (h : slotNameOk d s = true)
    (hx : x.isAlphanum = false) (he : ['+', '_', '.', '-'].contains x = false) : x ∉ s := by
  obtain ⟨_, _, _, hc, _, _⟩ := slotNameOk_chars h
  exact not_mem_of_nameChars hc hx he

theorem getLast?_mem {s : Str} {l : Char} (h : s.getLast? = some l) : l ∈ s := by
  obtain ⟨ys, rfl⟩ := List.getLast?_eq_some_iff.mp h
  simp

/-! ## `parseSlotText` -/

theorem parseSlotText_complete {o : Opts} {sl ss op : Option Str} (h : slotOk' lenient o sl ss op)
    (hne : slotTxtOf sl ss op ≠ []) : parseSlotText o (slotTxtOf sl ss op) = .ok (sl, ss, op) := by
  cases sl with
  | none =>
    obtain ⟨rfl, hop⟩ := h
    rcases hop with rfl | ⟨hsub, rfl | rfl⟩
    · simp [slotTxtOf] at hne
    · simp [slotTxtOf, parseSlotText, hsub]
    · simp [slotTxtOf, parseSlotText, hsub]
  | some s =>
    obtain ⟨hsd, hs, hss, hop⟩ := h
    obtain ⟨c, cs, hsc, hchars, hc1, hc2⟩ := slotNameOk_chars hs
    have hstar : c ≠ '*' := by
      intro e; have := not_mem_slotName (x := '*') hs (by decide) (by decide); exact this (by simp [hsc, e])
    have heq : c ≠ '=' := by
      intro e; have := not_mem_slotName (x := '=') hs (by decide) (by decide); exact this (by simp [hsc, e])
    have hslash : '/' ∉ s := not_mem_slotName hs (by decide) (by decide)
    have hlast_s : s.getLast? ≠ some '=' := fun e =>
      not_mem_slotName (x := '=') hs (by decide) (by decide) (getLast?_mem e)
    have hck : checkSlotChunk s = .ok () := (checkSlotChunk_iff s).mpr hs
    cases ss with
    | none =>
      rcases hop with rfl | ⟨hsub, rfl⟩
      · -- `:slot`
        simp only [slotTxtOf, List.append_nil, reduceCtorEq, if_false]
        unfold parseSlotText
        by_cases hsub : o.subSlotting = true
        · simp only [hsub, if_true]
          rw [hsc] at hlast_s hslash hck ⊢
          simp only [hstar, heq, or_self, if_false, hlast_s, breakOn_of_not_mem hslash, hck]
        · simp only [hsub, Bool.false_eq_true, if_false, hsd, Bool.not_true, hck]
      · -- `:slot=`
        simp only [slotTxtOf, List.append_nil, if_true]
        unfold parseSlotText
        simp only [hsub, if_true]
        rw [hsc] at hslash hck ⊢
        simp only [List.cons_append, hstar, heq, or_self, if_false]
        rw [show c :: (cs ++ ['=']) = (c :: cs) ++ ['='] from rfl, List.getLast?_concat, List.dropLast_concat]
        simp only [if_true, breakOn_of_not_mem hslash, hck]
    | some x =>
      obtain ⟨hsub, hx⟩ := hss
      have hckx : checkSlotChunk x = .ok () := (checkSlotChunk_iff x).mpr hx
      have hlast_x : x.getLast? ≠ some '=' := fun e =>
        not_mem_slotName (x := '=') hx (by decide) (by decide) (getLast?_mem e)
      obtain ⟨xc, xcs, hxc, _, _, _⟩ := slotNameOk_chars hx
      rcases hop with rfl | ⟨_, rfl⟩
      · -- `:slot/sub`
        simp only [slotTxtOf, reduceCtorEq, if_false, List.append_nil]
        unfold parseSlotText
        simp only [hsub, if_true]
        have hl : (s ++ '/' :: x).getLast? ≠ some '=' := by
          rw [List.getLast?_append, hxc]
          simp only [List.getLast?_cons_cons, Option.or]
          rw [hxc] at hlast_x
          cases h : (xc :: xcs).getLast? with
          | none => simp at h
          | some l => simpa [h] using hlast_x
        rw [hsc] at hslash hck hl ⊢
        simp only [List.cons_append, hstar, heq, or_self, if_false] at hl ⊢
        simp only [hl, if_false]
        rw [show c :: (cs ++ '/' :: x) = (c :: cs) ++ '/' :: x from rfl, breakOn_append x hslash]
        simp only [hck, hckx]
      · -- `:slot/sub=`
        simp only [slotTxtOf, if_true]
        unfold parseSlotText
        simp only [hsub, if_true]
        rw [hsc] at hslash hck ⊢
        simp only [List.cons_append, hstar, heq, or_self, if_false]
        rw [show c :: (cs ++ '/' :: x ++ ['=']) = ((c :: cs) ++ '/' :: x) ++ ['='] by simp,
          List.getLast?_concat, List.dropLast_concat]
        simp only [if_true, breakOn_append x hslash, hck, hckx]


theorem parseSlotText_sound {o : Opts} {txt : Str} {sl ss op : Option Str}
    (h : parseSlotText o txt = .ok (sl, ss, op)) :
    txt = slotTxtOf sl ss op ∧ ((sl.isSome = true → o.hasSlotDeps = true) → slotOk' lenient o sl ss op) := by
  unfold parseSlotText at h
  by_cases hsub : o.subSlotting = true
  · simp only [hsub, if_true] at h
    cases txt with
    | nil => simp at h
    | cons c t =>
      simp only at h
      by_cases hc : c = '*' ∨ c = '='
      · simp only [hc, if_true] at h
        cases t with
        | cons _ _ => simp at h
        | nil =>
          simp only [List.isEmpty_nil, Bool.not_true, Bool.false_eq_true, if_false, Except.ok.injEq, Prod.mk.injEq] at h
          obtain ⟨rfl, rfl, rfl⟩ := h
          refine ⟨rfl, fun _ => ⟨rfl, Or.inr ⟨hsub, ?_⟩⟩⟩
          rcases hc with rfl | rfl
          · exact Or.inr rfl
          · exact Or.inl rfl
      · simp only [hc, if_false] at h
        -- the `=` suffix
        have key : ∀ (slot' : Str) (op' : Option Str), c :: t = slot' ++ (if op' = some ['='] then ['='] else []) →
            (op' = none ∨ op' = some ['=']) →
            (match breakOn '/' slot' with
              | some (a, b) =>
                match checkSlotChunk a, checkSlotChunk b with
                | .ok (), .ok () => (Except.ok (some a, some b, op') : Except Err (Option Str × Option Str × Option Str))
                | .error e, _ => .error e
                | _, .error e => .error e
              | none =>
                match checkSlotChunk slot' with
                | .ok () => .ok (some slot', none, op')
                | .error e => .error e) = .ok (sl, ss, op) →
            c :: t = slotTxtOf sl ss op ∧ ((sl.isSome = true → o.hasSlotDeps = true) → slotOk' lenient o sl ss op) := by
          intro slot' op' htxt hop' h
          have hopok : op' = none ∨ (o.subSlotting = true ∧ op' = some ['=']) := by
            rcases hop' with e | e
            · exact Or.inl e
            · exact Or.inr ⟨hsub, e⟩
          cases hb : breakOn '/' slot' with
          | some p =>
            obtain ⟨a, b⟩ := p
            simp only [hb] at h
            cases ha : checkSlotChunk a with
            | error e => simp [ha] at h
            | ok u =>
              cases hb2 : checkSlotChunk b with
              | error e => simp [ha, hb2] at h
              | ok u2 =>
                simp only [ha, hb2, Except.ok.injEq, Prod.mk.injEq] at h
                obtain ⟨rfl, rfl, rfl⟩ := h
                obtain ⟨hsl, _⟩ := breakOn_sound hb
                refine ⟨by rw [htxt, hsl]; simp [slotTxtOf], fun hd => ⟨hd rfl, (checkSlotChunk_iff a).mp ha,
                  ⟨hsub, (checkSlotChunk_iff b).mp hb2⟩, hopok⟩⟩
          | none =>
            simp only [hb] at h
            cases ha : checkSlotChunk slot' with
            | error e => simp [ha] at h
            | ok u =>
              simp only [ha, Except.ok.injEq, Prod.mk.injEq] at h
              obtain ⟨rfl, rfl, rfl⟩ := h
              refine ⟨by rw [htxt]; simp [slotTxtOf], fun hd => ⟨hd rfl, (checkSlotChunk_iff slot').mp ha, trivial, hopok⟩⟩
        by_cases hl : (c :: t).getLast? = some '='
        · simp only [hl, if_true] at h
          exact key (c :: t).dropLast (some ['=']) (by simpa using eq_dropLast_append_of_getLast? hl) (Or.inr rfl) h
        · simp only [hl, if_false] at h
          exact key (c :: t) none (by simp) (Or.inl rfl) h
  · simp only [hsub, Bool.false_eq_true, if_false] at h
    by_cases hsd : o.hasSlotDeps = true
    · simp only [hsd, Bool.not_true, Bool.false_eq_true, if_false] at h
      cases ha : checkSlotChunk txt with
      | error e => simp [ha] at h
      | ok u =>
        simp only [ha, Except.ok.injEq, Prod.mk.injEq] at h
        obtain ⟨rfl, rfl, rfl⟩ := h
        exact ⟨by simp [slotTxtOf], fun _ => ⟨hsd, (checkSlotChunk_iff txt).mp ha, trivial, Or.inl rfl⟩⟩
    · simp [hsd] at h


theorem checkRepo_iff (r : Str) : checkRepo r = .ok () ↔ repoNameOk r = true := by
  cases r with
  | nil => simp [checkRepo, repoNameOk]
  | cons x xs =>
    have hall : (x :: xs).all repoChar = nameChars ['_', '-'] (x :: xs) := by
      unfold nameChars
      congr 1
      funext y
      simp only [repoChar, isAlnum, List.contains_cons, List.contains_nil, Bool.or_false, Bool.or_assoc]
    unfold checkRepo
    simp only [repoNameOk, List.isEmpty_cons, Bool.not_false, Bool.true_and, startsWithAny,
      List.contains_cons, List.contains_nil, Bool.or_false, ← hall]
    by_cases h1 : x = '-'
    · subst h1; simp
    · have : (x == '-') = false := by simp [h1]
      simp only [h1, if_false, this]
      cases hs : (x :: xs).all repoChar <;> simp

/-- the `"::"` found is the first one: the text in front of it does not end in `:` -/
theorem breakDColon_min {s a b : Str} (h : breakDColon s = some (a, b)) : a.getLast? ≠ some ':' := by
  induction s generalizing a b with
  | nil => simp [breakDColon] at h
  | cons x xs ih =>
    cases xs with
    | nil => simp [breakDColon] at h
    | cons y r =>
      unfold breakDColon at h
      by_cases hxy : x = ':' ∧ y = ':'
      · simp only [hxy, and_self, if_true, Option.some.injEq, Prod.mk.injEq] at h
        obtain ⟨rfl, rfl⟩ := h
        simp
      · simp only [hxy, if_false] at h
        cases hb : breakDColon (y :: r) with
        | none => simp [hb] at h
        | some p =>
          obtain ⟨a', b'⟩ := p
          simp only [hb, Option.some.injEq, Prod.mk.injEq] at h
          obtain ⟨rfl, rfl⟩ := h
          cases a' with
          | nil =>
            have := breakDColon_sound hb
            simp only [List.nil_append, List.cons.injEq] at this
            simp only [List.getLast?_singleton, ne_eq, Option.some.injEq]
            intro hx
            exact hxy ⟨hx, this.1⟩
          | cons z zs =>
            rw [List.getLast?_cons_cons]
            exact ih hb

def repoTxtOf : Option Str → Str
  | some r => ':' :: ':' :: r
  | none => []

def slotPartTxt (sl ss op : Option Str) : Str :=
  if slotTxtOf sl ss op = [] then [] else ':' :: slotTxtOf sl ss op

theorem colon_not_mem_slotTxt {d : Dialect} {o : Opts} {sl ss op : Option Str} (h : slotOk' d o sl ss op) {x : Char}
    (hx : x.isAlphanum = false) (he : ['+', '_', '.', '-', '/', '=', '*'].contains x = false) :
    x ∉ slotTxtOf sl ss op := by
  have he' : ['+', '_', '.', '-'].contains x = false := by
    simp only [List.contains_cons, List.contains_nil, Bool.or_false, Bool.or_eq_false_iff] at he ⊢
    exact ⟨he.1, he.2.1, he.2.2.1, he.2.2.2.1⟩
  have h1 : x ≠ '/' := by rintro rfl; simp at he
  have h2 : x ≠ '=' := by rintro rfl; simp at he
  have h3 : x ≠ '*' := by rintro rfl; simp at he
  cases sl with
  | none =>
    obtain ⟨_, hop⟩ := h
    rcases hop with rfl | ⟨_, rfl | rfl⟩ <;> simp [slotTxtOf, h2, h3]
  | some s =>
    obtain ⟨_, hs, hss, _⟩ := h
    intro hm
    simp only [slotTxtOf, List.mem_append] at hm
    rcases hm with (hm | hm) | hm
    · exact not_mem_slotName hs hx he' hm
    · cases ss with
      | none => simp at hm
      | some y =>
        simp only [List.mem_cons] at hm
        rcases hm with hm | hm
        · exact h1 hm
        · exact not_mem_slotName hss.2 hx he' hm
    · split at hm
      · simp only [List.mem_singleton] at hm; exact h2 hm
      · simp at hm

theorem slotTxtOf_nil {d : Dialect} {o : Opts} {sl ss op : Option Str} (h : slotOk' d o sl ss op)
    (he : slotTxtOf sl ss op = []) : sl = none ∧ ss = none ∧ op = none := by
  cases sl with
  | none =>
    obtain ⟨rfl, hop⟩ := h
    rcases hop with rfl | ⟨_, rfl | rfl⟩
    · exact ⟨rfl, rfl, rfl⟩
    · simp [slotTxtOf] at he
    · simp [slotTxtOf] at he
  | some s =>
    obtain ⟨_, hs, _, _⟩ := h
    obtain ⟨c, cs, rfl, _⟩ := slotNameOk_chars hs
    simp [slotTxtOf] at he

theorem parseSlotPart_complete {o : Opts} {sl ss op repo : Option Str} (hs : slotOk' lenient o sl ss op)
    (hr : ∀ r, repo = some r → repoNameOk r = true) {rest : Str}
    (hrest : ':' :: rest = slotPartTxt sl ss op ++ repoTxtOf repo) :
    parseSlotPart o rest = .ok ⟨sl, ss, op, repo⟩ := by
  have hcolon : ':' ∉ slotTxtOf sl ss op := colon_not_mem_slotTxt hs (by decide) (by decide)
  unfold slotPartTxt at hrest
  unfold parseSlotPart
  cases repo with
  | none =>
    by_cases he : slotTxtOf sl ss op = []
    · simp [he, repoTxtOf] at hrest
    · simp only [he, if_false, repoTxtOf, List.append_nil, List.cons.injEq, true_and] at hrest
      subst hrest
      have hnon : (slotTxtOf sl ss op).isEmpty = false := by simpa using he
      simp only [breakDColon_colon_of_not_mem hcolon, hnon, Bool.false_eq_true, if_false,
        parseSlotText_complete hs he]
  | some r =>
    have hrk : checkRepo r = .ok () := (checkRepo_iff r).mpr (hr r rfl)
    by_cases he : slotTxtOf sl ss op = []
    · simp only [he, if_true, List.nil_append, repoTxtOf, List.cons.injEq, true_and] at hrest
      subst hrest
      obtain ⟨rfl, rfl, rfl⟩ := slotTxtOf_nil hs he
      simp [breakDColon_repo, hrk]
    · simp only [he, if_false, repoTxtOf, List.cons_append, List.cons.injEq, true_and] at hrest
      subst hrest
      have hnon : (slotTxtOf sl ss op).isEmpty = false := by simpa using he
      rw [show ':' :: (slotTxtOf sl ss op ++ ':' :: ':' :: r) = ':' :: slotTxtOf sl ss op ++ ':' :: ':' :: r from rfl,
        breakDColon_slot_repo r hcolon he]
      simp only [List.tail_cons, hrk, hnon, Bool.false_eq_true, if_false, parseSlotText_complete hs he]

theorem parseSlotPart_sound {o : Opts} {rest : Str} {si : SlotInfo} (h : parseSlotPart o rest = .ok si) :
    ':' :: rest = slotPartTxt si.slot si.subslot si.slotOp ++ repoTxtOf si.repo ∧
      ((si.slot.isSome = true → o.hasSlotDeps = true) → slotOk' lenient o si.slot si.subslot si.slotOp) ∧
      (∀ r, si.repo = some r → repoNameOk r = true) := by
  unfold parseSlotPart at h
  -- common tail of both branches
  have key : ∀ (slotTxt : Str) (repo : Option Str),
      (∀ r, repo = some r → repoNameOk r = true) →
      (slotTxt = [] → repo.isSome = true → ':' :: rest = repoTxtOf repo) →
      (slotTxt ≠ [] → ':' :: rest = ':' :: slotTxt ++ repoTxtOf repo) →
      (if slotTxt.isEmpty = true then
          if repo.isNone = true then (Except.error Err.slotEmpty : Except Err SlotInfo) else .ok ⟨none, none, none, repo⟩
        else
          match parseSlotText o slotTxt with
          | .error e => .error e
          | .ok (s, ss, op) => .ok ⟨s, ss, op, repo⟩) = .ok si →
      ':' :: rest = slotPartTxt si.slot si.subslot si.slotOp ++ repoTxtOf si.repo ∧
        ((si.slot.isSome = true → o.hasSlotDeps = true) → slotOk' lenient o si.slot si.subslot si.slotOp) ∧
        (∀ r, si.repo = some r → repoNameOk r = true) := by
    intro slotTxt repo hrepo h0 h1 h
    cases slotTxt with
    | nil =>
      simp only [List.isEmpty_nil, if_true] at h
      cases repo with
      | none => simp at h
      | some r =>
        simp only [Option.isNone_some, Bool.false_eq_true, if_false, Except.ok.injEq] at h
        subst h
        refine ⟨?_, fun _ => ⟨rfl, Or.inl rfl⟩, hrepo⟩
        simp only [slotPartTxt, slotTxtOf, Option.getD_none, if_true, List.nil_append]
        exact h0 rfl rfl
    | cons c t =>
      simp only [List.isEmpty_cons, Bool.false_eq_true, if_false] at h
      cases hp : parseSlotText o (c :: t) with
      | error e => simp [hp] at h
      | ok q =>
        obtain ⟨s, ss, op⟩ := q
        simp only [hp, Except.ok.injEq] at h
        subst h
        obtain ⟨htxt, hok⟩ := parseSlotText_sound hp
        refine ⟨?_, hok, hrepo⟩
        have hne : slotTxtOf s ss op ≠ [] := by rw [← htxt]; simp
        simp only [slotPartTxt, ← htxt]
        exact h1 (by simp)
  cases hb : breakDColon (':' :: rest) with
  | none =>
    simp only [hb] at h
    exact key rest none (by simp) (by simp) (fun _ => by simp [repoTxtOf]) h
  | some p =>
    obtain ⟨before, r⟩ := p
    simp only [hb] at h
    cases hck : checkRepo r with
    | error e => simp [hck] at h
    | ok u =>
      simp only [hck] at h
      have hsplit := breakDColon_sound hb
      have hmin := breakDColon_min hb
      refine key before.tail (some r) (fun r' e => by
        simp only [Option.some.injEq] at e; subst e; exact (checkRepo_iff _).mp hck) ?_ ?_ h
      · intro he _
        cases before with
        | nil => simpa [repoTxtOf] using hsplit
        | cons c t =>
          simp only [List.tail_cons] at he
          subst he
          simp only [List.cons_append, List.nil_append, List.cons.injEq] at hsplit
          simp only [List.getLast?_singleton, ne_eq, Option.some.injEq] at hmin
          exact absurd hsplit.1.symm hmin
      · intro hne
        cases before with
        | nil => simp at hne
        | cons c t =>
          simp only [List.cons_append, List.cons.injEq] at hsplit
          simp only [List.tail_cons, repoTxtOf]
          rw [hsplit.2]
          simp

end Pkgcore.C03
