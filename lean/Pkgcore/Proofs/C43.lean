import Pkgcore.Spec.C43
/-! helper lemmas for C43 -/
set_option linter.unusedSectionVars false
set_option linter.unusedVariables false
set_option linter.unusedSimpArgs false
namespace Pkgcore.C43
open Pkgcore.C43.Spec

/-! ## the lookup table built by `_integrate_config_source` -/

/-- the stack of a name in the model's table, as a plain list -/
def stkOf (lk : Lookup) (n : Name) : List Sec := (lk.lookup n).getD []

theorem stackOf_eq (lk : Lookup) (n : Name) :
    stackOf lk n = match stkOf lk n with | [] => none | c :: r => some (c, r) := by
  unfold stackOf stkOf
  cases h : lk.lookup n with
  | none => simp
  | some st => cases st <;> simp

theorem lookup_pushLeft (lk : Lookup) (n m : Name) (s : Sec) :
    (pushLeft lk n s).lookup m = if m = n then some (s :: (lk.lookup n).getD []) else lk.lookup m := by
  induction lk with
  | nil =>
    simp only [pushLeft, List.lookup]
    by_cases h : m = n
    · subst h; simp
    · have : (m == n) = false := by simp [h]
      simp [h, this]
  | cons p lk ih =>
    obtain ⟨k, st⟩ := p
    simp only [pushLeft]
    by_cases hk : k = n
    · subst hk
      by_cases h : m = k
      · subst h; simp [List.lookup]
      · have : (m == k) = false := by simp [h]
        simp [List.lookup, h, this]
    · simp only [hk, if_false, List.lookup]
      by_cases h : m = k
      · subst h
        have : ¬ m = n := hk
        simp [this]
      · have : (m == k) = false := by simp [h]
        simp only [this]
        rw [ih]
        by_cases hmn : m = n
        · subst hmn
          have : (m == k) = false := by simp [h]
          simp [this]
        · simp [hmn]

theorem stkOf_pushLeft (lk : Lookup) (n m : Name) (s : Sec) :
    stkOf (pushLeft lk n s) m = if m = n then s :: stkOf lk n else stkOf lk m := by
  unfold stkOf
  rw [lookup_pushLeft]
  by_cases h : m = n <;> simp [h]

theorem stkOf_integrate (src : Source) (lk : Lookup) (m : Name) (hnd : (src.map (·.1)).Nodup) :
    stkOf (integrate lk src) m = (src.lookup m).toList ++ stkOf lk m := by
  unfold integrate
  induction src generalizing lk with
  | nil => simp [List.lookup]
  | cons p src ih =>
    obtain ⟨n, s⟩ := p
    simp only [List.map_cons, List.nodup_cons] at hnd
    simp only [List.foldl_cons]
    rw [ih _ hnd.2, stkOf_pushLeft]
    simp only [List.lookup]
    by_cases h : m = n
    · subst h
      have hl : src.lookup m = none := by
        cases hl : src.lookup m with
        | none => rfl
        | some s' =>
          exfalso
          apply hnd.1
          have : ∀ (l : Source), l.lookup m = some s' → m ∈ l.map (·.1) := by
            intro l
            induction l with
            | nil => simp [List.lookup]
            | cons q l ihl =>
              obtain ⟨a, b⟩ := q
              simp only [List.lookup]
              split
              · rename_i heq; simp at heq; simp [heq]
              · intro hq; simp [ihl hq]
          exact this src hl
      simp [hl]
    · have : (m == n) = false := by simp [h]
      simp [this, h]

theorem stackOf_cons (sources : List Source) (src : Source) (m : Name) :
    Spec.stackOf (src :: sources) m = Spec.stackOf sources m ++ (src.lookup m).toList := by
  unfold Spec.stackOf
  simp only [List.reverse_cons, List.filterMap_append, List.filterMap_cons, List.filterMap_nil]
  cases src.lookup m <;> simp

theorem stkOf_foldl (sources : List Source) (lk : Lookup) (m : Name)
    (hnd : ∀ src ∈ sources, (src.map (·.1)).Nodup) :
    stkOf (sources.foldl integrate lk) m = Spec.stackOf sources m ++ stkOf lk m := by
  induction sources generalizing lk with
  | nil => simp [Spec.stackOf]
  | cons src sources ih =>
    simp only [List.foldl_cons]
    rw [ih _ (fun s hs => hnd s (by simp [hs])), stkOf_integrate _ _ _ (hnd src (by simp)), stackOf_cons]
    simp

theorem stkOf_buildLookup (sources : List Source) (m : Name)
    (hnd : ∀ src ∈ sources, (src.map (·.1)).Nodup) :
    stkOf (buildLookup sources) m = Spec.stackOf sources m := by
  unfold buildLookup
  rw [stkOf_foldl _ _ _ hnd]
  simp [stkOf, List.lookup]

/-! ## generations -/

variable (stk : Name → List Sec)

theorem lev_nil (d : Nat) : lev stk d [] = [] := by
  induction d with
  | zero => rfl
  | succ d ih => simpa [lev] using ih

theorem lev_append (d : Nat) (a b : List Entry) : lev stk d (a ++ b) = lev stk d a ++ lev stk d b := by
  induction d generalizing a b with
  | zero => rfl
  | succ d ih => simp [lev, List.flatMap_append, ih]

theorem lev_succ' (d : Nat) (q : List Entry) : lev stk (d + 1) q = (lev stk d q).flatMap (kids stk) := by
  induction d generalizing q with
  | zero => rfl
  | succ d ih =>
    show lev stk (d + 1) (q.flatMap (kids stk)) = _
    rw [ih]
    rfl

theorem lev_nil_succ (d : Nat) (q : List Entry) (h : lev stk d q = []) : lev stk (d + 1) q = [] := by
  rw [lev_succ', h]; rfl

theorem lev_nil_ge (d d' : Nat) (q : List Entry) (h : lev stk d q = []) (hle : d ≤ d') : lev stk d' q = [] := by
  induction hle with
  | refl => exact h
  | step _ ih => exact lev_nil_succ stk _ q ih

theorem upTo_nil (D : Nat) : upTo stk D [] = [] := by
  induction D with
  | zero => rfl
  | succ D ih => simpa [upTo] using ih

theorem upTo_succ' (D : Nat) (q : List Entry) : upTo stk (D + 1) q = upTo stk D q ++ lev stk D q := by
  induction D generalizing q with
  | zero => simp [upTo, lev]
  | succ D ih =>
    show q ++ upTo stk (D + 1) (q.flatMap (kids stk)) = _
    rw [ih]
    simp [upTo, lev, List.append_assoc]

theorem upTo_stable (D D' : Nat) (q : List Entry) (h : lev stk D q = []) (hle : D ≤ D') :
    upTo stk D' q = upTo stk D q := by
  induction hle with
  | refl => rfl
  | step hle ih => rw [upTo_succ', lev_nil_ge stk D _ q h hle, ih]; simp

/-- the queue identity behind breadth-first search: visiting `a` first and queueing its children behind `b`
enumerates the same sequence as the generations of `a ++ b` -/
theorem upTo_queue (D : Nat) (a b : List Entry) (h : lev stk D (b ++ a.flatMap (kids stk)) = []) :
    upTo stk (D + 1) (a ++ b) = a ++ upTo stk D (b ++ a.flatMap (kids stk)) := by
  induction D generalizing a b with
  | zero =>
    simp only [lev] at h
    have hb : b = [] := (List.append_eq_nil_iff.1 h).1
    simp [upTo, hb]
  | succ D ih =>
    have h' : lev stk D ((b.flatMap (kids stk)) ++ (a.flatMap (kids stk)).flatMap (kids stk)) = [] := by
      simpa [lev, List.flatMap_append] using h
    show (a ++ b) ++ upTo stk (D + 1) ((a ++ b).flatMap (kids stk)) = a ++ upTo stk (D + 1) (b ++ a.flatMap (kids stk))
    rw [List.flatMap_append, ih _ _ h']
    simp [upTo, List.flatMap_append, List.append_assoc]


theorem lev_single_succ (D : Nat) (e : Entry) : lev stk (D + 1) [e] = lev stk D (kids stk e) := by
  simp [lev]

/-- one step of the queue, read forwards (used for soundness) -/
theorem queue_step (D : Nat) (e : Entry) (q' : List Entry) (h : lev stk D (q' ++ kids stk e) = []) :
    lev stk (D + 1) (e :: q') = [] ∧ upTo stk (D + 1) (e :: q') = e :: upTo stk D (q' ++ kids stk e) := by
  have hq : lev stk D q' = [] ∧ lev stk D (kids stk e) = [] := by
    rw [lev_append] at h; exact List.append_eq_nil_iff.1 h
  constructor
  · show lev stk D ((e :: q').flatMap (kids stk)) = []
    rw [List.flatMap_cons, lev_append, hq.2]
    have := lev_nil_succ stk D q' hq.1
    simpa [lev] using this
  · have := upTo_queue stk D [e] q' (by simpa using h)
    simpa using this

/-- one step of the queue, read backwards (used for completeness) -/
theorem queue_step' (D : Nat) (e : Entry) (q' : List Entry) (h : lev stk D (e :: q') = []) :
    lev stk D (q' ++ kids stk e) = [] ∧ upTo stk D (e :: q') = e :: upTo stk D (q' ++ kids stk e) := by
  have h' : lev stk D ([e] ++ q') = [] := h
  rw [lev_append] at h'
  obtain ⟨h1, h2⟩ := List.append_eq_nil_iff.1 h'
  have h3 : lev stk D (kids stk e) = [] := by
    rw [← lev_single_succ]; exact lev_nil_succ stk D [e] h1
  have hq : lev stk D (q' ++ kids stk e) = [] := by rw [lev_append, h2, h3]; rfl
  refine ⟨hq, ?_⟩
  have := (queue_step stk D e q' hq).2
  rw [upTo_succ', h] at this
  simpa using this

theorem dangling_false_iff (e : Entry) :
    dangling stk e = false ↔ ∀ i ∈ inherits e, (target stk e i).isSome = true := by
  unfold dangling
  rw [Bool.eq_false_iff]
  simp only [ne_eq, List.any_eq_true, not_exists, not_and]
  constructor
  · intro h i hi
    cases ht : target stk e i with
    | none => exact absurd (by simp [ht]) (h i hi)
    | some _ => rfl
  · intro h i hi hn
    have := h i hi
    cases ht : target stk e i <;> simp_all

/-! ## the `for inherit in inherits` loop -/

theorem stackOf_some_iff (lk : Lookup) (i : Name) (c : Sec) (r : List Sec) :
    stackOf lk i = some (c, r) ↔ stkOf lk i = c :: r := by
  rw [stackOf_eq]
  cases stkOf lk i <;> simp

theorem stackOf_none_iff (lk : Lookup) (i : Name) : stackOf lk i = none ↔ stkOf lk i = [] := by
  rw [stackOf_eq]
  cases stkOf lk i <;> simp

/-- what a successful expansion did -/
theorem expand_ok (lk : Lookup) (e : Entry) (inh : List Name) (v : List Name) (adds adds' : List Entry) (v' : List Name)
    (h : expand lk e.name e.rest inh v adds = .ok (adds', v')) :
    adds' = adds ++ inh.filterMap (target (stkOf lk) e) ∧
    (∀ i ∈ inh, (target (stkOf lk) e i).isSome = true) ∧
    v' = v ++ inh.filter (· ≠ e.name) := by
  induction inh generalizing v adds with
  | nil => simp [expand] at h; simp [h.1, h.2]
  | cons i is ih =>
    unfold expand at h
    by_cases hic : i = e.name
    · simp only [hic, if_true] at h
      cases hr : e.rest with
      | nil => simp [hr] at h
      | cons c r =>
        simp only [hr] at h
        have ht : target (stkOf lk) e i = some ⟨e.name, c, r⟩ := by simp [target, hic, hr]
        rw [← hr] at h
        obtain ⟨h1, h2, h3⟩ := ih _ _ h
        refine ⟨?_, ?_, ?_⟩
        · simp [h1, List.filterMap_cons, ht]
        · intro j hj
          rcases List.mem_cons.1 hj with rfl | hj
          · simp [ht]
          · exact h2 j hj
        · simp [h3, List.filter_cons, hic]
    · simp only [hic, if_false] at h
      by_cases hiv : i ∈ v
      · simp [hiv] at h
      · simp only [hiv, if_false] at h
        cases hs : stackOf lk i with
        | none => simp [hs] at h
        | some p =>
          obtain ⟨c, r⟩ := p
          simp only [hs] at h
          have ht : target (stkOf lk) e i = some ⟨i, c, r⟩ := by
            simp [target, hic, (stackOf_some_iff lk i c r).1 hs]
          obtain ⟨h1, h2, h3⟩ := ih _ _ h
          refine ⟨?_, ?_, ?_⟩
          · simp [h1, List.filterMap_cons, ht]
          · intro j hj
            rcases List.mem_cons.1 hj with rfl | hj
            · simp [ht]
            · exact h2 j hj
          · simp [h3, List.filter_cons, hic]

/-- when every target exists and no name is inherited twice the expansion succeeds -/
theorem expand_complete (lk : Lookup) (e : Entry) (inh : List Name) (v : List Name) (adds : List Entry)
    (ht : ∀ i ∈ inh, (target (stkOf lk) e i).isSome = true)
    (hnd : (v ++ inh.filter (· ≠ e.name)).Nodup) :
    expand lk e.name e.rest inh v adds =
      .ok (adds ++ inh.filterMap (target (stkOf lk) e), v ++ inh.filter (· ≠ e.name)) := by
  induction inh generalizing v adds with
  | nil => simp [expand]
  | cons i is ih =>
    have hti := ht i (List.mem_cons_self)
    have hts : ∀ j ∈ is, (target (stkOf lk) e j).isSome = true := fun j hj => ht j (List.mem_cons_of_mem _ hj)
    unfold expand
    by_cases hic : i = e.name
    · simp only [hic, if_true]
      cases hr : e.rest with
      | nil => simp [target, hic, hr] at hti
      | cons c r =>
        have ht' : target (stkOf lk) e i = some ⟨e.name, c, r⟩ := by simp [target, hic, hr]
        have hnd' : (v ++ is.filter (· ≠ e.name)).Nodup := by simpa [List.filter_cons, hic] using hnd
        simp only
        rw [← hr, ih _ _ hts hnd']
        rw [hic] at ht'
        simp [ht', hic]
    · simp only [hic, if_false]
      have hnd2 : (v ++ i :: is.filter (· ≠ e.name)).Nodup := by simpa [List.filter_cons, hic] using hnd
      have hiv : i ∉ v := by
        intro hv
        have := (List.nodup_append.1 hnd2).2.2 i hv i (List.mem_cons_self)
        exact this rfl
      simp only [hiv, if_false]
      cases hs : stkOf lk i with
      | nil => simp [target, hic, hs] at hti
      | cons c r =>
        have hs' := (stackOf_some_iff lk i c r).2 hs
        have ht' : target (stkOf lk) e i = some ⟨i, c, r⟩ := by simp [target, hic, hs]
        have hnd' : ((v ++ [i]) ++ is.filter (· ≠ e.name)).Nodup := by simpa using hnd2
        simp only [hs']
        rw [ih _ _ hts hnd']
        simp [List.filterMap_cons, ht', List.filter_cons, hic]

/-! ## `_get_inherited_sections` -/

/-- **soundness**: a successful expansion returns the generations below the queue in breadth-first order, and
found every target on the way -/
theorem loop_sound (lk : Lookup) (q : List Entry) (v : List Name) (acc l : List Entry)
    (h : loop lk q v acc = .ok l) :
    ∃ D, lev (stkOf lk) D q = [] ∧ l = acc.reverse ++ upTo (stkOf lk) D q ∧
      ∀ e ∈ upTo (stkOf lk) D q, dangling (stkOf lk) e = false := by
  fun_induction loop lk q v acc
  · rename_i v acc
    refine ⟨0, rfl, ?_, by simp [upTo]⟩
    simp only [Except.ok.injEq] at h
    simp [upTo, h]
  · rename_i v acc e q' hinh ih
    obtain ⟨D, h1, h2, h3⟩ := ih h
    have hk : kids (stkOf lk) e = [] := by simp [kids, inherits, hinh]
    have hs := queue_step (stkOf lk) D e q' (by simpa [hk] using h1)
    refine ⟨D + 1, hs.1, ?_, ?_⟩
    · rw [hs.2, hk, h2]; simp
    · rw [hs.2, hk]
      intro x hx
      rcases List.mem_cons.1 hx with rfl | hx
      · rw [dangling_false_iff]; simp [inherits, hinh]
      · exact h3 x (by simpa using hx)
  · simp at h
  · rename_i v acc e q' inh hinh adds v' hex ih
    obtain ⟨D, h1, h2, h3⟩ := ih h
    obtain ⟨ha, ht, hv⟩ := expand_ok lk e inh v [] adds v' hex
    have hk : kids (stkOf lk) e = adds := by simp [kids, inherits, hinh, ha]
    have hs := queue_step (stkOf lk) D e q' (by rw [hk]; exact h1)
    refine ⟨D + 1, hs.1, ?_, ?_⟩
    · rw [hs.2, hk, h2]; simp
    · rw [hs.2, hk]
      intro x hx
      rcases List.mem_cons.1 hx with rfl | hx
      · rw [dangling_false_iff]; simpa [inherits, hinh] using ht
      · exact h3 x hx

/-- **completeness**: if the generations below the queue run out, every target exists and no name (besides those
already inherited) is inherited twice, the expansion succeeds -/
theorem loop_complete (lk : Lookup) (q : List Entry) (v : List Name) (acc : List Entry) :
    ∀ D, lev (stkOf lk) D q = [] → (∀ e ∈ upTo (stkOf lk) D q, dangling (stkOf lk) e = false) →
      (v ++ (upTo (stkOf lk) D q).flatMap nonSelf).Nodup → ∃ l, loop lk q v acc = .ok l := by
  fun_induction loop lk q v acc
  · intro D _ _ _; exact ⟨_, rfl⟩
  · rename_i v acc e q' hinh ih
    intro D h1 h2 h3
    obtain ⟨hq, hu⟩ := queue_step' (stkOf lk) D e q' h1
    have hk : kids (stkOf lk) e = [] := by simp [kids, inherits, hinh]
    have hn : nonSelf e = [] := by simp [nonSelf, inherits, hinh]
    rw [hk] at hq hu
    simp only [List.append_nil] at hq hu
    refine ih D hq (fun x hx => h2 x (by rw [hu]; exact List.mem_cons_of_mem _ hx)) ?_
    rw [hu, List.flatMap_cons, hn] at h3
    simpa using h3
  · rename_i v acc e q' inh hinh err hex
    intro D h1 h2 h3
    exfalso
    obtain ⟨hq, hu⟩ := queue_step' (stkOf lk) D e q' h1
    have he : dangling (stkOf lk) e = false := h2 e (by rw [hu]; exact List.mem_cons_self)
    rw [dangling_false_iff] at he
    have hn : nonSelf e = inh.filter (· ≠ e.name) := by simp [nonSelf, inherits, hinh]
    rw [hu, List.flatMap_cons, hn, ← List.append_assoc] at h3
    have := expand_complete lk e inh v [] (by simpa [inherits, hinh] using he) (List.nodup_append.1 h3).1
    rw [this] at hex
    simp at hex
  · rename_i v acc e q' inh hinh adds v' hex ih
    intro D h1 h2 h3
    obtain ⟨hq, hu⟩ := queue_step' (stkOf lk) D e q' h1
    have he : dangling (stkOf lk) e = false := h2 e (by rw [hu]; exact List.mem_cons_self)
    rw [dangling_false_iff] at he
    have hn : nonSelf e = inh.filter (· ≠ e.name) := by simp [nonSelf, inherits, hinh]
    rw [hu, List.flatMap_cons, hn, ← List.append_assoc] at h3
    have := expand_complete lk e inh v [] (by simpa [inherits, hinh] using he) (List.nodup_append.1 h3).1
    rw [this] at hex
    simp only [List.nil_append, Except.ok.injEq, Prod.mk.injEq] at hex
    obtain ⟨rfl, rfl⟩ := hex
    have hk : kids (stkOf lk) e = inh.filterMap (target (stkOf lk) e) := by simp [kids, inherits, hinh]
    rw [hk] at hq hu h3
    exact ih D hq (fun x hx => h2 x (by rw [hu]; exact List.mem_cons_of_mem _ hx)) h3


/-! ## reachability versus generations -/

theorem mem_upTo (D d : Nat) (q : List Entry) (x : Entry) (hd : d < D) (hx : x ∈ lev stk d q) : x ∈ upTo stk D q := by
  induction D with
  | zero => omega
  | succ D ih =>
    rw [upTo_succ']
    by_cases h : d < D
    · exact List.mem_append_left _ (ih h)
    · have : d = D := by omega
      subst this
      exact List.mem_append_right _ hx

theorem reach_in_lev (r e : Entry) (h : Reach stk r e) : ∃ d, e ∈ lev stk d [r] := by
  induction h with
  | refl => exact ⟨0, by simp [lev]⟩
  | step _ hc ih =>
    obtain ⟨d, hd⟩ := ih
    refine ⟨d + 1, ?_⟩
    rw [lev_succ']
    exact List.mem_flatMap.2 ⟨_, hd, hc⟩

theorem reachPlus_shift (q : List Entry) (a b : Entry) (h : ReachPlus stk a b) (d : Nat) (ha : a ∈ lev stk d q) :
    ∃ d', d < d' ∧ b ∈ lev stk d' q := by
  induction h with
  | one hc =>
    refine ⟨d + 1, by omega, ?_⟩
    rw [lev_succ']
    exact List.mem_flatMap.2 ⟨_, ha, hc⟩
  | step _ hc ih =>
    obtain ⟨d', hlt, hb⟩ := ih
    refine ⟨d' + 1, by omega, ?_⟩
    rw [lev_succ']
    exact List.mem_flatMap.2 ⟨_, hb, hc⟩

/-- a node on a cycle shows up in arbitrarily late generations -/
theorem cycle_unbounded (q : List Entry) (e : Entry) (hc : ReachPlus stk e e) (d : Nat) (he : e ∈ lev stk d q) (n : Nat) :
    ∃ d', n ≤ d' ∧ e ∈ lev stk d' q := by
  induction n with
  | zero => exact ⟨d, by omega, he⟩
  | succ n ih =>
    obtain ⟨d', hle, hd'⟩ := ih
    obtain ⟨d'', hlt, hd''⟩ := reachPlus_shift stk q e e hc d' hd'
    exact ⟨d'', by omega, hd''⟩

/-- if the generations below `r` run out and every node found has all its targets, nothing is missing and nothing
is cyclic -/
theorem no_missing_no_cycle (r : Entry) (D : Nat) (h1 : lev stk D [r] = [])
    (h3 : ∀ e ∈ upTo stk D [r], dangling stk e = false) : ¬ Missing stk r ∧ ¬ Cyclic stk r := by
  constructor
  · rintro ⟨e, hr, hd⟩
    obtain ⟨d, hed⟩ := reach_in_lev stk r e hr
    have hlt : d < D := by
      apply Classical.byContradiction
      intro hn
      have := lev_nil_ge stk D d [r] h1 (by omega)
      rw [this] at hed
      simp at hed
    have := h3 e (mem_upTo stk D d [r] e hlt hed)
    rw [this] at hd
    simp at hd
  · rintro ⟨e, hr, hc⟩
    obtain ⟨d, hed⟩ := reach_in_lev stk r e hr
    obtain ⟨d', hle, hd'⟩ := cycle_unbounded stk [r] e hc d hed D
    have := lev_nil_ge stk D d' [r] h1 hle
    rw [this] at hd'
    simp at hd'

/-! ## `collapse_section` -/

theorem mem_dedup (l : List String) (x : String) : x ∈ dedup l ↔ x ∈ l := by
  induction l with
  | nil => simp [dedup]
  | cons a l ih =>
    simp only [dedup, List.mem_cons, List.mem_filter, ih]
    by_cases h : x = a <;> simp [h]

theorem nodup_dedup (l : List String) : (dedup l).Nodup := by
  induction l with
  | nil => simp [dedup]
  | cons a l ih =>
    simp only [dedup, List.nodup_cons]
    exact ⟨by simp [List.mem_filter], ih.filter _⟩

theorem lookup_filterMap_keys (keys : List String) (f : String → Option String) (k : String) (hnd : keys.Nodup) :
    (keys.filterMap (fun k => (f k).map (k, ·))).lookup k = if k ∈ keys then f k else none := by
  induction keys with
  | nil => simp [List.lookup]
  | cons a keys ih =>
    simp only [List.nodup_cons] at hnd
    simp only [List.filterMap_cons]
    by_cases hka : k = a
    · subst hka
      cases hf : f k with
      | none =>
        simp only [Option.map_none, List.mem_cons, true_or, if_true]
        rw [ih hnd.2]; simp [hnd.1]
      | some v => simp [List.lookup]
    · have hbeq : (k == a) = false := by simp [hka]
      cases hf : f a with
      | none => simp only [Option.map_none]; rw [ih hnd.2]; simp [hka]
      | some v => simp only [Option.map_some, List.lookup, hbeq]; rw [ih hnd.2]; simp [hka]

theorem keys_filterMap_nodup (keys : List String) (f : String → Option String) (hnd : keys.Nodup) :
    ((keys.filterMap (fun k => (f k).map (k, ·))).map (·.1)).Nodup := by
  induction keys with
  | nil => simp
  | cons a keys ih =>
    simp only [List.nodup_cons] at hnd
    simp only [List.filterMap_cons]
    cases hf : f a with
    | none => simpa using ih hnd.2
    | some v =>
      simp only [Option.map_some, List.map_cons, List.nodup_cons]
      refine ⟨?_, ih hnd.2⟩
      intro hm
      simp only [List.mem_map, List.mem_filterMap] at hm
      obtain ⟨⟨k', v'⟩, ⟨k'', hk'', hv⟩, rfl⟩ := hm
      cases hf' : f k'' with
      | none => simp [hf'] at hv
      | some w =>
        simp only [hf', Option.map_some, Option.some.injEq, Prod.mk.injEq] at hv
        exact hnd.1 (hv.1 ▸ hk'')

theorem firstDef_some_mem (k v : String) (slist : List Entry) (h : firstDef k slist = some v) :
    k ∈ slist.flatMap (fun e => e.conf.items.map (·.1)) := by
  unfold firstDef at h
  obtain ⟨e, he, hl⟩ := List.exists_of_findSome?_eq_some h
  refine List.mem_flatMap.2 ⟨e, he, ?_⟩
  have : ∀ (l : List (String × String)), l.lookup k = some v → k ∈ l.map (·.1) := by
    intro l
    induction l with
    | nil => simp [List.lookup]
    | cons q l ihl =>
      obtain ⟨a, b⟩ := q
      simp only [List.lookup]
      split
      · rename_i heq; simp at heq; simp [heq]
      · intro hq; simp [ihl hq]
  exact this _ hl

/-- what `collapse` returns when it returns: the relevant sections and, per key, the first definition -/
theorem collapse_ok (lk : Lookup) (name : Name) (cfg : List (String × String)) (h : collapse lk name = .ok cfg) :
    ∃ c r slist, stackOf lk name = some (c, r) ∧ c.inheritOnly = false ∧
      loop lk [⟨name, c, r⟩] [name] [] = .ok slist ∧ (firstDef "class" slist).isSome = true ∧
      (∀ k, k ∉ specialKeys → cfg.lookup k = firstDef k slist) ∧
      (∀ k, k ∈ specialKeys → cfg.lookup k = none) ∧ (cfg.map (·.1)).Nodup := by
  unfold collapse at h
  cases hs : stackOf lk name with
  | none => simp [hs] at h
  | some p =>
    obtain ⟨c, r⟩ := p
    simp only [hs] at h
    by_cases hio : c.inheritOnly = true
    · simp [hio] at h
    · simp only [hio, Bool.false_eq_true, if_false] at h
      cases hl : loop lk [⟨name, c, r⟩] [name] [] with
      | error e => simp [hl] at h
      | ok slist =>
        simp only [hl] at h
        cases hc : firstDef "class" slist with
        | none => simp [hc] at h
        | some cv =>
          simp only [hc, Except.ok.injEq] at h
          have hnd : ((dedup (slist.flatMap (fun e => e.conf.items.map (·.1)))).filter
              (fun k => !(specialKeys.contains k))).Nodup := (nodup_dedup _).filter _
          refine ⟨c, r, slist, rfl, by simpa using hio, hl, by simp [hc], ?_, ?_, ?_⟩
          · intro k hk
            rw [← h, lookup_filterMap_keys _ _ _ hnd]
            simp only [List.mem_filter, mem_dedup]
            split
            · rfl
            · rename_i hn
              cases hf : firstDef k slist with
              | none => rfl
              | some v =>
                exfalso
                apply hn
                exact ⟨firstDef_some_mem k v slist hf, by simpa using hk⟩
          · intro k hk
            rw [← h, lookup_filterMap_keys _ _ _ hnd]
            simp only [List.mem_filter, mem_dedup]
            split
            · rename_i hm
              have := hm.2
              simp at this
              exact absurd hk this
            · rfl
          · rw [← h]; exact keys_filterMap_nodup _ _ hnd

theorem finish_ok (slist : List Entry) (cfg : List (String × String)) (h : finish slist = .ok cfg) :
    (firstDef "class" slist).isSome = true ∧
      (∀ k, k ∉ specialKeys → cfg.lookup k = firstDef k slist) ∧
      (∀ k, k ∈ specialKeys → cfg.lookup k = none) ∧ (cfg.map (·.1)).Nodup := by
  unfold finish at h
  cases hc : firstDef "class" slist with
  | none => simp [hc] at h
  | some cv =>
    simp only [hc, Except.ok.injEq] at h
    have hnd : ((dedup (slist.flatMap (fun e => e.conf.items.map (·.1)))).filter
        (fun k => !(specialKeys.contains k))).Nodup := (nodup_dedup _).filter _
    refine ⟨by simp, ?_, ?_, ?_⟩
    · intro k hk
      rw [← h, lookup_filterMap_keys _ _ _ hnd]
      simp only [List.mem_filter, mem_dedup]
      split
      · rfl
      · rename_i hn
        cases hf : firstDef k slist with
        | none => rfl
        | some v =>
          exfalso
          apply hn
          exact ⟨firstDef_some_mem k v slist hf, by simpa using hk⟩
    · intro k hk
      rw [← h, lookup_filterMap_keys _ _ _ hnd]
      simp only [List.mem_filter, mem_dedup]
      split
      · rename_i hm
        have := hm.2
        simp at this
        exact absurd hk this
      · rfl
    · rw [← h]; exact keys_filterMap_nodup _ _ hnd

theorem collapseAnon_ok (lk : Lookup) (sec : Sec) (cfg : List (String × String)) (h : collapseAnon lk sec = .ok cfg) :
    ∃ slist, sec.inheritOnly = false ∧ loop lk [⟨anonName, sec, []⟩] [anonName] [] = .ok slist ∧
      (firstDef "class" slist).isSome = true ∧
      (∀ k, k ∉ specialKeys → cfg.lookup k = firstDef k slist) ∧
      (∀ k, k ∈ specialKeys → cfg.lookup k = none) ∧ (cfg.map (·.1)).Nodup := by
  unfold collapseAnon at h
  by_cases hio : sec.inheritOnly = true
  · simp [hio] at h
  · simp only [hio, Bool.false_eq_true, if_false] at h
    cases hl : loop lk [⟨anonName, sec, []⟩] [anonName] [] with
    | error e => simp [hl] at h
    | ok slist =>
      simp only [hl] at h
      exact ⟨slist, by simpa using hio, rfl, finish_ok slist cfg h⟩

theorem root_eq (lk : Lookup) (name : Name) :
    Spec.root (stkOf lk) name = (stackOf lk name).map (fun p => ⟨name, p.1, p.2⟩) := by
  rw [stackOf_eq]
  unfold Spec.root
  cases stkOf lk name <;> rfl


/-! ## the manager over time -/

/-- the table is the one of the current sources and every rendered section is what collapsing would give now -/
def MInv (m : Mgr) : Prop :=
  m.lookup = buildLookup m.sources ∧ ∀ n c, m.cache.lookup n = some c → collapse m.lookup n = .ok c

theorem minv_reload (m : Mgr) : MInv m.reload := by
  refine ⟨rfl, ?_⟩
  intro n c h
  simp [Mgr.reload, List.lookup] at h

theorem minv_init (s : List Source) : MInv (Mgr.init s) := minv_reload _

theorem minv_step (m : Mgr) (op : MOp) (h : MInv m) : MInv (m.step op).1 := by
  cases op with
  | collapse n =>
    simp only [Mgr.step]
    cases hc : m.cache.lookup n with
    | some c => exact h
    | none =>
      simp only
      cases hcol : collapse m.lookup n with
      | error e => exact h
      | ok c =>
        refine ⟨h.1, ?_⟩
        intro n' c' hl
        simp only [List.lookup] at hl
        by_cases hn : n' = n
        · subst hn
          simp at hl
          rw [← hl]; exact hcol
        · have : (n' == n) = false := by simp [hn]
          simp only [this] at hl
          exact h.2 n' c' hl
  | addSource src => exact minv_reload _
  | reload => exact minv_reload _
  | collapseAnon sec => exact h

theorem minv_run (ops : List MOp) (m : Mgr) (h : MInv m) : MInv (Mgr.run m ops).1 := by
  induction ops generalizing m with
  | nil => exact h
  | cons op ops ih => exact ih _ (minv_step m op h)

/-- the sources after a history -/
def sourcesAfter : List Source → List MOp → List Source
  | s, [] => s
  | s, .addSource src :: ops => sourcesAfter (s ++ [src]) ops
  | s, .collapse _ :: ops => sourcesAfter s ops
  | s, .reload :: ops => sourcesAfter s ops
  | s, .collapseAnon _ :: ops => sourcesAfter s ops

theorem run_sources (ops : List MOp) (m : Mgr) : (Mgr.run m ops).1.sources = sourcesAfter m.sources ops := by
  induction ops generalizing m with
  | nil => rfl
  | cons op ops ih =>
    simp only [Mgr.run]
    rw [ih]
    cases op with
    | collapse n =>
      simp only [Mgr.step, sourcesAfter]
      cases m.cache.lookup n with
      | some c => rfl
      | none => simp only; cases collapse m.lookup n <;> rfl
    | addSource src => rfl
    | reload => rfl
    | collapseAnon sec => rfl

theorem mrun_append (m : Mgr) (xs ys : List MOp) :
    Mgr.run m (xs ++ ys) = ((Mgr.run (Mgr.run m xs).1 ys).1, (Mgr.run m xs).2 ++ (Mgr.run (Mgr.run m xs).1 ys).2) := by
  induction xs generalizing m with
  | nil => simp [Mgr.run]
  | cons x xs ih => simp [Mgr.run, ih]

theorem mrun_length (m : Mgr) (xs : List MOp) : (Mgr.run m xs).2.length = xs.length := by
  induction xs generalizing m with
  | nil => simp [Mgr.run]
  | cons x xs ih => simp [Mgr.run, ih]

/-- under the invariant a collapse answers what the cache-less collapse over the current table answers -/
theorem step_collapse_of_inv (m : Mgr) (h : MInv m) (n : Name) :
    (m.step (.collapse n)).2 = some (collapse m.lookup n) := by
  simp only [Mgr.step]
  cases hc : m.cache.lookup n with
  | some c => simp [h.2 n c hc]
  | none =>
    simp only
    cases collapse m.lookup n <;> rfl

/-- an anonymous collapse never looks at (or changes) the rendered sections -/
theorem step_collapseAnon (m : Mgr) (sec : Sec) :
    (m.step (.collapseAnon sec)).2 = some (collapseAnon m.lookup sec) := rfl

end Pkgcore.C43
