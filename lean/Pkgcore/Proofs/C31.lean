import Pkgcore.Spec.C31
/-!
# C31 — helper lemmas

1. byte units: `Char.ofNat` on small numbers, UTF-8 bytes of ASCII / non-ASCII code points;
2. the bash word reader on the three quoting forms (arbitrary content, any continuation);
3. decimal numbers; 4. `sepBy1` on a joined list; 5. array literals, assignments, lines, scripts;
6. sorting / filtering of the mapping and the variable store; 7. framing.
-/
namespace Pkgcore.C31
open Pkgcore.C31.Spec

/-! ## 1. units -/

theorem toNat_ofNat_small (m : Nat) (h : m < 0xD800) : (Char.ofNat m).toNat = m := by
  have hv : m.isValidChar := Or.inl h
  unfold Char.ofNat
  rw [dif_pos hv]
  unfold Char.ofNatAux Char.toNat
  simp

theorem char_eq_of_toNat {a b : Char} (h : a.toNat = b.toNat) : a = b := by
  rw [← Char.ofNat_toNat a, ← Char.ofNat_toNat b, h]

theorem toNat_lt (c : Char) : c.toNat < 0x110000 := by
  have := c.valid
  unfold Char.toNat
  rcases this with h | ⟨_, h⟩
  · have : c.val.toNat < 0xD800 := h
    omega
  · exact h

theorem enc_ascii {c : Char} (h : c.toNat < 128) : enc c = [c] := by
  simp [enc, h]

/-- every UTF-8 byte of a non-ASCII code point is ≥ 0x80 (and a byte) -/
theorem enc_high {c : Char} (h : 128 ≤ c.toNat) : ∀ u ∈ enc c, 128 ≤ u.toNat ∧ u.toNat < 256 := by
  have hlt := toNat_lt c
  intro u hu
  unfold enc at hu
  simp only [] at hu
  split at hu
  · omega
  · split at hu
    · simp only [List.mem_cons, List.not_mem_nil, or_false] at hu
      rcases hu with rfl | rfl <;> rw [toNat_ofNat_small _ (by omega)] <;> omega
    · split at hu
      · simp only [List.mem_cons, List.not_mem_nil, or_false] at hu
        rcases hu with rfl | rfl | rfl <;> rw [toNat_ofNat_small _ (by omega)] <;> omega
      · simp only [List.mem_cons, List.not_mem_nil, or_false] at hu
        rcases hu with rfl | rfl | rfl | rfl <;> rw [toNat_ofNat_small _ (by omega)] <;> omega

theorem enc_ne_nil (c : Char) : enc c ≠ [] := by
  unfold enc
  simp only []
  repeat' split
  all_goals simp

theorem utf8_nil : utf8 [] = [] := rfl
theorem utf8_cons (c : Char) (s : Str) : utf8 (c :: s) = enc c ++ utf8 s := by simp [utf8]
theorem utf8_append (a b : Str) : utf8 (a ++ b) = utf8 a ++ utf8 b := by simp [utf8]

theorem utf8_ascii {s : Str} (h : ∀ c ∈ s, c.toNat < 128) : utf8 s = s := by
  induction s with
  | nil => rfl
  | cons c s ih =>
    rw [utf8_cons, enc_ascii (h c (by simp)), ih (fun x hx => h x (by simp [hx]))]
    rfl

/-- an ASCII unit occurs among the bytes iff the same character occurs in the text -/
theorem mem_utf8_ascii {a : Char} (ha : a.toNat < 128) {s : Str} : a ∈ utf8 s ↔ a ∈ s := by
  induction s with
  | nil => simp [utf8]
  | cons c s ih =>
    rw [utf8_cons, List.mem_append, ih, List.mem_cons]
    by_cases hc : c.toNat < 128
    · rw [enc_ascii hc]; simp
    · constructor
      · rintro (h | h)
        · have := (enc_high (by omega) a h).1; omega
        · exact Or.inr h
      · rintro (h | h)
        · subst h; omega
        · exact Or.inr h

theorem length_utf8_ge (s : Str) : s.length ≤ (utf8 s).length := by
  induction s with
  | nil => simp [utf8]
  | cons c s ih =>
    rw [utf8_cons, List.length_append, List.length_cons]
    have : 1 ≤ (enc c).length := by
      cases h : enc c with
      | nil => exact absurd h (enc_ne_nil c)
      | cons _ _ => simp
    omega

/-! ## 2. the bash word reader on the quoting forms -/

/-- prepend already-read units to the value of the rest of the word -/
def pre (w : Str) : Option (Str × Str) → Option (Str × Str)
  | some (v, r) => some (w ++ v, r)
  | none => none

theorem pre_nil (x : Option (Str × Str)) : pre [] x = x := by cases x <;> simp [pre]
theorem pre_cons (c : Char) (w : Str) (x : Option (Str × Str)) : pre (c :: w) x = cons c (pre w x) := by
  cases x <;> simp [pre, cons]
theorem pre_some (w v r : Str) : pre w (some (v, r)) = some (w ++ v, r) := rfl

/-- what may follow a complete word: the end of the text or an unquoted terminator -/
def WordEnd (rest : Str) : Prop := rest = [] ∨ ∃ c r, rest = c :: r ∧ isTerm c = true

theorem word_end {rest : Str} (h : WordEnd rest) : word rest = some ([], rest) := by
  rcases h with rfl | ⟨c, r, rfl, hc⟩
  · rw [word.eq_def]
  · rw [word.eq_def]; simp only [hc, if_true]

theorem plain_facts {c : Char} (h : isPlain c = true) :
    isTerm c = false ∧ c ≠ '\'' ∧ c ≠ '"' ∧ c ≠ '$' := by
  refine ⟨?_, ?_, ?_, ?_⟩
  · cases ht : isTerm c with
    | false => rfl
    | true =>
      simp only [isTerm, Bool.or_eq_true, beq_iff_eq] at ht
      rcases ht with ((rfl | rfl) | rfl) | rfl <;> revert h <;> decide
  all_goals (intro hc; subst hc; revert h; decide)

/-- unquoted literal units -/
theorem word_bare (w : Str) (h : ∀ c ∈ w, isPlain c = true) (rest : Str) :
    word (w ++ rest) = pre w (word rest) := by
  induction w with
  | nil => simp [pre_nil]
  | cons c w ih =>
    obtain ⟨h1, h2, h3, h4⟩ := plain_facts (h c (by simp))
    rw [List.cons_append, word.eq_def]
    simp only [h1, h2, h3, h4, h c (by simp), if_false, if_true, Bool.false_eq_true]
    rw [pre_cons, ih (fun x hx => h x (by simp [hx]))]

/-- `'w'` for any `w` without `'` and NUL -/
theorem sq_lit (w : Str) (h1 : '\'' ∉ w) (h0 : '\x00' ∉ w) (rest : Str) :
    sq (w ++ '\'' :: rest) = pre w (word rest) := by
  induction w with
  | nil => rw [List.nil_append, sq.eq_def]; simp [pre_nil]
  | cons c w ih =>
    have hc1 : c ≠ '\'' := fun e => h1 (by simp [e])
    have hc0 : c ≠ '\x00' := fun e => h0 (by simp [e])
    rw [List.cons_append, sq.eq_def]
    simp only [hc1, hc0, if_false]
    rw [pre_cons, ih (fun m => h1 (by simp [m])) (fun m => h0 (by simp [m]))]

/-- units that are literal inside `"…"` -/
def DqLit (c : Char) : Prop :=
  c ≠ '"' ∧ c ≠ '\\' ∧ c ≠ '$' ∧ c ≠ '`' ∧ c ≠ '\x00' ∧ isCtl c = false

theorem dq_lit (w : Str) (h : ∀ c ∈ w, DqLit c) (rest : Str) :
    dq (w ++ '"' :: rest) = pre w (word rest) := by
  induction w with
  | nil => rw [List.nil_append, dq.eq_def]; simp [pre_nil]
  | cons c w ih =>
    obtain ⟨h1, h2, h3, h4, h5, h6⟩ := h c (by simp)
    rw [List.cons_append, dq.eq_def]
    simp only [h1, h2, h3, h4, h5, h6, if_false, Bool.or_self, Bool.false_eq_true, decide_false]
    rw [pre_cons, ih (fun x hx => h x (by simp [hx]))]

/-- the escaping done for `$'…'`, as one pass -/
def escBoth (c : Char) : Str :=
  if c = '\\' then ['\\', '\\'] else if c = '\'' then ['\\', '\''] else [c]

/-- `$'…'` around the escaped text, for any text without NUL -/
theorem ansi_esc (w : Str) (h0 : '\x00' ∉ w) (rest : Str) :
    ansi (w.flatMap escBoth ++ '\'' :: rest) = pre w (word rest) := by
  induction w with
  | nil => rw [List.flatMap_nil, List.nil_append, ansi.eq_def]; simp [pre_nil]
  | cons c w ih =>
    have hc0 : c ≠ '\x00' := fun e => h0 (by simp [e])
    have ih' := ih (fun m => h0 (by simp [m]))
    rw [List.flatMap_cons, List.append_assoc, pre_cons]
    by_cases hb : c = '\\'
    · subst hb
      simp only [escBoth, if_true, List.cons_append, List.nil_append]
      rw [ansi.eq_def]
      simp only [show ('\\' : Char) ≠ '\'' by decide, if_false, if_true]
      rw [ansiEsc.eq_def]
      simp only [simpleEsc]
      rw [ih']
    · by_cases hq : c = '\''
      · subst hq
        simp only [escBoth, hb, if_false, if_true, List.cons_append, List.nil_append]
        rw [ansi.eq_def]
        simp only [show ('\\' : Char) ≠ '\'' by decide, if_false, if_true]
        rw [ansiEsc.eq_def]
        simp only [simpleEsc]
        rw [ih']
      · simp only [escBoth, hb, hq, if_false, List.cons_append, List.nil_append]
        rw [ansi.eq_def]
        simp only [hb, hq, hc0, if_false]
        rw [ih']

/-! ## 3. `_quote_value` read back by bash, at the byte level -/

theorem replace_two_pass (v : Str) :
    replaceChar '\'' ['\\', '\''] (replaceChar '\\' ['\\', '\\'] v) = v.flatMap escBoth := by
  induction v with
  | nil => rfl
  | cons c v ih =>
    simp only [replaceChar, List.flatMap_cons, List.flatMap_append] at ih ⊢
    rw [ih]
    by_cases hb : c = '\\'
    · subst hb; simp [escBoth]
    · by_cases hq : c = '\'' <;> simp [escBoth, hb, hq]

theorem utf8_flatMap_escBoth (v : Str) : utf8 (v.flatMap escBoth) = (utf8 v).flatMap escBoth := by
  induction v with
  | nil => rfl
  | cons c v ih =>
    rw [List.flatMap_cons, utf8_append, ih, utf8_cons, List.flatMap_append]
    congr 1
    by_cases hc : c.toNat < 128
    · rw [enc_ascii hc]
      have : utf8 (escBoth c) = escBoth c := by
        apply utf8_ascii
        intro x hx
        unfold escBoth at hx
        split at hx
        · simp at hx; rcases hx with rfl | rfl <;> decide
        · split at hx
          · simp at hx; rcases hx with rfl | rfl <;> decide
          · simp at hx; subst hx; exact hc
      rw [this]; simp
    · have hb : c ≠ '\\' := by intro e; subst e; exact hc (by decide)
      have hq : c ≠ '\'' := by intro e; subst e; exact hc (by decide)
      have h1 : escBoth c = [c] := by simp [escBoth, hb, hq]
      rw [h1, utf8_cons, utf8_nil, List.append_nil]
      have : ∀ l : Str, (∀ u ∈ l, 128 ≤ u.toNat) → l.flatMap escBoth = l := by
        intro l hl
        induction l with
        | nil => rfl
        | cons u l ihl =>
          have hu := hl u (by simp)
          have hub : u ≠ '\\' := by intro e; subst e; revert hu; decide
          have huq : u ≠ '\'' := by intro e; subst e; revert hu; decide
          rw [List.flatMap_cons, ihl (fun x hx => hl x (by simp [hx]))]
          simp [escBoth, hub, huq]
      exact (this _ (fun u hu => (enc_high (by omega) u hu).1)).symm

/-- the generated ASCII part of the `isalnum` table is exactly `[0-9A-Za-z]` -/
theorem alnum_ascii {c : Char} (h : isAlnumChar c = true) (hc : c.toNat < 128) : c.isAlphanum = true := by
  simp only [isAlnumChar, hc, if_true, inRanges, Generated.C31.alnumAscii, List.any_cons, List.any_nil,
    Bool.or_false, Bool.or_eq_true, Bool.and_eq_true, decide_eq_true_eq] at h
  simp only [Char.isAlphanum, Char.isAlpha, Char.isUpper, Char.isLower, Char.isDigit, Bool.or_eq_true,
    Bool.and_eq_true, decide_eq_true_eq, UInt32.le_iff_toNat_le]
  have : c.toNat = c.val.toNat := rfl
  have e1 : ('A' : Char).val.toNat = 65 := by decide
  have e2 : ('Z' : Char).val.toNat = 90 := by decide
  have e3 : ('a' : Char).val.toNat = 97 := by decide
  have e4 : ('z' : Char).val.toNat = 122 := by decide
  have e5 : ('0' : Char).val.toNat = 48 := by decide
  have e6 : ('9' : Char).val.toNat = 57 := by decide
  omega

/-- every byte of an all-alphanumeric text is literal both unquoted and inside `"…"` -/
theorem alnum_bytes {v : Str} (h : isAlnum v = true) : ∀ u ∈ utf8 v, isPlain u = true ∧ DqLit u := by
  simp only [isAlnum, Bool.and_eq_true, List.all_eq_true] at h
  intro u hu
  simp only [utf8, List.mem_flatMap] at hu
  obtain ⟨c, hc, huc⟩ := hu
  have hal := h.2 c hc
  by_cases hlt : c.toNat < 128
  · rw [enc_ascii hlt] at huc
    simp at huc; subst huc
    have ha := alnum_ascii hal hlt
    refine ⟨by simp [isPlain, ha], ?_⟩
    refine ⟨?_, ?_, ?_, ?_, ?_, ?_⟩
    all_goals first
      | (intro e; subst e; revert ha; decide)
      | (cases hk : isCtl u with
         | false => rfl
         | true =>
           simp only [isCtl, Bool.or_eq_true, beq_iff_eq] at hk
           rcases hk with rfl | rfl <;> revert ha <;> decide)
  · have hge := (enc_high (by omega) u huc).1
    refine ⟨by simp [isPlain, hge], ?_⟩
    refine ⟨?_, ?_, ?_, ?_, ?_, ?_⟩
    all_goals first
      | (intro e; subst e; revert hge; decide)
      | (cases hk : isCtl u with
         | false => rfl
         | true =>
           simp only [isCtl, Bool.or_eq_true, beq_iff_eq] at hk
           rcases hk with rfl | rfl <;> revert hge <;> decide)

theorem nonul_utf8 {v : Str} (h : NoNul v) : '\x00' ∉ utf8 v := by
  rw [mem_utf8_ascii (by decide)]; exact h

theorem pre_word_end (w rest : Str) (hr : WordEnd rest) : pre w (word rest) = some (w, rest) := by
  rw [word_end hr, pre_some, List.append_nil]

/-- **a quoted value is read back exactly**: the bytes of `_quote_value(v)`, followed by anything that
ends a word, are one bash word whose value is the bytes of `v` -/
theorem word_quoteValue (v : Str) (h0 : NoNul v) (rest : Str) (hr : WordEnd rest) :
    word (utf8 (quoteValue v) ++ rest) = some (utf8 v, rest) := by
  unfold quoteValue
  split
  · next hal =>
    rw [word_bare (utf8 v) (fun u hu => (alnum_bytes hal u hu).1), pre_word_end _ _ hr]
  · split
    · next _ hq =>
      have hq' : '\'' ∉ v := by simpa using hq
      have : utf8 ('\'' :: v ++ ['\'']) ++ rest = '\'' :: (utf8 v ++ '\'' :: rest) := by
        rw [List.cons_append, utf8_cons, utf8_append, enc_ascii (by decide)]
        have : utf8 ['\''] = ['\''] := utf8_ascii (by simp)
        rw [this]; simp
      rw [this, word.eq_def]
      simp only [show isTerm '\'' = false by decide, if_true, Bool.false_eq_true, if_false]
      rw [sq_lit _ (by rw [mem_utf8_ascii (by decide)]; exact hq') (nonul_utf8 h0), pre_word_end _ _ hr]
    · have : utf8 ('$' :: '\'' :: replaceChar '\'' ['\\', '\''] (replaceChar '\\' ['\\', '\\'] v) ++ ['\'']) ++ rest
          = '$' :: '\'' :: ((utf8 v).flatMap escBoth ++ '\'' :: rest) := by
        rw [replace_two_pass, List.cons_append, List.cons_append, utf8_cons, utf8_cons, utf8_append,
          utf8_flatMap_escBoth, enc_ascii (by decide), enc_ascii (by decide)]
        have : utf8 ['\''] = ['\''] := utf8_ascii (by simp)
        rw [this]; simp
      simp only []
      rw [this, word.eq_def]
      simp only [show isTerm '$' = false by decide, show ('$' : Char) ≠ '\'' by decide,
        show ('$' : Char) ≠ '"' by decide, if_true, Bool.false_eq_true, if_false]
      rw [ansi_esc _ (nonul_utf8 h0), pre_word_end _ _ hr]

/-! ## 4. decimal numbers, `span`, `joinSep`, `sepBy1` -/

theorem span_loop_append {p : Char → Bool} (a : Str) (c : Char) (r acc : Str)
    (ha : ∀ x ∈ a, p x = true) (hc : p c = false) :
    List.span.loop p (a ++ c :: r) acc = (acc.reverse ++ a, c :: r) := by
  induction a generalizing acc with
  | nil => simp [List.span.loop, hc]
  | cons x a ih =>
    rw [List.cons_append, List.span.loop]
    simp only [ha x (by simp)]
    rw [ih _ (fun y hy => ha y (by simp [hy]))]
    simp

theorem span_append {p : Char → Bool} (a : Str) (c : Char) (r : Str)
    (ha : ∀ x ∈ a, p x = true) (hc : p c = false) : (a ++ c :: r).span p = (a, c :: r) := by
  rw [List.span, span_loop_append a c r [] ha hc]; simp

theorem span_loop_all {p : Char → Bool} (a acc : Str) (ha : ∀ x ∈ a, p x = true) :
    List.span.loop p a acc = (acc.reverse ++ a, []) := by
  induction a generalizing acc with
  | nil => simp [List.span.loop]
  | cons x a ih =>
    rw [List.span.loop]
    simp only [ha x (by simp)]
    rw [ih _ (fun y hy => ha y (by simp [hy]))]
    simp

theorem span_all {p : Char → Bool} (a : Str) (ha : ∀ x ∈ a, p x = true) : a.span p = (a, []) := by
  rw [List.span, span_loop_all a [] ha]; simp

theorem digitChar_isDigit (d : Nat) (h : d < 10) :
    (Char.ofNat (48 + d)).isDigit = true ∧ (Char.ofNat (48 + d)).toNat - 48 = d := by
  have : d = 0 ∨ d = 1 ∨ d = 2 ∨ d = 3 ∨ d = 4 ∨ d = 5 ∨ d = 6 ∨ d = 7 ∨ d = 8 ∨ d = 9 := by omega
  rcases this with rfl | rfl | rfl | rfl | rfl | rfl | rfl | rfl | rfl | rfl <;> decide

theorem natOfDigits_snoc (a : Str) (c : Char) : natOfDigits (a ++ [c]) = 10 * natOfDigits a + (c.toNat - 48) := by
  simp [natOfDigits, List.foldl_append]

theorem digits_spec (n : Nat) :
    (∀ c ∈ digits n, c.isDigit = true) ∧ digits n ≠ [] ∧ natOfDigits (digits n) = n := by
  induction n using Nat.strongRecOn with
  | _ n ih =>
    rw [digits]
    split
    · next h =>
      obtain ⟨h1, h2⟩ := digitChar_isDigit n h
      refine ⟨by simpa using h1, by simp, ?_⟩
      simp [natOfDigits, h2]
    · next h =>
      obtain ⟨i1, i2, i3⟩ := ih (n / 10) (by omega)
      obtain ⟨h1, h2⟩ := digitChar_isDigit (n % 10) (by omega)
      refine ⟨?_, by simp, ?_⟩
      · intro c hc
        rw [List.mem_append] at hc
        rcases hc with hc | hc
        · exact i1 c hc
        · simp at hc; subst hc; exact h1
      · rw [natOfDigits_snoc, i3, h2]; omega

theorem isDigit_facts {c : Char} (h : c.isDigit = true) :
    c.toNat < 128 ∧ c ≠ ']' ∧ c ≠ '\n' ∧ c ≠ '\\' ∧ c ≠ ' ' := by
  have e5 : ('0' : Char).val.toNat = 48 := by decide
  have e6 : ('9' : Char).val.toNat = 57 := by decide
  have hr : 48 ≤ c.toNat ∧ c.toNat ≤ 57 := by
    simp only [Char.isDigit, Bool.and_eq_true, decide_eq_true_eq, UInt32.le_iff_toNat_le] at h
    have : c.toNat = c.val.toNat := rfl
    omega
  refine ⟨by omega, ?_, ?_, ?_, ?_⟩ <;> (intro e; subst e; revert hr; decide)

theorem utf8_digits (n : Nat) : utf8 (digits n) = digits n :=
  utf8_ascii fun c hc => (isDigit_facts ((digits_spec n).1 c hc)).1

theorem joinSep_cons_cons (sep x : Str) (y : Str) (ys : List Str) :
    joinSep sep (x :: y :: ys) = x ++ sep ++ joinSep sep (y :: ys) := rfl

theorem utf8_joinSep (sep : Str) (xs : List Str) :
    utf8 (joinSep sep xs) = joinSep (utf8 sep) (xs.map utf8) := by
  induction xs with
  | nil => rfl
  | cons x xs ih =>
    cases xs with
    | nil => rfl
    | cons y ys =>
      rw [joinSep_cons_cons, utf8_append, utf8_append, ih]
      rfl

theorem length_le_joinSep (sep : Str) (xs : List Str) (x : Str) (hx : x ∈ xs) :
    x.length ≤ (joinSep sep xs).length := by
  induction xs with
  | nil => simp at hx
  | cons y ys ih =>
    cases ys with
    | nil => simp at hx; subst hx; simp [joinSep]
    | cons z zs =>
      rw [joinSep_cons_cons, List.length_append, List.length_append]
      rcases List.mem_cons.1 hx with rfl | h
      · omega
      · have := ih h; omega

theorem count_le_joinSep (sep : Str) (xs : List Str) (hne : ∀ x ∈ xs, x ≠ []) :
    xs.length ≤ (joinSep sep xs).length := by
  induction xs with
  | nil => simp
  | cons y ys ih =>
    have hy : 1 ≤ y.length := by
      cases hy : y with
      | nil => exact absurd hy (hne y (by simp))
      | cons _ _ => simp
    cases ys with
    | nil => simpa [joinSep] using hy
    | cons z zs =>
      rw [joinSep_cons_cons, List.length_append, List.length_append]
      have := ih (fun x hx => hne x (by simp [hx]))
      simp only [List.length_cons] at this ⊢
      omega

/-- `sepBy1` on a joined, non-empty list of rendered items: each item is parsed back by `p` whenever what
follows it is an acceptable continuation (`Stop`), separators are acceptable continuations, and the text after
the last item is acceptable and does not start with the separator -/
theorem sepBy1_join {α β : Type} (p : Str → Option (β × Str)) (sep : Char) (render : α → Str) (out : α → β)
    (Stop : Str → Prop) (Good : α → Prop)
    (hp : ∀ x rest, Good x → Stop rest → p (render x ++ rest) = some (out x, rest))
    (hsep : ∀ r, Stop (sep :: r))
    (xs : List α) (hne : xs ≠ []) (hgood : ∀ x ∈ xs, Good x)
    (rest : Str) (hrest : Stop rest) (hns : rest.head? ≠ some sep)
    (fuel : Nat) (hf : xs.length ≤ fuel) :
    sepBy1 p sep fuel (joinSep [sep] (xs.map render) ++ rest) = some (xs.map out, rest) := by
  induction xs generalizing fuel with
  | nil => exact absurd rfl hne
  | cons x xs ih =>
    cases fuel with
    | zero => simp at hf
    | succ fuel =>
      cases xs with
      | nil =>
        simp only [List.map_cons, List.map_nil, joinSep]
        rw [sepBy1, hp x rest (hgood x (by simp)) hrest]
        cases rest with
        | nil => rfl
        | cons c r =>
          have : c ≠ sep := by intro e; subst e; simp at hns
          simp [this]
      | cons y ys =>
        have ih' := ih (by simp) (fun z hz => hgood z (by simp [hz])) fuel (by simpa using hf)
        simp only [List.map_cons] at ih' ⊢
        rw [joinSep_cons_cons, List.append_assoc, List.append_assoc, sepBy1,
          hp x _ (hgood x (by simp)) (by simpa using hsep _)]
        simp only [List.cons_append, List.nil_append, if_true]
        rw [ih']

/-! ## 5. array literals, assignments, lines, scripts -/

theorem utf8_single {c : Char} (h : c.toNat < 128) : utf8 [c] = [c] := utf8_ascii (by simpa using h)

/-- an array element is read back exactly -/
theorem word_quoteElem (v : Str) (h0 : NoNul v) (rest : Str) (hr : WordEnd rest) :
    word (utf8 (quoteElem v) ++ rest) = some (utf8 v, rest) := by
  unfold quoteElem
  split
  · next hal =>
    have : utf8 ('"' :: v ++ ['"']) ++ rest = '"' :: (utf8 v ++ '"' :: rest) := by
      rw [List.cons_append, utf8_cons, utf8_append, enc_ascii (by decide), utf8_single (by decide)]; simp
    rw [this, word.eq_def]
    simp only [show isTerm '"' = false by decide, show ('"' : Char) ≠ '\'' by decide, if_true,
      Bool.false_eq_true, if_false]
    rw [dq_lit _ (fun u hu => (alnum_bytes hal u hu).2), pre_word_end _ _ hr]
  · exact word_quoteValue v h0 rest hr

def enumF : Nat → List Str → List (Nat × Str)
  | _, [] => []
  | i, v :: vs => (i, v) :: enumF (i + 1) vs

def renderE (iv : Nat × Str) : Str := utf8 ('[' :: digits iv.1 ++ [']', '='] ++ quoteElem iv.2)

theorem elemStrs_eq (i : Nat) (vs : List Str) :
    (elemStrs i vs).map utf8 = (enumF i vs).map renderE := by
  induction vs generalizing i with
  | nil => rfl
  | cons v vs ih => simp [elemStrs, enumF, renderE, ih]

theorem length_enumF (i : Nat) (vs : List Str) : (enumF i vs).length = vs.length := by
  induction vs generalizing i with
  | nil => rfl
  | cons v vs ih => simp [enumF, ih]

theorem mem_enumF {i : Nat} {vs : List Str} {iv : Nat × Str} (h : iv ∈ enumF i vs) : iv.2 ∈ vs := by
  induction vs generalizing i with
  | nil => simp [enumF] at h
  | cons v vs ih =>
    simp only [enumF, List.mem_cons] at h
    rcases h with rfl | h
    · simp
    · exact List.mem_cons_of_mem _ (ih h)

theorem dense_enumF (i : Nat) (vs : List Str) :
    denseFrom i ((enumF i vs).map fun iv => (iv.1, utf8 iv.2)) = true ∧
    ((enumF i vs).map fun iv => (iv.1, utf8 iv.2)).map (·.2) = vs.map utf8 := by
  induction vs generalizing i with
  | nil => exact ⟨rfl, rfl⟩
  | cons v vs ih => simp [enumF, denseFrom, (ih (i + 1)).1, (ih (i + 1)).2]

theorem elem_render (iv : Nat × Str) (h0 : NoNul iv.2) (rest : Str) (hr : WordEnd rest) :
    elem (renderE iv ++ rest) = some ((iv.1, utf8 iv.2), rest) := by
  obtain ⟨d1, d2, d3⟩ := digits_spec iv.1
  have hb : renderE iv ++ rest = '[' :: (digits iv.1 ++ ']' :: '=' :: (utf8 (quoteElem iv.2) ++ rest)) := by
    simp [renderE, utf8_cons, utf8_append, utf8_digits, enc_ascii (show ('[' : Char).toNat < 128 by decide),
      enc_ascii (show (']' : Char).toNat < 128 by decide), enc_ascii (show ('=' : Char).toNat < 128 by decide)]
  rw [hb, elem]
  simp only []
  rw [span_append (digits iv.1) ']' _ d1 (by decide)]
  cases hd : digits iv.1 with
  | nil => exact absurd hd d2
  | cons x xs =>
    simp only []
    rw [word_quoteElem iv.2 h0 rest hr, ← hd, d3]

theorem wordEnd_cons {c : Char} (r : Str) (h : isTerm c = true) : WordEnd (c :: r) := Or.inr ⟨c, r, rfl, h⟩

/-- the inside of an array literal is read back exactly -/
theorem elems_render (fuel : Nat) (vs : List Str) (h0 : ∀ v ∈ vs, NoNul v) (hf : vs.length ≤ fuel) (rest : Str) :
    elems fuel (joinSep [' '] ((elemStrs 0 vs).map utf8) ++ ')' :: rest) = some (vs.map utf8, rest) := by
  cases hvs : vs with
  | nil => simp [elemStrs, joinSep, elems]
  | cons v vs' =>
    rw [← hvs, elemStrs_eq]
    have hne : enumF 0 vs ≠ [] := by rw [hvs]; simp [enumF]
    have key := sepBy1_join elem ' ' renderE (fun iv => (iv.1, utf8 iv.2)) WordEnd (fun iv => NoNul iv.2)
      (fun x r hx hr => elem_render x hx r hr) (fun r => wordEnd_cons r (by decide))
      (enumF 0 vs) hne (fun x hx => h0 _ (mem_enumF hx)) (')' :: rest) (wordEnd_cons rest (by decide))
      (by simp) fuel (by rw [length_enumF]; exact hf)
    have hstart : ∃ t, joinSep [' '] ((enumF 0 vs).map renderE) ++ ')' :: rest = '[' :: t := by
      rw [hvs]
      cases vs' with
      | nil => exact ⟨_, by simp [enumF, joinSep, renderE, utf8_cons, enc_ascii (show ('[' : Char).toNat < 128 by decide)]; rfl⟩
      | cons w ws =>
        exact ⟨_, by simp [enumF, joinSep_cons_cons, renderE, utf8_cons, enc_ascii (show ('[' : Char).toNat < 128 by decide)]; rfl⟩
    obtain ⟨t, ht⟩ := hstart
    rw [ht] at key
    rw [ht, elems]
    · simp only [key, (dense_enumF 0 vs).1, if_true, (dense_enumF 0 vs).2]
    · intro r hr
      have := (List.cons.inj hr).1
      exact absurd this (by decide)

def renderA (kv : Str × Val) : Str := utf8 (assignStr kv.1 kv.2)

theorem nameChar_facts {c : Char} (h : isNameChar c = true) :
    c.toNat < 128 ∧ c ≠ '=' ∧ c ≠ ' ' ∧ c ≠ '\n' := by
  have e1 : ('A' : Char).val.toNat = 65 := by decide
  have e2 : ('Z' : Char).val.toNat = 90 := by decide
  have e3 : ('a' : Char).val.toNat = 97 := by decide
  have e4 : ('z' : Char).val.toNat = 122 := by decide
  have e5 : ('0' : Char).val.toNat = 48 := by decide
  have e6 : ('9' : Char).val.toNat = 57 := by decide
  have hr : (48 ≤ c.toNat ∧ c.toNat ≤ 57) ∨ (65 ≤ c.toNat ∧ c.toNat ≤ 90) ∨ (97 ≤ c.toNat ∧ c.toNat ≤ 122) ∨
      c.toNat = 95 := by
    simp only [isNameChar, Char.isAlphanum, Char.isAlpha, Char.isUpper, Char.isLower, Char.isDigit, Bool.or_eq_true,
      Bool.and_eq_true, decide_eq_true_eq, UInt32.le_iff_toNat_le, beq_iff_eq] at h
    have : c.toNat = c.val.toNat := rfl
    rcases h with h | rfl
    · omega
    · decide
  refine ⟨by omega, ?_, ?_, ?_⟩ <;> (intro e; subst e; revert hr; decide)

theorem validName_utf8 {k : Str} (h : ValidName k) : utf8 k = k :=
  utf8_ascii fun c hc => (nameChar_facts (h.2 c hc)).1

theorem length_elemStrs (i : Nat) (vs : List Str) : (elemStrs i vs).length = vs.length := by
  induction vs generalizing i with
  | nil => rfl
  | cons v vs ih => simp [elemStrs, ih]

theorem elemStrs_ne_nil (i : Nat) (vs : List Str) : ∀ x ∈ elemStrs i vs, x ≠ [] := by
  induction vs generalizing i with
  | nil => simp [elemStrs]
  | cons v vs ih =>
    intro x hx
    simp only [elemStrs, List.mem_cons] at hx
    rcases hx with rfl | hx
    · simp
    · exact ih _ x hx

theorem word_paren (r : Str) : word ('(' :: r) = none := by
  rw [word.eq_def]
  simp only [show isTerm '(' = false by decide, show ('(' : Char) ≠ '\'' by decide, show ('(' : Char) ≠ '"' by decide,
    show ('(' : Char) ≠ '$' by decide, show isPlain '(' = false by decide, if_false, Bool.false_eq_true]

/-- one rendered assignment is read back exactly (name, value bytes) whatever word-ending text follows -/
theorem assign_render (fuel : Nat) (kv : Str × Val) (hk : ValidName kv.1) (hv : ValOk kv.2)
    (hf : (renderA kv).length ≤ fuel) (rest : Str) (hr : WordEnd rest) :
    assign fuel (renderA kv ++ rest) = some ((kv.1, valBytes kv.2), rest) := by
  obtain ⟨k, val⟩ := kv
  obtain ⟨⟨c, cs, hkc, hstart⟩, hchars⟩ := hk
  have hspan : ∀ Y, (k ++ '=' :: Y).span isNameChar = (k, '=' :: Y) :=
    fun Y => span_append k '=' Y hchars (by decide)
  cases val with
  | scalar v =>
    have hw := word_quoteValue v hv rest hr
    have hb : renderA (k, Val.scalar v) ++ rest = k ++ '=' :: (utf8 (quoteValue v) ++ rest) := by
      simp [renderA, assignStr, utf8_append, utf8_cons, validName_utf8 ⟨⟨c, cs, hkc, hstart⟩, hchars⟩,
        enc_ascii (show ('=' : Char).toNat < 128 by decide)]
    rw [hb, assign]
    simp only [hspan]
    subst hkc
    simp only [hstart, if_true]
    split
    · next r'' heq => rw [heq, word_paren] at hw; exact absurd hw (by simp)
    · rw [hw]; rfl
  | array vs =>
    have hb : renderA (k, Val.array vs) ++ rest
        = k ++ '=' :: '(' :: (joinSep [' '] ((elemStrs 0 vs).map utf8) ++ ')' :: rest) := by
      simp [renderA, assignStr, utf8_append, utf8_cons, validName_utf8 ⟨⟨c, cs, hkc, hstart⟩, hchars⟩, utf8_joinSep,
        utf8_single (show (' ' : Char).toNat < 128 by decide),
        enc_ascii (show ('=' : Char).toNat < 128 by decide), enc_ascii (show ('(' : Char).toNat < 128 by decide),
        enc_ascii (show (')' : Char).toNat < 128 by decide), utf8_nil]
    have hlen : vs.length ≤ fuel := by
      have h1 := length_utf8_ge (assignStr k (Val.array vs))
      have h2 := count_le_joinSep [' '] (elemStrs 0 vs) (elemStrs_ne_nil 0 vs)
      rw [length_elemStrs] at h2
      simp only [renderA, assignStr] at hf
      simp only [assignStr, List.length_append, List.length_cons, List.length_nil] at h1
      omega
    rw [hb, assign]
    simp only [hspan]
    subst hkc
    simp only [hstart, if_true]
    rw [elems_render fuel vs hv hlen rest]
    rfl

theorem renderA_shape (kv : Str × Val) (hk : ValidName kv.1) : ∃ Y, renderA kv = kv.1 ++ '=' :: Y := by
  obtain ⟨k, val⟩ := kv
  cases val <;>
    exact ⟨_, by simp [renderA, assignStr, utf8_append, utf8_cons, validName_utf8 hk,
      enc_ascii (show ('=' : Char).toNat < 128 by decide)]; rfl⟩

theorem joinSep_head (sep x : Str) (xs : List Str) : ∃ Z, joinSep sep (x :: xs) = x ++ Z := by
  cases xs with
  | nil => exact ⟨[], by simp [joinSep]⟩
  | cons y ys => exact ⟨sep ++ joinSep sep (y :: ys), by rw [joinSep_cons_cons, List.append_assoc]⟩

/-- a line: `export` flag and its (non-empty) list of assignments -/
def renderL (L : Bool × List (Str × Val)) : Str :=
  (if L.1 then "export ".toList else []) ++ joinSep [' '] (L.2.map renderA)

def outL (L : Bool × List (Str × Val)) : List Assign := L.2.map fun kv => ⟨kv.1, valBytes kv.2, L.1⟩

def LineEnd (r : Str) : Prop := atLineEnd r = true

theorem lineEnd_wordEnd {r : Str} (h : LineEnd r) : WordEnd r ∧ r.head? ≠ some ' ' := by
  cases r with
  | nil => exact ⟨Or.inl rfl, by simp⟩
  | cons c r =>
    simp only [LineEnd, atLineEnd, beq_iff_eq] at h
    subst h
    exact ⟨wordEnd_cons r (by decide), by simp⟩

theorem line_render (fuel : Nat) (L : Bool × List (Str × Val)) (hne : L.2 ≠ [])
    (hgood : ∀ kv ∈ L.2, ValidName kv.1 ∧ ValOk kv.2) (hf : (renderL L).length ≤ fuel)
    (rest : Str) (hr : LineEnd rest) :
    line fuel (renderL L ++ rest) = some (outL L, rest) := by
  obtain ⟨b, xs⟩ := L
  simp only at hne hgood
  obtain ⟨hwe, hns⟩ := lineEnd_wordEnd hr
  have hJ : (joinSep [' '] (xs.map renderA)).length ≤ fuel := by
    simp only [renderL, List.length_append] at hf; omega
  have hcount : xs.length ≤ fuel := by
    have := count_le_joinSep [' '] (xs.map renderA) (by
      intro x hx
      obtain ⟨kv, hkv, rfl⟩ := List.mem_map.1 hx
      obtain ⟨Y, hY⟩ := renderA_shape kv (hgood kv hkv).1
      rw [hY]; simp)
    rw [List.length_map] at this; omega
  have key := sepBy1_join (assign fuel) ' ' renderA (fun kv => (kv.1, valBytes kv.2)) WordEnd
    (fun kv => ValidName kv.1 ∧ ValOk kv.2 ∧ (renderA kv).length ≤ fuel)
    (fun x r hx hr' => assign_render fuel x hx.1 hx.2.1 hx.2.2 r hr') (fun r => wordEnd_cons r (by decide))
    xs hne (fun kv hkv => ⟨(hgood kv hkv).1, (hgood kv hkv).2, by
      have := length_le_joinSep [' '] (xs.map renderA) (renderA kv) (List.mem_map_of_mem hkv); omega⟩)
    rest hwe hns fuel hcount
  -- the text starts with the first name followed by `=`
  obtain ⟨kv, xs', rfl⟩ : ∃ kv xs', xs = kv :: xs' := by
    cases xs with
    | nil => exact absurd rfl hne
    | cons a as => exact ⟨a, as, rfl⟩
  obtain ⟨Z, hZ⟩ := joinSep_head [' '] (renderA kv) (xs'.map renderA)
  obtain ⟨Y, hY⟩ := renderA_shape kv (hgood kv (by simp)).1
  obtain ⟨⟨c, cs, hkc, hstart⟩, hchars⟩ := (hgood kv (by simp)).1
  have hT : joinSep [' '] ((kv :: xs').map renderA) ++ rest = kv.1 ++ '=' :: (Y ++ Z ++ rest) := by
    rw [List.map_cons, hZ, hY]; simp
  cases b with
  | false =>
    simp only [renderL, Bool.false_eq_true, if_false, List.nil_append] at hf ⊢
    rw [line]
    have h1 : atLineEnd (joinSep [' '] ((kv :: xs').map renderA) ++ rest) = false := by
      rw [hT, hkc]
      have := (nameChar_facts (hchars c (by rw [hkc]; simp))).2.2.2
      simp [atLineEnd, this]
    have h2 : "export ".toList.isPrefixOf (joinSep [' '] ((kv :: xs').map renderA) ++ rest) = false := by
      cases hp : "export ".toList.isPrefixOf (joinSep [' '] ((kv :: xs').map renderA) ++ rest) with
      | false => rfl
      | true =>
        rw [List.isPrefixOf_iff_prefix] at hp
        obtain ⟨t, ht⟩ := hp
        have s1 := span_append (p := isNameChar) "export".toList ' ' t (by decide) (by decide)
        have s2 := span_append (p := isNameChar) kv.1 '=' (Y ++ Z ++ rest) hchars (by decide)
        rw [← hT, ← ht] at s2
        have : "export ".toList ++ t = "export".toList ++ ' ' :: t := by simp
        rw [this, s1] at s2
        have := (Prod.mk.inj s2).2
        exact absurd (List.cons.inj this).1 (by decide)
    simp only [h1, h2, Bool.false_eq_true, if_false]
    rw [key]
    simp only [show atLineEnd rest = true from hr, if_true, outL, List.map_map]
    rfl
  | true =>
    simp only [renderL, if_true] at hf ⊢
    rw [line]
    have h1 : atLineEnd ("export ".toList ++ joinSep [' '] ((kv :: xs').map renderA) ++ rest) = false := by
      simp [atLineEnd]
    have h2 : "export ".toList.isPrefixOf ("export ".toList ++ joinSep [' '] ((kv :: xs').map renderA) ++ rest) = true := by
      rw [List.isPrefixOf_iff_prefix, List.append_assoc]; exact List.prefix_append _ _
    have h3 : ("export ".toList ++ joinSep [' '] ((kv :: xs').map renderA) ++ rest).drop 7
        = joinSep [' '] ((kv :: xs').map renderA) ++ rest := by
      rw [List.append_assoc]; rfl
    simp only [h1, h2, h3, Bool.false_eq_true, if_false, if_true]
    rw [key]
    simp only [show atLineEnd rest = true from hr, if_true, outL, List.map_map]
    rfl

/-- a script made of rendered lines evaluates to exactly their assignments, in order -/
theorem evalScript_lines (Ls : List (Bool × List (Str × Val)))
    (hgood : ∀ L ∈ Ls, L.2 ≠ [] ∧ ∀ kv ∈ L.2, ValidName kv.1 ∧ ValOk kv.2) :
    evalScript (joinSep ['\n'] (Ls.map renderL)) = some (Ls.map outL).flatten := by
  cases hLs : Ls with
  | nil => rfl
  | cons L0 Ls0 =>
    rw [← hLs]
    have hne : Ls ≠ [] := by rw [hLs]; simp
    let s := joinSep ['\n'] (Ls.map renderL)
    have hnonempty : ∀ x ∈ Ls.map renderL, x ≠ [] := by
      intro x hx
      obtain ⟨L, hL, rfl⟩ := List.mem_map.1 hx
      obtain ⟨hn, hg⟩ := hgood L hL
      obtain ⟨b, xs⟩ := L
      cases xs with
      | nil => exact absurd rfl hn
      | cons kv xs' =>
        obtain ⟨Z, hZ⟩ := joinSep_head [' '] (renderA kv) (xs'.map renderA)
        obtain ⟨Y, hY⟩ := renderA_shape kv (hg kv (by simp)).1
        obtain ⟨⟨c, cs, hkc, _⟩, _⟩ := (hg kv (by simp)).1
        have : joinSep [' '] (renderA kv :: xs'.map renderA) ≠ [] := by
          rw [hZ, hY, hkc]; simp
        cases b <;> simp [renderL, this]
    have hcount : Ls.length ≤ s.length + 1 := by
      have := count_le_joinSep ['\n'] (Ls.map renderL) hnonempty
      rw [List.length_map] at this
      show Ls.length ≤ (joinSep ['\n'] (Ls.map renderL)).length + 1
      omega
    have key := sepBy1_join (line (s.length + 1)) '\n' renderL outL LineEnd
      (fun L => L.2 ≠ [] ∧ (∀ kv ∈ L.2, ValidName kv.1 ∧ ValOk kv.2) ∧ (renderL L).length ≤ s.length + 1)
      (fun L r hL hr => line_render _ L hL.1 hL.2.1 hL.2.2 r hr) (fun r => by simp [LineEnd, atLineEnd])
      Ls hne (fun L hL => ⟨(hgood L hL).1, (hgood L hL).2, by
        have := length_le_joinSep ['\n'] (Ls.map renderL) (renderL L) (List.mem_map_of_mem hL)
        show (renderL L).length ≤ (joinSep ['\n'] (Ls.map renderL)).length + 1
        omega⟩)
      [] (by simp [LineEnd, atLineEnd]) (by simp) (s.length + 1) hcount
    rw [List.append_nil] at key
    show evalScript s = _
    rw [evalScript, key]

/-! ## 6. from the mapping to the text, and from the executed assignments to the variable store -/

theorem perm_insertSorted (x : Str × Val) (l : List (Str × Val)) : (insertSorted x l).Perm (x :: l) := by
  induction l with
  | nil => exact List.Perm.refl _
  | cons y ys ih =>
    rw [insertSorted]
    split
    · exact List.Perm.refl _
    · exact ((List.Perm.cons y ih).trans (List.Perm.swap x y ys))

theorem perm_sortEnv (l : List (Str × Val)) : (sortEnv l).Perm l := by
  induction l with
  | nil => exact List.Perm.refl _
  | cons x xs ih =>
    show (insertSorted x (sortEnv xs)).Perm (x :: xs)
    exact (perm_insertSorted x _).trans (List.Perm.cons x ih)

theorem mem_items {ro : List Str} {env : List (Str × Val)} {kv : Str × Val} :
    kv ∈ items ro env ↔ kv ∈ env ∧ kv.1 ≠ marker ∧ kv.1 ∉ ro := by
  simp only [items, List.mem_filter, (perm_sortEnv _).mem_iff, bne_iff_ne, ne_eq, Bool.not_eq_true',
    List.contains_eq_mem, decide_eq_false_iff_not, and_assoc]

theorem nodup_items {ro : List Str} {env : List (Str × Val)} (h : (env.map (·.1)).Nodup) :
    ((items ro env).map (·.1)).Nodup := by
  unfold items
  refine List.Nodup.sublist (List.Sublist.map _ List.filter_sublist) ?_
  refine ((perm_sortEnv _).map _).nodup_iff.2 ?_
  exact List.Nodup.sublist (List.Sublist.map _ List.filter_sublist) h

/-- the generated ASCII part of the `isalpha` table contains `[A-Za-z]` -/
theorem alpha_ascii {c : Char} (h : c.isAlpha = true) : isAlphaChar c = true := by
  have e1 : ('A' : Char).val.toNat = 65 := by decide
  have e2 : ('Z' : Char).val.toNat = 90 := by decide
  have e3 : ('a' : Char).val.toNat = 97 := by decide
  have e4 : ('z' : Char).val.toNat = 122 := by decide
  simp only [Char.isAlpha, Char.isUpper, Char.isLower, Bool.or_eq_true, Bool.and_eq_true, decide_eq_true_eq,
    UInt32.le_iff_toNat_le] at h
  have : c.toNat = c.val.toNat := rfl
  have hlt : c.toNat < 128 := by omega
  simp only [isAlphaChar, hlt, if_true, inRanges, Generated.C31.alphaAscii, List.any_cons, List.any_nil,
    Bool.or_false, Bool.or_eq_true, Bool.and_eq_true, decide_eq_true_eq]
  omega

theorem validName_keyOk {k : Str} (h : ValidName k) : keyOk k = true := by
  obtain ⟨⟨c, cs, rfl, hs⟩, _⟩ := h
  simp only [isNameStart, Bool.or_eq_true] at hs
  simp only [keyOk, Bool.or_eq_true]
  rcases hs with hs | hs
  · exact Or.inl (alpha_ascii hs)
  · exact Or.inr hs

def linesOf (plain exported : List (Str × Val)) : List (Bool × List (Str × Val)) :=
  (if plain = [] then [] else [(false, plain)]) ++ (if exported = [] then [] else [(true, exported)])

theorem utf8_line (b : Bool) (xs : List (Str × Val)) :
    utf8 ((if b then "export ".toList else []) ++ joinSep [' '] (xs.map fun kv => assignStr kv.1 kv.2))
      = renderL (b, xs) := by
  have he : utf8 "export ".toList = "export ".toList := utf8_ascii (by decide)
  rw [utf8_append, utf8_joinSep, utf8_single (show (' ' : Char).toNat < 128 by decide), List.map_map]
  cases b
  · simp [renderL, utf8_nil]; rfl
  · simp only [if_true, he, renderL]; rfl

/-- the text produced by `_generate_env_str`, as bytes, is the rendering of at most two lines:
the non-exported assignments, then the exported ones -/
theorem genEnvStr_bytes (ro : List Str) (env : List (Str × Val)) (nonexp : List Str)
    (hn : nonexportedOf env = .ok nonexp) (hk : ∀ kv ∈ env, ValidName kv.1) :
    ∃ text, genEnvStr ro env = .ok text ∧
      utf8 text = joinSep ['\n'] ((linesOf ((items ro env).filter fun kv => nonexp.contains kv.1)
        ((items ro env).filter fun kv => !nonexp.contains kv.1)).map renderL) := by
  have hall : ((items ro env).all fun kv => keyOk kv.1) = true := by
    rw [List.all_eq_true]
    intro kv hkv
    exact validName_keyOk (hk kv (mem_items.1 hkv).1)
  refine ⟨_, by simp only [genEnvStr, hn, hall, if_true]; rfl, ?_⟩
  rw [utf8_joinSep, utf8_single (show ('\n' : Char).toNat < 128 by decide)]
  congr 1
  simp only [linesOf, List.isEmpty_iff, List.map_eq_nil_iff, List.map_append]
  congr 1
  · split
    · rfl
    · simp only [List.map_cons, List.map_nil]
      rw [← utf8_line false]; simp
  · split
    · rfl
    · simp only [List.map_cons, List.map_nil]
      rw [← utf8_line true]; simp

/-! ### the store -/

def exportedIn (st : Store) (k : Str) : Bool := match st k with | some v => v.exported | none => false

theorem run_cons (st : Store) (a : Assign) (as : List Assign) :
    Store.run st (a :: as) = Store.run (Store.assign st a) as := rfl

theorem run_not_mem (st : Store) (as : List Assign) (k : Str) (h : k ∉ as.map (·.key)) :
    Store.run st as k = st k := by
  induction as generalizing st with
  | nil => rfl
  | cons a as ih =>
    simp only [List.map_cons, List.mem_cons, not_or] at h
    rw [run_cons, ih _ h.2]
    simp [Store.assign, h.1]

/-- executing assignments with pairwise distinct names: every assigned name holds the assigned value and is
exported iff the assignment was an `export` or the name was exported before -/
theorem run_mem (st : Store) (as : List Assign) (hnd : (as.map (·.key)).Nodup) (a : Assign) (ha : a ∈ as) :
    Store.run st as a.key = some ⟨a.val, a.exported || exportedIn st a.key⟩ := by
  induction as generalizing st with
  | nil => simp at ha
  | cons b bs ih =>
    simp only [List.map_cons, List.nodup_cons] at hnd
    rw [run_cons]
    rcases List.mem_cons.1 ha with rfl | hab
    · rw [run_not_mem _ _ _ hnd.1]
      simp only [Store.assign, exportedIn, if_true]
      cases st a.key <;> rfl
    · rw [ih _ hnd.2 hab]
      have hne : a.key ≠ b.key := by
        intro e; exact hnd.1 (e ▸ List.mem_map_of_mem hab)
      simp [exportedIn, Store.assign, hne]

theorem lookup_mem {env : List (Str × Val)} {k : Str} {v : Val} (h : env.lookup k = some v) : (k, v) ∈ env := by
  induction env with
  | nil => simp at h
  | cons kv env ih =>
    obtain ⟨k', v'⟩ := kv
    rw [List.lookup_cons] at h
    split at h
    · next hb =>
      have : k = k' := by simpa using hb
      simp at h; subst h; subst this; simp
    · exact List.mem_cons_of_mem _ (ih h)

theorem mem_lookup {env : List (Str × Val)} (hnd : (env.map (·.1)).Nodup) {k : Str} {v : Val}
    (h : (k, v) ∈ env) : env.lookup k = some v := by
  induction env with
  | nil => simp at h
  | cons kv env ih =>
    obtain ⟨k', v'⟩ := kv
    simp only [List.map_cons, List.nodup_cons] at hnd
    rw [List.lookup_cons]
    rcases List.mem_cons.1 h with e | h'
    · obtain ⟨rfl, rfl⟩ := Prod.mk.inj e; simp
    · have : k ≠ k' := by
        intro e; subst e; exact hnd.1 (List.mem_map_of_mem (f := (·.1)) h')
      have hb : (k == k') = false := by simpa using this
      simp only [hb]
      exact ih hnd.2 h'

/-! ## 7. framing -/

theorem isPrefixOf_append_self (p s : Str) : p.isPrefixOf (p ++ s) = true := by
  rw [List.isPrefixOf_iff_prefix]; exact List.prefix_append _ _

theorem stripPrefix_append (p s : Str) : stripPrefix p (p ++ s) = s := by
  simp [stripPrefix, isPrefixOf_append_self]

theorem parseCount_digits (n : Nat) : parseCount (digits n) = some n := by
  obtain ⟨d1, d2, d3⟩ := digits_spec n
  have h1 : (digits n).isEmpty = false := by
    cases h : digits n with
    | nil => exact absurd h d2
    | cons _ _ => rfl
  have h2 : (digits n).all Char.isDigit = true := List.all_eq_true.2 d1
  simp [parseCount, h1, h2, d3]

theorem readSize_exact (a rest : Str) : readSize a.length (a ++ rest) = some (a, rest) := by
  simp [readSize]

theorem getLast?_append_digits (a : Str) (n : Nat) : ((a ++ digits n).getLast?).any isBlank = false := by
  obtain ⟨d1, d2, _⟩ := digits_spec n
  cases h : (digits n).reverse with
  | nil => exact absurd (List.reverse_eq_nil_iff.1 h) d2
  | cons c cs =>
    have hd : digits n = cs.reverse ++ [c] := by
      have := congrArg List.reverse h; simpa using this
    have hc : c.isDigit = true := d1 c (by rw [hd]; simp)
    rw [hd, ← List.append_assoc, List.getLast?_concat]
    have := (isDigit_facts hc).2.2.2.2
    cases hb : isBlank c with
    | false => simp [hb]
    | true =>
      simp only [isBlank, Bool.or_eq_true, beq_iff_eq] at hb
      rcases hb with rfl | rfl
      · exact absurd rfl this
      · revert hc; decide

/-- reading the header line `<hdr><N>` (a header without newline/backslash that does not start with a blank) -/
theorem readLine_header (hdr : Str) (h1 : ∀ c ∈ hdr, (c != '\n') = true) (h2 : hdr.contains '\\' = false)
    (h3 : hdr.head?.any isBlank = false) (h4 : hdr ≠ []) (n : Nat) (payload : Str) :
    readLine (hdr ++ digits n ++ '\n' :: payload) = some (hdr ++ digits n, payload) := by
  obtain ⟨d1, d2, _⟩ := digits_spec n
  have hsp : (hdr ++ digits n ++ '\n' :: payload).span (· != '\n') = (hdr ++ digits n, '\n' :: payload) := by
    apply span_append
    · intro c hc
      rcases List.mem_append.1 hc with h | h
      · exact h1 c h
      · have := (isDigit_facts (d1 c h)).2.2.1; simpa using this
    · simp
  have hbs : (hdr ++ digits n).contains '\\' = false := by
    rw [List.contains_eq_mem] at h2 ⊢
    simp only [decide_eq_false_iff_not, List.mem_append, not_or] at h2 ⊢
    exact ⟨h2, fun h => (isDigit_facts (d1 _ h)).2.2.2.1 rfl⟩
  have hhead : (hdr ++ digits n).head?.any isBlank = false := by
    cases hdr with
    | nil => exact absurd rfl h4
    | cons c cs => simpa using h3
  simp only [readLine, hsp, hbs, hhead, getLast?_append_digits, Bool.or_self, Bool.false_eq_true, if_false]

/-- the `start_receiving_env bytes N` arm hands exactly the next `N` units to `eval` -/
theorem recvEnv_header (fs : Str → Option Str) (n : Nat) (payload : Str) :
    recvEnv fs ("start_receiving_env bytes ".toList ++ digits n ++ '\n' :: payload) = readSize n payload := by
  rw [recvEnv, readLine_header _ (by decide) (by decide) (by decide) (by decide)]
  have e : "start_receiving_env bytes ".toList = "start_receiving_env ".toList ++ "bytes ".toList := by decide
  have p1 : "start_receiving_env".toList.isPrefixOf ("start_receiving_env bytes ".toList ++ digits n) = true := by
    have : "start_receiving_env bytes ".toList = "start_receiving_env".toList ++ " bytes ".toList := by decide
    rw [this, List.append_assoc]; exact isPrefixOf_append_self _ _
  simp only [p1, if_true]
  rw [e, List.append_assoc, stripPrefix_append]
  have p2 : "file".toList.isPrefixOf ("bytes ".toList ++ digits n) = false := by
    have : "bytes ".toList = 'b' :: "ytes ".toList := by decide
    have f : "file".toList = 'f' :: "ile".toList := by decide
    rw [this, f]; simp [List.isPrefixOf]
  have p3 : "bytes".toList.isPrefixOf ("bytes ".toList ++ digits n) = true := by
    have : "bytes ".toList = "bytes".toList ++ " ".toList := by decide
    rw [this, List.append_assoc]; exact isPrefixOf_append_self _ _
  simp only [p2, p3, Bool.false_eq_true, if_false, if_true]
  rw [stripPrefix_append, parseCount_digits]

theorem sendEnvInline_bytes (data : Str) :
    sendEnvInline data = "start_receiving_env bytes ".toList ++ digits (utf8 data).length ++ '\n' :: utf8 data := by
  have he : utf8 "start_receiving_env bytes ".toList = "start_receiving_env bytes ".toList := utf8_ascii (by decide)
  rw [sendEnvInline, byteLen, utf8_append, utf8_append, utf8_cons, he, utf8_digits,
    enc_ascii (show ('\n' : Char).toNat < 128 by decide)]
  rfl

theorem sendEnvInlineLegacy_bytes (data : Str) :
    sendEnvInlineLegacy data = "start_receiving_env bytes ".toList ++ digits data.length ++ '\n' :: utf8 data := by
  have he : utf8 "start_receiving_env bytes ".toList = "start_receiving_env bytes ".toList := utf8_ascii (by decide)
  rw [sendEnvInlineLegacy, utf8_append, utf8_append, utf8_cons, he, utf8_digits,
    enc_ascii (show ('\n' : Char).toNat < 128 by decide)]
  rfl

/-- a depend-like command line `<cmd> <N>` -/
theorem recvDepend_header (cmd : Str) (hc : cmd = "gen_metadata".toList ∨ cmd = "gen_ebuild_env".toList)
    (n : Nat) (payload : Str) :
    recvDepend (cmd ++ ' ' :: digits n ++ '\n' :: payload)
      = (readSize n payload).map fun (d, r) => (cmd, d, r) := by
  have hl : cmd ++ ' ' :: digits n ++ '\n' :: payload = (cmd ++ [' ']) ++ digits n ++ '\n' :: payload := by simp
  have hsp : (cmd ++ [' '] ++ digits n).span (· != ' ') = (cmd, ' ' :: digits n) := by
    rw [List.append_assoc]
    apply span_append
    · rcases hc with rfl | rfl <;> decide
    · simp
  rw [hl, recvDepend, readLine_header (cmd ++ [' '])
    (by rcases hc with rfl | rfl <;> decide) (by rcases hc with rfl | rfl <;> decide)
    (by rcases hc with rfl | rfl <;> decide) (by simp)]
  simp only [hsp]
  have : (cmd == "gen_metadata".toList || cmd == "gen_ebuild_env".toList) = true := by
    rcases hc with rfl | rfl <;> decide
  simp only [this, if_true, parseCount_digits]

theorem sendDepend_bytes (cmd data : Str) (hc : ∀ c ∈ cmd, c.toNat < 128) :
    sendDepend cmd data = cmd ++ ' ' :: digits (utf8 data).length ++ '\n' :: utf8 data := by
  simp [sendDepend, byteLen, utf8_append, utf8_cons, utf8_ascii hc, utf8_digits,
    enc_ascii (show ('\n' : Char).toNat < 128 by decide), enc_ascii (show (' ' : Char).toNat < 128 by decide)]

theorem recvEnv_file (fs : Str → Option Str) (pb : Str) (hp : PathOk pb) (rest : Str) :
    recvEnv fs ("start_receiving_env file ".toList ++ pb ++ '\n' :: rest) = (fs pb).map fun t => (t, rest) := by
  obtain ⟨h1, h2, h3, h4⟩ := hp
  have hsp : ("start_receiving_env file ".toList ++ pb ++ '\n' :: rest).span (· != '\n')
      = ("start_receiving_env file ".toList ++ pb, '\n' :: rest) := by
    apply span_append
    · intro c hc
      rcases List.mem_append.1 hc with h | h
      · have : ∀ c ∈ "start_receiving_env file ".toList, (c != '\n') = true := by decide
        exact this c h
      · have : c ≠ '\n' := fun e => h2 (e ▸ h)
        simpa using this
    · simp
  have hbs : ("start_receiving_env file ".toList ++ pb).contains '\\' = false := by
    rw [List.contains_eq_mem]
    simp only [decide_eq_false_iff_not, List.mem_append, not_or]
    exact ⟨by decide, h3⟩
  have hhead : ("start_receiving_env file ".toList ++ pb).head?.any isBlank = false := by
    have : "start_receiving_env file ".toList = 's' :: "tart_receiving_env file ".toList := by decide
    rw [this]; rfl
  have hlast : ("start_receiving_env file ".toList ++ pb).getLast?.any isBlank = false := by
    rw [List.getLast?_append]
    cases hl : pb.getLast? with
    | none => exact absurd (List.getLast?_eq_none_iff.1 hl) h1
    | some x => rw [hl] at h4; simpa using h4
  rw [recvEnv]
  simp only [readLine, hsp, hbs, hhead, hlast, Bool.or_self, Bool.false_eq_true, if_false]
  have e : "start_receiving_env file ".toList = "start_receiving_env ".toList ++ "file ".toList := by decide
  have p1 : "start_receiving_env".toList.isPrefixOf ("start_receiving_env file ".toList ++ pb) = true := by
    have : "start_receiving_env file ".toList = "start_receiving_env".toList ++ " file ".toList := by decide
    rw [this, List.append_assoc]; exact isPrefixOf_append_self _ _
  simp only [p1, if_true]
  rw [e, List.append_assoc, stripPrefix_append]
  have p2 : "file".toList.isPrefixOf ("file ".toList ++ pb) = true := by
    have : "file ".toList = "file".toList ++ " ".toList := by decide
    rw [this, List.append_assoc]; exact isPrefixOf_append_self _ _
  simp only [p2, if_true]
  rw [stripPrefix_append]
  cases fs pb <;> rfl

theorem sendEnvFile_bytes (path : Str) :
    sendEnvFile path = "start_receiving_env file ".toList ++ utf8 path ++ ['\n'] := by
  have he : utf8 "start_receiving_env file ".toList = "start_receiving_env file ".toList := utf8_ascii (by decide)
  rw [sendEnvFile, utf8_append, utf8_append, he, utf8_single (show ('\n' : Char).toNat < 128 by decide)]

/-! ## 8. the assignments executed for a mapping, and the resulting store -/

/-- the assignments the daemon executes for a mapping: non-exported ones first, then the exported ones -/
def executed (ro : List Str) (env : List (Str × Val)) (nonexp : List Str) : List Assign :=
  (((items ro env).filter fun kv => nonexp.contains kv.1).map fun kv => ⟨kv.1, valBytes kv.2, false⟩) ++
  (((items ro env).filter fun kv => !nonexp.contains kv.1).map fun kv => ⟨kv.1, valBytes kv.2, true⟩)

theorem nonexportedOf_ok {env : List (Str × Val)} (hm : ∀ vs, env.lookup marker ≠ some (.array vs)) :
    ∃ nonexp, nonexportedOf env = .ok nonexp ∧ ∀ k, markedNonexported env k = nonexp.contains k := by
  unfold nonexportedOf markedNonexported
  cases h : env.lookup marker with
  | none => exact ⟨[], rfl, fun k => by simp⟩
  | some v =>
    cases v with
    | scalar t => exact ⟨splitWs t, rfl, fun k => rfl⟩
    | array vs => exact absurd h (hm vs)

theorem flatten_linesOf (P E : List (Str × Val)) :
    ((linesOf P E).map outL).flatten =
      (P.map fun kv => (⟨kv.1, valBytes kv.2, false⟩ : Assign)) ++ E.map fun kv => ⟨kv.1, valBytes kv.2, true⟩ := by
  unfold linesOf
  by_cases hP : P = [] <;> by_cases hE : E = [] <;> simp [hP, hE, outL]

theorem evalScript_genEnvStr (ro : List Str) (env : List (Str × Val)) (hok : EnvOk env) (nonexp : List Str)
    (hn : nonexportedOf env = .ok nonexp) :
    ∃ text, genEnvStr ro env = .ok text ∧ evalScript (utf8 text) = some (executed ro env nonexp) := by
  obtain ⟨text, h1, h2⟩ := genEnvStr_bytes ro env nonexp hn hok.names
  refine ⟨text, h1, ?_⟩
  rw [h2, evalScript_lines]
  · rw [flatten_linesOf]; rfl
  · intro L hL
    simp only [linesOf, List.mem_append] at hL
    have hin : ∀ kv ∈ L.2, kv ∈ env := by
      intro kv hkv
      rcases hL with hL | hL <;> (split at hL
                                  · simp at hL
                                  · simp only [List.mem_singleton] at hL
                                    subst hL
                                    exact (mem_items.1 (List.mem_filter.1 hkv).1).1)
    refine ⟨?_, fun kv hkv => ⟨hok.names kv (hin kv hkv), hok.values kv (hin kv hkv)⟩⟩
    rcases hL with hL | hL <;> (split at hL
                                · simp at hL
                                · next hne => simp only [List.mem_singleton] at hL; subst hL; exact hne)

theorem keys_executed (ro : List Str) (env : List (Str × Val)) (nonexp : List Str)
    (hnd : (env.map (·.1)).Nodup) : ((executed ro env nonexp).map (·.key)).Nodup := by
  have hi := nodup_items (ro := ro) hnd
  simp only [executed, List.map_append, List.map_map]
  rw [List.nodup_append]
  refine ⟨?_, ?_, ?_⟩
  · exact List.Nodup.sublist (List.Sublist.map _ List.filter_sublist) hi
  · exact List.Nodup.sublist (List.Sublist.map _ List.filter_sublist) hi
  · intro a ha b hb hab
    obtain ⟨x, hx, rfl⟩ := List.mem_map.1 ha
    obtain ⟨y, hy, rfl⟩ := List.mem_map.1 hb
    have h1 := (List.mem_filter.1 hx).2
    have h2 := (List.mem_filter.1 hy).2
    simp only [Function.comp] at hab
    rw [hab] at h1
    simp at h1 h2
    exact h2 h1

theorem mem_executed {ro : List Str} {env : List (Str × Val)} {nonexp : List Str} {a : Assign} :
    a ∈ executed ro env nonexp ↔
      ∃ kv ∈ items ro env, a = ⟨kv.1, valBytes kv.2, !nonexp.contains kv.1⟩ := by
  simp only [executed, List.mem_append, List.mem_map, List.mem_filter]
  constructor
  · rintro (⟨kv, ⟨h1, h2⟩, rfl⟩ | ⟨kv, ⟨h1, h2⟩, rfl⟩)
    · exact ⟨kv, h1, by simp only [h2]; rfl⟩
    · exact ⟨kv, h1, by simp only [Bool.not_eq_true'] at h2; simp only [h2]; rfl⟩
  · rintro ⟨kv, h1, rfl⟩
    cases h : nonexp.contains kv.1
    · exact Or.inr ⟨kv, ⟨h1, by simp only [h]; rfl⟩, rfl⟩
    · exact Or.inl ⟨kv, ⟨h1, h⟩, rfl⟩

/-- executing the assignments of a mapping makes exactly the wanted variables arrive -/
theorem arrives_executed (ro : List Str) (env : List (Str × Val)) (hok : EnvOk env) (nonexp : List Str)
    (hn : nonexportedOf env = .ok nonexp) (st0 : Store) (hfresh : Fresh ro env st0) :
    Arrives ro env st0 (Store.run st0 (executed ro env nonexp)) := by
  obtain ⟨nonexp', hn', hmark⟩ := nonexportedOf_ok hok.marker_str
  have : nonexp' = nonexp := by rw [hn] at hn'; exact (Except.ok.inj hn').symm
  subst this
  intro k
  cases hw : wanted ro env k with
  | some w =>
    simp only
    unfold wanted at hw
    split at hw
    · simp at hw
    · next hcond =>
      simp only [not_or] at hcond
      cases hl : env.lookup k with
      | none => simp [hl] at hw
      | some v =>
        simp only [hl, Option.some.injEq] at hw
        have hmem : (k, v) ∈ items ro env := mem_items.2 ⟨lookup_mem hl, hcond.1, hcond.2⟩
        have ha : (⟨k, valBytes v, !nonexp'.contains k⟩ : Assign) ∈ executed ro env nonexp' :=
          mem_executed.2 ⟨(k, v), hmem, rfl⟩
        have hrun := run_mem st0 _ (keys_executed ro env nonexp' hok.distinct) _ ha
        simp only at hrun
        rw [hrun, ← hw, hmark]
        have hex : exportedIn st0 k = false := by
          unfold exportedIn
          cases hs : st0 k with
          | none => rfl
          | some var =>
            simp only
            apply hfresh k var hs
            simp [wanted, hcond.1, hcond.2, hl]
        rw [hex, Bool.or_false]
  | none =>
    simp only
    apply run_not_mem
    intro hk
    obtain ⟨a, ha, rfl⟩ := List.mem_map.1 hk
    obtain ⟨kv, hkv, rfl⟩ := mem_executed.1 ha
    obtain ⟨h1, h2, h3⟩ := mem_items.1 hkv
    have hl := mem_lookup hok.distinct (show (kv.1, kv.2) ∈ env from h1)
    simp [wanted, h2, h3, hl] at hw

theorem executed_keys {ro : List Str} {env : List (Str × Val)} {nonexp : List Str} {a : Assign}
    (ha : a ∈ executed ro env nonexp) : ∃ kv ∈ env, a.key = kv.1 := by
  simp only [executed, List.mem_append, List.mem_map, List.mem_filter] at ha
  rcases ha with ⟨kv, ⟨hkv, _⟩, rfl⟩ | ⟨kv, ⟨hkv, _⟩, rfl⟩
  · exact ⟨kv, (mem_items.1 hkv).1, rfl⟩
  · exact ⟨kv, (mem_items.1 hkv).1, rfl⟩

theorem runIn_eq_run (frame : List Str) (st : Store) (as : List Assign) (h : ∀ a ∈ as, a.key ∉ frame) :
    st.runIn frame as = st.run as := by
  unfold Store.runIn
  congr 1
  rw [List.filter_eq_self]
  intro a ha
  simp [h a ha]

/-! ## hand-overs of one long-lived mapping object (heap model of `_generate_env_str`'s `dict(...)` / `.pop`) -/

theorem genEnvStrBody_eq (ro : List Str) (env : Env) :
    genEnvStrBody ro (env.lookup marker) (env.filter fun kv => kv.1 != marker) = genEnvStr ro env := by
  have h : nonexportedOfVal (env.lookup marker) = nonexportedOf env := by
    unfold nonexportedOf
    cases env.lookup marker with
    | none => rfl
    | some v => cases v <;> rfl
  unfold genEnvStrBody genEnvStr items
  rw [h]

/-- one call with the defensive copy: the text is that of the object's entries, the heap gains one object (the copy,
from which the marker was popped) and every object that existed before — the caller's included — is unchanged -/
theorem genEnvStrCall_copy (ro : List Str) (h : Heap) (a : Nat) :
    (genEnvStrCall true ro h a).1 = genEnvStr ro (h.get a) ∧
    (genEnvStrCall true ro h a).2.length = h.length + 1 ∧
    ∀ b, b < h.length → (genEnvStrCall true ro h a).2.get b = h.get b := by
  have hw : Heap.get (h ++ [h.get a]) h.length = h.get a := by simp [Heap.get]
  refine ⟨?_, ?_, ?_⟩
  · simp only [genEnvStrCall, Heap.alloc, Heap.popMarker, if_true, hw]
    rw [← genEnvStrBody_eq]
    congr 1
    simp [Heap.get]
  · simp [genEnvStrCall, Heap.alloc, Heap.popMarker]
  · intro b hb
    simp only [genEnvStrCall, Heap.alloc, Heap.popMarker, if_true]
    simp [Heap.get, List.getElem?_append_left hb]

theorem handovers_copy (ro : List Str) (n : Nat) : ∀ (h : Heap) (a : Nat), a < h.length →
    handovers true ro n h a = List.replicate n (genEnvStr ro (h.get a)) := by
  induction n with
  | zero => intros; rfl
  | succ n ih =>
    intro h a ha
    obtain ⟨h1, h2, h3⟩ := genEnvStrCall_copy ro h a
    rw [handovers, h1, ih _ a (by omega), h3 a ha, List.replicate_succ]

end Pkgcore.C31
