import Pkgcore.Model.C10Solver
/-!
# C10 solver model — helper lemmas (frame of push/pop, forward checking, the search)
-/
set_option linter.unusedSectionVars false
set_option linter.unusedSimpArgs false
set_option linter.unusedVariables false
namespace Pkgcore.C10.Solver
variable {Var Val : Type} [DecidableEq Var] [DecidableEq Val]

/-! ## lists -/

theorem foldl_erase_cons_of_not_mem (x : Val) : ∀ (ys xs : List Val), x ∉ ys →
    ys.foldl List.erase (x :: xs) = x :: ys.foldl List.erase xs
  | [], _, _ => rfl
  | y :: ys, xs, h => by
      have hne : ¬ (x = y) := fun e => h (by simp [e])
      have : (x :: xs).erase y = x :: xs.erase y := by simp [List.erase_cons, hne]
      simp only [List.foldl_cons, this]
      exact foldl_erase_cons_of_not_mem x ys _ (fun hm => h (List.mem_cons_of_mem _ hm))

/-- removing (first occurrences of) all the values that fail a test, one `list.remove` each, leaves the others in order -/
theorem foldl_erase_filter (p : Val → Bool) : ∀ l : List Val,
    (l.filter p).foldl List.erase l = l.filter (fun x => !p x)
  | [] => rfl
  | x :: xs => by
      by_cases hp : p x = true
      · simp only [List.filter_cons, hp, if_true, List.foldl_cons, List.erase_cons_head, Bool.not_true,
          Bool.false_eq_true, if_false]
        exact foldl_erase_filter p xs
      · have hp' : p x = false := by simpa using hp
        simp only [List.filter_cons, hp', Bool.false_eq_true, if_false, Bool.not_false, if_true]
        rw [foldl_erase_cons_of_not_mem x _ _ (by simp [List.mem_filter, hp']), foldl_erase_filter p xs]

theorem foldl_hideValue : ∀ (H : List Val) (d : Dom Val),
    H.foldl Dom.hideValue d = { vis := H.foldl List.erase d.vis, hidden := d.hidden ++ H, states := d.states }
  | [], d => by cases d; simp
  | v :: H, d => by
      rw [List.foldl_cons, foldl_hideValue H]
      simp [Dom.hideValue, List.append_assoc]

theorem getLast?_filter (p : Val → Bool) (l : List Val) (v : Val) (h : l.getLast? = some v) (hp : p v = true) :
    (l.filter p).getLast? = some v := by
  obtain ⟨ys, rfl⟩ := List.getLast?_eq_some_iff.mp h
  simp [List.filter_append, hp]

/-! ## the store -/

theorem lookup_upd (p : Var → Bool) (f : Dom Val → Dom Val) (x : Var) : ∀ st : Store Var Val,
    (upd p f st).lookup x = (st.lookup x).map fun d => if p x then f d else d
  | [] => rfl
  | (k, d) :: rest => by
      have ih := lookup_upd p f x rest
      unfold upd at ih ⊢
      by_cases hk : x = k
      · subst hk
        by_cases hp : p x = true <;> simp [hp, List.lookup_cons]
      · have hk' : (x == k) = false := by simpa using hk
        by_cases hp : p k = true <;> simp [hp, List.lookup_cons, hk', ih]

theorem lookup_modify (y : Var) (f : Dom Val → Dom Val) (x : Var) : ∀ st : Store Var Val,
    (modify y f st).lookup x = (st.lookup x).map fun d => if x = y then f d else d
  | [] => rfl
  | (k, d) :: rest => by
      have ih := lookup_modify y f x rest
      unfold modify
      by_cases hy : k = y
      · subst hy
        by_cases hk : x = k
        · subst hk; simp [List.lookup_cons]
        · have hk' : (x == k) = false := by simpa using hk
          simp only [if_true, List.lookup_cons, hk']
          cases rest.lookup x <;> simp [hk]
      · by_cases hk : x = k
        · subst hk; simp [hy, List.lookup_cons]
        · have hk' : (x == k) = false := by simpa using hk
          simp [hy, List.lookup_cons, hk', ih]

@[simp] theorem keys_upd (p : Var → Bool) (f : Dom Val → Dom Val) (st : Store Var Val) :
    (upd p f st).map Prod.fst = st.map Prod.fst := by
  unfold upd
  rw [List.map_map]
  apply List.map_congr_left
  intro e _
  by_cases hp : p e.1 = true <;> simp [hp]

@[simp] theorem keys_modify (y : Var) (f : Dom Val → Dom Val) : ∀ st : Store Var Val,
    (modify y f st).map Prod.fst = st.map Prod.fst
  | [] => rfl
  | (k, d) :: rest => by
      unfold modify
      by_cases hy : k = y <;> simp [hy, keys_modify y f rest]

theorem modify_congr (y : Var) (f g : Dom Val → Dom Val) : ∀ (st : Store Var Val) (d : Dom Val),
    st.lookup y = some d → f d = g d → modify y f st = modify y g st
  | [], _, h, _ => by simp at h
  | (k, e) :: rest, d, h, hfg => by
      unfold modify
      by_cases hy : k = y
      · subst hy
        simp only [List.lookup_cons, beq_self_eq_true, Option.some.injEq] at h
        subst h; simp [hfg]
      · have hk' : (y == k) = false := by simpa using fun e => hy e.symm
        simp only [List.lookup_cons, hk'] at h
        simp [hy, modify_congr y f g rest d h hfg]

theorem lookup_mem {β : Type} (x : Var) : ∀ (l : List (Var × β)) (b : β), l.lookup x = some b → (x, b) ∈ l
  | [], _, h => by simp at h
  | (k, e) :: rest, b, h => by
      by_cases hk : x = k
      · subst hk
        simp only [List.lookup_cons, beq_self_eq_true, Option.some.injEq] at h
        subst h; simp
      · have hk' : (x == k) = false := by simpa using hk
        simp only [List.lookup_cons, hk'] at h
        exact List.mem_cons_of_mem _ (lookup_mem x rest b h)

theorem lookup_isSome_iff {β : Type} (x : Var) : ∀ (l : List (Var × β)), (l.lookup x).isSome = true ↔ x ∈ l.map Prod.fst
  | [] => by simp
  | (k, e) :: rest => by
      by_cases hk : x = k
      · subst hk; simp [List.lookup_cons]
      · have hk' : (x == k) = false := by simpa using hk
        simp [List.lookup_cons, hk', hk, lookup_isSome_iff x rest]

theorem lookup_of_mem_nodup {β : Type} : ∀ (l : List (Var × β)) (x : Var) (b : β),
    (l.map Prod.fst).Nodup → (x, b) ∈ l → l.lookup x = some b
  | [], _, _, _, h => by simp at h
  | (k, e) :: rest, x, b, hnd, h => by
      simp only [List.map_cons, List.nodup_cons] at hnd
      rcases List.mem_cons.mp h with h0 | h0
      · simp only [Prod.mk.injEq] at h0
        obtain ⟨rfl, rfl⟩ := h0
        simp [List.lookup_cons]
      · have hne : ¬ (x = k) := by
          intro e0; subst e0
          exact hnd.1 (List.mem_map.mpr ⟨(x, b), h0, rfl⟩)
        have hk' : (x == k) = false := by simpa using hne
        simp only [List.lookup_cons, hk']
        exact lookup_of_mem_nodup rest x b hnd.2 h0


/-! ## relations between stores -/

/-- the same domain up to the order of the visible values -/
def DomEq (d d' : Dom Val) : Prop := d.vis.Perm d'.vis ∧ d'.hidden = d.hidden ∧ d'.states = d.states
/-- `d'` is `d` after some values were hidden (and visible values reordered) -/
def Hid (d d' : Dom Val) : Prop := ∃ H, d'.hidden = d.hidden ++ H ∧ (d'.vis ++ H).Perm d.vis ∧ d'.states = d.states

def ORel (R : Dom Val → Dom Val → Prop) : Option (Dom Val) → Option (Dom Val) → Prop
  | some d, some d' => R d d'
  | none, none => True
  | _, _ => False

def StRel (R : Var → Dom Val → Dom Val → Prop) (st st' : Store Var Val) : Prop :=
  ∀ x, ORel (R x) (st.lookup x) (st'.lookup x)

/-- the frame of a balanced piece of search: same domains up to the order of the visible values -/
def StEq (st st' : Store Var Val) : Prop := StRel (fun _ => DomEq) st st'

theorem DomEq.refl (d : Dom Val) : DomEq d d := ⟨List.Perm.refl _, rfl, rfl⟩
theorem DomEq.trans {a b c : Dom Val} (h1 : DomEq a b) (h2 : DomEq b c) : DomEq a c :=
  ⟨h1.1.trans h2.1, h2.2.1.trans h1.2.1, h2.2.2.trans h1.2.2⟩
theorem Hid.refl (d : Dom Val) : Hid d d := ⟨[], by simp, by simp, rfl⟩
theorem Hid.of_eq {a b : Dom Val} (h : DomEq a b) : Hid a b := ⟨[], by simp [h.2.1], by simpa using h.1.symm, h.2.2⟩
theorem Hid.trans {a b c : Dom Val} (h1 : Hid a b) (h2 : Hid b c) : Hid a c := by
  obtain ⟨H1, e1, p1, s1⟩ := h1
  obtain ⟨H2, e2, p2, s2⟩ := h2
  refine ⟨H1 ++ H2, by rw [e2, e1, List.append_assoc], ?_, s2.trans s1⟩
  have : (c.vis ++ (H1 ++ H2)).Perm ((c.vis ++ H2) ++ H1) := by
    rw [List.append_assoc]
    exact List.Perm.append_left _ List.perm_append_comm
  exact this.trans ((List.Perm.append_right _ p2).trans p1)

theorem StEq.refl (st : Store Var Val) : StEq st st := by
  intro x; cases h : st.lookup x <;> simp [ORel, DomEq.refl]

theorem StEq.trans {a b c : Store Var Val} (h1 : StEq a b) (h2 : StEq b c) : StEq a c := by
  intro x
  have u := h1 x; have v := h2 x
  cases ha : a.lookup x <;> cases hb : b.lookup x <;> cases hc : c.lookup x <;>
    simp only [ha, hb, hc, ORel] at u v ⊢ <;> first | exact DomEq.trans u v | trivial | exact u.elim | exact v.elim

/-- the heart of push/pop: whatever was hidden since the matching `push_state` comes back with `pop_state` -/
theorem pop_of_hid_push {d d2 d3 : Dom Val} (h : Hid d.pushState d2) (e : DomEq d2 d3) : DomEq d d3.popState := by
  obtain ⟨H, e1, p1, s1⟩ := h
  obtain ⟨p2, e2, s2⟩ := e
  simp only [Dom.pushState] at e1 p1 s1
  have hlen : d.vis.length = d3.vis.length + H.length := by
    have := p1.length_eq; have := p2.length_eq
    simp only [List.length_append] at *; omega
  have hst : d3.states = d.vis.length :: d.states := by rw [s2, s1]
  unfold Dom.popState
  rw [hst]
  simp only
  by_cases hH : d.vis.length - d3.vis.length = 0
  · have hH0 : H = [] := List.eq_nil_of_length_eq_zero (by omega)
    subst hH0
    simp only [hH, if_true]
    refine ⟨?_, ?_, rfl⟩
    · simp only [List.append_nil] at p1; exact (p2.symm.trans p1).symm
    · simp [e2, e1]
  · simp only [hH, if_false]
    have hd : d3.hidden.length - (d.vis.length - d3.vis.length) = d.hidden.length := by
      rw [e2, e1, List.length_append]; omega
    rw [hd, e2, e1]
    refine ⟨?_, ?_, rfl⟩
    · simp only [List.drop_left']
      exact ((List.Perm.append_right H p2.symm).trans p1).symm
    · simp


theorem StRel.refl' (R : Var → Dom Val → Dom Val → Prop) (hR : ∀ x d, R x d d) (st : Store Var Val) : StRel R st st := by
  intro x; cases h : st.lookup x <;> simp [ORel, hR]

theorem StRel.trans' (R : Var → Dom Val → Dom Val → Prop) (hR : ∀ x a b c, R x a b → R x b c → R x a c)
    {a b c : Store Var Val} (h1 : StRel R a b) (h2 : StRel R b c) : StRel R a c := by
  intro x
  have u := h1 x; have v := h2 x
  cases ha : a.lookup x <;> cases hb : b.lookup x <;> cases hc : c.lookup x <;>
    simp only [ha, hb, hc, ORel] at u v ⊢ <;> first | exact hR x _ _ _ u v | trivial | exact u.elim | exact v.elim

/-! ## `__check` -/

/-- the domain forward checking leaves: the values consistent with the constraint stay, the others go to `_hidden` -/
def fcDom (c : Constraint Var Val) (asg : Asg Var Val) (y : Var) (d : Dom Val) : Dom Val :=
  { vis := d.vis.filter (fun w => c.pred (known c.scope ((y, w) :: asg))),
    hidden := d.hidden ++ d.vis.filter (fun w => !c.pred (known c.scope ((y, w) :: asg))),
    states := d.states }

theorem check_cases (c : Constraint Var Val) (asg : Asg Var Val) (st : Store Var Val) :
    (c.scope.filter (unassigned asg) = [] ∧ check c asg st = (c.pred (known c.scope asg), st)) ∨
    (c.scope.filter (unassigned asg) ≠ [] ∧ check c asg st = (true, st)) ∨
    (∃ y d, c.scope.filter (unassigned asg) = [y] ∧ st.lookup y = some d ∧
       check c asg st = (!(fcDom c asg y d).vis.isEmpty, modify y (fun _ => fcDom c asg y d) st)) := by
  unfold check
  cases hf : c.scope.filter (unassigned asg) with
  | nil => exact Or.inl ⟨rfl, rfl⟩
  | cons y ys =>
    cases ys with
    | cons z zs => exact Or.inr (Or.inl ⟨by simp, rfl⟩)
    | nil =>
      simp only
      cases hl : st.lookup y with
      | none => exact Or.inr (Or.inl ⟨by simp, rfl⟩)
      | some d =>
        simp only
        by_cases he : d.vis.isEmpty = true
        · simp only [he, if_true]; exact Or.inr (Or.inl ⟨by simp, trivial⟩)
        · simp only [he, Bool.false_eq_true, if_false]
          by_cases hh : (d.vis.filter fun w => !c.pred (known c.scope ((y, w) :: asg))).isEmpty = true
          · simp only [hh, if_true]; exact Or.inr (Or.inl ⟨by simp, trivial⟩)
          · simp only [hh, Bool.false_eq_true, if_false]
            refine Or.inr (Or.inr ⟨y, d, rfl, hl, ?_⟩)
            have hfold : (d.vis.filter fun w => !c.pred (known c.scope ((y, w) :: asg))).foldl Dom.hideValue d
                = fcDom c asg y d := by
              rw [foldl_hideValue, foldl_erase_filter]
              simp [fcDom]
            rw [hfold]
            congr 1
            exact modify_congr y _ _ st d hl hfold

theorem hid_fcDom (c : Constraint Var Val) (asg : Asg Var Val) (y : Var) (d : Dom Val) : Hid d (fcDom c asg y d) :=
  ⟨_, rfl, List.filter_append_perm _ _, rfl⟩

theorem keys_check (c : Constraint Var Val) (asg : Asg Var Val) (st : Store Var Val) :
    (check c asg st).2.map Prod.fst = st.map Prod.fst := by
  rcases check_cases c asg st with ⟨_, h⟩ | ⟨_, h⟩ | ⟨y, d, _, _, h⟩ <;> simp [h]

theorem keys_checkAll (asg : Asg Var Val) : ∀ (cs : List (Constraint Var Val)) (st : Store Var Val),
    (checkAll asg cs st).2.map Prod.fst = st.map Prod.fst
  | [], st => rfl
  | c :: cs, st => by
      unfold checkAll
      have hk := keys_check c asg st
      cases hc : check c asg st with
      | mk ok st' =>
        rw [hc] at hk
        cases ok with
        | false => exact hk
        | true => simp only; rw [keys_checkAll asg cs st', hk]

/-- what `__check` may do to the domains: hide values of unassigned variables, nothing else -/
def FcRel (asg : Asg Var Val) : Var → Dom Val → Dom Val → Prop :=
  fun x d d' => if unassigned asg x = true then Hid d d' else d' = d

theorem FcRel.refl (asg : Asg Var Val) (x : Var) (d : Dom Val) : FcRel asg x d d := by
  unfold FcRel; split
  · exact Hid.refl d
  · rfl

theorem FcRel.trans (asg : Asg Var Val) (x : Var) (a b c : Dom Val) (h1 : FcRel asg x a b) (h2 : FcRel asg x b c) :
    FcRel asg x a c := by
  unfold FcRel at *
  split
  · next h => simp only [h, if_true] at h1 h2; exact Hid.trans h1 h2
  · next h => simp only [h, if_false] at h1 h2; rw [h2, h1]

theorem mem_filter_unassigned {asg : Asg Var Val} {scope : List Var} {y : Var}
    (h : scope.filter (unassigned asg) = [y]) : unassigned asg y = true ∧ y ∈ scope := by
  have : y ∈ scope.filter (unassigned asg) := by rw [h]; simp
  rw [List.mem_filter] at this
  exact ⟨this.2, this.1⟩

theorem check_frame (c : Constraint Var Val) (asg : Asg Var Val) (st : Store Var Val) :
    StRel (FcRel asg) st (check c asg st).2 := by
  rcases check_cases c asg st with ⟨_, h⟩ | ⟨_, h⟩ | ⟨y, d, hf, hl, h⟩
  · rw [h]; exact StRel.refl' _ (FcRel.refl asg) st
  · rw [h]; exact StRel.refl' _ (FcRel.refl asg) st
  · rw [h]
    intro x
    simp only [lookup_modify]
    by_cases hx : x = y
    · subst hx
      simp only [hl, Option.map_some, if_true, ORel, FcRel, (mem_filter_unassigned hf).1]
      exact hid_fcDom c asg x d
    · cases hlx : st.lookup x <;> simp [ORel, hx, FcRel.refl]

theorem checkAll_frame (asg : Asg Var Val) : ∀ (cs : List (Constraint Var Val)) (st : Store Var Val),
    StRel (FcRel asg) st (checkAll asg cs st).2
  | [], st => StRel.refl' _ (FcRel.refl asg) st
  | c :: cs, st => by
      unfold checkAll
      have hk := check_frame c asg st
      cases hc : check c asg st with
      | mk ok st' =>
        rw [hc] at hk
        cases ok with
        | false => exact hk
        | true => exact StRel.trans' _ (FcRel.trans asg) hk (checkAll_frame asg cs st')

/-! ## the frame of the search -/

theorem unassigned_cons (asg : Asg Var Val) (var : Var) (v : Val) (x : Var) :
    unassigned ((var, v) :: asg) x = (x != var && unassigned asg x) := by
  unfold unassigned
  by_cases h : x = var
  · subst h; simp [List.lookup_cons]
  · have h' : (x == var) = false := by simpa using h
    simp [List.lookup_cons, h', bne, h]

theorem frame_point (b : Bool) (o o2 o3 : Option (Dom Val))
    (h1 : ORel (fun d d' => if b = true then Hid d d' else d' = d) (o.map fun d => if b = true then d.pushState else d) o2)
    (h2 : ORel DomEq o2 o3) : ORel DomEq o (o3.map fun d => if b = true then d.popState else d) := by
  cases o <;> cases o2 <;> cases o3 <;> simp only [ORel, Option.map_some, Option.map_none] at h1 h2 ⊢ <;>
    first | trivial | exact h1.elim | exact h2.elim | skip
  cases b
  · simp only [Bool.false_eq_true, if_false] at h1 ⊢
    rw [h1] at h2; exact h2
  · simp only [if_true] at h1 ⊢
    exact pop_of_hid_push h1 h2

theorem tryOne_frame (rec : Store Var Val → Asg Var Val → List (Asg Var Val) × Store Var Val)
    (hrec : ∀ st asg, StEq st (rec st asg).2) (cons : List (Constraint Var Val)) (var : Var) (asg : Asg Var Val)
    (v : Val) (st : Store Var Val) : StEq st (tryOne rec cons var asg v st).2 := by
  intro x
  unfold tryOne
  simp only [lookup_upd]
  apply frame_point (x != var && unassigned asg x) (st.lookup x)
    ((checkAll ((var, v) :: asg) (vcons cons var) (upd (fun x => x != var && unassigned asg x) Dom.pushState st)).2.lookup x)
  · have := checkAll_frame ((var, v) :: asg) (vcons cons var) (upd (fun x => x != var && unassigned asg x) Dom.pushState st) x
    have hR : FcRel ((var, v) :: asg) x
        = fun d d' => if (x != var && unassigned asg x) = true then Hid d d' else d' = d := by
      funext d d'; simp only [FcRel, unassigned_cons]
    rw [hR] at this
    simp only [lookup_upd] at this
    exact this
  · split
    · exact hrec _ _ x
    · exact StEq.refl _ x

theorem tryValues_frame (rec : Store Var Val → Asg Var Val → List (Asg Var Val) × Store Var Val)
    (hrec : ∀ st asg, StEq st (rec st asg).2) (cons : List (Constraint Var Val)) (var : Var) (asg : Asg Var Val) :
    ∀ (vals : List Val) (st : Store Var Val), StEq st (tryValues rec cons var asg vals st).2
  | [], st => StEq.refl st
  | v :: vs, st => by
      unfold tryValues
      exact StEq.trans (tryOne_frame rec hrec cons var asg v st) (tryValues_frame rec hrec cons var asg vs _)

theorem solveRec_frame (lt : Var → Var → Bool) (cons : List (Constraint Var Val)) :
    ∀ (fuel : Nat) (st : Store Var Val) (asg : Asg Var Val), StEq st (solveRec lt cons fuel st asg).2
  | 0, st, asg => by
      unfold solveRec; split <;> exact StEq.refl st
  | fuel + 1, st, asg => by
      unfold solveRec
      split
      · exact StEq.refl st
      · split
        · exact StEq.refl st
        · exact tryValues_frame _ (solveRec_frame lt cons fuel) cons _ asg _ st

end Pkgcore.C10.Solver
