import Pkgcore.Spec.C10Solver
import Pkgcore.Proofs.C10
/-!
# C10 solver model — helper lemmas (frame of push/pop, forward checking, the search)
-/
set_option linter.unusedSectionVars false
set_option linter.unusedSimpArgs false
set_option linter.unusedVariables false
namespace Pkgcore.C10.Solver
variable {Var Val : Type} [DecidableEq Var] [DecidableEq Val]

/-! ## lists -/

theorem foldl_erase_cons_of_not_mem (x : Val) : ∀ (ys xs : List Val), x ∉ ys →
    ys.foldl List.erase (x :: xs) = x :: ys.foldl List.erase xs
  | [], _, _ => rfl
  | y :: ys, xs, h => by
      have hne : ¬ (x = y) := fun e => h (by simp [e])
      have : (x :: xs).erase y = x :: xs.erase y := by simp [List.erase_cons, hne]
      simp only [List.foldl_cons, this]
      exact foldl_erase_cons_of_not_mem x ys _ (fun hm => h (List.mem_cons_of_mem _ hm))

/-- removing (first occurrences of) all the values that fail a test, one `list.remove` each, leaves the others in order -/
theorem foldl_erase_filter (p : Val → Bool) : ∀ l : List Val,
    (l.filter p).foldl List.erase l = l.filter (fun x => !p x)
  | [] => rfl
  | x :: xs => by
      by_cases hp : p x = true
      · simp only [List.filter_cons, hp, if_true, List.foldl_cons, List.erase_cons_head, Bool.not_true,
          Bool.false_eq_true, if_false]
        exact foldl_erase_filter p xs
      · have hp' : p x = false := by simpa using hp
        simp only [List.filter_cons, hp', Bool.false_eq_true, if_false, Bool.not_false, if_true]
        rw [foldl_erase_cons_of_not_mem x _ _ (by simp [List.mem_filter, hp']), foldl_erase_filter p xs]

theorem foldl_hideValue : ∀ (H : List Val) (d : Dom Val),
    H.foldl Dom.hideValue d = { vis := H.foldl List.erase d.vis, hidden := d.hidden ++ H, states := d.states }
  | [], d => by cases d; simp
  | v :: H, d => by
      rw [List.foldl_cons, foldl_hideValue H]
      simp [Dom.hideValue, List.append_assoc]

theorem getLast?_filter (p : Val → Bool) (l : List Val) (v : Val) (h : l.getLast? = some v) (hp : p v = true) :
    (l.filter p).getLast? = some v := by
  obtain ⟨ys, rfl⟩ := List.getLast?_eq_some_iff.mp h
  simp [List.filter_append, hp]

theorem nodup_reverse' {l : List Val} (h : l.Nodup) : l.reverse.Nodup := by
  unfold List.Nodup
  rw [List.pairwise_reverse]
  exact List.Pairwise.imp (fun {a b} h => Ne.symm h) h

/-! ## the store -/

theorem lookup_upd (p : Var → Bool) (f : Dom Val → Dom Val) (x : Var) : ∀ st : Store Var Val,
    (upd p f st).lookup x = (st.lookup x).map fun d => if p x then f d else d
  | [] => rfl
  | (k, d) :: rest => by
      have ih := lookup_upd p f x rest
      unfold upd at ih ⊢
      by_cases hk : x = k
      · subst hk
        by_cases hp : p x = true <;> simp [hp, List.lookup_cons]
      · have hk' : (x == k) = false := by simpa using hk
        by_cases hp : p k = true <;> simp [hp, List.lookup_cons, hk', ih]

theorem lookup_modify (y : Var) (f : Dom Val → Dom Val) (x : Var) : ∀ st : Store Var Val,
    (modify y f st).lookup x = (st.lookup x).map fun d => if x = y then f d else d
  | [] => rfl
  | (k, d) :: rest => by
      have ih := lookup_modify y f x rest
      unfold modify
      by_cases hy : k = y
      · subst hy
        by_cases hk : x = k
        · subst hk; simp [List.lookup_cons]
        · have hk' : (x == k) = false := by simpa using hk
          simp only [if_true, List.lookup_cons, hk']
          cases rest.lookup x <;> simp [hk]
      · by_cases hk : x = k
        · subst hk; simp [hy, List.lookup_cons]
        · have hk' : (x == k) = false := by simpa using hk
          simp [hy, List.lookup_cons, hk', ih]

@[simp] theorem keys_upd (p : Var → Bool) (f : Dom Val → Dom Val) (st : Store Var Val) :
    (upd p f st).map Prod.fst = st.map Prod.fst := by
  unfold upd
  rw [List.map_map]
  apply List.map_congr_left
  intro e _
  by_cases hp : p e.1 = true <;> simp [hp]

@[simp] theorem keys_modify (y : Var) (f : Dom Val → Dom Val) : ∀ st : Store Var Val,
    (modify y f st).map Prod.fst = st.map Prod.fst
  | [] => rfl
  | (k, d) :: rest => by
      unfold modify
      by_cases hy : k = y <;> simp [hy, keys_modify y f rest]

theorem modify_congr (y : Var) (f g : Dom Val → Dom Val) : ∀ (st : Store Var Val) (d : Dom Val),
    st.lookup y = some d → f d = g d → modify y f st = modify y g st
  | [], _, h, _ => by simp at h
  | (k, e) :: rest, d, h, hfg => by
      unfold modify
      by_cases hy : k = y
      · subst hy
        simp only [List.lookup_cons, beq_self_eq_true, Option.some.injEq] at h
        subst h; simp [hfg]
      · have hk' : (y == k) = false := by simpa using fun e => hy e.symm
        simp only [List.lookup_cons, hk'] at h
        simp [hy, modify_congr y f g rest d h hfg]

theorem lookup_mem {β : Type} (x : Var) : ∀ (l : List (Var × β)) (b : β), l.lookup x = some b → (x, b) ∈ l
  | [], _, h => by simp at h
  | (k, e) :: rest, b, h => by
      by_cases hk : x = k
      · subst hk
        simp only [List.lookup_cons, beq_self_eq_true, Option.some.injEq] at h
        subst h; simp
      · have hk' : (x == k) = false := by simpa using hk
        simp only [List.lookup_cons, hk'] at h
        exact List.mem_cons_of_mem _ (lookup_mem x rest b h)

theorem lookup_isSome_iff {β : Type} (x : Var) : ∀ (l : List (Var × β)), (l.lookup x).isSome = true ↔ x ∈ l.map Prod.fst
  | [] => by simp
  | (k, e) :: rest => by
      by_cases hk : x = k
      · subst hk; simp [List.lookup_cons]
      · have hk' : (x == k) = false := by simpa using hk
        simp [List.lookup_cons, hk', hk, lookup_isSome_iff x rest]

theorem lookup_of_mem_nodup {β : Type} : ∀ (l : List (Var × β)) (x : Var) (b : β),
    (l.map Prod.fst).Nodup → (x, b) ∈ l → l.lookup x = some b
  | [], _, _, _, h => by simp at h
  | (k, e) :: rest, x, b, hnd, h => by
      simp only [List.map_cons, List.nodup_cons] at hnd
      rcases List.mem_cons.mp h with h0 | h0
      · simp only [Prod.mk.injEq] at h0
        obtain ⟨rfl, rfl⟩ := h0
        simp [List.lookup_cons]
      · have hne : ¬ (x = k) := by
          intro e0; subst e0
          exact hnd.1 (List.mem_map.mpr ⟨(x, b), h0, rfl⟩)
        have hk' : (x == k) = false := by simpa using hne
        simp only [List.lookup_cons, hk']
        exact lookup_of_mem_nodup rest x b hnd.2 h0


/-! ## relations between stores -/

/-- the same domain up to the order of the visible values -/
def DomEq (d d' : Dom Val) : Prop := d.vis.Perm d'.vis ∧ d'.hidden = d.hidden ∧ d'.states = d.states
/-- `d'` is `d` after some values were hidden (and visible values reordered) -/
def Hid (d d' : Dom Val) : Prop := ∃ H, d'.hidden = d.hidden ++ H ∧ (d'.vis ++ H).Perm d.vis ∧ d'.states = d.states

def ORel (R : Dom Val → Dom Val → Prop) : Option (Dom Val) → Option (Dom Val) → Prop
  | some d, some d' => R d d'
  | none, none => True
  | _, _ => False

def StRel (R : Var → Dom Val → Dom Val → Prop) (st st' : Store Var Val) : Prop :=
  ∀ x, ORel (R x) (st.lookup x) (st'.lookup x)

/-- the frame of a balanced piece of search: same domains up to the order of the visible values -/
def StEq (st st' : Store Var Val) : Prop := StRel (fun _ => DomEq) st st'

theorem DomEq.refl (d : Dom Val) : DomEq d d := ⟨List.Perm.refl _, rfl, rfl⟩
theorem DomEq.trans {a b c : Dom Val} (h1 : DomEq a b) (h2 : DomEq b c) : DomEq a c :=
  ⟨h1.1.trans h2.1, h2.2.1.trans h1.2.1, h2.2.2.trans h1.2.2⟩
theorem Hid.refl (d : Dom Val) : Hid d d := ⟨[], by simp, by simp, rfl⟩
theorem Hid.of_eq {a b : Dom Val} (h : DomEq a b) : Hid a b := ⟨[], by simp [h.2.1], by simpa using h.1.symm, h.2.2⟩
theorem Hid.trans {a b c : Dom Val} (h1 : Hid a b) (h2 : Hid b c) : Hid a c := by
  obtain ⟨H1, e1, p1, s1⟩ := h1
  obtain ⟨H2, e2, p2, s2⟩ := h2
  refine ⟨H1 ++ H2, by rw [e2, e1, List.append_assoc], ?_, s2.trans s1⟩
  have : (c.vis ++ (H1 ++ H2)).Perm ((c.vis ++ H2) ++ H1) := by
    rw [List.append_assoc]
    exact List.Perm.append_left _ List.perm_append_comm
  exact this.trans ((List.Perm.append_right _ p2).trans p1)

theorem StEq.refl (st : Store Var Val) : StEq st st := by
  intro x; cases h : st.lookup x <;> simp [ORel, DomEq.refl]

theorem StEq.trans {a b c : Store Var Val} (h1 : StEq a b) (h2 : StEq b c) : StEq a c := by
  intro x
  have u := h1 x; have v := h2 x
  cases ha : a.lookup x <;> cases hb : b.lookup x <;> cases hc : c.lookup x <;>
    simp only [ha, hb, hc, ORel] at u v ⊢ <;> first | exact DomEq.trans u v | trivial | exact u.elim | exact v.elim

/-- the heart of push/pop: whatever was hidden since the matching `push_state` comes back with `pop_state` -/
theorem pop_of_hid_push {d d2 d3 : Dom Val} (h : Hid d.pushState d2) (e : DomEq d2 d3) : DomEq d d3.popState := by
  obtain ⟨H, e1, p1, s1⟩ := h
  obtain ⟨p2, e2, s2⟩ := e
  simp only [Dom.pushState] at e1 p1 s1
  have hlen : d.vis.length = d3.vis.length + H.length := by
    have := p1.length_eq; have := p2.length_eq
    simp only [List.length_append] at *; omega
  have hst : d3.states = d.vis.length :: d.states := by rw [s2, s1]
  unfold Dom.popState
  rw [hst]
  simp only
  by_cases hH : d.vis.length - d3.vis.length = 0
  · have hH0 : H = [] := List.eq_nil_of_length_eq_zero (by omega)
    subst hH0
    simp only [hH, if_true]
    refine ⟨?_, ?_, rfl⟩
    · simp only [List.append_nil] at p1; exact (p2.symm.trans p1).symm
    · simp [e2, e1]
  · simp only [hH, if_false]
    have hd : d3.hidden.length - (d.vis.length - d3.vis.length) = d.hidden.length := by
      rw [e2, e1, List.length_append]; omega
    rw [hd, e2, e1]
    refine ⟨?_, ?_, rfl⟩
    · simp only [List.drop_left']
      exact ((List.Perm.append_right H p2.symm).trans p1).symm
    · simp


theorem StRel.refl' (R : Var → Dom Val → Dom Val → Prop) (hR : ∀ x d, R x d d) (st : Store Var Val) : StRel R st st := by
  intro x; cases h : st.lookup x <;> simp [ORel, hR]

theorem StRel.trans' (R : Var → Dom Val → Dom Val → Prop) (hR : ∀ x a b c, R x a b → R x b c → R x a c)
    {a b c : Store Var Val} (h1 : StRel R a b) (h2 : StRel R b c) : StRel R a c := by
  intro x
  have u := h1 x; have v := h2 x
  cases ha : a.lookup x <;> cases hb : b.lookup x <;> cases hc : c.lookup x <;>
    simp only [ha, hb, hc, ORel] at u v ⊢ <;> first | exact hR x _ _ _ u v | trivial | exact u.elim | exact v.elim

/-! ## `__check` -/

/-- the domain forward checking leaves: the values consistent with the constraint stay, the others go to `_hidden` -/
def fcDom (c : Constraint Var Val) (asg : Asg Var Val) (y : Var) (d : Dom Val) : Dom Val :=
  { vis := d.vis.filter (fun w => c.pred (known c.scope ((y, w) :: asg))),
    hidden := d.hidden ++ d.vis.filter (fun w => !c.pred (known c.scope ((y, w) :: asg))),
    states := d.states }

theorem check_cases (c : Constraint Var Val) (asg : Asg Var Val) (st : Store Var Val) :
    (c.scope.filter (unassigned asg) = [] ∧ check c asg st = (c.pred (known c.scope asg), st)) ∨
    (c.scope.filter (unassigned asg) ≠ [] ∧ check c asg st = (true, st)) ∨
    (∃ y d, c.scope.filter (unassigned asg) = [y] ∧ st.lookup y = some d ∧
       check c asg st = (!(fcDom c asg y d).vis.isEmpty, modify y (fun _ => fcDom c asg y d) st)) := by
  unfold check
  cases hf : c.scope.filter (unassigned asg) with
  | nil => exact Or.inl ⟨rfl, rfl⟩
  | cons y ys =>
    cases ys with
    | cons z zs => exact Or.inr (Or.inl ⟨by simp, rfl⟩)
    | nil =>
      simp only
      cases hl : st.lookup y with
      | none => exact Or.inr (Or.inl ⟨by simp, rfl⟩)
      | some d =>
        simp only
        by_cases he : d.vis.isEmpty = true
        · simp only [he, if_true]; exact Or.inr (Or.inl ⟨by simp, trivial⟩)
        · simp only [he, Bool.false_eq_true, if_false]
          by_cases hh : (d.vis.filter fun w => !c.pred (known c.scope ((y, w) :: asg))).isEmpty = true
          · simp only [hh, if_true]; exact Or.inr (Or.inl ⟨by simp, trivial⟩)
          · simp only [hh, Bool.false_eq_true, if_false]
            refine Or.inr (Or.inr ⟨y, d, rfl, hl, ?_⟩)
            have hfold : (d.vis.filter fun w => !c.pred (known c.scope ((y, w) :: asg))).foldl Dom.hideValue d
                = fcDom c asg y d := by
              rw [foldl_hideValue, foldl_erase_filter]
              simp [fcDom]
            rw [hfold]
            congr 1
            exact modify_congr y _ _ st d hl hfold

theorem hid_fcDom (c : Constraint Var Val) (asg : Asg Var Val) (y : Var) (d : Dom Val) : Hid d (fcDom c asg y d) :=
  ⟨_, rfl, List.filter_append_perm _ _, rfl⟩

theorem keys_check (c : Constraint Var Val) (asg : Asg Var Val) (st : Store Var Val) :
    (check c asg st).2.map Prod.fst = st.map Prod.fst := by
  rcases check_cases c asg st with ⟨_, h⟩ | ⟨_, h⟩ | ⟨y, d, _, _, h⟩ <;> simp [h]

theorem keys_checkAll (asg : Asg Var Val) : ∀ (cs : List (Constraint Var Val)) (st : Store Var Val),
    (checkAll asg cs st).2.map Prod.fst = st.map Prod.fst
  | [], st => rfl
  | c :: cs, st => by
      unfold checkAll
      have hk := keys_check c asg st
      cases hc : check c asg st with
      | mk ok st' =>
        rw [hc] at hk
        cases ok with
        | false => exact hk
        | true => simp only; rw [keys_checkAll asg cs st', hk]

/-- what `__check` may do to the domains: hide values of unassigned variables, nothing else -/
def FcRel (asg : Asg Var Val) : Var → Dom Val → Dom Val → Prop :=
  fun x d d' => if unassigned asg x = true then Hid d d' else d' = d

theorem FcRel.refl (asg : Asg Var Val) (x : Var) (d : Dom Val) : FcRel asg x d d := by
  unfold FcRel; split
  · exact Hid.refl d
  · rfl

theorem FcRel.trans (asg : Asg Var Val) (x : Var) (a b c : Dom Val) (h1 : FcRel asg x a b) (h2 : FcRel asg x b c) :
    FcRel asg x a c := by
  unfold FcRel at *
  split
  · next h => simp only [h, if_true] at h1 h2; exact Hid.trans h1 h2
  · next h => simp only [h, if_false] at h1 h2; rw [h2, h1]

theorem mem_filter_unassigned {asg : Asg Var Val} {scope : List Var} {y : Var}
    (h : scope.filter (unassigned asg) = [y]) : unassigned asg y = true ∧ y ∈ scope := by
  have : y ∈ scope.filter (unassigned asg) := by rw [h]; simp
  rw [List.mem_filter] at this
  exact ⟨this.2, this.1⟩

theorem check_frame (c : Constraint Var Val) (asg : Asg Var Val) (st : Store Var Val) :
    StRel (FcRel asg) st (check c asg st).2 := by
  rcases check_cases c asg st with ⟨_, h⟩ | ⟨_, h⟩ | ⟨y, d, hf, hl, h⟩
  · rw [h]; exact StRel.refl' _ (FcRel.refl asg) st
  · rw [h]; exact StRel.refl' _ (FcRel.refl asg) st
  · rw [h]
    intro x
    simp only [lookup_modify]
    by_cases hx : x = y
    · subst hx
      simp only [hl, Option.map_some, if_true, ORel, FcRel, (mem_filter_unassigned hf).1]
      exact hid_fcDom c asg x d
    · cases hlx : st.lookup x <;> simp [ORel, hx, FcRel.refl]

theorem checkAll_frame (asg : Asg Var Val) : ∀ (cs : List (Constraint Var Val)) (st : Store Var Val),
    StRel (FcRel asg) st (checkAll asg cs st).2
  | [], st => StRel.refl' _ (FcRel.refl asg) st
  | c :: cs, st => by
      unfold checkAll
      have hk := check_frame c asg st
      cases hc : check c asg st with
      | mk ok st' =>
        rw [hc] at hk
        cases ok with
        | false => exact hk
        | true => exact StRel.trans' _ (FcRel.trans asg) hk (checkAll_frame asg cs st')

/-! ## the frame of the search -/

theorem unassigned_cons (asg : Asg Var Val) (var : Var) (v : Val) (x : Var) :
    unassigned ((var, v) :: asg) x = (x != var && unassigned asg x) := by
  unfold unassigned
  by_cases h : x = var
  · subst h; simp [List.lookup_cons]
  · have h' : (x == var) = false := by simpa using h
    simp [List.lookup_cons, h', bne, h]

theorem frame_point (b : Bool) (o o2 o3 : Option (Dom Val))
    (h1 : ORel (fun d d' => if b = true then Hid d d' else d' = d) (o.map fun d => if b = true then d.pushState else d) o2)
    (h2 : ORel DomEq o2 o3) : ORel DomEq o (o3.map fun d => if b = true then d.popState else d) := by
  cases o <;> cases o2 <;> cases o3 <;> simp only [ORel, Option.map_some, Option.map_none] at h1 h2 ⊢ <;>
    first | trivial | exact h1.elim | exact h2.elim | skip
  cases b
  · simp only [Bool.false_eq_true, if_false] at h1 ⊢
    rw [h1] at h2; exact h2
  · simp only [if_true] at h1 ⊢
    exact pop_of_hid_push h1 h2

theorem tryOne_frame (rec : Store Var Val → Asg Var Val → List (Asg Var Val) × Store Var Val)
    (hrec : ∀ st asg, StEq st (rec st asg).2) (cons : List (Constraint Var Val)) (var : Var) (asg : Asg Var Val)
    (v : Val) (st : Store Var Val) : StEq st (tryOne rec cons var asg v st).2 := by
  intro x
  unfold tryOne
  simp only [lookup_upd]
  apply frame_point (x != var && unassigned asg x) (st.lookup x)
    ((checkAll ((var, v) :: asg) (vcons cons var) (upd (fun x => x != var && unassigned asg x) Dom.pushState st)).2.lookup x)
  · have := checkAll_frame ((var, v) :: asg) (vcons cons var) (upd (fun x => x != var && unassigned asg x) Dom.pushState st) x
    have hR : FcRel ((var, v) :: asg) x
        = fun d d' => if (x != var && unassigned asg x) = true then Hid d d' else d' = d := by
      funext d d'; simp only [FcRel, unassigned_cons]
    rw [hR] at this
    simp only [lookup_upd] at this
    exact this
  · split
    · exact hrec _ _ x
    · exact StEq.refl _ x

theorem tryValues_frame (rec : Store Var Val → Asg Var Val → List (Asg Var Val) × Store Var Val)
    (hrec : ∀ st asg, StEq st (rec st asg).2) (cons : List (Constraint Var Val)) (var : Var) (asg : Asg Var Val) :
    ∀ (vals : List Val) (st : Store Var Val), StEq st (tryValues rec cons var asg vals st).2
  | [], st => StEq.refl st
  | v :: vs, st => by
      unfold tryValues
      exact StEq.trans (tryOne_frame rec hrec cons var asg v st) (tryValues_frame rec hrec cons var asg vs _)

theorem solveRec_frame (lt : Var → Var → Bool) (cons : List (Constraint Var Val)) :
    ∀ (fuel : Nat) (st : Store Var Val) (asg : Asg Var Val), StEq st (solveRec lt cons fuel st asg).2
  | 0, st, asg => by
      unfold solveRec; split <;> exact StEq.refl st
  | fuel + 1, st, asg => by
      unfold solveRec
      split
      · exact StEq.refl st
      · split
        · exact StEq.refl st
        · exact tryValues_frame _ (solveRec_frame lt cons fuel) cons _ asg _ st


/-! ## keys are never touched -/

theorem keys_tryOne (rec : Store Var Val → Asg Var Val → List (Asg Var Val) × Store Var Val)
    (hrec : ∀ st asg, (rec st asg).2.map Prod.fst = st.map Prod.fst) (cons : List (Constraint Var Val)) (var : Var)
    (asg : Asg Var Val) (v : Val) (st : Store Var Val) :
    (tryOne rec cons var asg v st).2.map Prod.fst = st.map Prod.fst := by
  unfold tryOne
  simp only [keys_upd]
  split
  · rw [hrec, keys_checkAll, keys_upd]
  · rw [keys_checkAll, keys_upd]

theorem keys_tryValues (rec : Store Var Val → Asg Var Val → List (Asg Var Val) × Store Var Val)
    (hrec : ∀ st asg, (rec st asg).2.map Prod.fst = st.map Prod.fst) (cons : List (Constraint Var Val)) (var : Var)
    (asg : Asg Var Val) : ∀ (vals : List Val) (st : Store Var Val),
    (tryValues rec cons var asg vals st).2.map Prod.fst = st.map Prod.fst
  | [], st => rfl
  | v :: vs, st => by
      unfold tryValues
      simp only
      rw [keys_tryValues rec hrec cons var asg vs, keys_tryOne rec hrec]

theorem keys_solveRec (lt : Var → Var → Bool) (cons : List (Constraint Var Val)) :
    ∀ (fuel : Nat) (st : Store Var Val) (asg : Asg Var Val),
    (solveRec lt cons fuel st asg).2.map Prod.fst = st.map Prod.fst
  | 0, st, asg => by unfold solveRec; split <;> rfl
  | fuel + 1, st, asg => by
      unfold solveRec
      split
      · rfl
      · split
        · rfl
        · exact keys_tryValues _ (keys_solveRec lt cons fuel) cons _ asg _ st

/-! ## variable selection -/

theorem foldl_best_mem {α : Type} (f : α → α → Bool) : ∀ (cs : List α) (c : α),
    cs.foldl (fun best x => if f x best = true then x else best) c ∈ c :: cs
  | [], c => by simp
  | x :: xs, c => by
      simp only [List.foldl_cons]
      have := foldl_best_mem f xs (if f x c = true then x else c)
      rcases List.mem_cons.mp this with h | h
      · rw [h]; split <;> simp
      · exact List.mem_cons_of_mem _ (List.mem_cons_of_mem _ h)

theorem selectVar_some {lt : Var → Var → Bool} {cons : List (Constraint Var Val)} {asg : Asg Var Val}
    {st : Store Var Val} {var : Var} (h : selectVar lt cons asg st = some var) :
    unassigned asg var = true ∧ var ∈ st.map Prod.fst := by
  unfold selectVar at h
  split at h
  · simp at h
  · next c cs hf =>
    simp only [Option.some.injEq] at h
    have hm := foldl_best_mem (tupleLt lt) cs c
    rw [← hf, List.mem_filterMap] at hm
    obtain ⟨e, he, hsome⟩ := hm
    by_cases hu : unassigned asg e.1 = true
    · simp only [hu, if_true, Option.some.injEq] at hsome
      rw [← hsome] at h
      simp only at h
      subst h
      exact ⟨hu, List.mem_map.mpr ⟨e, he, rfl⟩⟩
    · simp [hu] at hsome

theorem selectVar_none {lt : Var → Var → Bool} {cons : List (Constraint Var Val)} {asg : Asg Var Val}
    {st : Store Var Val} (h : selectVar lt cons asg st = none) :
    ∀ x ∈ st.map Prod.fst, unassigned asg x = false := by
  unfold selectVar at h
  split at h
  · next hf =>
    intro x hx
    obtain ⟨e, he, rfl⟩ := List.mem_map.mp hx
    have := List.filterMap_eq_nil_iff.mp hf e he
    by_cases hu : unassigned asg e.1 = true
    · simp [hu] at this
    · simpa using hu
  · simp at h

/-- the number of variables still to assign -/
def unCount (asg : Asg Var Val) (ks : List Var) : Nat := (ks.filter (unassigned asg)).length

theorem unCount_cons_lt (asg : Asg Var Val) (var : Var) (v : Val) : ∀ (ks : List Var), var ∈ ks →
    unassigned asg var = true → unCount ((var, v) :: asg) ks < unCount asg ks := by
  have hle : ∀ ks : List Var, unCount ((var, v) :: asg) ks ≤ unCount asg ks := by
    intro ks
    induction ks with
    | nil => simp [unCount]
    | cons k ks ih =>
      unfold unCount at *
      simp only [List.filter_cons, unassigned_cons]
      by_cases h1 : unassigned asg k = true <;> by_cases h2 : (k != var) = true <;> simp [h1, h2] <;> omega
  intro ks
  induction ks with
  | nil => simp
  | cons k ks ih =>
    intro hm hu
    by_cases hk : k = var
    · subst hk
      have := hle ks
      unfold unCount at *
      simp only [List.filter_cons, unassigned_cons, hu]
      simp
      omega
    · have hm' : var ∈ ks := by
        rcases List.mem_cons.mp hm with h | h
        · exact absurd h.symm hk
        · exact h
      have := ih hm' hu
      unfold unCount at *
      simp only [List.filter_cons, unassigned_cons]
      by_cases h1 : unassigned asg k = true <;> simp [h1, hk] <;> omega

/-! ## soundness -/

theorem known_cons_of_not_mem (scope : List Var) (asg : Asg Var Val) (var : Var) (v : Val) (h : var ∉ scope) :
    known scope ((var, v) :: asg) = known scope asg := by
  funext x
  unfold known
  by_cases hx : x ∈ scope
  · have : ¬ (x = var) := fun e => h (e ▸ hx)
    have h' : (x == var) = false := by simpa using this
    simp [hx, List.lookup_cons, h']
  · simp [hx]

theorem filter_unassigned_cons_of_not_mem (scope : List Var) (asg : Asg Var Val) (var : Var) (v : Val) (h : var ∉ scope) :
    scope.filter (unassigned ((var, v) :: asg)) = scope.filter (unassigned asg) := by
  apply List.filter_congr
  intro x hx
  have : ¬ (x = var) := fun e => h (e ▸ hx)
  simp [unassigned_cons, this]

/-- when the checks of a variable pass, every constraint among them whose variables are all assigned holds -/
theorem checkAll_true_sat (asg : Asg Var Val) : ∀ (cs : List (Constraint Var Val)) (st : Store Var Val),
    (checkAll asg cs st).1 = true → ∀ c ∈ cs, c.scope.filter (unassigned asg) = [] → c.pred (known c.scope asg) = true
  | [], _, _, c, hc, _ => by simp at hc
  | c0 :: cs, st, h, c, hc, hf => by
      unfold checkAll at h
      cases hc0 : check c0 asg st with
      | mk ok st' =>
        rw [hc0] at h
        cases ok with
        | false => simp at h
        | true =>
          simp only at h
          rcases List.mem_cons.mp hc with rfl | hc'
          · rcases check_cases c asg st with ⟨_, h1⟩ | ⟨hne, _⟩ | ⟨y, d, hy, _, _⟩
            · rw [h1] at hc0; simp only [Prod.mk.injEq] at hc0; exact hc0.1
            · exact absurd hf hne
            · rw [hf] at hy; simp at hy
          · exact checkAll_true_sat asg cs st' h c hc' hf

structure SInv (cons : List (Constraint Var Val)) (D0 : Var → List Val) (st : Store Var Val) (asg : Asg Var Val) : Prop where
  dom : ∀ x d, st.lookup x = some d → ∀ w ∈ d.vis, w ∈ D0 x
  val : ∀ x v, asg.lookup x = some v → v ∈ D0 x
  sat : ∀ c ∈ cons, c.scope ≠ [] → c.scope.filter (unassigned asg) = [] → c.pred (known c.scope asg) = true

/-- what a yielded assignment satisfies: values of the domains, every variable assigned, every constraint (with a
non-empty scope inside the variables) holds -/
structure SPost (cons : List (Constraint Var Val)) (D0 : Var → List Val) (K : List Var) (s : Asg Var Val) : Prop where
  val : ∀ x v, s.lookup x = some v → v ∈ D0 x
  total : ∀ x ∈ K, unassigned s x = false
  sat : ∀ c ∈ cons, c.scope ≠ [] → (∀ x ∈ c.scope, x ∈ K) → c.pred (known c.scope s) = true

theorem hid_vis_sub {d d' : Dom Val} (h : Hid d d') : ∀ w ∈ d'.vis, w ∈ d.vis := by
  obtain ⟨H, _, p, _⟩ := h
  intro w hw
  exact p.subset (List.mem_append_left _ hw)

theorem StEq.dom_sub {st st' : Store Var Val} (h : StEq st st') {x : Var} {d' : Dom Val} (hl : st'.lookup x = some d') :
    ∃ d, st.lookup x = some d ∧ d.vis.Perm d'.vis := by
  have := h x
  rw [hl] at this
  cases hs : st.lookup x with
  | none => rw [hs] at this; exact this.elim
  | some d => rw [hs] at this; exact ⟨d, rfl, this.1⟩

theorem SInv.of_StEq {cons : List (Constraint Var Val)} {D0 : Var → List Val} {st st' : Store Var Val} {asg : Asg Var Val}
    (h : SInv cons D0 st asg) (e : StEq st st') : SInv cons D0 st' asg where
  dom := by
    intro x d' hl w hw
    obtain ⟨d, hd, p⟩ := e.dom_sub hl
    exact h.dom x d hd w (p.symm.subset hw)
  val := h.val
  sat := h.sat

theorem sound_tryOne (cons : List (Constraint Var Val)) (D0 : Var → List Val) (K : List Var)
    (rec : Store Var Val → Asg Var Val → List (Asg Var Val) × Store Var Val)
    (hrec : ∀ st asg, SInv cons D0 st asg → st.map Prod.fst = K → ∀ s ∈ (rec st asg).1, SPost cons D0 K s)
    (var : Var) (asg : Asg Var Val) (v : Val) (st : Store Var Val) (hv : v ∈ D0 var)
    (hi : SInv cons D0 st asg) (hK : st.map Prod.fst = K) :
    ∀ s ∈ (tryOne rec cons var asg v st).1, SPost cons D0 K s := by
  intro s hs
  unfold tryOne at hs
  simp only at hs
  split at hs
  · next hok =>
    refine hrec _ _ ?_ (by rw [keys_checkAll, keys_upd, hK]) s hs
    constructor
    · intro x d' hl w hw
      have hf := checkAll_frame ((var, v) :: asg) (vcons cons var) (upd (fun x => x != var && unassigned asg x) Dom.pushState st) x
      rw [hl, lookup_upd] at hf
      cases hsx : st.lookup x with
      | none => rw [hsx] at hf; exact hf.elim
      | some d =>
        rw [hsx] at hf
        simp only [Option.map_some, ORel, FcRel] at hf
        apply hi.dom x d hsx w
        split at hf
        · have := hid_vis_sub hf w hw
          split at this <;> simpa [Dom.pushState] using this
        · rw [hf] at hw
          split at hw <;> simpa [Dom.pushState] using hw
    · intro x w hl
      by_cases hx : x = var
      · subst hx
        simp only [List.lookup_cons, beq_self_eq_true, Option.some.injEq] at hl
        subst hl; exact hv
      · have h' : (x == var) = false := by simpa using hx
        simp only [List.lookup_cons, h'] at hl
        exact hi.val x w hl
    · intro c hc hne hf
      by_cases hm : var ∈ c.scope
      · exact checkAll_true_sat _ _ _ hok c (by simp [vcons, List.mem_filter, hc, hm]) hf
      · rw [known_cons_of_not_mem _ _ _ _ hm]
        rw [filter_unassigned_cons_of_not_mem _ _ _ _ hm] at hf
        exact hi.sat c hc hne hf
  · simp at hs

theorem sound_tryValues (cons : List (Constraint Var Val)) (D0 : Var → List Val) (K : List Var)
    (rec : Store Var Val → Asg Var Val → List (Asg Var Val) × Store Var Val)
    (hrec : ∀ st asg, SInv cons D0 st asg → st.map Prod.fst = K → ∀ s ∈ (rec st asg).1, SPost cons D0 K s)
    (hframe : ∀ st asg, StEq st (rec st asg).2) (hkeys : ∀ st asg, (rec st asg).2.map Prod.fst = st.map Prod.fst)
    (var : Var) (asg : Asg Var Val) : ∀ (vals : List Val) (st : Store Var Val), (∀ v ∈ vals, v ∈ D0 var) →
    SInv cons D0 st asg → st.map Prod.fst = K → ∀ s ∈ (tryValues rec cons var asg vals st).1, SPost cons D0 K s
  | [], st, _, _, _, s, hs => by simp [tryValues] at hs
  | v :: vs, st, hv, hi, hK, s, hs => by
      unfold tryValues at hs
      simp only [List.mem_append] at hs
      rcases hs with hs | hs
      · exact sound_tryOne cons D0 K rec hrec var asg v st (hv v (by simp)) hi hK s hs
      · exact sound_tryValues cons D0 K rec hrec hframe hkeys var asg vs _ (fun w hw => hv w (List.mem_cons_of_mem _ hw))
          (hi.of_StEq (tryOne_frame rec hframe cons var asg v st)) (by rw [keys_tryOne rec hkeys, hK]) s hs

theorem SInv.yield {cons : List (Constraint Var Val)} {D0 : Var → List Val} {st : Store Var Val} {asg : Asg Var Val}
    (hi : SInv cons D0 st asg) (hall : ∀ x ∈ st.map Prod.fst, unassigned asg x = false) :
    SPost cons D0 (st.map Prod.fst) asg where
  val := hi.val
  total := hall
  sat := by
    intro c hc hne hsub
    apply hi.sat c hc hne
    rw [List.filter_eq_nil_iff]
    intro x hx
    simp [hall x (hsub x hx)]

theorem sound_solveRec (lt : Var → Var → Bool) (cons : List (Constraint Var Val)) (D0 : Var → List Val) (K : List Var) :
    ∀ (fuel : Nat) (st : Store Var Val) (asg : Asg Var Val), SInv cons D0 st asg → st.map Prod.fst = K →
    ∀ s ∈ (solveRec lt cons fuel st asg).1, SPost cons D0 K s
  | 0, st, asg, hi, hK, s, hs => by
      unfold solveRec at hs
      split at hs
      · next hsel =>
        simp only [List.mem_singleton] at hs
        subst hs; subst hK
        exact hi.yield (selectVar_none hsel)
      · simp at hs
  | fuel + 1, st, asg, hi, hK, s, hs => by
      unfold solveRec at hs
      split at hs
      · next hsel =>
        simp only [List.mem_singleton] at hs
        subst hs; subst hK
        exact hi.yield (selectVar_none hsel)
      · next var hsel =>
        split at hs
        · simp at hs
        · next d hd =>
          exact sound_tryValues cons D0 K _ (sound_solveRec lt cons D0 K fuel) (solveRec_frame lt cons fuel)
            (keys_solveRec lt cons fuel) var asg _ st
            (fun w hw => hi.dom var d hd w (List.mem_reverse.mp hw)) hi hK s hs


/-! ## following one total assignment through the search (completeness, first solution) -/

theorem unassigned_false_iff (asg : Asg Var Val) (x : Var) : unassigned asg x = false ↔ ∃ v, asg.lookup x = some v := by
  unfold unassigned
  cases asg.lookup x <;> simp

theorem known_of_agrees_nil {scope : List Var} {asg : Asg Var Val} {a : Var → Val}
    (hf : scope.filter (unassigned asg) = []) (hag : Agrees asg a) : known scope asg = restr scope a := by
  funext x
  unfold known restr
  by_cases hx : x ∈ scope
  · simp only [hx, if_true]
    have : unassigned asg x = false := by
      have := List.filter_eq_nil_iff.mp hf x hx
      simpa using this
    obtain ⟨v, hv⟩ := (unassigned_false_iff asg x).mp this
    rw [hv, hag x v hv]
  · simp [hx]

theorem known_of_agrees_one {scope : List Var} {asg : Asg Var Val} {a : Var → Val} {y : Var}
    (hf : scope.filter (unassigned asg) = [y]) (hag : Agrees asg a) :
    known scope ((y, a y) :: asg) = restr scope a := by
  funext x
  unfold known restr
  by_cases hx : x ∈ scope
  · simp only [hx, if_true]
    by_cases hxy : x = y
    · subst hxy; simp [List.lookup_cons]
    · have h' : (x == y) = false := by simpa using hxy
      have : unassigned asg x = false := by
        cases hu : unassigned asg x with
        | false => rfl
        | true =>
          have : x ∈ scope.filter (unassigned asg) := List.mem_filter.mpr ⟨hx, hu⟩
          rw [hf] at this
          exact absurd (List.mem_singleton.mp this) hxy
      obtain ⟨v, hv⟩ := (unassigned_false_iff asg x).mp this
      simp only [List.lookup_cons, h', hv, hag x v hv]
  · simp [hx]

theorem Agrees.cons {asg : Asg Var Val} {a : Var → Val} (h : Agrees asg a) (var : Var) : Agrees ((var, a var) :: asg) a := by
  intro x v hl
  by_cases hx : x = var
  · subst hx
    simp only [List.lookup_cons, beq_self_eq_true, Option.some.injEq] at hl
    exact hl
  · have h' : (x == var) = false := by simpa using hx
    simp only [List.lookup_cons, h'] at hl
    exact h x v hl

/-- a property of (the value of the followed assignment, the visible domain) that survives filtering -/
structure QOk (Q : Val → List Val → Prop) : Prop where
  filter : ∀ v l (p : Val → Bool), Q v l → p v = true → Q v (l.filter p)
  ne : ∀ v l, Q v l → l ≠ []

theorem qok_mem : QOk (fun (v : Val) l => v ∈ l) where
  filter := fun v l p h hp => List.mem_filter.mpr ⟨h, hp⟩
  ne := fun v l h => List.ne_nil_of_mem h

theorem qok_last : QOk (fun (v : Val) l => l.getLast? = some v) where
  filter := fun v l p h hp => getLast?_filter p l v h hp
  ne := fun v l h e => by subst e; simp at h

/-- every unassigned variable still has (in the sense of `Q`) the value the followed assignment gives it -/
def PInv (Q : Val → List Val → Prop) (a : Var → Val) (st : Store Var Val) (asg : Asg Var Val) : Prop :=
  ∀ x d, unassigned asg x = true → st.lookup x = some d → Q (a x) d.vis

theorem check_keeps {Q : Val → List Val → Prop} (hQ : QOk Q) {a : Var → Val} {c : Constraint Var Val} {asg : Asg Var Val}
    {st : Store Var Val} (hsat : c.pred (restr c.scope a) = true) (hag : Agrees asg a) (hp : PInv Q a st asg) :
    (check c asg st).1 = true ∧ PInv Q a (check c asg st).2 asg := by
  rcases check_cases c asg st with ⟨hf, h⟩ | ⟨_, h⟩ | ⟨y, d, hf, hl, h⟩
  · rw [h, known_of_agrees_nil hf hag]; exact ⟨hsat, hp⟩
  · rw [h]; exact ⟨rfl, hp⟩
  · rw [h]
    have hy := (mem_filter_unassigned hf).1
    have hq : Q (a y) (fcDom c asg y d).vis := by
      apply hQ.filter _ _ _ (hp y d hy hl)
      rw [known_of_agrees_one hf hag]; exact hsat
    refine ⟨?_, ?_⟩
    · have := hQ.ne _ _ hq
      cases hv : (fcDom c asg y d).vis with
      | nil => exact absurd hv this
      | cons _ _ => rfl
    · intro x d' hx hl'
      simp only [lookup_modify] at hl'
      by_cases hxy : x = y
      · subst hxy
        rw [hl] at hl'
        simp only [Option.map_some, if_true, Option.some.injEq] at hl'
        rw [← hl']; exact hq
      · cases hsx : st.lookup x with
        | none => rw [hsx] at hl'; simp at hl'
        | some d0 =>
          rw [hsx] at hl'
          simp only [Option.map_some, hxy, if_false, Option.some.injEq] at hl'
          rw [← hl']; exact hp x d0 hx hsx

theorem checkAll_keeps {Q : Val → List Val → Prop} (hQ : QOk Q) {a : Var → Val} {asg : Asg Var Val} (hag : Agrees asg a) :
    ∀ (cs : List (Constraint Var Val)) (st : Store Var Val), (∀ c ∈ cs, c.pred (restr c.scope a) = true) →
    PInv Q a st asg → (checkAll asg cs st).1 = true ∧ PInv Q a (checkAll asg cs st).2 asg
  | [], st, _, hp => ⟨rfl, hp⟩
  | c :: cs, st, hs, hp => by
      unfold checkAll
      have hk := check_keeps hQ (hs c (by simp)) hag hp
      cases hc : check c asg st with
      | mk ok st' =>
        rw [hc] at hk
        simp only at hk
        rw [hk.1]
        exact checkAll_keeps hQ hag cs st' (fun c' hc' => hs c' (List.mem_cons_of_mem _ hc')) hk.2

/-- the round that assigns the followed value passes the checks and goes deeper, the followed assignment still viable -/
theorem tryOne_path {Q : Val → List Val → Prop} (hQ : QOk Q) {a : Var → Val} (cons : List (Constraint Var Val))
    (rec : Store Var Val → Asg Var Val → List (Asg Var Val) × Store Var Val) (var : Var) (asg : Asg Var Val)
    (st : Store Var Val) (hsat : ∀ c ∈ cons, c.pred (restr c.scope a) = true) (hag : Agrees asg a) (hp : PInv Q a st asg) :
    ∃ st', (tryOne rec cons var asg (a var) st).1 = (rec st' ((var, a var) :: asg)).1 ∧
      PInv Q a st' ((var, a var) :: asg) ∧ st'.map Prod.fst = st.map Prod.fst := by
  have hp1 : PInv Q a (upd (fun x => x != var && unassigned asg x) Dom.pushState st) ((var, a var) :: asg) := by
    intro x d hx hl
    rw [unassigned_cons] at hx
    simp only [lookup_upd, hx, if_true] at hl
    cases hsx : st.lookup x with
    | none => rw [hsx] at hl; simp at hl
    | some d0 =>
      rw [hsx] at hl
      simp only [Option.map_some, Option.some.injEq] at hl
      rw [← hl]
      simp only [Bool.and_eq_true] at hx
      exact hp x d0 hx.2 hsx
  have hk := checkAll_keeps hQ (hag.cons var) (vcons cons var) _
    (fun c hc => hsat c (List.mem_filter.mp hc).1) hp1
  refine ⟨_, ?_, hk.2, by rw [keys_checkAll, keys_upd]⟩
  unfold tryOne
  simp only [hk.1, if_true]

theorem PInv.mem_of_StEq {a : Var → Val} {st st' : Store Var Val} {asg : Asg Var Val}
    (h : PInv (fun v l => v ∈ l) a st asg) (e : StEq st st') : PInv (fun v l => v ∈ l) a st' asg := by
  intro x d' hx hl
  obtain ⟨d, hd, p⟩ := e.dom_sub hl
  exact p.subset (h x d hx hd)

theorem unCount_pos (asg : Asg Var Val) (ks : List Var) (var : Var) (hm : var ∈ ks) (hu : unassigned asg var = true) :
    0 < unCount asg ks := by
  unfold unCount
  exact List.length_pos_of_mem (List.mem_filter.mpr ⟨hm, hu⟩)

/-- what completeness gives for one followed assignment -/
def Found (a : Var → Val) (K : List Var) (sols : List (Asg Var Val)) : Prop :=
  ∃ s ∈ sols, Agrees s a ∧ ∀ x ∈ K, unassigned s x = false

theorem complete_tryValues {a : Var → Val} (cons : List (Constraint Var Val)) (K : List Var) (n : Nat)
    (rec : Store Var Val → Asg Var Val → List (Asg Var Val) × Store Var Val)
    (hrec : ∀ st asg, Agrees asg a → PInv (fun v l => v ∈ l) a st asg → st.map Prod.fst = K → unCount asg K ≤ n →
      Found a K (rec st asg).1)
    (hframe : ∀ st asg, StEq st (rec st asg).2) (hkeys : ∀ st asg, (rec st asg).2.map Prod.fst = st.map Prod.fst)
    (hsat : ∀ c ∈ cons, c.pred (restr c.scope a) = true)
    (var : Var) (asg : Asg Var Val) (hag : Agrees asg a) (hn : unCount ((var, a var) :: asg) K ≤ n) :
    ∀ (vals : List Val) (st : Store Var Val), a var ∈ vals → PInv (fun v l => v ∈ l) a st asg → st.map Prod.fst = K →
    Found a K (tryValues rec cons var asg vals st).1
  | [], _, hm, _, _ => by simp at hm
  | v :: vs, st, hm, hp, hK => by
      unfold tryValues
      by_cases hv : v = a var
      · subst hv
        obtain ⟨st', he, hp', hk'⟩ := tryOne_path qok_mem cons rec var asg st hsat hag hp
        obtain ⟨s, hs, h1, h2⟩ := hrec st' _ (hag.cons var) hp' (by rw [hk', hK]) hn
        exact ⟨s, List.mem_append_left _ (by rw [he]; exact hs), h1, h2⟩
      · have hm' : a var ∈ vs := by
          rcases List.mem_cons.mp hm with h | h
          · exact absurd h.symm hv
          · exact h
        obtain ⟨s, hs, h1, h2⟩ := complete_tryValues cons K n rec hrec hframe hkeys hsat var asg hag hn vs _ hm'
          (hp.mem_of_StEq (tryOne_frame rec hframe cons var asg v st)) (by rw [keys_tryOne rec hkeys, hK])
        exact ⟨s, List.mem_append_right _ hs, h1, h2⟩

theorem lookup_some_of_mem_keys (st : Store Var Val) (x : Var) (h : x ∈ st.map Prod.fst) : ∃ d, st.lookup x = some d := by
  have := (lookup_isSome_iff x st).mpr h
  cases hl : st.lookup x with
  | none => rw [hl] at this; simp at this
  | some d => exact ⟨d, rfl⟩

theorem complete_solveRec {a : Var → Val} (lt : Var → Var → Bool) (cons : List (Constraint Var Val)) (K : List Var)
    (hsat : ∀ c ∈ cons, c.pred (restr c.scope a) = true) :
    ∀ (fuel : Nat) (st : Store Var Val) (asg : Asg Var Val), Agrees asg a → PInv (fun v l => v ∈ l) a st asg →
    st.map Prod.fst = K → unCount asg K ≤ fuel → Found a K (solveRec lt cons fuel st asg).1
  | 0, st, asg, hag, hp, hK, hn => by
      unfold solveRec
      split
      · next hsel => subst hK; exact ⟨asg, by simp, hag, selectVar_none hsel⟩
      · next var hsel =>
        have := selectVar_some hsel
        have := unCount_pos asg K var (hK ▸ this.2) this.1
        omega
  | fuel + 1, st, asg, hag, hp, hK, hn => by
      unfold solveRec
      split
      · next hsel => subst hK; exact ⟨asg, by simp, hag, selectVar_none hsel⟩
      · next var hsel =>
        have hsv := selectVar_some hsel
        obtain ⟨d, hd⟩ := lookup_some_of_mem_keys st var hsv.2
        rw [hd]
        simp only
        have hlt := unCount_cons_lt asg var (a var) K (hK ▸ hsv.2) hsv.1
        exact complete_tryValues cons K fuel _ (complete_solveRec lt cons K hsat fuel) (solveRec_frame lt cons fuel)
          (keys_solveRec lt cons fuel) hsat var asg hag (by omega) _ st
          (List.mem_reverse.mpr (hp var d hsv.1 hd)) hp hK

/-- the first solution: when every domain ends in the value the followed assignment gives, it is found first -/
theorem first_solveRec {a : Var → Val} (lt : Var → Var → Bool) (cons : List (Constraint Var Val)) (K : List Var)
    (hsat : ∀ c ∈ cons, c.pred (restr c.scope a) = true) :
    ∀ (fuel : Nat) (st : Store Var Val) (asg : Asg Var Val), Agrees asg a →
    PInv (fun v l => l.getLast? = some v) a st asg → st.map Prod.fst = K → unCount asg K ≤ fuel →
    ∃ s, (solveRec lt cons fuel st asg).1.head? = some s ∧ Agrees s a ∧ ∀ x ∈ K, unassigned s x = false
  | 0, st, asg, hag, hp, hK, hn => by
      unfold solveRec
      split
      · next hsel => subst hK; exact ⟨asg, by simp, hag, selectVar_none hsel⟩
      · next var hsel =>
        have := selectVar_some hsel
        have := unCount_pos asg K var (hK ▸ this.2) this.1
        omega
  | fuel + 1, st, asg, hag, hp, hK, hn => by
      unfold solveRec
      split
      · next hsel => subst hK; exact ⟨asg, by simp, hag, selectVar_none hsel⟩
      · next var hsel =>
        have hsv := selectVar_some hsel
        obtain ⟨d, hd⟩ := lookup_some_of_mem_keys st var hsv.2
        rw [hd]
        simp only
        have hlt := unCount_cons_lt asg var (a var) K (hK ▸ hsv.2) hsv.1
        obtain ⟨ys, hys⟩ := List.getLast?_eq_some_iff.mp (hp var d hsv.1 hd)
        have hrev : d.vis.reverse = a var :: ys.reverse := by rw [hys]; simp
        rw [hrev]
        unfold tryValues
        obtain ⟨st', he, hp', hk'⟩ := tryOne_path qok_last cons (solveRec lt cons fuel) var asg st hsat hag hp
        obtain ⟨s, hs, h1, h2⟩ := first_solveRec lt cons K hsat fuel st' _ (hag.cons var) hp' (by rw [hk', hK]) (by omega)
        refine ⟨s, ?_, h1, h2⟩
        simp only [he]
        cases hsol : (solveRec lt cons fuel st' ((var, a var) :: asg)).1 with
        | nil => rw [hsol] at hs; simp at hs
        | cons s0 rest => rw [hsol] at hs; simpa using hs


/-! ## yielded assignments extend the current ones; enumeration order; no duplicates -/

theorem LExt.refl (asg : Asg Var Val) : LExt asg asg := fun _ _ h => h

theorem LExt.of_cons {asg s : Asg Var Val} {var : Var} {v : Val} (h : LExt ((var, v) :: asg) s)
    (hu : unassigned asg var = true) : LExt asg s ∧ s.lookup var = some v := by
  refine ⟨?_, h var v (by simp [List.lookup_cons])⟩
  intro x w hl
  apply h x w
  have : ¬ (x = var) := by
    intro e; subst e
    unfold unassigned at hu; rw [hl] at hu; simp at hu
  have h' : (x == var) = false := by simpa using this
  simp [List.lookup_cons, h', hl]

theorem ext_tryOne (rec : Store Var Val → Asg Var Val → List (Asg Var Val) × Store Var Val)
    (hrec : ∀ st asg, ∀ s ∈ (rec st asg).1, LExt asg s) (cons : List (Constraint Var Val)) (var : Var)
    (asg : Asg Var Val) (v : Val) (st : Store Var Val) :
    ∀ s ∈ (tryOne rec cons var asg v st).1, LExt ((var, v) :: asg) s := by
  intro s hs
  unfold tryOne at hs
  simp only at hs
  split at hs
  · exact hrec _ _ s hs
  · simp at hs

/-- **the order of one frame**: the solutions come in blocks, one block per value in the order the values are tried,
and every solution of a block gives the variable that value -/
theorem order_tryValues (rec : Store Var Val → Asg Var Val → List (Asg Var Val) × Store Var Val)
    (hrec : ∀ st asg, ∀ s ∈ (rec st asg).1, LExt asg s) (cons : List (Constraint Var Val)) (var : Var)
    (asg : Asg Var Val) : ∀ (vals : List Val) (st : Store Var Val),
    ∃ blocks : List (List (Asg Var Val)), (tryValues rec cons var asg vals st).1 = blocks.flatten ∧
      Blocks (fun v s => LExt ((var, v) :: asg) s) vals blocks
  | [], st => ⟨[], rfl, .nil⟩
  | v :: vs, st => by
      obtain ⟨bs, h1, h2⟩ := order_tryValues rec hrec cons var asg vs (tryOne rec cons var asg v st).2
      refine ⟨(tryOne rec cons var asg v st).1 :: bs, ?_, .cons (ext_tryOne rec hrec cons var asg v st) h2⟩
      unfold tryValues
      simp only [List.flatten_cons, h1]

theorem forall2_blocks_mem {vals : List Val} {blocks : List (List (Asg Var Val))} {R : Val → Asg Var Val → Prop}
    (h : Blocks R vals blocks) : ∀ s ∈ blocks.flatten, ∃ v ∈ vals, R v s := by
  induction h with
  | nil => intro s hs; simp at hs
  | cons hb _ ih =>
    intro s hs
    simp only [List.flatten_cons, List.mem_append] at hs
    rcases hs with hs | hs
    · exact ⟨_, by simp, hb s hs⟩
    · obtain ⟨v, hv, hr⟩ := ih s hs
      exact ⟨v, List.mem_cons_of_mem _ hv, hr⟩

theorem ext_solveRec (lt : Var → Var → Bool) (cons : List (Constraint Var Val)) :
    ∀ (fuel : Nat) (st : Store Var Val) (asg : Asg Var Val), ∀ s ∈ (solveRec lt cons fuel st asg).1, LExt asg s
  | 0, st, asg, s, hs => by
      unfold solveRec at hs
      split at hs
      · simp only [List.mem_singleton] at hs; subst hs; exact LExt.refl _
      · simp at hs
  | fuel + 1, st, asg, s, hs => by
      unfold solveRec at hs
      split at hs
      · simp only [List.mem_singleton] at hs; subst hs; exact LExt.refl _
      · next var hsel =>
        split at hs
        · simp at hs
        · next d hd =>
          obtain ⟨bs, h1, h2⟩ := order_tryValues _ (ext_solveRec lt cons fuel) cons var asg d.vis.reverse st
          rw [h1] at hs
          obtain ⟨v, _, hr⟩ := forall2_blocks_mem h2 s hs
          exact (hr.of_cons (selectVar_some hsel).1).1

/-- every visible domain is duplicate free -/
def NInv (st : Store Var Val) : Prop := ∀ x d, st.lookup x = some d → d.vis.Nodup

theorem NInv.of_StEq {st st' : Store Var Val} (h : NInv st) (e : StEq st st') : NInv st' := by
  intro x d' hl
  obtain ⟨d, hd, p⟩ := e.dom_sub hl
  exact p.nodup_iff.mp (h x d hd)

theorem nodup_tryOne (K : List Var) (rec : Store Var Val → Asg Var Val → List (Asg Var Val) × Store Var Val)
    (hrec : ∀ st asg, NInv st → st.map Prod.fst = K → List.Pairwise (Distinct K) (rec st asg).1)
    (cons : List (Constraint Var Val)) (var : Var) (asg : Asg Var Val) (v : Val) (st : Store Var Val)
    (hi : NInv st) (hK : st.map Prod.fst = K) : List.Pairwise (Distinct K) (tryOne rec cons var asg v st).1 := by
  unfold tryOne
  simp only
  split
  · refine hrec _ _ ?_ (by rw [keys_checkAll, keys_upd, hK])
    intro x d' hl
    have hf := checkAll_frame ((var, v) :: asg) (vcons cons var) (upd (fun x => x != var && unassigned asg x) Dom.pushState st) x
    rw [hl, lookup_upd] at hf
    cases hsx : st.lookup x with
    | none => rw [hsx] at hf; exact hf.elim
    | some d =>
      rw [hsx] at hf
      simp only [Option.map_some, ORel, FcRel] at hf
      have hd := hi x d hsx
      split at hf
      · obtain ⟨H, _, p, _⟩ := hf
        have hp : (d'.vis ++ H).Nodup := by
          apply p.nodup_iff.mpr
          split <;> simpa [Dom.pushState] using hd
        exact (List.nodup_append.mp hp).1
      · rw [hf]
        split <;> simpa [Dom.pushState] using hd
  · exact List.Pairwise.nil

theorem nodup_tryValues (K : List Var) (rec : Store Var Val → Asg Var Val → List (Asg Var Val) × Store Var Val)
    (hrec : ∀ st asg, NInv st → st.map Prod.fst = K → List.Pairwise (Distinct K) (rec st asg).1)
    (hext : ∀ st asg, ∀ s ∈ (rec st asg).1, LExt asg s)
    (hframe : ∀ st asg, StEq st (rec st asg).2) (hkeys : ∀ st asg, (rec st asg).2.map Prod.fst = st.map Prod.fst)
    (cons : List (Constraint Var Val)) (var : Var) (hvar : var ∈ K) (asg : Asg Var Val) :
    ∀ (vals : List Val) (st : Store Var Val), vals.Nodup → NInv st → st.map Prod.fst = K →
    List.Pairwise (Distinct K) (tryValues rec cons var asg vals st).1
  | [], st, _, _, _ => by simp [tryValues]
  | v :: vs, st, hnd, hi, hK => by
      have hnd' := List.nodup_cons.mp hnd
      unfold tryValues
      simp only
      rw [List.pairwise_append]
      refine ⟨nodup_tryOne K rec hrec cons var asg v st hi hK,
        nodup_tryValues K rec hrec hext hframe hkeys cons var hvar asg vs _ hnd'.2
          (hi.of_StEq (tryOne_frame rec hframe cons var asg v st)) (by rw [keys_tryOne rec hkeys, hK]), ?_⟩
      intro s hs t ht
      have h1 := ext_tryOne rec hext cons var asg v st s hs var v (by simp [List.lookup_cons])
      obtain ⟨bs, e1, e2⟩ := order_tryValues rec hext cons var asg vs (tryOne rec cons var asg v st).2
      rw [e1] at ht
      obtain ⟨v', hv', hr⟩ := forall2_blocks_mem e2 t ht
      have h2 := hr var v' (by simp [List.lookup_cons])
      refine ⟨var, hvar, ?_⟩
      rw [h1, h2]
      intro e
      simp only [Option.some.injEq] at e
      subst e
      exact hnd'.1 hv'

theorem nodup_solveRec (lt : Var → Var → Bool) (cons : List (Constraint Var Val)) (K : List Var) :
    ∀ (fuel : Nat) (st : Store Var Val) (asg : Asg Var Val), NInv st → st.map Prod.fst = K →
    List.Pairwise (Distinct K) (solveRec lt cons fuel st asg).1
  | 0, st, asg, _, _ => by
      unfold solveRec; split <;> simp
  | fuel + 1, st, asg, hi, hK => by
      unfold solveRec
      split
      · simp
      · next var hsel =>
        split
        · simp
        · next d hd =>
          exact nodup_tryValues K _ (nodup_solveRec lt cons K fuel) (ext_solveRec lt cons fuel) (solveRec_frame lt cons fuel)
            (keys_solveRec lt cons fuel) cons var (hK ▸ (selectVar_some hsel).2) asg _ st
            (nodup_reverse' (hi var d hd)) hi hK


/-! ## `__iter__`: the one-variable constraints -/

theorem preprocess_cons : ∀ (cs : List (Constraint Var Val)) (st : Store Var Val),
    (preprocess cs st).1 = cs.filter fun c => c.scope.length != 1
  | [], _ => rfl
  | c :: cs, st => by
      unfold preprocess
      split
      · next x hx => rw [preprocess_cons cs]; simp [List.filter_cons, hx]
      · next hx =>
        have : (c.scope.length != 1) = true := by
          cases hsc : c.scope with
          | nil => simp
          | cons y ys =>
            cases ys with
            | nil => exact absurd hsc (hx y)
            | cons _ _ => simp
        simp only [List.filter_cons, this, if_true, preprocess_cons cs st]

theorem keys_preprocess : ∀ (cs : List (Constraint Var Val)) (st : Store Var Val),
    (preprocess cs st).2.map Prod.fst = st.map Prod.fst
  | [], _ => rfl
  | c :: cs, st => by
      unfold preprocess
      split
      · rw [keys_preprocess cs, keys_modify]
      · exact keys_preprocess cs st

theorem preprocess_lookup (x : Var) : ∀ (cs : List (Constraint Var Val)) (st : Store Var Val),
    (preprocess cs st).2.lookup x = (st.lookup x).map fun d => { d with vis := d.vis.filter (unaryOk cs x) }
  | [], st => by
      unfold preprocess
      cases st.lookup x with
      | none => rfl
      | some d =>
        cases d
        have : ∀ l : List Val, l.filter (unaryOk ([] : List (Constraint Var Val)) x) = l := by
          intro l; apply List.filter_eq_self.mpr; intro w _; simp [unaryOk]
        simp [this]
  | c :: cs, st => by
      unfold preprocess
      split
      · next y hy =>
        rw [preprocess_lookup x cs, lookup_modify]
        cases st.lookup x with
        | none => rfl
        | some d =>
          simp only [Option.map_some, Option.some.injEq]
          by_cases hxy : x = y
          · subst hxy
            simp only [if_true, foldl_erase_filter, List.filter_filter]
            congr 1
            apply List.filter_congr
            intro w _
            simp [unaryOk, hy, unaryBad, Bool.and_comm]
          · simp only [hxy, if_false]
            congr 1
            apply List.filter_congr
            intro w _
            have : ¬ ([y] = [x]) := by simpa using fun e => hxy e.symm
            simp [unaryOk, hy, this]
      · next hx =>
        simp only
        rw [preprocess_lookup x cs st]
        cases st.lookup x with
        | none => rfl
        | some d =>
          simp only [Option.map_some, Option.some.injEq]
          congr 1
          apply List.filter_congr
          intro w _
          have : ¬ (c.scope = [x]) := hx x
          simp only [unaryOk, List.all_cons, this, decide_false, Bool.not_false, Bool.true_or, Bool.true_and]

theorem lookup_initStore (x : Var) : ∀ vars : List (Var × List Val),
    (initStore vars).lookup x = (vars.lookup x).map fun dom => ({ vis := dom } : Dom Val)
  | [] => rfl
  | (k, dom) :: rest => by
      have ih := lookup_initStore x rest
      unfold initStore at ih ⊢
      by_cases hk : x = k
      · subst hk; simp [List.lookup_cons]
      · have hk' : (x == k) = false := by simpa using hk
        simp [List.lookup_cons, hk', ih]

theorem keys_initStore (vars : List (Var × List Val)) : (initStore vars).map Prod.fst = vars.map Prod.fst := by
  simp [initStore, List.map_map, Function.comp_def]

/-- the store the search starts from -/
theorem start_lookup (P : Problem Var Val) (x : Var) (d : Dom Val)
    (h : (preprocess P.cons (initStore P.vars)).2.lookup x = some d) :
    d.vis = P.domain x ∧ ∃ dom, P.vars.lookup x = some dom := by
  rw [preprocess_lookup, lookup_initStore] at h
  cases hv : P.vars.lookup x with
  | none => rw [hv] at h; simp at h
  | some dom =>
    rw [hv] at h
    simp only [Option.map_some, Option.some.injEq] at h
    refine ⟨?_, dom, rfl⟩
    rw [← h]; simp [Problem.domain, hv]

theorem start_keys (P : Problem Var Val) : (preprocess P.cons (initStore P.vars)).2.map Prod.fst = P.keys := by
  rw [keys_preprocess, keys_initStore]; rfl

theorem unaryOk_of_sat {cs : List (Constraint Var Val)} {a : Var → Val} (h : ∀ c ∈ cs, c.pred (restr c.scope a) = true)
    (x : Var) : unaryOk cs x (a x) = true := by
  unfold unaryOk
  rw [List.all_eq_true]
  intro c hc
  by_cases hs : c.scope = [x]
  · have : known c.scope [(x, a x)] = restr c.scope a := by
      funext z
      unfold known restr
      by_cases hz : z ∈ c.scope
      · have : z = x := by rw [hs] at hz; simpa using hz
        subst this; simp [hz, List.lookup_cons]
      · simp [hz]
    rw [this, h c hc]; simp
  · simp [hs]

theorem blocks_empty (R : Val → Asg Var Val → Prop) : ∀ vals : List Val, Blocks R vals (vals.map fun _ => [])
  | [] => .nil
  | _ :: vs => .cons (by simp) (blocks_empty R vs)

theorem flatten_map_nil {α β : Type} : ∀ vals : List α, ((vals.map fun _ => ([] : List β))).flatten = []
  | [] => rfl
  | _ :: vs => by simp [flatten_map_nil vs]

end Pkgcore.C10.Solver

/-! ## `find_constraint_satisfaction` on the solver model -/
namespace Pkgcore.C10
open Pkgcore.C09 Pkgcore.C10.Spec

@[simp] theorem flagsOfL_nil : flagsOfL [] = [] := by simp [flagsOfL]
@[simp] theorem flagsOfL_cons (c cs) : flagsOfL (c :: cs) = flagsOf c ++ flagsOfL cs := by simp [flagsOfL]

theorem anySingle_cons (on c cs) : anySingle on (c :: cs) = (evalSingle on c || anySingle on cs) := by simp [anySingle]
theorem countSingle_cons (on c cs) :
    countSingle on (c :: cs) = (if evalSingle on c then 1 else 0) + countSingle on cs := by simp [countSingle]

mutual
/-- a compiled rule only looks at the flags `iter_flags` lists -/
theorem evalSingle_congr (on on' : List Tok) : ∀ t : Dep, (∀ x ∈ flagsOf t, on.contains x = on'.contains x) →
    evalSingle on t = evalSingle on' t
  | .leaf k r, h => by
      have := h (if k.head? = some '!' then k.tail else k) (by simp [flagsOf])
      simp only [evalSingle, lit]
      split
      · next hk => simp only [hk, if_true] at this; rw [this]
      · next hk => simp only [hk, if_false] at this; rw [this]
  | .cond n f cs, h => by
      have h1 := h f (by simp [flagsOf])
      have h2 := allSingle_congr on on' cs (fun x hx => h x (by simp [flagsOf, hx]))
      simp only [evalSingle, h1, h2]
  | .grp .and cs, h => by
      simp only [evalSingle]; exact allSingle_congr on on' cs (fun x hx => h x (by simpa [flagsOf] using hx))
  | .grp .or cs, h => by
      simp only [evalSingle]; exact anySingle_congr on on' cs (fun x hx => h x (by simpa [flagsOf] using hx))
  | .grp .justOne cs, h => by
      simp only [evalSingle]; rw [countSingle_congr on on' cs (fun x hx => h x (by simpa [flagsOf] using hx))]
  | .grp .atMostOne cs, h => by
      simp only [evalSingle]; rw [countSingle_congr on on' cs (fun x hx => h x (by simpa [flagsOf] using hx))]
theorem allSingle_congr (on on' : List Tok) : ∀ cs : List Dep, (∀ x ∈ flagsOfL cs, on.contains x = on'.contains x) →
    allSingle on cs = allSingle on' cs
  | [], _ => by simp
  | c :: cs, h => by
      rw [allSingle_cons, allSingle_cons, evalSingle_congr on on' c (fun x hx => h x (by simp [hx])),
        allSingle_congr on on' cs (fun x hx => h x (by simp [hx]))]
theorem anySingle_congr (on on' : List Tok) : ∀ cs : List Dep, (∀ x ∈ flagsOfL cs, on.contains x = on'.contains x) →
    anySingle on cs = anySingle on' cs
  | [], _ => by simp [anySingle]
  | c :: cs, h => by
      rw [anySingle_cons, anySingle_cons, evalSingle_congr on on' c (fun x hx => h x (by simp [hx])),
        anySingle_congr on on' cs (fun x hx => h x (by simp [hx]))]
theorem countSingle_congr (on on' : List Tok) : ∀ cs : List Dep, (∀ x ∈ flagsOfL cs, on.contains x = on'.contains x) →
    countSingle on cs = countSingle on' cs
  | [], _ => by simp [countSingle]
  | c :: cs, h => by
      rw [countSingle_cons, countSingle_cons, evalSingle_congr on on' c (fun x hx => h x (by simp [hx])),
        countSingle_congr on on' cs (fun x hx => h x (by simp [hx]))]
end

theorem any_congr_mem {α : Type} (p q : α → Bool) : ∀ l : List α, (∀ x ∈ l, p x = q x) → l.any p = l.any q
  | [], _ => rfl
  | x :: xs, h => by
      simp only [List.any_cons, h x (by simp), any_congr_mem p q xs (fun y hy => h y (List.mem_cons_of_mem _ hy))]

theorem MC.mem_flags (c : MC) (x : Tok) : x ∈ c.flags ↔ (x ∈ c.conds.map (·.2) ∨ x ∈ flagsOf c.body) := by
  unfold MC.flags; rw [mem_dedup, List.mem_append]

theorem MC.eval_congr (c : MC) (on on' : List Tok) (h : ∀ x ∈ c.flags, on.contains x = on'.contains x) :
    c.eval on = c.eval on' := by
  unfold MC.eval
  rw [evalSingle_congr on on' c.body (fun x hx => h x ((c.mem_flags x).mpr (Or.inr hx)))]
  congr 1
  apply any_congr_mem
  intro e he
  rw [h e.2 ((c.mem_flags e.2).mpr (Or.inl (List.mem_map.mpr ⟨e, he, rfl⟩)))]

mutual
theorem toMultiple_flags : ∀ (t : Dep) (mc : MC), mc ∈ toMultiple t → ∀ x ∈ mc.flags, x ∈ flagsOf t
  | .cond n f cs, mc, hm, x, hx => by
      simp only [toMultiple, List.mem_map] at hm
      obtain ⟨c, hc, rfl⟩ := hm
      rw [MC.mem_flags] at hx
      simp only [List.map_cons, List.mem_cons] at hx
      simp only [flagsOf, List.mem_cons]
      rcases hx with (h | h) | h
      · exact Or.inl h
      · exact Or.inr (toMultipleL_flags cs c hc x ((c.mem_flags x).mpr (Or.inl h)))
      · exact Or.inr (toMultipleL_flags cs c hc x ((c.mem_flags x).mpr (Or.inr h)))
  | .grp .and cs, mc, hm, x, hx => by
      simp only [toMultiple] at hm
      simpa [flagsOf] using toMultipleL_flags cs mc hm x hx
  | .grp .or cs, mc, hm, x, hx => by
      simp only [toMultiple, List.mem_singleton] at hm; subst hm
      simpa [MC.mem_flags] using hx
  | .grp .justOne cs, mc, hm, x, hx => by
      simp only [toMultiple, List.mem_singleton] at hm; subst hm
      simpa [MC.mem_flags] using hx
  | .grp .atMostOne cs, mc, hm, x, hx => by
      simp only [toMultiple, List.mem_singleton] at hm; subst hm
      simpa [MC.mem_flags] using hx
  | .leaf k r, mc, hm, x, hx => by
      simp only [toMultiple, List.mem_singleton] at hm; subst hm
      simpa [MC.mem_flags] using hx
theorem toMultipleL_flags : ∀ (cs : List Dep) (mc : MC), mc ∈ toMultipleL cs → ∀ x ∈ mc.flags, x ∈ flagsOfL cs
  | [], mc, hm, _, _ => by simp at hm
  | c :: cs, mc, hm, x, hx => by
      simp only [toMultipleL_cons, List.mem_append] at hm
      simp only [flagsOfL_cons, List.mem_append]
      rcases hm with hm | hm
      · exact Or.inl (toMultiple_flags c mc hm x hx)
      · exact Or.inr (toMultipleL_flags cs mc hm x hx)
end

theorem flagsOf_ne_nil : ∀ t : Dep, nonEmpty t = true → flagsOf t ≠ []
  | .leaf k r, _ => by simp [flagsOf]
  | .cond n f cs, _ => by simp [flagsOf]
  | .grp kind [], h => by simp [nonEmpty] at h
  | .grp kind (c :: cs), h => by
      simp only [nonEmpty, nonEmptyL, Bool.and_eq_true] at h
      have := flagsOf_ne_nil c h.2.1
      simp [flagsOf, this]

mutual
theorem toMultiple_body_ne : ∀ (t : Dep) (mc : MC), nonEmpty t = true → mc ∈ toMultiple t → nonEmpty mc.body = true
  | .cond n f cs, mc, h, hm => by
      simp only [toMultiple, List.mem_map] at hm
      obtain ⟨c, hc, rfl⟩ := hm
      simp only [nonEmpty, Bool.and_eq_true] at h
      exact toMultipleL_body_ne cs c h.2 hc
  | .grp .and cs, mc, h, hm => by
      simp only [toMultiple] at hm
      simp only [nonEmpty, Bool.and_eq_true] at h
      exact toMultipleL_body_ne cs mc h.2 hm
  | .grp .or cs, mc, h, hm => by simp only [toMultiple, List.mem_singleton] at hm; subst hm; exact h
  | .grp .justOne cs, mc, h, hm => by simp only [toMultiple, List.mem_singleton] at hm; subst hm; exact h
  | .grp .atMostOne cs, mc, h, hm => by simp only [toMultiple, List.mem_singleton] at hm; subst hm; exact h
  | .leaf k r, mc, h, hm => by simp only [toMultiple, List.mem_singleton] at hm; subst hm; exact h
theorem toMultipleL_body_ne : ∀ (cs : List Dep) (mc : MC), nonEmptyL cs = true → mc ∈ toMultipleL cs → nonEmpty mc.body = true
  | [], mc, _, hm => by simp at hm
  | c :: cs, mc, h, hm => by
      simp only [toMultipleL_cons, List.mem_append] at hm
      simp only [nonEmptyL, Bool.and_eq_true] at h
      rcases hm with hm | hm
      · exact toMultiple_body_ne c mc h.1 hm
      · exact toMultipleL_body_ne cs mc h.2 hm
end

/-- every compiled constraint of a structure without empty groups has a variable -/
theorem compiled_flags_ne_nil (ts : List Dep) (hne : nonEmptyL ts = true) (mc : MC) (hm : mc ∈ compiled ts) : mc.flags ≠ [] := by
  have hb := flagsOf_ne_nil mc.body (toMultipleL_body_ne ts mc hne hm)
  cases hf : flagsOf mc.body with
  | nil => exact absurd hf hb
  | cons x xs =>
    have : x ∈ mc.flags := (mc.mem_flags x).mpr (Or.inr (by rw [hf]; simp))
    exact List.ne_nil_of_mem this

theorem problem_keys (inp : Inputs) (ts : List Dep) : (problem inp ts).keys = variables inp ts := by
  simp [Solver.Problem.keys, problem, List.map_map, Function.comp_def]

theorem problem_wf (inp : Inputs) (ts : List Dep) : (problem inp ts).WF where
  keysNodup := by rw [problem_keys]; exact dedup_nodup _
  scopes := by
    intro c hc x hx
    rw [problem_keys]
    simp only [problem, List.mem_map] at hc
    obtain ⟨mc, hmc, rfl⟩ := hc
    unfold variables
    rw [mem_dedup, List.mem_append]
    exact Or.inr (toMultipleL_flags ts mc hmc x hx)

theorem onOf_map (f : Tok → Bool) : ∀ vars : List Tok, onOf (vars.map fun v => (v, f v)) = vars.filter f
  | [] => rfl
  | v :: vs => by
      have ih := onOf_map f vs
      unfold onOf at ih ⊢
      cases hf : f v <;> simp [List.filter_cons, hf, ih]

theorem inProd_map (D : Tok → List Bool) (f : Tok → Bool) : ∀ vars : List Tok,
    inProd (vars.map fun v => (v, f v)) (vars.map fun v => (v, D v)) = true ↔ ∀ v ∈ vars, f v ∈ D v
  | [] => by simp [inProd]
  | v :: vs => by simp [inProd, inProd_map D f vs]

theorem inProd_shape (D : Tok → List Bool) : ∀ (vars : List Tok) (al : List (Tok × Bool)), vars.Nodup →
    inProd al (vars.map fun v => (v, D v)) = true → al = vars.map fun v => (v, (al.lookup v).getD false)
  | [], al, _, h => by
      cases al with
      | nil => rfl
      | cons e es => obtain ⟨v, b⟩ := e; simp [inProd] at h
  | w :: ws, al, hnd, h => by
      cases al with
      | nil => simp [inProd] at h
      | cons e es =>
        obtain ⟨v, b⟩ := e
        simp only [List.map_cons, inProd, Bool.and_eq_true, beq_iff_eq] at h
        obtain ⟨⟨h1, _⟩, h3⟩ := h
        subst h1
        have hnd' := List.nodup_cons.mp hnd
        have ih := inProd_shape D ws es hnd'.2 h3
        simp only [List.map_cons, List.lookup_cons, beq_self_eq_true, Option.getD_some, List.cons.injEq, true_and]
        refine ih.trans ?_
        apply List.map_congr_left
        intro x hx
        have : ¬ (x = v) := fun e0 => hnd'.1 (e0 ▸ hx)
        have h' : (x == v) = false := by simpa using this
        simp only [h']

/-- the constraint the solver is given, called under a total assignment, is the compiled rule on the flags that are on -/
theorem toConstraint_pred (mc : MC) (a : Tok → Bool) (vars : List Tok) (hsub : ∀ x ∈ mc.flags, x ∈ vars) :
    mc.toConstraint.pred (Solver.restr mc.flags a) = mc.eval (vars.filter a) := by
  unfold MC.toConstraint
  simp only
  apply MC.eval_congr
  intro x hx
  rw [Bool.eq_iff_iff]
  simp only [List.contains_iff_mem, List.mem_filter, hx, hsub x hx, true_and, Solver.restr, if_true]
  cases a x <;> simp

theorem known_eq_restr (scope : List Tok) (s : Solver.Asg Tok Bool) (a : Tok → Bool)
    (h : ∀ x ∈ scope, Solver.getVal s x = some (a x)) : Solver.known scope s = Solver.restr scope a := by
  funext x
  unfold Solver.known Solver.restr
  unfold Solver.getVal at h
  by_cases hx : x ∈ scope
  · simp only [hx, if_true]; exact h x hx
  · simp [hx]

end Pkgcore.C10
