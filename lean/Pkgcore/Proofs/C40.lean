import Pkgcore.Spec.C40
