import Pkgcore.Spec.C40
/-!
# C40 — helper lemmas: suggestions, one request line, the fold over the request list
-/
namespace Pkgcore.C40
open Spec

/-! ## suggestions -/

theorem lstrip_plain {k : Str} (h : PlainArch k) : lstrip ['~'] k = k ∧ lstrip ['~', '-'] k = k := by
  obtain ⟨hne, h1, h2⟩ := h
  cases k with
  | nil => exact absurd rfl hne
  | cons c k =>
    have c1 : c ≠ '~' := fun e => h1 (by simp [e])
    have c2 : c ≠ '-' := fun e => h2 (by simp [e])
    constructor <;> simp [lstrip, List.dropWhile, c1, c2]

theorem lstrip_tilde {k : Str} (h : PlainArch k) : lstrip ['~'] ('~' :: k) = k ∧ lstrip ['~', '-'] ('~' :: k) = k := by
  have := lstrip_plain h
  constructor
  · show lstrip ['~'] k = k; exact this.1
  · show lstrip ['~', '-'] k = k; exact this.2

theorem lstrip_minus {k : Str} (h : PlainArch k) : lstrip ['~', '-'] ('-' :: k) = k := by
  show lstrip ['~', '-'] k = k; exact (lstrip_plain h).2

theorem mem_sameKey {repo : Repo} {p q : Pkg} : q ∈ sameKey repo p ↔ q ∈ repo.pkgs ∧ q.key = p.key := by
  simp [sameKey]

/-- membership in `suggested_keywords`, unfolded -/
theorem mem_suggested (repo : Repo) (p : Pkg) (stable : Bool) (k : Str) :
    k ∈ suggested repo p stable ↔
      k.contains '-' = false ∧
      (∃ q ∈ sameKey repo p, ∃ x ∈ q.keywords, x ≠ [] ∧
          (if stable then ['-', '~'] else ['-']).contains (x.headD ' ') = false ∧ lstrip ['~'] x = k) ∧
      (if stable then ∃ y ∈ p.keywords, y.head? = some '~' ∧ lstrip ['~'] y = k
       else ¬ ∃ y ∈ p.keywords, lstrip ['~', '-'] y = k) := by
  unfold suggested filterPrefix dedup
  cases stable
  · simp only [Bool.false_eq_true, if_false, List.mem_filter, List.mem_eraseDups, List.mem_map, List.mem_flatMap,
      List.contains_iff_mem, Bool.not_eq_true', Bool.and_eq_true, decide_eq_true_eq, Bool.not_eq_eq_eq_not, Bool.not_true]
    constructor
    · rintro ⟨⟨⟨x, ⟨⟨q, hq, hx⟩, hd, hne⟩, rfl⟩, hno⟩, hpre⟩
      refine ⟨hpre, ⟨q, hq, x, hx, hne, ?_, rfl⟩, ?_⟩
      · cases hc : ['-'].contains (x.headD ' ') <;> simp_all
      · rintro ⟨y, hy, e⟩
        have : (List.map (lstrip ['~', '-']) p.keywords).contains (lstrip ['~'] x) = true := by
          rw [List.contains_iff_mem, List.mem_map]; exact ⟨y, hy, e⟩
        rw [this] at hno; cases hno
    · rintro ⟨hpre, ⟨q, hq, x, hx, hne, hd, rfl⟩, hno⟩
      refine ⟨⟨⟨x, ⟨⟨q, hq, hx⟩, by simpa using hd, hne⟩, rfl⟩, ?_⟩, hpre⟩
      cases hc : (List.map (lstrip ['~', '-']) p.keywords).contains (lstrip ['~'] x) with
      | false => rfl
      | true =>
        rw [List.contains_iff_mem, List.mem_map] at hc
        exact absurd hc hno
  · simp only [if_true, List.mem_filter, List.mem_eraseDups, List.mem_map, List.mem_flatMap,
      List.contains_iff_mem, Bool.not_eq_true', Bool.and_eq_true, decide_eq_true_eq]
    constructor
    · rintro ⟨⟨⟨x, ⟨⟨q, hq, hx⟩, hd, hne⟩, rfl⟩, y, ⟨hy, hh⟩, e⟩, hpre⟩
      refine ⟨hpre, ⟨q, hq, x, hx, hne, ?_, rfl⟩, y, hy, by simpa using hh, e⟩
      cases hc : ['-', '~'].contains (x.headD ' ') <;> simp_all
    · rintro ⟨hpre, ⟨q, hq, x, hx, hne, hd, rfl⟩, y, hy, hh, e⟩
      exact ⟨⟨⟨x, ⟨⟨q, hq, hx⟩, by simpa using hd, hne⟩, rfl⟩, y, ⟨hy, by simp [hh]⟩, e⟩, hpre⟩
theorem headD_ne {x : Str} {c : Char} (hne : x ≠ []) : (x.headD ' ' = c) ↔ x.head? = some c := by
  cases x with
  | nil => exact absurd rfl hne
  | cons a x => simp

theorem head_not_in {x : Str} {cs : List Char} (hne : x ≠ []) (h : cs.contains (x.headD ' ') = false) :
    ∀ c ∈ cs, x.head? ≠ some c := by
  cases x with
  | nil => exact absurd rfl hne
  | cons a x =>
    intro c hc e
    simp only [List.head?_cons, Option.some.injEq] at e
    subst e
    have : cs.contains a = true := List.contains_iff_mem.2 hc
    simp only [List.headD_cons] at h
    rw [h] at this; cases this

theorem plain_of_head {q : Pkg} (hw : WfKeywords q) {x : Str} (hx : x ∈ q.keywords)
    (h1 : x.head? ≠ some '-') (h2 : x.head? ≠ some '~') : PlainArch x := by
  rcases hw x hx with h | ⟨a, rfl, _⟩ | ⟨a, rfl, _⟩
  · exact h
  · exact absurd rfl h2
  · exact absurd rfl h1

theorem plain_headD {k : Str} (h : PlainArch k) : ['-', '~'].contains (k.headD ' ') = false ∧ ['-'].contains (k.headD ' ') = false := by
  obtain ⟨hne, h1, h2⟩ := h
  cases k with
  | nil => exact absurd rfl hne
  | cons c k =>
    have c1 : c ≠ '~' := fun e => h1 (by simp [e])
    have c2 : c ≠ '-' := fun e => h2 (by simp [e])
    simp [c1, c2]

/-- stabilization suggestions are exactly the stabilization candidates -/
theorem suggested_stable_iff (repo : Repo) (p : Pkg) (hwp : WfKeywords p) (hwr : ∀ q ∈ repo.pkgs, WfKeywords q) (k : Str) :
    k ∈ suggested repo p true ↔ StableCandidate repo p k := by
  rw [mem_suggested]
  simp only [if_true]
  constructor
  · rintro ⟨hpre, ⟨q, hq, x, hx, hne, hd, rfl⟩, y, hy, hh, e⟩
    rw [mem_sameKey] at hq
    have hdd : x.head? ≠ some '-' ∧ x.head? ≠ some '~' :=
      ⟨head_not_in hne hd '-' (by simp), head_not_in hne hd '~' (by simp)⟩
    have hx' : PlainArch x := plain_of_head (hwr q hq.1) hx hdd.1 hdd.2
    rw [(lstrip_plain hx').1] at hpre e ⊢
    refine ⟨hpre, hx', ?_, q, hq.1, hq.2, hx⟩
    rcases hwp y hy with h | ⟨a, rfl, ha⟩ | ⟨a, rfl, _⟩
    · exact absurd hh h.2.1
    · rw [(lstrip_tilde ha).1] at e; subst e; exact hy
    · simp at hh
  · rintro ⟨hpre, hk, ht, q, hq, hkey, hs⟩
    refine ⟨hpre, ⟨q, mem_sameKey.2 ⟨hq, hkey⟩, k, hs, hk.1, (plain_headD hk).1, (lstrip_plain hk).1⟩,
      '~' :: k, ht, rfl, (lstrip_tilde hk).1⟩

/-- keywording suggestions are exactly the keywording candidates -/
theorem suggested_keywording_iff (repo : Repo) (p : Pkg) (hwp : WfKeywords p) (hwr : ∀ q ∈ repo.pkgs, WfKeywords q) (k : Str) :
    k ∈ suggested repo p false ↔ KeywordCandidate repo p k := by
  rw [mem_suggested]
  simp only [Bool.false_eq_true, if_false]
  constructor
  · rintro ⟨hpre, ⟨q, hq, x, hx, hne, hd, rfl⟩, hno⟩
    rw [mem_sameKey] at hq
    have hd1 : x.head? ≠ some '-' := head_not_in hne hd '-' (by simp)
    have hform : (PlainArch x ∧ lstrip ['~'] x = x) ∨ (∃ a, x = '~' :: a ∧ PlainArch a ∧ lstrip ['~'] x = a) := by
      rcases hwr q hq.1 x hx with h | ⟨a, rfl, ha⟩ | ⟨a, rfl, _⟩
      · exact Or.inl ⟨h, (lstrip_plain h).1⟩
      · exact Or.inr ⟨a, rfl, ha, (lstrip_tilde ha).1⟩
      · exact absurd rfl hd1
    have hmention : ∀ k', PlainArch k' → mentions p k' → ∃ y, y ∈ p.keywords ∧ lstrip ['~', '-'] y = k' := by
      intro k' hk' hm
      rcases hm with h | h | h
      · exact ⟨k', h, (lstrip_plain hk').2⟩
      · exact ⟨_, h, (lstrip_tilde hk').2⟩
      · exact ⟨_, h, lstrip_minus hk'⟩
    rcases hform with ⟨hp, e⟩ | ⟨a, rfl, ha, e⟩
    · rw [e] at hpre hno ⊢
      exact ⟨hpre, hp, ⟨q, hq.1, hq.2, Or.inl hx⟩, fun hm => hno (hmention _ hp hm)⟩
    · rw [e] at hpre hno ⊢
      exact ⟨hpre, ha, ⟨q, hq.1, hq.2, Or.inr hx⟩, fun hm => hno (hmention _ ha hm)⟩
  · rintro ⟨hpre, hk, ⟨q, hq, hkey, hs⟩, hnm⟩
    refine ⟨hpre, ?_, ?_⟩
    · rcases hs with hs | hs
      · exact ⟨q, mem_sameKey.2 ⟨hq, hkey⟩, k, hs, hk.1, (plain_headD hk).2, (lstrip_plain hk).1⟩
      · exact ⟨q, mem_sameKey.2 ⟨hq, hkey⟩, '~' :: k, hs, by simp, by simp, (lstrip_tilde hk).1⟩
    · rintro ⟨y, hy, e⟩
      apply hnm
      rcases hwp y hy with h | ⟨a, rfl, ha⟩ | ⟨a, rfl, ha⟩
      · rw [(lstrip_plain h).2] at e; subst e; exact Or.inl hy
      · rw [(lstrip_tilde ha).2] at e; subst e; exact Or.inr (Or.inl hy)
      · rw [lstrip_minus ha] at e; subst e; exact Or.inr (Or.inr hy)

theorem suggested_no_prefix (repo : Repo) (p : Pkg) (stable : Bool) (k : Str) (h : k ∈ suggested repo p stable) :
    isPrefixKw k = false := ((mem_suggested repo p stable k).1 h).1
/-! ## one request line -/

/-- the caller's contract: `cc_arches` are known arches -/
def KnownHyp (repo : Repo) (o : Opts) : Prop := ∀ k ∈ o.cc, k ∈ repo.known

/-- what the property demands of one yielded request -/
def Good (repo : Repo) (o : Opts) (y : Nat × List Str) : Prop :=
  ∃ pkg, repo.pkgs[y.1]? = some pkg ∧
    (KnownHyp repo o → ∀ k ∈ y.2, k ∈ repo.known) ∧
    (o.cc ≠ [] → allarchesMode o = false → ∀ k ∈ y.2, k ∈ o.cc) ∧
    (o.filterArch ≠ [] → ∀ k ∈ y.2, k ∈ o.filterArch ∨ (allarchesMode o = true ∧ k ∈ suggested repo pkg true)) ∧
    (o.onlyNew = true → ∀ k ∈ y.2,
      (k ∉ pkg.keywords ∧ (o.stable = true ∨ ('~' :: k) ∉ pkg.keywords)) ∨
      (allarchesMode o = true ∧ k ∈ suggested repo pkg true))

theorem isEmpty_false_ne {α : Type} {l : List α} : l.isEmpty = false ↔ l ≠ [] := by cases l <;> simp

theorem mem_ccStep {o : Opts} {kws : List Str} {k : Str} (h : k ∈ ccStep o kws) :
    (k ∈ o.cc ∨ (o.cc = [] ∧ k ∈ kws)) ∧ (k ∈ kws ∨ (kws = [] ∧ k ∈ o.cc)) := by
  unfold ccStep at h
  by_cases h1 : kws.isEmpty = true
  · rw [if_pos h1] at h
    have : kws = [] := by cases kws <;> simp_all
    exact ⟨Or.inl h, Or.inr ⟨this, h⟩⟩
  · rw [if_neg h1] at h
    by_cases h2 : o.cc.isEmpty = true
    · rw [if_pos h2] at h
      have : o.cc = [] := by cases hc : o.cc <;> simp_all
      exact ⟨Or.inr ⟨this, h⟩, Or.inl h⟩
    · rw [if_neg h2, List.mem_filter, List.contains_iff_mem] at h
      exact ⟨Or.inl h.2, Or.inl h.1⟩

theorem mem_onlyNewStep {o : Opts} {pkg : Pkg} {kws : List Str} {k : Str} (h : k ∈ onlyNewStep o pkg kws) :
    k ∈ kws ∧ (o.onlyNew = true → k ∉ pkg.keywords ∧ (o.stable = true ∨ ('~' :: k) ∉ pkg.keywords)) := by
  unfold onlyNewStep at h
  by_cases h1 : o.onlyNew = true
  · rw [if_pos h1, List.mem_filter] at h
    refine ⟨h.1, fun _ => ?_⟩
    have h2 := h.2
    simp only [Bool.and_eq_true, Bool.not_eq_true', Bool.or_eq_true] at h2
    refine ⟨fun hm => ?_, ?_⟩
    · have := List.contains_iff_mem.2 hm
      rw [h2.1] at this; cases this
    · rcases h2.2 with h3 | h3
      · exact Or.inl h3
      · right; intro hm
        have := List.contains_iff_mem.2 hm
        rw [h3] at this; cases this
  · rw [if_neg h1] at h
    exact ⟨h, fun e => absurd e h1⟩

theorem mem_allarchesKw {repo : Repo} {o : Opts} {pkg : Pkg} {k : Str} (h : k ∈ allarchesKw repo o pkg) :
    allarchesMode o = true ∧ k ∈ suggested repo pkg true ∧ k ∈ repo.known := by
  unfold allarchesKw at h
  by_cases h1 : (o.allarches && o.stable && !o.filterArch.isEmpty) = true
  · rw [if_pos h1] at h
    have h' : k ∈ (suggested repo pkg true).filter (repo.known.contains ·) := by
      simpa [sortKw, List.mem_mergeSort] using h
    rw [List.mem_filter, List.contains_iff_mem] at h'
    exact ⟨h1, h'.1, h'.2⟩
  · rw [if_neg h1] at h; cases h

theorem mem_filterStep {repo : Repo} {o : Opts} {pkg : Pkg} {kws : List Str} {k : Str}
    (h : k ∈ filterStep repo o pkg kws) :
    (k ∈ kws ∧ (o.filterArch ≠ [] → k ∈ o.filterArch)) ∨
      (allarchesMode o = true ∧ k ∈ suggested repo pkg true ∧ k ∈ repo.known) := by
  unfold filterStep at h
  by_cases h1 : o.filterArch.isEmpty = true
  · rw [if_pos h1] at h
    have : o.filterArch = [] := by cases hc : o.filterArch <;> simp_all
    exact Or.inl ⟨h, fun hne => absurd this hne⟩
  · rw [if_neg h1] at h
    simp only [List.mem_append, List.mem_filter, List.contains_iff_mem] at h
    rcases h with h | h
    · exact Or.inl ⟨h.1, fun _ => h.2⟩
    · exact Or.inr (mem_allarchesKw h.1)

theorem tailStep_next {repo : Repo} {o : Opts} {st st' : St} {r : Req} {idx : Nat} {pkg : Pkg} {kws : List Str}
    (hp : repo.pkgs[idx]? = some pkg) (hk : ∀ k ∈ kws, k ∈ repo.known)
    (h : tailStep repo o st r idx pkg kws = .next st') :
    st'.yields = st.yields ∨ ∃ y, st'.yields = st.yields ++ [y] ∧ Good repo o y := by
  unfold tailStep at h
  simp only at h
  split at h
  · cases h; exact Or.inl rfl
  · split at h
    · rename_i hempty
      cases h
      right
      have he : ccStep o kws = [] := by cases hc : ccStep o kws <;> simp_all
      refine ⟨(idx, ccStep o kws), ?_, pkg, hp, ?_, ?_, ?_, ?_⟩
      · split <;> rfl
      all_goals (intros; rw [he] at *; rename_i k hk'; cases hk')
    · split at h
      · cases h; exact Or.inl rfl
      · split at h
        · cases h; exact Or.inl rfl
        · cases h
          right
          refine ⟨(idx, filterStep repo o pkg (onlyNewStep o pkg (ccStep o kws))), rfl, pkg, hp, ?_, ?_, ?_, ?_⟩
          · intro hyp k hk'
            rcases mem_filterStep hk' with ⟨h1, _⟩ | ⟨_, _, h2⟩
            · rcases (mem_ccStep (mem_onlyNewStep h1).1).2 with h3 | ⟨_, h3⟩
              · exact hk k h3
              · exact hyp k h3
            · exact h2
          · intro hcc hmode k hk'
            rcases mem_filterStep hk' with ⟨h1, _⟩ | ⟨h2, _⟩
            · rcases (mem_ccStep (mem_onlyNewStep h1).1).1 with h3 | ⟨h3, _⟩
              · exact h3
              · exact absurd h3 hcc
            · rw [hmode] at h2; cases h2
          · intro hf k hk'
            rcases mem_filterStep hk' with ⟨_, h1⟩ | h2
            · exact Or.inl (h1 hf)
            · exact Or.inr ⟨h2.1, h2.2.1⟩
          · intro hn k hk'
            rcases mem_filterStep hk' with ⟨h1, _⟩ | h2
            · exact Or.inl ((mem_onlyNewStep h1).2 hn)
            · exact Or.inr ⟨h2.1, h2.2.1⟩

theorem bestOf_mem (ok : Pkg → Bool) (ms : List (Nat × Pkg)) (x : Nat × Pkg) (h : bestOf ok ms = some x) : x ∈ ms := by
  unfold bestOf at h
  have gen : ∀ (acc : Option (Nat × Pkg)) (l : List (Nat × Pkg)),
      (l.foldl (fun acc x => if ok x.2 then
          match acc with
          | none => some x
          | some b => if pkgLe x.2 b.2 then some b else some x
        else acc) acc) = some x → x ∈ l ∨ acc = some x := by
    intro acc l
    induction l generalizing acc with
    | nil => intro h; exact Or.inr h
    | cons a l ih =>
      intro h
      simp only [List.foldl_cons] at h
      rcases ih _ h with h1 | h1
      · exact Or.inl (by simp [h1])
      · by_cases hok : ok a.2 = true
        · rw [if_pos hok] at h1
          cases acc with
          | none => simp only [Option.some.injEq] at h1; exact Or.inl (by simp [h1])
          | some b =>
            simp only at h1
            split at h1
            · exact Or.inr h1
            · simp only [Option.some.injEq] at h1; exact Or.inl (by simp [h1])
        · rw [if_neg hok] at h1; exact Or.inr h1
  rcases gen none ms h with h1 | h1
  · exact h1
  · cases h1

theorem pick_some {repo : Repo} {o : Opts} {r : Req} {idx : Nat} {pkg : Pkg} (h : pick repo o r = some (idx, pkg)) :
    repo.pkgs[idx]? = some pkg := by
  unfold pick at h
  simp only at h
  have hmem : ∀ x : Nat × Pkg, x ∈ (r.matched.filterMap fun i => (repo.pkgs[i]?).map (i, ·)) → repo.pkgs[x.1]? = some x.2 := by
    intro x hx
    rw [List.mem_filterMap] at hx
    obtain ⟨i, _, hi⟩ := hx
    cases hg : repo.pkgs[i]? with
    | none => simp [hg] at hi
    | some p => simp [hg] at hi; subst hi; exact hg
  split at h
  · exact hmem _ (List.mem_of_mem_head? h)
  · unfold selectBest at h
    cases h1 : bestOf (fun p => !p.keywords.isEmpty) (r.matched.filterMap fun i => (repo.pkgs[i]?).map (i, ·)) with
    | some x => simp [h1] at h; subst h; exact hmem _ (bestOf_mem _ _ _ h1)
    | none =>
      simp only [h1, Option.orElse_none] at h
      cases h2 : bestOf (fun p => !p.live) (r.matched.filterMap fun i => (repo.pkgs[i]?).map (i, ·)) with
      | some x => simp [h2] at h; subst h; exact hmem _ (bestOf_mem _ _ _ h2)
      | none =>
        simp only [h2, Option.orElse_none] at h
        exact hmem _ (bestOf_mem _ _ _ h)

theorem sentinelStep_next {repo : Repo} {o : Opts} {st st' : St} {r : Req} {idx : Nat} {pkg : Pkg}
    (h : sentinelStep repo o st r idx pkg = .next st') :
    st' = st ∨ ∃ kws, (∀ k ∈ kws, k ∈ repo.known) ∧ tailStep repo o st r idx pkg kws = .next st' := by
  unfold sentinelStep at h
  cases he : expandSentinels repo o st r pkg with
  | skip => simp only [he] at h; cases h; exact Or.inl rfl
  | bad => simp only [he] at h; cases h
  | kws kws =>
    simp only [he] at h
    split at h
    · cases h
    · rename_i hknown
      right
      refine ⟨kws, ?_, h⟩
      intro k hk
      simp only [List.any_eq_true, Bool.not_eq_true', not_exists, not_and, Bool.not_eq_false] at hknown
      exact List.contains_iff_mem.1 (hknown k hk)

theorem stepLine_next {repo : Repo} {o : Opts} {st st' : St} {r : Req} (h : stepLine repo o st r = .next st') :
    st'.yields = st.yields ∨ ∃ y, st'.yields = st.yields ++ [y] ∧ Good repo o y := by
  unfold stepLine at h
  split at h
  · cases h
  · split at h
    · cases h
    · rename_i idx pkg hp
      rcases sentinelStep_next h with rfl | ⟨kws, hk, ht⟩
      · exact Or.inl rfl
      · exact tailStep_next (pick_some hp) hk ht

/-! ## the whole request list -/

theorem runLines_good (repo : Repo) (o : Opts) (reqs : List Req) (st : St) (hg : ∀ y ∈ st.yields, Good repo o y) :
    ∀ y ∈ (runLines repo o st reqs).1.yields, Good repo o y := by
  induction reqs generalizing st with
  | nil => exact hg
  | cons r rs ih =>
    unfold runLines
    cases hs : stepLine repo o st r with
    | raise e => exact hg
    | next st' =>
      simp only
      apply ih
      rcases stepLine_next hs with h | ⟨y, h, gy⟩
      · rw [h]; exact hg
      · rw [h]
        intro z hz
        rw [List.mem_append, List.mem_singleton] at hz
        rcases hz with hz | rfl
        · exact hg z hz
        · exact gy

theorem matchPackages_yields (repo : Repo) (o : Opts) (reqs : List Req) :
    (matchPackages repo o reqs).1 = (runLines repo o {} reqs).1.yields := by
  unfold matchPackages
  rcases h : runLines repo o {} reqs with ⟨st, _ | e⟩ <;> rfl

theorem matchPackages_good (repo : Repo) (o : Opts) (reqs : List Req) :
    ∀ y ∈ (matchPackages repo o reqs).1, Good repo o y := by
  rw [matchPackages_yields]
  exact runLines_good repo o reqs {} (by intro y hy; cases hy)

theorem runLines_append (repo : Repo) (o : Opts) (st : St) (a b : List Req) :
    runLines repo o st (a ++ b) =
      match runLines repo o st a with
      | (st', some e) => (st', some e)
      | (st', none) => runLines repo o st' b := by
  induction a generalizing st with
  | nil => simp [runLines]
  | cons r rs ih =>
    simp only [List.cons_append, runLines]
    cases stepLine repo o st r with
    | raise e => rfl
    | next st' => exact ih st'

/-! ## what a later `^` line sees -/

/-- `tailStep` never raises, and the list remembered for `^` is the cc-narrowed keyword list of the line — whatever
`only_new`, `filter_arch` and the all-arches mode do to the request that is yielded -/
theorem tailStep_previous (repo : Repo) (o : Opts) (st : St) (r : Req) (idx : Nat) (pkg : Pkg) (kws : List Str) :
    ∃ st', tailStep repo o st r idx pkg kws = .next st' ∧
      st'.previous = (if (ccStep o kws).isEmpty then st.previous else some (ccStep o kws)) := by
  unfold tailStep
  simp only
  by_cases h1 : (ccStep o kws).isEmpty = true
  · simp only [h1, Bool.and_true, if_true]
    split
    · exact ⟨_, rfl, rfl⟩
    · refine ⟨_, rfl, ?_⟩
      split <;> rfl
  · have h1' : (ccStep o kws).isEmpty = false := by simpa using h1
    simp only [h1', Bool.and_false, Bool.false_eq_true, if_false]
    split
    · exact ⟨_, rfl, rfl⟩
    · split
      · exact ⟨_, rfl, rfl⟩
      · exact ⟨_, rfl, rfl⟩

end Pkgcore.C40
