import Pkgcore.Spec.C35
/-! # C35 — the invariant and its preservation by every step -/
namespace Pkgcore.C35
open Pkgcore.C35.Spec

def rep (l : List Reply) : List Msg := l.map .reply

def Notes (l : List Msg) : Prop := ∀ x ∈ l, x = Msg.note

/-- what may follow the notices in `d`, depending on what the daemon is doing -/
def EvTail (b : BMode) (t : List Msg) : Prop :=
  (b = .running ∧ t = []) ∨ (∃ k, b = .wait k ∧ t = [.request k]) ∨ (b = .main ∧ t = [.phases])

/-- Python is in (or about to enter) `generic_handler` -/
def HForm (ops : List POp) : Prop :=
  ∃ n rest, ops = List.replicate n .drain ++ .handler :: rest ∧ wf .main rest = true

/-- daemon present: the replies Python still expects are exactly those in flight (already in `d`, or owed for the
commands in `c`), and the rest of Python's program is well typed for the mode the daemon will then be in; or the
daemon is running / has just asked or finished, Python sits in `generic_handler`, nothing is in `c`. -/
def InvAlive (g : G) : Prop :=
  ∃ m' rs, run g.b g.c = some (m', rs) ∧
    ((rep g.out = g.d ++ rep rs ∧ wf m' g.ops = true) ∨
     (g.c = [] ∧ ∃ notes t, Notes notes ∧ EvTail g.b t ∧ notes ++ t ≠ [] ∧
        g.d = rep g.out ++ notes ++ t ∧ HForm g.ops))

/-- daemon dead: its death notice is still in `d`, behind expected replies and handler events only -/
def InvDead (g : G) : Prop :=
  ∃ o notes t, g.d = rep o ++ notes ++ t ++ [.death] ∧ o <+: g.out ∧ Notes notes ∧
    (t = [] ∨ (∃ k, t = [.request k]) ∨ t = [.phases]) ∧
    (notes ++ t ≠ [] → o = g.out ∧ ∃ n rest, g.ops = List.replicate n .drain ++ .handler :: rest)

/-- the daemon will understand everything that is still in `c` (or is dead) -/
def Runnable (g : G) : Prop := g.b = .dead ∨ ∃ m rs, run g.b g.c = some (m, rs)

def Inv (g : G) : Prop :=
  (g.st ≠ .live ∧ Runnable g) ∨ (g.b = .dead ∧ InvDead g) ∨ (g.b ≠ .dead ∧ InvAlive g)

/-! ## lemmas about `run`, `wf` -/

theorem run_snoc (b : BMode) (c : List Cmd) (m : BMode) (rs : List Reply) (x : Cmd) (m' : BMode) (r : Option Reply)
    (h : run b c = some (m, rs)) (ht : trans m x = some (m', r)) :
    run b (c ++ [x]) = some (m', rs ++ optList r) := by
  induction c generalizing b rs with
  | nil =>
    simp only [run, Option.some.injEq, Prod.mk.injEq] at h
    obtain ⟨rfl, rfl⟩ := h
    simp [run, ht]
  | cons y ys ih =>
    simp only [List.cons_append, run] at h ⊢
    cases hy : trans b y with
    | none => simp [hy] at h
    | some p =>
      obtain ⟨b1, r1⟩ := p
      simp only [hy] at h ⊢
      cases hr : run b1 ys with
      | none => simp [hr] at h
      | some q =>
        obtain ⟨m2, rs2⟩ := q
        simp only [hr, Option.some.injEq, Prod.mk.injEq] at h
        obtain ⟨rfl, rfl⟩ := h
        rw [ih b1 rs2 hr]
        simp

theorem run_cons_inv (b : BMode) (x : Cmd) (cs : List Cmd) (m : BMode) (rs : List Reply)
    (h : run b (x :: cs) = some (m, rs)) :
    ∃ b1 r rs', trans b x = some (b1, r) ∧ run b1 cs = some (m, rs') ∧ rs = optList r ++ rs' := by
  simp only [run] at h
  cases hy : trans b x with
  | none => simp [hy] at h
  | some p =>
    obtain ⟨b1, r1⟩ := p
    simp only [hy] at h
    cases hr : run b1 cs with
    | none => simp [hr] at h
    | some q =>
      obtain ⟨m2, rs2⟩ := q
      simp only [hr, Option.some.injEq, Prod.mk.injEq] at h
      obtain ⟨rfl, rfl⟩ := h
      exact ⟨b1, r1, rs2, rfl, hr, rfl⟩

theorem run_nil (b : BMode) : run b [] = some (b, []) := rfl

theorem trans_running (x : Cmd) : trans .running x = none := by cases x <;> rfl
theorem trans_dead (x : Cmd) : trans .dead x = none := by cases x <;> rfl
theorem trans_exited (x : Cmd) : trans .exited x = none := by cases x <;> rfl

theorem run_running {c : List Cmd} {m : BMode} {rs : List Reply} (h : run .running c = some (m, rs)) :
    c = [] ∧ m = .running ∧ rs = [] := by
  cases c with
  | nil => simp [run] at h; exact ⟨rfl, h.1.symm, h.2⟩
  | cons x xs => simp [run, trans_running] at h

theorem wf_running {ops : List POp} (h : wf .running ops = true) : HForm ops := by
  induction ops with
  | nil => simp [wf] at h
  | cons o ops ih =>
    cases o with
    | cmd c => simp [wf, trans_running] at h
    | ask c => simp [wf, trans_running] at h
    | drain =>
      obtain ⟨n, rest, e, hw⟩ := ih (by simpa [wf] using h)
      exact ⟨n + 1, rest, by rw [e]; rfl, hw⟩
    | handler =>
      simp only [wf, Bool.and_eq_true] at h
      exact ⟨0, ops, rfl, h.2⟩
    | stop => simp [wf] at h

theorem hform_wf {ops : List POp} (h : HForm ops) : wf .running ops = true := by
  obtain ⟨n, rest, rfl, hw⟩ := h
  induction n with
  | zero => simp [wf, hw]
  | succ n ih => simpa [List.replicate_succ, wf] using ih

theorem wf_append {m m' : BMode} {a ops : List POp} (ha : wfTo m a m' = true) (ho : wf m' ops = true) :
    wf m (a ++ ops) = true := by
  induction a generalizing m with
  | nil =>
    simp only [wfTo, beq_iff_eq] at ha
    subst ha; exact ho
  | cons o a ih =>
    cases o with
    | cmd c =>
      simp only [wfTo, List.cons_append, wf] at ha ⊢
      cases ht : trans m c with
      | none => simp [ht] at ha
      | some p =>
        obtain ⟨m1, r⟩ := p
        cases r with
        | none => simp only [ht] at ha ⊢; exact ih ha
        | some r => simp [ht] at ha
    | ask c =>
      simp only [wfTo, List.cons_append, wf] at ha ⊢
      cases ht : trans m c with
      | none => simp [ht] at ha
      | some p =>
        obtain ⟨m1, r⟩ := p
        cases r with
        | none => simp [ht] at ha
        | some r =>
          simp only [ht, Bool.and_eq_true] at ha ⊢
          exact ⟨ha.1, ih ha.2⟩
    | drain => simp only [wfTo, List.cons_append, wf] at ha ⊢; exact ih ha
    | handler => simp [wfTo] at ha
    | stop => simp [wfTo] at ha

theorem rep_append (a b : List Reply) : rep (a ++ b) = rep a ++ rep b := by simp [rep]
theorem rep_cons (r : Reply) (a : List Reply) : rep (r :: a) = .reply r :: rep a := rfl
theorem rep_nil : rep [] = [] := rfl

theorem rep_injective {a b : List Reply} (h : rep a = rep b) : a = b := by
  induction a generalizing b with
  | nil => cases b <;> simp [rep] at h ⊢
  | cons x a ih =>
    cases b with
    | nil => simp [rep] at h
    | cons y b =>
      simp only [rep, List.map_cons, List.cons.injEq, Msg.reply.injEq] at h
      rw [h.1, ih (by simpa [rep] using h.2)]

theorem rep_split {out rs : List Reply} {d : List Msg} (h : rep out = d ++ rep rs) :
    ∃ o, d = rep o ∧ out = o ++ rs := by
  induction d generalizing out with
  | nil => exact ⟨[], rfl, by simpa using rep_injective h⟩
  | cons m d ih =>
    cases out with
    | nil => simp [rep] at h
    | cons r out =>
      simp only [rep_cons, List.cons_append, List.cons.injEq] at h
      obtain ⟨o, ho, hout⟩ := ih h.2
      exact ⟨r :: o, by rw [rep_cons, ← h.1, ho], by rw [hout]; rfl⟩

theorem form_handler {n : Nat} {rest ops : List POp}
    (h : List.replicate n POp.drain ++ POp.handler :: rest = POp.handler :: ops) : n = 0 ∧ rest = ops := by
  cases n with
  | zero => simpa using h
  | succ n => simp [List.replicate_succ] at h

theorem form_drain {n : Nat} {rest ops : List POp}
    (h : List.replicate n POp.drain ++ POp.handler :: rest = POp.drain :: ops) :
    ∃ n', n = n' + 1 ∧ ops = List.replicate n' POp.drain ++ POp.handler :: rest := by
  cases n with
  | zero => simp at h
  | succ n => exact ⟨n, rfl, by simpa [List.replicate_succ] using h.symm⟩

theorem form_not_cmd {n : Nat} {rest ops : List POp} {x : Cmd}
    (h : List.replicate n POp.drain ++ POp.handler :: rest = POp.cmd x :: ops) : False := by
  cases n <;> simp [List.replicate_succ] at h

theorem form_not_ask {n : Nat} {rest ops : List POp} {x : Cmd}
    (h : List.replicate n POp.drain ++ POp.handler :: rest = POp.ask x :: ops) : False := by
  cases n <;> simp [List.replicate_succ] at h

theorem form_not_nil {n : Nat} {rest : List POp}
    (h : List.replicate n POp.drain ++ POp.handler :: rest = []) : False := by
  cases n <;> simp [List.replicate_succ] at h

theorem trans_ne_dead {b b' : BMode} {x : Cmd} {r : Option Reply} (h : trans b x = some (b', r)) : b' ≠ .dead := by
  intro e; subst e
  cases b <;> cases x <;> simp [trans] at h
  all_goals (rename_i k; cases k <;> simp at h)

theorem evtail_nil {b : BMode} (h : EvTail b []) : b = .running := by
  rcases h with ⟨h, _⟩ | ⟨k, _, h⟩ | ⟨_, h⟩
  · exact h
  · simp at h
  · simp at h

theorem evtail_head {b : BMode} {m : Msg} {t : List Msg} (h : EvTail b (m :: t)) :
    t = [] ∧ ((∃ k, m = .request k ∧ b = .wait k) ∨ (m = .phases ∧ b = .main)) := by
  rcases h with ⟨_, h⟩ | ⟨k, hb, h⟩ | ⟨hb, h⟩
  · simp at h
  · simp only [List.cons.injEq] at h; exact ⟨h.2, Or.inl ⟨k, h.1, hb⟩⟩
  · simp only [List.cons.injEq] at h; exact ⟨h.2, Or.inr ⟨h.1, hb⟩⟩

/-! ## preservation: the daemon's steps -/

theorem inv_bCmd (g : G) (x : Cmd) (cs : List Cmd) (b' : BMode) (r : Option Reply)
    (hc : g.c = x :: cs) (ht : trans g.b x = some (b', r)) (h : Inv g) :
    Inv { g with b := b', c := cs, d := g.d ++ (optList r).map .reply } := by
  rcases h with ⟨hst, hr⟩ | ⟨hb, _⟩ | ⟨hb, m', rs, hrun, hd⟩
  · refine Or.inl ⟨hst, ?_⟩
    rcases hr with hb | ⟨m, rs, hrun⟩
    · rw [hb, trans_dead] at ht; simp at ht
    · rw [hc] at hrun
      obtain ⟨b1, r1, rs', ht', hrun', _⟩ := run_cons_inv _ _ _ _ _ hrun
      rw [ht] at ht'
      obtain ⟨rfl, rfl⟩ := Prod.mk.inj (Option.some.inj ht')
      exact Or.inr ⟨m, rs', hrun'⟩
  · rw [hb, trans_dead] at ht; simp at ht
  · refine Or.inr (Or.inr ⟨trans_ne_dead ht, ?_⟩)
    rw [hc] at hrun
    obtain ⟨b1, r1, rs', ht', hrun', hrs⟩ := run_cons_inv _ _ _ _ _ hrun
    rw [ht] at ht'
    obtain ⟨rfl, rfl⟩ := Prod.mk.inj (Option.some.inj ht')
    rcases hd with ⟨hrep, hwf⟩ | ⟨hcn, _⟩
    · refine ⟨m', rs', hrun', Or.inl ⟨?_, hwf⟩⟩
      show rep g.out = (g.d ++ rep (optList r)) ++ rep rs'
      rw [hrep, hrs, rep_append, List.append_assoc]
    · rw [hc] at hcn; simp at hcn

theorem inv_bUnknown (g : G) (x : Cmd) (cs : List Cmd) (ha : alive g.b = true) (hc : g.c = x :: cs)
    (ht : trans g.b x = none) (h : Inv g) :
    Inv { g with b := .dead, c := cs, d := g.d ++ [.death] } := by
  rcases h with ⟨hst, _⟩ | ⟨hb, _⟩ | ⟨_, m', rs, hrun, _⟩
  · exact Or.inl ⟨hst, Or.inl rfl⟩
  · rw [hb] at ha; simp [alive] at ha
  · rw [hc] at hrun
    obtain ⟨b1, r1, rs', ht', _, _⟩ := run_cons_inv _ _ _ _ _ hrun
    rw [ht] at ht'; simp at ht'

/-- the daemon starts writing handler events (or one more of them) -/
theorem inv_bEvent (g : G) (b' : BMode) (ev : Msg) (hb : g.b = .running)
    (hev : (ev = .note ∧ b' = .running) ∨ (∃ k, ev = .request k ∧ b' = .wait k) ∨ (ev = .phases ∧ b' = .main))
    (h : Inv g) : Inv { g with b := b', d := g.d ++ [ev] } := by
  have hb' : b' ≠ .dead := by
    rcases hev with ⟨_, e⟩ | ⟨k, _, e⟩ | ⟨_, e⟩ <;> (rw [e]; simp)
  rcases h with ⟨hst, hr⟩ | ⟨hbd, _⟩ | ⟨_, m', rs, hrun, hd⟩
  · refine Or.inl ⟨hst, ?_⟩
    rcases hr with hbd | ⟨m, rs, hrun⟩
    · rw [hb] at hbd; simp at hbd
    · rw [hb] at hrun
      obtain ⟨hc, _, _⟩ := run_running hrun
      exact Or.inr ⟨b', [], by show run b' g.c = _; rw [hc]; rfl⟩
  · rw [hb] at hbd; simp at hbd
  · refine Or.inr (Or.inr ⟨hb', ?_⟩)
    rw [hb] at hrun
    obtain ⟨hc, rfl, rfl⟩ := run_running hrun
    -- the shape before: notices `notes0` (possibly none), no tail
    have key : ∃ notes0, Notes notes0 ∧ g.d = rep g.out ++ notes0 ∧ HForm g.ops := by
      rcases hd with ⟨hrep, hwf⟩ | ⟨_, notes, t, hn, htail, _, hdd, hf⟩
      · exact ⟨[], by simp [Notes], by simpa [rep_nil] using hrep.symm, wf_running hwf⟩
      · rw [hb] at htail
        rcases htail with ⟨_, rfl⟩ | ⟨k, e, _⟩ | ⟨e, _⟩
        · exact ⟨notes, hn, by simpa using hdd, hf⟩
        · simp at e
        · simp at e
    obtain ⟨notes0, hn0, hdd, hf⟩ := key
    refine ⟨b', [], by show run b' g.c = _; rw [hc]; rfl, Or.inr ⟨hc, ?_⟩⟩
    rcases hev with ⟨rfl, rfl⟩ | ⟨k, rfl, rfl⟩ | ⟨rfl, rfl⟩
    · refine ⟨notes0 ++ [.note], [], ?_, Or.inl ⟨rfl, rfl⟩, by simp, ?_, hf⟩
      · intro x hx; rcases List.mem_append.1 hx with hx | hx
        · exact hn0 x hx
        · simpa using hx
      · show g.d ++ [Msg.note] = _; rw [hdd]; simp
    · refine ⟨notes0, [.request k], hn0, Or.inr (Or.inl ⟨k, rfl, rfl⟩), by simp, ?_, hf⟩
      show g.d ++ [Msg.request k] = _; rw [hdd]
    · refine ⟨notes0, [.phases], hn0, Or.inr (Or.inr ⟨rfl, rfl⟩), by simp, ?_, hf⟩
      show g.d ++ [Msg.phases] = _; rw [hdd]

theorem inv_bDeath (g : G) (ha : alive g.b = true) (h : Inv g) :
    Inv { g with b := .dead, d := g.d ++ [.death] } := by
  rcases h with ⟨hst, _⟩ | ⟨hb, _⟩ | ⟨_, m', rs, hrun, hd⟩
  · exact Or.inl ⟨hst, Or.inl rfl⟩
  · rw [hb] at ha; simp [alive] at ha
  · refine Or.inr (Or.inl ⟨rfl, ?_⟩)
    rcases hd with ⟨hrep, _⟩ | ⟨_, notes, t, hn, htail, _, hdd, n, rest, hf, _⟩
    · obtain ⟨o, ho, hout⟩ := rep_split hrep
      refine ⟨o, [], [], ?_, ⟨rs, hout.symm⟩, by simp [Notes], Or.inl rfl, by simp⟩
      show g.d ++ [Msg.death] = _; rw [ho]; simp
    · refine ⟨g.out, notes, t, ?_, List.prefix_refl _, hn, ?_, fun _ => ⟨rfl, n, rest, hf⟩⟩
      · show g.d ++ [Msg.death] = _; rw [hdd]
      · rcases htail with ⟨_, e⟩ | ⟨k, _, e⟩ | ⟨_, e⟩
        · exact Or.inl e
        · exact Or.inr (Or.inl ⟨k, e⟩)
        · exact Or.inr (Or.inr e)

/-! ## preservation: Python's steps -/

theorem live_of {g : G} (hl : g.st = .live) (h : Inv g) :
    (g.b = .dead ∧ InvDead g) ∨ (g.b ≠ .dead ∧ InvAlive g) := by
  rcases h with h | h
  · exact absurd hl h.1
  · exact h

theorem runnable_of_live {g : G} (hl : g.st = .live) (h : Inv g) : Runnable g := by
  rcases live_of hl h with ⟨hb, _⟩ | ⟨_, m', rs, hrun, _⟩
  · exact Or.inl hb
  · exact Or.inr ⟨m', rs, hrun⟩

theorem inv_pStart (g : G) (prog : List POp) (hl : g.st = .live) (ho : g.ops = []) (hw : wf .main prog = true)
    (h : Inv g) : Inv { g with ops := prog } := by
  rcases live_of hl h with ⟨hb, o, notes, t, hd, hp, hn, ht, himp⟩ | ⟨hb, m', rs, hrun, hd⟩
  · refine Or.inr (Or.inl ⟨hb, o, notes, t, hd, hp, hn, ht, ?_⟩)
    intro hne
    obtain ⟨_, n, rest, hf⟩ := himp hne
    rw [ho] at hf
    exact (form_not_nil hf.symm).elim
  · refine Or.inr (Or.inr ⟨hb, m', rs, hrun, ?_⟩)
    rcases hd with ⟨hrep, hwf⟩ | ⟨_, _, _, _, _, _, _, n, rest, hf, _⟩
    · rw [ho] at hwf
      simp only [wf, beq_iff_eq] at hwf
      subst hwf
      exact Or.inl ⟨hrep, hw⟩
    · rw [ho] at hf; exact (form_not_nil hf.symm).elim

theorem inv_pCmd (g : G) (x : Cmd) (ops : List POp) (hl : g.st = .live) (ho : g.ops = .cmd x :: ops)
    (h : Inv g) : Inv { g with ops := ops, c := g.c ++ [x] } := by
  rcases live_of hl h with ⟨hb, o, notes, t, hd, hp, hn, ht, himp⟩ | ⟨hb, m', rs, hrun, hd⟩
  · refine Or.inr (Or.inl ⟨hb, o, notes, t, hd, hp, hn, ht, ?_⟩)
    intro hne
    obtain ⟨_, n, rest, hf⟩ := himp hne
    rw [ho] at hf
    exact (form_not_cmd hf.symm).elim
  · refine Or.inr (Or.inr ⟨hb, ?_⟩)
    rcases hd with ⟨hrep, hwf⟩ | ⟨_, _, _, _, _, _, _, n, rest, hf, _⟩
    · rw [ho] at hwf
      simp only [wf] at hwf
      cases ht : trans m' x with
      | none => simp [ht] at hwf
      | some p =>
        obtain ⟨m2, r⟩ := p
        cases r with
        | some r => simp [ht] at hwf
        | none =>
          simp only [ht] at hwf
          refine ⟨m2, rs, ?_, Or.inl ⟨?_, hwf⟩⟩
          · have := run_snoc _ _ _ _ _ _ _ hrun ht
            simpa [optList] using this
          · exact hrep
    · rw [ho] at hf; exact (form_not_cmd hf.symm).elim

theorem inv_pAsk (g : G) (x : Cmd) (r : Reply) (ops : List POp) (hl : g.st = .live) (ho : g.ops = .ask x :: ops)
    (he : expected x = some r) (h : Inv g) :
    Inv { g with ops := ops, c := g.c ++ [x], out := g.out ++ [r] } := by
  rcases live_of hl h with ⟨hb, o, notes, t, hd, hp, hn, ht, himp⟩ | ⟨hb, m', rs, hrun, hd⟩
  · refine Or.inr (Or.inl ⟨hb, o, notes, t, hd, ?_, hn, ht, ?_⟩)
    · obtain ⟨w, hw⟩ := hp
      exact ⟨w ++ [r], by show o ++ (w ++ [r]) = g.out ++ [r]; rw [← hw, List.append_assoc]⟩
    · intro hne
      obtain ⟨_, n, rest, hf⟩ := himp hne
      rw [ho] at hf
      exact (form_not_ask hf.symm).elim
  · refine Or.inr (Or.inr ⟨hb, ?_⟩)
    rcases hd with ⟨hrep, hwf⟩ | ⟨_, _, _, _, _, _, _, n, rest, hf, _⟩
    · rw [ho] at hwf
      simp only [wf] at hwf
      cases ht : trans m' x with
      | none => simp [ht] at hwf
      | some p =>
        obtain ⟨m2, r'⟩ := p
        cases r' with
        | none => simp [ht] at hwf
        | some r' =>
          simp only [ht, Bool.and_eq_true, beq_iff_eq] at hwf
          have hr : r' = r := by
            have := hwf.1; rw [he] at this; exact (Option.some.inj this).symm
          subst hr
          refine ⟨m2, rs ++ [r'], ?_, Or.inl ⟨?_, hwf.2⟩⟩
          · have := run_snoc _ _ _ _ _ _ _ hrun ht
            simpa [optList] using this
          · show rep (g.out ++ [r']) = g.d ++ rep (rs ++ [r'])
            rw [rep_append, rep_append, hrep, List.append_assoc]
    · rw [ho] at hf; exact (form_not_ask hf.symm).elim

theorem inv_pDrainDone (g : G) (ops : List POp) (hl : g.st = .live) (ho : g.ops = .drain :: ops)
    (h : Inv g) : Inv { g with ops := ops } := by
  rcases live_of hl h with ⟨hb, o, notes, t, hd, hp, hn, ht, himp⟩ | ⟨hb, m', rs, hrun, hd⟩
  · refine Or.inr (Or.inl ⟨hb, o, notes, t, hd, hp, hn, ht, ?_⟩)
    intro hne
    obtain ⟨e, n, rest, hf⟩ := himp hne
    rw [ho] at hf
    obtain ⟨n', _, hops⟩ := form_drain hf.symm
    exact ⟨e, n', rest, hops⟩
  · refine Or.inr (Or.inr ⟨hb, m', rs, hrun, ?_⟩)
    rcases hd with ⟨hrep, hwf⟩ | ⟨hc, notes, t, hn, htail, hne, hdd, n, rest, hf, hw⟩
    · rw [ho] at hwf
      exact Or.inl ⟨hrep, by simpa [wf] using hwf⟩
    · rw [ho] at hf
      obtain ⟨n', _, hops⟩ := form_drain hf.symm
      exact Or.inr ⟨hc, notes, t, hn, htail, hne, hdd, n', rest, hops, hw⟩

theorem notes_head_ne {notes t : List Msg} {m : Msg} {d : List Msg} (hn : Notes notes)
    (ht : t = [] ∨ (∃ k, t = [.request k]) ∨ t = [.phases])
    (h : notes ++ t ++ [Msg.death] = m :: d) : (∀ r, m ≠ .reply r) ∧ m ≠ .junk := by
  cases notes with
  | cons a notes =>
    have := hn a (by simp)
    simp only [List.cons_append, List.cons.injEq] at h
    rw [← h.1, this]; simp
  | nil =>
    rcases ht with rfl | ⟨k, rfl⟩ | rfl <;> simp at h <;> (rw [← h.1]; simp)

theorem inv_pReadExpected (g : G) (r : Reply) (out : List Reply) (d : List Msg)
    (hl : g.st = .live) (hout : g.out = r :: out) (hd : g.d = .reply r :: d) (h : Inv g) :
    Inv { g with out := out, d := d } := by
  rcases live_of hl h with ⟨hb, o, notes, t, hdd, hp, hn, ht, himp⟩ | ⟨hb, m', rs, hrun, hshape⟩
  · refine Or.inr (Or.inl ⟨hb, ?_⟩)
    cases o with
    | nil =>
      rw [hd] at hdd
      have := (notes_head_ne hn ht (by simpa [rep] using hdd.symm)).1 r
      exact absurd rfl this
    | cons r1 o1 =>
      rw [hd, rep_cons] at hdd
      simp only [List.cons_append, List.cons.injEq, Msg.reply.injEq] at hdd
      obtain ⟨w, hw⟩ := hp
      rw [hout] at hw
      simp only [List.cons_append, List.cons.injEq] at hw
      refine ⟨o1, notes, t, hdd.2, ⟨w, hw.2⟩, hn, ht, ?_⟩
      intro hne
      obtain ⟨e, n, rest, hf⟩ := himp hne
      rw [hout] at e
      exact ⟨(List.cons.inj e).2, n, rest, hf⟩
  · refine Or.inr (Or.inr ⟨hb, m', rs, hrun, ?_⟩)
    rcases hshape with ⟨hrep, hwf⟩ | ⟨hc, notes, t, hn, htail, hne, hdd, hf⟩
    · rw [hout, hd, rep_cons] at hrep
      simp only [List.cons_append, List.cons.injEq] at hrep
      exact Or.inl ⟨hrep.2, hwf⟩
    · rw [hout, hd, rep_cons] at hdd
      simp only [List.cons_append, List.cons.injEq] at hdd
      exact Or.inr ⟨hc, notes, t, hn, htail, hne, hdd.2, hf⟩

theorem inv_pHandleNote (g : G) (d : List Msg) (ops : List POp) (hl : g.st = .live)
    (ho : g.ops = .handler :: ops) (hout : g.out = []) (hd : g.d = .note :: d) (h : Inv g) :
    Inv { g with d := d } := by
  rcases live_of hl h with ⟨hb, o, notes, t, hdd, hp, hn, ht, himp⟩ | ⟨hb, m', rs, hrun, hshape⟩
  · refine Or.inr (Or.inl ⟨hb, ?_⟩)
    have ho' : o = [] := by
      rw [hout] at hp; exact List.prefix_nil.1 hp
    subst ho'
    rw [hd] at hdd
    cases notes with
    | nil =>
      rcases ht with rfl | ⟨k, rfl⟩ | rfl <;> simp [rep] at hdd
    | cons a notes =>
      simp only [rep_nil, List.nil_append, List.cons_append, List.cons.injEq] at hdd
      refine ⟨[], notes, t, by simpa [rep] using hdd.2, List.nil_prefix, fun x hx => hn x (by simp [hx]), ht, ?_⟩
      intro _
      exact ⟨hout.symm, 0, ops, by simpa using ho⟩
  · refine Or.inr (Or.inr ⟨hb, ?_⟩)
    rcases hshape with ⟨hrep, _⟩ | ⟨hc, notes, t, hn, htail, hne, hdd, hf⟩
    · rw [hout, hd] at hrep; simp [rep] at hrep
    · rw [hout, hd] at hdd
      simp only [rep_nil, List.nil_append] at hdd
      cases notes with
      | nil =>
        simp only [List.nil_append] at hdd
        rw [← hdd] at htail
        obtain ⟨_, hh⟩ := evtail_head htail
        rcases hh with ⟨k, e, _⟩ | ⟨e, _⟩ <;> simp at e
      | cons a notes =>
        simp only [List.cons_append, List.cons.injEq] at hdd
        by_cases hrest : notes ++ t = []
        · -- nothing left: back to the replies-only shape, the daemon is running
          have ht0 : t = [] := (List.append_eq_nil_iff.1 hrest).2
          subst ht0
          have hbr := evtail_nil htail
          refine ⟨.running, [], by rw [hbr, hc]; rfl, Or.inl ⟨?_, hform_wf hf⟩⟩
          show rep g.out = d ++ rep []
          rw [hout, hdd.2, hrest]; rfl
        · refine ⟨m', rs, hrun, Or.inr ⟨hc, notes, t, fun x hx => hn x (by simp [hx]), htail, hrest, ?_, hf⟩⟩
          show d = rep g.out ++ notes ++ t
          rw [hout, hdd.2]; simp [rep]

theorem inv_pHandleRequest (g : G) (k : Req) (ans : List POp) (d : List Msg) (ops : List POp)
    (hl : g.st = .live) (ho : g.ops = .handler :: ops) (hout : g.out = []) (hd : g.d = .request k :: d)
    (hans : wfTo (.wait k) ans .running = true) (h : Inv g) :
    Inv { g with ops := ans ++ .handler :: ops, d := d } := by
  rcases live_of hl h with ⟨hb, o, notes, t, hdd, hp, hn, ht, himp⟩ | ⟨hb, m', rs, hrun, hshape⟩
  · refine Or.inr (Or.inl ⟨hb, ?_⟩)
    have ho' : o = [] := by
      rw [hout] at hp; exact List.prefix_nil.1 hp
    subst ho'
    rw [hd] at hdd
    cases notes with
    | cons a notes =>
      have := hn a (by simp)
      simp [rep, this] at hdd
    | nil =>
      rcases ht with rfl | ⟨k', rfl⟩ | rfl
      · simp [rep] at hdd
      · simp only [rep_nil, List.nil_append, List.cons_append, List.cons.injEq] at hdd
        exact ⟨[], [], [], by simpa [rep] using hdd.2, List.nil_prefix, by simp [Notes], Or.inl rfl, by simp⟩
      · simp [rep] at hdd
  · refine Or.inr (Or.inr ⟨hb, ?_⟩)
    rcases hshape with ⟨hrep, _⟩ | ⟨hc, notes, t, hn, htail, hne, hdd, n, rest, hf, hw⟩
    · rw [hout, hd] at hrep; simp [rep] at hrep
    · rw [hout, hd] at hdd
      simp only [rep_nil, List.nil_append] at hdd
      cases notes with
      | cons a notes =>
        have := hn a (by simp)
        simp [this] at hdd
      | nil =>
        simp only [List.nil_append] at hdd
        rw [← hdd] at htail
        obtain ⟨hd0, hh⟩ := evtail_head htail
        rcases hh with ⟨k', e, hbk⟩ | ⟨e, _⟩
        · obtain rfl : k = k' := by simpa using e
          rw [ho] at hf
          obtain ⟨rfl, rfl⟩ := form_handler hf.symm
          refine ⟨.wait k, [], by rw [hbk, hc]; rfl, Or.inl ⟨?_, ?_⟩⟩
          · show rep g.out = d ++ rep []
            rw [hout, hd0]; rfl
          · exact wf_append hans (by simp [wf, hw])
        · simp at e

theorem inv_pHandlePhases (g : G) (d : List Msg) (ops : List POp)
    (hl : g.st = .live) (ho : g.ops = .handler :: ops) (hout : g.out = []) (hd : g.d = .phases :: d)
    (h : Inv g) : Inv { g with ops := ops, d := d } := by
  rcases live_of hl h with ⟨hb, o, notes, t, hdd, hp, hn, ht, himp⟩ | ⟨hb, m', rs, hrun, hshape⟩
  · refine Or.inr (Or.inl ⟨hb, ?_⟩)
    have ho' : o = [] := by
      rw [hout] at hp; exact List.prefix_nil.1 hp
    subst ho'
    rw [hd] at hdd
    cases notes with
    | cons a notes =>
      have := hn a (by simp)
      simp [rep, this] at hdd
    | nil =>
      rcases ht with rfl | ⟨k', rfl⟩ | rfl
      · simp [rep] at hdd
      · simp [rep] at hdd
      · simp only [rep_nil, List.nil_append, List.cons_append, List.cons.injEq] at hdd
        exact ⟨[], [], [], by simpa [rep] using hdd.2, List.nil_prefix, by simp [Notes], Or.inl rfl, by simp⟩
  · refine Or.inr (Or.inr ⟨hb, ?_⟩)
    rcases hshape with ⟨hrep, _⟩ | ⟨hc, notes, t, hn, htail, hne, hdd, n, rest, hf, hw⟩
    · rw [hout, hd] at hrep; simp [rep] at hrep
    · rw [hout, hd] at hdd
      simp only [rep_nil, List.nil_append] at hdd
      cases notes with
      | cons a notes =>
        have := hn a (by simp)
        simp [this] at hdd
      | nil =>
        simp only [List.nil_append] at hdd
        rw [← hdd] at htail
        obtain ⟨hd0, hh⟩ := evtail_head htail
        rcases hh with ⟨k', e, _⟩ | ⟨_, hbm⟩
        · simp at e
        · rw [ho] at hf
          obtain ⟨rfl, rfl⟩ := form_handler hf.symm
          refine ⟨.main, [], by rw [hbm, hc]; rfl, Or.inl ⟨?_, hw⟩⟩
          show rep g.out = d ++ rep []
          rw [hout, hd0]; rfl

/-- **the invariant is preserved by every step of either side** -/
theorem inv_step {g g' : G} (h : Inv g) (hs : Step g g') : Inv g' := by
  cases hs with
  | pStart prog hl ho hw => exact inv_pStart g prog hl ho hw h
  | pCmd x ops hl ho => exact inv_pCmd g x ops hl ho h
  | pAsk x r ops hl ho he => exact inv_pAsk g x r ops hl ho he h
  | pDrainDone ops hl ho _ => exact inv_pDrainDone g ops hl ho h
  | pReadExpected r out d o ops hl _ _ hout hd => exact inv_pReadExpected g r out d hl hout hd h
  | pReadMismatch r out m d o ops hl =>
    have hr : Runnable g := runnable_of_live hl h
    exact Or.inl ⟨by simp, hr⟩
  | pReadDeath d o ops hl =>
    have hr : Runnable g := runnable_of_live hl h
    exact Or.inl ⟨by simp, hr⟩
  | pHandleNote d ops hl ho hout hd => exact inv_pHandleNote g d ops hl ho hout hd h
  | pHandleRequest k ans d ops hl ho hout hd hans => exact inv_pHandleRequest g k ans d ops hl ho hout hd hans h
  | pHandlePhases d ops hl ho hout hd => exact inv_pHandlePhases g d ops hl ho hout hd h
  | pHandleUnknown m d ops hl =>
    have hr : Runnable g := runnable_of_live hl h
    exact Or.inl ⟨by simp, hr⟩
  | pStop ops hl =>
    have hr : Runnable g := runnable_of_live hl h
    exact Or.inl ⟨by simp, hr⟩
  | bCmd x cs b' r hc ht => exact inv_bCmd g x cs b' r hc ht h
  | bUnknown x cs ha _ hc ht => exact inv_bUnknown g x cs ha hc ht h
  | bNote hb =>
    have := inv_bEvent g .running .note hb (Or.inl ⟨rfl, rfl⟩) h
    rw [← hb] at this
    exact this
  | bRequest k hb => exact inv_bEvent g (.wait k) (.request k) hb (Or.inr (Or.inl ⟨k, rfl, rfl⟩)) h
  | bFinish hb => exact inv_bEvent g .main .phases hb (Or.inr (Or.inr ⟨rfl, rfl⟩)) h
  | bDeath ha => exact inv_bDeath g ha h

theorem inv_init : Inv init :=
  Or.inr (Or.inr ⟨by decide, .main, [], rfl, Or.inl ⟨rfl, rfl⟩⟩)

theorem inv_reachable {g : G} (h : Reachable g) : Inv g := by
  induction h with
  | init => exact inv_init
  | step _ hs ih => exact inv_step ih hs

theorem readLines_own (replies rest : List Line) (hn : ∀ l ∈ replies, isNoticeLine l = false) :
    readLines replies.length (replies ++ rest) = .got replies rest := by
  induction replies with
  | nil => cases rest <;> rfl
  | cons l ls ih =>
    have h1 : isNoticeLine l = false := hn l (by simp)
    have h2 := ih (fun x hx => hn x (by simp [hx]))
    simp [readLines, h1, h2]

theorem sourceBashrcs_answered (items : List BashrcItem) :
    (sourceBashrcs items).length = items.length ∧ (∀ l ∈ sourceBashrcs items, l = .next) ∨
      BashrcLine.death ∈ sourceBashrcs items := by
  induction items with
  | nil => left; simp [sourceBashrcs]
  | cons it rest ih =>
    cases it with
    | path st =>
      rcases ih with ⟨h1, h2⟩ | h
      · left; simp [sourceBashrcs, h1]; exact h2
      · right; simp [sourceBashrcs, h]
    | transfer st =>
      cases st with
      | zero =>
        rcases ih with ⟨h1, h2⟩ | h
        · left; simp [sourceBashrcs, h1]; exact h2
        · right; simp [sourceBashrcs, h]
      | succ n => right; simp [sourceBashrcs]
    | other => right; simp [sourceBashrcs]

theorem sourceBashrcs_paths (sts : List Nat) :
    sourceBashrcs (sts.map .path) = sts.map fun _ => .next := by
  induction sts with
  | nil => rfl
  | cons s rest ih => simp [sourceBashrcs, ih]

end Pkgcore.C35
