import Pkgcore.Model.C03
import Pkgcore.Proofs.C01Lex
/-!
# C03 — lemmas about the string primitives of the parser (`find`, `rsplit`, `split`, `join`, suffix tests)
-/
namespace Pkgcore.C03
open Pkgcore.C01 Pkgcore.C02

/-! ## `breakOn` (first occurrence) -/

theorem breakOn_append {c : Char} {a : Str} (b : Str) (h : c ∉ a) : breakOn c (a ++ c :: b) = some (a, b) := by
  induction a with
  | nil => simp [breakOn]
  | cons x xs ih =>
    have hx : x ≠ c := fun e => h (by simp [e])
    have hxs : c ∉ xs := fun e => h (by simp [e])
    simp [breakOn, hx, ih hxs]

theorem breakOn_of_not_mem {c : Char} {s : Str} (h : c ∉ s) : breakOn c s = none := by
  induction s with
  | nil => rfl
  | cons x xs ih =>
    have hx : x ≠ c := fun e => h (by simp [e])
    have hxs : c ∉ xs := fun e => h (by simp [e])
    simp [breakOn, hx, ih hxs]

theorem breakOn_sound {c : Char} {s a b : Str} (h : breakOn c s = some (a, b)) : s = a ++ c :: b ∧ c ∉ a := by
  induction s generalizing a b with
  | nil => simp [breakOn] at h
  | cons x xs ih =>
    unfold breakOn at h
    by_cases hx : x = c
    · simp only [hx, if_true, Option.some.injEq, Prod.mk.injEq] at h
      obtain ⟨rfl, rfl⟩ := h
      simp [hx]
    · simp only [hx, if_false] at h
      cases hb : breakOn c xs with
      | none => simp [hb] at h
      | some p =>
        obtain ⟨a', b'⟩ := p
        simp only [hb, Option.some.injEq, Prod.mk.injEq] at h
        obtain ⟨rfl, rfl⟩ := h
        obtain ⟨h1, h2⟩ := ih hb
        refine ⟨by simp [h1], ?_⟩
        simp only [List.mem_cons, not_or]
        exact ⟨Ne.symm hx, h2⟩

theorem breakOn_none_sound {c : Char} {s : Str} (h : breakOn c s = none) : c ∉ s := by
  intro hm
  obtain ⟨a, b, rfl, ha⟩ : ∃ a b, s = a ++ c :: b ∧ c ∉ a := by
    induction s with
    | nil => simp at hm
    | cons x xs ih =>
      by_cases hx : x = c
      · exact ⟨[], xs, by simp [hx], by simp⟩
      · have hm' : c ∈ xs := by
          simp only [List.mem_cons] at hm
          rcases hm with e | e
          · exact absurd e.symm hx
          · exact e
        have hn : breakOn c xs = none := by
          unfold breakOn at h
          simp only [hx, if_false] at h
          cases hb : breakOn c xs with
          | none => rfl
          | some p => simp [hb] at h
        obtain ⟨a, b, e, ha⟩ := ih hn hm'
        refine ⟨x :: a, b, by simp [e], ?_⟩
        simp only [List.mem_cons, not_or]
        exact ⟨Ne.symm hx, ha⟩
  rw [breakOn_append b ha] at h
  cases h

/-! ## `breakOnLast` (last occurrence, `rsplit(c, 1)`) -/

theorem breakOnLast_of_not_mem {c : Char} {s : Str} (h : c ∉ s) : breakOnLast c s = none := by
  induction s with
  | nil => rfl
  | cons x xs ih =>
    have hx : x ≠ c := fun e => h (by simp [e])
    have hxs : c ∉ xs := fun e => h (by simp [e])
    simp [breakOnLast, hx, ih hxs]

theorem breakOnLast_append {c : Char} (a : Str) {b : Str} (h : c ∉ b) : breakOnLast c (a ++ c :: b) = some (a, b) := by
  induction a with
  | nil => simp [breakOnLast, breakOnLast_of_not_mem h]
  | cons x xs ih => simp [breakOnLast, ih]

theorem breakOnLast_sound {c : Char} {s a b : Str} (h : breakOnLast c s = some (a, b)) : s = a ++ c :: b ∧ c ∉ b := by
  induction s generalizing a b with
  | nil => simp [breakOnLast] at h
  | cons x xs ih =>
    unfold breakOnLast at h
    cases hb : breakOnLast c xs with
    | some p =>
      obtain ⟨a', b'⟩ := p
      simp only [hb, Option.some.injEq, Prod.mk.injEq] at h
      obtain ⟨rfl, rfl⟩ := h
      obtain ⟨h1, h2⟩ := ih hb
      exact ⟨by simp [h1], h2⟩
    | none =>
      simp only [hb] at h
      by_cases hx : x = c
      · simp only [hx, if_true, Option.some.injEq, Prod.mk.injEq] at h
        obtain ⟨rfl, rfl⟩ := h
        refine ⟨by simp [hx], ?_⟩
        intro hm
        obtain ⟨p, q, e⟩ := List.append_of_mem hm
        -- c ∈ xs contradicts breakOnLast = none
        clear ih
        have : ∀ (s : Str), c ∈ s → breakOnLast c s ≠ none := by
          intro s
          induction s with
          | nil => simp
          | cons y ys ih2 =>
            intro hmem
            unfold breakOnLast
            cases hb2 : breakOnLast c ys with
            | some p => simp
            | none =>
              simp only
              by_cases hy : y = c
              · simp [hy]
              · have : c ∈ ys := by
                  simp only [List.mem_cons] at hmem
                  rcases hmem with e | e
                  · exact absurd e.symm hy
                  · exact e
                exact absurd hb2 (ih2 this)
        exact this _ hm hb
      · simp [hx] at h

/-! ## `breakDColon` (first `"::"`) -/

theorem breakDColon_sound {s a b : Str} (h : breakDColon s = some (a, b)) : s = a ++ ':' :: ':' :: b := by
  induction s generalizing a b with
  | nil => simp [breakDColon] at h
  | cons x xs ih =>
    cases xs with
    | nil => simp [breakDColon] at h
    | cons y r =>
      unfold breakDColon at h
      by_cases hxy : x = ':' ∧ y = ':'
      · simp only [hxy, and_self, if_true, Option.some.injEq, Prod.mk.injEq] at h
        obtain ⟨rfl, rfl⟩ := h
        simp [hxy.1, hxy.2]
      · simp only [hxy, if_false] at h
        cases hb : breakDColon (y :: r) with
        | none => simp [hb] at h
        | some p =>
          obtain ⟨a', b'⟩ := p
          simp only [hb, Option.some.injEq, Prod.mk.injEq] at h
          obtain ⟨rfl, rfl⟩ := h
          simp [ih hb]

/-- no `:` at all: no `"::"` even after a leading single `:` -/
theorem breakDColon_colon_of_not_mem {x : Str} (h : ':' ∉ x) : breakDColon (':' :: x) = none := by
  have gen : ∀ (c : Char) (x : Str), ':' ∉ x → breakDColon (c :: x) = none := by
    intro c x
    induction x generalizing c with
    | nil => intro _; rfl
    | cons y ys ih =>
      intro hx
      have hy : y ≠ ':' := fun e => hx (by simp [e])
      have hys : ':' ∉ ys := fun e => hx (by simp [e])
      unfold breakDColon
      simp [hy, ih y hys]
  exact gen ':' x h

/-- `:slot::repo` — the first `"::"` is the one in front of the repo id -/
theorem breakDColon_slot_repo {x : Str} (r : Str) (h : ':' ∉ x) (hne : x ≠ []) :
    breakDColon (':' :: x ++ ':' :: ':' :: r) = some (':' :: x, r) := by
  have gen : ∀ (c : Char) (x : Str), ':' ∉ x → x ≠ [] →
      breakDColon (c :: x ++ ':' :: ':' :: r) = some (c :: x, r) := by
    intro c x
    induction x generalizing c with
    | nil => intro _ h; exact absurd rfl h
    | cons y ys ih =>
      intro hx _
      have hy : y ≠ ':' := fun e => hx (by simp [e])
      have hys : ':' ∉ ys := fun e => hx (by simp [e])
      cases ys with
      | nil =>
        simp only [List.cons_append, List.nil_append]
        unfold breakDColon
        simp only [hy, and_false, if_false]
        unfold breakDColon
        simp [hy]
        unfold breakDColon
        simp
      | cons z zs =>
        have := ih y hys (by simp)
        simp only [List.cons_append] at this ⊢
        unfold breakDColon
        simp only [hy, and_false, if_false, this]
  exact gen ':' x h hne

theorem breakDColon_repo (r : Str) : breakDColon (':' :: ':' :: r) = some ([], r) := by
  simp [breakDColon]

/-! ## `splitOn` / `joinSep` -/

theorem joinSep_splitOn (sep : Char) (s : Str) : joinSep sep (splitOn sep s) = s := by
  induction s with
  | nil => rfl
  | cons c cs ih =>
    unfold splitOn
    by_cases h : c = sep
    · simp only [h, if_true]
      rw [joinSep_cons_ne sep [] _ (splitOn_ne_nil sep cs), ih]
      rfl
    · simp only [h, if_false]
      cases hs : splitOn sep cs with
      | nil => exact absurd hs (splitOn_ne_nil sep cs)
      | cons p t =>
        rw [hs] at ih
        cases t with
        | nil => simp only [joinSep] at ih ⊢; rw [ih]
        | cons q t =>
          simp only [joinSep] at ih ⊢
          rw [← ih]; rfl

theorem not_mem_of_mem_splitOn (sep : Char) (s p : Str) (h : p ∈ splitOn sep s) : sep ∉ p := by
  induction s generalizing p with
  | nil => simp [splitOn] at h; subst h; simp
  | cons c cs ih =>
    unfold splitOn at h
    by_cases hc : c = sep
    · simp only [hc, if_true, List.mem_cons] at h
      rcases h with rfl | h
      · simp
      · exact ih p h
    · simp only [hc, if_false] at h
      cases hs : splitOn sep cs with
      | nil => exact absurd hs (splitOn_ne_nil sep cs)
      | cons q t =>
        rw [hs] at h ih
        simp only [List.mem_cons] at h
        rcases h with rfl | h
        · have := ih q (by simp)
          simp only [List.mem_cons, not_or]
          exact ⟨Ne.symm hc, this⟩
        · exact ih p (by simp [h])

theorem splitOn_cons_sep (sep : Char) (cs : Str) : splitOn sep (sep :: cs) = [] :: splitOn sep cs := by
  simp [splitOn]

theorem splitOn_cons_ne (sep c : Char) (cs : Str) (h : c ≠ sep) :
    splitOn sep (c :: cs) = (c :: (splitOn sep cs).headD []) :: (splitOn sep cs).tail := by
  rw [splitOn]
  simp only [h, if_false]
  cases hs : splitOn sep cs with
  | nil => exact absurd hs (splitOn_ne_nil sep cs)
  | cons q t => rfl

theorem splitOn_append_sep (sep : Char) (a b : Str) :
    splitOn sep (a ++ sep :: b) = splitOn sep a ++ splitOn sep b := by
  induction a with
  | nil => simp [splitOn]
  | cons c cs ih =>
    simp only [List.cons_append]
    by_cases hc : c = sep
    · subst hc
      rw [splitOn_cons_sep, splitOn_cons_sep, ih]; rfl
    · rw [splitOn_cons_ne _ _ _ hc, splitOn_cons_ne _ _ _ hc, ih]
      cases hs : splitOn sep cs with
      | nil => exact absurd hs (splitOn_ne_nil sep cs)
      | cons q t => simp

/-! ## suffixes -/

theorem stripSuffix?_append (suf y : Str) : stripSuffix? suf (y ++ suf) = some y := by
  simp [stripSuffix?]

theorem stripSuffix?_sound {suf x y : Str} (h : stripSuffix? suf x = some y) : x = y ++ suf := by
  unfold stripSuffix? at h
  split at h
  · rename_i hs
    simp only [Option.some.injEq] at h
    subst h
    rw [List.isSuffixOf_iff_suffix] at hs
    obtain ⟨t, rfl⟩ := hs
    simp
  · cases h

end Pkgcore.C03
