import Pkgcore.Spec.C07
import Pkgcore.Proofs.C02
import Pkgcore.Proofs.C04
import Pkgcore.Model.C03
/-! # C07 helper lemmas -/
namespace Pkgcore.C07
open Pkgcore.C07.Spec
open Pkgcore.C01 (Ver Rev verCmp cmpRev natOfDigits versionMatch ordToInt)

/-! ## atoms: the decidable validity check implies C02's well-formedness -/
theorem verWF_of_ok (v : Ver) (h : verOkB v = true) : Pkgcore.C01.Spec.WF v := by
  simp only [verOkB, Bool.and_eq_true, Bool.not_eq_true', List.all_eq_true, List.isEmpty_eq_false_iff] at h
  refine ⟨h.1, fun c hc => ?_⟩
  have := h.2 c hc
  exact ⟨this.1, this.2⟩

theorem atomWF_of_ok (a : Pkgcore.C02.Atom) (h : atomOkB a = true) : Pkgcore.C02.Spec.Atom.WF a := by
  simp only [atomOkB] at h
  simp only [Pkgcore.C02.Spec.Atom.WF, Pkgcore.C02.Atom.vr]
  cases hv : a.vop with
  | none => simp [Pkgcore.C02.Spec.vrWF]
  | some t =>
    obtain ⟨o, v, r⟩ := t
    simp only [hv] at h
    simp only [Option.map_some, Pkgcore.C02.Spec.vrWF]
    exact verWF_of_ok v h

/-- C02: `atom.__eq__` holds exactly when the canonical forms coincide (from `Proofs/C02`) -/
theorem atomEq_iff_canon (a b : Pkgcore.C02.Atom) (ha : Pkgcore.C02.Spec.Atom.WF a) (hb : Pkgcore.C02.Spec.Atom.WF b) :
    Pkgcore.C02.atomEq a b = some true ↔ Pkgcore.C02.Spec.atomCanon a = Pkgcore.C02.Spec.atomCanon b := by
  rw [Pkgcore.C02.atomEq, Pkgcore.C02.atomCmp_eq a b ha hb, Option.map_some, Option.some.injEq, beq_iff_eq,
    Pkgcore.C02.atomOrd_eq_iff]

theorem atomEq_hashKey (a b : Pkgcore.C02.Atom) (ha : Pkgcore.C02.Spec.Atom.WF a) (hb : Pkgcore.C02.Spec.Atom.WF b)
    (h : Pkgcore.C02.atomEq a b = some true) : Pkgcore.C02.atomHashKey a = Pkgcore.C02.atomHashKey b :=
  Pkgcore.C02.atomHashKey_of_canon a b ha hb ((atomEq_iff_canon a b ha hb).mp h)

/-! ## version restrictions -/

/-- the result of `ver_cmp` depends on a `Revision` argument only through its integer value, provided the other
side is a `Revision` object too -/
theorem verCmp_rev_congr (v1 v2 : Ver) (p a b : List Char) (h : natOfDigits a = natOfDigits b) :
    verCmp v1 (some p) v2 (some a) = verCmp v1 (some p) v2 (some b) := by
  have hc : cmpRev (some p) (some a) = cmpRev (some p) (some b) := by simp [cmpRev, h]
  have ht : (if (!(Rev.truthy (some p)) && !(Rev.truthy (some a))) then Ordering.eq else cmpRev (some p) (some a)) =
      (if (!(Rev.truthy (some p)) && !(Rev.truthy (some b))) then Ordering.eq else cmpRev (some p) (some b)) := by
    cases p with
    | cons c cs => simp [Rev.truthy, hc]
    | nil =>
      cases a with
      | nil =>
        cases b with
        | nil => rfl
        | cons d ds =>
          have h0 : natOfDigits (d :: ds) = 0 := by rw [← h]; rfl
          simp only [Rev.truthy, cmpRev, h0]
          simp [natOfDigits]
      | cons c cs =>
        cases b with
        | nil =>
          have h0 : natOfDigits (c :: cs) = 0 := by rw [h]; rfl
          simp only [Rev.truthy, cmpRev, h0]
          simp [natOfDigits]
        | cons d ds => simp [Rev.truthy, hc]
  unfold verCmp
  split
  · exact ht
  · simp only [hc]

theorem ordToInt_mem (o : Ordering) : ordToInt o ∈ ([-1, 0, 1] : List Int) := by cases o <;> simp [ordToInt]

/-- equal `_convert_ops` ⇒ the same verdict on every comparison result, for operator sets of the table -/
theorem convertOps_same :
    ∀ vals ∈ opTable, ∀ vals' ∈ opTable, ∀ n n' : Bool, ∀ c ∈ ([-1, 0, 1] : List Int),
      convertOps n vals = convertOps n' vals' → (vals.contains c != n) = (vals'.contains c != n') := by
  decide

theorem version_match_eq (vals vals' : List Int) (d n n' : Bool) (ver : Ver) (rev rev' : Rev)
    (pv : Ver) (pr : List Char) (hv : vals ∈ opTable) (hv' : vals' ∈ opTable)
    (hr : revInt rev = revInt rev') (hn : rev.isNone = rev'.isNone)
    (hc : convertOps n vals = convertOps n' vals') :
    versionMatch vals d n ver rev pv (some pr) = versionMatch vals' d n' ver rev' pv (some pr) := by
  have hcmp : verCmp pv (if d then none else some pr) ver (if d then none else rev) =
      verCmp pv (if d then none else some pr) ver (if d then none else rev') := by
    cases d with
    | true => rfl
    | false =>
      cases rev with
      | none => cases rev' with
        | none => rfl
        | some b => simp at hn
      | some a => cases rev' with
        | none => simp at hn
        | some b => exact verCmp_rev_congr pv ver pr a b hr
  simp only [versionMatch, hcmp]
  exact convertOps_same vals hv vals' hv' n n' _ (ordToInt_mem _) hc

/-- `cpv.ver_glob_match` depends on the glob's revision only through its integer value -/
theorem verGlobMatch_rev_congr (gv : Ver) (r r' : Rev) (pv : Ver) (pr : List Char) (h : revInt r = revInt r') :
    Pkgcore.C04.verGlobMatch gv (r.getD []) pv pr = Pkgcore.C04.verGlobMatch gv (r'.getD []) pv pr := by
  have hk : Pkgcore.C02.verHashKey gv (r.getD []) = Pkgcore.C02.verHashKey gv (r'.getD []) := by
    have : natOfDigits (r.getD []) = natOfDigits (r'.getD []) := by
      cases r <;> cases r' <;> simpa [revInt, natOfDigits] using h
    simp only [Pkgcore.C02.verHashKey, this]
  simp only [Pkgcore.C04.verGlobMatch, hk]

/-! ## frozenset-valued attributes -/
theorem sameMembers_of_all (v v' : List Str)
    (h1 : (v.all fun x => v'.contains x) = true) (h2 : (v'.all fun x => v.contains x) = true) :
    ∀ s, s ∈ v ↔ s ∈ v' := by
  simp only [List.all_eq_true, List.contains_iff_mem] at h1 h2
  exact fun s => ⟨h1 s, h2 s⟩

theorem any_congr_mem {α} (v v' : List α) (p : α → Bool) (h : ∀ s, s ∈ v ↔ s ∈ v') : v.any p = v'.any p := by
  rw [Bool.eq_iff_iff]
  simp only [List.any_eq_true]
  exact ⟨fun ⟨x, hx, hp⟩ => ⟨x, (h x).mp hx, hp⟩, fun ⟨x, hx, hp⟩ => ⟨x, (h x).mpr hx, hp⟩⟩

theorem all_congr_mem {α} (v v' : List α) (p : α → Bool) (h : ∀ s, s ∈ v ↔ s ∈ v') : v.all p = v'.all p := by
  rw [Bool.eq_iff_iff]
  simp only [List.all_eq_true]
  exact ⟨fun hv x hx => hv x ((h x).mpr hx), fun hv x hx => hv x ((h x).mp hx)⟩

theorem containMatch_congr (v v' : List Str) (a n : Bool) (x : Value) (h : ∀ s, s ∈ v ↔ s ∈ v') :
    containMatch v a n x = containMatch v' a n x := by
  cases x <;> simp only [containMatch]
  · rw [any_congr_mem v v' _ h]
  · rw [all_congr_mem v v' _ h, all_congr_mem v v' (fun v => !List.contains _ v) h]

theorem useDefault_congr (m n a : Bool) (v v' : List Str) (iuse use : List Str) (h : ∀ s, s ∈ v ↔ s ∈ v') :
    (if v.all (fun f => iuse.contains f) then containMatch v a n (.strs use)
      else if m == n then false
      else if (v.filter fun f => iuse.contains f).isEmpty then true
        else containMatch (v.filter fun f => iuse.contains f) a n (.strs use)) =
    (if v'.all (fun f => iuse.contains f) then containMatch v' a n (.strs use)
      else if m == n then false
      else if (v'.filter fun f => iuse.contains f).isEmpty then true
        else containMatch (v'.filter fun f => iuse.contains f) a n (.strs use)) := by
  have hf : ∀ s, s ∈ v.filter (fun f => iuse.contains f) ↔ s ∈ v'.filter (fun f => iuse.contains f) := by
    intro s; simp only [List.mem_filter, h s]
  have he : (v.filter fun f => iuse.contains f).isEmpty = (v'.filter fun f => iuse.contains f).isEmpty := by
    rw [Bool.eq_iff_iff]
    simp only [List.isEmpty_iff]
    constructor
    · intro h0; apply List.eq_nil_iff_forall_not_mem.mpr; intro s hs; rw [← hf s, h0] at hs; cases hs
    · intro h0; apply List.eq_nil_iff_forall_not_mem.mpr; intro s hs; rw [hf s, h0] at hs; cases hs
  rw [all_congr_mem v v' _ h, containMatch_congr v v' a n _ h, he,
    containMatch_congr _ _ a n _ hf]

/-! ## list helpers -/
theorem wfL_mem : ∀ (cs : List Restr), wfL cs = true → ∀ y ∈ cs, wf y = true
  | [], _, y, hy => by cases hy
  | c :: cs, h, y, hy => by
    simp only [wfL, Bool.and_eq_true] at h
    rcases List.mem_cons.mp hy with rfl | hy
    · exact h.1
    · exact wfL_mem cs h.2 y hy

theorem allM_mem (env : Env) (x : Value) : ∀ (cs : List Restr), allM env cs x = true → ∀ y ∈ cs, mtch env y x = true
  | [], _, y, hy => by cases hy
  | c :: cs, h, y, hy => by
    simp only [allM, Bool.and_eq_true] at h
    rcases List.mem_cons.mp hy with rfl | hy
    · exact h.1
    · exact allM_mem env x cs h.2 y hy

theorem allM_of_forall (env : Env) (x : Value) : ∀ (cs : List Restr), (∀ y ∈ cs, mtch env y x = true) → allM env cs x = true
  | [], _ => rfl
  | c :: cs, h => by
    simp only [allM, Bool.and_eq_true]
    exact ⟨h c (by simp), allM_of_forall env x cs (fun y hy => h y (by simp [hy]))⟩

/-! ## equal ⇒ same match -/
mutual
theorem eqv_match (env : Env) : ∀ (a b : Restr), wf a = true → wf b = true → eqv a b = true →
    ∀ x, mtch env a x = mtch env b x
  | .strExact e c n hh, b, _, _, h, x => by
    cases b <;> simp only [eqv, Bool.false_eq_true] at h
    simp only [Bool.and_eq_true, beq_iff_eq] at h
    obtain ⟨⟨⟨h1, h2⟩, h3⟩, h4⟩ := h
    subst h1 h2 h3 h4
    simp [mtch]
  | .strGlob g p n i hh, b, _, _, h, x => by
    cases b <;> simp only [eqv, Bool.false_eq_true] at h
    simp only [Bool.and_eq_true, beq_iff_eq] at h
    obtain ⟨⟨⟨⟨h1, h2⟩, h3⟩, h4⟩, h5⟩ := h
    subst h1 h2 h3 h4 h5
    simp [mtch]
  | .strRegex r n i m hh, b, _, _, h, x => by
    cases b <;> simp only [eqv, Bool.false_eq_true] at h
    simp only [Bool.and_eq_true, beq_iff_eq] at h
    obtain ⟨⟨⟨⟨h1, h2⟩, h3⟩, h4⟩, h5⟩ := h
    subst h1 h2 h3 h4 h5
    simp [mtch]
  | .contain v a n, b, _, _, h, x => by
    cases b <;> simp only [eqv, Bool.false_eq_true] at h
    simp only [Bool.and_eq_true, beq_iff_eq] at h
    obtain ⟨⟨⟨h1, h2⟩, h3⟩, h4⟩ := h
    subst h3 h4
    simp only [mtch]
    exact containMatch_congr _ _ _ _ _ (sameMembers_of_all _ _ h1 h2)
  | .useDefault m v n, b, _, _, h, x => by
    cases b <;> simp only [eqv, Bool.false_eq_true] at h
    simp only [Bool.and_eq_true, beq_iff_eq] at h
    obtain ⟨⟨⟨h1, h2⟩, h3⟩, h4⟩ := h
    subst h3 h4
    simp only [mtch]
    split
    · exact useDefault_congr _ _ _ _ _ _ _ (sameMembers_of_all _ _ h1 h2)
    · rfl
  | .flatten d c n, b, ha, hb, h, x => by
    cases b <;> simp only [eqv, Bool.false_eq_true] at h
    rename_i d' c' n'
    simp only [Bool.and_eq_true, beq_iff_eq] at h
    obtain ⟨⟨h1, h2⟩, h3⟩ := h
    subst h1 h3
    simp only [wf] at ha hb
    simp only [mtch, eqv_match env c c' ha hb h2]
  | .func f n, b, _, _, h, x => by
    cases b <;> simp only [eqv, Bool.false_eq_true] at h
    simp only [Bool.and_eq_true, beq_iff_eq] at h
    obtain ⟨h1, h2⟩ := h
    subst h1 h2
    simp [mtch]
  | .strConv c, b, ha, hb, h, x => by
    cases b <;> simp only [eqv, Bool.false_eq_true] at h
    rename_i c'
    simp only [wf] at ha hb
    simp only [mtch, eqv_match env c c' ha hb h]
  | .version vals d n ver rev, b, ha, hb, h, x => by
    cases b <;> simp only [eqv, Bool.false_eq_true] at h
    rename_i vals' d' n' ver' rev'
    simp only [Bool.and_eq_true, beq_iff_eq] at h
    obtain ⟨⟨⟨⟨h1, h2⟩, h3⟩, h4⟩, h5⟩ := h
    subst h1 h2
    simp only [wf, List.contains_iff_mem] at ha hb
    simp only [mtch]
    split
    · exact version_match_eq vals vals' d n n' ver rev rev' _ _ ha hb h3 h4 h5
    · rfl
  | .verGlob ver rev, b, _ha, _hb, h, x => by
    cases b <;> simp only [eqv, Bool.false_eq_true] at h
    rename_i ver' rev'
    simp only [Bool.and_eq_true, beq_iff_eq] at h
    obtain ⟨h1, h2⟩ := h
    subst h1
    simp only [mtch]
    split
    · exact verGlobMatch_rev_congr ver rev rev' _ _ h2
    · rfl
  | .obj i, b, _, _, h, x => by
    cases b <;> simp only [eqv, Bool.false_eq_true] at h
    simp only [beq_iff_eq] at h
    subst h
    rfl
  | .pkgRestr k m ats n c, b, ha, hb, h, x => by
    cases b <;> simp only [eqv, Bool.false_eq_true] at h
    rename_i k' m' ats' n' c'
    simp only [Bool.and_eq_true, beq_iff_eq] at h
    obtain ⟨⟨⟨⟨h1, h2⟩, h3⟩, h4⟩, h5⟩ := h
    subst h1 h2 h3 h4
    simp only [wf] at ha hb
    have ih := eqv_match env c c' ha hb h5
    simp only [mtch, ih]
  | .conditional ats n c p, b, ha, hb, h, x => by
    cases b <;> simp only [eqv, Bool.false_eq_true] at h
    rename_i ats' n' c' p'
    simp only [Bool.and_eq_true, beq_iff_eq] at h
    obtain ⟨⟨⟨h1, h2⟩, h3⟩, _⟩ := h
    subst h1 h2
    simp only [wf, Bool.and_eq_true] at ha hb
    have ih := eqv_match env c c' ha.1 hb.1 h3
    simp only [mtch, ih]
  | .bool k t n cs, b, ha, hb, h, x => by
    cases b <;> simp only [eqv, Bool.false_eq_true] at h
    rename_i k' t' n' cs'
    simp only [Bool.and_eq_true, beq_iff_eq] at h
    obtain ⟨⟨⟨h1, h2⟩, h3⟩, h4⟩ := h
    subst h1 h2 h3
    simp only [wf] at ha hb
    have ih := eqvList_match env cs cs' ha hb h4 x
    have hl : cs.isEmpty = cs'.isEmpty := by
      cases cs <;> cases cs' <;> simp_all [eqvList]
    simp only [mtch, ih.1, ih.2.1, ih.2.2, hl]
  | .atom a, b, ha, hb, h, x => by
    cases b <;> simp only [eqv, Bool.false_eq_true] at h
    rename_i a'
    simp only [beq_iff_eq] at h
    simp only [wf] at ha hb
    simp only [mtch, (atomEq_iff_canon a a' (atomWF_of_ok a ha) (atomWF_of_ok a' hb)).mp h]
  | .depset cs, b, ha, hb, h, x => by
    cases b <;> simp only [eqv, Bool.false_eq_true] at h
    rename_i cs'
    simp only [Bool.and_eq_true, List.all_eq_true] at h
    simp only [wf] at ha hb
    simp only [mtch]
    rw [Bool.eq_iff_iff]
    constructor
    · intro hall
      apply allM_of_forall
      intro y hy
      exact existsL_match env cs y ha (wfL_mem cs' hb y hy) (h.2 y hy) x hall
    · exact subsetL_match env cs cs' ha hb h.1 x
theorem eqvList_match (env : Env) : ∀ (as bs : List Restr), wfL as = true → wfL bs = true → eqvList as bs = true →
    ∀ x, allM env as x = allM env bs x ∧ anyM env as x = anyM env bs x ∧ countM env as x = countM env bs x
  | [], [], _, _, _, x => by simp [allM, anyM, countM]
  | [], _ :: _, _, _, h, _ => by simp [eqvList] at h
  | _ :: _, [], _, _, h, _ => by simp [eqvList] at h
  | a :: as, b :: bs, ha, hb, h, x => by
    simp only [eqvList, Bool.and_eq_true] at h
    simp only [wfL, Bool.and_eq_true] at ha hb
    have h1 := eqv_match env a b ha.1 hb.1 h.1 x
    have h2 := eqvList_match env as bs ha.2 hb.2 h.2 x
    simp only [allM, anyM, countM, h1, h2.1, h2.2.1, h2.2.2, and_self]
theorem subsetL_match (env : Env) : ∀ (as bs : List Restr), wfL as = true → wfL bs = true → subsetL as bs = true →
    ∀ x, allM env bs x = true → allM env as x = true
  | [], _, _, _, _, _, _ => rfl
  | a :: as, bs, ha, hb, h, x, hall => by
    simp only [subsetL, Bool.and_eq_true, List.any_eq_true] at h
    simp only [wfL, Bool.and_eq_true] at ha
    obtain ⟨⟨y, hy, hay⟩, hrest⟩ := h
    simp only [allM, Bool.and_eq_true]
    refine ⟨?_, subsetL_match env as bs ha.2 hb hrest x hall⟩
    rw [eqv_match env a y ha.1 (wfL_mem bs hb y hy) hay x]
    exact allM_mem env x bs hall y hy
theorem existsL_match (env : Env) : ∀ (as : List Restr) (y : Restr), wfL as = true → wf y = true →
    existsL as y = true → ∀ x, allM env as x = true → mtch env y x = true
  | [], _, _, _, h, _, _ => by simp [existsL] at h
  | a :: as, y, ha, hy, h, x, hall => by
    simp only [existsL, Bool.or_eq_true] at h
    simp only [wfL, Bool.and_eq_true] at ha
    simp only [allM, Bool.and_eq_true] at hall
    rcases h with h | h
    · rw [← eqv_match env a y ha.1 hy h x]; exact hall.1
    · exact existsL_match env as y ha.2 hy h x hall.2
end

/-! ## equal ⇒ equal hash keys -/
theorem hkSub_iff : ∀ (as bs : List HK), hkSub as bs = true ↔ ∀ a ∈ as, ∃ y ∈ bs, hkEq a y = true
  | [], bs => by simp [hkSub]
  | a :: as, bs => by simp [hkSub, hkSub_iff as bs]

theorem hkEx_iff : ∀ (as : List HK) (y : HK), hkEx as y = true ↔ ∃ a ∈ as, hkEq a y = true
  | [], y => by simp [hkEx]
  | a :: as, y => by simp [hkEx, hkEx_iff as y]

mutual
theorem hkEq_refl : ∀ k : HK, hkEq k k = true
  | .s x => by simp [hkEq]
  | .b x => by simp [hkEq]
  | .n x => by simp [hkEq]
  | .id x => by simp [hkEq]
  | .v x => by simp [hkEq]
  | .tup xs => by simp only [hkEq]; exact hkEqList_refl xs
  | .fset xs => by
    simp only [hkEq, Bool.and_eq_true, List.all_eq_true]
    have h := hkEqAll_refl xs
    exact ⟨(hkSub_iff xs xs).mpr fun a ha => ⟨a, ha, h a ha⟩, fun y hy => (hkEx_iff xs y).mpr ⟨y, hy, h y hy⟩⟩
theorem hkEqList_refl : ∀ ks : List HK, hkEqList ks ks = true
  | [] => rfl
  | k :: ks => by simp only [hkEqList, hkEq_refl k, hkEqList_refl ks, Bool.and_self]
theorem hkEqAll_refl : ∀ ks : List HK, ∀ a ∈ ks, hkEq a a = true
  | [], a, ha => by cases ha
  | k :: ks, a, ha => by
    rcases List.mem_cons.mp ha with h | ha
    · rw [h]; exact hkEq_refl k
    · exact hkEqAll_refl ks a ha
end

theorem hashKeys_eq_map : ∀ cs : List Restr, hashKeys cs = cs.map hashKey
  | [] => rfl
  | c :: cs => by simp [hashKeys, hashKeys_eq_map cs]

theorem hkEq_fset_strs (v v' : List Str) (h : ∀ s, s ∈ v ↔ s ∈ v') :
    hkEq (.fset (v.map .s)) (.fset (v'.map .s)) = true := by
  simp only [hkEq, Bool.and_eq_true, List.all_eq_true]
  constructor
  · rw [hkSub_iff]
    intro a ha
    obtain ⟨x, hx, rfl⟩ := List.mem_map.mp ha
    exact ⟨.s x, List.mem_map.mpr ⟨x, (h x).mp hx, rfl⟩, hkEq_refl _⟩
  · intro y hy
    rw [hkEx_iff]
    obtain ⟨x, hx, rfl⟩ := List.mem_map.mp hy
    exact ⟨.s x, List.mem_map.mpr ⟨x, (h x).mpr hx, rfl⟩, hkEq_refl _⟩

mutual
theorem eqv_hash : ∀ (a b : Restr), wf a = true → wf b = true → eqv a b = true → hkEq (hashKey a) (hashKey b) = true
  | .strExact e c n hh, b, ha, hb, h => by
    cases b <;> simp only [eqv, Bool.false_eq_true] at h
    simp only [Bool.and_eq_true, beq_iff_eq] at h
    obtain ⟨⟨⟨h1, h2⟩, h3⟩, h4⟩ := h
    subst h2 h3 h4
    exact hkEq_refl _
  | .strGlob g p n i hh, b, ha, hb, h => by
    cases b <;> simp only [eqv, Bool.false_eq_true] at h
    simp only [Bool.and_eq_true, beq_iff_eq] at h
    obtain ⟨⟨⟨⟨h1, h2⟩, h3⟩, h4⟩, h5⟩ := h
    subst h2 h3 h4 h5
    exact hkEq_refl _
  | .strRegex r n i m hh, b, ha, hb, h => by
    cases b <;> simp only [eqv, Bool.false_eq_true] at h
    simp only [Bool.and_eq_true, beq_iff_eq] at h
    obtain ⟨⟨⟨⟨h1, h2⟩, h3⟩, h4⟩, h5⟩ := h
    subst h2 h3 h4 h5
    exact hkEq_refl _
  | .contain v a n, b, ha, hb, h => by
    cases b <;> simp only [eqv, Bool.false_eq_true] at h
    simp only [Bool.and_eq_true, beq_iff_eq] at h
    obtain ⟨⟨⟨h1, h2⟩, h3⟩, h4⟩ := h
    subst h3 h4
    have hf := hkEq_fset_strs _ _ (sameMembers_of_all _ _ h1 h2)
    simp only [hashKey]
    simp only [hkEq, hkEqList, beq_self_eq_true, Bool.true_and, Bool.and_true] at hf ⊢
    exact hf
  | .useDefault m v n, b, ha, hb, h => by
    cases b <;> simp only [eqv, Bool.false_eq_true] at h
    simp only [Bool.and_eq_true, beq_iff_eq] at h
    obtain ⟨⟨⟨h1, h2⟩, h3⟩, h4⟩ := h
    subst h3
    have hf := hkEq_fset_strs _ _ (sameMembers_of_all _ _ h1 h2)
    simp only [hashKey]
    simp only [hkEq, hkEqList, beq_self_eq_true, Bool.true_and, Bool.and_true] at hf ⊢
    exact hf
  | .flatten d c n, b, ha, hb, h => by
    cases b <;> simp only [eqv, Bool.false_eq_true] at h
    rename_i d' c' n'
    simp only [Bool.and_eq_true, beq_iff_eq] at h
    obtain ⟨⟨h1, h2⟩, h3⟩ := h
    subst h1 h3
    simp only [wf] at ha hb
    simp only [hashKey, hkEq, hkEqList, eqv_hash c c' ha hb h2, beq_self_eq_true, Bool.and_self]
  | .func f n, b, ha, hb, h => by
    cases b <;> simp only [eqv, Bool.false_eq_true] at h
    simp only [Bool.and_eq_true, beq_iff_eq] at h
    obtain ⟨h1, h2⟩ := h
    subst h1 h2
    exact hkEq_refl _
  | .strConv c, b, ha, hb, h => by
    cases b <;> simp only [eqv, Bool.false_eq_true] at h
    rename_i c'
    simp only [wf] at ha hb
    simp only [hashKey, hkEq, hkEqList, eqv_hash c c' ha hb h, Bool.and_self]
  | .version vals d n ver rev, b, ha, hb, h => by
    cases b <;> simp only [eqv, Bool.false_eq_true] at h
    simp only [Bool.and_eq_true, beq_iff_eq] at h
    obtain ⟨⟨⟨⟨h1, h2⟩, h3⟩, _⟩, h5⟩ := h
    subst h1 h2
    simp only [hashKey, h3, h5]
    exact hkEq_refl _
  | .verGlob ver rev, b, ha, hb, h => by
    cases b <;> simp only [eqv, Bool.false_eq_true] at h
    simp only [Bool.and_eq_true, beq_iff_eq] at h
    obtain ⟨h1, h2⟩ := h
    subst h1
    simp only [hashKey, h2]
    exact hkEq_refl _
  | .obj i, b, ha, hb, h => by
    cases b <;> simp only [eqv, Bool.false_eq_true] at h
    simp only [beq_iff_eq] at h
    subst h
    exact hkEq_refl _
  | .pkgRestr k m ats n c, b, ha, hb, h => by
    cases b <;> simp only [eqv, Bool.false_eq_true] at h
    rename_i k' m' ats' n' c'
    simp only [Bool.and_eq_true, beq_iff_eq] at h
    obtain ⟨⟨⟨⟨h1, h2⟩, h3⟩, h4⟩, h5⟩ := h
    subst h2 h4
    simp only [wf] at ha hb
    simp only [hashKey, hkEq, hkEqList, eqv_hash c c' ha hb h5, hkEqList_refl, beq_self_eq_true, Bool.and_self]
  | .conditional ats n c p, b, ha, hb, h => by
    cases b <;> simp only [eqv, Bool.false_eq_true] at h
    rename_i ats' n' c' p'
    simp only [Bool.and_eq_true, beq_iff_eq] at h
    obtain ⟨⟨⟨h1, h2⟩, h3⟩, h4⟩ := h
    subst h1 h2
    simp only [wf, Bool.and_eq_true] at ha hb
    simp only [hashKey, hkEq, hkEqList, eqv_hash c c' ha.1 hb.1 h3, eqvList_hash p p' ha.2 hb.2 h4, hkEqList_refl,
      beq_self_eq_true, Bool.and_self]
  | .bool k t n cs, b, ha, hb, h => by
    cases b <;> simp only [eqv, Bool.false_eq_true] at h
    rename_i k' t' n' cs'
    simp only [Bool.and_eq_true, beq_iff_eq] at h
    obtain ⟨⟨⟨h1, h2⟩, h3⟩, h4⟩ := h
    subst h1 h2 h3
    simp only [wf] at ha hb
    simp only [hashKey, hkEq, hkEqList, eqvList_hash cs cs' ha hb h4, beq_self_eq_true, Bool.and_self]
  | .atom a, b, ha, hb, h => by
    cases b <;> simp only [eqv, Bool.false_eq_true] at h
    rename_i a'
    simp only [beq_iff_eq] at h
    simp only [wf] at ha hb
    simp only [hashKey, atomEq_hashKey a a' (atomWF_of_ok a ha) (atomWF_of_ok a' hb) h]
    exact hkEq_refl _
  | .depset cs, b, ha, hb, h => by
    cases b <;> simp only [eqv, Bool.false_eq_true] at h
    rename_i cs'
    simp only [Bool.and_eq_true, List.all_eq_true] at h
    simp only [wf] at ha hb
    simp only [hashKey, hkEq, Bool.and_eq_true, List.all_eq_true]
    refine ⟨subsetL_hash cs cs' ha hb h.1, ?_⟩
    intro k hk
    rw [hashKeys_eq_map] at hk
    obtain ⟨y, hy, rfl⟩ := List.mem_map.mp hk
    exact existsL_hash cs y ha (wfL_mem cs' hb y hy) (h.2 y hy)
theorem eqvList_hash : ∀ (as bs : List Restr), wfL as = true → wfL bs = true → eqvList as bs = true →
    hkEqList (hashKeys as) (hashKeys bs) = true
  | [], [], _, _, _ => rfl
  | [], _ :: _, _, _, h => by simp [eqvList] at h
  | _ :: _, [], _, _, h => by simp [eqvList] at h
  | a :: as, b :: bs, ha, hb, h => by
    simp only [eqvList, Bool.and_eq_true] at h
    simp only [wfL, Bool.and_eq_true] at ha hb
    simp only [hashKeys, hkEqList, eqv_hash a b ha.1 hb.1 h.1, eqvList_hash as bs ha.2 hb.2 h.2, Bool.and_self]
theorem subsetL_hash : ∀ (as bs : List Restr), wfL as = true → wfL bs = true → subsetL as bs = true →
    hkSub (hashKeys as) (hashKeys bs) = true
  | [], _, _, _, _ => rfl
  | a :: as, bs, ha, hb, h => by
    simp only [subsetL, Bool.and_eq_true, List.any_eq_true] at h
    obtain ⟨⟨y, hy, hay⟩, hrest⟩ := h
    simp only [wfL, Bool.and_eq_true] at ha
    simp only [hashKeys, hkSub, Bool.and_eq_true, List.any_eq_true]
    refine ⟨⟨hashKey y, ?_, eqv_hash a y ha.1 (wfL_mem bs hb y hy) hay⟩, subsetL_hash as bs ha.2 hb hrest⟩
    rw [hashKeys_eq_map]; exact List.mem_map.mpr ⟨y, hy, rfl⟩
theorem existsL_hash : ∀ (as : List Restr) (y : Restr), wfL as = true → wf y = true → existsL as y = true →
    hkEx (hashKeys as) (hashKey y) = true
  | [], _, _, _, h => by simp [existsL] at h
  | a :: as, y, ha, hy, h => by
    simp only [existsL, Bool.or_eq_true] at h
    simp only [wfL, Bool.and_eq_true] at ha
    simp only [hashKeys, hkEx, Bool.or_eq_true]
    rcases h with h | h
    · exact Or.inl (eqv_hash a y ha.1 hy h)
    · exact Or.inr (existsL_hash as y ha.2 hy h)
end

/-! ## dict lookup -/
theorem lookup_some {V : Type} (H : HK → Int) : ∀ (cache : List (Restr × V)) (k : Restr) (v : V),
    lookup H cache k = some v → ∃ k', (k', v) ∈ cache ∧ eqv k' k = true ∧ H (hashKey k') = H (hashKey k)
  | [], _, _, h => by simp [lookup] at h
  | (k', v') :: rest, k, v, h => by
    simp only [lookup] at h
    split at h
    · rename_i hc
      simp only [Bool.and_eq_true, beq_iff_eq] at hc
      simp only [Option.some.injEq] at h
      subst h
      exact ⟨k', by simp, hc.2, hc.1⟩
    · obtain ⟨k'', hm, he, hh⟩ := lookup_some H rest k v h
      exact ⟨k'', by simp [hm], he, hh⟩

theorem lookup_hit {V : Type} (H : HK → Int) : ∀ (cache : List (Restr × V)) (k k' : Restr) (v : V),
    (k', v) ∈ cache → eqv k' k = true → H (hashKey k') = H (hashKey k) → (lookup H cache k).isSome = true
  | [], _, _, _, hm, _, _ => by cases hm
  | (k0, v0) :: rest, k, k', v, hm, he, hh => by
    simp only [lookup]
    split
    · rfl
    · rcases List.mem_cons.mp hm with h | h
      · rename_i hc
        simp only [Prod.mk.injEq] at h
        obtain ⟨rfl, rfl⟩ := h
        simp [he, hh] at hc
      · exact lookup_hit H rest k k' v h he hh

/-! ## instance caches: a rebuilt description matches like the description -/

theorem pick_spec {σ : Type} (step : σ → Restr → Option Restr × σ) (hstep : HitsEqual step) (env : Env) (s : σ)
    (fresh d : Restr) (hw : wf fresh = true) (hm : ∀ x, mtch env fresh x = mtch env d x) :
    wf (pick step s fresh).1 = true ∧ ∀ x, mtch env (pick step s fresh).1 x = mtch env d x := by
  simp only [pick]
  cases hh : (step s fresh).1 with
  | none => exact ⟨hw, hm⟩
  | some v =>
    obtain ⟨hv, he⟩ := hstep s fresh v hh
    exact ⟨hv, fun x => (eqv_match env v fresh hv hw he x).trans (hm x)⟩

mutual
theorem cachedBuild_spec {σ : Type} (step : σ → Restr → Option Restr × σ) (hstep : HitsEqual step) (env : Env) :
    ∀ (d : Restr) (s : σ), wf d = true →
      wf (cachedBuild step s d).1 = true ∧ ∀ x, mtch env (cachedBuild step s d).1 x = mtch env d x
  | .flatten d c n, s, h => by
    simp only [wf] at h
    have ih := cachedBuild_spec step hstep env c s h
    simp only [cachedBuild]
    exact pick_spec step hstep env _ _ _ (by simpa only [wf] using ih.1) (fun x => by simp only [mtch, ih.2])
  | .strConv c, s, h => by
    simp only [wf] at h
    have ih := cachedBuild_spec step hstep env c s h
    simp only [cachedBuild]
    exact ⟨by simpa only [wf] using ih.1, fun x => by simp only [mtch, ih.2]⟩
  | .pkgRestr k m ats n c, s, h => by
    simp only [wf] at h
    have ih := cachedBuild_spec step hstep env c s h
    simp only [cachedBuild]
    exact pick_spec step hstep env _ _ _ (by simpa only [wf] using ih.1) (fun x => by simp only [mtch, ih.2])
  | .conditional ats n c p, s, h => by
    simp only [wf, Bool.and_eq_true] at h
    have ih := cachedBuild_spec step hstep env c s h.1
    have ihp := cachedBuildL_spec step hstep env p (cachedBuild step s c).2 h.2
    simp only [cachedBuild]
    exact pick_spec step hstep env _ _ _ (by simp only [wf, ih.1, ihp.1, Bool.and_self])
      (fun x => by simp only [mtch, ih.2])
  | .bool k t n cs, s, h => by
    simp only [wf] at h
    have ih := cachedBuildL_spec step hstep env cs s h
    simp only [cachedBuild]
    exact pick_spec step hstep env _ _ _ (by simpa only [wf] using ih.1)
      (fun x => by simp only [mtch, (ih.2 x).1, (ih.2 x).2.1, (ih.2 x).2.2.1, (ih.2 x).2.2.2])
  | .depset cs, s, h => by
    simp only [wf] at h
    have ih := cachedBuildL_spec step hstep env cs s h
    simp only [cachedBuild]
    exact ⟨by simpa only [wf] using ih.1, fun x => by simp only [mtch, (ih.2 x).1]⟩
  | .strExact e c n hh, s, h => by
    simp only [cachedBuild]; exact pick_spec step hstep env _ _ _ h (fun _ => rfl)
  | .strGlob g p n i hh, s, h => by
    simp only [cachedBuild]; exact pick_spec step hstep env _ _ _ h (fun _ => rfl)
  | .strRegex r n i m hh, s, h => by
    simp only [cachedBuild]; exact pick_spec step hstep env _ _ _ h (fun _ => rfl)
  | .contain v a n, s, h => by
    simp only [cachedBuild]; exact pick_spec step hstep env _ _ _ h (fun _ => rfl)
  | .useDefault m v n, s, h => by
    simp only [cachedBuild]; exact ⟨h, fun _ => trivial⟩
  | .func f n, s, h => by
    simp only [cachedBuild]; exact pick_spec step hstep env _ _ _ h (fun _ => rfl)
  | .version vals d n ver rev, s, h => by
    simp only [cachedBuild]; exact pick_spec step hstep env _ _ _ h (fun _ => rfl)
  | .verGlob ver rev, s, h => by
    simp only [cachedBuild]; exact pick_spec step hstep env _ _ _ h (fun _ => rfl)
  | .obj i, s, h => by
    simp only [cachedBuild]; exact pick_spec step hstep env _ _ _ h (fun _ => rfl)
  | .atom a, s, h => by
    simp only [cachedBuild]; exact pick_spec step hstep env _ _ _ h (fun _ => rfl)
theorem cachedBuildL_spec {σ : Type} (step : σ → Restr → Option Restr × σ) (hstep : HitsEqual step) (env : Env) :
    ∀ (cs : List Restr) (s : σ), wfL cs = true →
      wfL (cachedBuildL step s cs).1 = true ∧
      ∀ x, allM env (cachedBuildL step s cs).1 x = allM env cs x ∧ anyM env (cachedBuildL step s cs).1 x = anyM env cs x ∧
        countM env (cachedBuildL step s cs).1 x = countM env cs x ∧ (cachedBuildL step s cs).1.isEmpty = cs.isEmpty
  | [], s, _ => by simp [cachedBuildL, wfL]
  | c :: cs, s, h => by
    simp only [wfL, Bool.and_eq_true] at h
    have ih := cachedBuild_spec step hstep env c s h.1
    have ihl := cachedBuildL_spec step hstep env cs (cachedBuild step s c).2 h.2
    simp only [cachedBuildL, wfL, ih.1, ihl.1, Bool.and_self, true_and]
    intro x
    simp only [allM, anyM, countM, ih.2, (ihl.2 x).1, (ihl.2 x).2.1, (ihl.2 x).2.2.1, List.isEmpty_cons, and_self]
end

/-- the dict lookup among the alive instances hands out only equal ones -/
theorem aliveStep_hitsEqual (H : HK → Int) : HitsEqual (aliveStep H) := by
  intro alive k v h
  simp only [aliveStep] at h
  split at h
  · rename_i v' hl
    simp only [Option.some.injEq] at h
    subst h
    obtain ⟨k', hm, he, _⟩ := lookup_some H _ k v' hl
    obtain ⟨r, hr, hrk⟩ := List.mem_map.mp hm
    simp only [Prod.mk.injEq] at hrk
    obtain ⟨h1, h2⟩ := hrk
    subst h1
    subst h2
    exact ⟨alive.property _ hr, he⟩
  · cases h

/-! ## atoms: C04's `atom.match` reads an atom only through its canonical form -/

/-- the version restriction of an atom depends on the written version and revision only through their PMS value -/
theorem versionRestr_key_congr (op : Pkgcore.C02.Op) (v v' : Ver) (r r' : Str) (neg : Bool) (p : Pkgcore.C04.Pkg)
    (hv : Pkgcore.C01.Spec.WF v) (hv' : Pkgcore.C01.Spec.WF v') (hp : Pkgcore.C01.Spec.WF p.ver)
    (hk : Pkgcore.C01.key v (some r) = Pkgcore.C01.key v' (some r')) :
    Pkgcore.C04.versionRestr op v r neg p = Pkgcore.C04.versionRestr op v' r' neg p := by
  have hk0 : Pkgcore.C01.key v none = Pkgcore.C01.key v' none := by
    simp only [Pkgcore.C01.key, Prod.mk.injEq] at hk ⊢
    exact ⟨hk.1, hk.2.1, hk.2.2.1, hk.2.2.2.1, trivial⟩
  by_cases hg : op = .glob
  · subst hg
    simp only [Pkgcore.C04.versionRestr, Pkgcore.C04.verGlobMatch]
    rw [(Pkgcore.C02.verHashKey_eq_iff v v' r r' hv hv').mpr hk]
  · rw [Pkgcore.C04.versionRestr_eq op v r neg p hv hp, Pkgcore.C04.versionRestr_eq op v' r' neg p hv' hp]
    simp only [hg, if_false]
    have c1 : Pkgcore.C01.Spec.pmsCmp p.ver (some p.rev) v (some r) = Pkgcore.C01.Spec.pmsCmp p.ver (some p.rev) v' (some r') := by
      rw [Pkgcore.C01.pmsCmp_eq_key _ _ _ _ hp hv, Pkgcore.C01.pmsCmp_eq_key _ _ _ _ hp hv', hk]
    have c0 : Pkgcore.C01.Spec.pmsCmp p.ver none v none = Pkgcore.C01.Spec.pmsCmp p.ver none v' none := by
      rw [Pkgcore.C01.pmsCmp_eq_key _ _ _ _ hp hv, Pkgcore.C01.pmsCmp_eq_key _ _ _ _ hp hv', hk0]
    cases op <;> simp only [Pkgcore.C04.Spec.opSpec, c1, c0] <;> exact absurd rfl hg

/-- the optional version restriction, from the operator text and the canonical version of the two atoms -/
theorem vopRestr_of_canon (vop vop' : Option (Pkgcore.C02.Op × Ver × Str)) (neg : Bool) (p : Pkgcore.C04.Pkg)
    (ho : (match vop with | none => ([] : Str) | some (o, _, _) => o.str) = (match vop' with | none => [] | some (o, _, _) => o.str))
    (hk : Pkgcore.C02.Spec.verCanon (vop.map (·.2)) = Pkgcore.C02.Spec.verCanon (vop'.map (·.2)))
    (hw : Pkgcore.C04.Spec.vopWF vop) (hw' : Pkgcore.C04.Spec.vopWF vop') (hp : Pkgcore.C01.Spec.WF p.ver) :
    (match vop with | some (op, v, r) => [Pkgcore.C04.versionRestr op v r neg] | none => []).all (fun f => f p) =
    (match vop' with | some (op, v, r) => [Pkgcore.C04.versionRestr op v r neg] | none => []).all (fun f => f p) := by
  cases vop with
  | none =>
    cases vop' with
    | none => rfl
    | some q => obtain ⟨o, v, r⟩ := q; cases o <;> simp [Pkgcore.C02.Op.str] at ho
  | some q =>
    obtain ⟨o, v, r⟩ := q
    cases vop' with
    | none => cases o <;> simp [Pkgcore.C02.Op.str] at ho
    | some q' =>
      obtain ⟨o', v', r'⟩ := q'
      have heq : o = o' := Pkgcore.C02.opStr_inj o o' ho
      subst heq
      simp only [Option.map_some, Pkgcore.C02.Spec.verCanon, Option.some.injEq] at hk
      simp only [List.all_cons, List.all_nil, Bool.and_true]
      exact versionRestr_key_congr o v v' r r' neg p hw hw' hp hk

theorem orEmpty_inj (s t : Option Str) (hs : (s != some []) = true) (ht : (t != some []) = true)
    (h : Pkgcore.C02.orEmpty s = Pkgcore.C02.orEmpty t) : s = t := by
  cases s <;> cases t <;> simp_all [Pkgcore.C02.orEmpty]

theorem perm_of_sortUse (x y : List Str) (h : Pkgcore.C02.sortUse x = Pkgcore.C02.sortUse y) : x.Perm y := by
  unfold Pkgcore.C02.sortUse at h
  exact (List.mergeSort_perm x _).symm.trans (h ▸ List.mergeSort_perm y _)

/-- the USE restrictions, from the sorted USE deps of the two atoms -/
theorem useRestr_of_canon (u u' : Option (List Str)) (p : Pkgcore.C04.Pkg)
    (h : u.map Pkgcore.C02.sortUse = u'.map Pkgcore.C02.sortUse) :
    (match u.map (fun (x : List Str) => x.map Pkgcore.C03.lexUseDep) with | some deps => [Pkgcore.C04.useRestrs deps] | none => []).all (fun f => f p) =
    (match u'.map (fun (x : List Str) => x.map Pkgcore.C03.lexUseDep) with | some deps => [Pkgcore.C04.useRestrs deps] | none => []).all (fun f => f p) := by
  cases u with
  | none => cases u' with
    | none => rfl
    | some y => simp at h
  | some x => cases u' with
    | none => simp at h
    | some y =>
      simp only [Option.map_some, Option.some.injEq] at h
      simp only [Option.map_some, List.all_cons, List.all_nil, Bool.and_true, Pkgcore.C04.useRestrs_eq]
      exact ((perm_of_sortUse x y h).map _).all_eq

/-- **C04's `atom.match` depends on an atom only through C02's canonical form** -/
theorem atomMatch_of_canon (a b : Pkgcore.C02.Atom) (ha : atomOkB a = true) (hb : atomOkB b = true)
    (hsa : slotPartsOkB a = true) (hsb : slotPartsOkB b = true)
    (h : Pkgcore.C02.Spec.atomCanon a = Pkgcore.C02.Spec.atomCanon b) (p : Pkgcore.C04.Pkg)
    (hp : Pkgcore.C04.Spec.Pkg.WF p) :
    Pkgcore.C04.atomMatch (Pkgcore.C03.toC04 a) p = Pkgcore.C04.atomMatch (Pkgcore.C03.toC04 b) p := by
  have hwa : Pkgcore.C04.Spec.vopWF a.vop := by
    have := atomWF_of_ok a ha
    simp only [Pkgcore.C02.Spec.Atom.WF, Pkgcore.C02.Atom.vr] at this
    cases hv : a.vop with
    | none => trivial
    | some q => obtain ⟨o, v, r⟩ := q; rw [hv] at this; exact this
  have hwb : Pkgcore.C04.Spec.vopWF b.vop := by
    have := atomWF_of_ok b hb
    simp only [Pkgcore.C02.Spec.Atom.WF, Pkgcore.C02.Atom.vr] at this
    cases hv : b.vop with
    | none => trivial
    | some q => obtain ⟨o, v, r⟩ := q; rw [hv] at this; exact this
  obtain ⟨cat, pkg, vop, blocks, strong, negate, slot, subslot, slotOp, use, repo⟩ := a
  obtain ⟨cat', pkg', vop', blocks', strong', negate', slot', subslot', slotOp', use', repo'⟩ := b
  simp only [Pkgcore.C02.Spec.atomCanon, Prod.mk.injEq, Pkgcore.C02.Atom.opStr, Pkgcore.C02.Atom.vr,
    Pkgcore.C02.Atom.useAttr] at h
  obtain ⟨h1, h2, h3, h4, _, _, h7, h8, h9, _, h11, h12⟩ := h
  simp only [slotPartsOkB, Bool.and_eq_true] at hsa hsb
  have hs : slot = slot' := orEmpty_inj slot slot' hsa.1 hsb.1 h8
  have hss : subslot = subslot' := orEmpty_inj subslot subslot' hsa.2 hsb.2 h9
  subst h1 h2 h7 hs hss h12
  have hvr := vopRestr_of_canon vop vop' negate p h3 h4 hwa hwb hp
  have hur := useRestr_of_canon use use' p h11
  simp only [Pkgcore.C04.atomMatch, Pkgcore.C04.restrictions, Pkgcore.C03.toC04, List.all_append]
  have e1 : ∀ (x1 x2 c c' d e e' : Bool), c = c' → e = e' →
      ((((x1 && x2) && c) && d) && e) = ((((x1 && x2) && c') && d) && e') := by
    intro x1 x2 c c' d e e' k1 k2; rw [k1, k2]
  exact e1 _ _ _ _ _ _ _ hvr hur

end Pkgcore.C07
