import Pkgcore.Proofs.C03Slot
import Pkgcore.Proofs.C02
import Pkgcore.Proofs.C04
/-!
# C03 — assembling the phases: `parseWith` accepts exactly the renderings of well-formed records
-/
namespace Pkgcore.C03
open Pkgcore.C01 Pkgcore.C01.Spec Pkgcore.C02 Pkgcore.C03.Spec

/-! ## `parseWith` as a chain of stages -/

def useStage (o : Opts) (useBody : Option Str) : Except Err (Option (List Str)) :=
  match useBody with
  | none => .ok none
  | some body => match parseUse o body with
    | .ok u => .ok (some u)
    | .error e => .error e

def slotStage (o : Opts) (hasUse : Bool) (t : Str) : Except Err (Str × SlotInfo) :=
  match findSlot hasUse t with
  | none => .ok (t, ⟨none, none, none, none⟩)
  | some (h, rest) => match parseSlotPart o rest with
    | .ok si => .ok (h, si)
    | .error e => .error e

def vopStage (op : Option Op) (vr : Option (Ver × Str)) : Except Err (Option (Op × Ver × Str)) :=
  match op, vr with
  | some op, some (v, r) => if op = .tilde ∧ !r.isEmpty then .error .tildeRev else .ok (some (op, v, r))
  | none, none => .ok none
  | some _, none => .error .cpvNoVersion
  | none, some _ => .error .cpvVersion

def mkAtom (cat pkg : Str) (vop : Option (Op × Ver × Str)) (blocks strong : Bool) (si : SlotInfo)
    (use : Option (List Str)) : Atom :=
  { cat := cat, pkg := pkg, vop := vop, blocks := blocks, strong := strong, negate := false,
    slot := si.slot, subslot := si.subslot, slotOp := si.slotOp, use := use, repo := si.repo }

theorem parseWith_eq (o : Opts) (rOk : Bool) (s : Str) :
    parseWith o rOk s =
      if s.isEmpty then .error .empty else
      match splitUse s with
      | .error e => .error e
      | .ok (t, useBody) =>
        match useStage o useBody with
        | .error e => .error e
        | .ok use =>
          match slotStage o useBody.isSome t with
          | .error e => .error e
          | .ok (t, si) =>
            match parseBlocks o t with
            | .error e => .error e
            | .ok (blocks, strong, t) =>
              match parseOp t with
              | .error e => .error e
              | .ok (op, cpvstr) =>
                if si.slot.isSome && !o.hasSlotDeps then .error .slotEapi
                else if use.isSome && !o.hasUseDeps then .error .useEapi
                else if !rOk && si.repo.isSome then .error .repoEapi
                else
                  match parseCpv op.isSome cpvstr with
                  | .error e => .error e
                  | .ok (cat, pkg, vr) =>
                    match vopStage op vr with
                    | .error e => .error e
                    | .ok vop => .ok (mkAtom cat pkg vop blocks strong si use) := by
  rfl


theorem parseWith_of_stages {o : Opts} {rOk : Bool} {s t t' t'' cpvstr cat pkg : Str} {useBody : Option Str}
    {use : Option (List Str)} {si : SlotInfo} {b st : Bool} {op : Option Op} {vr : Option (Ver × Str)}
    {vop : Option (Op × Ver × Str)}
    (h0 : s.isEmpty = false) (h1 : splitUse s = .ok (t, useBody)) (h2 : useStage o useBody = .ok use)
    (h3 : slotStage o useBody.isSome t = .ok (t', si)) (h4 : parseBlocks o t' = .ok (b, st, t''))
    (h5 : parseOp t'' = .ok (op, cpvstr))
    (h6 : si.slot.isSome = true → o.hasSlotDeps = true) (h7 : use.isSome = true → o.hasUseDeps = true)
    (h8 : si.repo.isSome = true → rOk = true)
    (h9 : parseCpv op.isSome cpvstr = .ok (cat, pkg, vr)) (h10 : vopStage op vr = .ok vop) :
    parseWith o rOk s = .ok (mkAtom cat pkg vop b st si use) := by
  have g6 : (si.slot.isSome && !o.hasSlotDeps) = false := by
    cases hs : si.slot.isSome <;> simp_all
  have g7 : (use.isSome && !o.hasUseDeps) = false := by
    cases hs : use.isSome <;> simp_all
  have g8 : (!rOk && si.repo.isSome) = false := by
    cases hs : si.repo.isSome <;> simp_all
  rw [parseWith_eq]
  simp only [h0, Bool.false_eq_true, if_false, h1, h2, h3, h4, h5, g6, g7, g8, h9, h10]

theorem stages_of_parseWith {o : Opts} {rOk : Bool} {s : Str} {a : Atom} (h : parseWith o rOk s = .ok a) :
    ∃ t t' t'' cpvstr cat pkg useBody use si b st op vr vop,
      s.isEmpty = false ∧ splitUse s = .ok (t, useBody) ∧ useStage o useBody = .ok use ∧
      slotStage o useBody.isSome t = .ok (t', si) ∧ parseBlocks o t' = .ok (b, st, t'') ∧
      parseOp t'' = .ok (op, cpvstr) ∧
      (si.slot.isSome = true → o.hasSlotDeps = true) ∧ (use.isSome = true → o.hasUseDeps = true) ∧
      (si.repo.isSome = true → rOk = true) ∧
      parseCpv op.isSome cpvstr = .ok (cat, pkg, vr) ∧ vopStage op vr = .ok vop ∧
      a = mkAtom cat pkg vop b st si use := by
  rw [parseWith_eq] at h
  cases h0 : s.isEmpty with
  | true => simp [h0] at h
  | false =>
    simp only [h0, Bool.false_eq_true, if_false] at h
    cases h1 : splitUse s with
    | error e => simp [h1] at h
    | ok p1 =>
      obtain ⟨t, useBody⟩ := p1
      simp only [h1] at h
      cases h2 : useStage o useBody with
      | error e => simp [h2] at h
      | ok use =>
        simp only [h2] at h
        cases h3 : slotStage o useBody.isSome t with
        | error e => simp [h3] at h
        | ok p3 =>
          obtain ⟨t', si⟩ := p3
          simp only [h3] at h
          cases h4 : parseBlocks o t' with
          | error e => simp [h4] at h
          | ok p4 =>
            obtain ⟨b, st, t''⟩ := p4
            simp only [h4] at h
            cases h5 : parseOp t'' with
            | error e => simp [h5] at h
            | ok p5 =>
              obtain ⟨op, cpvstr⟩ := p5
              simp only [h5] at h
              by_cases g6 : (si.slot.isSome && !o.hasSlotDeps) = true
              · simp [g6] at h
              · by_cases g7 : (use.isSome && !o.hasUseDeps) = true
                · simp [g6, g7] at h
                · by_cases g8 : (!rOk && si.repo.isSome) = true
                  · simp [g6, g7, g8] at h
                  · simp only [g6, g7, g8, Bool.false_eq_true, if_false] at h
                    cases h9 : parseCpv op.isSome cpvstr with
                    | error e => simp [h9] at h
                    | ok p9 =>
                      obtain ⟨cat, pkg, vr⟩ := p9
                      simp only [h9] at h
                      cases h10 : vopStage op vr with
                      | error e => simp [h10] at h
                      | ok vop =>
                        simp only [h10, Except.ok.injEq] at h
                        refine ⟨t, t', t'', cpvstr, cat, pkg, useBody, use, si, b, st, op, vr, vop, rfl, rfl, h2,
                          h3, h4, h5, ?_, ?_, ?_, h9, h10, h.symm⟩
                        · intro hs; cases ho : o.hasSlotDeps <;> simp_all
                        · intro hs; cases ho : o.hasUseDeps <;> simp_all
                        · intro hs; cases ho : rOk <;> simp_all

/-! ## blockers and operators -/

def blockText (b st : Bool) (s : Str) : Str := if b then (if st then '!' :: '!' :: s else '!' :: s) else s

def opWrap (op : Option Op) (c : Str) : Str :=
  match op with
  | some .glob => '=' :: c ++ ['*']
  | some o => o.str ++ c
  | none => c

theorem parseBlocks_complete {o : Opts} {b st : Bool} {x : Char} {t : Str} (hx : x ≠ '!')
    (hst : st = true → b = true ∧ o.strongBlockers = true) :
    parseBlocks o (blockText b st (x :: t)) = .ok (b, st, x :: t) := by
  cases b <;> cases st
  · simp [blockText, parseBlocks, hx]
  · exact absurd (hst rfl).1 (by simp)
  · simp [blockText, parseBlocks, hx]
  · simp [blockText, parseBlocks, (hst rfl).2]

theorem parseBlocks_sound {o : Opts} {t t' : Str} {b st : Bool} (h : parseBlocks o t = .ok (b, st, t')) :
    t = blockText b st t' ∧ (st = true → b = true ∧ o.strongBlockers = true) := by
  unfold parseBlocks at h
  split at h
  · cases h
  · split at h
    · cases h
    · rename_i hs
      simp only [Except.ok.injEq, Prod.mk.injEq] at h
      obtain ⟨rfl, rfl, rfl⟩ := h
      refine ⟨by simp [blockText], fun _ => ⟨rfl, ?_⟩⟩
      cases ho : o.strongBlockers <;> simp_all
  · simp only [Except.ok.injEq, Prod.mk.injEq] at h
    obtain ⟨rfl, rfl, rfl⟩ := h
    exact ⟨by simp [blockText], fun h => by cases h⟩
  · simp only [Except.ok.injEq, Prod.mk.injEq] at h
    obtain ⟨rfl, rfl, rfl⟩ := h
    exact ⟨by simp [blockText], fun h => by cases h⟩

theorem parseOp_eq (r : Str) :
    parseOp ('=' :: r) = if ('=' :: r).getLast? = some '*' then .ok (some .glob, r.dropLast) else .ok (some .eq, r) := by
  rfl

theorem parseOp_complete {op : Option Op} {x : Char} {t : Str} (h1 : x ≠ '<') (h2 : x ≠ '>') (h3 : x ≠ '=')
    (h4 : x ≠ '~') (hl : (x :: t).getLast? ≠ some '*') : parseOp (opWrap op (x :: t)) = .ok (op, x :: t) := by
  cases op with
  | none => simp [opWrap, parseOp, h1, h2, h3, h4]
  | some o =>
    cases o
    · simp [opWrap, Op.str, parseOp, h3]
    · simp [opWrap, Op.str, parseOp]
    · have : ('=' :: x :: t).getLast? ≠ some '*' := by rw [List.getLast?_cons_cons]; exact hl
      show parseOp ('=' :: x :: t) = _
      rw [parseOp_eq, if_neg this]
    · have : ('=' :: ((x :: t) ++ ['*'])).getLast? = some '*' := by
        rw [show '=' :: ((x :: t) ++ ['*']) = ('=' :: x :: t) ++ ['*'] from rfl, List.getLast?_concat]
      show parseOp ('=' :: ((x :: t) ++ ['*'])) = _
      rw [parseOp_eq, if_pos this, List.dropLast_concat]
    · simp [opWrap, Op.str, parseOp]
    · simp [opWrap, Op.str, parseOp, h3]
    · simp [opWrap, Op.str, parseOp]

theorem parseOp_sound {t c : Str} {op : Option Op} (h : parseOp t = .ok (op, c)) : t = opWrap op c := by
  unfold parseOp at h
  split at h
  · cases h
  all_goals try (simp only [Except.ok.injEq, Prod.mk.injEq] at h; obtain ⟨rfl, rfl⟩ := h; simp [opWrap, Op.str])
  · rename_i r
    split at h
    · rename_i hl
      simp only [Except.ok.injEq, Prod.mk.injEq] at h
      obtain ⟨rfl, rfl⟩ := h
      cases r with
      | nil => simp at hl
      | cons y ys =>
        rw [List.getLast?_cons_cons] at hl
        simp only [opWrap, List.cons.injEq, true_and]
        exact eq_dropLast_append_of_getLast? hl
    · simp only [Except.ok.injEq, Prod.mk.injEq] at h
      obtain ⟨rfl, rfl⟩ := h
      simp [opWrap, Op.str]


/-! ## the rendering, piece by piece -/

theorem render_eq (a : Atom) :
    render a = blockText a.blocks a.strong (opWrap (a.vop.map (·.1)) (cpvText a)) ++ renderSlot a ++
      (match truthy a.repo with | some r => ':' :: ':' :: r | none => []) ++ renderUse a := by
  unfold render blockText opWrap
  cases hv : a.vop with
  | none => rfl
  | some q =>
    obtain ⟨op, v, r⟩ := q
    cases op <;> rfl

theorem truthy_of_ne {s : Str} (h : s ≠ []) : truthy (some s) = some s := by
  cases s with
  | nil => exact absurd rfl h
  | cons c cs => rfl

theorem slotNameOk_ne {d : Dialect} {s : Str} (h : slotNameOk d s = true) : s ≠ [] := by
  obtain ⟨c, cs, rfl, _⟩ := slotNameOk_chars h
  simp

theorem renderSlot_eq {d : Dialect} {o : Opts} (a : Atom) (h : slotOk' d o a.slot a.subslot a.slotOp) :
    renderSlot a = slotPartTxt a.slot a.subslot a.slotOp := by
  unfold renderSlot slotPartTxt
  cases hsl : a.slot with
  | none =>
    rw [hsl] at h
    obtain ⟨hss, hop⟩ := h
    rw [hss]
    rcases hop with hop | ⟨_, hop | hop⟩ <;> rw [hop] <;> simp [truthy, slotTxtOf]
  | some s =>
    rw [hsl] at h
    obtain ⟨_, hs, hss, _⟩ := h
    have hne := slotNameOk_ne hs
    rw [truthy_of_ne hne]
    have hne2 : slotTxtOf (some s) a.subslot a.slotOp ≠ [] := by
      obtain ⟨c, cs, rfl, _⟩ := slotNameOk_chars hs
      simp [slotTxtOf]
    simp only [hne2, if_false]
    cases hsub : a.subslot with
    | none => simp [truthy, slotTxtOf]
    | some x =>
      rw [hsub] at hss
      rw [truthy_of_ne (slotNameOk_ne hss.2)]
      simp [slotTxtOf]

theorem repoNameOk_ne {r : Str} (h : repoNameOk r = true) : r ≠ [] := by
  intro e; subst e; simp [repoNameOk] at h

theorem repoTxt_eq (repo : Option Str) (h : ∀ r, repo = some r → repoNameOk r = true) :
    (match truthy repo with | some r => ':' :: ':' :: r | none => []) = repoTxtOf repo := by
  cases repo with
  | none => rfl
  | some r => rw [truthy_of_ne (repoNameOk_ne (h r rfl))]; rfl

/-! ## characters of the pieces -/

/-- characters that can occur left of the slot part -/
def coreChar (x : Char) : Bool :=
  x.isAlphanum || ['+', '_', '.', '-', '/', '!', '<', '>', '=', '~', '*'].contains x

theorem nameChars_sub {extra : List Char} {s : Str} (h : nameChars extra s = true) {p : Char → Bool}
    (hp : ∀ x, x.isAlphanum = true ∨ extra.contains x = true → p x = true) : ∀ x ∈ s, p x = true := by
  intro x hx
  simp only [nameChars, List.all_eq_true, Bool.or_eq_true] at h
  exact hp x (h x hx)

theorem coreChar_of_alnum {x : Char} (h : x.isAlphanum = true) : coreChar x = true := by
  simp [coreChar, h]

theorem cpvText_chars {a : Atom} (hc : catOk a.cat = true) (hp : pkgOk lenient a.pkg) (hv : vopOk lenient a.vop) :
    ∀ x ∈ cpvText a, x.isAlphanum = true ∨ ['+', '_', '.', '-', '/'].contains x = true := by
  intro x hx
  unfold cpvText at hx
  simp only [List.mem_append, List.mem_cons] at hx
  have hcat : nameChars ['+', '_', '.', '-'] a.cat = true := by
    simp only [catOk, Bool.and_eq_true] at hc; exact hc.1.2
  have hpkg : nameChars ['+', '_', '-'] a.pkg = true := by
    have := hp.1; simp only [Bool.and_eq_true] at this; exact this.1.2
  rcases hx with (hx | hx | hx) | hx
  · have := nameChars_sub hcat (p := fun x => x.isAlphanum || ['+', '_', '.', '-', '/'].contains x) (by
      intro y hy; rcases hy with hy | hy
      · simp [hy]
      · simp only [List.contains_cons, List.contains_nil, Bool.or_false, Bool.or_eq_true, beq_iff_eq] at hy ⊢
        rcases hy with hy | hy | hy | hy <;> simp [hy]) x hx
    simpa using this
  · right; subst hx; decide
  · have := nameChars_sub hpkg (p := fun x => x.isAlphanum || ['+', '_', '.', '-', '/'].contains x) (by
      intro y hy; rcases hy with hy | hy
      · simp [hy]
      · simp only [List.contains_cons, List.contains_nil, Bool.or_false, Bool.or_eq_true, beq_iff_eq] at hy ⊢
        rcases hy with hy | hy | hy <;> simp [hy]) x hx
    simpa using this
  · cases hvop : a.vop with
    | none => simp [hvop] at hx
    | some q =>
      obtain ⟨op, v, r⟩ := q
      rw [hvop] at hv
      obtain ⟨hv1, hv2, _⟩ := hv
      have hw : WFfull v := (verOk_lenient_iff v).mp hv1
      simp only [hvop, List.mem_cons, List.mem_append] at hx
      rcases hx with (hx | hx) | hx
      · right; subst hx; decide
      · rcases render_chars hw x hx with h' | h' | h'
        · exact Or.inl h'
        · right; subst h'; decide
        · right; subst h'; decide
      · split at hx
        · simp at hx
        · simp only [List.mem_cons] at hx
          rcases hx with hx | hx | hx
          · right; subst hx; decide
          · left; subst hx; decide
          · left
            simp only [digitsOk, List.all_eq_true] at hv2
            exact alnum_of_digit (hv2 x hx)

theorem cpvText_head {a : Atom} (hc : catOk a.cat = true) :
    ∃ x t, cpvText a = x :: t ∧ (x.isAlphanum = true ∨ x = '_') := by
  cases hcat : a.cat with
  | nil => simp [catOk, hcat] at hc
  | cons x xs =>
    refine ⟨x, _, by simp [cpvText, hcat]; rfl, ?_⟩
    simp only [catOk, hcat, Bool.and_eq_true, Bool.not_eq_true', startsWithAny, nameChars, List.all_cons,
      Bool.or_eq_true, List.contains_cons, List.contains_nil, Bool.or_false, beq_iff_eq,
      Bool.or_eq_false_iff, beq_eq_false_iff_ne] at hc
    rcases hc.1.2.1 with h | h | h | h | h
    · exact Or.inl h
    · exact absurd h hc.2.2.2
    · exact Or.inr h
    · exact absurd h hc.2.2.1
    · exact absurd h hc.2.1


/-! ## USE part of the rendering -/

def useTokChar (x : Char) : Bool := x.isAlphanum || ['+', '_', '@', '-', '!', '=', '?', '(', ')'].contains x

theorem useTok_chars {o : Opts} {t : Str} (h : useTokOk o t) : ∀ x ∈ t, useTokChar x = true := by
  obtain ⟨pre, flag, dfl, suf, hf, hd, hflag, rfl⟩ := h
  obtain ⟨_, _, _, _, hall⟩ := useFlagOk_shape hflag
  intro x hx
  simp only [List.mem_append] at hx
  rcases hx with ((hx | hx) | hx) | hx
  · simp only [useForms, List.mem_cons, Prod.mk.injEq, List.not_mem_nil, or_false] at hf
    rcases hf with ⟨rfl, _⟩ | ⟨rfl, _⟩ | ⟨rfl, _⟩ | ⟨rfl, _⟩ | ⟨rfl, _⟩ | ⟨rfl, _⟩ <;> simp at hx <;> subst hx <;> decide
  · have := hall x hx
    simp only [useFlagChar, Bool.or_eq_true, beq_iff_eq] at this
    simp only [useTokChar, Bool.or_eq_true, List.contains_cons, List.contains_nil, Bool.or_false, beq_iff_eq]
    rcases this with (((h | h) | h) | h) | h <;> simp [h]
  · unfold useDefaults at hd
    split at hd
    · simp only [List.mem_cons, List.not_mem_nil, or_false] at hd
      rcases hd with rfl | rfl | rfl <;> simp at hx <;> rcases hx with rfl | rfl | rfl <;> decide
    · simp only [List.mem_cons, List.not_mem_nil, or_false] at hd
      subst hd; simp at hx
  · simp only [useForms, List.mem_cons, Prod.mk.injEq, List.not_mem_nil, or_false] at hf
    rcases hf with ⟨_, rfl⟩ | ⟨_, rfl⟩ | ⟨_, rfl⟩ | ⟨_, rfl⟩ | ⟨_, rfl⟩ | ⟨_, rfl⟩ <;> simp at hx <;> subst hx <;> decide

theorem not_mem_useTok {o : Opts} {t : Str} (h : useTokOk o t) {x : Char} (hx : useTokChar x = false) : x ∉ t := by
  intro hm
  rw [useTok_chars h x hm] at hx
  cases hx

theorem not_mem_joinSep {sep x : Char} {parts : List Str} (hs : x ≠ sep) (h : ∀ p ∈ parts, x ∉ p) :
    x ∉ joinSep sep parts := by
  intro hm
  rcases mem_joinSep sep x parts hm with e | ⟨p, hp, hxp⟩
  · exact hs e
  · exact h p hp hxp

/-- `find("[")`, the `]` checks, `split(",")`, `sorted` and the validation loop on a rendered USE part -/
theorem use_stage_complete {o : Opts} {a : Atom} {pre : Str} (hpre : '[' ∉ pre)
    (hu : match a.use with | none => True | some u => u ≠ [] ∧ ∀ t ∈ u, useTokOk o t) :
    ∃ useBody, splitUse (pre ++ renderUse a) = .ok (pre, useBody) ∧ useBody.isSome = a.use.isSome ∧
      useStage o useBody = .ok (a.use.map sortUse) := by
  unfold renderUse
  cases hua : a.use with
  | none =>
    refine ⟨none, ?_, rfl, rfl⟩
    simp only [List.append_nil]
    unfold splitUse
    rw [breakOn_of_not_mem hpre]
  | some u =>
    rw [hua] at hu
    obtain ⟨hne, htok⟩ := hu
    cases u with
    | nil => exact absurd rfl hne
    | cons t ts =>
      refine ⟨some (joinSep ',' (t :: ts)), ?_, rfl, ?_⟩
      · have hclose : ']' ∉ joinSep ',' (t :: ts) :=
          not_mem_joinSep (by decide) (fun p hp => not_mem_useTok (htok p hp) (by decide))
        unfold splitUse
        rw [show pre ++ ('[' :: joinSep ',' (t :: ts) ++ [']']) = pre ++ '[' :: (joinSep ',' (t :: ts) ++ [']']) from rfl,
          breakOn_append _ hpre]
        simp only
        rw [show joinSep ',' (t :: ts) ++ [']'] = joinSep ',' (t :: ts) ++ ']' :: [] from rfl, breakOn_append [] hclose]
        simp
      · have hsplit : splitOn ',' (joinSep ',' (t :: ts)) = t :: ts :=
          splitOn_join ',' (t :: ts) (by simp) (fun p hp => not_mem_useTok (htok p hp) (by decide))
        have : parseUse o (joinSep ',' (t :: ts)) = .ok (sortUse (t :: ts)) := by
          rw [parseUse_ok_iff, hsplit]
          exact ⟨rfl, fun p hp => checkUseTok_complete (htok p hp)⟩
        simp [useStage, this]


theorem findSlot_append {b : Bool} {core rest : Str} (hcolon : ':' ∉ core) (hrest : rest ≠ []) :
    findSlot b (core ++ ':' :: rest) = some (core, rest) := by
  unfold findSlot
  rw [breakOn_append rest hcolon]
  have : rest.isEmpty = false := by simpa using hrest
  simp [this]

theorem findSlot_none {b : Bool} {core : Str} (hcolon : ':' ∉ core) : findSlot b core = none := by
  unfold findSlot
  rw [breakOn_of_not_mem hcolon]

theorem slot_stage_complete {o : Opts} {core : Str} (hcolon : ':' ∉ core) {sl ss op repo : Option Str}
    (hs : slotOk' lenient o sl ss op) (hr : ∀ r, repo = some r → repoNameOk r = true) (b : Bool) :
    slotStage o b (core ++ slotPartTxt sl ss op ++ repoTxtOf repo) = .ok (core, ⟨sl, ss, op, repo⟩) := by
  unfold slotStage
  rw [List.append_assoc]
  by_cases he : slotTxtOf sl ss op = []
  · cases repo with
    | none =>
      obtain ⟨rfl, rfl, rfl⟩ := slotTxtOf_nil hs he
      simp only [slotPartTxt, he, if_true, repoTxtOf, List.append_nil]
      rw [findSlot_none hcolon]
    | some r =>
      have hrest : slotPartTxt sl ss op ++ repoTxtOf (some r) = ':' :: (':' :: r) := by
        simp [slotPartTxt, he, repoTxtOf]
      rw [hrest, findSlot_append hcolon (by simp)]
      simp only
      rw [parseSlotPart_complete hs hr hrest.symm]
  · have hrest : slotPartTxt sl ss op ++ repoTxtOf repo = ':' :: (slotTxtOf sl ss op ++ repoTxtOf repo) := by
      simp [slotPartTxt, he]
    rw [hrest, findSlot_append hcolon (by simp [he])]
    simp only
    rw [parseSlotPart_complete hs hr hrest.symm]

/-! ## completeness -/

theorem blockText_chars {b st : Bool} {s : Str} (h : ∀ y ∈ s, coreChar y = true) :
    ∀ y ∈ blockText b st s, coreChar y = true := by
  intro y hy
  unfold blockText at hy
  split at hy
  · split at hy
    · simp only [List.mem_cons] at hy
      rcases hy with rfl | rfl | hy
      · decide
      · decide
      · exact h y hy
    · simp only [List.mem_cons] at hy
      rcases hy with rfl | hy
      · decide
      · exact h y hy
  · exact h y hy

theorem opWrap_chars {op : Option Op} {s : Str} (h : ∀ y ∈ s, coreChar y = true) :
    ∀ y ∈ opWrap op s, coreChar y = true := by
  intro y hy
  cases op with
  | none => exact h y hy
  | some o =>
    cases o <;> simp only [opWrap, Op.str, List.mem_cons, List.mem_append, List.cons_append, List.nil_append,
      List.not_mem_nil, or_false] at hy
    all_goals
      first
      | (rcases hy with rfl | hy
         · decide
         · exact h y hy)
      | (rcases hy with rfl | rfl | hy
         · decide
         · decide
         · exact h y hy)
      | (rcases hy with rfl | hy | rfl
         · decide
         · exact h y hy
         · decide)

/-- **completeness**: the rendering of a well-formed record is accepted and parses to that record
(USE tokens sorted) -/
theorem parseWith_complete {o : Opts} {rOk : Bool} {a : Atom} (h : WF0 lenient o rOk a) :
    parseWith o rOk (render a) = .ok (norm a) := by
  obtain ⟨hcat, hpkg, hvop, hstrong, hneg, hslot, hrepo, huse⟩ := h
  rw [slotOk_eq] at hslot
  have hrepo' : ∀ r, a.repo = some r → repoNameOk r = true := by
    intro r hr; rw [hr] at hrepo; exact hrepo.2
  have hrepoOk : a.repo.isSome = true → rOk = true := by
    intro hs
    cases hr : a.repo with
    | none => simp [hr] at hs
    | some r => rw [hr] at hrepo; exact hrepo.1
  obtain ⟨x, t, hcpv, hx⟩ := cpvText_head hcat
  have hxa : ∀ c, c.isAlphanum = false → c ≠ '_' → x ≠ c := by
    intro c hc hc2 e
    subst e
    rcases hx with hx | hx
    · rw [hc] at hx; cases hx
    · exact hc2 hx
  have hcpvChars : ∀ y ∈ cpvText a, coreChar y = true := by
    intro y hy
    rcases cpvText_chars hcat hpkg hvop y hy with h' | h'
    · exact coreChar_of_alnum h'
    · simp only [List.contains_cons, List.contains_nil, Bool.or_false, Bool.or_eq_true, beq_iff_eq] at h'
      rcases h' with rfl | rfl | rfl | rfl | rfl <;> decide
  have hstar : (x :: t).getLast? ≠ some '*' := by
    intro hl
    have hm := getLast?_mem hl
    rw [← hcpv] at hm
    rcases cpvText_chars hcat hpkg hvop _ hm with h' | h'
    · exact absurd h' (by decide)
    · exact absurd h' (by decide)
  let op : Option Op := a.vop.map (·.1)
  have hcoreChars : ∀ y ∈ blockText a.blocks a.strong (opWrap op (cpvText a)), coreChar y = true :=
    blockText_chars (opWrap_chars hcpvChars)
  have hcore_colon : ':' ∉ blockText a.blocks a.strong (opWrap op (cpvText a)) :=
    fun hm => absurd (hcoreChars _ hm) (by decide)
  have hcore_br : '[' ∉ blockText a.blocks a.strong (opWrap op (cpvText a)) :=
    fun hm => absurd (hcoreChars _ hm) (by decide)
  have hS_br : '[' ∉ slotPartTxt a.slot a.subslot a.slotOp := by
    unfold slotPartTxt
    split
    · simp
    · intro hm
      simp only [List.mem_cons] at hm
      rcases hm with hm | hm
      · exact absurd hm (by decide)
      · exact colon_not_mem_slotTxt hslot (by decide) (by decide) hm
  have hR_br : '[' ∉ repoTxtOf a.repo := by
    cases hr : a.repo with
    | none => simp [repoTxtOf]
    | some r =>
      have := hrepo' r hr
      simp only [repoNameOk, Bool.and_eq_true] at this
      intro hm
      simp only [repoTxtOf, List.mem_cons] at hm
      rcases hm with hm | hm | hm
      · exact absurd hm (by decide)
      · exact absurd hm (by decide)
      · exact not_mem_of_nameChars this.1.2 (by decide) (by decide) hm
  have hrender : render a = (blockText a.blocks a.strong (opWrap op (cpvText a)) ++
      slotPartTxt a.slot a.subslot a.slotOp ++ repoTxtOf a.repo) ++ renderUse a := by
    rw [render_eq, renderSlot_eq a hslot, repoTxt_eq _ hrepo']
  have hpre : '[' ∉ blockText a.blocks a.strong (opWrap op (cpvText a)) ++
      slotPartTxt a.slot a.subslot a.slotOp ++ repoTxtOf a.repo := by
    intro hm
    simp only [List.mem_append] at hm
    rcases hm with (hm | hm) | hm
    · exact hcore_br hm
    · exact hS_br hm
    · exact hR_br hm
  have huse' : match a.use with | none => True | some u => u ≠ [] ∧ ∀ t ∈ u, useTokOk o t := by
    cases hu : a.use with
    | none => trivial
    | some u => rw [hu] at huse; exact huse.2
  obtain ⟨useBody, h1, hub, h2⟩ := use_stage_complete hpre huse'
  have h3 := slot_stage_complete hcore_colon hslot hrepo' useBody.isSome
  have hxb : x ≠ '!' := hxa '!' (by decide) (by decide)
  have h4 : parseBlocks o (blockText a.blocks a.strong (opWrap op (cpvText a))) =
      .ok (a.blocks, a.strong, opWrap op (cpvText a)) := by
    -- the text after the blockers starts with an operator character or the category
    have hhead : ∃ y r, opWrap op (cpvText a) = y :: r ∧ y ≠ '!' := by
      rw [hcpv]
      cases hop : op with
      | none => exact ⟨x, t, rfl, hxb⟩
      | some o' => cases o' <;> simp [opWrap, Op.str]
    obtain ⟨y, r, hy, hy2⟩ := hhead
    rw [hy]
    exact parseBlocks_complete hy2 hstrong
  have h5 : parseOp (opWrap op (cpvText a)) = .ok (op, cpvText a) := by
    rw [hcpv]
    exact parseOp_complete (hxa '<' (by decide) (by decide)) (hxa '>' (by decide) (by decide))
      (hxa '=' (by decide) (by decide)) (hxa '~' (by decide) (by decide)) hstar
  have h6 : (⟨a.slot, a.subslot, a.slotOp, a.repo⟩ : SlotInfo).slot.isSome = true → o.hasSlotDeps = true := by
    intro hs
    cases hsl : a.slot with
    | none => simp [hsl] at hs
    | some s => rw [hsl] at hslot; exact hslot.1
  have h7 : (a.use.map sortUse).isSome = true → o.hasUseDeps = true := by
    intro hs
    cases hu : a.use with
    | none => simp [hu] at hs
    | some u => rw [hu] at huse; exact huse.1
  have h9 : parseCpv op.isSome (cpvText a) = .ok (a.cat, a.pkg, a.vop.map (·.2)) := by
    cases hv : a.vop with
    | none =>
      simp only [op, hv, Option.map_none, Option.isSome_none, cpvText, List.append_nil]
      exact parseCpv_complete_unversioned hcat hpkg
    | some q =>
      obtain ⟨o', v, r⟩ := q
      rw [hv] at hvop
      simp only [op, hv, Option.map_some, Option.isSome_some, cpvText]
      have := parseCpv_complete_versioned hcat hpkg hvop.1 hvop.2.1
      simpa [revText] using this
  have h10 : vopStage op (a.vop.map (·.2)) = .ok a.vop := by
    have gen : ∀ vop : Option (Op × Ver × Str), vopOk lenient vop →
        vopStage (vop.map (·.1)) (vop.map (·.2)) = .ok vop := by
      intro vop hv
      cases vop with
      | none => rfl
      | some q =>
        obtain ⟨o', v, r⟩ := q
        simp only [Option.map_some, vopStage]
        by_cases ht : o' = .tilde
        · simp [ht, hv.2.2 ht]
        · simp [ht]
    exact gen a.vop hvop
  have hne : blockText a.blocks a.strong (opWrap op (cpvText a)) ≠ [] := by
    intro e; rw [e] at h4; simp [parseBlocks] at h4
  have h0 : (blockText a.blocks a.strong (opWrap op (cpvText a)) ++ slotPartTxt a.slot a.subslot a.slotOp ++
      repoTxtOf a.repo ++ renderUse a).isEmpty = false := by
    simp [hne]
  rw [hrender, parseWith_of_stages h0 h1 h2 h3 h4 h5 h6 h7 hrepoOk h9 h10]
  simp [mkAtom, norm, hneg]


/-! ## soundness of the stages -/

def useTxtOf : Option Str → Str
  | none => []
  | some body => '[' :: body ++ [']']

theorem splitUse_sound {s t : Str} {useBody : Option Str} (h : splitUse s = .ok (t, useBody)) :
    s = t ++ useTxtOf useBody := by
  unfold splitUse at h
  cases hb : breakOn '[' s with
  | none =>
    simp only [hb, Except.ok.injEq, Prod.mk.injEq] at h
    obtain ⟨rfl, rfl⟩ := h
    simp [useTxtOf]
  | some p =>
    obtain ⟨pre, post⟩ := p
    simp only [hb] at h
    obtain ⟨hs, _⟩ := breakOn_sound hb
    cases hb2 : breakOn ']' post with
    | none => simp [hb2] at h
    | some q =>
      obtain ⟨body, rest⟩ := q
      simp only [hb2] at h
      obtain ⟨hp, _⟩ := breakOn_sound hb2
      cases rest with
      | cons _ _ => simp at h
      | nil =>
        simp only [List.isEmpty_nil, if_true, Except.ok.injEq, Prod.mk.injEq] at h
        obtain ⟨rfl, rfl⟩ := h
        rw [hs, hp]
        simp [useTxtOf]

theorem useStage_sound {o : Opts} {useBody : Option Str} {use : Option (List Str)} (h : useStage o useBody = .ok use) :
    use = (useBody.map (splitOn ',')).map sortUse ∧
      ∀ body, useBody = some body → ∀ t ∈ splitOn ',' body, useTokOk o t := by
  unfold useStage at h
  cases useBody with
  | none =>
    simp only [Except.ok.injEq] at h
    subst h
    exact ⟨rfl, fun _ e => by cases e⟩
  | some body =>
    simp only at h
    cases hp : parseUse o body with
    | error e => simp [hp] at h
    | ok u =>
      simp only [hp, Except.ok.injEq] at h
      subst h
      obtain ⟨hu, hall⟩ := (parseUse_ok_iff o body u).mp hp
      refine ⟨by simp [hu], ?_⟩
      intro b e t ht
      simp only [Option.some.injEq] at e
      subst e
      exact checkUseTok_sound (hall t ht)

theorem findSlot_sound {b : Bool} {t h rest : Str} (hf : findSlot b t = some (h, rest)) : t = h ++ ':' :: rest := by
  unfold findSlot at hf
  cases hb : breakOn ':' t with
  | none => simp [hb] at hf
  | some p =>
    obtain ⟨h', rest'⟩ := p
    simp only [hb] at hf
    split at hf
    · simp only [Option.some.injEq, Prod.mk.injEq] at hf
      obtain ⟨rfl, rfl⟩ := hf
      exact (breakOn_sound hb).1
    · cases hf

theorem slotStage_sound {o : Opts} {b : Bool} {t t' : Str} {si : SlotInfo} (h : slotStage o b t = .ok (t', si)) :
    t = t' ++ slotPartTxt si.slot si.subslot si.slotOp ++ repoTxtOf si.repo ∧
      ((si.slot.isSome = true → o.hasSlotDeps = true) → slotOk' lenient o si.slot si.subslot si.slotOp) ∧
      (∀ r, si.repo = some r → repoNameOk r = true) := by
  unfold slotStage at h
  cases hf : findSlot b t with
  | none =>
    simp only [hf, Except.ok.injEq, Prod.mk.injEq] at h
    obtain ⟨rfl, rfl⟩ := h
    refine ⟨by simp [slotPartTxt, slotTxtOf, repoTxtOf], fun _ => ⟨rfl, Or.inl rfl⟩, fun r e => by cases e⟩
  | some p =>
    obtain ⟨hd, rest⟩ := p
    simp only [hf] at h
    cases hp : parseSlotPart o rest with
    | error e => simp [hp] at h
    | ok si' =>
      simp only [hp, Except.ok.injEq, Prod.mk.injEq] at h
      obtain ⟨rfl, rfl⟩ := h
      obtain ⟨h1, h2, h3⟩ := parseSlotPart_sound hp
      refine ⟨?_, h2, h3⟩
      rw [findSlot_sound hf, List.append_assoc, ← h1]

theorem vopStage_sound {op : Option Op} {vr : Option (Ver × Str)} {vop : Option (Op × Ver × Str)}
    (h : vopStage op vr = .ok vop) :
    (op = none ∧ vr = none ∧ vop = none) ∨
      ∃ o' v r, op = some o' ∧ vr = some (v, r) ∧ vop = some (o', v, r) ∧ (o' = .tilde → r = []) := by
  unfold vopStage at h
  split at h
  · rename_i o' v r
    split at h
    · cases h
    · rename_i hc
      simp only [Except.ok.injEq] at h
      subst h
      refine Or.inr ⟨o', v, r, rfl, rfl, rfl, fun ht => ?_⟩
      simp only [not_and, Bool.not_eq_true', Bool.not_eq_false] at hc
      have := hc ht
      simpa using this
  · simp only [Except.ok.injEq] at h
    subst h
    exact Or.inl ⟨rfl, rfl, rfl⟩
  · cases h
  · cases h

/-- **soundness**: an accepted string is the rendering of a well-formed record, and the result is that
record with the USE tokens sorted -/
theorem parseWith_sound {o : Opts} {rOk : Bool} {s : Str} {a : Atom} (h : parseWith o rOk s = .ok a) :
    ∃ a0, WF0 lenient o rOk a0 ∧ render a0 = s ∧ norm a0 = a := by
  obtain ⟨t, t', t'', cpvstr, cat, pkg, useBody, use, si, b, st, op, vr, vop, _, h1, h2, h3, h4, h5, h6, h7, h8,
    h9, h10, rfl⟩ := stages_of_parseWith h
  have e1 := splitUse_sound h1
  obtain ⟨e2, htok⟩ := useStage_sound h2
  obtain ⟨e3, hslot, hrepo⟩ := slotStage_sound h3
  obtain ⟨e4, hstrong⟩ := parseBlocks_sound h4
  have e5 := parseOp_sound h5
  obtain ⟨hcat, hpkg, hvn, hvs⟩ := parseCpv_sound h9
  have hslot' := hslot h6
  refine ⟨mkAtom cat pkg vop b st si (useBody.map (splitOn ',')), ?_, ?_, ?_⟩
  · -- well-formed
    refine ⟨hcat, hpkg, ?_, hstrong, rfl, hslot', ?_, ?_⟩
    · rcases vopStage_sound h10 with ⟨_, _, rfl⟩ | ⟨o', v, r, _, hvr, rfl, ht⟩
      · trivial
      · obtain ⟨_, hv1, hv2, _⟩ := hvs v r hvr
        exact ⟨hv1, hv2, ht⟩
    · show match si.repo with | none => True | some r => rOk = true ∧ repoNameOk r = true
      cases hr : si.repo with
      | none => trivial
      | some r => exact ⟨h8 (by simp [hr]), hrepo r hr⟩
    · show match useBody.map (splitOn ',') with
        | none => True
        | some u => o.hasUseDeps = true ∧ u ≠ [] ∧ ∀ t ∈ u, useTokOk o t
      cases hub : useBody with
      | none => trivial
      | some body =>
        refine ⟨h7 (by rw [e2, hub]; rfl), splitOn_ne_nil _ _, htok body hub⟩
  · -- renders to the input
    have hcpv : cpvText (mkAtom cat pkg vop b st si (useBody.map (splitOn ','))) = cpvstr := by
      rcases vopStage_sound h10 with ⟨_, hvr, rfl⟩ | ⟨o', v, r, _, hvr, rfl, _⟩
      · obtain ⟨_, e⟩ := hvn hvr
        simp [cpvText, mkAtom, e]
      · obtain ⟨_, _, _, e⟩ := hvs v r hvr
        simp [cpvText, mkAtom, e, revText]
    have hop : (mkAtom cat pkg vop b st si (useBody.map (splitOn ','))).vop.map (·.1) = op := by
      rcases vopStage_sound h10 with ⟨e, _, rfl⟩ | ⟨o', v, r, e, _, rfl, _⟩ <;> simp [mkAtom, e]
    have huse : renderUse (mkAtom cat pkg vop b st si (useBody.map (splitOn ','))) = useTxtOf useBody := by
      cases hub : useBody with
      | none => rfl
      | some body =>
        simp only [renderUse, mkAtom, Option.map_some, useTxtOf]
        cases hsp : splitOn ',' body with
        | nil => exact absurd hsp (splitOn_ne_nil _ _)
        | cons p ps => simp only [← hsp, joinSep_splitOn]
    rw [render_eq, hcpv, hop, renderSlot_eq _ (show slotOk' lenient o
        (mkAtom cat pkg vop b st si (useBody.map (splitOn ','))).slot
        (mkAtom cat pkg vop b st si (useBody.map (splitOn ','))).subslot
        (mkAtom cat pkg vop b st si (useBody.map (splitOn ','))).slotOp from hslot'),
      repoTxt_eq (mkAtom cat pkg vop b st si (useBody.map (splitOn ','))).repo hrepo, huse, e1, e3, e4, e5]
    rfl
  · -- the result is the normal form
    simp [norm, mkAtom, e2]


/-! ## normal form, dialects -/

theorem sortUse_idem (u : List Str) : sortUse (sortUse u) = sortUse u :=
  sortUse_perm _ _ (List.mergeSort_perm u _)

theorem norm_norm (a : Atom) : norm (norm a) = norm a := by
  cases hu : a.use with
  | none => simp [norm, hu]
  | some u => simp [norm, hu, sortUse_idem]

theorem WF0_norm {d : Dialect} {o : Opts} {r : Bool} {a : Atom} (h : WF0 d o r a) : WF0 d o r (norm a) := by
  obtain ⟨h1, h2, h3, h4, h5, h6, h7, h8⟩ := h
  refine ⟨h1, h2, h3, h4, h5, h6, h7, ?_⟩
  show match (a.use.map sortUse) with
    | none => True
    | some u => o.hasUseDeps = true ∧ u ≠ [] ∧ ∀ t ∈ u, useTokOk o t
  cases hu : a.use with
  | none => trivial
  | some u =>
    rw [hu] at h8
    obtain ⟨g1, g2, g3⟩ := h8
    refine ⟨g1, ?_, fun t ht => g3 t ((mem_sortUse u t).mp ht)⟩
    intro e
    cases u with
    | nil => exact g2 rfl
    | cons x xs =>
      have : x ∈ sortUse (x :: xs) := (mem_sortUse _ x).mpr (by simp)
      rw [e] at this
      cases this

/-- C04's `match_eq_spec` (re-derived from the lemmas of `Proofs/C04.lean`) -/
theorem c04_match_eq_spec (a : C04.Atom) (p : C04.Pkg) (ha : C04.Spec.Atom.WF a) (hp : C04.Spec.Pkg.WF p)
    (hn : a.negate = false) : C04.atomMatch a p = C04.Spec.matchSpec a p := by
  rw [C04.atomMatch_eq a p ha.2]
  unfold C04.matchSpecWith C04.Spec.matchSpec
  congr 5
  cases hv : a.vop with
  | none => rfl
  | some q =>
    obtain ⟨op, v, r⟩ := q
    have hw : C01.Spec.WF v := by have := ha.1; rw [hv] at this; exact this
    simp only [hn]
    rw [C04.versionRestr_eq op v r false p hw hp]
    cases op <;> simp [C04.Spec.opSpec]


theorem versionLike_mono {t : Str} (h : VersionLike pms t) : VersionLike lenient t := by
  obtain ⟨v, r, hv, hr, e⟩ := h
  exact ⟨v, r, verOk_mono hv, hr, e⟩

theorem pkgOk_pms_of_lenient {s : Str} (h : pkgOk lenient s) : pkgOk pms s :=
  ⟨h.1, fun p t e hv => h.2 p t e (versionLike_mono hv)⟩

theorem slotNameOk_pms_of_lenient {s : Str} (h : slotNameOk lenient s = true)
    (hp : match s with | c :: _ => c ≠ '+' | [] => True) : slotNameOk pms s = true := by
  cases s with
  | nil => simp [slotNameOk] at h
  | cons c cs =>
    simp only at hp
    simp only [slotNameOk, pms, lenient, Bool.and_eq_true, Bool.not_eq_true', startsWithAny, if_true,
      Bool.false_eq_true, if_false, List.contains_cons, List.contains_nil, Bool.or_false, Bool.or_eq_false_iff,
      beq_eq_false_iff_ne] at h ⊢
    exact ⟨h.1, h.2.1, h.2.2, hp⟩

/-- a record well-formed in pkgcore's reading is well-formed in the PMS reading unless it uses one of the two
deviations -/
theorem WF0_pms_of_lenient {o : Opts} {r : Bool} {a : Atom} (h : WF0 lenient o r a) (hs : PmsStrict a) :
    WF0 pms o r a := by
  obtain ⟨h1, h2, h3, h4, h5, h6, h7, h8⟩ := h
  obtain ⟨s1, s2, s3⟩ := hs
  refine ⟨h1, pkgOk_pms_of_lenient h2, ?_, h4, h5, ?_, h7, h8⟩
  · cases hv : a.vop with
    | none => trivial
    | some q =>
      obtain ⟨op, v, rv⟩ := q
      rw [hv] at h3 s1
      refine ⟨?_, h3.2.1, h3.2.2⟩
      have := h3.1
      simp only [verOk, pms, lenient, Bool.and_eq_true] at this ⊢
      refine ⟨⟨this.1.1, ?_⟩, this.2⟩
      cases hl : v.letter with
      | none => rfl
      | some c => simp only [hl] at s1; exact s1
  · rw [slotOk_eq] at h6 ⊢
    cases hsl : a.slot with
    | none => rw [hsl] at h6; exact h6
    | some sl =>
      rw [hsl] at h6 s2
      obtain ⟨g1, g2, g3, g4⟩ := h6
      refine ⟨g1, slotNameOk_pms_of_lenient g2 (by cases sl <;> simp_all), ?_, g4⟩
      cases hss : a.subslot with
      | none => trivial
      | some ss =>
        rw [hss] at g3 s3
        exact ⟨g3.1, slotNameOk_pms_of_lenient g3.2 (by cases ss <;> simp_all)⟩

/-- and a PMS-well-formed record is well-formed in pkgcore's reading as soon as its package name is -/
theorem WF0_lenient_of_pms {o : Opts} {r : Bool} {a : Atom} (h : WF0 pms o r a) (hp : pkgOk lenient a.pkg) :
    WF0 lenient o r a := by
  obtain ⟨h1, _, h3, h4, h5, h6, h7, h8⟩ := h
  refine ⟨h1, hp, ?_, h4, h5, ?_, h7, h8⟩
  · cases hv : a.vop with
    | none => trivial
    | some q =>
      obtain ⟨op, v, rv⟩ := q
      rw [hv] at h3
      exact ⟨verOk_mono h3.1, h3.2.1, h3.2.2⟩
  · rw [slotOk_eq] at h6 ⊢
    cases hsl : a.slot with
    | none => rw [hsl] at h6; exact h6
    | some sl =>
      rw [hsl] at h6
      obtain ⟨g1, g2, g3, g4⟩ := h6
      refine ⟨g1, slotNameOk_mono g2, ?_, g4⟩
      cases hss : a.subslot with
      | none => trivial
      | some ss =>
        rw [hss] at g3
        exact ⟨g3.1, slotNameOk_mono g3.2⟩

/-- `1A` is not a version for the PMS -/
theorem not_versionLike_pms_1A : ¬ VersionLike pms ['1', 'A'] := by
  rintro ⟨v, r, hv, hr, e⟩
  have hw : WFfull v := (verOk_lenient_iff v).mp (verOk_mono hv)
  cases r with
  | cons c cs =>
    have : '-' ∈ ['1', 'A'] := by rw [e]; simp [revText]
    simp at this
  | nil =>
    simp only [revText, List.isEmpty_nil, if_true, List.append_nil] at e
    have hl := lexVer_render_aux v hw
    rw [← e] at hl
    have : lexVer ['1', 'A'] = some ⟨[['1']], some 'A', []⟩ := rfl
    rw [this] at hl
    simp only [Option.some.injEq] at hl
    subst hl
    simp [verOk, pms] at hv

/-- `b-1A` is a valid package name for the PMS -/
theorem pkgOk_pms_b1A : pkgOk pms ['b', '-', '1', 'A'] := by
  refine ⟨by decide, ?_⟩
  intro p t e hv
  have hsp : splitOn '-' ['b', '-', '1', 'A'] = [['b'], ['1', 'A']] := rfl
  rw [e, splitOn_append_sep] at hsp
  have ht : splitOn '-' t = [['1', 'A']] := by
    cases h1 : splitOn '-' p with
    | nil => exact absurd h1 (splitOn_ne_nil _ _)
    | cons x xs =>
      cases h2 : splitOn '-' t with
      | nil => exact absurd h2 (splitOn_ne_nil _ _)
      | cons y ys =>
        rw [h1, h2] at hsp
        cases xs with
        | nil =>
          simp only [List.cons_append, List.nil_append, List.cons.injEq] at hsp
          rw [hsp.2.1, hsp.2.2]
        | cons z zs =>
          simp only [List.cons_append, List.cons.injEq] at hsp
          have := hsp.2.2
          cases zs <;> simp at this
  have : t = ['1', 'A'] := by
    have := joinSep_splitOn '-' t
    rw [ht] at this
    exact this.symm
  subst this
  exact not_versionLike_pms_1A hv

end Pkgcore.C03
