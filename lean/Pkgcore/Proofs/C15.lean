import Pkgcore.Spec.C15
import Pkgcore.Proofs.C17
/-!
# C15 — helper lemmas: the checker's walk over the plan computes the declaratively described package sets
-/
namespace Pkgcore.C15
open List

theorem find_some {U : List Pkg} {i : Nat} {p : Pkg} (h : find U i = some p) : p ∈ U ∧ p.id = i := by
  unfold find at h
  exact ⟨List.mem_of_find?_eq_some h, by simpa using List.find?_some h⟩

theorem idsOk_unique {U : List Pkg} (h : idsOk U = true) {p q : Pkg} (hp : p ∈ U) (hq : q ∈ U)
    (e : p.id = q.id) : p = q := by
  induction U with
  | nil => cases hp
  | cons x xs ih =>
    simp only [idsOk, Bool.and_eq_true, Bool.not_eq_true', List.any_eq_false, beq_iff_eq] at h
    rcases List.mem_cons.mp hp with rfl | hp' <;> rcases List.mem_cons.mp hq with rfl | hq'
    · rfl
    · exact absurd e.symm (h.1 q hq')
    · exact absurd e (h.1 p hp')
    · exact ih h.2 hp' hq'

theorem idsOk_nodup {U : List Pkg} (h : idsOk U = true) : U.Nodup := by
  induction U with
  | nil => exact List.nodup_nil
  | cons x xs ih =>
    simp only [idsOk, Bool.and_eq_true, Bool.not_eq_true', List.any_eq_false, beq_iff_eq] at h
    exact List.nodup_cons.mpr ⟨fun hx => h.1 x hx rfl, ih h.2⟩

theorem slotsOk_unique {F : List Pkg} (h : slotsOk F = true) {p q : Pkg} (hp : p ∈ F) (hq : q ∈ F)
    (k : p.key = q.key) (s : p.slot = q.slot) : p = q := by
  induction F with
  | nil => cases hp
  | cons x xs ih =>
    simp only [slotsOk, Bool.and_eq_true, Bool.not_eq_true', List.any_eq_false, beq_iff_eq] at h
    rcases List.mem_cons.mp hp with rfl | hp' <;> rcases List.mem_cons.mp hq with rfl | hq'
    · rfl
    · exact absurd ⟨k.symm, s.symm⟩ (h.1 q hq')
    · exact absurd ⟨k, s⟩ (h.1 p hp')
    · exact ih h.2 hp' hq'

/-! ## membership of operations in `pre ++ [op]` -/

theorem displaced_snoc (pre : List Op) (op : Op) (j : Nat) :
    Displaced (pre ++ [op]) j ↔ Displaced pre j ∨ (∃ n, op = .replace j n) ∨ op = .remove j := by
  simp only [Displaced, List.mem_append, List.mem_singleton]
  constructor
  · rintro (⟨n, h | h⟩ | h | h)
    · exact .inl (.inl ⟨n, h⟩)
    · exact .inr (.inl ⟨n, h.symm⟩)
    · exact .inl (.inr h)
    · exact .inr (.inr h.symm)
  · rintro ((⟨n, h⟩ | h) | ⟨n, h⟩ | h)
    · exact .inl ⟨n, .inl h⟩
    · exact .inr (.inl h)
    · exact .inl ⟨n, .inr h.symm⟩
    · exact .inr (.inr h.symm)

theorem builds_snoc (pre : List Op) (op : Op) (j : Nat) :
    Builds (pre ++ [op]) j ↔ Builds pre j ∨ op = .add j ∨ ∃ o, op = .replace o j := by
  simp only [Builds, List.mem_append, List.mem_singleton]
  constructor
  · rintro ((h | h) | ⟨o, h | h⟩)
    · exact .inl (.inl h)
    · exact .inr (.inl h.symm)
    · exact .inl (.inr ⟨o, h⟩)
    · exact .inr (.inr ⟨o, h.symm⟩)
  · rintro ((h | ⟨o, h⟩) | h | ⟨o, h⟩)
    · exact .inl (.inl h)
    · exact .inr ⟨o, .inl h⟩
    · exact .inl (.inr h.symm)
    · exact .inr ⟨o, .inr h.symm⟩

/-- what the checker's bookkeeping means after the operations `pre` -/
structure PInv (U : List Pkg) (pre : List Op) (cur merged : List Pkg) : Prop where
  nodup : cur.Nodup
  cur_iff : ∀ p, p ∈ cur ↔ (p ∈ U ∧ p.livefs = true ∧ ¬ Displaced pre p.id) ∨ (p ∈ U ∧ p.livefs = false ∧ Builds pre p.id)
  merged_iff : ∀ p, p ∈ merged ↔ (p ∈ U ∧ p.livefs = false ∧ Builds pre p.id)

theorem pinv_init {U : List Pkg} (h : idsOk U = true) : PInv U [] (U.filter (·.livefs)) [] where
  nodup := (idsOk_nodup h).filter _
  cur_iff p := by simp [Displaced, Builds, List.mem_filter]
  merged_iff p := by simp [Builds]

theorem pinv_step {U : List Pkg} (hU : idsOk U = true) {pre : List Op} {cur merged cur' merged' : List Pkg} {op : Op}
    (I : PInv U pre cur merged) (h : stepOp U (cur, merged) op = some (cur', merged')) :
    PInv U (pre ++ [op]) cur' merged' := by
  cases op with
  | add i =>
    simp only [stepOp, Option.bind_eq_some_iff] at h
    obtain ⟨p, hf, h⟩ := h
    obtain ⟨hpU, hpi⟩ := find_some hf
    by_cases hl : p.livefs = true
    · simp only [hl, if_true] at h
      by_cases hc : p ∈ cur
      · simp only [List.contains_eq_mem, hc, decide_true, if_true, Option.some.injEq, Prod.mk.injEq] at h
        obtain ⟨rfl, rfl⟩ := h
        have hb : ∀ q, q ∈ U → q.livefs = false → (Builds (pre ++ [Op.add i]) q.id ↔ Builds pre q.id) := by
          intro q hq hql
          rw [builds_snoc]
          constructor
          · rintro (h | h | ⟨o, h⟩)
            · exact h
            · simp only [Op.add.injEq] at h
              have : q = p := idsOk_unique hU hq hpU (by rw [hpi, h])
              rw [this, hl] at hql; cases hql
            · cases h
          · exact .inl
        refine ⟨I.nodup, ?_, ?_⟩
        · intro q
          rw [I.cur_iff q]
          have hd : Displaced (pre ++ [Op.add i]) q.id ↔ Displaced pre q.id := by
            rw [displaced_snoc]; simp
          constructor
          · rintro (⟨a, b, c⟩ | ⟨a, b, c⟩)
            · exact .inl ⟨a, b, by rwa [hd]⟩
            · exact .inr ⟨a, b, (hb q a b).mpr c⟩
          · rintro (⟨a, b, c⟩ | ⟨a, b, c⟩)
            · exact .inl ⟨a, b, by rwa [← hd]⟩
            · exact .inr ⟨a, b, (hb q a b).mp c⟩
        · intro q
          rw [I.merged_iff q]
          constructor
          · rintro ⟨a, b, c⟩; exact ⟨a, b, (hb q a b).mpr c⟩
          · rintro ⟨a, b, c⟩; exact ⟨a, b, (hb q a b).mp c⟩
      · simp [hc] at h
    · have hl' : p.livefs = false := by simpa using hl
      simp only [hl', Bool.false_eq_true, if_false] at h
      by_cases hc : p ∈ cur
      · simp [hc] at h
      · simp only [List.contains_eq_mem, hc, decide_false, Bool.false_eq_true, if_false, Option.some.injEq, Prod.mk.injEq] at h
        obtain ⟨rfl, rfl⟩ := h
        have hpc : p ∉ cur := hc
        have hb : ∀ q, q ∈ U → (Builds (pre ++ [Op.add i]) q.id ↔ Builds pre q.id ∨ q = p) := by
          intro q hq
          rw [builds_snoc]
          constructor
          · rintro (h | h | ⟨o, h⟩)
            · exact .inl h
            · simp only [Op.add.injEq] at h
              exact .inr (idsOk_unique hU hq hpU (by rw [hpi, h]))
            · cases h
          · rintro (h | rfl)
            · exact .inl h
            · exact .inr (.inl (by rw [hpi]))
        have hd : ∀ q, Displaced (pre ++ [Op.add i]) q ↔ Displaced pre q := by
          intro q; rw [displaced_snoc]; simp
        refine ⟨?_, ?_, ?_⟩
        · rw [List.nodup_append]
          exact ⟨I.nodup, by simp, by intro a ha b hb'; simp at hb'; subst hb'; rintro rfl; exact hpc ha⟩
        · intro q
          simp only [List.mem_append, List.mem_singleton, I.cur_iff q, hd]
          constructor
          · rintro ((⟨a, b, c⟩ | ⟨a, b, c⟩) | rfl)
            · exact .inl ⟨a, b, c⟩
            · exact .inr ⟨a, b, (hb q a).mpr (.inl c)⟩
            · exact .inr ⟨hpU, hl', (hb q hpU).mpr (.inr rfl)⟩
          · rintro (⟨a, b, c⟩ | ⟨a, b, c⟩)
            · exact .inl (.inl ⟨a, b, c⟩)
            · rcases (hb q a).mp c with c | rfl
              · exact .inl (.inr ⟨a, b, c⟩)
              · exact .inr rfl
        · intro q
          simp only [List.mem_append, List.mem_singleton, I.merged_iff q]
          constructor
          · rintro (⟨a, b, c⟩ | rfl)
            · exact ⟨a, b, (hb q a).mpr (.inl c)⟩
            · exact ⟨hpU, hl', (hb q hpU).mpr (.inr rfl)⟩
          · rintro ⟨a, b, c⟩
            rcases (hb q a).mp c with c | rfl
            · exact .inl ⟨a, b, c⟩
            · exact .inr rfl
  | replace o i =>
    simp only [stepOp, Option.bind_eq_some_iff] at h
    obtain ⟨old, hfo, p, hf, h⟩ := h
    obtain ⟨hoU, hoi⟩ := find_some hfo
    obtain ⟨hpU, hpi⟩ := find_some hf
    by_cases hcond : (old.livefs && cur.contains old && !p.livefs && !(cur.erase old).contains p) = true
    · simp only [hcond, if_true, Option.some.injEq, Prod.mk.injEq] at h
      obtain ⟨rfl, rfl⟩ := h
      simp only [Bool.and_eq_true, Bool.not_eq_true', List.contains_eq_mem, decide_eq_true_eq, decide_eq_false_iff_not] at hcond
      obtain ⟨⟨⟨hol, hoc⟩, hpl⟩, hpc⟩ := hcond
      have hmem : ∀ q, q ∈ cur.erase old ↔ q ∈ cur ∧ q ≠ old := fun q => by
        rw [I.nodup.mem_erase_iff]; exact and_comm
      have hb : ∀ q, q ∈ U → (Builds (pre ++ [Op.replace o i]) q.id ↔ Builds pre q.id ∨ q = p) := by
        intro q hq
        rw [builds_snoc]
        constructor
        · rintro (h | h | ⟨o', h⟩)
          · exact .inl h
          · cases h
          · simp only [Op.replace.injEq] at h
            exact .inr (idsOk_unique hU hq hpU (by rw [hpi, h.2]))
        · rintro (h | rfl)
          · exact .inl h
          · exact .inr (.inr ⟨o, by rw [hpi]⟩)
      have hd : ∀ q, q ∈ U → (Displaced (pre ++ [Op.replace o i]) q.id ↔ Displaced pre q.id ∨ q = old) := by
        intro q hq
        rw [displaced_snoc]
        constructor
        · rintro (h | ⟨n, h⟩ | h)
          · exact .inl h
          · simp only [Op.replace.injEq] at h
            exact .inr (idsOk_unique hU hq hoU (by rw [hoi, h.1]))
          · cases h
        · rintro (h | rfl)
          · exact .inl h
          · exact .inr (.inl ⟨i, by rw [hoi]⟩)
      refine ⟨?_, ?_, ?_⟩
      · rw [List.nodup_append]
        exact ⟨I.nodup.erase _, by simp, by intro a ha b hb'; simp at hb'; subst hb'; rintro rfl; exact hpc ha⟩
      · intro q
        simp only [List.mem_append, List.mem_singleton, hmem, I.cur_iff q]
        constructor
        · rintro (⟨⟨a, b, c⟩ | ⟨a, b, c⟩, hne⟩ | rfl)
          · exact .inl ⟨a, b, fun hdd => by
              rcases (hd q a).mp hdd with hdd | hdd
              · exact c hdd
              · exact hne hdd⟩
          · exact .inr ⟨a, b, (hb q a).mpr (.inl c)⟩
          · exact .inr ⟨hpU, hpl, (hb q hpU).mpr (.inr rfl)⟩
        · rintro (⟨a, b, c⟩ | ⟨a, b, c⟩)
          · refine .inl ⟨.inl ⟨a, b, fun hdd => c ((hd q a).mpr (.inl hdd))⟩, fun hqo => c ((hd q a).mpr (.inr hqo))⟩
          · rcases (hb q a).mp c with c | rfl
            · refine .inl ⟨.inr ⟨a, b, c⟩, ?_⟩
              rintro rfl; rw [hol] at b; cases b
            · exact .inr rfl
      · intro q
        simp only [List.mem_append, List.mem_singleton, I.merged_iff q]
        constructor
        · rintro (⟨a, b, c⟩ | rfl)
          · exact ⟨a, b, (hb q a).mpr (.inl c)⟩
          · exact ⟨hpU, hpl, (hb q hpU).mpr (.inr rfl)⟩
        · rintro ⟨a, b, c⟩
          rcases (hb q a).mp c with c | rfl
          · exact .inl ⟨a, b, c⟩
          · exact .inr rfl
    · rw [if_neg hcond] at h; cases h
  | remove o =>
    simp only [stepOp, Option.bind_eq_some_iff] at h
    obtain ⟨old, hfo, h⟩ := h
    obtain ⟨hoU, hoi⟩ := find_some hfo
    by_cases hcond : (old.livefs && cur.contains old) = true
    · simp only [hcond, if_true, Option.some.injEq, Prod.mk.injEq] at h
      obtain ⟨rfl, rfl⟩ := h
      simp only [Bool.and_eq_true, List.contains_eq_mem, decide_eq_true_eq] at hcond
      obtain ⟨hol, hoc⟩ := hcond
      have hmem : ∀ q, q ∈ cur.erase old ↔ q ∈ cur ∧ q ≠ old := fun q => by
        rw [I.nodup.mem_erase_iff]; exact and_comm
      have hb : ∀ q, Builds (pre ++ [Op.remove o]) q ↔ Builds pre q := by
        intro q; rw [builds_snoc]; simp
      have hd : ∀ q, q ∈ U → (Displaced (pre ++ [Op.remove o]) q.id ↔ Displaced pre q.id ∨ q = old) := by
        intro q hq
        rw [displaced_snoc]
        constructor
        · rintro (h | ⟨n, h⟩ | h)
          · exact .inl h
          · cases h
          · simp only [Op.remove.injEq] at h
            exact .inr (idsOk_unique hU hq hoU (by rw [hoi, h]))
        · rintro (h | rfl)
          · exact .inl h
          · exact .inr (.inr (by rw [hoi]))
      refine ⟨I.nodup.erase _, ?_, ?_⟩
      · intro q
        simp only [hmem, I.cur_iff q, hb]
        constructor
        · rintro ⟨⟨a, b, c⟩ | ⟨a, b, c⟩, hne⟩
          · exact .inl ⟨a, b, fun hdd => by
              rcases (hd q a).mp hdd with hdd | hdd
              · exact c hdd
              · exact hne hdd⟩
          · exact .inr ⟨a, b, c⟩
        · rintro (⟨a, b, c⟩ | ⟨a, b, c⟩)
          · exact ⟨.inl ⟨a, b, fun hdd => c ((hd q a).mpr (.inl hdd))⟩, fun hqo => c ((hd q a).mpr (.inr hqo))⟩
          · refine ⟨.inr ⟨a, b, c⟩, ?_⟩
            rintro rfl; rw [hol] at b; cases b
      · intro q; simp only [I.merged_iff q, hb]
    · rw [if_neg hcond] at h; cases h

theorem pinv_run {U : List Pkg} (hU : idsOk U = true) {rest pre : List Op} {cur merged cur' merged' : List Pkg}
    (I : PInv U pre cur merged) (h : runPlan U (cur, merged) rest = some (cur', merged')) :
    PInv U (pre ++ rest) cur' merged' := by
  induction rest generalizing pre cur merged with
  | nil => simp only [runPlan, Option.some.injEq, Prod.mk.injEq] at h; obtain ⟨rfl, rfl⟩ := h; simpa using I
  | cons op rest ih =>
    simp only [runPlan, Option.bind_eq_some_iff] at h
    obtain ⟨⟨c1, m1⟩, h1, h2⟩ := h
    have := ih (pinv_step hU I h1) h2
    simpa using this

/-- the checker's final bookkeeping is the declaratively described package sets -/
theorem run_sets {U : List Pkg} (hU : idsOk U = true) {plan : List Op} {F merged : List Pkg}
    (h : runPlan U (U.filter (·.livefs), []) plan = some (F, merged)) :
    (∀ p, p ∈ F ↔ Present U plan p) ∧ (∀ p, p ∈ merged ↔ Merged U plan p) ∧ F.Nodup := by
  have I := pinv_run hU (pinv_init hU) h
  simp only [List.nil_append] at I
  exact ⟨fun p => by rw [I.cur_iff p]; rfl, fun p => by rw [I.merged_iff p]; rfl, I.nodup⟩

theorem slotsOk_of_unique {F : List Pkg} (nd : F.Nodup)
    (h : ∀ p q, p ∈ F → q ∈ F → p.key = q.key → p.slot = q.slot → p = q) : slotsOk F = true := by
  induction F with
  | nil => rfl
  | cons x xs ih =>
    have ⟨hx, nd'⟩ := List.nodup_cons.mp nd
    simp only [slotsOk, Bool.and_eq_true, Bool.not_eq_true', List.any_eq_false, beq_iff_eq]
    refine ⟨?_, ih nd' fun p q hp hq => h p q (List.mem_cons_of_mem _ hp) (List.mem_cons_of_mem _ hq)⟩
    rintro q hq ⟨k, s⟩
    have := h q x (List.mem_cons_of_mem _ hq) (List.mem_cons_self) k s
    subst this; exact hx hq

theorem altOk_iff {U : List Pkg} {plan : List Op} {F : List Pkg} (hF : ∀ p, p ∈ F ↔ Present U plan p)
    (p : Pkg) (a : Atom) : altOk F p a = true ↔ Satisfied U plan p a := by
  unfold altOk Satisfied
  by_cases hb : a.blocks = true
  · simp only [hb, if_true, Bool.not_eq_true', List.any_eq_false, Bool.and_eq_true, bne_iff_ne, ne_eq, not_and,
      Bool.not_eq_true]
    constructor
    · intro h q hq hne; exact h q ((hF q).mpr hq) hne
    · intro h q hq hne; exact h q ((hF q).mp hq) hne
  · simp only [hb, Bool.false_eq_true, if_false, List.any_eq_true]
    constructor
    · rintro ⟨q, hq, hm⟩; exact ⟨q, (hF q).mp hq, hm⟩
    · rintro ⟨q, hq, hm⟩; exact ⟨q, (hF q).mpr hq, hm⟩

end Pkgcore.C15

/-! ## slot uniqueness of the planner state when nothing is forced (state model of C17) -/
namespace Pkgcore.C17
open List

/-- at most one slotted package per key and slot -/
def SlotUnique (U : Univ) (s : State) : Prop :=
  ∀ p q, p ∈ s.slots → q ∈ s.slots → sameSlot U p q = true → p = q

def UnforcedCmd : Cmd → Prop
  | .add _ _ f => f = false
  | .replace _ _ f => f = false
  | _ => True

def UnforcedStep : Step → Prop
  | .op c => UnforcedCmd c
  | .rollback _ => True

theorem SlotUnique.of_perm {U : Univ} {s t : State} (h : s.slots ~ t.slots) (su : SlotUnique U s) : SlotUnique U t :=
  fun p q hp hq hs => su p q (h.mem_iff.mpr hp) (h.mem_iff.mpr hq) hs

theorem SlotUnique.of_sublist {U : Univ} {s t : State} (h : ∀ p, p ∈ t.slots → p ∈ s.slots) (su : SlotUnique U s) :
    SlotUnique U t := fun p q hp hq hs => su p q (h p hp) (h q hq) hs

theorem sameSlot_symm (U : Univ) (p q : Nat) : sameSlot U p q = sameSlot U q p := by
  simp only [sameSlot]
  rw [Bool.eq_iff_iff]
  simp only [Bool.and_eq_true, beq_iff_eq]
  constructor <;> rintro ⟨a, b⟩ <;> exact ⟨a.symm, b.symm⟩

/-- appending a package whose slot is free keeps slots unique -/
theorem slotUnique_append {U : Univ} {l : List Nat} {p : Nat}
    (su : ∀ a b, a ∈ l → b ∈ l → sameSlot U a b = true → a = b) (hfree : l.filter (sameSlot U p) = []) :
    ∀ a b, a ∈ l ++ [p] → b ∈ l ++ [p] → sameSlot U a b = true → a = b := by
  have hno : ∀ x, x ∈ l → sameSlot U p x = false := by
    intro x hx
    cases hsx : sameSlot U p x with
    | false => rfl
    | true =>
      have : x ∈ l.filter (sameSlot U p) := List.mem_filter.mpr ⟨hx, hsx⟩
      rw [hfree] at this; cases this
  intro a b ha hb hs
  simp only [List.mem_append, List.mem_singleton] at ha hb
  rcases ha with ha | rfl <;> rcases hb with hb | rfl
  · exact su a b ha hb hs
  · rw [sameSlot_symm, hno a ha] at hs; cases hs
  · rw [hno b hb] at hs; cases hs
  · rfl

theorem decrefAll_slots {s s1 : State} {c : Nat} {bs : List Nat} (h : decrefAll s c bs = some s1) : s1.slots = s.slots := by
  have U₀ : Univ := ⟨id, id, id, fun _ _ => false⟩
  obtain ⟨_, rfl⟩ := decrefAll_decomp U₀ h
  exact (fwdAll_decs_frame U₀ s c bs).1

theorem slotUnique_apply (U : Univ) {s s' : State} {c : Cmd} {out : List Conf} (i : Inv s) (su : SlotUnique U s)
    (hu : UnforcedCmd c) (h : applyCmd U s c = some (s', out)) : SlotUnique U s' := by
  cases c with
  | add c p f =>
    have hf : f = false := hu
    subst hf
    simp only [applyCmd, fillSlotting] at h
    cases hc : (conflicts U s p).isEmpty <;>
      simp only [hc, Bool.not_true, Bool.not_false, Bool.and_true, Bool.and_false, Bool.or_true, Bool.or_false,
        Bool.false_eq_true, if_true, if_false, Option.some.injEq, Prod.mk.injEq] at h
    · rw [← h.1]; exact su
    · rw [← h.1]
      have hocc : s.slots.filter (sameSlot U p) = [] := by
        simp only [conflicts, List.isEmpty_iff, List.append_eq_nil_iff, List.map_eq_nil_iff] at hc
        exact hc.2
      exact slotUnique_append su hocc
  | hardref r =>
    simp only [applyCmd, Option.some.injEq, Prod.mk.injEq] at h; rw [← h.1]; exact su
  | backref c p =>
    simp only [applyCmd, Option.some.injEq, Prod.mk.injEq] at h; rw [← h.1]; exact su
  | incref c b =>
    simp only [applyCmd, Option.some.injEq, Prod.mk.injEq] at h; rw [← h.1]; exact su
  | decref c b =>
    simp only [applyCmd, Option.map_eq_some_iff] at h
    obtain ⟨s1, h1, h2⟩ := h
    simp only [Prod.mk.injEq] at h2
    obtain ⟨_, rfl⟩ := decrefApply_some U h1
    rw [← h2.1]; exact su
  | remove c p =>
    simp only [applyCmd, Option.bind_eq_some_iff, removePkgBlockers] at h
    obtain ⟨sa, h1, sb, h2, sc, h3, h4⟩ := h
    obtain ⟨_, rfl⟩ := removeSlotting_some h1
    obtain ⟨_, rfl⟩ := delChoice_some h3
    simp only [Option.some.injEq, Prod.mk.injEq] at h4
    have hs := decrefAll_slots h2
    refine SlotUnique.of_sublist (s := s) ?_ su
    intro q hq
    rw [← h4.1] at hq
    simp only [push] at hq
    rw [hs] at hq
    exact (List.mem_filter.mp hq).1
  | replace c p f =>
    have hf : f = false := hu
    subst hf
    -- the slot holds exactly one package: contract of replace_op follows from uniqueness
    have happ : ∀ old, (occupants U s p).head? = some old → applicable U s (.replace c p false) = true := by
      intro old h0
      have hnd : (occupants U s p).Nodup := i.nodup.filter _
      have hall : ∀ x ∈ occupants U s p, x = old := by
        intro x hx
        have ho : old ∈ occupants U s p := List.mem_of_head? h0
        have hx' := List.mem_filter.mp hx
        have ho' := List.mem_filter.mp ho
        refine su x old hx'.1 ho'.1 ?_
        have a := hx'.2; have b := ho'.2
        simp only [sameSlot, Bool.and_eq_true, beq_iff_eq] at a b ⊢
        exact ⟨by rw [b.1, a.1], by rw [b.2, a.2]⟩
      simp only [applicable, beq_iff_eq]
      match hq : occupants U s p, hnd, hall with
      | [], _, _ => rw [hq] at h0; cases h0
      | [x], _, _ => rfl
      | x :: y :: l, nd, ha =>
        have hx := ha x (by simp); have hy := ha y (by simp)
        rw [hx, hy] at nd
        simp at nd
    have h' := h
    simp only [applyCmd, Option.bind_eq_some_iff, removePkgBlockers, conflictingSlot] at h
    obtain ⟨old, h0, sa, h1, oldc, hl, sb, h2, h3⟩ := h
    have ha := happ old h0
    obtain ⟨_, rfl⟩ := removeSlotting_some h1
    have hs := decrefAll_slots h2
    by_cases hr : (!(fillSlotting U sb p false).2.isEmpty && !false) = true
    · rcases apply_decomp_replace U i ha h' with ⟨es, _, _, _⟩ | ⟨hsim, _⟩
      · -- logged although refused: impossible, but either way the slot list is a permutation or an extension;
        -- use the refused characterisation instead
        simp only [hr, if_true, Option.map_eq_some_iff] at h3
        obtain ⟨s3, hb, h4⟩ := h3
        simp only [Prod.mk.injEq] at h4
        have ho : old ∈ s.slots := (List.mem_filter.mp (List.mem_of_head? h0)).1
        obtain ⟨s'', hb', hs'', _⟩ := replace_refused U i ho h2
        have hnot : ((conflicts U sb p).isEmpty || false) = false := by
          simp only [fillSlotting] at hr
          cases hc : (conflicts U sb p).isEmpty <;> simp_all
        have hr1 : (fillSlotting U sb p false).1 = sb := by simp [fillSlotting, hnot]
        rw [hr1, fill_force] at hb
        rw [hb] at hb'; simp only [Option.some.injEq] at hb'
        rw [← h4.1, hb']
        exact SlotUnique.of_perm hs''.slots.symm su
      · exact SlotUnique.of_perm hsim.slots.symm su
    · have hr' : (!(fillSlotting U sb p false).2.isEmpty && !false) = false := by simpa using hr
      simp only [hr', Bool.false_eq_true, if_false, Option.bind_eq_some_iff] at h3
      obtain ⟨sc, h5, h6⟩ := h3
      simp only [Option.some.injEq, Prod.mk.injEq] at h6
      have hemp : (conflicts U sb p).isEmpty = true := by
        simp only [fillSlotting] at hr'
        cases hc : (conflicts U sb p).isEmpty <;> simp_all
      have hr1 : (fillSlotting U sb p false).1 = { sb with slots := sb.slots ++ [p] } := by simp [fillSlotting, hemp]
      rw [hr1] at h5
      obtain ⟨_, rfl⟩ := delChoice_some h5
      rw [← h6.1]
      simp only [push, setChoice, hs]
      have hocc : (s.slots.filter (· != old)).filter (sameSlot U p) = [] := by
        simp only [conflicts, occupants, hs, List.isEmpty_iff, List.append_eq_nil_iff, List.map_eq_nil_iff] at hemp
        exact hemp.2
      exact slotUnique_append (fun a b ha' hb' => su a b (List.mem_filter.mp ha').1 (List.mem_filter.mp hb').1) hocc

theorem surviving_mem {h : List Step} {acc : List Cmd} {c : Cmd} (hc : c ∈ surviving h acc) : c ∈ acc ∨ Step.op c ∈ h := by
  induction h generalizing acc with
  | nil => exact .inl hc
  | cons st h ih =>
    cases st with
    | op d =>
      rcases ih hc with h1 | h1
      · simp only [List.mem_append, List.mem_singleton] at h1
        rcases h1 with h1 | rfl
        · exact .inl h1
        · exact .inr (by simp)
      · exact .inr (List.mem_cons_of_mem _ h1)
    | rollback j =>
      rcases ih hc with h1 | h1
      · exact .inl (List.mem_of_mem_take h1)
      · exact .inr (List.mem_cons_of_mem _ h1)

end Pkgcore.C17
