import Pkgcore.Spec.C14
/-! helper lemmas for C14 -/
set_option linter.unusedSectionVars false
namespace Pkgcore.C14
open Pkgcore.C14.Spec

variable {α : Type} [DecidableEq α] {β : Type} [DecidableEq β]

/-! ## the cache invariant -/

/-- every cache entry is from a generation not later than the current one, and an entry of the current
generation holds exactly the current USE set -/
def Inv (s : PW α β) : Prop :=
  ∀ a pt snap, s.cache a = some (pt, snap) → pt ≤ s.reusePt ∧ (pt = s.reusePt → snap = s.use.new)

theorem inv_init (initial : List α) : Inv (PW.init initial : PW α β) := by
  intro a pt snap h; simp [PW.init] at h

/-- bumping the generation (with any new USE set) keeps the invariant -/
theorem inv_bump (s : PW α β) (u : LCS α) (h : Inv s) : Inv { s with use := u, reusePt := s.reusePt + 1 } := by
  intro a pt snap hc
  have := h a pt snap hc
  exact ⟨by simp; omega, by intro e; simp at e; omega⟩

/-- keeping generation and `_new` keeps the invariant -/
theorem inv_same_new (s : PW α β) (u : LCS α) (hu : u.new = s.use.new) (h : Inv s) : Inv { s with use := u } := by
  intro a pt snap hc
  have := h a pt snap hc
  exact ⟨this.1, by intro e; simp [hu]; exact this.2 e⟩

theorem inv_store (s : PW α β) (attr : β) (h : Inv s) :
    Inv { s with cache := fun a => if a = attr then some (s.reusePt, s.use.new) else s.cache a } := by
  intro a pt snap hc
  simp only at hc
  split at hc
  · simp at hc; obtain ⟨rfl, rfl⟩ := hc; simp
  · exact h a pt snap hc

theorem inv_step (locked : α → Bool) (s : PW α β) (op : Op α β) (h : Inv s) :
    Inv (step Variant.fixed locked s op).1 := by
  cases op with
  | enable vals =>
    simp only [step]
    split
    · exact inv_bump s _ h
    · exact inv_bump s _ h
  | disable vals =>
    simp only [step]
    split
    · simpa [Variant.fixed] using inv_bump s _ h
    · exact inv_bump s _ h
    · rename_i u hu
      -- unreachable in the fixed variant, but harmless: nothing is known to have changed `_new`? it may have:
      -- so show it cannot happen
      exfalso
      have : ∀ (vals : List α) (t : LCS α), (removeAll locked true t vals).2 ≠ RemRes.keyError := by
        intro vals
        induction vals with
        | nil => intro t; simp [removeAll]
        | cons v vs ih =>
          intro t
          simp only [removeAll]
          split
          · exact ih _
          · simp
          · simpa using ih t
      exact this vals s.use (by simp only [Variant.fixed] at hu; rw [hu])
  | rollback point =>
    simp only [step]
    split
    · exact h
    · exact inv_bump s _ h
  | commit =>
    simpa [step, Variant.fixed] using inv_bump s s.use.commit h
  | read attr =>
    simp only [step]
    split
    · split
      · exact h
      · exact inv_store s attr h
    · exact inv_store s attr h
  | refusedWrapped => exact inv_bump s _ h
  | readFail attr => exact h

theorem inv_run (locked : α → Bool) (ops : List (Op α β)) (s : PW α β) (h : Inv s) :
    Inv (run Variant.fixed locked s ops).1 := by
  induction ops generalizing s with
  | nil => simpa [run]
  | cons op ops ih => simpa [run] using ih _ (inv_step locked s op h)

/-- under the invariant a read returns the current USE set -/
theorem read_of_inv (v : Variant) (locked : α → Bool) (s : PW α β) (h : Inv s) (attr : β) :
    (step v locked s (.read attr)).2 = .value s.use.new := by
  simp only [step]
  split
  · rename_i pt snap hc
    split
    · rename_i e; rw [(h attr pt snap hc).2 e]
    · rfl
  · rfl


/-! ## refused requests: rolling back to the entry point -/

theorem mem_setAdd (l : List α) (k f : α) : f ∈ LCS.setAdd l k ↔ f ∈ l ∨ f = k := by
  unfold LCS.setAdd
  split
  · constructor
    · exact Or.inl
    · rintro (h | rfl) <;> assumption
  · simp

theorem mem_setDel (l : List α) (k f : α) : f ∈ LCS.setDel l k ↔ f ∈ l ∧ f ≠ k := by
  simp [LCS.setDel]

theorem same_refl (u : LCS α) : Same u u := ⟨fun _ => Iff.rfl, fun _ => Iff.rfl, rfl⟩

theorem same_trans {a b c : LCS α} (h1 : Same a b) (h2 : Same b c) : Same a c :=
  ⟨fun f => (h1.1 f).trans (h2.1 f), fun f => (h1.2.1 f).trans (h2.2.1 f), h1.2.2.trans h2.2.2⟩

theorem popOne_same {a b : LCS α} (h : Same a b) : Same (LCS.popOne a) (LCS.popOne b) := by
  obtain ⟨hn, hc, hl⟩ := h
  unfold LCS.popOne
  rw [hl]
  split
  · exact ⟨hn, hc, hl⟩
  · rename_i c k rest hb
    refine ⟨?_, ?_, rfl⟩
    · intro f
      cases c <;> simp [mem_setAdd, mem_setDel, hn f]
    · intro f; simp [mem_setDel, hc f]

theorem popN_succ (n : Nat) (s : LCS α) : LCS.popN (n + 1) s = LCS.popOne (LCS.popN n s) := by
  induction n generalizing s with
  | zero => rfl
  | succ n ih => simp only [LCS.popN] at ih ⊢; rw [ih]

/-- no flag of the request is already enabled while still freely changeable (such an `add` changes nothing
but is logged, and snakeoil's `rollback` undoes it as if it had inserted the flag) -/
def EnableGuard (locked : α → Bool) (u : LCS α) (vals : List α) : Prop :=
  ∀ v ∈ vals, v ∈ u.new → (v ∈ u.changed ∨ locked v = true)

/-- no flag of the request is already disabled while still freely changeable -/
def DisableGuard (locked : α → Bool) (u : LCS α) (vals : List α) : Prop :=
  ∀ v ∈ vals, v ∉ u.new → (v ∈ u.changed ∨ locked v = true)

theorem addAll_rollback (locked : α → Bool) (vals : List α) (u : LCS α) (g : EnableGuard locked u vals) :
    u.count ≤ (addAll locked u vals).1.count ∧
    Same (LCS.popN ((addAll locked u vals).1.count - u.count) (addAll locked u vals).1) u := by
  induction vals generalizing u with
  | nil => simp [addAll, LCS.popN, same_refl]
  | cons v vs ih =>
    have gvs : EnableGuard locked u vs := fun w hw => g w (List.mem_cons_of_mem _ hw)
    by_cases hb : v ∈ u.changed ∨ locked v = true
    · by_cases hn : v ∈ u.new
      · simpa only [addAll, LCS.add, hb, hn, if_true] using ih u gvs
      · simp [addAll, LCS.add, hb, hn, LCS.popN, same_refl]
    · simp only [addAll, LCS.add, hb, if_false]
      have hvnew : v ∉ u.new := fun hv => hb (g v (List.mem_cons_self) hv)
      have hvch : v ∉ u.changed := fun hv => hb (Or.inl hv)
      let u' : LCS α := ⟨LCS.setAdd u.new v, v :: u.changed, (.added, v) :: u.log⟩
      have g' : EnableGuard locked u' vs := by
        intro w hw hwn
        rcases (mem_setAdd _ _ _).1 hwn with h | rfl
        · rcases gvs w hw h with h | h
          · exact Or.inl (List.mem_cons_of_mem _ h)
          · exact Or.inr h
        · exact Or.inl (List.mem_cons_self)
      obtain ⟨hle, hs⟩ := ih u' g'
      have hc : u'.count = u.count + 1 := by simp [u', LCS.count]
      show u.count ≤ (addAll locked u' vs).1.count ∧
        Same (LCS.popN ((addAll locked u' vs).1.count - u.count) (addAll locked u' vs).1) u
      refine ⟨by omega, ?_⟩
      have e : (addAll locked u' vs).1.count - u.count = ((addAll locked u' vs).1.count - u'.count) + 1 := by omega
      rw [e, popN_succ]
      refine same_trans (popOne_same hs) ?_
      refine ⟨?_, ?_, rfl⟩
      · intro f
        simp only [LCS.popOne, u', mem_setDel, mem_setAdd]
        constructor
        · rintro ⟨h | h, hne⟩
          · exact h
          · exact absurd h hne
        · intro h; exact ⟨Or.inl h, fun e => hvnew (e ▸ h)⟩
      · intro f
        simp only [LCS.popOne, u', mem_setDel, List.mem_cons]
        constructor
        · rintro ⟨h | h, hne⟩
          · exact absurd h hne
          · exact h
        · intro h; exact ⟨Or.inr h, fun e => hvch (e ▸ h)⟩

theorem removeAll_rollback (locked : α → Bool) (vals : List α) (u : LCS α) (g : DisableGuard locked u vals) :
    u.count ≤ (removeAll locked true u vals).1.count ∧
    Same (LCS.popN ((removeAll locked true u vals).1.count - u.count) (removeAll locked true u vals).1) u := by
  induction vals generalizing u with
  | nil => simp [removeAll, LCS.popN, same_refl]
  | cons v vs ih =>
    have gvs : DisableGuard locked u vs := fun w hw => g w (List.mem_cons_of_mem _ hw)
    by_cases hb : v ∈ u.changed ∨ locked v = true
    · by_cases hn : v ∈ u.new
      · simp [removeAll, LCS.remove, hb, hn, LCS.popN, same_refl]
      · simpa only [removeAll, LCS.remove, hb, hn, if_true, if_false] using ih u gvs
    · simp only [removeAll, LCS.remove, hb, if_false]
      have hvnew : v ∈ u.new := Classical.byContradiction fun hv => hb (g v (List.mem_cons_self) hv)
      have hvch : v ∉ u.changed := fun hv => hb (Or.inl hv)
      let u' : LCS α := ⟨LCS.setDel u.new v, v :: u.changed, (.removed, v) :: u.log⟩
      have g' : DisableGuard locked u' vs := by
        intro w hw hwn
        by_cases hwv : w = v
        · exact Or.inl (hwv ▸ List.mem_cons_self)
        · have : w ∉ u.new := fun h => hwn ((mem_setDel _ _ _).2 ⟨h, hwv⟩)
          rcases gvs w hw this with h | h
          · exact Or.inl (List.mem_cons_of_mem _ h)
          · exact Or.inr h
      obtain ⟨hle, hs⟩ := ih u' g'
      have hc : u'.count = u.count + 1 := by simp [u', LCS.count]
      show u.count ≤ (removeAll locked true u' vs).1.count ∧
        Same (LCS.popN ((removeAll locked true u' vs).1.count - u.count) (removeAll locked true u' vs).1) u
      refine ⟨by omega, ?_⟩
      have e : (removeAll locked true u' vs).1.count - u.count
          = ((removeAll locked true u' vs).1.count - u'.count) + 1 := by omega
      rw [e, popN_succ]
      refine same_trans (popOne_same hs) ?_
      refine ⟨?_, ?_, rfl⟩
      · intro f
        simp only [LCS.popOne, u', mem_setDel, mem_setAdd]
        constructor
        · rintro (⟨h, _⟩ | rfl)
          · exact h
          · exact hvnew
        · intro h
          by_cases e : f = v
          · exact Or.inr e
          · exact Or.inl ⟨h, e⟩
      · intro f
        simp only [LCS.popOne, u', mem_setDel, List.mem_cons]
        constructor
        · rintro ⟨h | h, hne⟩
          · exact absurd h hne
          · exact h
        · intro h; exact ⟨Or.inr h, fun e => hvch (e ▸ h)⟩


/-! ## the change log is consistent, so `rollback`'s `set.remove` calls never miss

`rollback` executes `self._changed.remove(key)` and, for an `added` entry, `self._new.remove(key)`; both would
raise `KeyError` on an absent key.  The model uses the total `setDel`; this invariant shows the difference is
unobservable on every reachable state. -/

def LogOk (u : LCS α) : Prop :=
  (u.log.map (·.2)).Nodup ∧ (∀ k, k ∈ u.changed ↔ k ∈ u.log.map (·.2)) ∧ (∀ k, (Chg.added, k) ∈ u.log → k ∈ u.new)

theorem logOk_init (initial : List α) : LogOk (LCS.init initial) := by
  simp [LogOk, LCS.init]

theorem logOk_commit (u : LCS α) : LogOk u.commit := by
  simp [LogOk, LCS.commit]

theorem logOk_add (locked : α → Bool) (u u' : LCS α) (k : α) (h : LogOk u) (e : LCS.add locked u k = .ok u') :
    LogOk u' := by
  unfold LCS.add at e
  by_cases hb : k ∈ u.changed ∨ locked k = true
  · by_cases hn : k ∈ u.new
    · simp [hb, hn] at e; exact e ▸ h
    · simp [hb, hn] at e
  · simp only [hb, if_false, Res.ok.injEq] at e
    subst e
    obtain ⟨h1, h2, h3⟩ := h
    have hk : k ∉ u.log.map (·.2) := fun hk => hb (Or.inl ((h2 k).2 hk))
    refine ⟨?_, ?_, ?_⟩
    · simpa using ⟨by simpa using hk, h1⟩
    · intro f; simp [h2 f]
    · intro f hf
      simp only [List.mem_cons, Prod.mk.injEq, true_and] at hf
      rcases hf with rfl | hf
      · exact (mem_setAdd _ _ _).2 (Or.inr rfl)
      · exact (mem_setAdd _ _ _).2 (Or.inl (h3 f hf))

theorem logOk_remove (locked : α → Bool) (u u' : LCS α) (k : α) (h : LogOk u) (e : LCS.remove locked u k = .ok u') :
    LogOk u' := by
  unfold LCS.remove at e
  by_cases hb : k ∈ u.changed ∨ locked k = true
  · by_cases hn : k ∈ u.new <;> simp [hb, hn] at e
  · simp only [hb, if_false, Res.ok.injEq] at e
    subst e
    obtain ⟨h1, h2, h3⟩ := h
    have hk : k ∉ u.log.map (·.2) := fun hk => hb (Or.inl ((h2 k).2 hk))
    refine ⟨?_, ?_, ?_⟩
    · simpa using ⟨by simpa using hk, h1⟩
    · intro f; simp [h2 f]
    · intro f hf
      simp only [List.mem_cons, Prod.mk.injEq, reduceCtorEq, false_and, false_or] at hf
      refine (mem_setDel _ _ _).2 ⟨h3 f hf, ?_⟩
      rintro rfl
      exact hk (List.mem_map.2 ⟨_, hf, rfl⟩)

theorem logOk_popOne (u : LCS α) (h : LogOk u) : LogOk (LCS.popOne u) := by
  unfold LCS.popOne
  split
  · exact h
  · rename_i c k rest hl
    obtain ⟨h1, h2, h3⟩ := h
    rw [hl] at h1 h2 h3
    simp only [List.map_cons, List.nodup_cons] at h1
    refine ⟨h1.2, ?_, ?_⟩
    · intro f
      simp only [mem_setDel, h2 f, List.map_cons, List.mem_cons]
      constructor
      · rintro ⟨rfl | h, hne⟩
        · exact absurd rfl hne
        · exact h
      · intro h; exact ⟨Or.inr h, fun e => h1.1 (e ▸ h)⟩
    · intro f hf
      have hfk : f ≠ k := fun e => h1.1 (e ▸ List.mem_map.2 ⟨_, hf, rfl⟩)
      have := h3 f (List.mem_cons_of_mem _ hf)
      cases c
      · exact (mem_setAdd _ _ _).2 (Or.inl this)
      · exact (mem_setDel _ _ _).2 ⟨this, hfk⟩

theorem logOk_popN (n : Nat) (u : LCS α) (h : LogOk u) : LogOk (LCS.popN n u) := by
  induction n generalizing u with
  | zero => exact h
  | succ n ih => exact ih _ (logOk_popOne u h)

theorem logOk_addAll (locked : α → Bool) (vals : List α) (u : LCS α) (h : LogOk u) :
    LogOk (addAll locked u vals).1 := by
  induction vals generalizing u with
  | nil => exact h
  | cons v vs ih =>
    simp only [addAll]
    split
    · rename_i s' e; exact ih _ (logOk_add locked u s' v h e)
    · exact h

theorem logOk_removeAll (locked : α → Bool) (c : Bool) (vals : List α) (u : LCS α) (h : LogOk u) :
    LogOk (removeAll locked c u vals).1 := by
  induction vals generalizing u with
  | nil => exact h
  | cons v vs ih =>
    simp only [removeAll]
    split
    · rename_i s' e; exact ih _ (logOk_remove locked u s' v h e)
    · exact h
    · split
      · exact ih _ h
      · exact h

theorem logOk_step (v : Variant) (locked : α → Bool) (s : PW α β) (op : Op α β) (h : LogOk s.use) :
    LogOk (step v locked s op).1.use := by
  cases op with
  | enable vals =>
    simp only [step]
    have := logOk_addAll locked vals s.use h
    split
    · rename_i u e; rw [e] at this; exact this
    · rename_i u e; rw [e] at this; exact logOk_popN _ _ this
  | disable vals =>
    simp only [step]
    have := logOk_removeAll locked v.keyErrorCaught vals s.use h
    split
    · rename_i u e; rw [e] at this; exact this
    · rename_i u e; rw [e] at this; exact logOk_popN _ _ this
    · rename_i u e; rw [e] at this; exact this
  | rollback point =>
    simp only [step, LCS.rollback]
    split
    · exact h
    · rename_i u e
      split at e
      · simp at e
      · simp only [Option.some.injEq] at e; subst e; exact logOk_popN _ _ h
  | commit => exact logOk_commit _
  | read attr =>
    simp only [step]
    split
    · split <;> exact h
    · exact h
  | refusedWrapped => exact logOk_popN _ _ h
  | readFail attr => exact h

theorem logOk_run (v : Variant) (locked : α → Bool) (ops : List (Op α β)) (s : PW α β) (h : LogOk s.use) :
    LogOk (run v locked s ops).1.use := by
  induction ops generalizing s with
  | nil => simpa [run]
  | cons op ops ih => simpa [run] using ih _ (logOk_step v locked s op h)

/-! ## bookkeeping for the property statements -/

theorem run_append (v : Variant) (locked : α → Bool) (s : PW α β) (xs ys : List (Op α β)) :
    run v locked s (xs ++ ys) =
      ((run v locked (run v locked s xs).1 ys).1, (run v locked s xs).2 ++ (run v locked (run v locked s xs).1 ys).2) := by
  induction xs generalizing s with
  | nil => simp [run]
  | cons x xs ih => simp [run, ih]

theorem run_outs_length (v : Variant) (locked : α → Bool) (s : PW α β) (xs : List (Op α β)) :
    (run v locked s xs).2.length = xs.length := by
  induction xs generalizing s with
  | nil => simp [run]
  | cons x xs ih => simp [run, ih]

/-- the guard of the partial theorems: the request names no flag whose `add`/`remove` is a logged no-op
(already enabled resp. already disabled, not locked, not yet changed since the last commit) -/
def OpGuard (locked : α → Bool) (u : LCS α) : Op α β → Prop
  | .enable vals => EnableGuard locked u vals
  | .disable vals => DisableGuard locked u vals
  | _ => True

theorem enableAll_eq (locked : α → Bool) (vals : List α) (u : LCS α) :
    enableAll locked u vals = if (addAll locked u vals).2 then some (addAll locked u vals).1 else none := by
  induction vals generalizing u with
  | nil => simp [enableAll, addAll]
  | cons v vs ih =>
    simp only [enableAll, addAll]
    split <;> simp_all

theorem disableAll_eq (locked : α → Bool) (vals : List α) (u : LCS α) :
    disableAll locked u vals =
      if (removeAll locked true u vals).2 = .done then some (removeAll locked true u vals).1 else none := by
  induction vals generalizing u with
  | nil => simp [disableAll, removeAll]
  | cons v vs ih =>
    simp only [disableAll, removeAll]
    split <;> simp_all

theorem removeAll_caught_ne_keyError (locked : α → Bool) (vals : List α) (t : LCS α) :
    (removeAll locked true t vals).2 ≠ RemRes.keyError := by
  induction vals generalizing t with
  | nil => simp [removeAll]
  | cons v vs ih =>
    simp only [removeAll]
    split
    · exact ih _
    · simp
    · simpa using ih t

end Pkgcore.C14
