import Pkgcore.Spec.C42
/-!
# C42 — helper lemmas

The proof device: `flat h i` is `flatten h i` with an extra marker `endOf j` at the end of every deque `j` met
on the way.  Appending items to deque `t` is then a *substitution* of the marker `endOf t` in every flattening
(`flat_push`).  The invariant `Inv` says that, after erasing the markers of deques that are not the tail of an
unmoved name, the flattening of the head of `k` is exactly `chain k cs` followed by the marker of the tail of
the current name of `k` (if that name is still unmoved).
-/
namespace Pkgcore.C42
open Spec

/-! ## specification side -/

/-- the name a package originally called `k` has after the commands `cs` -/
def cur (k : Key) : List Cmd → Key
  | [] => k
  | c :: cs => cur (rename k c) cs

theorem rename_of_ne {k : Key} {c : Cmd} (h : c.srcKey ≠ k) : rename k c = k := by
  cases c <;> simp_all [rename, Cmd.srcKey]

theorem chain_cons (k : Key) (c : Cmd) (cs : List Cmd) :
    chain k (c :: cs) = (if c.srcKey = k then [c] else []) ++ chain (rename k c) cs := by
  by_cases h : c.srcKey = k
  · simp [chain, h]
  · simp [chain, h, rename_of_ne h]

theorem chain_append (k : Key) (cs : List Cmd) (c : Cmd) :
    chain k (cs ++ [c]) = chain k cs ++ (if c.srcKey = cur k cs then [c] else []) := by
  induction cs generalizing k with
  | nil => by_cases h : c.srcKey = k <;> simp [chain, cur, h]
  | cons d ds ih =>
    rw [List.cons_append, chain_cons, chain_cons, ih, cur, List.append_assoc]

theorem cur_append (k : Key) (cs : List Cmd) (c : Cmd) : cur k (cs ++ [c]) = rename (cur k cs) c := by
  induction cs generalizing k with
  | nil => simp [cur]
  | cons d ds ih => simp [cur, ih]

theorem movedKeys_append (cs : List Cmd) (c : Cmd) :
    movedKeys (cs ++ [c]) = movedKeys cs ++ (match c with | .move s _ => [s.key] | .slotmove _ _ _ => []) := by
  cases c <;> simp [movedKeys, List.filterMap_append]

/-- a name that is the source of no command is reported nothing and keeps its name -/
theorem chain_nil_of_no_src (k : Key) (cs : List Cmd) (h : ∀ c ∈ cs, c.srcKey ≠ k) : chain k cs = [] ∧ cur k cs = k := by
  induction cs with
  | nil => simp [chain, cur]
  | cons d ds ih =>
    have hd : d.srcKey ≠ k := h d (by simp)
    have := ih (fun c hc => h c (by simp [hc]))
    simp [chain, cur, hd, rename_of_ne hd, this]

/-! ## heap access -/

theorem flatMap_congr' {α β : Type} {l : List α} {f g : α → List β} (h : ∀ a ∈ l, f a = g a) :
    l.flatMap f = l.flatMap g := by
  induction l with
  | nil => rfl
  | cons a l ih =>
    simp only [List.flatMap_cons]
    rw [h a (by simp), ih (fun b hb => h b (by simp [hb]))]

theorem node_append_nil (h : Heap) (i : Nat) : node (h ++ [[]]) i = node h i := by
  unfold node
  rw [List.getElem?_append]
  split
  · rfl
  · rename_i hi
    rw [List.getElem?_eq_none (Nat.le_of_not_lt hi)]
    cases hx : ([[]] : Heap)[i - h.length]? with
    | none => rfl
    | some v =>
      have : v ∈ ([[]] : Heap) := List.mem_of_getElem? hx
      simp at this; subst this; rfl

theorem node_ge (h : Heap) (i : Nat) (hi : h.length ≤ i) : node h i = [] := by
  unfold node; rw [List.getElem?_eq_none hi]; rfl

theorem length_push (h : Heap) (t : Nat) (X : List Item) : (push h t X).length = h.length := by
  simp [push]

theorem node_push (h : Heap) (t : Nat) (X : List Item) (ht : t < h.length) (i : Nat) :
    node (push h t X) i = if i = t then node h t ++ X else node h i := by
  unfold node push
  rw [List.getElem?_modify]
  by_cases hi : i = t
  · subst hi
    simp [List.getElem?_eq_getElem ht]
  · have : ¬ t = i := fun e => hi e.symm
    simp [hi, this]

/-! ## flattening with end markers -/

inductive Sym
  | cmd (c : Cmd)
  | endOf (n : Nat)
  deriving DecidableEq, Repr

def flat (h : Heap) (i : Nat) : List Sym :=
  ((node h i).flatMap fun it =>
    match it with
    | .cmd c => [Sym.cmd c]
    | .ref j => if _hj : i < j ∧ j < h.length then flat h j else []) ++ [Sym.endOf i]
termination_by h.length - i
decreasing_by omega

def itemSyms (h : Heap) (i : Nat) : Item → List Sym
  | .cmd c => [Sym.cmd c]
  | .ref j => if i < j ∧ j < h.length then flat h j else []

theorem flat_eq (h : Heap) (i : Nat) : flat h i = (node h i).flatMap (itemSyms h i) ++ [Sym.endOf i] := by
  rw [flat]
  congr 1

def cmdsOf (l : List Sym) : List Cmd :=
  l.filterMap fun s => match s with
    | .cmd c => some c
    | .endOf _ => none

/-- induction along forward references -/
theorem fwd_induction (n : Nat) (P : Nat → Prop) (step : ∀ i, (∀ j, i < j → j < n → P j) → P i) : ∀ i, P i := by
  have key : ∀ m i, n - i ≤ m → P i := by
    intro m
    induction m with
    | zero => intro i hi; exact step i (fun j h1 h2 => by omega)
    | succ m ih => intro i hi; exact step i (fun j h1 h2 => ih j (by omega))
  intro i; exact key (n - i) i (Nat.le_refl _)

theorem flatten_eq (h : Heap) : ∀ i, flatten h i = cmdsOf (flat h i) := by
  apply fwd_induction h.length
  intro i ih
  rw [flatten, flat_eq]
  simp only [cmdsOf, List.filterMap_append, List.filterMap_flatMap, List.filterMap_cons, List.filterMap_nil, List.append_nil]
  apply flatMap_congr'
  intro it _
  cases it with
  | cmd c => simp [itemSyms]
  | ref j =>
    by_cases hj : i < j ∧ j < h.length
    · simp only [itemSyms, hj, and_self, if_true, dite_true]
      rw [ih j hj.1 hj.2]; rfl
    · simp [itemSyms, hj]

def RefsOk (h : Heap) : Prop := ∀ i j, Item.ref j ∈ node h i → i < j ∧ j < h.length

/-- allocating a fresh deque changes no flattening -/
theorem flat_alloc (h : Heap) (ok : RefsOk h) : ∀ i, flat (h ++ [[]]) i = flat h i := by
  apply fwd_induction (h.length + 1)
  intro i ih
  rw [flat_eq, flat_eq, node_append_nil]
  congr 1
  apply flatMap_congr'
  intro it hit
  cases it with
  | cmd c => rfl
  | ref j =>
    have := ok i j hit
    have h1 : i < j ∧ j < (h ++ [[]]).length := ⟨this.1, by simp; omega⟩
    simp only [itemSyms, h1, this, and_self, if_true]
    exact ih j this.1 (by omega)

theorem flat_fresh (h : Heap) (i : Nat) (hi : h.length ≤ i) : flat h i = [Sym.endOf i] := by
  rw [flat_eq, node_ge h i hi]; rfl

/-- markers met while flattening `i` belong to deques `≥ i` that exist -/
theorem flat_marks (h : Heap) : ∀ i w, Sym.endOf w ∈ flat h i → i ≤ w ∧ (i < h.length → w < h.length) := by
  apply fwd_induction h.length (fun i => ∀ w, Sym.endOf w ∈ flat h i → i ≤ w ∧ (i < h.length → w < h.length))
  intro i ih w hw
  rw [flat_eq] at hw
  simp only [List.mem_append, List.mem_flatMap, List.mem_singleton] at hw
  rcases hw with ⟨it, _, hit⟩ | hw
  · cases it with
    | cmd c => simp [itemSyms] at hit
    | ref j =>
      by_cases hj : i < j ∧ j < h.length
      · simp only [itemSyms, hj, and_self, if_true] at hit
        have := ih j hj.1 hj.2 w hit
        exact ⟨by omega, fun _ => this.2 hj.2⟩
      · simp [itemSyms, hj] at hit
  · cases hw; exact ⟨Nat.le_refl _, id⟩

/-- substitution of the end marker of `t` -/
def subst (t : Nat) (Y : List Sym) (s : Sym) : List Sym :=
  if s = Sym.endOf t then Y ++ [Sym.endOf t] else [s]

/-- **appending items to deque `t` substitutes its end marker in every flattening** -/
theorem flat_push (h : Heap) (t : Nat) (X : List Item) (ht : t < h.length) :
    ∀ i, flat (push h t X) i = (flat h i).flatMap (subst t (X.flatMap (itemSyms (push h t X) t))) := by
  apply fwd_induction h.length
  intro i ih
  have items : ∀ Z : List Item, Z.flatMap (itemSyms (push h t X) i)
      = (Z.flatMap (itemSyms h i)).flatMap (subst t (X.flatMap (itemSyms (push h t X) t))) := by
    intro Z
    rw [List.flatMap_assoc]
    apply flatMap_congr'
    intro it _
    cases it with
    | cmd c => simp [itemSyms, subst]
    | ref j =>
      by_cases hj : i < j ∧ j < h.length
      · simp only [itemSyms, length_push, hj, and_self, if_true]
        exact ih j hj.1 hj.2
      · simp [itemSyms, length_push, hj]
  rw [flat_eq, flat_eq, node_push h t X ht]
  by_cases hi : i = t
  · subst hi
    simp only [if_true, List.flatMap_append, List.flatMap_cons, List.flatMap_nil, List.append_nil]
    rw [items]
    simp [subst]
  · simp only [hi, if_false, List.flatMap_append, List.flatMap_cons, List.flatMap_nil, List.append_nil]
    rw [items]
    have : Sym.endOf i ≠ Sym.endOf t := by intro e; cases e; exact hi rfl
    simp [subst, this]

/-! ## association lists -/

theorem assoc_append {β : Type} (k : Key) (l : List (Key × β)) (k' : Key) (v : β) :
    assoc k (l ++ [(k', v)]) = match assoc k l with
      | some x => some x
      | none => if k' = k then some v else none := by
  induction l with
  | nil => simp [assoc]
  | cons e l ih =>
    obtain ⟨a, b⟩ := e
    by_cases h : a = k <;> simp [assoc, h, ih]

theorem assoc_none_iff {β : Type} (k : Key) (l : List (Key × β)) : assoc k l = none ↔ k ∉ l.map (·.1) := by
  induction l with
  | nil => simp [assoc]
  | cons e l ih =>
    obtain ⟨a, b⟩ := e
    by_cases h : a = k
    · simp [assoc, h]
    · have h' : ¬ k = a := fun e => h e.symm
      simp [assoc, h, h', ih]

theorem mem_of_assoc {β : Type} {k : Key} {l : List (Key × β)} {v : β} (h : assoc k l = some v) : (k, v) ∈ l := by
  induction l with
  | nil => simp [assoc] at h
  | cons e l ih =>
    obtain ⟨a, b⟩ := e
    by_cases hk : a = k
    · simp [assoc, hk] at h; simp [hk, h]
    · simp [assoc, hk] at h; simp [ih h]

theorem assoc_of_mem {β : Type} {k : Key} {l : List (Key × β)} {v : β} (nd : (l.map (·.1)).Nodup)
    (h : (k, v) ∈ l) : assoc k l = some v := by
  induction l with
  | nil => simp at h
  | cons e l ih =>
    obtain ⟨a, b⟩ := e
    simp only [List.map_cons, List.nodup_cons, List.mem_map] at nd
    simp only [List.mem_cons, Prod.mk.injEq] at h
    rcases h with ⟨rfl, rfl⟩ | h
    · simp [assoc]
    · have : a ≠ k := by
        intro e; subst e
        exact nd.1 ⟨(a, v), h, rfl⟩
      simp [assoc, this, ih nd.2 h]

theorem keys_setTail (y : Key) (d : Nat) (mods : List (Key × Nat × Nat)) :
    (setTail y d mods).map (·.1) = mods.map (·.1) := by
  unfold setTail
  rw [List.map_map]
  apply List.map_congr_left
  intro e _
  by_cases h : e.1 = y <;> simp [h]

theorem assoc_setTail (y : Key) (d : Nat) (mods : List (Key × Nat × Nat)) (k : Key) :
    assoc k (setTail y d mods) = (assoc k mods).map fun v => if k = y then (v.1, d) else v := by
  induction mods with
  | nil => simp [setTail, assoc]
  | cons e l ih =>
    obtain ⟨a, b, c⟩ := e
    have ih' : assoc k (List.map (fun e => if e.1 = y then (e.1, e.2.1, d) else e) l)
        = (assoc k l).map fun v => if k = y then (v.1, d) else v := ih
    by_cases ha : a = k
    · subst ha
      by_cases hy : a = y <;> simp [setTail, assoc, hy]
    · by_cases hy : a = y
      · subst hy; simp [setTail, assoc, ha, ih']
      · simp [setTail, assoc, hy, ha, ih']

/-! ## the invariant -/

/-- deque `w` is the tail of a name that has not been moved: the only deques that can still receive commands -/
def liveW (mods : List (Key × Nat × Nat)) (moved : List Key) (w : Nat) : Bool :=
  mods.any fun e => decide (e.2.2 = w) && decide (e.1 ∉ moved)

def live (mods : List (Key × Nat × Nat)) (moved : List Key) : Sym → Bool
  | .cmd _ => true
  | .endOf w => liveW mods moved w

theorem liveW_iff {mods : List (Key × Nat × Nat)} {moved : List Key} {w : Nat} (nd : (mods.map (·.1)).Nodup) :
    liveW mods moved w = true ↔ ∃ k h, assoc k mods = some (h, w) ∧ k ∉ moved := by
  unfold liveW
  rw [List.any_eq_true]
  constructor
  · rintro ⟨⟨k, h, t⟩, hm, hp⟩
    simp only [Bool.and_eq_true, decide_eq_true_eq] at hp
    obtain ⟨rfl, hk⟩ := hp
    exact ⟨k, h, assoc_of_mem nd hm, hk⟩
  · rintro ⟨k, h, ha, hk⟩
    exact ⟨(k, h, w), mem_of_assoc ha, by simp [hk]⟩

def marker (st : St) (x : Key) : List Sym := if x ∈ st.moved then [] else [Sym.endOf (tailOf st x)]

structure Inv (st : St) (cs : List Cmd) : Prop where
  nodup : (st.mods.map (·.1)).Nodup
  refs : RefsOk st.heap
  ids : ∀ k h t, assoc k st.mods = some (h, t) → h < st.heap.length ∧ t < st.heap.length
  inj : ∀ k k' h h' t, assoc k st.mods = some (h, t) → assoc k' st.mods = some (h', t) → k = k'
  moved : ∀ k, k ∈ st.moved ↔ k ∈ movedKeys cs
  srcIn : ∀ c ∈ cs, (assoc c.srcKey st.mods).isSome
  curIn : ∀ k, (assoc k st.mods).isSome → (assoc (cur k cs) st.mods).isSome
  chainOk : ∀ k h t, assoc k st.mods = some (h, t) →
    (flat st.heap h).filter (live st.mods st.moved) = (chain k cs).map Sym.cmd ++ marker st (cur k cs)

theorem movedKeys_src {cs : List Cmd} {k : Key} (h : k ∈ movedKeys cs) : ∃ c ∈ cs, c.srcKey = k := by
  unfold movedKeys at h
  rw [List.mem_filterMap] at h
  obtain ⟨c, hc, hk⟩ := h
  cases c with
  | move s t => simp at hk; exact ⟨_, hc, hk⟩
  | slotmove s f t => simp at hk

theorem Inv.movedIn {st : St} {cs : List Cmd} (inv : Inv st cs) {k : Key} (h : k ∈ st.moved) :
    (assoc k st.mods).isSome := by
  obtain ⟨c, hc, rfl⟩ := movedKeys_src ((inv.moved k).1 h)
  exact inv.srcIn c hc

theorem Inv.absent {st : St} {cs : List Cmd} (inv : Inv st cs) {k : Key} (h : assoc k st.mods = none) :
    chain k cs = [] ∧ cur k cs = k := by
  apply chain_nil_of_no_src
  intro c hc e
  have := inv.srcIn c hc
  rw [e, h] at this
  simp at this

theorem inv_init : Inv St.init [] where
  nodup := by simp [St.init]
  refs := by intro i j h; simp [St.init, node] at h
  ids := by intro k h t e; simp [St.init, assoc] at e
  inj := by intro k k' h h' t e; simp [St.init, assoc] at e
  moved := by intro k; simp [St.init, movedKeys]
  srcIn := by intro c hc; simp at hc
  curIn := by intro k h; simp [St.init, assoc] at h
  chainOk := by intro k h t e; simp [St.init, assoc] at e

theorem filter_congr' {α : Type} {l : List α} {p q : α → Bool} (h : ∀ a ∈ l, p a = q a) : l.filter p = l.filter q := by
  induction l with
  | nil => rfl
  | cons a l ih =>
    simp only [List.filter_cons]
    rw [h a (by simp), ih (fun b hb => h b (by simp [hb]))]

theorem tailOf_eq {st : St} {k : Key} {h t : Nat} (e : assoc k st.mods = some (h, t)) : tailOf st k = t := by
  simp [tailOf, e]

/-! ## `mods[k]` on the defaultdict -/

theorem ensure_some {k : Key} {st : St} {v : Nat × Nat} (h : assoc k st.mods = some v) : ensure k st = st := by
  simp [ensure, h]

theorem ensure_isSome (k : Key) (st : St) : (assoc k (ensure k st).mods).isSome := by
  unfold ensure
  cases h : assoc k st.mods with
  | some v => simp [h]
  | none => simp [assoc_append, h]

theorem ensure_moved (k : Key) (st : St) : (ensure k st).moved = st.moved := by
  unfold ensure; cases assoc k st.mods <;> rfl

theorem ensure_inv {st : St} {cs : List Cmd} (inv : Inv st cs) (k : Key) : Inv (ensure k st) cs := by
  cases hk : assoc k st.mods with
  | some v => rw [ensure_some hk]; exact inv
  | none =>
    have hst : ensure k st = { st with heap := st.heap ++ [[]], mods := st.mods ++ [(k, st.heap.length, st.heap.length)] } := by
      simp [ensure, hk]
    rw [hst]
    have hnew : ∀ k' v, assoc k' (st.mods ++ [(k, st.heap.length, st.heap.length)]) = some v →
        assoc k' st.mods = some v ∨ (assoc k' st.mods = none ∧ k' = k ∧ v = (st.heap.length, st.heap.length)) := by
      intro k' v e
      rw [assoc_append] at e
      cases h' : assoc k' st.mods with
      | some x => rw [h'] at e; simp at e; left; simp [e]
      | none =>
        rw [h'] at e
        by_cases hkk : k = k'
        · simp [hkk] at e; right; simp [hkk, e]
        · simp [hkk] at e
    have hold : ∀ k' v, assoc k' st.mods = some v → assoc k' (st.mods ++ [(k, st.heap.length, st.heap.length)]) = some v := by
      intro k' v e; rw [assoc_append, e]
    have knm : k ∉ st.moved := fun hm => by have := inv.movedIn hm; rw [hk] at this; simp at this
    have nd' : ((st.mods ++ [(k, st.heap.length, st.heap.length)]).map (·.1)).Nodup := by
      rw [List.map_append, List.nodup_append]
      refine ⟨inv.nodup, by simp, ?_⟩
      intro a ha b hb
      simp at hb; subst hb
      intro e; subst e
      exact (assoc_none_iff _ _).1 hk ha
    -- liveness of old deques is unchanged
    have hlive : ∀ w, w < st.heap.length →
        liveW (st.mods ++ [(k, st.heap.length, st.heap.length)]) st.moved w = liveW st.mods st.moved w := by
      intro w hw
      rw [Bool.eq_iff_iff, liveW_iff nd', liveW_iff inv.nodup]
      constructor
      · rintro ⟨k', h, e, hm⟩
        rcases hnew k' _ e with e' | ⟨_, _, e'⟩
        · exact ⟨k', h, e', hm⟩
        · simp at e'; omega
      · rintro ⟨k', h, e, hm⟩
        exact ⟨k', h, hold _ _ e, hm⟩
    refine ⟨nd', ?_, ?_, ?_, inv.moved, ?_, ?_, ?_⟩
    · intro i j hj
      rw [node_append_nil] at hj
      have := inv.refs i j hj
      simp only [List.length_append, List.length_cons, List.length_nil]
      omega
    · intro k' h t e
      simp only [List.length_append, List.length_cons, List.length_nil]
      rcases hnew k' _ e with e' | ⟨_, _, e'⟩
      · have := inv.ids k' h t e'; omega
      · simp at e'; omega
    · intro k1 k2 h h' t e1 e2
      rcases hnew k1 _ e1 with e1' | ⟨_, r1, e1'⟩ <;> rcases hnew k2 _ e2 with e2' | ⟨_, r2, e2'⟩
      · exact inv.inj _ _ _ _ _ e1' e2'
      · simp at e2'; have := inv.ids _ _ _ e1'; omega
      · simp at e1'; have := inv.ids _ _ _ e2'; omega
      · rw [r1, r2]
    · intro c hc
      have := inv.srcIn c hc
      rw [Option.isSome_iff_exists] at this ⊢
      obtain ⟨v, hv⟩ := this
      exact ⟨v, hold _ _ hv⟩
    · intro k' hk'
      rw [Option.isSome_iff_exists] at hk' ⊢
      obtain ⟨v, hv⟩ := hk'
      rcases hnew k' _ hv with e' | ⟨e', r, _⟩
      · have := inv.curIn k' (by simp [e'])
        rw [Option.isSome_iff_exists] at this
        obtain ⟨v', hv'⟩ := this
        exact ⟨v', hold _ _ hv'⟩
      · rw [(inv.absent e').2]; exact ⟨v, hv⟩
    · intro k' h t e
      show (flat (st.heap ++ [[]]) h).filter (live (st.mods ++ [(k, st.heap.length, st.heap.length)]) st.moved) = _
      rw [flat_alloc _ inv.refs]
      rcases hnew k' _ e with e' | ⟨e', r, e''⟩
      · have hlt := inv.ids k' h t e'
        have hcur := inv.curIn k' (by simp [e'])
        rw [Option.isSome_iff_exists] at hcur
        obtain ⟨⟨hc, tc⟩, hv'⟩ := hcur
        have hm : marker { st with heap := st.heap ++ [[]], mods := st.mods ++ [(k, st.heap.length, st.heap.length)] } (cur k' cs)
            = marker st (cur k' cs) := by
          unfold marker
          simp only [tailOf, hold _ _ hv', hv']
        rw [hm, ← inv.chainOk k' h t e']
        apply filter_congr'
        intro s hs
        cases s with
        | cmd c => rfl
        | endOf w =>
          have := (flat_marks st.heap h w hs).2 hlt.1
          exact hlive w this
      · simp only [Prod.mk.injEq] at e''
        obtain ⟨rfl, rfl⟩ := e''
        subst r
        have hab := inv.absent e'
        rw [flat_fresh _ _ (Nat.le_refl _), hab.1, hab.2]
        have hl : liveW (st.mods ++ [(k', st.heap.length, st.heap.length)]) st.moved st.heap.length = true := by
          rw [liveW_iff nd']
          exact ⟨k', _, e, knm⟩
        simp [live, hl, marker, knm, tailOf, e]

/-! ## appending a slotmove -/

theorem flatMap_if_filter {α β : Type} (l : List α) (p : α → Bool) (f : α → List β) :
    l.flatMap (fun a => if p a then f a else []) = (l.filter p).flatMap f := by
  induction l with
  | nil => rfl
  | cons a l ih =>
    by_cases h : p a <;> simp [h, ih]

theorem flatMap_subst_cmds (t : Nat) (Y : List Sym) (cs : List Cmd) :
    (cs.map Sym.cmd).flatMap (subst t Y) = cs.map Sym.cmd := by
  induction cs with
  | nil => rfl
  | cons c cs ih => simp [subst, ih]

theorem slotmove_inv {st : St} {cs : List Cmd} (inv : Inv st cs) (src : Atom) (s2 s3 : String)
    (hx : (assoc src.key st.mods).isSome) (hm : src.key ∉ st.moved) :
    Inv { st with heap := push st.heap (tailOf st src.key) [.cmd (.slotmove src s2 s3)] } (cs ++ [.slotmove src s2 s3]) := by
  rw [Option.isSome_iff_exists] at hx
  obtain ⟨⟨hx, t⟩, ex⟩ := hx
  rw [tailOf_eq ex]
  have ht := (inv.ids _ _ _ ex).2
  have hcur : ∀ k, cur k (cs ++ [.slotmove src s2 s3]) = cur k cs := by
    intro k; rw [cur_append]; rfl
  have tlive : liveW st.mods st.moved t = true := (liveW_iff inv.nodup).2 ⟨_, _, ex, hm⟩
  refine ⟨inv.nodup, ?_, ?_, inv.inj, ?_, ?_, ?_, ?_⟩
  · intro i j hj
    rw [node_push _ _ _ ht] at hj
    rw [length_push]
    by_cases hi : i = t
    · simp only [hi, if_true, List.mem_append, List.mem_singleton] at hj
      rcases hj with hj | hj
      · exact hi ▸ inv.refs t j hj
      · cases hj
    · simp only [hi, if_false] at hj
      exact inv.refs i j hj
  · intro k h t' e
    rw [length_push]
    exact inv.ids k h t' e
  · intro k
    rw [movedKeys_append]
    simpa using inv.moved k
  · intro c hc
    rw [List.mem_append, List.mem_singleton] at hc
    rcases hc with hc | rfl
    · exact inv.srcIn c hc
    · simp [Cmd.srcKey, ex]
  · intro k hk
    rw [hcur]
    exact inv.curIn k hk
  · intro k h t' e
    show (flat (push st.heap t _) h).filter (live st.mods st.moved) = _
    rw [flat_push _ _ _ ht, hcur, chain_append, List.filter_flatMap]
    have hY : ([Item.cmd (Cmd.slotmove src s2 s3)].flatMap (itemSyms (push st.heap t [Item.cmd (Cmd.slotmove src s2 s3)]) t))
        = [Sym.cmd (Cmd.slotmove src s2 s3)] := by simp [itemSyms]
    rw [hY]
    have hf : (fun s => List.filter (live st.mods st.moved) (subst t [Sym.cmd (Cmd.slotmove src s2 s3)] s))
        = fun s => if live st.mods st.moved s then subst t [Sym.cmd (Cmd.slotmove src s2 s3)] s else [] := by
      funext s
      by_cases hs : s = Sym.endOf t
      · subst hs
        simp [subst, live, tlive]
      · by_cases hl : live st.mods st.moved s <;> simp [subst, hs, hl]
    rw [hf, flatMap_if_filter, inv.chainOk k h t' e, List.flatMap_append, flatMap_subst_cmds, List.map_append,
      List.append_assoc]
    congr 1
    have hmk : marker { st with heap := push st.heap t [Item.cmd (Cmd.slotmove src s2 s3)] } (cur k cs) = marker st (cur k cs) := rfl
    rw [hmk]
    have hcin := inv.curIn k (by simp [e])
    rw [Option.isSome_iff_exists] at hcin
    obtain ⟨⟨hc, tc⟩, ec⟩ := hcin
    by_cases hz : src.key = cur k cs
    · have : tc = t := by rw [← hz, ex] at ec; cases ec; rfl
      subst this
      have hm' : cur k cs ∉ st.moved := hz ▸ hm
      simp [Cmd.srcKey, hz, marker, hm', tailOf_eq ec, subst]
    · simp only [Cmd.srcKey, hz, if_false, List.map_nil, List.nil_append]
      unfold marker
      by_cases hmz : cur k cs ∈ st.moved
      · simp [hmz]
      · have : tc ≠ t := by
          intro e'; subst e'
          exact hz (inv.inj _ _ _ _ _ ex ec)
        have hne : Sym.endOf tc ≠ Sym.endOf t := by intro e'; cases e'; exact this rfl
        simp [hmz, tailOf_eq ec, subst, hne]

/-! ## appending a move -/

theorem flat_move (h : Heap) (ok : RefsOk h) (t u : Nat) (ht : t < h.length) (hu : u < h.length) (c : Cmd) :
    ∀ i, flat (push (push (h ++ [[]]) t [.cmd c, .ref h.length]) u [.ref h.length]) i
      = ((flat h i).flatMap (subst t [Sym.cmd c, Sym.endOf h.length])).flatMap (subst u [Sym.endOf h.length]) := by
  intro i
  have l1 : (h ++ [[]]).length = h.length + 1 := by simp
  have ht1 : t < (h ++ [[]]).length := by omega
  have hu2 : u < (push (h ++ [[]]) t [.cmd c, .ref h.length]).length := by rw [length_push]; omega
  have n2 : node (push (h ++ [[]]) t [.cmd c, .ref h.length]) h.length = [] := by
    rw [node_push _ _ _ ht1, if_neg (by omega), node_append_nil, node_ge _ _ (Nat.le_refl _)]
  have f2 : flat (push (h ++ [[]]) t [.cmd c, .ref h.length]) h.length = [Sym.endOf h.length] := by
    rw [flat_eq, n2]; rfl
  have n3 : node (push (push (h ++ [[]]) t [.cmd c, .ref h.length]) u [.ref h.length]) h.length = [] := by
    rw [node_push _ _ _ hu2, if_neg (by omega), n2]
  have f3 : flat (push (push (h ++ [[]]) t [.cmd c, .ref h.length]) u [.ref h.length]) h.length = [Sym.endOf h.length] := by
    rw [flat_eq, n3]; rfl
  rw [flat_push _ _ _ hu2, flat_push _ _ _ ht1, flat_alloc _ ok]
  have y1 : ([Item.cmd c, Item.ref h.length].flatMap (itemSyms (push (h ++ [[]]) t [.cmd c, .ref h.length]) t))
      = [Sym.cmd c, Sym.endOf h.length] := by
    simp only [List.flatMap_cons, List.flatMap_nil, itemSyms, length_push, l1, List.append_nil]
    rw [if_pos ⟨ht, by omega⟩, f2]; rfl
  have y2 : ([Item.ref h.length].flatMap (itemSyms (push (push (h ++ [[]]) t [.cmd c, .ref h.length]) u [.ref h.length]) u))
      = [Sym.endOf h.length] := by
    simp only [List.flatMap_cons, List.flatMap_nil, itemSyms, length_push, l1, List.append_nil]
    rw [if_pos ⟨hu, by omega⟩, f3]
  rw [y1, y2]

theorem node_move (h : Heap) (t u : Nat) (ht : t < h.length) (hu : u < h.length) (X1 X2 : List Item) (i : Nat) :
    node (push (push (h ++ [[]]) t X1) u X2) i
      = (node h i ++ if i = t then X1 else []) ++ if i = u then X2 else [] := by
  have ht1 : t < (h ++ [[]]).length := by simp; omega
  have hu2 : u < (push (h ++ [[]]) t X1).length := by rw [length_push]; simp; omega
  simp only [node_push _ _ _ hu2, node_push _ _ _ ht1, node_append_nil]
  by_cases hiu : i = u
  · subst hiu
    by_cases hit : i = t <;> simp [hit]
  · by_cases hit : i = t
    · subst hit; simp [hiu]
    · simp [hit, hiu]

theorem filter_pair {α : Type} (p : α → Bool) (a b : α) : [a, b].filter p = [a].filter p ++ [b].filter p := by
  by_cases h : p a <;> simp [List.filter_cons, h]

theorem flatMap_cmds_id (τ : Sym → List Sym) (hτ : ∀ c, τ (Sym.cmd c) = [Sym.cmd c]) (cs : List Cmd) :
    (cs.map Sym.cmd).flatMap τ = cs.map Sym.cmd := by
  induction cs with
  | nil => rfl
  | cons c cs ih => simp [hτ, ih]

theorem move_inv {st : St} {cs : List Cmd} (inv : Inv st cs) (src trg : Atom)
    (hx : (assoc src.key st.mods).isSome) (hy : (assoc trg.key st.mods).isSome) (hm : src.key ∉ st.moved) :
    Inv { heap := push (push (st.heap ++ [[]]) (tailOf st src.key) [.cmd (.move src trg), .ref st.heap.length])
                    (tailOf st trg.key) [.ref st.heap.length],
          mods := setTail trg.key st.heap.length st.mods,
          moved := src.key :: st.moved } (cs ++ [.move src trg]) := by
  rw [Option.isSome_iff_exists] at hx hy
  obtain ⟨⟨hdx, t⟩, ex⟩ := hx
  obtain ⟨⟨hdy, u⟩, ey⟩ := hy
  rw [tailOf_eq ex, tailOf_eq ey]
  have ht := (inv.ids _ _ _ ex).2
  have hu := (inv.ids _ _ _ ey).2
  have nd' : ((setTail trg.key st.heap.length st.mods).map (·.1)).Nodup := by rw [keys_setTail]; exact inv.nodup
  have l3 : (push (push (st.heap ++ [[]]) t [.cmd (.move src trg), .ref st.heap.length]) u [.ref st.heap.length]).length
      = st.heap.length + 1 := by simp [length_push]
  have ht1 : t < (st.heap ++ [[]]).length := by simp; omega
  have hu2 : u < (push (st.heap ++ [[]]) t [.cmd (.move src trg), .ref st.heap.length]).length := by
    rw [length_push]; simp; omega
  -- entries of the new mods
  have anew : ∀ k h w, assoc k (setTail trg.key st.heap.length st.mods) = some (h, w) →
      (k = trg.key ∧ w = st.heap.length ∧ h = hdy) ∨ (k ≠ trg.key ∧ assoc k st.mods = some (h, w)) := by
    intro k h w e
    rw [assoc_setTail] at e
    cases hk : assoc k st.mods with
    | none => rw [hk] at e; simp at e
    | some v =>
      rw [hk] at e
      by_cases hky : k = trg.key
      · subst hky
        rw [ey] at hk; cases hk
        simp at e
        left; simp [e.1.symm, e.2.symm]
      · simp [hky] at e
        right; exact ⟨hky, by rw [e]⟩
  have aold : ∀ k h w, k ≠ trg.key → assoc k st.mods = some (h, w) →
      assoc k (setTail trg.key st.heap.length st.mods) = some (h, w) := by
    intro k h w hk e
    rw [assoc_setTail, e]; simp [hk]
  have atrg : assoc trg.key (setTail trg.key st.heap.length st.mods) = some (hdy, st.heap.length) := by
    rw [assoc_setTail, ey]; simp
  -- liveness after the move
  have La : ∀ w, w < st.heap.length → w ≠ t → w ≠ u →
      liveW (setTail trg.key st.heap.length st.mods) (src.key :: st.moved) w = liveW st.mods st.moved w := by
    intro w hw hwt hwu
    rw [Bool.eq_iff_iff, liveW_iff nd', liveW_iff inv.nodup]
    constructor
    · rintro ⟨k, h, e, hk⟩
      rcases anew k h w e with ⟨_, r, _⟩ | ⟨_, e'⟩
      · omega
      · exact ⟨k, h, e', fun hmm => hk (by simp [hmm])⟩
    · rintro ⟨k, h, e, hk⟩
      have hky : k ≠ trg.key := by intro r; subst r; rw [ey] at e; cases e; exact hwu rfl
      have hkx : k ≠ src.key := by intro r; subst r; rw [ex] at e; cases e; exact hwt rfl
      exact ⟨k, h, aold k h w hky e, by simp [hkx, hk]⟩
  have Lb : liveW (setTail trg.key st.heap.length st.mods) (src.key :: st.moved) t = false := by
    rw [Bool.eq_false_iff]
    intro hl
    rw [liveW_iff nd'] at hl
    obtain ⟨k, h, e, hk⟩ := hl
    rcases anew k h t e with ⟨_, r, _⟩ | ⟨_, e'⟩
    · omega
    · exact hk (by simp [inv.inj _ _ _ _ _ e' ex])
  have Lc : liveW (setTail trg.key st.heap.length st.mods) (src.key :: st.moved) u = false := by
    rw [Bool.eq_false_iff]
    intro hl
    rw [liveW_iff nd'] at hl
    obtain ⟨k, h, e, hk⟩ := hl
    rcases anew k h u e with ⟨_, r, _⟩ | ⟨hne, e'⟩
    · omega
    · exact hne (inv.inj _ _ _ _ _ e' ey)
  have Ld : liveW (setTail trg.key st.heap.length st.mods) (src.key :: st.moved) st.heap.length
      = decide (trg.key ∉ st.moved ∧ trg.key ≠ src.key) := by
    rw [Bool.eq_iff_iff, liveW_iff nd', decide_eq_true_iff]
    constructor
    · rintro ⟨k, h, e, hk⟩
      rcases anew k h _ e with ⟨r, _, _⟩ | ⟨_, e'⟩
      · subst r
        simp at hk
        exact ⟨hk.2, hk.1⟩
      · have := (inv.ids _ _ _ e').2; omega
    · rintro ⟨h1, h2⟩
      exact ⟨trg.key, hdy, atrg, by simp [h1, h2]⟩
  have ulive : liveW st.mods st.moved u = decide (trg.key ∉ st.moved) := by
    rw [Bool.eq_iff_iff, liveW_iff inv.nodup, decide_eq_true_iff]
    constructor
    · rintro ⟨k, h, e, hk⟩
      rw [← inv.inj _ _ _ _ _ e ey]; exact hk
    · intro h; exact ⟨_, _, ey, h⟩
  have tlive : liveW st.mods st.moved t = true := (liveW_iff inv.nodup).2 ⟨_, _, ex, hm⟩
  have tu : t = u ↔ src.key = trg.key := by
    constructor
    · intro e; subst e; exact inv.inj _ _ _ _ _ ex ey
    · intro e; rw [e, ey] at ex; cases ex; rfl
  have hcur : ∀ k, cur k (cs ++ [.move src trg]) = if src.key = cur k cs then trg.key else cur k cs := by
    intro k; rw [cur_append]; rfl
  refine ⟨nd', ?_, ?_, ?_, ?_, ?_, ?_, ?_⟩
  · -- refs
    intro i j hj
    rw [l3]
    rw [node_move _ _ _ ht hu] at hj
    simp only [List.mem_append] at hj
    rcases hj with (hj | hj) | hj
    · have := inv.refs i j hj; omega
    · by_cases hit : i = t
      · simp only [hit, if_true, List.mem_cons, List.mem_nil_iff, or_false] at hj
        rcases hj with hj | hj
        · cases hj
        · cases hj; omega
      · simp [hit] at hj
    · by_cases hiu : i = u
      · simp only [hiu, if_true, List.mem_cons, List.mem_nil_iff, or_false] at hj
        cases hj; omega
      · simp [hiu] at hj
  · -- ids
    intro k h w e
    rw [l3]
    rcases anew k h w e with ⟨_, r, r'⟩ | ⟨_, e'⟩
    · have := (inv.ids _ _ _ ey).1; omega
    · have := inv.ids _ _ _ e'; omega
  · -- inj
    intro k k' h h' w e e'
    rcases anew k h w e with ⟨r1, r2, _⟩ | ⟨_, e1⟩ <;> rcases anew k' h' w e' with ⟨r1', r2', _⟩ | ⟨_, e1'⟩
    · rw [r1, r1']
    · have := (inv.ids _ _ _ e1').2; omega
    · have := (inv.ids _ _ _ e1).2; omega
    · exact inv.inj _ _ _ _ _ e1 e1'
  · -- moved
    intro k
    rw [movedKeys_append]
    simp only [List.mem_cons, List.mem_append, inv.moved k, List.not_mem_nil, or_false]
    exact Or.comm
  · -- srcIn
    intro c hc
    rw [List.mem_append, List.mem_singleton] at hc
    have keep : ∀ k, (assoc k st.mods).isSome → (assoc k (setTail trg.key st.heap.length st.mods)).isSome := by
      intro k hk; rw [assoc_setTail]; simpa using hk
    rcases hc with hc | rfl
    · exact keep _ (inv.srcIn c hc)
    · exact keep _ (by simp [Cmd.srcKey, ex])
  · -- curIn
    intro k hk
    have keep : ∀ k, (assoc k st.mods).isSome → (assoc k (setTail trg.key st.heap.length st.mods)).isSome := by
      intro k hk; rw [assoc_setTail]; simpa using hk
    have hk' : (assoc k st.mods).isSome := by rw [assoc_setTail] at hk; simpa using hk
    rw [hcur]
    split
    · exact keep _ (by simp [ey])
    · exact keep _ (inv.curIn k hk')
  · -- chainOk
    intro k h w e
    have eold : ∃ w0, assoc k st.mods = some (h, w0) := by
      rcases anew k h w e with ⟨r, _, r'⟩ | ⟨_, e'⟩
      · exact ⟨u, by rw [r, r']; exact ey⟩
      · exact ⟨w, e'⟩
    obtain ⟨w0, e0⟩ := eold
    have hlt := (inv.ids _ _ _ e0).1
    show List.filter (live (setTail trg.key st.heap.length st.mods) (src.key :: st.moved))
      (flat (push (push (st.heap ++ [[]]) t [.cmd (.move src trg), .ref st.heap.length]) u [.ref st.heap.length]) h) = _
    rw [flat_move _ inv.refs _ _ ht hu, List.filter_flatMap, List.flatMap_assoc]
    -- what one symbol of the old flattening becomes
    let D : List Sym := if trg.key ∉ st.moved ∧ trg.key ≠ src.key then [Sym.endOf st.heap.length] else []
    let τ : Sym → List Sym := fun s => match s with
      | .cmd c' => [Sym.cmd c']
      | .endOf w => if w = t then Sym.cmd (.move src trg) :: D else if w = u then D
                    else if liveW st.mods st.moved w then [Sym.endOf w] else []
    have hD : List.filter (live (setTail trg.key st.heap.length st.mods) (src.key :: st.moved)) [Sym.endOf st.heap.length] = D := by
      simp only [List.filter_cons, List.filter_nil, live, Ld, D]
      by_cases hh : trg.key ∉ st.moved ∧ trg.key ≠ src.key <;> simp [hh]
    have fcmd : ∀ c', List.filter (live (setTail trg.key st.heap.length st.mods) (src.key :: st.moved)) [Sym.cmd c'] = [Sym.cmd c'] := by
      intro c'; simp [live]
    have ft : List.filter (live (setTail trg.key st.heap.length st.mods) (src.key :: st.moved)) [Sym.endOf t] = [] := by
      simp [live, Lb]
    have fu : List.filter (live (setTail trg.key st.heap.length st.mods) (src.key :: st.moved)) [Sym.endOf u] = [] := by
      simp [live, Lc]
    have hτ : ∀ s ∈ flat st.heap h,
        List.flatMap (fun a => List.filter (live (setTail trg.key st.heap.length st.mods) (src.key :: st.moved))
            (subst u [Sym.endOf st.heap.length] a)) (subst t [Sym.cmd (.move src trg), Sym.endOf st.heap.length] s) = τ s := by
      intro s hs
      cases s with
      | cmd c' => simp [subst, live, τ]
      | endOf w =>
        have hw : w < st.heap.length := (flat_marks _ _ _ hs).2 hlt
        have hwd : Sym.endOf w ≠ Sym.endOf st.heap.length := by intro r; cases r; omega
        have hdu : Sym.endOf st.heap.length ≠ Sym.endOf u := by intro r; cases r; omega
        have hcu : ∀ c', Sym.cmd c' ≠ Sym.endOf u := by intro c' r; cases r
        by_cases hwt : w = t
        · subst hwt
          by_cases hwu : w = u
          · subst hwu
            have hD0 : D = [] := by
              have : ¬ (trg.key ∉ st.moved ∧ trg.key ≠ src.key) := fun hh => hh.2 (tu.1 rfl).symm
              simp [D, this]
            simp only [subst, if_true, List.cons_append, List.nil_append, List.flatMap_cons, List.flatMap_nil, hcu, hdu,
              if_false, filter_pair, fcmd, hD, ft, hD0, List.append_nil, τ]
          · have hne : Sym.endOf w ≠ Sym.endOf u := by intro r; cases r; exact hwu rfl
            simp only [subst, if_true, List.cons_append, List.nil_append, List.flatMap_cons, List.flatMap_nil, hcu, hdu, hne,
              if_false, fcmd, hD, ft, List.append_nil, τ]
        · have hne : Sym.endOf w ≠ Sym.endOf t := by intro r; cases r; exact hwt rfl
          by_cases hwu : w = u
          · subst hwu
            simp only [subst, hne, if_true, if_false, List.cons_append, List.nil_append, List.flatMap_cons, List.flatMap_nil,
              filter_pair, hD, fu, List.append_nil, τ, hwt]
          · have hne' : Sym.endOf w ≠ Sym.endOf u := by intro r; cases r; exact hwu rfl
            simp only [subst, hne, hne', if_false, List.flatMap_cons, List.flatMap_nil, List.append_nil, τ, hwt, hwu]
            simp only [List.filter_cons, List.filter_nil, live, La w hw hwt hwu]
    rw [flatMap_congr' hτ]
    have hdead : ∀ s, τ s = if live st.mods st.moved s then τ s else [] := by
      intro s
      cases s with
      | cmd c' => simp [live]
      | endOf w =>
        by_cases hl : liveW st.mods st.moved w
        · simp [live, hl]
        · have hwt : w ≠ t := by intro r; subst r; exact hl tlive
          simp only [live, hl, τ, hwt, if_false]
          by_cases hwu : w = u
          · subst hwu
            rw [ulive] at hl
            simp at hl
            simp [D, hl]
          · simp [hwu]
    have : (flat st.heap h).flatMap τ = (flat st.heap h).flatMap (fun s => if live st.mods st.moved s then τ s else []) :=
      flatMap_congr' (fun s _ => hdead s)
    rw [this, flatMap_if_filter, inv.chainOk k h w0 e0, List.flatMap_append, flatMap_cmds_id τ (fun c => rfl),
      chain_append, List.map_append, List.append_assoc]
    congr 1
    rw [hcur]
    -- the marker
    have hcin := inv.curIn k (by simp [e0])
    rw [Option.isSome_iff_exists] at hcin
    obtain ⟨⟨hc, tc⟩, ec⟩ := hcin
    have tnew : tailOf (⟨push (push (st.heap ++ [[]]) t [.cmd (.move src trg), .ref st.heap.length]) u [.ref st.heap.length],
          setTail trg.key st.heap.length st.mods, src.key :: st.moved⟩ : St) trg.key = st.heap.length := by
      simp [tailOf, atrg]
    by_cases hz : src.key = cur k cs
    · -- the chain of k currently ends at src: it gets the move and continues at trg
      rw [← hz] at ec ⊢
      have : tc = t := by rw [ex] at ec; cases ec; rfl
      subst this
      simp only [Cmd.srcKey, if_true, marker, hm, if_false, tailOf_eq ex, List.flatMap_cons, List.flatMap_nil,
        List.append_nil, τ, List.map_cons, List.map_nil, tnew, List.mem_cons]
      by_cases hh : trg.key ∉ st.moved ∧ trg.key ≠ src.key
      · have h1 : ¬ (trg.key = src.key ∨ trg.key ∈ st.moved) := by
          rintro (r | r)
          · exact hh.2 r
          · exact hh.1 r
        have hDval : D = [Sym.endOf st.heap.length] := if_pos hh
        rw [hDval, if_neg h1]; rfl
      · have h1 : (trg.key = src.key ∨ trg.key ∈ st.moved) := by
          by_cases r : trg.key ∈ st.moved
          · exact Or.inr r
          · left
            have : ¬ trg.key ≠ src.key := fun r' => hh ⟨r, r'⟩
            exact Classical.not_not.1 this
        have hDval : D = [] := if_neg hh
        rw [hDval, if_pos h1]; rfl
    · simp only [Cmd.srcKey, hz, if_false, List.map_nil, List.nil_append]
      unfold marker
      by_cases hmz : cur k cs ∈ st.moved
      · simp [hmz]
      · have hzx : ¬ cur k cs = src.key := fun r => hz r.symm
        have hne : tc ≠ t := by
          intro r; subst r
          exact hz (inv.inj _ _ _ _ _ ex ec)
        have clive : liveW st.mods st.moved tc = true := (liveW_iff inv.nodup).2 ⟨_, _, ec, hmz⟩
        simp only [hmz, if_false, tailOf_eq ec, List.flatMap_cons, List.flatMap_nil, List.append_nil, τ, hne,
          List.mem_cons, hzx, false_or]
        by_cases hzy : cur k cs = trg.key
        · have : tc = u := by rw [hzy, ey] at ec; cases ec; rfl
          subst this
          have h1 : trg.key ∉ st.moved ∧ trg.key ≠ src.key := ⟨hzy ▸ hmz, fun r => hz (r ▸ hzy).symm⟩
          have hDval : D = [Sym.endOf st.heap.length] := if_pos h1
          simp only [if_true]
          rw [hDval, hzy, tnew]
        · have : tc ≠ u := by
            intro r; subst r
            exact hzy (inv.inj _ _ _ _ _ ec ey)
          simp only [this, if_false, clive, if_true]
          have : tailOf (⟨push (push (st.heap ++ [[]]) t [.cmd (.move src trg), .ref st.heap.length]) u [.ref st.heap.length],
              setTail trg.key st.heap.length st.mods, src.key :: st.moved⟩ : St) (cur k cs) = tc := by
            simp [tailOf, aold _ _ _ hzy ec]
          rw [this]

/-! ## one line, all lines, all files -/

theorem ensure_keeps {k k' : Key} {st : St} (h : (assoc k st.mods).isSome) : (assoc k (ensure k' st).mods).isSome := by
  unfold ensure
  cases hk : assoc k' st.mods with
  | some v => simpa using h
  | none =>
    rw [Option.isSome_iff_exists] at h
    obtain ⟨v, hv⟩ := h
    simp [assoc_append, hv]

theorem doMove_inv {st : St} {cs : List Cmd} (inv : Inv st cs) (src trg : Atom) (hm : src.key ∉ st.moved) :
    Inv (doMove st src trg) (cs ++ [.move src trg]) := by
  have inv2 := ensure_inv (ensure_inv inv src.key) trg.key
  have h1 : (assoc src.key (ensure trg.key (ensure src.key st)).mods).isSome := ensure_keeps (ensure_isSome _ _)
  have h2 : (assoc trg.key (ensure trg.key (ensure src.key st)).mods).isSome := ensure_isSome _ _
  have hm2 : src.key ∉ (ensure trg.key (ensure src.key st)).moved := by rw [ensure_moved, ensure_moved]; exact hm
  exact move_inv inv2 src trg h1 h2 hm2

theorem doSlotmove_inv {st : St} {cs : List Cmd} (inv : Inv st cs) (src : Atom) (s2 s3 : String) (hm : src.key ∉ st.moved) :
    Inv (doSlotmove st src s2 s3) (cs ++ [.slotmove src s2 s3]) := by
  have inv1 := ensure_inv inv src.key
  have hm1 : src.key ∉ (ensure src.key st).moved := by rw [ensure_moved]; exact hm
  exact slotmove_inv inv1 src s2 s3 (ensure_isSome _ _) hm1

/-- a malformed line leaves the state untouched -/
theorem processLine_malformed (st : St) (line : List Tok) (h : wellFormed line = none) : processLine st line = st := by
  rcases line with _ | ⟨w, _ | ⟨a, _ | ⟨b, _ | ⟨c, _ | ⟨d, rest⟩⟩⟩⟩⟩
  · rfl
  · by_cases h1 : w.text = "move" <;> by_cases h2 : w.text = "slotmove" <;> simp [processLine, h1, h2]
  · by_cases h1 : w.text = "move" <;> by_cases h2 : w.text = "slotmove" <;> simp [processLine, h1, h2]
  · by_cases h1 : w.text = "move"
    · simp only [wellFormed, h1, if_true] at h
      cases ha : a.atom with
      | none => simp [processLine, h1, ha]
      | some s =>
        cases hb : b.atom with
        | none => simp [processLine, h1, ha, hb]
        | some t =>
          simp only [ha, hb] at h
          cases hs : s.versioned <;> cases ht : t.versioned <;> simp [processLine, h1, ha, hb, hs, ht] at h ⊢
    · by_cases h2 : w.text = "slotmove" <;> simp [processLine, h1, h2]
  · by_cases h1 : w.text = "move"
    · simp [processLine, h1]
    · by_cases h2 : w.text = "slotmove"
      · simp only [wellFormed, h2, if_true] at h
        cases ha : a.atom with
        | none => simp [processLine, h2, ha]
        | some s =>
          simp only [ha] at h
          cases hs : s.slotted <;> cases hb : b.slotOk <;> cases hc : c.slotOk <;>
            simp [processLine, h2, ha, hs, hb, hc] at h ⊢
      · simp [processLine, h1, h2]
  · by_cases h1 : w.text = "move" <;> by_cases h2 : w.text = "slotmove" <;> simp [processLine, h1, h2]

/-- a well-formed command whose source has already been moved leaves the state untouched -/
theorem processLine_redundant (st : St) (line : List Tok) (c : Cmd) (h : wellFormed line = some c)
    (hm : c.srcKey ∈ st.moved) : processLine st line = st := by
  rcases line with _ | ⟨w, _ | ⟨a, _ | ⟨b, _ | ⟨d, _ | ⟨e, rest⟩⟩⟩⟩⟩
  · simp [wellFormed] at h
  · simp [wellFormed] at h
  · simp [wellFormed] at h
  · by_cases h1 : w.text = "move"
    · simp only [wellFormed, h1, if_true] at h
      cases ha : a.atom with
      | none => simp [ha] at h
      | some s =>
        cases hb : b.atom with
        | none => simp [ha, hb] at h
        | some t =>
          simp only [ha, hb] at h
          cases hs : s.versioned <;> cases ht : t.versioned <;> simp [hs, ht] at h
          subst h
          simp only [Cmd.srcKey] at hm
          simp [processLine, h1, ha, hb, hs, ht, hm]
    · simp [wellFormed, h1] at h
  · by_cases h2 : w.text = "slotmove"
    · simp only [wellFormed, h2, if_true] at h
      cases ha : a.atom with
      | none => simp [ha] at h
      | some s =>
        simp only [ha] at h
        cases hs : s.slotted <;> cases hb : b.slotOk <;> cases hd : d.slotOk <;> simp [hs, hb, hd] at h
        subst h
        simp only [Cmd.srcKey] at hm
        simp [processLine, h2, ha, hm]
    · simp [wellFormed, h2] at h
  · simp [wellFormed] at h

/-- a well-formed command whose source has not been moved is executed -/
theorem processLine_accepted (st : St) (line : List Tok) (c : Cmd) (h : wellFormed line = some c)
    (hm : c.srcKey ∉ st.moved) :
    processLine st line = match c with
      | .move s t => doMove st s t
      | .slotmove s f t => doSlotmove st s f t := by
  rcases line with _ | ⟨w, _ | ⟨a, _ | ⟨b, _ | ⟨d, _ | ⟨e, rest⟩⟩⟩⟩⟩
  · simp [wellFormed] at h
  · simp [wellFormed] at h
  · simp [wellFormed] at h
  · by_cases h1 : w.text = "move"
    · simp only [wellFormed, h1, if_true] at h
      cases ha : a.atom with
      | none => simp [ha] at h
      | some s =>
        cases hb : b.atom with
        | none => simp [ha, hb] at h
        | some t =>
          simp only [ha, hb] at h
          cases hs : s.versioned <;> cases ht : t.versioned <;> simp [hs, ht] at h
          subst h
          simp only [Cmd.srcKey] at hm
          simp [processLine, h1, ha, hb, hs, ht, hm]
    · simp [wellFormed, h1] at h
  · by_cases h2 : w.text = "slotmove"
    · simp only [wellFormed, h2, if_true] at h
      cases ha : a.atom with
      | none => simp [ha] at h
      | some s =>
        simp only [ha] at h
        cases hs : s.slotted <;> cases hb : b.slotOk <;> cases hd : d.slotOk <;> simp [hs, hb, hd] at h
        subst h
        simp only [Cmd.srcKey] at hm
        simp [processLine, h2, ha, hm, hs, hb, hd]
    · simp [wellFormed, h2] at h
  · simp [wellFormed] at h

theorem processLine_inv {st : St} {cs : List Cmd} (inv : Inv st cs) (line : List Tok) :
    Inv (processLine st line) (accept cs line) := by
  unfold accept
  cases h : wellFormed line with
  | none => simp only; rw [processLine_malformed st line h]; exact inv
  | some c =>
    simp only
    by_cases hm : c.srcKey ∈ movedKeys cs
    · rw [if_pos hm, processLine_redundant st line c h ((inv.moved _).2 hm)]; exact inv
    · have hm' : c.srcKey ∉ st.moved := fun r => hm ((inv.moved _).1 r)
      rw [if_neg hm, processLine_accepted st line c h hm']
      cases c with
      | move s t => exact doMove_inv inv s t hm'
      | slotmove s f t => exact doSlotmove_inv inv s f t hm'

theorem processLines_inv {st : St} {cs : List Cmd} (inv : Inv st cs) (lines : List (List Tok)) :
    Inv (lines.foldl processLine st) (lines.foldl accept cs) := by
  induction lines generalizing st cs with
  | nil => exact inv
  | cons l ls ih => exact ih (processLine_inv inv l)

theorem processAll_eq (files : List UFile) :
    processAll files = ((scan files).flatMap (·.lines)).foldl processLine St.init := by
  unfold processAll
  rw [List.foldl_flatMap]

theorem processAll_inv (files : List UFile) :
    Inv (processAll files) (accepted ((scan files).flatMap (·.lines))) := by
  rw [processAll_eq]
  exact processLines_inv inv_init _

/-! ## reading the result off the invariant -/

theorem cmdsOf_filter_live (mods : List (Key × Nat × Nat)) (moved : List Key) (l : List Sym) :
    cmdsOf (l.filter (live mods moved)) = cmdsOf l := by
  induction l with
  | nil => rfl
  | cons s l ih =>
    cases s with
    | cmd c => simp [cmdsOf, live, List.filter_cons] at ih ⊢; exact ih
    | endOf w =>
      by_cases hl : liveW mods moved w <;> simp [cmdsOf, live, hl] at ih ⊢ <;> exact ih

theorem cmdsOf_map_cmd (cs : List Cmd) : cmdsOf (cs.map Sym.cmd) = cs := by
  induction cs with
  | nil => rfl
  | cons c cs ih => simp [cmdsOf] at ih ⊢; exact ih

theorem cmdsOf_marker (st : St) (x : Key) : cmdsOf (marker st x) = [] := by
  unfold marker; split <;> simp [cmdsOf]

theorem Inv.flatten_head {st : St} {cs : List Cmd} (inv : Inv st cs) {k : Key} {h t : Nat}
    (e : assoc k st.mods = some (h, t)) : flatten st.heap h = chain k cs := by
  rw [flatten_eq, ← cmdsOf_filter_live st.mods st.moved, inv.chainOk k h t e]
  unfold cmdsOf
  rw [List.filterMap_append]
  show cmdsOf _ ++ cmdsOf _ = _
  rw [cmdsOf_map_cmd, cmdsOf_marker, List.append_nil]

theorem assoc_map_filter {β γ : Type} (g : Key × β → γ) (p : Key × γ → Bool) (k : Key) (l : List (Key × β))
    (nd : (l.map (·.1)).Nodup) :
    assoc k ((l.map fun e => (e.1, g e)).filter p)
      = match assoc k l with
        | some v => if p (k, g (k, v)) then some (g (k, v)) else none
        | none => none := by
  induction l with
  | nil => simp [assoc]
  | cons e l ih =>
    obtain ⟨a, b⟩ := e
    simp only [List.map_cons, List.nodup_cons] at nd
    have ih := ih nd.2
    by_cases ha : a = k
    · subst ha
      have hn : assoc a l = none := (assoc_none_iff _ _).2 nd.1
      rw [hn] at ih
      by_cases hp : p (a, g (a, b))
      · simp [hp, assoc]
      · simp [hp, assoc, ih]
    · by_cases hp : p (a, g (a, b))
      · simp [hp, assoc, ha, ih]
      · simp [hp, assoc, ha, ih]

/-! ## file order -/

attribute [local instance] lexOrd

theorem lex_pair' {α β} [Ord α] [Ord β] (a c : α) (b d : β) :
    compare (a, b) (c, d) = (compare a c).then (compare b d) := rfl

theorem le_trans' (a b c : UFile) (h1 : UFile.le a b = true) (h2 : UFile.le b c = true) : UFile.le a c = true := by
  unfold UFile.le at *
  exact Std.TransCmp.isLE_trans h1 h2

theorem le_total' (a b : UFile) : (UFile.le a b || UFile.le b a) = true := by
  unfold UFile.le
  rw [Std.OrientedCmp.eq_swap (cmp := compare) (a := a.sortKey) (b := b.sortKey)]
  cases compare b.sortKey a.sortKey <;> rfl

theorem le_chron (a b : UFile) (h : UFile.le a b = true) : chronLe a b := by
  unfold UFile.le UFile.sortKey at h
  unfold chronLe
  rw [lex_pair', lex_pair'] at h
  simp only
  generalize (a.key.getD (0, 0)).1 = p at *
  generalize (a.key.getD (0, 0)).2 = q at *
  generalize (b.key.getD (0, 0)).1 = r at *
  generalize (b.key.getD (0, 0)).2 = s at *
  rcases Nat.lt_trichotomy p r with h1 | h1 | h1
  · exact Or.inl h1
  · subst h1
    right
    refine ⟨rfl, ?_⟩
    rw [Nat.compare_eq_eq.2 rfl] at h
    simp only [Ordering.then] at h
    rcases Nat.lt_or_ge s q with h2 | h2
    · rw [Nat.compare_eq_gt.2 h2] at h
      simp [Ordering.isLE] at h
    · exact h2
  · rw [Nat.compare_eq_gt.2 h1] at h
    simp [Ordering.then, Ordering.isLE] at h

end Pkgcore.C42
