import Pkgcore.Spec.C48
/-! helper lemmas for C48 -/
set_option linter.unusedSectionVars false
set_option linter.unusedVariables false
set_option linter.unusedSimpArgs false
namespace Pkgcore.C48
open Pkgcore.C48.Spec

variable (w : World)

/-! ## `validate_entry` decides `Valid` -/

theorem rebuildOk_iff (fmt : Fmt) (recs : List (String × List Val))
    (hwf : ∀ rec ∈ recs, fmt.eclassChfs.zip rec.2 ≠ []) :
    rebuildOk w fmt recs = true ↔ ∀ rec ∈ recs, EclassCurrent w fmt rec := by
  unfold rebuildOk
  rw [List.all_eq_true]
  constructor
  · intro h rec hrec
    have h1 := h rec hrec
    rw [List.all_eq_true] at h1
    cases he : w.eclass rec.1 with
    | none =>
      exfalso
      cases hz : fmt.eclassChfs.zip rec.2 with
      | nil => exact hwf rec hrec hz
      | cons kv rest =>
        have := h1 kv (by rw [hz]; exact List.mem_cons_self)
        simp [he] at this
    | some info =>
      refine ⟨info, he, ?_⟩
      intro kv hkv
      have := h1 kv hkv
      simpa [he] using this
  · intro h rec hrec
    obtain ⟨info, hi, hall⟩ := h rec hrec
    rw [List.all_eq_true]
    intro kv hkv
    simp [hi, hall kv hkv]

theorem validate_iff (fmt : Fmt) (e : Entry) (hwf : WFEntry fmt e) :
    validate w fmt e = true ↔ Valid w fmt e := by
  unfold validate Valid
  by_cases hc : e.chf = w.ebuild.get fmt.chf
  · simp only [hc, bne_self_eq_false, Bool.false_eq_true, if_false, true_and]
    cases hecl : e.eclasses with
    | none => simp
    | some recs =>
      simp only
      have hwf' : ∀ rec ∈ recs, fmt.eclassChfs.zip rec.2 ≠ [] := by
        unfold WFEntry at hwf; rw [hecl] at hwf; exact hwf
      cases hi : e.hasInherit with
      | false => simp
      | true => simp [rebuildOk_iff w fmt recs hwf']
  · have : (e.chf != w.ebuild.get fmt.chf) = true := by simp [hc]
    simp [this, hc]

theorem validB_eq_validate (fmt : Fmt) (e : Entry) (hwf : WFEntry fmt e) :
    validB w fmt e = validate w fmt e := by
  have h1 := validate_iff w fmt e hwf
  have h2 : validB w fmt e = true ↔ Valid w fmt e := by
    unfold validB Valid
    simp only [Bool.and_eq_true, beq_iff_eq]
    refine and_congr Iff.rfl ?_
    cases e.eclasses with
    | none => simp
    | some recs =>
      simp only [Bool.and_eq_true, List.all_eq_true]
      refine and_congr Iff.rfl ?_
      constructor
      · intro h rec hrec
        have := h rec hrec
        cases he : w.eclass rec.1 with
        | none => simp [he] at this
        | some info =>
          refine ⟨info, he, ?_⟩
          intro kv hkv
          simp only [he, List.all_eq_true, beq_iff_eq] at this
          exact this kv hkv
      · intro h rec hrec
        obtain ⟨info, hi, hall⟩ := h rec hrec
        simp only [hi, List.all_eq_true, beq_iff_eq]
        exact hall
  cases hv : validate w fmt e <;> cases hb : validB w fmt e <;> simp_all

/-- the freshly written entry is valid for the tree it was made from -/
theorem validate_mkEntry (inherited : List String) (fmt : Fmt)
    (hex : ∀ n ∈ inherited, (w.eclass n).isSome = true) :
    validate w fmt (mkEntry w inherited fmt) = true := by
  unfold validate mkEntry
  simp only [bne_self_eq_false, Bool.false_eq_true, if_false]
  cases hi : inherited.isEmpty with
  | true => simp
  | false =>
    simp only [Bool.false_eq_true, if_false, Bool.not_false, Bool.not_true]
    unfold rebuildOk
    rw [List.all_eq_true]
    intro rec hrec
    obtain ⟨n, hn, rfl⟩ := List.mem_map.1 hrec
    have := hex n hn
    cases he : w.eclass n with
    | none => simp [he] at this
    | some info =>
      simp only [List.all_eq_true]
      intro kv hkv
      have : kv ∈ fmt.eclassChfs.zip (fmt.eclassChfs.map info.get) := hkv
      rw [List.zip_map_right] at this
      obtain ⟨⟨a, b⟩, hab, rfl⟩ := List.mem_map.1 this
      have hab' : a = b := by
        have : ∀ (l : List Kind) (p : Kind × Kind), p ∈ l.zip l → p.1 = p.2 := by
          intro l
          induction l with
          | nil => simp
          | cons x xs ih =>
            intro p hp
            simp only [List.zip_cons_cons, List.mem_cons] at hp
            rcases hp with rfl | hp
            · rfl
            · exact ih p hp
        exact this _ _ hab
      simp [hab']

/-! ## the walk over the caches -/

/-- a cache that holds a stale entry and is writable loses it; everything else is left alone -/
def clean (c : Cache) : Cache :=
  match c.slot with
  | .entry e => if validate w c.fmt e then c else if c.readonly then c else { c with slot := .absent }
  | _ => c

/-- the cache holds an entry the code accepts -/
def holdsValidB (c : Cache) : Bool :=
  match c.slot with
  | .entry e => validate w c.fmt e
  | _ => false

theorem holdsValidB_iff (c : Cache) (hwf : WFCache c) : holdsValidB w c = true ↔ HoldsValid w c := by
  unfold holdsValidB HoldsValid
  cases hs : c.slot with
  | absent => simp
  | unreadable => simp
  | entry e =>
    have hwf' : WFEntry c.fmt e := by unfold WFCache at hwf; rw [hs] at hwf; exact hwf
    simp [validate_iff w c.fmt e hwf']

/-- closed form of the walk: consulted caches are cleaned up to the first acceptable entry -/
theorem walk_eq (cs : List Cache) (i : Nat) :
    walk w cs i =
      match cs.findIdx? (holdsValidB w) with
      | none => (none, cs.map (clean w))
      | some k => (((cs[k]?).bind fun c => match c.slot with | .entry e => some (i + k, e.payload) | _ => none),
                   (cs.take k).map (clean w) ++ cs.drop k) := by
  induction cs generalizing i with
  | nil => simp [walk]
  | cons c cs ih =>
    unfold walk
    cases hs : c.slot with
    | absent =>
      have hv : holdsValidB w c = false := by simp [holdsValidB, hs]
      have hc : clean w c = c := by simp [clean, hs]
      simp only [List.findIdx?_cons, hv, ih (i + 1)]
      cases hf : cs.findIdx? (holdsValidB w) with
      | none => simp [hc]
      | some k => simp [hc, Nat.add_assoc, Nat.add_comm 1 k]
    | unreadable =>
      have hv : holdsValidB w c = false := by simp [holdsValidB, hs]
      have hc : clean w c = c := by simp [clean, hs]
      simp only [List.findIdx?_cons, hv, ih (i + 1)]
      cases hf : cs.findIdx? (holdsValidB w) with
      | none => simp [hc]
      | some k => simp [hc, Nat.add_assoc, Nat.add_comm 1 k]
    | entry e =>
      simp only
      by_cases hval : validate w c.fmt e = true
      · have hv : holdsValidB w c = true := by simp [holdsValidB, hs, hval]
        simp [hval, List.findIdx?_cons, hv, hs]
      · have hv : holdsValidB w c = false := by simp [holdsValidB, hs, hval]
        have hc : clean w c = if c.readonly then c else { c with slot := .absent } := by
          simp [clean, hs, hval]
        simp only [hval, Bool.false_eq_true, if_false, List.findIdx?_cons, hv, ih (i + 1)]
        cases hf : cs.findIdx? (holdsValidB w) with
        | none => simp [hc]
        | some k => simp [hc, Nat.add_assoc, Nat.add_comm 1 k]

theorem clean_clean (c : Cache) : clean w (clean w c) = clean w c := by
  unfold clean
  cases hs : c.slot with
  | absent => simp [hs]
  | unreadable => simp [hs]
  | entry e =>
    by_cases hv : validate w c.fmt e = true
    · simp [hv, hs]
    · by_cases hr : c.readonly = true
      · simp [hv, hr, hs]
      · simp [hv, hr]

theorem holdsValidB_clean (c : Cache) : holdsValidB w (clean w c) = holdsValidB w c := by
  unfold clean holdsValidB
  cases hs : c.slot with
  | absent => simp [hs]
  | unreadable => simp [hs]
  | entry e =>
    by_cases hv : validate w c.fmt e = true
    · simp [hv, hs]
    · by_cases hr : c.readonly = true
      · simp [hv, hr, hs]
      · simp [hv, hr]


/-- the fresh entry is `Valid` (directly, no well-formedness needed) -/
theorem valid_mkEntry (inherited : List String) (fmt : Fmt)
    (hex : ∀ n ∈ inherited, (w.eclass n).isSome = true) : Valid w fmt (mkEntry w inherited fmt) := by
  refine ⟨rfl, ?_⟩
  simp only [mkEntry]
  cases hi : inherited.isEmpty with
  | true => simp
  | false =>
    simp only [Bool.false_eq_true, if_false, Bool.not_false, true_and]
    intro rec hrec
    obtain ⟨n, hn, rfl⟩ := List.mem_map.1 hrec
    have := hex n hn
    cases he : w.eclass n with
    | none => simp [he] at this
    | some info =>
      refine ⟨info, he, ?_⟩
      intro kv hkv
      simp only at hkv
      rw [List.zip_map_right] at hkv
      obtain ⟨⟨a, b⟩, hab, rfl⟩ := List.mem_map.1 hkv
      have : ∀ (l : List Kind) (p : Kind × Kind), p ∈ l.zip l → p.1 = p.2 := by
        intro l
        induction l with
        | nil => simp
        | cons x xs ih =>
          intro p hp
          simp only [List.zip_cons_cons, List.mem_cons] at hp
          rcases hp with rfl | hp
          · rfl
          · exact ih p hp
      have hab' : a = b := this _ _ hab
      simp [hab']

theorem clean_fmt (c : Cache) : (clean w c).fmt = c.fmt ∧ (clean w c).readonly = c.readonly := by
  unfold clean
  cases c.slot with
  | absent => simp
  | unreadable => simp
  | entry e => by_cases hv : validate w c.fmt e = true <;> by_cases hr : c.readonly = true <;> simp [hv, hr]

theorem clean_readonly (c : Cache) (h : c.readonly = true) : clean w c = c := by
  unfold clean
  cases c.slot with
  | absent => rfl
  | unreadable => rfl
  | entry e => by_cases hv : validate w c.fmt e = true <;> simp [hv, h]

/-- after cleaning, a writable cache holds no entry the code would reject -/
theorem clean_no_stale (c : Cache) (hw : c.readonly = false) :
    ∀ e, (clean w c).slot = .entry e → validate w c.fmt e = true := by
  intro e he
  unfold clean at he
  cases hs : c.slot with
  | absent => simp [hs] at he
  | unreadable => simp [hs] at he
  | entry e' =>
    simp only [hs] at he
    by_cases hv : validate w c.fmt e' = true
    · simp only [hv, if_true, hs, Slot.entry.injEq] at he; rw [← he]; exact hv
    · simp [hv, hw] at he

/-- what cleaning does to one cache: nothing, or drop a rejected entry from a writable cache -/
theorem clean_cases (c : Cache) :
    clean w c = c ∨ (c.readonly = false ∧ (∃ e, c.slot = .entry e ∧ validate w c.fmt e = false) ∧
      clean w c = { c with slot := .absent }) := by
  unfold clean
  cases hs : c.slot with
  | absent => simp
  | unreadable => simp
  | entry e =>
    by_cases hv : validate w c.fmt e = true
    · simp [hv]
    · by_cases hr : c.readonly = true
      · simp [hv, hr]
      · right
        simp [hv, hr]

/-! ## writing the regenerated entry -/

theorem store_length (f : Fmt → Entry) (cs : List Cache) : (store f cs).length = cs.length := by
  induction cs with
  | nil => rfl
  | cons c cs ih => unfold store; by_cases h : c.readonly = true <;> simp [h, ih]

theorem store_no_writable (f : Fmt → Entry) (cs : List Cache) (h : ∀ c ∈ cs, c.readonly = true) : store f cs = cs := by
  induction cs with
  | nil => rfl
  | cons c cs ih =>
    unfold store
    simp [h c (List.mem_cons_self), ih (fun x hx => h x (List.mem_cons_of_mem _ hx))]

/-- closed form: the first writable cache (if any) receives the entry, nothing else changes -/
theorem store_eq (f : Fmt → Entry) (cs : List Cache) :
    store f cs =
      match cs.findIdx? (fun c => !c.readonly) with
      | none => cs
      | some k => cs.take k ++ (match cs[k]? with
                                | some c => [{ c with slot := .entry (f c.fmt) }]
                                | none => []) ++ cs.drop (k + 1) := by
  induction cs with
  | nil => simp [store]
  | cons c cs ih =>
    unfold store
    by_cases h : c.readonly = true
    · simp only [h, if_true, List.findIdx?_cons, Bool.not_true, Bool.false_eq_true, if_false, ih]
      cases hf : cs.findIdx? (fun c => !c.readonly) with
      | none => simp
      | some k => simp
    · simp [h, List.findIdx?_cons]

end Pkgcore.C48
