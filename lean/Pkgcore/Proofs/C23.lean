import Pkgcore.Spec.C23
/-!
# C23 — helper lemmas: bit arithmetic, the dict update as a pointwise map, fold invariants
-/
namespace Pkgcore.C23
open Pkgcore.C23.Spec

/-! ## bits -/

theorem testBit_clearBits (m mask i : Nat) :
    (clearBits m mask).testBit i = (m.testBit i && !mask.testBit i) := by
  simp only [clearBits, Nat.testBit_xor, Nat.testBit_and]
  cases m.testBit i <;> cases mask.testBit i <;> rfl

theorem and_ne_zero_iff (m mask : Nat) :
    (m &&& mask ≠ 0) ↔ ∃ i, m.testBit i = true ∧ mask.testBit i = true := by
  constructor
  · intro h
    apply Classical.byContradiction
    intro hne
    apply h
    apply Nat.eq_of_testBit_eq
    intro i
    rw [Nat.testBit_and, Nat.zero_testBit]
    cases h1 : m.testBit i
    · rfl
    · cases h2 : mask.testBit i
      · rfl
      · exact absurd ⟨i, h1, h2⟩ hne
  · rintro ⟨i, h1, h2⟩ h
    have := Nat.testBit_and m mask i
    rw [h, Nat.zero_testBit, h1, h2] at this
    cases this

theorem bits_6002_small : ∀ i, i < 13 → (0o6002 : Nat).testBit i = decide (i = 1 ∨ i = 10 ∨ i = 11) := by decide
theorem bits_6000_small : ∀ i, i < 13 → (0o6000 : Nat).testBit i = decide (i = 10 ∨ i = 11) := by decide
theorem bits_2_small : ∀ i, i < 13 → (0o002 : Nat).testBit i = decide (i = 1) := by decide

theorem bits_of_lt (x : Nat) (hx : x < 2 ^ 13) (i : Nat) (hi : ¬ i < 13) : x.testBit i = false := by
  apply Nat.testBit_lt_two_pow
  calc x < 2 ^ 13 := hx
    _ ≤ 2 ^ i := Nat.pow_le_pow_right (by decide) (by omega)

theorem bits_6002 (i : Nat) : (0o6002 : Nat).testBit i = decide (i = 1 ∨ i = 10 ∨ i = 11) := by
  by_cases h : i < 13
  · exact bits_6002_small i h
  · rw [bits_of_lt _ (by decide) i h]
    symm; simp only [decide_eq_false_iff_not]; omega

theorem bits_6000 (i : Nat) : (0o6000 : Nat).testBit i = decide (i = 10 ∨ i = 11) := by
  by_cases h : i < 13
  · exact bits_6000_small i h
  · rw [bits_of_lt _ (by decide) i h]
    symm; simp only [decide_eq_false_iff_not]; omega

theorem bits_2 (i : Nat) : (0o002 : Nat).testBit i = decide (i = 1) := by
  by_cases h : i < 13
  · exact bits_2_small i h
  · rw [bits_of_lt _ (by decide) i h]
    symm; simp only [decide_eq_false_iff_not]; omega

/-- the code's mask test is the specification's bit test -/
theorem unsafeMode_iff (m : Nat) : unsafeMode m = true ↔ Unsafe m := by
  unfold unsafeMode Unsafe setuid setgid worldWritable
  simp only [Bool.and_eq_true, bne_iff_ne, ne_eq]
  rw [show (¬ m &&& 0o6000 = 0) ↔ (m &&& 0o6000 ≠ 0) from Iff.rfl,
    show (¬ m &&& 0o002 = 0) ↔ (m &&& 0o002 ≠ 0) from Iff.rfl, and_ne_zero_iff, and_ne_zero_iff]
  constructor
  · rintro ⟨⟨i, hi, hm⟩, ⟨j, hj, hm2⟩⟩
    rw [bits_6000] at hm
    rw [bits_2] at hm2
    simp only [decide_eq_true_eq] at hm hm2
    subst hm2
    rcases hm with rfl | rfl
    · exact ⟨Or.inr hi, hj⟩
    · exact ⟨Or.inl hi, hj⟩
  · rintro ⟨h | h, hw⟩
    · exact ⟨⟨11, h, by decide⟩, ⟨1, hw, by decide⟩⟩
    · exact ⟨⟨10, h, by decide⟩, ⟨1, hw, by decide⟩⟩

theorem ww_iff (m : Nat) : (m &&& 0o002 != 0) = true ↔ worldWritable m = true := by
  unfold worldWritable
  simp only [bne_iff_ne, ne_eq]
  rw [show (¬ m &&& 0o002 = 0) ↔ (m &&& 0o002 ≠ 0) from Iff.rfl, and_ne_zero_iff]
  constructor
  · rintro ⟨j, hj, hm2⟩
    rw [bits_2] at hm2
    simp only [decide_eq_true_eq] at hm2
    subst hm2; exact hj
  · intro h; exact ⟨1, h, by decide⟩

theorem clear6002_safe (m : Nat) : ¬ Unsafe (clearBits m 0o6002) := by
  rintro ⟨_, hw⟩
  unfold worldWritable at hw
  rw [testBit_clearBits, bits_6002] at hw
  simp at hw

theorem clear2_not_ww (m : Nat) : worldWritable (clearBits m 0o002) = false := by
  unfold worldWritable
  rw [testBit_clearBits, bits_2]
  simp

/-! ## the dict update is a pointwise map -/

theorem dictSet_mid (pre : CSet) (x e : Entry) (xs : CSet) (hloc : x.loc = e.loc)
    (hpre : ∀ y ∈ pre, y.loc ≠ e.loc) : dictSet (pre ++ x :: xs) e = pre ++ e :: xs := by
  induction pre with
  | nil => simp [dictSet, hloc]
  | cons y ys ih =>
    have hy : y.loc ≠ e.loc := hpre y (by simp)
    simp only [List.cons_append, dictSet, hy, if_false]
    rw [ih (fun z hz => hpre z (by simp [hz]))]

theorem update_filter_map_aux (p : Entry → Bool) (f : Entry → Entry) (hf : ∀ e, (f e).loc = e.loc)
    (c pre : CSet) (hnd : ((pre ++ c).map (·.loc)).Nodup) :
    update (pre ++ c) ((c.filter p).map f) = pre ++ c.map (fun e => if p e then f e else e) := by
  induction c generalizing pre with
  | nil => simp [update]
  | cons x xs ih =>
    have hnd' : ((pre ++ [x] ++ xs).map (·.loc)).Nodup := by simpa using hnd
    have hxpre : ∀ y ∈ pre, y.loc ≠ x.loc := by
      intro y hy heq
      rw [List.map_append, List.nodup_append] at hnd
      exact hnd.2.2 _ (List.mem_map.2 ⟨y, hy, rfl⟩) _ (List.mem_map.2 ⟨x, by simp, rfl⟩) heq
    by_cases hp : p x = true
    · rw [List.filter_cons_of_pos hp, List.map_cons]
      show update (dictSet (pre ++ x :: xs) (f x)) _ = _
      rw [dictSet_mid pre x (f x) xs (hf x).symm (fun y hy => by rw [hf x]; exact hxpre y hy)]
      have hnd2 : ((pre ++ [f x] ++ xs).map (·.loc)).Nodup := by
        simpa [hf x] using hnd
      have := ih (pre ++ [f x]) hnd2
      simp only [List.append_assoc, List.cons_append, List.nil_append] at this
      rw [this]
      simp [hp]
    · rw [List.filter_cons_of_neg hp]
      have := ih (pre ++ [x]) hnd'
      simp only [List.append_assoc, List.cons_append, List.nil_append] at this
      rw [this]
      simp [hp]

/-- `cset.update(f(x) for x in cset if p(x))` with a location-preserving `f` rewrites the matching entries in place -/
theorem update_filter_map (p : Entry → Bool) (f : Entry → Entry) (hf : ∀ e, (f e).loc = e.loc)
    (c : CSet) (hnd : (c.map (·.loc)).Nodup) :
    update c ((c.filter p).map f) = c.map (fun e => if p e then f e else e) := by
  simpa using update_filter_map_aux p f hf c [] (by simpa using hnd)

/-! ## the triggers, entry by entry -/

/-- what a trigger does to one entry -/
def Trigger.step : Trigger → Entry → Entry
  | .fixUid b g, e => if e.uid == b then { e with uid := g } else e
  | .fixGid b g, e => if e.gid == b then { e with gid := g } else e
  | .fixSetBits, e => if !e.isSym && unsafeMode e.mode then { e with mode := clearBits e.mode 0o6002 } else e
  | .detectWorldWritable fp, e =>
    if fp && (!e.isSym && (e.mode &&& 0o002 != 0)) then { e with mode := clearBits e.mode 0o002 } else e
  | .reset _, e => e

def hardenWith (ts : List Trigger) (e : Entry) : Entry := ts.foldl (fun e t => t.step e) e

theorem step_loc (t : Trigger) (e : Entry) : (t.step e).loc = e.loc := by
  cases t <;> simp only [Trigger.step] <;> first | rfl | (split <;> rfl)

theorem step_kind (t : Trigger) (e : Entry) : (t.step e).kind = e.kind := by
  cases t <;> simp only [Trigger.step] <;> first | rfl | (split <;> rfl)

theorem step_payload (t : Trigger) (e : Entry) : (t.step e).payload = e.payload := by
  cases t <;> simp only [Trigger.step] <;> first | rfl | (split <;> rfl)

theorem step_isSym (t : Trigger) (e : Entry) : (t.step e).isSym = e.isSym := by
  simp [Entry.isSym, step_kind]

theorem run_eq_map (t : Trigger) (hnr : t.isReset = false) (c : CSet) (hnd : (c.map (·.loc)).Nodup) :
    t.run c = c.map t.step := by
  cases t with
  | reset img => cases hnr
  | fixUid b g =>
    exact update_filter_map (fun x => x.uid == b) (fun x => { x with uid := g }) (fun _ => rfl) c hnd
  | fixGid b g =>
    exact update_filter_map (fun x => x.gid == b) (fun x => { x with gid := g }) (fun _ => rfl) c hnd
  | fixSetBits =>
    have h := update_filter_map (fun x => !x.isSym && unsafeMode x.mode)
      (fun x => { x with mode := clearBits x.mode 0o6002 }) (fun _ => rfl) c hnd
    show fixSetBits c = _
    unfold fixSetBits
    simp only
    split
    · rename_i hemp
      have : c.filter (fun x => !x.isSym && unsafeMode x.mode) = [] := by simpa using hemp
      rw [this] at h
      exact h
    · exact h
  | detectWorldWritable fp =>
    show detectWorldWritable fp c = _
    unfold detectWorldWritable
    cases fp with
    | false =>
      simp only [Bool.false_eq_true, if_false]
      have : (Trigger.detectWorldWritable false).step = id := by funext e; simp [Trigger.step]
      rw [this, List.map_id]
    | true =>
      simp only [if_true]
      have h := update_filter_map (fun x => !x.isSym && (x.mode &&& 0o002 != 0))
        (fun x => { x with mode := clearBits x.mode 0o002 }) (fun _ => rfl) c hnd
      rw [h]
      apply List.map_congr_left
      intro e _
      simp [Trigger.step]

theorem map_step_locs (t : Trigger) (c : CSet) : (c.map t.step).map (·.loc) = c.map (·.loc) := by
  simp [List.map_map, Function.comp_def, step_loc]

theorem runTriggers_eq_map (ts : List Trigger) (hnr : ∀ t ∈ ts, t.isReset = false) (c : CSet)
    (hnd : (c.map (·.loc)).Nodup) : runTriggers ts c = c.map (hardenWith ts) := by
  induction ts generalizing c with
  | nil =>
    show c = c.map (fun e => e)
    simp
  | cons t ts ih =>
    show runTriggers ts (t.run c) = _
    rw [run_eq_map t (hnr t (by simp)) c hnd, ih (fun t' ht' => hnr t' (by simp [ht'])) _ (by rw [map_step_locs]; exact hnd)]
    simp [List.map_map, Function.comp_def, hardenWith]

/-! ## fold invariants -/

theorem fold_inv (P : Entry → Prop) (ts : List Trigger) (h : ∀ t ∈ ts, ∀ x, P x → P (t.step x)) :
    ∀ x, P x → P (hardenWith ts x) := by
  induction ts with
  | nil => intro x hx; exact hx
  | cons t ts ih =>
    intro x hx
    exact ih (fun t' ht' => h t' (by simp [ht'])) _ (h t (by simp) x hx)

/-- `Q` is an invariant of every step; `t0` (somewhere in the list) establishes `P` from `Q`; every step preserves
`P` under `Q` -/
theorem fold_est (Q P : Entry → Prop) (ts : List Trigger) (t0 : Trigger) (h0 : t0 ∈ ts)
    (hQ : ∀ t ∈ ts, ∀ x, Q x → Q (t.step x)) (hest : ∀ x, Q x → P (t0.step x))
    (hP : ∀ t ∈ ts, ∀ x, Q x → P x → P (t.step x)) : ∀ x, Q x → P (hardenWith ts x) := by
  induction ts with
  | nil => simp at h0
  | cons t ts ih =>
    intro x hx
    have hQx : Q (t.step x) := hQ t (by simp) x hx
    rcases List.mem_cons.1 h0 with rfl | h0'
    · -- established here, preserved by the rest
      have hPx : P (t0.step x) := hest x hx
      have := fold_inv (fun y => Q y ∧ P y) ts
        (fun t' ht' y hy => ⟨hQ t' (by simp [ht']) y hy.1, hP t' (by simp [ht']) y hy.1 hy.2⟩) _ ⟨hQx, hPx⟩
      exact this.2
    · exact ih h0' (fun t' ht' => hQ t' (by simp [ht'])) (fun t' ht' => hP t' (by simp [ht'])) _ hQx

/-! ## the executable judge -/

theorem and_eq_self_iff (a b : Nat) : (a &&& b = a) ↔ ∀ i, a.testBit i = true → b.testBit i = true := by
  constructor
  · intro h i hi
    have := congrArg (fun x => x.testBit i) h
    simp only [Nat.testBit_and, hi, Bool.true_and] at this
    exact this
  · intro h
    apply Nat.eq_of_testBit_eq
    intro i
    rw [Nat.testBit_and]
    cases ha : a.testBit i
    · rfl
    · simp [h i ha]

theorem or_mask_eq_iff (a b : Nat) :
    (a ||| 0o6002 = b ||| 0o6002) ↔ ∀ i, i ≠ 1 → i ≠ 10 → i ≠ 11 → a.testBit i = b.testBit i := by
  constructor
  · intro h i h1 h10 h11
    have := congrArg (fun x => x.testBit i) h
    simp only [Nat.testBit_or, bits_6002] at this
    simpa [h1, h10, h11] using this
  · intro h
    apply Nat.eq_of_testBit_eq
    intro i
    rw [Nat.testBit_or, Nat.testBit_or, bits_6002]
    by_cases hi : i = 1 ∨ i = 10 ∨ i = 11
    · simp [hi]
    · have : i ≠ 1 ∧ i ≠ 10 ∧ i ≠ 11 := by omega
      rw [h i this.1 this.2.1 this.2.2]

theorem hardenedB_iff' (bu ru bg rg : Nat) (fp : Bool) (e e' : Entry) :
    hardenedB bu ru bg rg fp e e' = true ↔ Hardened bu ru bg rg fp e e' := by
  unfold hardenedB
  simp only [Bool.and_eq_true, beq_iff_eq, Bool.or_eq_true, Bool.not_eq_true', decide_eq_false_iff_not,
    decide_eq_true_eq]
  constructor
  · rintro ⟨⟨⟨⟨⟨⟨⟨⟨⟨⟨hk, hl⟩, hp⟩, hu⟩, hg⟩, hs⟩, hsub⟩, hrest⟩, hkept⟩, hsym⟩, hww⟩
    refine ⟨hk, hl, hp, hu, hg, ?_, (and_eq_self_iff _ _).1 hsub, (or_mask_eq_iff _ _).1 hrest, ?_, ?_, ?_⟩
    · intro hns
      rcases hs with h | h
      · rw [hns] at h; cases h
      · exact h
    · intro hfp hsafe
      rcases hkept with (h | h) | h
      · rw [hfp] at h; cases h
      · exact absurd h hsafe
      · exact h
    · intro hs'
      rcases hsym with h | h
      · rw [hs'] at h; cases h
      · exact h
    · intro hfp hns
      rcases hww with (h | h) | h
      · rw [hfp] at h; cases h
      · rw [hns] at h; cases h
      · exact h
  · intro h
    refine ⟨⟨⟨⟨⟨⟨⟨⟨⟨⟨h.kind_eq, h.loc_eq⟩, h.payload_eq⟩, h.uid_eq⟩, h.gid_eq⟩, ?_⟩,
      (and_eq_self_iff _ _).2 h.mode_sub⟩, (or_mask_eq_iff _ _).2 h.mode_rest⟩, ?_⟩, ?_⟩, ?_⟩
    · cases hs : e.isSym
      · exact Or.inr (h.safe hs)
      · exact Or.inl rfl
    · cases hfp : fp
      · by_cases hu : Unsafe e.mode
        · exact Or.inl (Or.inr hu)
        · exact Or.inr (h.safe_kept hfp hu)
      · exact Or.inl (Or.inl rfl)
    · cases hs : e.isSym
      · exact Or.inl rfl
      · exact Or.inr (h.sym_kept hs)
    · cases hfp : fp
      · exact Or.inl (Or.inl rfl)
      · cases hs : e.isSym
        · exact Or.inr (h.no_ww hfp hs)
        · exact Or.inl (Or.inr rfl)

/-! ## the contents reset of the ebuild format -/

theorem update_append_nodup (l pre : CSet) (h : ((pre ++ l).map (·.loc)).Nodup) : update pre l = pre ++ l := by
  induction l generalizing pre with
  | nil => simp [update]
  | cons e es ih =>
    have hnot : ∀ y ∈ pre, y.loc ≠ e.loc := by
      intro y hy heq
      rw [List.map_append, List.nodup_append] at h
      exact h.2.2 _ (List.mem_map.2 ⟨y, hy, rfl⟩) _ (List.mem_map.2 ⟨e, by simp, rfl⟩) heq
    have hds : dictSet pre e = pre ++ [e] := by
      clear ih h
      induction pre with
      | nil => rfl
      | cons x xs ih2 =>
        have hx : x.loc ≠ e.loc := hnot x (by simp)
        simp [dictSet, hx, ih2 (fun y hy => hnot y (by simp [hy]))]
    show update (dictSet pre e) es = pre ++ e :: es
    rw [hds, ih (pre ++ [e]) (by simpa using h)]
    simp

theorem resetContents_eq (image c : CSet) (h : (image.map (·.loc)).Nodup) : resetContents image c = image := by
  have := update_append_nodup image [] (by simpa using h)
  simpa [resetContents] using this

theorem runTriggers_append (ts1 ts2 : List Trigger) (c : CSet) :
    runTriggers (ts1 ++ ts2) c = runTriggers ts2 (runTriggers ts1 c) := by
  simp [runTriggers, List.foldl_append]

/-- the same entry under another name -/
def Entry.rename (ρ : List Char → List Char) (e : Entry) : Entry := { e with loc := ρ e.loc }

theorem step_rename (ρ : List Char → List Char) (t : Trigger) (e : Entry) :
    t.step (e.rename ρ) = (t.step e).rename ρ := by
  cases t <;> simp only [Trigger.step, apply_ite (Entry.rename ρ)] <;> rfl

theorem hardenWith_rename (ρ : List Char → List Char) (ts : List Trigger) (e : Entry) :
    hardenWith ts (e.rename ρ) = (hardenWith ts e).rename ρ := by
  induction ts generalizing e with
  | nil => rfl
  | cons t ts ih =>
    show hardenWith ts (t.step (e.rename ρ)) = (hardenWith ts (t.step e)).rename ρ
    rw [step_rename, ih]

end Pkgcore.C23
