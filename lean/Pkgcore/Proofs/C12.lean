import Pkgcore.Spec.C12
/-!
# C12 — helper lemmas
-/
namespace Pkgcore.C12
open Pkgcore.C12.Spec

/-! ## sets as lists -/

theorem mem_sAdd (s : TSet) (x y : Tok) : y ∈ sAdd s x ↔ y ∈ s ∨ y = x := by
  unfold sAdd
  by_cases h : s.contains x = true
  · have hx : x ∈ s := by simpa using h
    simp only [h, if_true]
    constructor
    · exact Or.inl
    · rintro (h1 | h1)
      · exact h1
      · subst h1; exact hx
  · have hx : x ∉ s := by simpa using h
    simp [hx]

theorem mem_sDiscard (s : TSet) (x y : Tok) : y ∈ sDiscard s x ↔ y ∈ s ∧ y ≠ x := by
  simp [sDiscard]

theorem mem_sUpdate (s : TSet) (xs : List Tok) (y : Tok) : y ∈ sUpdate s xs ↔ y ∈ s ∨ y ∈ xs := by
  unfold sUpdate
  induction xs generalizing s with
  | nil => simp
  | cons x xs ih =>
    simp only [List.foldl_cons, ih, mem_sAdd, List.mem_cons]
    constructor
    · rintro ((h | h) | h)
      · exact Or.inl h
      · exact Or.inr (Or.inl h)
      · exact Or.inr (Or.inr h)
    · rintro (h | h | h)
      · exact Or.inl (Or.inl h)
      · exact Or.inl (Or.inr h)
      · exact Or.inr h

theorem mem_sDiff (s : TSet) (xs : List Tok) (y : Tok) : y ∈ sDiff s xs ↔ y ∈ s ∧ y ∉ xs := by
  simp [sDiff]

/-- `holds` with the initial membership as a proposition -/
theorem holds_iff (f : Tok) (toks : List Tok) (orig : TSet) :
    holds f toks orig = true ↔ (lastEffect f toks = some true ∨ (lastEffect f toks = none ∧ f ∈ orig)) := by
  unfold holds
  cases lastEffect f toks with
  | none => simp
  | some b => cases b <;> simp

/-! ## tokens -/

theorem isFlag_ne_nil {f : Tok} (h : isFlag f = true) : f ≠ [] := by
  intro h0; subst h0; simp [isFlag] at h

theorem isFlag_head {f : Tok} (h : isFlag f = true) : f.head? ≠ some '-' := by
  simp only [isFlag, Bool.and_eq_true, bne_iff_ne, ne_eq] at h
  exact h.2

theorem flag_ne_dash {f x : Tok} (h : isFlag f = true) : f ≠ '-' :: x := by
  intro h0; subst h0; simp [isFlag] at h

/-- a token that starts with `-` is `-` followed by its tail -/
theorem dash_tail {t : Tok} (h : t.head? = some '-') : t = '-' :: t.tail := by
  cases t with
  | nil => simp at h
  | cons a as => simp at h; subst h; rfl

/-! ## `incremental_expansion` -/

@[simp] theorem expand_nil (fin s) : expand fin [] s = .ok s := by simp [expand]
theorem expand_cons (fin t ts s) : expand fin (t :: ts) s =
    (match expandStep fin s t with | .error e => .error e | .ok s' => expand fin ts s') := by
  rw [expand]
  cases expandStep fin s t <;> rfl

theorem expand_append (fin : Bool) (a b : List Tok) (s : TSet) :
    expand fin (a ++ b) s = (match expand fin a s with | .error e => .error e | .ok s' => expand fin b s') := by
  induction a generalizing s with
  | nil => simp
  | cons t ts ih =>
    simp only [List.cons_append, expand_cons]
    cases expandStep fin s t with
    | error e => rfl
    | ok s' => exact ih s'

/-- a well-formed token is accepted, and every flag is on afterwards iff the token says so, else as before -/
theorem expandStep_flag (s : TSet) (t : Tok) (hne : t ≠ []) (hd : t ≠ ['-']) :
    ∃ s', expandStep true s t = .ok s' ∧
      ∀ f, isFlag f = true → (f ∈ s' ↔ (effect f t = some true ∨ (effect f t = none ∧ f ∈ s))) := by
  have hE : t.isEmpty = false := by cases t with | nil => exact absurd rfl hne | cons _ _ => rfl
  unfold expandStep
  simp only [hE, Bool.false_eq_true, if_false]
  by_cases hh : t.head? = some '-'
  · have ht := dash_tail hh
    have hte : t.tail.isEmpty = false := by
      cases htl : t.tail with
      | nil => rw [htl] at ht; exact absurd ht hd
      | cons _ _ => rfl
    simp only [hh, if_true, hte, Bool.false_eq_true, if_false]
    refine ⟨_, rfl, ?_⟩
    intro f hf
    have hft : ¬ t = f := by intro h0; rw [h0] at hh; exact isFlag_head hf hh
    by_cases hs : t.tail = star
    · simp only [hs, if_true]
      have : t = clearTok := by rw [ht, hs]; rfl
      have hcf : ¬ clearTok = f := this ▸ hft
      by_cases hf2 : clearTok = '-' :: f <;> simp [effect, hcf, this, hf2]
    · simp only [hs, if_false, mem_sDiscard]
      have hc : ¬ t = clearTok := by
        intro h0; apply hs; rw [h0]; rfl
      by_cases hf2 : t.tail = f
      · have : t = '-' :: f := by rw [ht, hf2]
        simp [effect, hft, this, hf2]
      · have : ¬ t = '-' :: f := by
          intro h0; apply hf2; rw [h0]; rfl
        have hne' : f ≠ t.tail := fun h0 => hf2 h0.symm
        simp [effect, hft, this, hc, hne']
  · simp only [hh, if_false]
    refine ⟨_, rfl, ?_⟩
    intro f hf
    simp only [mem_sAdd, mem_sDiscard]
    have h1 : f ≠ '-' :: t := flag_ne_dash hf
    have h2 : ¬ t = '-' :: f := by intro h0; rw [h0] at hh; simp at hh
    have h3 : ¬ t = clearTok := by intro h0; rw [h0] at hh; simp [clearTok] at hh
    by_cases hft : t = f
    · subst hft; simp [effect]
    · have : f ≠ t := fun h0 => hft h0.symm
      simp [effect, hft, h2, h3, h1, this]

theorem wellFormed_cons (t : Tok) (ts : List Tok) :
    wellFormed (t :: ts) = true ↔ (t ≠ [] ∧ t ≠ ['-']) ∧ wellFormed ts = true := by
  simp [wellFormed]

/-- **last writer wins**, for every stream and every initial set -/
theorem expand_holds : ∀ (toks : List Tok) (orig : TSet), wellFormed toks = true →
    ∃ s, expand true toks orig = .ok s ∧ ∀ f, isFlag f = true → (f ∈ s ↔ holds f toks orig = true)
  | [], orig, _ => ⟨orig, by simp, fun f _ => by simp [holds, lastEffect]⟩
  | t :: ts, orig, h => by
      obtain ⟨⟨hne, hd⟩, hts⟩ := (wellFormed_cons t ts).mp h
      obtain ⟨s1, h1, hs1⟩ := expandStep_flag orig t hne hd
      obtain ⟨s, h2, hs⟩ := expand_holds ts s1 hts
      refine ⟨s, by rw [expand_cons, h1]; exact h2, ?_⟩
      intro f hf
      rw [hs f hf, holds_iff, holds_iff, hs1 f hf]
      simp only [lastEffect]
      cases lastEffect f ts with
      | some b => simp
      | none => simp

/-! ## `optimize_incrementals` -/

/-- what the right-to-left walk meets first for flag `f` -/
inductive Hit | pos | neg | clear
  deriving DecidableEq

def hit (f t : Tok) : Option Hit :=
  if t = clearTok then some .clear else if t = f then some .pos else if t = '-' :: f then some .neg else none

def firstHit (f : Tok) : List Tok → Option Hit
  | [] => none
  | t :: ts => (hit f t).orElse fun _ => firstHit f ts

theorem firstHit_cons (f t : Tok) (ts : List Tok) :
    firstHit f (t :: ts) = (hit f t).orElse fun _ => firstHit f ts := rfl

theorem flag_ne_clear {f : Tok} (hf : isFlag f = true) : f ≠ clearTok := by
  intro h; rw [h] at hf; simp [isFlag, clearTok] at hf

theorem hit_none {f t : Tok} (h1 : t ≠ clearTok) (h2 : t ≠ f) (h3 : t ≠ '-' :: f) : hit f t = none := by
  unfold hit; rw [if_neg h1, if_neg h2, if_neg h3]
theorem hit_neg {f t : Tok} (h1 : t ≠ clearTok) (h2 : t ≠ f) (h3 : t = '-' :: f) : hit f t = some .neg := by
  unfold hit; rw [if_neg h1, if_neg h2, if_pos h3]
theorem hit_pos {f t : Tok} (h1 : t ≠ clearTok) (h2 : t = f) : hit f t = some .pos := by
  unfold hit; rw [if_neg h1, if_pos h2]
theorem hit_clear (f : Tok) : hit f clearTok = some .clear := by
  unfold hit; rw [if_pos rfl]

theorem effect_eq_hit (f t : Tok) (hf : isFlag f = true) : effect f t = (hit f t).map (· == Hit.pos) := by
  have h1 : f ≠ clearTok := flag_ne_clear hf
  by_cases hc : t = clearTok
  · subst hc
    rw [hit_clear]
    unfold effect
    rw [if_neg (fun h => h1 h.symm)]
    by_cases h2 : clearTok = '-' :: f
    · rw [if_pos h2]; rfl
    · rw [if_neg h2, if_pos rfl]; rfl
  · by_cases h2 : t = f
    · rw [hit_pos hc h2]; unfold effect; rw [if_pos h2]; rfl
    · by_cases h3 : t = '-' :: f
      · rw [hit_neg hc h2 h3]; unfold effect; rw [if_neg h2, if_pos h3]; rfl
      · rw [hit_none hc h2 h3]; unfold effect; rw [if_neg h2, if_neg h3, if_neg hc]; rfl

theorem lastEffect_append (f : Tok) (a b : List Tok) :
    lastEffect f (a ++ b) = (lastEffect f b).orElse fun _ => lastEffect f a := by
  induction a with
  | nil => cases h : lastEffect f b <;> simp [lastEffect, h]
  | cons x xs ih =>
    simp only [List.cons_append, lastEffect, ih]
    cases lastEffect f b <;> simp

theorem firstHit_snoc (f : Tok) (l : List Tok) (x : Tok) :
    firstHit f (l ++ [x]) = (firstHit f l).orElse fun _ => hit f x := by
  induction l with
  | nil => cases h : hit f x <;> simp [firstHit, h]
  | cons y ys ihy =>
    simp only [List.cons_append, firstHit, ihy]
    cases hit f y <;> simp

theorem lastEffect_reverse (f : Tok) (hf : isFlag f = true) (toks : List Tok) :
    lastEffect f toks = (firstHit f toks.reverse).map (· == Hit.pos) := by
  induction toks with
  | nil => simp [lastEffect, firstHit]
  | cons t ts ih =>
    simp only [lastEffect, List.reverse_cons, firstHit_snoc, ih, effect_eq_hit f t hf]
    cases firstHit f ts.reverse <;> simp

theorem wellFormed_reverse (a : List Tok) : wellFormed a.reverse = wellFormed a := by
  simp [wellFormed, List.all_reverse]

theorem not_contains_dash_of_wf {l : List Tok} (h : wellFormed l = true) : l.contains ['-'] = false := by
  induction l with
  | nil => rfl
  | cons x xs ih =>
    obtain ⟨⟨_, hd⟩, hx⟩ := (wellFormed_cons x xs).mp h
    simp only [List.contains_cons, ih hx, Bool.or_false]
    simpa using fun h0 : ['-'] = x => hd h0.symm

/-- what `optimize_incrementals` yields, per flag -/
structure OptChar (rest : List Tok) (fin : TSet) (c : List Tok) : Prop where
  pos : ∀ f, isFlag f = true → (f ∈ c ↔ f ∉ fin ∧ firstHit f rest = some .pos)
  neg : ∀ f, isFlag f = true → f ≠ star → (('-' :: f) ∈ c ↔ f ∉ fin ∧ firstHit f rest = some .neg)
  clear : clearTok ∈ c ↔ clearTok ∈ rest
  wf : wellFormed c = true

/-- an item that says nothing about `f` changes nothing for `f` -/
theorem optchar_skip {item : Tok} {rest : List Tok} {fin fin' : TSet} {c c' : List Tok}
    (hch : OptChar rest fin' c') (hic : item ≠ clearTok)
    (hc : ∀ x, x ≠ item → (x ∈ c ↔ x ∈ c')) (f : Tok) (hfin : f ∈ fin' ↔ f ∈ fin)
    (h2 : item ≠ f) (h3 : item ≠ '-' :: f) (hf : isFlag f = true) :
    (f ∈ c ↔ f ∉ fin ∧ firstHit f (item :: rest) = some .pos) ∧
    (f ≠ star → (('-' :: f) ∈ c ↔ f ∉ fin ∧ firstHit f (item :: rest) = some .neg)) := by
  rw [firstHit_cons, hit_none hic h2 h3]
  simp only [Option.orElse_none] 
  refine ⟨?_, fun hfs => ?_⟩
  · rw [hc f (fun h => h2 h.symm), hch.pos f hf, hfin]
  · rw [hc _ (fun h => h3 h.symm), hch.neg f hf hfs, hfin]

theorem optLoop_char : ∀ (rest : List Tok) (fin : TSet), wellFormed rest = true →
    ∃ c, optLoop rest fin = .ok c ∧ OptChar rest fin c
  | [], fin, _ => ⟨[], by simp [optLoop], ⟨by simp [firstHit], by simp [firstHit], by simp, rfl⟩⟩
  | item :: rest, fin, h => by
      obtain ⟨⟨hne, hd⟩, hr⟩ := (wellFormed_cons item rest).mp h
      have hE : item.isEmpty = false := by cases item with | nil => exact absurd rfl hne | cons _ _ => rfl
      unfold optLoop
      simp only [hE, Bool.false_eq_true, if_false]
      by_cases hh : item.head? = some '-'
      · have ht := dash_tail hh
        have hte : item.tail.isEmpty = false := by
          cases htl : item.tail with
          | nil => rw [htl] at ht; exact absurd ht hd
          | cons _ _ => rfl
        simp only [hh, if_true, hte, Bool.false_eq_true, if_false]
        have hnf : ∀ f, isFlag f = true → item ≠ f := by
          intro f hf h0; rw [h0] at hh; exact isFlag_head hf hh
        by_cases hs : item.tail = star
        · -- `-*`
          have hic : item = clearTok := by rw [ht, hs]; rfl
          simp only [hs, if_true, not_contains_dash_of_wf hr, Bool.false_eq_true, if_false]
          refine ⟨[item], rfl, ?_⟩
          subst hic
          refine ⟨?_, ?_, by simp, by simp [wellFormed, clearTok]⟩
          · intro f hf
            rw [firstHit_cons, hit_clear]
            simp [flag_ne_clear hf]
          · intro f hf hfs
            have : ¬ '-' :: f = clearTok := by
              intro h0; apply hfs; simp only [clearTok, List.cons.injEq, true_and] at h0; rw [h0]; rfl
            rw [firstHit_cons, hit_clear]
            simp [this]
        · simp only [hs, if_false]
          have hic : item ≠ clearTok := by intro h0; apply hs; rw [h0]; rfl
          have hnm : ∀ f, item = '-' :: f → item.tail = f := by intro f h0; rw [h0]; rfl
          by_cases hfin : fin.contains item.tail = true
          · -- already finalized: skipped
            have hmem : item.tail ∈ fin := by simpa using hfin
            obtain ⟨c, hc, hch⟩ := optLoop_char rest fin hr
            simp only [hfin, if_true]
            have key : ∀ f, isFlag f = true →
                (f ∈ c ↔ f ∉ fin ∧ firstHit f (item :: rest) = some .pos) ∧
                (f ≠ star → (('-' :: f) ∈ c ↔ f ∉ fin ∧ firstHit f (item :: rest) = some .neg)) := by
              intro f hf
              by_cases h3 : item = '-' :: f
              · have hff : f ∈ fin := by rw [← hnm f h3]; exact hmem
                refine ⟨?_, fun hfs => ?_⟩
                · rw [hch.pos f hf]; simp [hff]
                · rw [hch.neg f hf hfs]; simp [hff]
              · exact optchar_skip hch hic (fun _ _ => Iff.rfl) f Iff.rfl (hnf f hf) h3 hf
            exact ⟨c, hc, ⟨fun f hf => (key f hf).1, fun f hf hfs => (key f hf).2 hfs,
              by rw [hch.clear]; simp [hic.symm], hch.wf⟩⟩
          · -- yielded, name finalized
            have hnmem : item.tail ∉ fin := by simpa using hfin
            obtain ⟨c, hc, hch⟩ := optLoop_char rest (sAdd fin item.tail) hr
            simp only [hfin, Bool.false_eq_true, if_false, hc, Except.map]
            have key : ∀ f, isFlag f = true →
                (f ∈ item :: c ↔ f ∉ fin ∧ firstHit f (item :: rest) = some .pos) ∧
                (f ≠ star → (('-' :: f) ∈ item :: c ↔ f ∉ fin ∧ firstHit f (item :: rest) = some .neg)) := by
              intro f hf
              by_cases h3 : item = '-' :: f
              · have hft := hnm f h3
                have hfn : f ∉ fin := by rw [← hft]; exact hnmem
                rw [firstHit_cons, hit_neg hic (hnf f hf) h3]
                refine ⟨?_, fun hfs => ?_⟩
                · simp only [List.mem_cons, hch.pos f hf, mem_sAdd, hft]
                  simp [(hnf f hf).symm]
                · simp [h3, hfn]
              · refine optchar_skip hch hic (fun x hx => by simp [hx]) f ?_ (hnf f hf) h3 hf
                rw [mem_sAdd]
                constructor
                · rintro (h0 | h0)
                  · exact h0
                  · exact absurd (by rw [ht, ← h0]) h3
                · exact Or.inl
            exact ⟨item :: c, rfl, ⟨fun f hf => (key f hf).1, fun f hf hfs => (key f hf).2 hfs,
              by simp [hch.clear, hic.symm],
              (wellFormed_cons item c).mpr ⟨⟨hne, hd⟩, hch.wf⟩⟩⟩
      · -- a positive token
        simp only [hh, if_false]
        have hic : item ≠ clearTok := by intro h0; rw [h0] at hh; simp [clearTok] at hh
        have hnd : ∀ f : Tok, item ≠ '-' :: f := by intro f h0; rw [h0] at hh; simp at hh
        by_cases hfin : fin.contains item = true
        · have hmem : item ∈ fin := by simpa using hfin
          obtain ⟨c, hc, hch⟩ := optLoop_char rest fin hr
          simp only [hfin, if_true]
          have key : ∀ f, isFlag f = true →
              (f ∈ c ↔ f ∉ fin ∧ firstHit f (item :: rest) = some .pos) ∧
              (f ≠ star → (('-' :: f) ∈ c ↔ f ∉ fin ∧ firstHit f (item :: rest) = some .neg)) := by
            intro f hf
            by_cases h2 : item = f
            · have hff : f ∈ fin := by rw [← h2]; exact hmem
              refine ⟨?_, fun hfs => ?_⟩
              · rw [hch.pos f hf]; simp [hff]
              · rw [hch.neg f hf hfs]; simp [hff]
            · exact optchar_skip hch hic (fun _ _ => Iff.rfl) f Iff.rfl h2 (hnd f) hf
          exact ⟨c, hc, ⟨fun f hf => (key f hf).1, fun f hf hfs => (key f hf).2 hfs,
            by rw [hch.clear]; simp [hic.symm], hch.wf⟩⟩
        · have hnmem : item ∉ fin := by simpa using hfin
          obtain ⟨c, hc, hch⟩ := optLoop_char rest (sAdd fin item) hr
          simp only [hfin, Bool.false_eq_true, if_false, hc, Except.map]
          have key : ∀ f, isFlag f = true →
              (f ∈ item :: c ↔ f ∉ fin ∧ firstHit f (item :: rest) = some .pos) ∧
              (f ≠ star → (('-' :: f) ∈ item :: c ↔ f ∉ fin ∧ firstHit f (item :: rest) = some .neg)) := by
            intro f hf
            by_cases h2 : item = f
            · have hfn : f ∉ fin := by rw [← h2]; exact hnmem
              rw [firstHit_cons, hit_pos hic h2]
              refine ⟨?_, fun hfs => ?_⟩
              · simp [h2, hfn]
              · simp only [List.mem_cons, hch.neg f hf hfs, mem_sAdd, h2]
                simp [(hnd f).symm, ← h2]
            · refine optchar_skip hch hic (fun x hx => by simp [hx]) f ?_ h2 (hnd f) hf
              rw [mem_sAdd]
              constructor
              · rintro (h0 | h0)
                · exact h0
                · exact absurd h0.symm h2
              · exact Or.inl
          exact ⟨item :: c, rfl, ⟨fun f hf => (key f hf).1, fun f hf hfs => (key f hf).2 hfs,
            by simp [hch.clear, hic.symm],
            (wellFormed_cons item c).mpr ⟨⟨hne, hd⟩, hch.wf⟩⟩⟩


/-- the characterisation at top level -/
theorem optimize_char (toks : List Tok) (h : wellFormed toks = true) :
    ∃ c, optimize toks = .ok c ∧ OptChar toks.reverse [] c :=
  optLoop_char toks.reverse [] (by rw [wellFormed_reverse]; exact h)

theorem lastEffect_of_hit (f : Tok) (hf : isFlag f = true) (toks : List Tok) :
    (lastEffect f toks = some true ↔ firstHit f toks.reverse = some .pos) ∧
    (lastEffect f toks = none ↔ firstHit f toks.reverse = none) := by
  rw [lastEffect_reverse f hf]
  cases firstHit f toks.reverse with
  | none => simp
  | some h => cases h <;> simp

/-- reading a list of negations: any of them speaking about `f` switches it off -/
theorem lastEffect_negs (f : Tok) (hf : isFlag f = true) (l : List Tok) (hl : ∀ x ∈ l, x.head? = some '-') :
    lastEffect f l = if ('-' :: f) ∈ l ∨ clearTok ∈ l then some false else none := by
  induction l with
  | nil => simp [lastEffect]
  | cons x xs ih =>
    have hx := hl x (by simp)
    have ih' := ih (fun y hy => hl y (by simp [hy]))
    simp only [lastEffect, ih']
    have h1 : x ≠ f := by intro h0; rw [h0] at hx; exact isFlag_head hf hx
    by_cases hA : ('-' :: f) ∈ xs ∨ clearTok ∈ xs
    · have : ('-' :: f) ∈ x :: xs ∨ clearTok ∈ x :: xs := by
        rcases hA with hA | hA
        · exact Or.inl (by simp [hA])
        · exact Or.inr (by simp [hA])
      rw [if_pos hA, if_pos this]; rfl
    · have hA1 : ¬ ('-' :: f) ∈ xs := fun h0 => hA (Or.inl h0)
      have hA2 : ¬ clearTok ∈ xs := fun h0 => hA (Or.inr h0)
      simp only [hA, if_false, Option.orElse_none, effect, h1, if_false, List.mem_cons, hA1, hA2, or_false]
      by_cases h2 : x = '-' :: f
      · simp [h2]
      · by_cases h3 : x = clearTok
        · simp [h3]
        · have h2' : ¬ '-' :: f = x := fun h0 => h2 h0.symm
          have h3' : ¬ clearTok = x := fun h0 => h3 h0.symm
          simp [h2, h3, h2', h3']

/-- reading a list of plain flags: `f` is switched on iff it is listed -/
theorem lastEffect_poss (f : Tok) (l : List Tok) (hl : ∀ x ∈ l, x.head? ≠ some '-') :
    lastEffect f l = if f ∈ l then some true else none := by
  induction l with
  | nil => simp [lastEffect]
  | cons x xs ih =>
    have hx := hl x (by simp)
    have ih' := ih (fun y hy => hl y (by simp [hy]))
    simp only [lastEffect, ih']
    have h2 : x ≠ '-' :: f := by intro h0; rw [h0] at hx; simp at hx
    have h3 : x ≠ clearTok := by intro h0; rw [h0] at hx; simp [clearTok] at hx
    by_cases hA : f ∈ xs
    · simp [hA]
    · by_cases h1 : x = f
      · simp [hA, effect, h1]
      · have : ¬ f = x := fun h0 => h1 h0.symm
        simp [hA, effect, h1, h2, h3, this]

theorem wellFormed_filter (l : List Tok) (p : Tok → Bool) (h : wellFormed l = true) : wellFormed (l.filter p) = true := by
  simp only [wellFormed, List.all_eq_true] at h ⊢
  intro x hx
  exact h x (List.mem_filter.mp hx).1

theorem firstHit_ne_none_of_clear (f : Tok) : ∀ r : List Tok, clearTok ∈ r → firstHit f r ≠ none
  | [], h => by simp at h
  | y :: ys, h => by
      rw [firstHit_cons]
      rcases List.mem_cons.mp h with h0 | h0
      · rw [← h0, hit_clear]; simp
      · have := firstHit_ne_none_of_clear f ys h0
        cases hit f y <;> simp [this]

theorem clear_of_firstHit (f : Tok) : ∀ r : List Tok, firstHit f r = some .clear → clearTok ∈ r
  | [], h => by simp [firstHit] at h
  | y :: ys, h => by
      rw [firstHit_cons] at h
      by_cases hy : y = clearTok
      · simp [hy]
      · by_cases hy2 : y = f
        · rw [hit_pos hy hy2] at h; simp at h
        · by_cases hy3 : y = '-' :: f
          · rw [hit_neg hy hy2 hy3] at h; simp at h
          · rw [hit_none hy hy2 hy3] at h
            exact List.mem_cons_of_mem _ (clear_of_firstHit f ys (by simpa using h))

theorem firstHit_star_ne_neg (f : Tok) (hds : '-' :: f = clearTok) : ∀ r : List Tok, firstHit f r ≠ some .neg
  | [] => by simp [firstHit]
  | y :: ys => by
      rw [firstHit_cons]
      by_cases hy : y = clearTok
      · rw [hy, hit_clear]; simp
      · by_cases hy2 : y = f
        · rw [hit_pos hy hy2]; simp
        · have : y ≠ '-' :: f := by rw [hds]; exact hy
          rw [hit_none hy hy2 this]
          simpa using firstHit_star_ne_neg f hds ys

/-- the verdict on `f` of the condensed stream read back (removals first) is that of the original stream -/
theorem lastEffect_negsFirst (toks c : List Tok) (hch : OptChar toks.reverse [] c) (f : Tok) (hf : isFlag f = true) :
    lastEffect f (negsFirst c) = lastEffect f toks := by
  unfold negsFirst
  rw [lastEffect_append,
    lastEffect_poss f _ (fun x hx => by simpa using (List.mem_filter.mp hx).2),
    lastEffect_negs f hf _ (fun x hx => by simpa using (List.mem_filter.mp hx).2)]
  have hfm : f ∈ c.filter (fun x => x.head? != some '-') ↔ f ∈ c := by
    simp only [List.mem_filter, bne_iff_ne, ne_eq, and_iff_left_iff_imp]
    exact fun _ => isFlag_head hf
  have hnm : ∀ x : Tok, x.head? = some '-' → (x ∈ c.filter (fun x => x.head? == some '-') ↔ x ∈ c) := by
    intro x hx; simp [List.mem_filter, hx]
  rw [lastEffect_reverse f hf]
  simp only [hfm, hnm ('-' :: f) rfl, hnm clearTok rfl]
  have hA : f ∈ c ↔ firstHit f toks.reverse = some .pos := by
    rw [hch.pos f hf]; simp
  have hC := hch.clear
  cases hH : firstHit f toks.reverse with
  | none =>
    have h1 : f ∉ c := by rw [hA, hH]; simp
    have h3 : clearTok ∉ c := by
      rw [hC]; intro hm; exact firstHit_ne_none_of_clear f _ hm hH
    have h2 : ('-' :: f) ∉ c := by
      by_cases hfs : '-' :: f = clearTok
      · rw [hfs]; exact h3
      · have : f ≠ star := by intro h0; apply hfs; rw [h0]; rfl
        rw [hch.neg f hf this, hH]; simp
    simp [h1, h2, h3]
  | some hh =>
    cases hh with
    | pos =>
      have h1 : f ∈ c := by rw [hA, hH]
      simp [h1]
    | neg =>
      have h1 : f ∉ c := by rw [hA, hH]; simp
      have hfs : f ≠ star := by
        intro h0
        exact firstHit_star_ne_neg f (by rw [h0]; rfl) _ hH
      have h2 : ('-' :: f) ∈ c := by rw [hch.neg f hf hfs, hH]; simp
      simp [h1, h2]
    | clear =>
      have h1 : f ∉ c := by rw [hA, hH]; simp
      have h3 : clearTok ∈ c := by rw [hC]; exact clear_of_firstHit f _ hH
      simp [h1, h3]


/-! ## consequences for `optimize_incrementals` -/

theorem holds_congr (f : Tok) (a b : List Tok) (orig : TSet) (h : lastEffect f a = lastEffect f b) :
    holds f a orig = holds f b orig := by
  simp [holds, h]

/-- the condensed stream, read back on top of any initial set, switches on exactly the flags the stream does -/
theorem optimize_reexpand (toks : List Tok) (orig : TSet) (h : wellFormed toks = true) :
    ∃ c s s', optimize toks = .ok c ∧ expand true (negsFirst c) orig = .ok s ∧ expand true toks orig = .ok s' ∧
      ∀ f, isFlag f = true → (f ∈ s ↔ f ∈ s') := by
  obtain ⟨c, hc, hch⟩ := optimize_char toks h
  have hwf : wellFormed (negsFirst c) = true := by
    unfold negsFirst
    simp only [wellFormed, List.all_append, Bool.and_eq_true]
    exact ⟨wellFormed_filter c _ hch.wf, wellFormed_filter c _ hch.wf⟩
  obtain ⟨s, hs, hsf⟩ := expand_holds (negsFirst c) orig hwf
  obtain ⟨s', hs', hsf'⟩ := expand_holds toks orig h
  refine ⟨c, s, s', hc, hs, hs', ?_⟩
  intro f hf
  rw [hsf f hf, hsf' f hf, holds_congr f _ _ orig (lastEffect_negsFirst toks c hch f hf)]

/-! ## `split_negations` -/

theorem splitLoop_spec : ∀ (l neg pos : List Tok), wellFormed l = true →
    ∃ n p, splitLoop l neg pos = .ok (n, p) ∧
      (∀ x, x ∈ n ↔ x ∈ neg ∨ ('-' :: x) ∈ l) ∧
      (∀ x, x ∈ p ↔ x ∈ pos ∨ (x ∈ l ∧ x.head? ≠ some '-'))
  | [], neg, pos, _ => ⟨neg, pos, by simp [splitLoop], by simp, by simp⟩
  | t :: ts, neg, pos, h => by
      obtain ⟨⟨hne, hd⟩, hts⟩ := (wellFormed_cons t ts).mp h
      have hE : t.isEmpty = false := by cases t with | nil => exact absurd rfl hne | cons _ _ => rfl
      unfold splitLoop
      simp only [hE, Bool.false_eq_true, if_false]
      by_cases hh : t.head? = some '-'
      · have ht := dash_tail hh
        have hte : t.tail.isEmpty = false := by
          cases htl : t.tail with
          | nil => rw [htl] at ht; exact absurd ht hd
          | cons _ _ => rfl
        simp only [hh, if_true, hte, Bool.false_eq_true, if_false]
        obtain ⟨n, p, hnp, hn, hp⟩ := splitLoop_spec ts (neg ++ [t.tail]) pos hts
        refine ⟨n, p, hnp, ?_, ?_⟩
        · intro x
          rw [hn x]
          simp only [List.mem_append, List.mem_cons, List.not_mem_nil, or_false]
          constructor
          · rintro ((h0 | h0) | h0)
            · exact Or.inl h0
            · exact Or.inr (Or.inl (by rw [h0, ← ht]))
            · exact Or.inr (Or.inr h0)
          · rintro (h0 | h0 | h0)
            · exact Or.inl (Or.inl h0)
            · exact Or.inl (Or.inr (by rw [← h0]; rfl))
            · exact Or.inr h0
        · intro x
          rw [hp x]
          simp only [List.mem_cons]
          constructor
          · rintro (h0 | ⟨h0, h1⟩)
            · exact Or.inl h0
            · exact Or.inr ⟨Or.inr h0, h1⟩
          · rintro (h0 | ⟨h0 | h0, h1⟩)
            · exact Or.inl h0
            · rw [h0] at h1; exact absurd hh h1
            · exact Or.inr ⟨h0, h1⟩
      · simp only [hh, if_false]
        obtain ⟨n, p, hnp, hn, hp⟩ := splitLoop_spec ts neg (pos ++ [t]) hts
        refine ⟨n, p, hnp, ?_, ?_⟩
        · intro x
          rw [hn x]
          simp only [List.mem_cons]
          constructor
          · rintro (h0 | h0)
            · exact Or.inl h0
            · exact Or.inr (Or.inr h0)
          · rintro (h0 | h0 | h0)
            · exact Or.inl h0
            · rw [← h0] at hh; simp at hh
            · exact Or.inr h0
        · intro x
          rw [hp x]
          simp only [List.mem_append, List.mem_cons, List.not_mem_nil, or_false]
          constructor
          · rintro ((h0 | h0) | ⟨h0, h1⟩)
            · exact Or.inl h0
            · exact Or.inr ⟨Or.inl h0, by rw [h0]; exact hh⟩
            · exact Or.inr ⟨Or.inr h0, h1⟩
          · rintro (h0 | ⟨h0 | h0, h1⟩)
            · exact Or.inl (Or.inl h0)
            · exact Or.inl (Or.inr h0)
            · exact Or.inr ⟨h0, h1⟩

/-- the condensed stream as `domain.use` reads it: one chunk `(neg, pos)`; a flag is on after applying the
chunk (clear on `*`, remove `neg`, add `pos`) iff it is on after the stream -/
theorem optimize_split (toks : List Tok) (orig : TSet) (h : wellFormed toks = true) :
    ∃ c neg pos, optimize toks = .ok c ∧ splitNegations c = .ok (neg, pos) ∧
      ∀ f, isFlag f = true →
        ((f ∈ pos ∨ (f ∈ orig ∧ star ∉ neg ∧ f ∉ neg)) ↔ holds f toks orig = true) := by
  obtain ⟨c, hc, hch⟩ := optimize_char toks h
  obtain ⟨n, p, hnp, hn, hp⟩ := splitLoop_spec c [] [] hch.wf
  refine ⟨c, n, p, hc, hnp, ?_⟩
  intro f hf
  have hfp : f ∈ p ↔ f ∈ c := by
    rw [hp f]; simp only [List.not_mem_nil, false_or]
    exact ⟨fun h0 => h0.1, fun h0 => ⟨h0, isFlag_head hf⟩⟩
  have hsn : star ∈ n ↔ clearTok ∈ c := by rw [hn star]; simp [clearTok, star]
  have hfn : f ∈ n ↔ ('-' :: f) ∈ c := by rw [hn f]; simp
  rw [hfp, hsn, hfn, holds_iff, ← lastEffect_negsFirst toks c hch f hf]
  unfold negsFirst
  rw [lastEffect_append,
    lastEffect_poss f _ (fun x hx => by simpa using (List.mem_filter.mp hx).2),
    lastEffect_negs f hf _ (fun x hx => by simpa using (List.mem_filter.mp hx).2)]
  have hfm : f ∈ c.filter (fun x => x.head? != some '-') ↔ f ∈ c := by
    simp only [List.mem_filter, bne_iff_ne, ne_eq, and_iff_left_iff_imp]
    exact fun _ => isFlag_head hf
  have hnm : ∀ x : Tok, x.head? = some '-' → (x ∈ c.filter (fun x => x.head? == some '-') ↔ x ∈ c) := by
    intro x hx; simp [List.mem_filter, hx]
  simp only [hfm, hnm ('-' :: f) rfl, hnm clearTok rfl]
  by_cases h1 : f ∈ c
  · simp [h1]
  · by_cases h2 : ('-' :: f) ∈ c
    · simp [h1, h2]
    · by_cases h3 : clearTok ∈ c <;> simp [h1, h2, h3]


/-! ## ACCEPT_LICENSE -/

theorem wellFormedLic_cons (t : Tok) (ts : List Tok) :
    wellFormedLic (t :: ts) = true ↔ (t ≠ [] ∧ t ≠ ['-'] ∧ t ≠ ['-', '@'] ∧ t ≠ ['@']) ∧ wellFormedLic ts = true := by
  simp [wellFormedLic, and_assoc]

theorem licStep_spec (licenses : List Tok) (groups : List (Tok × List Tok)) (s : TSet) (t : Tok)
    (hne : t ≠ []) (hd : t ≠ ['-']) (hda : t ≠ ['-', '@']) (ha : t ≠ ['@']) :
    ∃ s', licStep licenses groups s t = .ok s' ∧
      ∀ l, (l ∈ s' ↔ (licEffect licenses groups l t = some true ∨ (licEffect licenses groups l t = none ∧ l ∈ s))) := by
  have hE : t.isEmpty = false := by cases t with | nil => exact absurd rfl hne | cons _ _ => rfl
  unfold licStep licEffect
  simp only [hE, Bool.false_eq_true, if_false]
  by_cases hh : t.head? = some '-'
  · have ht := dash_tail hh
    have hte : t.tail.isEmpty = false := by
      cases htl : t.tail with
      | nil => rw [htl] at ht; exact absurd ht hd
      | cons _ _ => rfl
    simp only [hh, if_true, hte, Bool.false_eq_true, if_false]
    by_cases hs : t.tail = star
    · simp only [hs, if_true]
      exact ⟨_, rfl, fun l => by simp⟩
    · simp only [hs, if_false]
      by_cases hg : t.tail.head? = some '@'
      · have hgt : t.tail.tail.isEmpty = false := by
          cases htl : t.tail.tail with
          | nil =>
            exfalso; apply hda
            have h2 := dash_tail hh
            have h3 : t.tail = '@' :: t.tail.tail := by
              cases hx : t.tail with
              | nil => rw [hx] at hg; simp at hg
              | cons a as => rw [hx] at hg; simp at hg; subst hg; rfl
            rw [h2, h3, htl]
          | cons _ _ => rfl
        simp only [hg, if_true, hgt, Bool.false_eq_true, if_false]
        refine ⟨_, rfl, fun l => ?_⟩
        rw [mem_sDiff]
        by_cases hm : (groupGet groups t.tail.tail).contains l = true
        · have : l ∈ groupGet groups t.tail.tail := by simpa using hm
          simp [hm, this]
        · have : l ∉ groupGet groups t.tail.tail := by simpa using hm
          simp [hm, this]
      · simp only [hg, if_false]
        refine ⟨_, rfl, fun l => ?_⟩
        rw [mem_sDiscard]
        by_cases hl : t.tail = l
        · simp [hl]
        · have : l ≠ t.tail := fun h0 => hl h0.symm
          simp [hl, this]
  · simp only [hh, if_false]
    by_cases hg : t.head? = some '@'
    · have hgt : t.tail.isEmpty = false := by
        cases htl : t.tail with
        | nil =>
          exfalso; apply ha
          cases hx : t with
          | nil => exact absurd hx hne
          | cons a as => rw [hx] at hg htl; simp at hg htl; subst hg; subst htl; rfl
        | cons _ _ => rfl
      simp only [hg, if_true, hgt, Bool.false_eq_true, if_false]
      refine ⟨_, rfl, fun l => ?_⟩
      rw [mem_sUpdate]
      by_cases hm : (groupGet groups t.tail).contains l = true
      · have : l ∈ groupGet groups t.tail := by simpa using hm
        simp [hm, this]
      · have : l ∉ groupGet groups t.tail := by simpa using hm
        simp [hm, this]
    · simp only [hg, if_false]
      by_cases hs : t = star
      · simp only [hs, if_true]
        refine ⟨_, rfl, fun l => ?_⟩
        rw [mem_sUpdate]
        by_cases hm : licenses.contains l = true
        · have : l ∈ licenses := by simpa using hm
          simp [hm, this]
        · have : l ∉ licenses := by simpa using hm
          simp [hm, this]
      · simp only [hs, if_false]
        refine ⟨_, rfl, fun l => ?_⟩
        rw [mem_sAdd]
        by_cases hl : t = l
        · simp [hl]
        · have : l ≠ t := fun h0 => hl h0.symm
          simp [hl, this]

theorem expandLicFrom_spec (licenses : List Tok) (groups : List (Tok × List Tok)) :
    ∀ (toks : List Tok) (s0 : TSet), wellFormedLic toks = true →
    ∃ s, expandLicFrom licenses groups toks s0 = .ok s ∧
      ∀ l, (l ∈ s ↔ (lastLicEffect licenses groups l toks = some true ∨
                      (lastLicEffect licenses groups l toks = none ∧ l ∈ s0)))
  | [], s0, _ => ⟨s0, by simp [expandLicFrom], fun l => by simp [lastLicEffect]⟩
  | t :: ts, s0, h => by
      obtain ⟨⟨hne, hd, hda, ha⟩, hts⟩ := (wellFormedLic_cons t ts).mp h
      obtain ⟨s1, h1, hs1⟩ := licStep_spec licenses groups s0 t hne hd hda ha
      obtain ⟨s, h2, hs⟩ := expandLicFrom_spec licenses groups ts s1 hts
      refine ⟨s, by rw [expandLicFrom, h1]; exact h2, ?_⟩
      intro l
      rw [hs l, hs1 l]
      simp only [lastLicEffect]
      cases lastLicEffect licenses groups l ts with
      | some b => simp
      | none => simp

/-! ## rejection -/

theorem expand_rejects (fin : Bool) : ∀ (toks : List Tok) (s : TSet), (∀ t ∈ toks, t ≠ []) → ['-'] ∈ toks →
    expand fin toks s = .error .incomplete
  | [], _, _, h => by simp at h
  | t :: ts, s, hne, h => by
      rw [expand_cons]
      by_cases ht : t = ['-']
      · subst ht; simp [expandStep]
      · have hmem : ['-'] ∈ ts := by
          rcases List.mem_cons.mp h with h0 | h0
          · exact absurd h0.symm ht
          · exact h0
        have hE : t.isEmpty = false := by
          cases t with | nil => exact absurd rfl (hne [] (by simp)) | cons _ _ => rfl
        have ih := fun s' => expand_rejects fin ts s' (fun x hx => hne x (by simp [hx])) hmem
        unfold expandStep
        simp only [hE, Bool.false_eq_true, if_false]
        by_cases hh : t.head? = some '-'
        · have hte : t.tail.isEmpty = false := by
            cases htl : t.tail with
            | nil => exact absurd (by rw [dash_tail hh, htl]) ht
            | cons _ _ => rfl
          simp only [hh, if_true, hte, Bool.false_eq_true, if_false, ih]
        · simp only [hh, if_false, ih]

theorem optLoop_rejects : ∀ (rest : List Tok) (fin : TSet), (∀ t ∈ rest, t ≠ []) → ['-'] ∈ rest →
    optLoop rest fin = .error .incomplete
  | [], _, _, h => by simp at h
  | item :: rest, fin, hne, h => by
      unfold optLoop
      by_cases ht : item = ['-']
      · subst ht; simp
      · have hmem : ['-'] ∈ rest := by
          rcases List.mem_cons.mp h with h0 | h0
          · exact absurd h0.symm ht
          · exact h0
        have hE : item.isEmpty = false := by
          cases item with | nil => exact absurd rfl (hne [] (by simp)) | cons _ _ => rfl
        have ih := fun fin' => optLoop_rejects rest fin' (fun x hx => hne x (by simp [hx])) hmem
        simp only [hE, Bool.false_eq_true, if_false]
        by_cases hh : item.head? = some '-'
        · have hte : item.tail.isEmpty = false := by
            cases htl : item.tail with
            | nil => exact absurd (by rw [dash_tail hh, htl]) ht
            | cons _ _ => rfl
          have hc : rest.contains ['-'] = true := by simpa using hmem
          simp only [hh, if_true, hte, Bool.false_eq_true, if_false, hc, ih, Except.map]
          split
          · rfl
          · split <;> rfl
        · simp only [hh, if_false, ih, Except.map]
          split <;> rfl

theorem expandLicFrom_rejects (licenses : List Tok) (groups : List (Tok × List Tok)) :
    ∀ (toks : List Tok) (s : TSet), (∀ t ∈ toks, t ≠ []) → (['-'] ∈ toks ∨ ['-', '@'] ∈ toks ∨ ['@'] ∈ toks) →
    expandLicFrom licenses groups toks s = .error .incomplete
  | [], _, _, h => by simp at h
  | t :: ts, s, hne, h => by
      rw [expandLicFrom]
      by_cases ht : t = ['-'] ∨ t = ['-', '@'] ∨ t = ['@']
      · rcases ht with ht | ht | ht <;> subst ht <;> simp [licStep, star]
      · have hmem : ['-'] ∈ ts ∨ ['-', '@'] ∈ ts ∨ ['@'] ∈ ts := by
          rcases h with h | h | h
          · rcases List.mem_cons.mp h with h0 | h0
            · exact absurd (Or.inl h0.symm) ht
            · exact Or.inl h0
          · rcases List.mem_cons.mp h with h0 | h0
            · exact absurd (Or.inr (Or.inl h0.symm)) ht
            · exact Or.inr (Or.inl h0)
          · rcases List.mem_cons.mp h with h0 | h0
            · exact absurd (Or.inr (Or.inr h0.symm)) ht
            · exact Or.inr (Or.inr h0)
        have tne : t ≠ [] := hne t (by simp)
        have h1 : t ≠ ['-'] := fun h0 => ht (Or.inl h0)
        have h2 : t ≠ ['-', '@'] := fun h0 => ht (Or.inr (Or.inl h0))
        have h3 : t ≠ ['@'] := fun h0 => ht (Or.inr (Or.inr h0))
        obtain ⟨s1, hs1, _⟩ := licStep_spec licenses groups s t tne h1 h2 h3
        rw [hs1]
        exact expandLicFrom_rejects licenses groups ts s1 (fun x hx => hne x (by simp [hx])) hmem


/-! ## `collapsed_restrict_to_data.pull_data` -/

theorem flag_wf {x : Tok} (h : isFlag x = true) : x ≠ [] ∧ x ≠ ['-'] :=
  ⟨isFlag_ne_nil h, by intro h0; rw [h0] at h; simp [isFlag] at h⟩

theorem wellFormed_of_flags (l : List Tok) (h : ∀ x ∈ l, isFlag x = true) : wellFormed l = true := by
  simp only [wellFormed, List.all_eq_true, Bool.and_eq_true, Bool.not_eq_true', bne_iff_ne, ne_eq]
  intro x hx
  obtain ⟨h1, h2⟩ := flag_wf (h x hx)
  exact ⟨by cases x with | nil => exact absurd rfl h1 | cons _ _ => rfl, h2⟩

/-- errors of a step do not depend on the set; results agree on flags when the sets do -/
theorem expandStep_congr (s s' : TSet) (t : Tok) (h : ∀ f, isFlag f = true → (f ∈ s ↔ f ∈ s')) :
    sameFlags (expandStep true s t) (expandStep true s' t) := by
  by_cases h1 : t = []
  · subst h1; simp [expandStep, sameFlags]
  · by_cases h2 : t = ['-']
    · subst h2; simp [expandStep, sameFlags]
    · obtain ⟨a, ha, hfa⟩ := expandStep_flag s t h1 h2
      obtain ⟨b, hb, hfb⟩ := expandStep_flag s' t h1 h2
      rw [ha, hb]
      intro f hf
      rw [hfa f hf, hfb f hf, h f hf]

theorem expand_congr : ∀ (toks : List Tok) (s s' : TSet), (∀ f, isFlag f = true → (f ∈ s ↔ f ∈ s')) →
    sameFlags (expand true toks s) (expand true toks s')
  | [], s, s', h => by simpa [sameFlags] using h
  | t :: ts, s, s', h => by
      have hs := expandStep_congr s s' t h
      rw [expand_cons, expand_cons]
      cases ha : expandStep true s t with
      | error e =>
        cases hb : expandStep true s' t with
        | error e' => rw [ha, hb] at hs; exact hs
        | ok b => rw [ha, hb] at hs; exact hs.elim
      | ok a =>
        cases hb : expandStep true s' t with
        | error e' => rw [ha, hb] at hs; exact hs.elim
        | ok b =>
          rw [ha, hb] at hs
          exact expand_congr ts a b hs

/-- a finalized expansion from a set of flags is a set of flags -/
theorem expandStep_flags (s s1 : TSet) (t : Tok) (h : expandStep true s t = .ok s1) (hs : ∀ x ∈ s, isFlag x = true) :
    ∀ x ∈ s1, isFlag x = true := by
  unfold expandStep at h
  by_cases hE : t.isEmpty = true
  · simp [hE] at h
  · simp only [hE, Bool.false_eq_true, if_false] at h
    by_cases hh : t.head? = some '-'
    · simp only [hh, if_true] at h
      by_cases hte : t.tail.isEmpty = true
      · simp [hte] at h
      · simp only [hte, Bool.false_eq_true, if_false, if_true, Except.ok.injEq] at h
        subst h
        intro x hx
        by_cases hst : t.tail = star
        · simp [hst] at hx
        · simp only [hst, if_false, mem_sDiscard] at hx
          exact hs x hx.1
    · simp only [hh, if_false, Except.ok.injEq] at h
      subst h
      intro x hx
      rw [mem_sAdd, mem_sDiscard] at hx
      rcases hx with hx | hx
      · exact hs x hx.1
      · subst hx
        simp only [isFlag, Bool.and_eq_true, Bool.not_eq_true', bne_iff_ne, ne_eq]
        exact ⟨by simpa using hE, hh⟩

theorem expand_flags : ∀ (toks : List Tok) (s s' : TSet), expand true toks s = .ok s' → (∀ x ∈ s, isFlag x = true) →
    ∀ x ∈ s', isFlag x = true
  | [], s, s', h, hs => by simp at h; subst h; exact hs
  | t :: ts, s, s', h, hs => by
      rw [expand_cons] at h
      cases h1 : expandStep true s t with
      | error e => rw [h1] at h; cases h
      | ok s1 =>
        rw [h1] at h
        exact expand_flags ts s1 s' h (expandStep_flags s s1 t h1 hs)

/-- expanding a list of flags just adds them -/
theorem expand_of_flags (l : List Tok) (s0 : TSet) (hl : ∀ x ∈ l, isFlag x = true) :
    ∃ s, expand true l s0 = .ok s ∧ ∀ f, isFlag f = true → (f ∈ s ↔ f ∈ l ∨ f ∈ s0) := by
  obtain ⟨s, hs, hf⟩ := expand_holds l s0 (wellFormed_of_flags l hl)
  refine ⟨s, hs, fun f hff => ?_⟩
  rw [hf f hff, holds_iff, lastEffect_poss f l (fun x hx => isFlag_head (hl x hx))]
  by_cases h : f ∈ l <;> simp [h]

theorem collapse_defaults_flags (entries : List (RKind × List Tok)) (c : Collapsed)
    (h : collapse true entries = .ok c) : ∀ x ∈ c.defaults, isFlag x = true := by
  unfold collapse at h
  simp only at h
  split at h
  · cases h
  · rename_i d hd
    simp only [Except.ok.injEq] at h
    subst h
    simp only
    split at hd
    · simp only [Except.ok.injEq] at hd; subst hd; simp
    · exact expand_flags _ [] d hd (by simp)

theorem pullData_nil (c : Collapsed) (key : Tok) (order : List Tok) :
    pullData c key [] order = expand true (matching c key) (c.defaults.filter (·.head? != some '-')) := by
  unfold pullData
  simp

theorem pullData_pre (c : Collapsed) (key : Tok) (pre order : List Tok) (hp : pre.isEmpty = false) :
    pullData c key pre order = expand true (order ++ matching c key) (pre.foldl sAdd []) := by
  unfold pullData
  simp only [hp, Bool.false_eq_true, if_false]
  rw [expand_append]
  cases expand true order (pre.foldl sAdd []) <;> rfl

/-- **`pull_data` is the expansion of the stream `iter_pull_data` yields** (finalized defaults) -/
theorem pullData_stream (entries : List (RKind × List Tok)) (c : Collapsed) (key : Tok) (pre order : List Tok)
    (hc : collapse true entries = .ok c) (hpre : ∀ x ∈ pre, isFlag x = true)
    (hord : ∀ x, x ∈ order ↔ x ∈ c.defaults) :
    sameFlags (pullData c key pre order) (expand true (iterPullData c key pre order) []) := by
  have hdf := collapse_defaults_flags entries c hc
  have hof : ∀ x ∈ order, isFlag x = true := fun x hx => hdf x ((hord x).mp hx)
  unfold iterPullData
  by_cases hp : pre.isEmpty = true
  · have : pre = [] := by simpa using hp
    subst this
    rw [pullData_nil, List.nil_append]
    obtain ⟨so, hso, hsof⟩ := expand_of_flags order [] hof
    rw [expand_append, hso]
    apply expand_congr
    intro f hf
    rw [hsof f hf, hord f]
    simp only [List.mem_filter, bne_iff_ne, ne_eq, List.not_mem_nil, or_false]
    exact ⟨fun h => h.1, fun h => ⟨h, isFlag_head hf⟩⟩
  · have hp' : pre.isEmpty = false := by simpa using hp
    obtain ⟨sp, hsp, hspf⟩ := expand_of_flags pre [] hpre
    rw [pullData_pre c key pre order hp', List.append_assoc, expand_append true pre, hsp]
    apply expand_congr
    intro f hf
    rw [hspf f hf]
    have := mem_sUpdate [] pre f
    unfold sUpdate at this
    rw [this]
    simp


end Pkgcore.C12
