import Pkgcore.Spec.C18
/-!
# C18 — helper lemmas

1. the association list (`lookup`) and the `view` of the four state transformers `del/put/alloc/updIno`;
2. well-formedness of a file system and its preservation by every system call;
3. characterisation of each system call used by the merge (`step … = ok …` ⇒ the new `view`);
4. trajectories (`Traj`): log extension + all intermediate states;
5. the code fragments (`build`, `copyfile`, `doLink`, `ensureDirs`, `mergeDir`) and the loop invariant `Mid`.
-/
namespace Pkgcore.C18
open Pkgcore.C18.Spec

/-! ## 1. lookup / view -/

theorem lookup_filter (l : List Dirent) (p q : Path) :
    lookup (l.filter (fun d => decide (d.1 ≠ p))) q = if q = p then none else lookup l q := by
  induction l with
  | nil => simp [lookup]
  | cons d t ih =>
    obtain ⟨dp, dv⟩ := d
    by_cases hdp : dp = p
    · subst hdp
      simp only [ne_eq, not_true_eq_false, decide_false, Bool.false_eq_true, not_false_eq_true,
        List.filter_cons_of_neg, ih, lookup]
      by_cases hq : q = dp
      · simp [hq]
      · have : ¬ dp = q := fun h => hq h.symm
        simp [hq, this]
    · have : decide (dp ≠ p) = true := by simp [hdp]
      rw [List.filter_cons_of_pos (by simpa using this)]
      simp only [lookup, ih]
      by_cases hq : dp = q
      · subst hq; simp [hdp]
      · simp [hq]

theorem lookup_map_upd (l : List Dirent) (i : Nat) (f : Inode → Inode) (q : Path) :
    lookup (l.map (fun d => if d.2.1 = i then (d.1, d.2.1, f d.2.2) else d)) q =
      (lookup l q).map (fun v => if v.1 = i then (v.1, f v.2) else v) := by
  induction l with
  | nil => simp [lookup]
  | cons d t ih =>
    obtain ⟨dp, di, dn⟩ := d
    by_cases hq : dp = q
    · subst hq
      by_cases hi : di = i <;> simp [lookup, hi]
    · by_cases hi : di = i <;> simp [lookup, hi, hq, ih]

namespace Fs

@[simp] theorem view_del (fs : Fs) (p q : Path) : (fs.del p).view q = if q = p then none else fs.view q :=
  lookup_filter fs.ents p q

@[simp] theorem view_put (fs : Fs) (p q : Path) (i : Nat) (nd : Inode) :
    (fs.put p i nd).view q = if q = p then some (i, nd) else fs.view q := by
  show lookup ((p, i, nd) :: fs.ents.filter (fun d => decide (d.1 ≠ p))) q = _
  by_cases h : q = p
  · subst h; simp [lookup]
  · have h' : ¬ p = q := fun e => h e.symm
    rw [lookup, if_neg h', lookup_filter, if_neg h, if_neg h]; rfl

@[simp] theorem view_alloc (fs : Fs) (p q : Path) (nd : Inode) :
    (fs.alloc p nd).view q = if q = p then some (fs.next, nd) else fs.view q := by
  show lookup ((p, fs.next, nd) :: fs.ents.filter (fun d => decide (d.1 ≠ p))) q = _
  by_cases h : q = p
  · subst h; simp [lookup]
  · have h' : ¬ p = q := fun e => h e.symm
    rw [lookup, if_neg h', lookup_filter, if_neg h, if_neg h]; rfl

@[simp] theorem view_updIno (fs : Fs) (i : Nat) (f : Inode → Inode) (q : Path) :
    (fs.updIno i f).view q = (fs.view q).map (fun v => if v.1 = i then (v.1, f v.2) else v) := by
  simp [view, updIno, lookup_map_upd]

@[simp] theorem next_del (fs : Fs) (p : Path) : (fs.del p).next = fs.next := rfl
@[simp] theorem next_put (fs : Fs) (p : Path) (i : Nat) (nd : Inode) : (fs.put p i nd).next = fs.next := rfl
@[simp] theorem next_alloc (fs : Fs) (p : Path) (nd : Inode) : (fs.alloc p nd).next = fs.next + 1 := rfl
@[simp] theorem next_updIno (fs : Fs) (i : Nat) (f : Inode → Inode) : (fs.updIno i f).next = fs.next := rfl

/-! ## 2. well-formedness -/

/-- every visible inode number is below the allocation counter (so a new inode is shared with nobody) -/
def WF1 (fs : Fs) : Prop := ∀ p i nd, fs.view p = some (i, nd) → i < fs.next

/-- a directory has exactly one name -/
def WF2 (fs : Fs) : Prop :=
  ∀ p q i nd nd', fs.view p = some (i, nd) → fs.view q = some (i, nd') → nd.kind = .dir → p = q

structure WF (fs : Fs) : Prop where
  lt : WF1 fs
  dir1 : WF2 fs

end Fs

/-- `updIno` at the inode of `p` as seen from another path -/
theorem view_updIno_of_ne_ino {fs : Fs} {i : Nat} {f : Inode → Inode} {q : Path}
    (h : ∀ j nd, fs.view q = some (j, nd) → j ≠ i) : (fs.updIno i f).view q = fs.view q := by
  rw [Fs.view_updIno]
  cases hv : fs.view q with
  | none => rfl
  | some v =>
    obtain ⟨j, nd⟩ := v
    have := h j nd hv
    simp [this]

theorem parentErr_none_iff {fs : Fs} {n : Name} {q : Path} :
    fs.parentErr (n :: q) = none ↔ ∃ i nd, fs.view q = some (i, nd) ∧ nd.kind = .dir := by
  unfold Fs.parentErr
  cases hv : fs.view q with
  | none =>
    simp only
    constructor
    · intro h
      split at h
      · cases h
      · split at h <;> cases h
    · rintro ⟨i, nd, h, _⟩; cases h
  | some v =>
    obtain ⟨i, nd⟩ := v
    simp only
    constructor
    · intro h
      split at h
      · next hk => exact ⟨i, nd, rfl, hk⟩
      · cases h
    · rintro ⟨i', nd', h, hk⟩
      cases h
      rw [if_pos hk]

theorem parentErr_ne_EEXIST (fs : Fs) (p : Path) : fs.parentErr p ≠ some .EEXIST := by
  cases p with
  | nil => simp [Fs.parentErr]
  | cons n q =>
    unfold Fs.parentErr
    split
    · split <;> simp
    · split
      · simp
      · split <;> simp

/-- the parent check only looks at the parent -/
theorem parentErr_none_congr {fs fs' : Fs} {p : Path} (h : fs'.view p.tail = fs.view p.tail)
    (hp : fs.parentErr p = none) : fs'.parentErr p = none := by
  cases p with
  | nil => simp [Fs.parentErr] at hp
  | cons n q =>
    rw [parentErr_none_iff] at hp ⊢
    simp only [List.tail_cons] at h
    rw [h]; exact hp

theorem map_upd_next {fs : Fs} (hwf : fs.WF1) (f : Inode → Inode) (q : Path) :
    (fs.view q).map (fun v => if v.1 = fs.next then (v.1, f v.2) else v) = fs.view q := by
  cases hv : fs.view q with
  | none => rfl
  | some v =>
    obtain ⟨j, nd⟩ := v
    have : j ≠ fs.next := Nat.ne_of_lt (hwf q j nd hv)
    simp [this]

/-! ## 4. trajectories -/

theorem applyOp_ok {env : Env} {fs fs' : Fs} {op : Op} (h : step env fs op = .ok fs') : applyOp env fs op = fs' := by
  simp [applyOp, h]
theorem applyOp_err {env : Env} {fs : Fs} {op : Op} {e : Errno} (h : step env fs op = .error e) : applyOp env fs op = fs := by
  simp [applyOp, h]

@[simp] theorem run_nil (env : Env) (fs : Fs) : run env fs [] = fs := rfl
@[simp] theorem run_cons (env : Env) (fs : Fs) (op : Op) (ops : List Op) :
    run env fs (op :: ops) = run env (applyOp env fs op) ops := rfl
theorem run_append (env : Env) (fs : Fs) (a b : List Op) : run env fs (a ++ b) = run env (run env fs a) b := by
  simp [run, List.foldl_append]

/-- `s'` is reached from `s` by appending system calls to the log; its file system is the replay of those calls
from `s.fs`; and **every** intermediate file system (every prefix of the calls, both ends included) satisfies `P` -/
def Traj (env : Env) (P : Fs → Prop) (s s' : St) : Prop :=
  ∃ ops : List (Op × Option Errno), s'.log = s.log ++ ops ∧
    s'.fs = run env s.fs (ops.map Prod.fst) ∧ ∀ k, P (run env s.fs ((ops.map Prod.fst).take k))

theorem Traj.refl {env : Env} {P : Fs → Prop} {s : St} (h : P s.fs) : Traj env P s s :=
  ⟨[], by simp, by simp, by intro k; simpa using h⟩

theorem Traj.start {env : Env} {P : Fs → Prop} {s s' : St} (h : Traj env P s s') : P s.fs := by
  obtain ⟨ops, _, _, hk⟩ := h
  simpa using hk 0

theorem Traj.final {env : Env} {P : Fs → Prop} {s s' : St} (h : Traj env P s s') : P s'.fs := by
  obtain ⟨ops, _, hf, hk⟩ := h
  have := hk (ops.map Prod.fst).length
  rw [List.take_length] at this
  rwa [hf]

theorem Traj.mono {env : Env} {P Q : Fs → Prop} {s s' : St} (h : Traj env P s s') (hPQ : ∀ f, P f → Q f) :
    Traj env Q s s' := by
  obtain ⟨ops, h1, h2, h3⟩ := h
  exact ⟨ops, h1, h2, fun k => hPQ _ (h3 k)⟩

theorem Traj.trans {env : Env} {P : Fs → Prop} {s s1 s2 : St} (h1 : Traj env P s s1) (h2 : Traj env P s1 s2) :
    Traj env P s s2 := by
  obtain ⟨a, ha1, ha2, ha3⟩ := h1
  obtain ⟨b, hb1, hb2, hb3⟩ := h2
  refine ⟨a ++ b, by rw [hb1, ha1, List.append_assoc], ?_, ?_⟩
  · rw [hb2, ha2, List.map_append, run_append]
  · intro k
    rw [List.map_append, List.take_append]
    rw [run_append]
    by_cases hk : k ≤ (a.map Prod.fst).length
    · have : k - (a.map Prod.fst).length = 0 := by omega
      rw [this]; simpa using ha3 k
    · have hk' : (a.map Prod.fst).length ≤ k := by omega
      rw [List.take_of_length_le hk', ← ha2]
      exact hb3 _

theorem St.sys_eq (env : Env) (s : St) (op : Op) :
    (s.sys env op).1.fs = applyOp env s.fs op ∧ (s.sys env op).1.log = s.log ++ [(op, (s.sys env op).2)] := by
  unfold St.sys applyOp
  cases step env s.fs op <;> simp

theorem Traj.sys {env : Env} {P : Fs → Prop} {s : St} (op : Op) (h0 : P s.fs) (h1 : P (applyOp env s.fs op)) :
    Traj env P s (s.sys env op).1 := by
  refine ⟨[(op, (s.sys env op).2)], (St.sys_eq env s op).2, by simp [(St.sys_eq env s op).1], ?_⟩
  intro k
  match k with
  | 0 => simpa using h0
  | k + 1 => simpa using h1

theorem St.sys_ok {env : Env} {s s' : St} {op : Op} (h : s.sys env op = (s', none)) :
    step env s.fs op = .ok s'.fs ∧ s'.log = s.log ++ [(op, none)] := by
  unfold St.sys at h
  cases hs : step env s.fs op with
  | ok f => rw [hs] at h; simp only [Prod.mk.injEq] at h; obtain ⟨h, -⟩ := h; subst h; simp
  | error e => rw [hs] at h; simp at h

theorem St.sys_err {env : Env} {s s' : St} {op : Op} {e : Errno} (h : s.sys env op = (s', some e)) :
    step env s.fs op = .error e ∧ s'.fs = s.fs := by
  unfold St.sys at h
  cases hs : step env s.fs op with
  | ok f => rw [hs] at h; simp at h
  | error e' =>
    rw [hs] at h
    simp only [Prod.mk.injEq, Option.some.injEq] at h
    obtain ⟨h1, h2⟩ := h
    subst h1 h2; simp

theorem sysAll_nil {env : Env} {s s' : St} {r : Except Exc Unit} (h : s.sysAll env [] = (s', r)) : s' = s ∧ r = .ok () := by
  simp [St.sysAll] at h; exact ⟨h.1.symm, h.2.symm⟩

theorem sysAll_cons_ok {env : Env} {s s' : St} {op : Op} {ops : List Op}
    (h : s.sysAll env (op :: ops) = (s', .ok ())) :
    ∃ s1, s.sys env op = (s1, none) ∧ s1.sysAll env ops = (s', .ok ()) := by
  unfold St.sysAll at h
  generalize hsys : s.sys env op = r at h
  obtain ⟨s1, e⟩ := r
  cases e with
  | none => exact ⟨s1, rfl, h⟩
  | some e => simp at h

/-! ## 5a. building one object on a fresh inode -/

/-- `fs` is `base` except at `fp`, where it holds inode `n` (which no other path of `base` carries) -/
structure SoloAt (fs base : Fs) (fp : Path) (n : Nat) (nd : Inode) : Prop where
  here : fs.view fp = some (n, nd)
  off : ∀ q, q ≠ fp → fs.view q = base.view q
  fresh : ∀ q, q ≠ fp → ∀ j nd', base.view q = some (j, nd') → j ≠ n

theorem SoloAt.upd {fs base : Fs} {fp : Path} {n : Nat} {nd : Inode} (h : SoloAt fs base fp n nd) (f : Inode → Inode) :
    SoloAt (fs.updIno n f) base fp n (f nd) := by
  refine ⟨by simp [h.here], ?_, h.fresh⟩
  intro q hq
  rw [← h.off q hq]
  apply view_updIno_of_ne_ino
  intro j nd' hv
  rw [h.off q hq] at hv
  exact h.fresh q hq j nd' hv

theorem SoloAt.alloc {base : Fs} (hwf : base.WF1) (fp : Path) (nd : Inode) :
    SoloAt (base.alloc fp nd) base fp base.next nd := by
  refine ⟨by simp, fun q hq => by simp [hq], ?_⟩
  intro q _ j nd' hv
  exact Nat.ne_of_lt (hwf q j nd' hv)

/-- the trajectory predicate of a build: nothing but `fp` differs from `base` -/
def OffEq (base : Fs) (fp : Path) (f : Fs) : Prop := ∀ q, q ≠ fp → f.view q = base.view q

theorem SoloAt.offEq {fs base : Fs} {fp : Path} {n : Nat} {nd : Inode} (h : SoloAt fs base fp n nd) : OffEq base fp fs := h.off

/-- one successful system call whose result is known -/
theorem Traj.step_ok {env : Env} {P : Fs → Prop} {s s1 : St} {op : Op} (h : s.sys env op = (s1, none))
    (h0 : P s.fs) (h1 : P s1.fs) : Traj env P s s1 := by
  have := Traj.sys (env := env) (P := P) (s := s) op h0 (by rw [applyOp_ok (St.sys_ok h).1]; exact h1)
  rwa [h] at this

theorem perms_ok {env : Env} {s s' : St} {e : Entry} {fp : Path} {n : Nat} {nd0 : Inode} {base : Fs}
    (hnd : e.isDir = false) (h0 : SoloAt s.fs base fp n nd0)
    (hk : nd0.kind = e.inode.kind) (hmode : e.isSym = true → nd0.mode = 0o777)
    (h : s.sysAll env (permsOps e fp) = (s', .ok ())) :
    SoloAt s'.fs base fp n e.inode ∧ s'.fs.next = s.fs.next ∧ Traj env (OffEq base fp) s s' := by
  obtain ⟨loc, kind, mode, uid, gid, mtime⟩ := e
  cases kind with
  | dir => simp [Entry.isDir] at hnd
  | sym t =>
    simp only [permsOps] at h
    obtain ⟨s1, h1, h⟩ := sysAll_cons_ok h
    obtain ⟨s2, h2, h⟩ := sysAll_cons_ok h
    obtain ⟨rfl, -⟩ := sysAll_nil h
    have e1 := (St.sys_ok h1).1
    simp only [step, h0.here] at e1
    injection e1 with e1
    have a1 := h0.upd (fun nd => { nd with uid := uid, gid := gid })
    rw [e1] at a1
    have e2 := (St.sys_ok h2).1
    simp only [Entry.inode] at hk
    simp only [step, a1.here, hk] at e2
    injection e2 with e2
    have a2 := a1.upd (fun nd => { nd with mtime := mtime })
    rw [e2] at a2
    have hm := hmode (by simp [Entry.isSym])
    refine ⟨?_, ?_, ?_⟩
    · have : ({ ({ nd0 with uid := uid, gid := gid } : Inode) with mtime := mtime } : Inode)
          = Entry.inode ⟨loc, .sym t, mode, uid, gid, mtime⟩ := by
        simp only [Entry.inode]; cases nd0; simp_all
      rw [← this]; exact a2
    · rw [← e2, ← e1]; rfl
    · exact (Traj.step_ok h1 h0.offEq a1.offEq).trans (Traj.step_ok h2 a1.offEq a2.offEq)
  | reg d key =>
    simp only [permsOps] at h
    obtain ⟨s1, h1, h⟩ := sysAll_cons_ok h
    obtain ⟨s2, h2, h⟩ := sysAll_cons_ok h
    obtain ⟨s3, h3, h⟩ := sysAll_cons_ok h
    obtain ⟨rfl, -⟩ := sysAll_nil h
    have e1 := (St.sys_ok h1).1
    simp only [step, h0.here] at e1
    injection e1 with e1
    have a1 := h0.upd (fun nd => { nd with uid := uid, gid := gid })
    rw [e1] at a1
    have e2 := (St.sys_ok h2).1
    simp only [Entry.inode] at hk
    simp only [step, a1.here, hk] at e2
    injection e2 with e2
    have a2 := a1.upd (fun nd => { nd with mode := mode })
    rw [e2] at a2
    have e3 := (St.sys_ok h3).1
    simp only [step, a2.here, hk] at e3
    injection e3 with e3
    have a3 := a2.upd (fun nd => { nd with mtime := mtime })
    rw [e3] at a3
    refine ⟨?_, ?_, ?_⟩
    · have : ({ ({ ({ nd0 with uid := uid, gid := gid } : Inode) with mode := mode } : Inode) with mtime := mtime } : Inode)
          = Entry.inode ⟨loc, .reg d key, mode, uid, gid, mtime⟩ := by
        simp only [Entry.inode]; cases nd0; simp_all
      rw [← this]; exact a3
    · rw [← e3, ← e2, ← e1]; rfl
    · exact ((Traj.step_ok h1 h0.offEq a1.offEq).trans (Traj.step_ok h2 a1.offEq a2.offEq)).trans
        (Traj.step_ok h3 a2.offEq a3.offEq)
  | fifo =>
    simp only [permsOps] at h
    obtain ⟨s1, h1, h⟩ := sysAll_cons_ok h
    obtain ⟨s2, h2, h⟩ := sysAll_cons_ok h
    obtain ⟨s3, h3, h⟩ := sysAll_cons_ok h
    obtain ⟨rfl, -⟩ := sysAll_nil h
    have e1 := (St.sys_ok h1).1
    simp only [step, h0.here] at e1
    injection e1 with e1
    have a1 := h0.upd (fun nd => { nd with uid := uid, gid := gid })
    rw [e1] at a1
    have e2 := (St.sys_ok h2).1
    simp only [Entry.inode] at hk
    simp only [step, a1.here, hk] at e2
    injection e2 with e2
    have a2 := a1.upd (fun nd => { nd with mode := mode })
    rw [e2] at a2
    have e3 := (St.sys_ok h3).1
    simp only [step, a2.here, hk] at e3
    injection e3 with e3
    have a3 := a2.upd (fun nd => { nd with mtime := mtime })
    rw [e3] at a3
    refine ⟨?_, ?_, ?_⟩
    · have : ({ ({ ({ nd0 with uid := uid, gid := gid } : Inode) with mode := mode } : Inode) with mtime := mtime } : Inode)
          = Entry.inode ⟨loc, .fifo, mode, uid, gid, mtime⟩ := by
        simp only [Entry.inode]; cases nd0; simp_all
      rw [← this]; exact a3
    · rw [← e3, ← e2, ← e1]; rfl
    · exact ((Traj.step_ok h1 h0.offEq a1.offEq).trans (Traj.step_ok h2 a1.offEq a2.offEq)).trans
        (Traj.step_ok h3 a2.offEq a3.offEq)

theorem sysAll_append_ok {env : Env} {a b : List Op} {s s' : St}
    (h : s.sysAll env (a ++ b) = (s', .ok ())) :
    ∃ s1, s.sysAll env a = (s1, .ok ()) ∧ s1.sysAll env b = (s', .ok ()) := by
  induction a generalizing s with
  | nil => exact ⟨s, rfl, h⟩
  | cons op ops ih =>
    rw [List.cons_append] at h
    obtain ⟨s1, h1, h2⟩ := sysAll_cons_ok h
    obtain ⟨s2, h3, h4⟩ := ih h2
    refine ⟨s2, ?_, h4⟩
    unfold St.sysAll
    rw [h1]; exact h3

/-- `createOps ++ permsOps` at a free location `fp`: the object is built on a new inode, nothing else moves -/
theorem build_ok {env : Env} {s s' : St} {e : Entry} {fp : Path}
    (hnd : e.isDir = false) (hv : s.fs.view fp = none) (hwf : s.fs.WF1)
    (h : s.sysAll env (createOps env e fp ++ permsOps e fp) = (s', .ok ())) :
    SoloAt s'.fs s.fs fp s.fs.next e.inode ∧ s'.fs.next = s.fs.next + 1 ∧ Traj env (OffEq s.fs fp) s s' ∧
      s.fs.parentErr fp = none := by
  obtain ⟨sc, hc, hp⟩ := sysAll_append_ok h
  have base0 : OffEq s.fs fp s.fs := fun _ _ => rfl
  obtain ⟨loc, kind, mode, uid, gid, mtime⟩ := e
  cases kind with
  | dir => simp [Entry.isDir] at hnd
  | sym t =>
    simp only [createOps] at hc
    obtain ⟨s1, h1, hc⟩ := sysAll_cons_ok hc
    obtain ⟨rfl, -⟩ := sysAll_nil hc
    have e1 := (St.sys_ok h1).1
    simp only [step, hv] at e1
    cases hpe : s.fs.parentErr fp with
    | some x => simp [hpe] at e1
    | none =>
      simp [hpe] at e1
      have a1 := SoloAt.alloc hwf fp ⟨.sym t, 0o777, env.uid, newGid env s.fs fp, 0⟩
      rw [e1] at a1
      obtain ⟨b1, b2, b3⟩ := perms_ok (e := ⟨loc, .sym t, mode, uid, gid, mtime⟩) hnd a1 (by simp [Entry.inode]) (by simp) hp
      refine ⟨b1, ?_, (Traj.step_ok h1 base0 a1.offEq).trans b3, rfl⟩
      rw [b2, ← e1]; rfl
  | fifo =>
    simp only [createOps] at hc
    obtain ⟨s1, h1, hc⟩ := sysAll_cons_ok hc
    obtain ⟨rfl, -⟩ := sysAll_nil hc
    have e1 := (St.sys_ok h1).1
    simp only [step, hv] at e1
    cases hpe : s.fs.parentErr fp with
    | some x => simp [hpe] at e1
    | none =>
      simp [hpe] at e1
      have a1 := SoloAt.alloc hwf fp ⟨.fifo, maskMode 0o666 env.umask, env.uid, newGid env s.fs fp, 0⟩
      rw [e1] at a1
      obtain ⟨b1, b2, b3⟩ := perms_ok (e := ⟨loc, .fifo, mode, uid, gid, mtime⟩) hnd a1 (by simp [Entry.inode]) (by simp [Entry.isSym]) hp
      refine ⟨b1, ?_, (Traj.step_ok h1 base0 a1.offEq).trans b3, rfl⟩
      rw [b2, ← e1]; rfl
  | reg d key =>
    by_cases hd : d = ""
    · subst hd
      simp only [createOps, if_true] at hc
      obtain ⟨s1, h1, hc⟩ := sysAll_cons_ok hc
      obtain ⟨rfl, -⟩ := sysAll_nil hc
      have e1 := (St.sys_ok h1).1
      simp only [step, hv] at e1
      cases hpe : s.fs.parentErr fp with
      | some x => simp [hpe] at e1
      | none =>
        simp [hpe] at e1
        have a1 := SoloAt.alloc hwf fp ⟨.file "", maskMode 0o666 env.umask, env.uid, newGid env s.fs fp, 0⟩
        rw [e1] at a1
        obtain ⟨b1, b2, b3⟩ := perms_ok (e := ⟨loc, .reg "" key, mode, uid, gid, mtime⟩) hnd a1 (by simp [Entry.inode]) (by simp [Entry.isSym]) hp
        refine ⟨b1, ?_, (Traj.step_ok h1 base0 a1.offEq).trans b3, rfl⟩
        rw [b2, ← e1]; rfl
    · simp only [createOps, if_neg hd] at hc
      obtain ⟨s1, h1, hc⟩ := sysAll_cons_ok hc
      obtain ⟨s2, h2, hc⟩ := sysAll_cons_ok hc
      obtain ⟨rfl, -⟩ := sysAll_nil hc
      have e1 := (St.sys_ok h1).1
      simp only [step, hv] at e1
      cases hpe : s.fs.parentErr fp with
      | some x => simp [hpe] at e1
      | none =>
        simp [hpe] at e1
        have a1 := SoloAt.alloc hwf fp ⟨.file "", maskMode 0o666 env.umask, env.uid, newGid env s.fs fp, 0⟩
        rw [e1] at a1
        have e2 := (St.sys_ok h2).1
        simp only [step, a1.here] at e2
        injection e2 with e2
        have a2 := a1.upd (fun n => { n with kind := .file ("" ++ d), mtime := 0 })
        rw [e2] at a2
        obtain ⟨b1, b2, b3⟩ := perms_ok (e := ⟨loc, .reg d key, mode, uid, gid, mtime⟩) hnd a2 (by simp [Entry.inode]) (by simp [Entry.isSym]) hp
        refine ⟨b1, ?_, ((Traj.step_ok h1 base0 a1.offEq).trans (Traj.step_ok h2 a1.offEq a2.offEq)).trans b3, rfl⟩
        rw [b2, ← e2, ← e1]; rfl

/-! ## 2b. every system call preserves well-formedness -/

theorem WF_del {fs : Fs} (h : fs.WF) (p : Path) : (fs.del p).WF := by
  constructor
  · intro q i nd hv
    simp only [Fs.view_del] at hv
    split at hv
    · cases hv
    · exact h.lt q i nd hv
  · intro a b i nd nd' ha hb hk
    simp only [Fs.view_del] at ha hb
    split at ha
    · cases ha
    · split at hb
      · cases hb
      · exact h.dir1 a b i nd nd' ha hb hk

theorem WF_alloc {fs : Fs} (h : fs.WF) (p : Path) (nd0 : Inode) : (fs.alloc p nd0).WF := by
  constructor
  · intro q i nd hv
    simp only [Fs.view_alloc] at hv
    split at hv
    · cases hv; simp
    · have := h.lt q i nd hv; simp; omega
  · intro a b i nd nd' ha hb hk
    simp only [Fs.view_alloc] at ha hb
    split at ha
    · split at hb
      · simp_all
      · cases ha
        exact absurd (h.lt b _ nd' hb) (Nat.lt_irrefl _)
    · split at hb
      · cases hb
        exact absurd (h.lt a _ nd ha) (Nat.lt_irrefl _)
      · exact h.dir1 a b i nd nd' ha hb hk

/-- adding a name for an existing non-directory inode -/
theorem WF_put {fs : Fs} (h : fs.WF) {src dst : Path} {i : Nat} {nd0 : Inode}
    (hsrc : fs.view src = some (i, nd0)) (hk0 : nd0.kind ≠ .dir) : (fs.put dst i nd0).WF := by
  constructor
  · intro q j nd hv
    simp only [Fs.view_put] at hv
    split at hv
    · cases hv; exact h.lt src _ _ hsrc
    · exact h.lt q j nd hv
  · intro a b j nd nd' ha hb hk
    simp only [Fs.view_put] at ha hb
    split at ha
    · cases ha; exact absurd hk hk0
    · split at hb
      · cases hb
        have := h.dir1 a src _ nd nd0 ha hsrc hk
        subst this
        rw [hsrc] at ha; cases ha; exact absurd hk hk0
      · exact h.dir1 a b j nd nd' ha hb hk

theorem WF_updIno {fs : Fs} (h : fs.WF) (i : Nat) (f : Inode → Inode)
    (hf : ∀ nd, (f nd).kind = .dir → nd.kind = .dir) : (fs.updIno i f).WF := by
  constructor
  · intro q j nd hv
    simp only [Fs.view_updIno] at hv
    cases hq : fs.view q with
    | none => simp [hq] at hv
    | some v =>
      obtain ⟨j', nd'⟩ := v
      have := h.lt q j' nd' hq
      simp only [hq, Option.map_some] at hv
      split at hv <;> (cases hv; simpa using this)
  · intro a b j nd nd' ha hb hk
    simp only [Fs.view_updIno] at ha hb
    cases hqa : fs.view a with
    | none => simp [hqa] at ha
    | some va =>
      cases hqb : fs.view b with
      | none => simp [hqb] at hb
      | some vb =>
        obtain ⟨ja, na⟩ := va
        obtain ⟨jb, nb⟩ := vb
        simp only [hqa, Option.map_some] at ha
        simp only [hqb, Option.map_some] at hb
        have hja : ja = j := by split at ha <;> (cases ha; rfl)
        have hjb : jb = j := by split at hb <;> (cases hb; rfl)
        have hka : na.kind = .dir := by
          split at ha
          · cases ha; exact hf _ hk
          · cases ha; exact hk
        exact h.dir1 a b j na nb (hja ▸ hqa) (hjb ▸ hqb) hka

theorem step_WF {env : Env} {fs fs' : Fs} {op : Op} (h : fs.WF) (hs : step env fs op = .ok fs') :
    fs'.WF ∧ fs.next ≤ fs'.next := by
  cases op with
  | mkdir p mode =>
    simp only [step] at hs
    split at hs
    · cases hs
    · split at hs
      · cases hs
      · cases hs; exact ⟨WF_alloc h _ _, by simp⟩
  | rmdir p =>
    simp only [step] at hs
    split at hs
    · cases hs
    · split at hs
      · cases hs
      · split at hs
        · cases hs
        · split at hs
          · cases hs
          · cases hs; exact ⟨WF_del h _, by simp⟩
  | unlink p =>
    simp only [step] at hs
    split at hs
    · cases hs
    · split at hs
      · cases hs
      · cases hs; exact ⟨WF_del h _, by simp⟩
  | creat p mode =>
    simp only [step] at hs
    split at hs
    · cases hs
    · split at hs
      · cases hs; exact ⟨WF_alloc h _ _, by simp⟩
      · split at hs
        · cases hs; exact ⟨WF_updIno h _ _ (by intro nd hk; simp at hk), by simp⟩
        · cases hs
        · cases hs
  | write p data =>
    simp only [step] at hs
    split at hs
    · cases hs
    · split at hs
      · cases hs; exact ⟨WF_updIno h _ _ (by intro nd hk; simp at hk), by simp⟩
      · cases hs
  | symlink t p =>
    simp only [step] at hs
    split at hs
    · cases hs
    · split at hs
      · cases hs
      · cases hs; exact ⟨WF_alloc h _ _, by simp⟩
  | mkfifo p mode =>
    simp only [step] at hs
    split at hs
    · cases hs
    · split at hs
      · cases hs
      · cases hs; exact ⟨WF_alloc h _ _, by simp⟩
  | link src dst =>
    simp only [step] at hs
    split at hs
    · cases hs
    · next i nd hsrc =>
      split at hs
      · cases hs
      · next hk =>
        split at hs
        · cases hs
        · split at hs
          · cases hs
          · cases hs; exact ⟨WF_put h hsrc hk, by simp⟩
  | rename src dst =>
    simp only [step] at hs
    split at hs
    · cases hs
    · next i nd hsrc =>
      split at hs
      · cases hs
      · split at hs
        · cases hs
        · next hk =>
          have hput : ((fs.del src).put dst i nd).WF ∧ fs.next ≤ ((fs.del src).put dst i nd).next := by
            refine ⟨?_, by simp⟩
            -- a rename is: drop the old name, add the new one
            constructor
            · intro q j nd' hv
              simp only [Fs.view_put, Fs.view_del] at hv
              split at hv
              · cases hv; exact h.lt src _ _ hsrc
              · split at hv
                · cases hv
                · exact h.lt q j nd' hv
            · intro a b j na nb ha hb hka
              simp only [Fs.view_put, Fs.view_del] at ha hb
              split at ha
              · cases ha; exact absurd hka hk
              · split at ha
                · cases ha
                · split at hb
                  · cases hb
                    have := h.dir1 a src _ na nd ha hsrc hka
                    contradiction
                  · split at hb
                    · cases hb
                    · exact h.dir1 a b j na nb ha hb hka
          split at hs
          · cases hs; exact hput
          · split at hs
            · cases hs; exact ⟨h, Nat.le_refl _⟩
            · split at hs
              · cases hs
              · cases hs; exact hput
  | lchown p u g =>
    simp only [step] at hs
    split at hs
    · cases hs
    · cases hs; exact ⟨WF_updIno h _ _ (by intro nd hk; exact hk), by simp⟩
  | chmod p m =>
    simp only [step] at hs
    split at hs
    · cases hs
    · split at hs
      · cases hs
      · cases hs; exact ⟨WF_updIno h _ _ (by intro nd hk; exact hk), by simp⟩
  | utime p t follow =>
    simp only [step] at hs
    split at hs
    · cases hs
    · split at hs
      · cases hs; exact ⟨h, Nat.le_refl _⟩
      · split at hs
        · cases hs
        · cases hs; exact ⟨WF_updIno h _ _ (by intro nd hk; exact hk), by simp⟩
      · cases hs; exact ⟨WF_updIno h _ _ (by intro nd hk; exact hk), by simp⟩

theorem applyOp_WF {env : Env} {fs : Fs} (op : Op) (h : fs.WF) :
    (applyOp env fs op).WF ∧ fs.next ≤ (applyOp env fs op).next := by
  unfold applyOp
  cases hs : step env fs op with
  | ok f => exact step_WF h hs
  | error e => exact ⟨h, Nat.le_refl _⟩

theorem run_WF {env : Env} {fs : Fs} (ops : List Op) (h : fs.WF) :
    (run env fs ops).WF ∧ fs.next ≤ (run env fs ops).next := by
  induction ops generalizing fs with
  | nil => exact ⟨h, Nat.le_refl _⟩
  | cons op ops ih =>
    have h1 := applyOp_WF (env := env) op h
    have h2 := ih h1.1
    exact ⟨h2.1, Nat.le_trans h1.2 h2.2⟩

theorem Traj.WF {env : Env} {P : Fs → Prop} {s s' : St} (h : Traj env P s s') (hwf : s.fs.WF) :
    s'.fs.WF ∧ s.fs.next ≤ s'.fs.next := by
  obtain ⟨ops, _, hf, _⟩ := h
  rw [hf]; exact run_WF _ hwf

/-! ## 5b. paths, `statFollow` -/

theorem tmpName_ne (n : String) : n ++ "#new" ≠ n := by
  intro h
  have := congrArg String.length h
  simp [String.length_append] at this

theorem tmpOf_ne {p : Path} (hp : p ≠ []) : tmpOf p ≠ p := by
  cases p with
  | nil => exact absurd rfl hp
  | cons n q => simp [tmpOf]

theorem tmpOf_length (p : Path) : (tmpOf p).length = p.length := by
  cases p <;> simp [tmpOf]

theorem tmpOf_tail (p : Path) : (tmpOf p).tail = p.tail := by
  cases p <;> simp [tmpOf]

theorem tmpOf_ne_nil {p : Path} (hp : p ≠ []) : tmpOf p ≠ [] := by
  cases p with
  | nil => exact absurd rfl hp
  | cons n q => simp [tmpOf]

theorem eq_of_suffix_length {q p : Path} (h : q <:+ p) (hl : q.length = p.length) : q = p :=
  h.eq_of_length hl

theorem tmpOf_not_properAnc (p : Path) : ¬ ProperAnc (tmpOf p) p := by
  rintro ⟨hne, hs⟩
  exact hne (eq_of_suffix_length hs (tmpOf_length p))

theorem mem_ancestorsIncl {q p : Path} : q ∈ ancestorsIncl p ↔ q <:+ p := by
  induction p with
  | nil => simp [ancestorsIncl]
  | cons n t ih =>
    simp only [ancestorsIncl, List.mem_append, ih, List.mem_singleton]
    constructor
    · rintro (h | h)
      · exact h.trans (List.suffix_cons n t)
      · rw [h]; exact List.suffix_refl _
    · intro h
      rcases List.suffix_cons_iff.mp h with h | h
      · exact Or.inr h
      · exact Or.inl h

theorem properAnc_of_suffix_tail {q p : Path} (hp : p ≠ []) (h : q <:+ p.tail) : ProperAnc q p := by
  cases p with
  | nil => exact absurd rfl hp
  | cons n t =>
    simp only [List.tail_cons] at h
    refine ⟨?_, h.trans (List.suffix_cons n t)⟩
    intro e
    subst e
    have := h.length_le
    simp at this
    omega

theorem properAnc_iff_suffix_tail {q p : Path} : ProperAnc q p ↔ p ≠ [] ∧ q <:+ p.tail := by
  constructor
  · rintro ⟨hne, hs⟩
    cases p with
    | nil => simp at hs; exact absurd hs hne
    | cons n t =>
      refine ⟨by simp, ?_⟩
      rcases List.suffix_cons_iff.mp hs with h | h
      · exact absurd h hne
      · simpa using h
  · rintro ⟨hp, h⟩; exact properAnc_of_suffix_tail hp h

theorem statFollow_view_none {fs : Fs} {p : Path} (fuel : Nat) (h : fs.view p = none) : statFollow fs fuel p = none := by
  cases fuel <;> simp [statFollow, h]

theorem statFollow_nonsym {fs : Fs} {p : Path} {i : Nat} {nd : Inode} (fuel : Nat) (h : fs.view p = some (i, nd))
    (hk : ∀ t, nd.kind ≠ .sym t) : statFollow fs (fuel + 1) p = some (p, i, nd) := by
  cases hkk : nd.kind with
  | sym t => exact absurd hkk (hk t)
  | dir => simp [statFollow, h, hkk]
  | file d => simp [statFollow, h, hkk]
  | fifo => simp [statFollow, h, hkk]

theorem statFollow_none_sym {fs : Fs} {p : Path} {i : Nat} {nd : Inode} (fuel : Nat) (h : fs.view p = some (i, nd))
    (hn : statFollow fs (fuel + 1) p = none) : ∃ t, nd.kind = .sym t := by
  simp only [statFollow, h] at hn
  split at hn
  · next t ht => exact ⟨t, ht⟩
  · cases hn

/-! ## 5c. `unlink_if_exists`, `ensure_dirs` -/

theorem unlinkIfExists_ok {env : Env} {s s' : St} {p : Path} (h : unlinkIfExists env s p = (s', .ok ())) :
    (∀ q, s'.fs.view q = if q = p then none else s.fs.view q) ∧ s'.fs.next = s.fs.next ∧
      Traj env (OffEq s.fs p) s s' := by
  unfold unlinkIfExists at h
  generalize hsys : s.sys env (.unlink p) = r at h
  obtain ⟨s1, e⟩ := r
  have base0 : OffEq s.fs p s.fs := fun _ _ => rfl
  cases e with
  | none =>
    simp only [Prod.mk.injEq, and_true] at h
    subst h
    have e1 := (St.sys_ok hsys).1
    simp only [step] at e1
    split at e1
    · cases e1
    · split at e1
      · cases e1
      · injection e1 with e1
        have hv : ∀ q, s1.fs.view q = if q = p then none else s.fs.view q := by
          intro q; rw [← e1]; simp
        refine ⟨hv, by rw [← e1]; rfl, Traj.step_ok hsys base0 ?_⟩
        intro q hq; rw [hv q, if_neg hq]
  | some e =>
    cases e <;> simp at h
    subst h
    obtain ⟨e1, e2⟩ := St.sys_err hsys
    have hvp : s.fs.view p = none := by
      simp only [step] at e1
      split at e1
      · assumption
      · split at e1 <;> cases e1
    refine ⟨?_, by rw [e2], ?_⟩
    · intro q; rw [e2]; split
      · next hq => rw [hq, hvp]
      · rfl
    · have := Traj.sys (env := env) (P := OffEq s.fs p) (s := s) (.unlink p) base0 (by rw [applyOp_err e1]; exact base0)
      rwa [hsys] at this

/-- trajectory predicate of `ensure_dirs`: only missing paths of the walked list appear, as directories -/
def EnsP (base : Fs) (l : List Path) (f : Fs) : Prop :=
  ∀ q, f.view q = base.view q ∨
    (base.view q = none ∧ q ∈ l ∧ ∃ j nd, f.view q = some (j, nd) ∧ nd.kind = .dir ∧ base.next ≤ j)

theorem ensureDirsWalk_ok {env : Env} {l : List Path} {s s' : St} {b : Bool} (h : ensureDirsWalk env s l = (s', b)) :
    Traj env (EnsP s.fs l) s s' := by
  induction l generalizing s with
  | nil =>
    simp only [ensureDirsWalk, Prod.mk.injEq] at h
    obtain ⟨rfl, -⟩ := h
    exact Traj.refl (fun q => Or.inl rfl)
  | cons a rest ih =>
    have base0 : EnsP s.fs (a :: rest) s.fs := fun q => Or.inl rfl
    simp only [ensureDirsWalk] at h
    split at h
    · split at h
      · exact (ih h).mono (by
          intro f hf q
          rcases hf q with h1 | ⟨h1, h2, h3⟩
          · exact Or.inl h1
          · exact Or.inr ⟨h1, List.mem_cons_of_mem _ h2, h3⟩)
      · simp only [Prod.mk.injEq] at h
        obtain ⟨rfl, -⟩ := h
        exact Traj.refl base0
    · generalize hsys : s.sys env (.mkdir a 0o750) = r at h
      obtain ⟨s1, e⟩ := r
      cases e with
      | some e =>
        simp only [Prod.mk.injEq] at h
        obtain ⟨rfl, -⟩ := h
        obtain ⟨e1, e2⟩ := St.sys_err hsys
        have := Traj.sys (env := env) (P := EnsP s.fs (a :: rest)) (s := s) (.mkdir a 0o750) base0
          (by rw [applyOp_err e1]; exact base0)
        rwa [hsys] at this
      | none =>
        simp only at h
        have e1 := (St.sys_ok hsys).1
        simp only [step] at e1
        split at e1
        · cases e1
        · split at e1
          · cases e1
          · next hv =>
            injection e1 with e1
            have hva : s.fs.view a = none := by
              cases hx : s.fs.view a with
              | none => rfl
              | some v => simp [hx] at hv
            have hs1 : ∀ q, s1.fs.view q = if q = a then some (s.fs.next, ⟨.dir, newDirMode s.fs a (0o750 &&& 0o1777), env.uid, newGid env s.fs a, 0⟩) else s.fs.view q := by
              intro q; rw [← e1]; simp
            have p1 : EnsP s.fs (a :: rest) s1.fs := by
              intro q
              rw [hs1 q]
              by_cases hq : q = a
              · subst hq
                exact Or.inr ⟨hva, List.mem_cons_self, s.fs.next, ⟨.dir, newDirMode s.fs q (0o750 &&& 0o1777), env.uid, newGid env s.fs q, 0⟩, by simp, rfl, Nat.le_refl _⟩
              · simp [hq]
            refine (Traj.step_ok hsys base0 p1).trans ((ih h).mono ?_)
            have hn1 : s.fs.next ≤ s1.fs.next := by rw [← e1]; simp
            intro f hf q
            rcases hf q with h1 | ⟨h1, h2, j, nd, h3, h4, h5⟩
            · rw [h1]; exact p1 q
            · rw [hs1 q] at h1
              split at h1
              · cases h1
              · exact Or.inr ⟨h1, List.mem_cons_of_mem _ h2, j, nd, h3, h4, Nat.le_trans hn1 h5⟩

/-! ## 5d. `copyfile` -/

/-- the `resets` step of `ensure_dirs`: re-applying the mode to the directory it has just made keeps `EnsP` -/
theorem ensP_chmod {env : Env} {base f : Fs} {l : List Path} {p : Path} {m : Nat} (hwf : base.WF1)
    (hp : base.view p = none) (h : EnsP base l f) : EnsP base l (applyOp env f (.chmod p m)) := by
  unfold applyOp
  cases hs : step env f (.chmod p m) with
  | error e => exact h
  | ok f' =>
    simp only [step] at hs
    cases hv : f.view p with
    | none => simp [hv] at hs
    | some v =>
      obtain ⟨i, nd⟩ := v
      have hi : base.next ≤ i := by
        rcases h p with h1 | ⟨_, _, j, nd', h3, _, h5⟩
        · rw [hv, hp] at h1; cases h1
        · rw [hv] at h3; cases h3; exact h5
      simp only [hv] at hs
      split at hs
      · cases hs
      · injection hs with hs
        subst hs
        intro q
        cases hq : f.view q with
        | none =>
          rw [view_updIno_of_ne_ino (by intro j nd' hj; rw [hq] at hj; cases hj)]
          rw [hq]; have := h q; rwa [hq] at this
        | some w =>
          obtain ⟨j, ndq⟩ := w
          by_cases hji : j = i
          · subst hji
            rcases h q with h1 | ⟨h1, h2, j', nd', h3, h4, h5⟩
            · rw [hq] at h1
              exact absurd (hwf q j ndq h1.symm) (by omega)
            · rw [hq] at h3; cases h3
              refine Or.inr ⟨h1, h2, j, { ndq with mode := m }, ?_, h4, h5⟩
              rw [Fs.view_updIno, hq]; simp
          · rw [view_updIno_of_ne_ino (by intro j' nd' hj; rw [hq] at hj; cases hj; exact hji)]
            have := h q; rwa [hq] at this ⊢

theorem ensureDirs_ok {env : Env} {p : Path} {s s' : St} {b : Bool} (hwf : s.fs.WF1)
    (h : ensureDirs env s p = (s', b)) : Traj env (EnsP s.fs (ancestorsIncl p)) s s' := by
  unfold ensureDirs at h
  generalize hw : ensureDirsWalk env s (ancestorsIncl p) = r at h
  obtain ⟨s1, b1⟩ := r
  have t1 := ensureDirsWalk_ok hw
  cases b1 with
  | false =>
    simp only [Prod.mk.injEq] at h
    obtain ⟨rfl, -⟩ := h
    exact t1
  | true =>
    simp only at h
    split at h
    · next hc =>
      have t2 := Traj.sys (env := env) (P := EnsP s.fs (ancestorsIncl p)) (s := s1) (.chmod p 0o750) t1.final
        (ensP_chmod hwf hc.1 t1.final)
      have hs' : s' = (s1.sys env (.chmod p 0o750)).1 := by
        generalize s1.sys env (.chmod p 0o750) = r at h
        obtain ⟨s2, e⟩ := r
        cases e <;> (simp only [Prod.mk.injEq] at h; exact h.1.symm)
      rw [hs']
      exact t1.trans t2
    · simp only [Prod.mk.injEq] at h
      obtain ⟨rfl, -⟩ := h
      exact t1

/-- what a crash may observe while a non-directory entry `x` is being merged from state `base` -/
def NonDirP (base : Fs) (x : Entry) (f : Fs) : Prop :=
  ∀ q, f.view q = base.view q ∨ q = tmpOf x.loc ∨ (base.view q = none ∧ q <:+ x.loc) ∨
       (q = x.loc ∧ ∃ j, f.view q = some (j, x.inode))

structure CopyPost (lo : Nat) (s s' : St) (x : Entry) : Prop where
  placed : ∃ j, s'.fs.view x.loc = some (j, x.inode) ∧ lo ≤ j
  frame : ∀ q, q ≠ x.loc → q ≠ tmpOf x.loc → ¬ (s.fs.view q = none ∧ ProperAnc q x.loc) → s'.fs.view q = s.fs.view q
  parents : ∀ q, s.fs.view q = none → ProperAnc q x.loc →
    s'.fs.view q = none ∨ ∃ j nd, s'.fs.view q = some (j, nd) ∧ nd.kind = .dir
  tmpGone : s.fs.view x.loc ≠ none → s'.fs.view (tmpOf x.loc) = none
  tmpKept : s.fs.view x.loc = none → s'.fs.view (tmpOf x.loc) = s.fs.view (tmpOf x.loc)
  locNe : x.loc ≠ []
  fresh : ∀ q i nd, s'.fs.view q = some (i, nd) → s.fs.view q = some (i, nd) ∨ lo ≤ i

theorem inode_kind_ne_dir {x : Entry} (h : x.isDir = false) : x.inode.kind ≠ .dir := by
  obtain ⟨loc, kind, mode, uid, gid, mtime⟩ := x
  cases kind <;> simp_all [Entry.isDir, Entry.inode]

theorem build_root_fails {env : Env} {s s' : St} {x : Entry} (hnd : x.isDir = false)
    (h : s.sysAll env (createOps env x [] ++ permsOps x []) = (s', .ok ())) : False := by
  obtain ⟨loc, kind, mode, uid, gid, mtime⟩ := x
  cases kind with
  | dir => simp [Entry.isDir] at hnd
  | sym t =>
    simp only [createOps, List.cons_append] at h
    obtain ⟨s1, h1, -⟩ := sysAll_cons_ok h
    have := (St.sys_ok h1).1
    simp [step, Fs.parentErr] at this
  | fifo =>
    simp only [createOps, List.cons_append] at h
    obtain ⟨s1, h1, -⟩ := sysAll_cons_ok h
    have := (St.sys_ok h1).1
    simp [step, Fs.parentErr] at this
  | reg d key =>
    simp only [createOps] at h
    split at h <;>
    · simp only [List.cons_append] at h
      obtain ⟨s1, h1, -⟩ := sysAll_cons_ok h
      have := (St.sys_ok h1).1
      simp [step, Fs.parentErr] at this

theorem copyfile_ok {env : Env} {s s' : St} {x : Entry} (hnd : x.isDir = false) (hwf : s.fs.WF)
    (h : copyfile env s x = (s', .ok ())) : CopyPost s.fs.next s s' x ∧ Traj env (NonDirP s.fs x) s s' := by
  unfold copyfile at h
  cases hv : s.fs.view x.loc with
  | some v =>
    obtain ⟨i0, nd0⟩ := v
    simp only [hv] at h
    split at h
    · cases h
    · next hk0 =>
      generalize hu : unlinkIfExists env s (tmpOf x.loc) = ru at h
      obtain ⟨s1, r1⟩ := ru
      cases r1 with
      | error e => simp at h
      | ok u =>
        simp only at h
        obtain ⟨u1, u2, u3⟩ := unlinkIfExists_ok hu
        obtain ⟨s2, hb, hr⟩ := sysAll_append_ok h
        have wf1 := (u3.WF hwf).1
        obtain ⟨b1, b2, b3, b4⟩ := build_ok hnd (by rw [u1]; simp) wf1.lt hb
        have hloc : x.loc ≠ [] := by
          intro e0
          rw [e0] at b4
          simp [tmpOf, Fs.parentErr] at b4
        have hne : tmpOf x.loc ≠ x.loc := tmpOf_ne hloc
        obtain ⟨s3, h3, hnil⟩ := sysAll_cons_ok hr
        obtain ⟨e0, -⟩ := sysAll_nil hnil
        subst e0
        have e3 := (St.sys_ok h3).1
        have hv2 : s2.fs.view x.loc = some (i0, nd0) := by
          rw [b1.off _ (Ne.symm hne), u1, if_neg (Ne.symm hne), hv]
        have hi0 : i0 ≠ s1.fs.next := by
          rw [u2]; exact Nat.ne_of_lt (hwf.lt _ _ _ hv)
        simp only [step, b1.here, hv2] at e3
        split at e3
        · cases e3
        · simp only [inode_kind_ne_dir hnd, if_false, hi0, hk0] at e3
          injection e3 with e3
          have hv3 : ∀ q, s'.fs.view q = if q = x.loc then some (s1.fs.next, x.inode)
              else if q = tmpOf x.loc then none else s.fs.view q := by
            intro q
            rw [← e3]
            simp only [Fs.view_put, Fs.view_del]
            split
            · rfl
            · split
              · rfl
              · next h1 h2 => rw [b1.off q h2, u1, if_neg h2]
          have pfin : NonDirP s.fs x s'.fs := by
            intro q; rw [hv3 q]
            by_cases h1 : q = x.loc
            · exact Or.inr (Or.inr (Or.inr ⟨h1, s1.fs.next, by simp [h1]⟩))
            · by_cases h2 : q = tmpOf x.loc
              · exact Or.inr (Or.inl h2)
              · simp [h1, h2]
          have pmid : ∀ f, OffEq s.fs (tmpOf x.loc) f → NonDirP s.fs x f := by
            intro f hf q
            by_cases h2 : q = tmpOf x.loc
            · exact Or.inr (Or.inl h2)
            · exact Or.inl (hf q h2)
          refine ⟨⟨⟨s1.fs.next, by rw [hv3]; simp, by rw [u2]; exact Nat.le_refl _⟩, ?_, ?_, ?_, ?_, hloc, ?_⟩, ?_⟩
          · intro q h1 h2 _; rw [hv3 q, if_neg h1, if_neg h2]
          · intro q hq hanc
            left
            have h1 : q ≠ x.loc := hanc.1
            have h2 : q ≠ tmpOf x.loc := fun e0 => tmpOf_not_properAnc x.loc (e0 ▸ hanc)
            rw [hv3 q, if_neg h1, if_neg h2, hq]
          · intro _; rw [hv3, if_neg hne, if_pos rfl]
          · intro h0; exact absurd hv (by rw [h0]; simp)
          · intro q i nd hq
            rw [hv3 q] at hq
            split at hq
            · cases hq; right; rw [u2]; exact Nat.le_refl _
            · split at hq
              · cases hq
              · exact Or.inl hq
          · refine ((u3.mono pmid).trans (b3.mono ?_)).trans (Traj.step_ok h3 ?_ pfin)
            · intro f hf
              apply pmid
              intro q hq
              rw [hf q hq, u1, if_neg hq]
            · apply pmid
              intro q hq
              rw [b1.off q hq, u1, if_neg hq]
  | none =>
    simp only [hv] at h
    generalize hr : (if (statFollow s.fs 8 x.loc.tail).isSome = true then (s, true) else ensureDirs env s x.loc.tail) = r at h
    obtain ⟨s1, okDirs⟩ := r
    have hens : Traj env (EnsP s.fs (ancestorsIncl x.loc.tail)) s s1 := by
      split at hr
      · simp only [Prod.mk.injEq] at hr
        obtain ⟨rfl, -⟩ := hr
        exact Traj.refl (fun q => Or.inl rfl)
      · exact ensureDirs_ok hwf.lt hr
    cases okDirs with
    | false => simp at h
    | true =>
      simp only [if_true] at h
      have hloc : x.loc ≠ [] := by
        intro e0
        rw [e0] at h
        exact build_root_fails hnd h
      have wf1 := (hens.WF hwf)
      have e1 := hens.final
      have hanc : ∀ q, q ∈ ancestorsIncl x.loc.tail → ProperAnc q x.loc := fun q hq =>
        properAnc_of_suffix_tail hloc (mem_ancestorsIncl.mp hq)
      have hv1 : s1.fs.view x.loc = none := by
        rcases e1 x.loc with h1 | ⟨_, h2, _⟩
        · rw [h1, hv]
        · exact absurd rfl (hanc _ h2).1
      obtain ⟨b1, b2, b3, b4⟩ := build_ok hnd hv1 wf1.1.lt h
      have hsame : ∀ q, ¬ (s.fs.view q = none ∧ ProperAnc q x.loc) → s1.fs.view q = s.fs.view q := by
        intro q hq
        rcases e1 q with h1 | ⟨h1, h2, _⟩
        · exact h1
        · exact absurd ⟨h1, hanc q h2⟩ hq
      have pens : ∀ f, EnsP s.fs (ancestorsIncl x.loc.tail) f → NonDirP s.fs x f := by
        intro f hf q
        rcases hf q with h1 | ⟨h1, h2, _⟩
        · exact Or.inl h1
        · exact Or.inr (Or.inr (Or.inl ⟨h1, (hanc q h2).2⟩))
      refine ⟨⟨⟨s1.fs.next, b1.here, wf1.2⟩, ?_, ?_, ?_, ?_, hloc, ?_⟩, ?_⟩
      · intro q h1 _ h3
        rw [b1.off q h1, hsame q h3]
      · intro q hq hpa
        rw [b1.off q hpa.1]
        rcases e1 q with h1 | ⟨_, _, j, nd, h3, h4, _⟩
        · left; rw [h1, hq]
        · right; exact ⟨j, nd, h3, h4⟩
      · intro h0; exact absurd hv h0
      · intro _
        rw [b1.off _ (tmpOf_ne hloc)]
        apply hsame
        rintro ⟨_, h2⟩
        exact tmpOf_not_properAnc _ h2
      · intro q i nd hq
        by_cases h1 : q = x.loc
        · rw [h1, b1.here] at hq; cases hq; exact Or.inr wf1.2
        · rw [b1.off q h1] at hq
          rcases e1 q with h2 | ⟨_, _, j, nd', h3, _, h5⟩
          · rw [h2] at hq; exact Or.inl hq
          · rw [h3] at hq; cases hq; exact Or.inr h5
      · refine (hens.mono pens).trans (b3.mono ?_)
        intro f hf q
        by_cases h1 : q = x.loc
        · exact Or.inr (Or.inr (Or.inl ⟨by rw [h1, hv], by rw [h1]; exact List.suffix_refl _⟩))
        · rw [hf q h1]; exact pens _ e1 q

/-! ## 5e. `do_link` -/

def LinkP (base : Fs) (trg : Path) (i : Nat) (nd : Inode) (f : Fs) : Prop :=
  ∀ q, f.view q = base.view q ∨ q = tmpOf trg ∨ (q = trg ∧ f.view q = some (i, nd))

structure LinkPost (s s' : St) (trg : Path) (i : Nat) (nd : Inode) : Prop where
  placed : s'.fs.view trg = some (i, nd)
  frame : ∀ q, q ≠ trg → q ≠ tmpOf trg → s'.fs.view q = s.fs.view q
  tmpGone : s.fs.view trg ≠ none → s'.fs.view (tmpOf trg) = none
  tmpKept : s.fs.view trg = none → s'.fs.view (tmpOf trg) = s.fs.view (tmpOf trg)
  locNe : trg ≠ []

theorem parentErr_none_ne_nil {fs : Fs} {p : Path} (h : fs.parentErr p = none) : p ≠ [] := by
  intro e; subst e; simp [Fs.parentErr] at h

theorem doLink_ok {env : Env} {s s' : St} {src trg : Path} {i : Nat} {nd : Inode}
    (hsrc : s.fs.view src = some (i, nd)) (_hst : src ≠ trg) (hstmp : src ≠ tmpOf trg)
    (hino : ∀ j nd', s.fs.view trg = some (j, nd') → j ≠ i)
    (h : doLink env s src trg = (s', .ok ())) :
    LinkPost s s' trg i nd ∧ Traj env (LinkP s.fs trg i nd) s s' := by
  unfold doLink at h
  have base0 : LinkP s.fs trg i nd s.fs := fun q => Or.inl rfl
  generalize hsys : s.sys env (.link src trg) = r at h
  obtain ⟨s1, e⟩ := r
  cases e with
  | none =>
    simp only [Prod.mk.injEq, and_true] at h
    subst h
    have e1 := (St.sys_ok hsys).1
    simp only [step, hsrc] at e1
    split at e1
    · cases e1
    · split at e1
      · cases e1
      · next hpe =>
        split at e1
        · cases e1
        · next hvt =>
          injection e1 with e1
          have hvt' : s.fs.view trg = none := by
            cases hx : s.fs.view trg with
            | none => rfl
            | some v => simp [hx] at hvt
          have hloc := parentErr_none_ne_nil hpe
          have hv1 : ∀ q, s1.fs.view q = if q = trg then some (i, nd) else s.fs.view q := by
            intro q; rw [← e1]; simp
          refine ⟨⟨by rw [hv1]; simp, ?_, ?_, ?_, hloc⟩, Traj.step_ok hsys base0 ?_⟩
          · intro q h1 _; rw [hv1, if_neg h1]
          · intro h0; exact absurd hvt' h0
          · intro _; rw [hv1, if_neg (tmpOf_ne hloc)]
          · intro q; rw [hv1]
            by_cases h1 : q = trg
            · exact Or.inr (Or.inr ⟨h1, by simp [h1]⟩)
            · simp [h1]
  | some e =>
    obtain ⟨e1, e2⟩ := St.sys_err hsys
    cases e <;> try (simp at h)
    -- EEXIST
    simp only [step, hsrc] at e1
    split at e1
    · cases e1
    · next hknd =>
      split at e1
      · next e' hpe => injection e1 with e1; subst e1; exact absurd hpe (parentErr_ne_EEXIST _ _)
      · next hpe =>
        split at e1
        · next hvt =>
          have hloc := parentErr_none_ne_nil hpe
          have hne : tmpOf trg ≠ trg := tmpOf_ne hloc
          obtain ⟨v0, hv0⟩ : ∃ v0, s.fs.view trg = some v0 := by
            cases hx : s.fs.view trg with
            | none => simp [hx] at hvt
            | some v => exact ⟨v, rfl⟩
          obtain ⟨i0, nd0⟩ := v0
          generalize hu : unlinkIfExists env s1 (tmpOf trg) = ru at h
          obtain ⟨s2, r2⟩ := ru
          cases r2 with
          | error x => simp at h
          | ok u =>
            simp only at h
            obtain ⟨u1, u2, u3⟩ := unlinkIfExists_ok hu
            generalize hsys2 : s2.sys env (.link src (tmpOf trg)) = r3 at h
            obtain ⟨s3, e3⟩ := r3
            cases e3 with
            | some x => simp at h
            | none =>
              simp only at h
              have f3 := (St.sys_ok hsys2).1
              have hsrc2 : s2.fs.view src = some (i, nd) := by rw [u1, if_neg hstmp, e2, hsrc]
              have htmp2 : s2.fs.view (tmpOf trg) = none := by rw [u1]; simp
              simp only [step, hsrc2, if_neg hknd, htmp2] at f3
              split at f3
              · cases f3
              · simp only [Option.isSome_none, Bool.false_eq_true, if_false] at f3
                injection f3 with f3
                have hv3 : ∀ q, s3.fs.view q = if q = tmpOf trg then some (i, nd) else s.fs.view q := by
                  intro q; rw [← f3]; simp only [Fs.view_put]
                  split
                  · rfl
                  · next hq => rw [u1, if_neg hq, e2]
                generalize hsys3 : s3.sys env (.rename (tmpOf trg) trg) = r4 at h
                obtain ⟨s4, e4⟩ := r4
                cases e4 with
                | some x =>
                  simp only at h
                  generalize hu2 : unlinkIfExists env s4 (tmpOf trg) = ru2 at h
                  obtain ⟨s5, r5⟩ := ru2
                  cases r5 <;> simp at h
                | none =>
                  simp only [Prod.mk.injEq, and_true] at h
                  subst h
                  have f4 := (St.sys_ok hsys3).1
                  have hparent3 : s3.fs.parentErr trg = none := by
                    refine parentErr_none_congr ?_ hpe
                    have hb : trg.tail ≠ tmpOf trg := by
                      intro hb
                      have := congrArg List.length hb
                      rw [tmpOf_length] at this
                      cases htr : trg with
                      | nil => exact absurd htr hloc
                      | cons n b => rw [htr] at this; simp at this
                    rw [hv3, if_neg hb]
                  simp only [step, hv3 (tmpOf trg), if_true, hparent3, if_neg hknd, hv3 trg, if_neg (Ne.symm hne), hv0,
                    if_neg (hino i0 nd0 hv0)] at f4
                  split at f4
                  · cases f4
                  · injection f4 with f4
                    have hv4 : ∀ q, s4.fs.view q = if q = trg then some (i, nd)
                        else if q = tmpOf trg then none else s.fs.view q := by
                      intro q; rw [← f4]
                      simp only [Fs.view_put, Fs.view_del]
                      split
                      · rfl
                      · split
                        · rfl
                        · next h2 => rw [hv3, if_neg h2]
                    have pmid : ∀ f, OffEq s.fs (tmpOf trg) f → LinkP s.fs trg i nd f := by
                      intro f hf q
                      by_cases h2 : q = tmpOf trg
                      · exact Or.inr (Or.inl h2)
                      · exact Or.inl (hf q h2)
                    have p1 : LinkP s.fs trg i nd s1.fs := by rw [e2]; exact base0
                    have t1 : Traj env (LinkP s.fs trg i nd) s s1 := by
                      have := Traj.sys (env := env) (P := LinkP s.fs trg i nd) (s := s) (.link src trg) base0
                        (by rw [← (St.sys_eq env s _).1, hsys]; exact p1)
                      rwa [hsys] at this
                    have p3 : LinkP s.fs trg i nd s3.fs := pmid _ (fun q hq => by rw [hv3, if_neg hq])
                    have p2 : LinkP s.fs trg i nd s2.fs := pmid _ (fun q hq => by rw [u1, if_neg hq, e2])
                    have p4 : LinkP s.fs trg i nd s4.fs := by
                      intro q; rw [hv4]
                      by_cases h1 : q = trg
                      · exact Or.inr (Or.inr ⟨h1, by simp [h1]⟩)
                      · by_cases h2 : q = tmpOf trg
                        · exact Or.inr (Or.inl h2)
                        · simp [h1, h2]
                    refine ⟨⟨by rw [hv4]; simp, ?_, ?_, ?_, hloc⟩, ?_⟩
                    · intro q h1 h2; rw [hv4, if_neg h1, if_neg h2]
                    · intro _; rw [hv4, if_neg hne, if_pos rfl]
                    · intro h0; rw [hv0] at h0; cases h0
                    · refine ((t1.trans (u3.mono ?_)).trans (Traj.step_ok hsys2 p2 p3)).trans (Traj.step_ok hsys3 p3 p4)
                      intro f hf
                      apply pmid
                      intro q hq
                      rw [hf q hq, e2]
        · cases e1

/-! ## 5f. one directory entry -/

/-- what a crash may observe at the location of a directory entry `x` that is being merged from `base` -/
def DirAt (base : Fs) (x : Entry) (v : Option (Nat × Inode)) : Prop :=
  (∃ i nd nd', base.view x.loc = some (i, nd) ∧ v = some (i, nd') ∧ nd'.kind = nd.kind ∧ nd'.mode = nd.mode ∧
      nd'.mtime = nd.mtime ∧ ((nd'.uid = nd.uid ∧ nd'.gid = nd.gid) ∨ (nd'.uid = x.uid ∧ nd'.gid = x.gid)))
  ∨ base.view x.loc = none
  ∨ ((∃ i nd t, base.view x.loc = some (i, nd) ∧ nd.kind = .sym t) ∧
      (v = none ∨ ∃ j nd', v = some (j, nd') ∧ nd'.kind = .dir))

def DirP (base : Fs) (x : Entry) (f : Fs) : Prop :=
  ∀ q, f.view q = base.view q ∨ (q = x.loc ∧ DirAt base x (f.view q))

structure DirPost (s s' : St) (x : Entry) : Prop where
  placed : PlacedDir s.fs s'.fs x
  frame : ∀ q, q ≠ x.loc → s'.fs.view q = s.fs.view q
  ino : ∀ i nd, s'.fs.view x.loc = some (i, nd) → (∃ nd0, s.fs.view x.loc = some (i, nd0)) ∨ s.fs.next ≤ i

/-- the state of a build of a directory: only `fp` differs from `base`, and it is a directory -/
def OffEqDir (base : Fs) (fp : Path) (f : Fs) : Prop :=
  OffEq base fp f ∧ ∃ j nd, f.view fp = some (j, nd) ∧ nd.kind = .dir

theorem SoloAt.offEqDir {fs base : Fs} {fp : Path} {n : Nat} {nd : Inode} (h : SoloAt fs base fp n nd)
    (hk : nd.kind = .dir) : OffEqDir base fp fs := ⟨h.off, n, nd, h.here, hk⟩

theorem dirPerms2_ok {env : Env} {s s' : St} {x : Entry} {fp : Path} {n : Nat} {nd0 : Inode} {base : Fs}
    (hd : x.isDir = true) (h0 : SoloAt s.fs base fp n nd0) (hk : nd0.kind = .dir) (hm : nd0.mtime = 0)
    (h : s.sysAll env (permsOps x fp ++ permsOps x fp) = (s', .ok ())) :
    SoloAt s'.fs base fp n x.inode ∧ Traj env (OffEqDir base fp) s s' := by
  obtain ⟨loc, kind, mode, uid, gid, mtime⟩ := x
  cases kind <;> simp [Entry.isDir] at hd
  simp only [permsOps, List.cons_append, List.nil_append] at h
  obtain ⟨s1, h1, h⟩ := sysAll_cons_ok h
  obtain ⟨s2, h2, h⟩ := sysAll_cons_ok h
  obtain ⟨s3, h3, h⟩ := sysAll_cons_ok h
  obtain ⟨s4, h4, h⟩ := sysAll_cons_ok h
  obtain ⟨e0, -⟩ := sysAll_nil h
  subst e0
  have e1 := (St.sys_ok h1).1
  simp only [step, h0.here] at e1
  injection e1 with e1
  have a1 := h0.upd (fun nd => { nd with uid := uid, gid := gid })
  rw [e1] at a1
  have e2 := (St.sys_ok h2).1
  simp only [step, a1.here, hk] at e2
  injection e2 with e2
  have a2 := a1.upd (fun nd => { nd with mode := mode })
  rw [e2] at a2
  have e3 := (St.sys_ok h3).1
  simp only [step, a2.here] at e3
  injection e3 with e3
  have a3 := a2.upd (fun nd => { nd with uid := uid, gid := gid })
  rw [e3] at a3
  have e4 := (St.sys_ok h4).1
  simp only [step, a3.here, hk] at e4
  injection e4 with e4
  have a4 := a3.upd (fun nd => { nd with mode := mode })
  rw [e4] at a4
  refine ⟨?_, ?_⟩
  · have : ({ ({ ({ ({ nd0 with uid := uid, gid := gid } : Inode) with mode := mode } : Inode) with
        uid := uid, gid := gid } : Inode) with mode := mode } : Inode)
        = Entry.inode ⟨loc, .dir, mode, uid, gid, mtime⟩ := by
      simp only [Entry.inode]; cases nd0; simp_all
    rw [← this]; exact a4
  · exact (((Traj.step_ok h1 (h0.offEqDir hk) (a1.offEqDir hk)).trans
      (Traj.step_ok h2 (a1.offEqDir hk) (a2.offEqDir hk))).trans
      (Traj.step_ok h3 (a2.offEqDir hk) (a3.offEqDir hk))).trans
      (Traj.step_ok h4 (a3.offEqDir hk) (a4.offEqDir hk))

theorem inode_eta_owner (nd : Inode) (u g : Nat) (hu : u = nd.uid) (hg : g = nd.gid) :
    ({ nd with uid := u, gid := g } : Inode) = nd := by
  cases nd; simp_all

theorem mergeDir_ok {env : Env} {s s' : St} {x : Entry} (hd : x.isDir = true) (hwf : s.fs.WF)
    (hsym : ∀ i nd t, s.fs.view x.loc = some (i, nd) → nd.kind = .sym t →
      ∀ q, q ≠ x.loc → ∀ nd', s.fs.view q ≠ some (i, nd'))
    (h : mergeDir env s x = (s', .ok ())) : DirPost s s' x ∧ Traj env (DirP s.fs x) s s' := by
  unfold mergeDir at h
  have base0 : DirP s.fs x s.fs := fun q => Or.inl rfl
  cases hsf : statFollow s.fs 8 x.loc with
  | some r =>
    obtain ⟨p', i', nd'⟩ := r
    simp only [hsf] at h
    split at h
    · cases h
    · next hkd =>
      have hkd : nd'.kind = .dir := by simpa using hkd
      cases hv : s.fs.view x.loc with
      | none => rw [statFollow_view_none 8 hv] at hsf; cases hsf
      | some v0 =>
        obtain ⟨i0, nd0⟩ := v0
        -- no other path carries the inode of `x.loc`
        have hsolo : nd0.kind = .dir ∨ (∃ t, nd0.kind = .sym t) := by
          by_cases hs : ∃ t, nd0.kind = .sym t
          · exact Or.inr hs
          · left
            have := statFollow_nonsym 7 hv (fun t ht => hs ⟨t, ht⟩)
            rw [this] at hsf
            cases hsf; exact hkd
        have hother : ∀ q, q ≠ x.loc → ∀ nd'', s.fs.view q ≠ some (i0, nd'') := by
          intro q hq nd'' hvq
          rcases hsolo with hk | ⟨t, hk⟩
          · exact hq (hwf.dir1 x.loc q i0 nd0 nd'' hv hvq hk).symm
          · exact hsym i0 nd0 t hv hk q hq nd'' hvq
        have hsame : nd0.kind = .dir → nd' = nd0 := by
          intro hk
          have := statFollow_nonsym 7 hv (fun t ht => by rw [hk] at ht; cases ht)
          rw [this] at hsf; cases hsf; rfl
        unfold dirPermsExisting at h
        split at h
        · next hown =>
          obtain ⟨s1, h1, hnil⟩ := sysAll_cons_ok h
          obtain ⟨e0, -⟩ := sysAll_nil hnil
          subst e0
          have e1 := (St.sys_ok h1).1
          simp only [step, hv] at e1
          injection e1 with e1
          have hv1 : ∀ q, s'.fs.view q = if q = x.loc then some (i0, withOwner nd0 x) else s.fs.view q := by
            intro q; rw [← e1, Fs.view_updIno]
            by_cases hq : q = x.loc
            · subst hq; simp [hv, withOwner]
            · rw [if_neg hq]
              cases hvq : s.fs.view q with
              | none => rfl
              | some w =>
                obtain ⟨j, w⟩ := w
                have : j ≠ i0 := fun e => hother q hq w (e ▸ hvq)
                simp [this]
          have pfin : DirP s.fs x s'.fs := by
            intro q; rw [hv1]
            by_cases hq : q = x.loc
            · right
              refine ⟨hq, Or.inl ⟨i0, nd0, withOwner nd0 x, hv, by simp [hq], rfl, rfl, rfl, Or.inr ⟨rfl, rfl⟩⟩⟩
            · simp [hq]
          refine ⟨⟨?_, fun q hq => by rw [hv1, if_neg hq], ?_⟩, Traj.step_ok h1 base0 pfin⟩
          · unfold PlacedDir
            simp only [hv]
            rcases hsolo with hk | ⟨t, hk⟩
            · simp only [hk]; rw [hv1]; simp
            · simp only [hk]; right; exact ⟨withOwner nd0 x, by rw [hv1]; simp, rfl, rfl, rfl, Or.inr ⟨rfl, rfl⟩⟩
          · intro i nd hq
            rw [hv1, if_pos rfl] at hq
            cases hq; exact Or.inl ⟨nd0, hv⟩
        · next hown =>
          simp only [Prod.mk.injEq, and_true] at h
          subst h
          refine ⟨⟨?_, fun q _ => rfl, fun i nd hq => Or.inl ⟨nd, hq⟩⟩, Traj.refl base0⟩
          unfold PlacedDir
          simp only [hv]
          rcases hsolo with hk | ⟨t, hk⟩
          · simp only [hk]
            have hnd := hsame hk
            subst hnd
            have hown' : x.uid = nd'.uid ∧ x.gid = nd'.gid := by
              constructor <;> (apply Classical.byContradiction; intro hc; exact hown (by simp [hc]))
            rw [withOwner, inode_eta_owner nd' _ _ hown'.1 hown'.2]
          · simp only [hk]; right; exact ⟨nd0, hv, rfl, rfl, rfl, Or.inl ⟨rfl, rfl⟩⟩
  | none =>
    simp only [hsf] at h
    split at h
    · cases h
    · generalize hsys : s.sys env (.mkdir x.loc (mkdirMode env x)) = r at h
      obtain ⟨s1, e⟩ := r
      cases e with
      | none =>
        simp only at h
        have e1 := (St.sys_ok hsys).1
        simp only [step] at e1
        split at e1
        · cases e1
        · split at e1
          · cases e1
          · next hvx =>
            injection e1 with e1
            have hv : s.fs.view x.loc = none := by
              cases hx : s.fs.view x.loc with
              | none => rfl
              | some v => simp [hx] at hvx
            have a1 := SoloAt.alloc hwf.lt x.loc ⟨.dir, newDirMode s.fs x.loc ((mkdirMode env x) &&& 0o1777), env.uid, newGid env s.fs x.loc, 0⟩
            rw [e1] at a1
            obtain ⟨b1, b2⟩ := dirPerms2_ok hd a1 rfl rfl h
            have pmid : ∀ f, OffEqDir s.fs x.loc f → DirP s.fs x f := by
              intro f hf q
              by_cases hq : q = x.loc
              · exact Or.inr ⟨hq, Or.inr (Or.inl hv)⟩
              · exact Or.inl (hf.1 q hq)
            refine ⟨⟨?_, b1.off, ?_⟩, (Traj.step_ok hsys base0 (pmid _ (a1.offEqDir rfl))).trans (b2.mono pmid)⟩
            · unfold PlacedDir
              simp only [hv]
              exact ⟨_, b1.here⟩
            · intro i nd hq
              rw [b1.here] at hq; cases hq; exact Or.inr (Nat.le_refl _)
      | some e =>
        obtain ⟨e1, e2⟩ := St.sys_err hsys
        cases e <;> try (simp at h)
        -- EEXIST: something that `stat` cannot follow sits there: a dangling symlink
        simp only [step] at e1
        split at e1
        · next e' hpe =>
          injection e1 with e1; subst e1
          split at hpe
          · cases hpe
          · exact absurd hpe (parentErr_ne_EEXIST _ _)
        · next hpe =>
          split at e1
          · next hvx =>
            obtain ⟨v0, hv⟩ : ∃ v0, s.fs.view x.loc = some v0 := by
              cases hx : s.fs.view x.loc with
              | none => simp [hx] at hvx
              | some v => exact ⟨v, rfl⟩
            obtain ⟨i0, nd0⟩ := v0
            obtain ⟨t, hk⟩ := statFollow_none_sym 7 hv hsf
            obtain ⟨s2, h2, h⟩ := sysAll_cons_ok h
            obtain ⟨s3, h3, h⟩ := sysAll_cons_ok h
            have f2 := (St.sys_ok h2).1
            rw [e2] at f2
            simp only [step, hv, hk] at f2
            injection f2 with f2
            have hv2 : ∀ q, s2.fs.view q = if q = x.loc then none else s.fs.view q := by
              intro q; rw [← f2]; simp
            have hpe2 : (if x.loc = [] then none else s2.fs.parentErr x.loc) = none := by
              split
              · rfl
              · next hne =>
                rw [if_neg hne] at hpe
                refine parentErr_none_congr ?_ hpe
                have hb : x.loc.tail ≠ x.loc := by
                  intro hb
                  have := congrArg List.length hb
                  cases hxl : x.loc with
                  | nil => exact absurd hxl hne
                  | cons n b => rw [hxl] at this; simp at this
                rw [hv2, if_neg hb]
            have f3 := (St.sys_ok h3).1
            simp only [step, hpe2, hv2 x.loc, if_true] at f3
            have wf2 : s2.fs.WF := by rw [← f2]; exact WF_del hwf _
            have a3 := SoloAt.alloc wf2.lt x.loc ⟨.dir, newDirMode s2.fs x.loc ((mkdirMode env x) &&& 0o1777), env.uid, newGid env s2.fs x.loc, 0⟩
            simp only [Option.isSome_none, Bool.false_eq_true, if_false] at f3
            injection f3 with f3
            rw [f3] at a3
            obtain ⟨b1, b2⟩ := dirPerms2_ok hd a3 rfl rfl h
            have hoff2 : ∀ q, q ≠ x.loc → s2.fs.view q = s.fs.view q := fun q hq => by rw [hv2, if_neg hq]
            have psym : ∃ i nd t, s.fs.view x.loc = some (i, nd) ∧ nd.kind = .sym t := ⟨i0, nd0, t, hv, hk⟩
            have p1 : DirP s.fs x s1.fs := by rw [e2]; exact base0
            have t1 : Traj env (DirP s.fs x) s s1 := by
              have := Traj.sys (env := env) (P := DirP s.fs x) (s := s) (.mkdir x.loc (mkdirMode env x)) base0
                (by rw [← (St.sys_eq env s _).1, hsys]; exact p1)
              rwa [hsys] at this
            have p2 : DirP s.fs x s2.fs := by
              intro q
              by_cases hq : q = x.loc
              · exact Or.inr ⟨hq, Or.inr (Or.inr ⟨psym, Or.inl (by rw [hv2, if_pos hq])⟩)⟩
              · exact Or.inl (hoff2 q hq)
            have pmid : ∀ f, OffEqDir s2.fs x.loc f → DirP s.fs x f := by
              intro f hf q
              by_cases hq : q = x.loc
              · obtain ⟨j, nd, h1, h2⟩ := hf.2
                exact Or.inr ⟨hq, Or.inr (Or.inr ⟨psym, Or.inr ⟨j, nd, by rw [hq]; exact h1, h2⟩⟩)⟩
              · exact Or.inl (by rw [hf.1 q hq, hoff2 q hq])
            refine ⟨⟨?_, fun q hq => by rw [b1.off q hq, hoff2 q hq], ?_⟩,
              ((t1.trans (Traj.step_ok h2 p1 p2)).trans (Traj.step_ok h3 p2 (pmid _ (a3.offEqDir rfl)))).trans (b2.mono pmid)⟩
            · unfold PlacedDir
              simp only [hv, hk]
              exact Or.inl ⟨_, b1.here⟩
            · intro i nd hq
              rw [b1.here] at hq; cases hq
              right; rw [← f2]; exact Nat.le_refl _
          · cases e1

/-! ## 6. the loop invariant -/

structure Guards (pre : Fs) (es : List Entry) : Prop where
  noclash : NoTmpClash es
  tree : TreeShaped es
  nosym : NoSymOverDir pre es
  hlc : HardlinkConsistent es
  symsolo : SymAtDirSolo pre es

/-- what can be observed at path `q` at any moment of a merge of `es` into `pre` -/
def ReachAt (pre : Fs) (es : List Entry) (q : Path) (v : Option (Nat × Inode)) : Prop :=
  v = pre.view q
  ∨ (∃ e ∈ es, e.isDir = false ∧ q = tmpOf e.loc)
  ∨ (pre.view q = none ∧ ∃ e ∈ es, q <:+ e.loc)
  ∨ (∃ e ∈ es, e.isDir = false ∧ q = e.loc ∧ ∃ j, v = some (j, e.inode))
  ∨ (∃ e ∈ es, e.isDir = true ∧ q = e.loc ∧ DirAt pre e v)

def Reach (pre : Fs) (es : List Entry) (f : Fs) : Prop := ∀ q, ReachAt pre es q (f.view q)

theorem placedDir_congr {pre fs fs' : Fs} {e : Entry} (h : fs'.view e.loc = fs.view e.loc)
    (hp : PlacedDir pre fs e) : PlacedDir pre fs' e := by
  unfold PlacedDir KeptLink at *
  rw [h]; exact hp

theorem placedDir_base_congr {b b' fs : Fs} {e : Entry} (h : b.view e.loc = b'.view e.loc)
    (hp : PlacedDir b fs e) : PlacedDir b' fs e := by
  unfold PlacedDir at *
  rw [← h]; exact hp

theorem placedDir_some {pre fs : Fs} {e : Entry} (hp : PlacedDir pre fs e) : fs.view e.loc ≠ none := by
  unfold PlacedDir KeptLink at hp
  intro h0
  rw [h0] at hp
  split at hp
  · obtain ⟨j, hj⟩ := hp; cases hj
  · split at hp
    · cases hp
    · rcases hp with ⟨j, hj⟩ | ⟨nd', hj, _⟩ <;> cases hj
    · exact hp

theorem dirAt_congr {b b' : Fs} {x : Entry} {v : Option (Nat × Inode)} (h : b.view x.loc = b'.view x.loc)
    (hd : DirAt b x v) : DirAt b' x v := by
  unfold DirAt at *
  rw [← h]; exact hd

structure Mid (pre : Fs) (es done todo : List Entry) (fs : Fs) : Prop where
  wf : fs.WF
  nextLe : pre.next ≤ fs.next
  nodup : (locs (done ++ todo)).Nodup
  sub : ∀ e, e ∈ done ++ todo ↔ e ∈ es
  nondirs : ∀ e ∈ done, e.isDir = false → ∃ j, fs.view e.loc = some (j, e.inode) ∧ pre.next ≤ j
  dirs : ∀ e ∈ done, e.isDir = true → PlacedDir pre fs e
  todo : ∀ e ∈ todo, fs.view e.loc = pre.view e.loc
  frame : ∀ q, Untouchable pre es q → fs.view q = pre.view q
  parents : ∀ q, q ∉ locs es → MissingParent pre es q →
    fs.view q = none ∨ ∃ j nd, fs.view q = some (j, nd) ∧ nd.kind = .dir
  tmps : ∀ e ∈ done, e.isDir = false → pre.view e.loc ≠ none → fs.view (tmpOf e.loc) = none
  inos : ∀ q i nd, fs.view q = some (i, nd) → (∃ nd', pre.view q = some (i, nd')) ∨ pre.next ≤ i

theorem mem_locs {es : List Entry} {q : Path} : q ∈ locs es ↔ ∃ e ∈ es, e.loc = q := by
  simp [locs]

theorem Mid.done_some {pre : Fs} {es done todo : List Entry} {fs : Fs} (m : Mid pre es done todo fs)
    {e : Entry} (he : e ∈ done) : fs.view e.loc ≠ none := by
  cases hd : e.isDir with
  | true => exact placedDir_some (m.dirs e he hd)
  | false =>
    obtain ⟨j, hj, _⟩ := m.nondirs e he hd
    rw [hj]; simp

/-- a path that is absent now and lies on the way to an entry was absent before the merge -/
theorem Mid.none_pre {pre : Fs} {es done todo : List Entry} {fs : Fs} (m : Mid pre es done todo fs)
    (g : Guards pre es) {q : Path} {x : Entry} (hx : x ∈ es) (hq : fs.view q = none) (hs : q <:+ x.loc) :
    pre.view q = none := by
  by_cases hl : q ∈ locs es
  · obtain ⟨e, he, rfl⟩ := mem_locs.mp hl
    rcases List.mem_append.mp ((m.sub e).mpr he) with hd | ht
    · exact absurd hq (m.done_some hd)
    · rw [← m.todo e ht]; exact hq
  · by_cases hmp : MissingParent pre es q
    · exact hmp.1
    · by_cases htt : TouchedTmp pre es q
      · obtain ⟨e, he, _, rfl, _⟩ := htt
        exact absurd hs (g.noclash e he x hx)
      · rw [← m.frame q ⟨hl, hmp, htt⟩]; exact hq

theorem Mid.reach {pre : Fs} {es done todo : List Entry} {fs : Fs} (m : Mid pre es done todo fs) : Reach pre es fs := by
  intro q
  by_cases hl : q ∈ locs es
  · obtain ⟨e, he, rfl⟩ := mem_locs.mp hl
    rcases List.mem_append.mp ((m.sub e).mpr he) with hd | ht
    · cases hdir : e.isDir with
      | false =>
        obtain ⟨j, hj, _⟩ := m.nondirs e hd hdir
        exact Or.inr (Or.inr (Or.inr (Or.inl ⟨e, he, hdir, rfl, j, hj⟩)))
      | true =>
        have hp := m.dirs e hd hdir
        refine Or.inr (Or.inr (Or.inr (Or.inr ⟨e, he, hdir, rfl, ?_⟩)))
        unfold PlacedDir at hp
        unfold DirAt
        cases hv : pre.view e.loc with
        | none => exact Or.inr (Or.inl rfl)
        | some v =>
          obtain ⟨i, nd⟩ := v
          simp only [hv] at hp
          split at hp
          · exact Or.inl ⟨i, nd, withOwner nd e, rfl, hp, rfl, rfl, rfl, Or.inr ⟨rfl, rfl⟩⟩
          · next t hk =>
            rcases hp with ⟨j, hj⟩ | ⟨nd', h1, h2, h3, h4, h5⟩
            · refine Or.inr (Or.inr ⟨⟨i, nd, t, rfl, hk⟩, Or.inr ⟨j, e.inode, hj, ?_⟩⟩)
              obtain ⟨loc, kind, mode, uid, gid, mtime⟩ := e
              cases kind <;> simp_all [Entry.isDir, Entry.inode]
            · exact Or.inl ⟨i, nd, nd', rfl, h1, h2, h3, h4, h5⟩
          · exact absurd hp (by simp)
    · exact Or.inl (m.todo e ht)
  · by_cases hmp : MissingParent pre es q
    · obtain ⟨h1, e, he, h2⟩ := hmp
      exact Or.inr (Or.inr (Or.inl ⟨h1, e, he, h2.2⟩))
    · by_cases htt : TouchedTmp pre es q
      · obtain ⟨e, he, h1, h2, _⟩ := htt
        exact Or.inr (Or.inl ⟨e, he, h1, h2⟩)
      · exact Or.inl (m.frame q ⟨hl, hmp, htt⟩)

theorem lookup_some_mem {l : List Dirent} {q : Path} {v : Nat × Inode} (h : lookup l q = some v) :
    q ∈ l.map (·.1) := by
  induction l with
  | nil => simp [lookup] at h
  | cons d t ih =>
    obtain ⟨dp, dv⟩ := d
    simp only [lookup] at h
    split at h
    · next hq => simp [hq]
    · simp only [List.map_cons, List.mem_cons]; exact Or.inr (ih h)

theorem symsolo_use {pre : Fs} {es : List Entry} (h : SymAtDirSolo pre es) {e : Entry} (he : e ∈ es)
    (hd : e.isDir = true) {i : Nat} {nd : Inode} {t : String} (hv : pre.view e.loc = some (i, nd))
    (hk : nd.kind = .sym t) {q : Path} (hq : q ≠ e.loc) {nd' : Inode} (hvq : pre.view q = some (i, nd')) : False := by
  have := h e he hd q (lookup_some_mem hvq) hq
  rw [hv, hvq] at this
  exact this ⟨t, hk⟩ rfl

section steps
variable {env : Env} {pre : Fs} {es done todo : List Entry} {x : Entry} {s s' : St}

theorem Mid.x_mem (m : Mid pre es done (x :: todo) s.fs) : x ∈ es :=
  (m.sub x).mp (List.mem_append_right _ List.mem_cons_self)

theorem Mid.done_mem (m : Mid pre es done todo s.fs) {e : Entry} (he : e ∈ done) : e ∈ es :=
  (m.sub e).mp (List.mem_append_left _ he)

theorem Mid.todo_mem (m : Mid pre es done todo s.fs) {e : Entry} (he : e ∈ todo) : e ∈ es :=
  (m.sub e).mp (List.mem_append_right _ he)

theorem Mid.loc_ne_done (m : Mid pre es done (x :: todo) s.fs) {e : Entry} (he : e ∈ done) : e.loc ≠ x.loc := by
  have := m.nodup
  simp only [locs, List.map_append, List.map_cons] at this
  have h3 := (List.nodup_append.mp this).2.2
  exact h3 e.loc (List.mem_map_of_mem he) x.loc List.mem_cons_self

theorem Mid.loc_ne_todo (m : Mid pre es done (x :: todo) s.fs) {e : Entry} (he : e ∈ todo) : e.loc ≠ x.loc := by
  have := m.nodup
  simp only [locs, List.map_append, List.map_cons] at this
  have h2 := (List.nodup_append.mp this).2.1
  have h3 := (List.nodup_cons.mp h2).1
  intro e0
  exact h3 (e0 ▸ List.mem_map_of_mem he)

theorem Mid.tmp_ne (_m : Mid pre es done todo s.fs) (g : Guards pre es) {a b : Entry} (ha : a ∈ es) (hb : b ∈ es) :
    tmpOf a.loc ≠ b.loc := by
  intro e0
  exact g.noclash a ha b hb (e0 ▸ List.suffix_refl _)

theorem mid_dir_step (hpre : pre.WF) (g : Guards pre es) (m : Mid pre es done (x :: todo) s.fs)
    (hd : x.isDir = true) (h : mergeDir env s x = (s', .ok ())) :
    Mid pre es (done ++ [x]) todo s'.fs ∧ Traj env (Reach pre es) s s' := by
  have hx : x ∈ es := m.x_mem
  have hvx : s.fs.view x.loc = pre.view x.loc := m.todo x List.mem_cons_self
  have hsym : ∀ i nd t, s.fs.view x.loc = some (i, nd) → nd.kind = .sym t →
      ∀ q, q ≠ x.loc → ∀ nd', s.fs.view q ≠ some (i, nd') := by
    intro i nd t hv hk q hq nd' hvq
    rw [hvx] at hv
    rcases m.inos q i nd' hvq with ⟨nd'', h1⟩ | h1
    · exact symsolo_use g.symsolo hx hd hv hk hq h1
    · exact absurd (hpre.lt _ _ _ hv) (Nat.not_lt.mpr h1)
  obtain ⟨post, traj⟩ := mergeDir_ok hd m.wf hsym h
  have hwf' := traj.WF m.wf
  have happ : (done ++ [x]) ++ todo = done ++ x :: todo := by simp
  refine ⟨{ wf := hwf'.1, nextLe := Nat.le_trans m.nextLe hwf'.2, nodup := by rw [happ]; exact m.nodup,
            sub := by intro e; rw [happ]; exact m.sub e, nondirs := ?_, dirs := ?_, todo := ?_, frame := ?_,
            parents := ?_, tmps := ?_, inos := ?_ }, ?_⟩
  · intro e he hnd
    rcases List.mem_append.mp he with he | he
    · rw [post.frame _ (m.loc_ne_done he)]; exact m.nondirs e he hnd
    · rw [List.mem_singleton.mp he, hd] at hnd; cases hnd
  · intro e he hdir
    rcases List.mem_append.mp he with he | he
    · exact placedDir_congr (post.frame _ (m.loc_ne_done he)) (m.dirs e he hdir)
    · rw [List.mem_singleton.mp he]; exact placedDir_base_congr hvx post.placed
  · intro e he
    rw [post.frame _ (m.loc_ne_todo he)]; exact m.todo e (List.mem_cons_of_mem _ he)
  · intro q hq
    have : q ≠ x.loc := fun e0 => hq.1 (mem_locs.mpr ⟨x, hx, e0.symm⟩)
    rw [post.frame q this]; exact m.frame q hq
  · intro q hq hmp
    have : q ≠ x.loc := fun e0 => hq (mem_locs.mpr ⟨x, hx, e0.symm⟩)
    rw [post.frame q this]; exact m.parents q hq hmp
  · intro e he hnd hpe
    rcases List.mem_append.mp he with he | he
    · rw [post.frame _ (m.tmp_ne g (m.done_mem he) hx)]; exact m.tmps e he hnd hpe
    · rw [List.mem_singleton.mp he, hd] at hnd; cases hnd
  · intro q i nd hq
    by_cases hqx : q = x.loc
    · subst hqx
      rcases post.ino i nd hq with ⟨nd0, h1⟩ | h1
      · rw [hvx] at h1; exact Or.inl ⟨nd0, h1⟩
      · exact Or.inr (Nat.le_trans m.nextLe h1)
    · rw [post.frame q hqx] at hq; exact m.inos q i nd hq
  · refine traj.mono ?_
    intro f hf q
    rcases hf q with h1 | ⟨h1, h2⟩
    · rw [h1]; exact m.reach q
    · exact Or.inr (Or.inr (Or.inr (Or.inr ⟨x, hx, hd, h1, dirAt_congr hvx h2⟩)))

theorem tmpOf_inj {a b : Path} (h : tmpOf a = tmpOf b) : a = b := by
  cases a with
  | nil => cases b with
    | nil => rfl
    | cons n q => simp [tmpOf] at h
  | cons n q => cases b with
    | nil => simp [tmpOf] at h
    | cons n' q' =>
      simp only [tmpOf, List.cons.injEq] at h
      obtain ⟨h1, h2⟩ := h
      have := congrArg String.toList h1
      simp only [String.toList_append] at this
      have := List.append_cancel_right this
      rw [String.toList_inj.mp this, h2]

theorem CopyPost.mono {lo lo' : Nat} (hl : lo' ≤ lo) (p : CopyPost lo s s' x) : CopyPost lo' s s' x := by
  obtain ⟨⟨j, h1, h2⟩, h3, h4, h5, h6, h7, h8⟩ := p
  refine ⟨⟨j, h1, Nat.le_trans hl h2⟩, h3, h4, h5, h6, h7, ?_⟩
  intro q i nd hq
  rcases h8 q i nd hq with h | h
  · exact Or.inl h
  · exact Or.inr (Nat.le_trans hl h)

/-- re-establishing the invariant after one non-directory entry, from the post-condition of its fragment -/
theorem mid_nondir_step (g : Guards pre es) (m : Mid pre es done (x :: todo) s.fs)
    (hnd : x.isDir = false) (htodo : ∀ e ∈ todo, e.isDir = false)
    (post : CopyPost pre.next s s' x) (hwf' : s'.fs.WF ∧ s.fs.next ≤ s'.fs.next) :
    Mid pre es (done ++ [x]) todo s'.fs ∧ (∀ e ∈ done, s'.fs.view e.loc = s.fs.view e.loc) := by
  have hx : x ∈ es := m.x_mem
  have hvx : s.fs.view x.loc = pre.view x.loc := m.todo x List.mem_cons_self
  have happ : (done ++ [x]) ++ todo = done ++ x :: todo := by simp
  -- paths that exist and are neither the location nor its temporary are left alone
  have keep : ∀ q, q ≠ x.loc → q ≠ tmpOf x.loc → s.fs.view q ≠ none → s'.fs.view q = s.fs.view q :=
    fun q h1 h2 h3 => post.frame q h1 h2 (fun h => h3 h.1)
  have hdone : ∀ e ∈ done, s'.fs.view e.loc = s.fs.view e.loc := fun e he =>
    keep _ (m.loc_ne_done he) (Ne.symm (m.tmp_ne g hx (m.done_mem he))) (m.done_some he)
  refine ⟨{ wf := hwf'.1, nextLe := Nat.le_trans m.nextLe hwf'.2, nodup := by rw [happ]; exact m.nodup,
            sub := by intro e; rw [happ]; exact m.sub e, nondirs := ?_, dirs := ?_, todo := ?_, frame := ?_,
            parents := ?_, tmps := ?_, inos := ?_ }, hdone⟩
  · intro e he hnd'
    rcases List.mem_append.mp he with he | he
    · rw [hdone e he]; exact m.nondirs e he hnd'
    · rw [List.mem_singleton.mp he]; exact post.placed
  · intro e he hdir
    rcases List.mem_append.mp he with he | he
    · exact placedDir_congr (hdone e he) (m.dirs e he hdir)
    · rw [List.mem_singleton.mp he, hnd] at hdir; cases hdir
  · intro e he
    have he' : e ∈ es := m.todo_mem (List.mem_cons_of_mem _ he)
    rw [post.frame _ (m.loc_ne_todo he) (Ne.symm (m.tmp_ne g hx he')) ?_]
    · exact m.todo e (List.mem_cons_of_mem _ he)
    · rintro ⟨_, hpa⟩
      have := g.tree e he' x hx hpa
      rw [htodo e he] at this; cases this
  · intro q hq
    have h1 : q ≠ x.loc := fun e0 => hq.1 (mem_locs.mpr ⟨x, hx, e0.symm⟩)
    by_cases h2 : q = tmpOf x.loc
    · by_cases h3 : s.fs.view x.loc = none
      · rw [h2, post.tmpKept h3, ← h2]; exact m.frame q hq
      · exact absurd ⟨x, hx, hnd, h2, by rw [← hvx]; exact h3⟩ hq.2.2
    · rw [post.frame q h1 h2 ?_]
      · exact m.frame q hq
      · rintro ⟨h3, h4⟩
        exact hq.2.1 ⟨by rw [← m.frame q hq]; exact h3, x, hx, h4⟩
  · intro q hq hmp
    have h1 : q ≠ x.loc := fun e0 => hq (mem_locs.mpr ⟨x, hx, e0.symm⟩)
    have h2 : q ≠ tmpOf x.loc := by
      obtain ⟨_, e, he, hpa⟩ := hmp
      intro e0
      exact g.noclash x hx e he (e0 ▸ hpa.2)
    by_cases h3 : s.fs.view q = none ∧ ProperAnc q x.loc
    · exact post.parents q h3.1 h3.2
    · rw [post.frame q h1 h2 h3]; exact m.parents q hq hmp
  · intro e he hnd' hpe
    rcases List.mem_append.mp he with he | he
    · have he' := m.done_mem he
      rw [post.frame _ (m.tmp_ne g he' hx) ?_ ?_]
      · exact m.tmps e he hnd' hpe
      · intro e0; exact m.loc_ne_done he (tmpOf_inj e0)
      · rintro ⟨_, hpa⟩; exact g.noclash e he' x hx hpa.2
    · rw [List.mem_singleton.mp he] at hpe ⊢
      exact post.tmpGone (by rw [hvx]; exact hpe)
  · intro q i nd hq
    rcases post.fresh q i nd hq with h | h
    · exact m.inos q i nd h
    · exact Or.inr h

theorem nonDirP_reach (g : Guards pre es) (m : Mid pre es done (x :: todo) s.fs) (hnd : x.isDir = false)
    {f : Fs} (hf : NonDirP s.fs x f) : Reach pre es f := by
  have hx : x ∈ es := m.x_mem
  intro q
  rcases hf q with h1 | h1 | ⟨h1, h2⟩ | ⟨h1, j, h2⟩
  · rw [h1]; exact m.reach q
  · exact Or.inr (Or.inl ⟨x, hx, hnd, h1⟩)
  · exact Or.inr (Or.inr (Or.inl ⟨m.none_pre g hx h1 h2, x, hx, h2⟩))
  · exact Or.inr (Or.inr (Or.inr (Or.inl ⟨x, hx, hnd, h1, j, h2⟩)))

theorem mid_copy_step (g : Guards pre es) (m : Mid pre es done (x :: todo) s.fs)
    (hnd : x.isDir = false) (htodo : ∀ e ∈ todo, e.isDir = false) (h : copyfile env s x = (s', .ok ())) :
    Mid pre es (done ++ [x]) todo s'.fs ∧ (∀ e ∈ done, s'.fs.view e.loc = s.fs.view e.loc) ∧
      Traj env (Reach pre es) s s' := by
  obtain ⟨post, traj⟩ := copyfile_ok hnd m.wf h
  obtain ⟨m', hd⟩ := mid_nondir_step g m hnd htodo (post.mono m.nextLe) (traj.WF m.wf)
  exact ⟨m', hd, traj.mono (fun f hf => nonDirP_reach g m hnd hf)⟩

theorem mid_link_step (hpre : pre.WF) (g : Guards pre es) (m : Mid pre es done (x :: todo) s.fs)
    (hnd : x.isDir = false) (htodo : ∀ e ∈ todo, e.isDir = false) {t : Entry} (ht : t ∈ done)
    (htn : t.isDir = false) (hti : t.inode = x.inode) (h : doLink env s t.loc x.loc = (s', .ok ())) :
    Mid pre es (done ++ [x]) todo s'.fs ∧ (∀ e ∈ done, s'.fs.view e.loc = s.fs.view e.loc) ∧
      Traj env (Reach pre es) s s' ∧ (s'.fs.view x.loc).map (·.1) = (s'.fs.view t.loc).map (·.1) := by
  have hx : x ∈ es := m.x_mem
  have hvx : s.fs.view x.loc = pre.view x.loc := m.todo x List.mem_cons_self
  obtain ⟨j, hj, hjle⟩ := m.nondirs t ht htn
  have hst : t.loc ≠ x.loc := m.loc_ne_done ht
  have hstmp : t.loc ≠ tmpOf x.loc := Ne.symm (m.tmp_ne g hx (m.done_mem ht))
  have hino : ∀ j' nd', s.fs.view x.loc = some (j', nd') → j' ≠ j := by
    intro j' nd' hv
    rw [hvx] at hv
    have := hpre.lt _ _ _ hv
    omega
  obtain ⟨post, traj⟩ := doLink_ok hj hst hstmp hino h
  have cp : CopyPost pre.next s s' x := by
    refine ⟨⟨j, by rw [← hti]; exact post.placed, hjle⟩, fun q h1 h2 _ => post.frame q h1 h2, ?_, post.tmpGone,
      post.tmpKept, post.locNe, ?_⟩
    · intro q hq hpa
      left
      rw [post.frame q hpa.1 (fun e0 => tmpOf_not_properAnc _ (e0 ▸ hpa)), hq]
    · intro q i nd hq
      by_cases h1 : q = x.loc
      · rw [h1, post.placed] at hq; cases hq; exact Or.inr hjle
      · by_cases h2 : q = tmpOf x.loc
        · by_cases h3 : s.fs.view x.loc = none
          · rw [h2, post.tmpKept h3] at hq; rw [h2]; exact Or.inl hq
          · rw [h2, post.tmpGone h3] at hq; cases hq
        · rw [post.frame q h1 h2] at hq; exact Or.inl hq
  obtain ⟨m', hd⟩ := mid_nondir_step g m hnd htodo cp (traj.WF m.wf)
  refine ⟨m', hd, traj.mono ?_, ?_⟩
  · intro f hf
    apply nonDirP_reach g m hnd
    intro q
    rcases hf q with h1 | h1 | ⟨h1, h2⟩
    · exact Or.inl h1
    · exact Or.inr (Or.inl h1)
    · exact Or.inr (Or.inr (Or.inr ⟨h1, j, by rw [h2, hti]⟩))
  · rw [post.placed, hd t ht, hj]

end steps

/-! ## 7. the two loops -/

section loops
variable {env : Env} {pre : Fs} {es : List Entry} {s' : St}

theorem mergeDirs_mid (hpre : pre.WF) (g : Guards pre es) :
    ∀ (xs : List Entry) (s : St) (done rest : List Entry),
      Mid pre es done (xs ++ rest) s.fs → (∀ x ∈ xs, x.isDir = true) → mergeDirs env s xs = (s', .ok ()) →
      Mid pre es (done ++ xs) rest s'.fs ∧ Traj env (Reach pre es) s s' := by
  intro xs
  induction xs with
  | nil =>
    intro s done rest m _ h
    simp only [mergeDirs, Prod.mk.injEq, and_true] at h
    subst h
    simp only [List.append_nil]
    exact ⟨by simpa using m, Traj.refl m.reach⟩
  | cons x xs ih =>
    intro s done rest m hall h
    simp only [mergeDirs] at h
    generalize hm : mergeDir env s x = r at h
    obtain ⟨s1, r1⟩ := r
    cases r1 with
    | error e => simp at h
    | ok u =>
      simp only at h
      obtain ⟨m1, t1⟩ := mid_dir_step hpre g (by simpa using m) (hall x List.mem_cons_self) hm
      obtain ⟨m2, t2⟩ := ih s1 (done ++ [x]) rest m1 (fun y hy => hall y (List.mem_cons_of_mem _ hy)) h
      exact ⟨by simpa [List.append_assoc] using m2, t1.trans t2⟩

/-- invariant of `merged_inodes` -/
structure CandsOK (done : List Entry) (c : Cands) (fs : Fs) : Prop where
  mem : ∀ t ∈ c, t ∈ done ∧ t.isDir = false
  rep : ∀ e ∈ done, ∀ k, e.key = some k →
    ∃ t, firstCand c k e = some t ∧ (fs.view e.loc).map (·.1) = (fs.view t.loc).map (·.1)

theorem sysAll_error_os {env : Env} {ops : List Op} {s s1 : St} {e : Exc} (h : s.sysAll env ops = (s1, .error e)) :
    ∃ n, e = .os n := by
  induction ops generalizing s with
  | nil => simp [St.sysAll] at h
  | cons op ops ih =>
    unfold St.sysAll at h
    generalize hs : s.sys env op = r at h
    obtain ⟨s2, e2⟩ := r
    cases e2 with
    | none => exact ih h
    | some n => simp only [Prod.mk.injEq, Except.error.injEq] at h; exact ⟨n, h.2.symm⟩

theorem unlinkIfExists_error_os {env : Env} {s s1 : St} {p : Path} {e : Exc}
    (h : unlinkIfExists env s p = (s1, .error e)) : ∃ n, e = .os n := by
  unfold unlinkIfExists at h
  generalize hs : s.sys env (.unlink p) = r at h
  obtain ⟨s2, e2⟩ := r
  cases e2 with
  | none => simp at h
  | some n => cases n <;> simp at h <;> exact ⟨_, h.2.symm⟩

theorem copyfile_cannotOverwrite {env : Env} {s s1 : St} {x : Entry}
    (h : copyfile env s x = (s1, .error .cannotOverwrite)) :
    ∃ j nd, s.fs.view x.loc = some (j, nd) ∧ nd.kind = .dir := by
  unfold copyfile at h
  cases hv : s.fs.view x.loc with
  | some v =>
    obtain ⟨j, nd⟩ := v
    simp only [hv] at h
    split at h
    · next hk => exact ⟨j, nd, rfl, hk⟩
    · generalize hu : unlinkIfExists env s (tmpOf x.loc) = ru at h
      obtain ⟨s2, r2⟩ := ru
      cases r2 with
      | error e =>
        simp only [Prod.mk.injEq, Except.error.injEq] at h
        obtain ⟨n, hn⟩ := unlinkIfExists_error_os hu
        rw [hn] at h; cases h.2
      | ok u =>
        simp only at h
        obtain ⟨n, hn⟩ := sysAll_error_os h
        cases hn
  | none =>
    simp only [hv] at h
    generalize (if (statFollow s.fs 8 x.loc.tail).isSome = true then (s, true) else ensureDirs env s x.loc.tail) = r at h
    obtain ⟨s2, ok2⟩ := r
    cases ok2 with
    | true =>
      simp only [if_true] at h
      obtain ⟨n, hn⟩ := sysAll_error_os h
      cases hn
    | false => simp at h

theorem key_some_kind {x : Entry} {k : Nat × Nat} (h : x.key = some k) : ∃ d, x.kind = .reg d (some k) := by
  obtain ⟨loc, kind, mode, uid, gid, mtime⟩ := x
  cases kind <;> simp_all [Entry.key]

theorem inode_eq_of_link {t x : Entry} {k : Nat × Nat} (hlc : HardlinkConsistent es) (ht : t ∈ es) (hx : x ∈ es)
    (htk : t.key = some k) (hxk : x.key = some k) (hc : canHardlink t x = true) : t.inode = x.inode := by
  obtain ⟨d, hd⟩ := key_some_kind htk
  obtain ⟨d', hd'⟩ := key_some_kind hxk
  have hs : SameSourceInode t x := by
    unfold SameSourceInode; rw [hd, hd']; exact ⟨rfl, hc⟩
  have := hlc t ht x hx hs
  rw [hd, hd'] at this
  simp only at this
  simp only [canHardlink, decide_eq_true_eq] at hc
  obtain ⟨h1, h2, h3, h4⟩ := hc
  obtain ⟨tl, tk, tm, tu, tg, tt⟩ := t
  obtain ⟨xl, xk, xm, xu, xg, xt⟩ := x
  simp only at hd hd' h1 h2 h3 h4
  subst hd hd' h1 h2 h3 h4 this
  rfl

theorem mergeNonDirs_mid (hpre : pre.WF) (g : Guards pre es) :
    ∀ (xs : List Entry) (s : St) (c : Cands) (done : List Entry),
      Mid pre es done xs s.fs → (∀ x ∈ xs, x.isDir = false) → CandsOK done c s.fs →
      mergeNonDirs env s c xs = (s', .ok ()) →
      ∃ c', Mid pre es (done ++ xs) [] s'.fs ∧ CandsOK (done ++ xs) c' s'.fs ∧ Traj env (Reach pre es) s s' := by
  intro xs
  induction xs with
  | nil =>
    intro s c done m _ hc h
    simp only [mergeNonDirs, Prod.mk.injEq, and_true] at h
    subst h
    simp only [List.append_nil]
    exact ⟨c, m, hc, Traj.refl m.reach⟩
  | cons x xs ih =>
    intro s c done m hall hc h
    have hnd : x.isDir = false := hall x List.mem_cons_self
    have htodo : ∀ e ∈ xs, e.isDir = false := fun y hy => hall y (List.mem_cons_of_mem _ hy)
    have hx : x ∈ es := m.x_mem
    have fin : ∀ {s1 : St} {c1 : Cands}, Mid pre es (done ++ [x]) xs s1.fs → CandsOK (done ++ [x]) c1 s1.fs →
        Traj env (Reach pre es) s s1 → mergeNonDirs env s1 c1 xs = (s', .ok ()) →
        ∃ c', Mid pre es (done ++ x :: xs) [] s'.fs ∧ CandsOK (done ++ x :: xs) c' s'.fs ∧
          Traj env (Reach pre es) s s' := by
      intro s1 c1 m1 hc1 t1 h1
      obtain ⟨c', m2, hc2, t2⟩ := ih s1 c1 (done ++ [x]) m1 htodo hc1 h1
      exact ⟨c', by simpa [List.append_assoc] using m2, by simpa [List.append_assoc] using hc2, t1.trans t2⟩
    -- the plain `copyfile` continuation, shared by both arms
    have copyArm : ∀ (c1 : Cands), (∀ k, x.key = some k → c1 = c ++ [x] ∧ firstCand c k x = none) →
        (x.key = none → c1 = c) → ∀ {s1 : St}, copyfile env s x = (s1, .ok ()) →
        mergeNonDirs env s1 c1 xs = (s', .ok ()) →
        ∃ c', Mid pre es (done ++ x :: xs) [] s'.fs ∧ CandsOK (done ++ x :: xs) c' s'.fs ∧
          Traj env (Reach pre es) s s' := by
      intro c1 hsome hnone s1 hcp h1
      obtain ⟨m1, hd1, t1⟩ := mid_copy_step g m hnd htodo hcp
      refine fin m1 ⟨?_, ?_⟩ t1 h1
      · intro t ht
        cases hk : x.key with
        | none =>
          rw [hnone hk] at ht
          exact ⟨List.mem_append_left _ (hc.mem t ht).1, (hc.mem t ht).2⟩
        | some k =>
          rw [(hsome k hk).1] at ht
          rcases List.mem_append.mp ht with ht | ht
          · exact ⟨List.mem_append_left _ (hc.mem t ht).1, (hc.mem t ht).2⟩
          · rw [List.mem_singleton.mp ht]; exact ⟨List.mem_append_right _ (List.mem_singleton.mpr rfl), hnd⟩
      · intro e he k hek
        rcases List.mem_append.mp he with he | he
        · obtain ⟨t, ht1, ht2⟩ := hc.rep e he k hek
          have htc : t ∈ c := List.mem_of_find?_eq_some ht1
          refine ⟨t, ?_, by rw [hd1 e he, hd1 t (hc.mem t htc).1]; exact ht2⟩
          cases hk : x.key with
          | none => rw [hnone hk]; exact ht1
          | some k' =>
            rw [(hsome k' hk).1]
            unfold firstCand at ht1 ⊢
            rw [List.find?_append, ht1]; rfl
        · have hex := List.mem_singleton.mp he
          subst hex
          obtain ⟨h1', h2'⟩ := hsome k hek
          refine ⟨e, ?_, rfl⟩
          rw [h1']
          unfold firstCand at h2' ⊢
          rw [List.find?_append, h2']
          simp [hek, canHardlink]
    simp only [mergeNonDirs] at h
    split at h
    · next d k hkind =>
      have hxk : x.key = some k := by simp [Entry.key, hkind]
      split at h
      · next t hfc =>
        generalize hl : doLink env s t.loc x.loc = r at h
        obtain ⟨s1, r1⟩ := r
        cases r1 with
        | error e => simp at h
        | ok u =>
          simp only at h
          have htc : t ∈ c := List.mem_of_find?_eq_some hfc
          have htp := List.find?_some hfc
          simp only [Bool.and_eq_true, decide_eq_true_eq] at htp
          have htd := (hc.mem t htc).1
          have hti := inode_eq_of_link g.hlc (m.done_mem htd) hx htp.1 hxk htp.2
          obtain ⟨m1, hd1, t1, hino⟩ := mid_link_step hpre g m hnd htodo htd (hc.mem t htc).2 hti hl
          refine fin m1 ⟨?_, ?_⟩ t1 h
          · intro t' ht'
            exact ⟨List.mem_append_left _ (hc.mem t' ht').1, (hc.mem t' ht').2⟩
          · intro e he k' hek
            rcases List.mem_append.mp he with he | he
            · obtain ⟨t', ht1, ht2⟩ := hc.rep e he k' hek
              have htc' : t' ∈ c := List.mem_of_find?_eq_some ht1
              exact ⟨t', ht1, by rw [hd1 e he, hd1 t' (hc.mem t' htc').1]; exact ht2⟩
            · have hex := List.mem_singleton.mp he
              subst hex
              rw [hxk] at hek; cases hek
              exact ⟨t, hfc, hino⟩
      · next hfc =>
        generalize hcp : copyfile env s x = r at h
        obtain ⟨s1, r1⟩ := r
        cases r1 with
        | error e => simp at h
        | ok u =>
          simp only at h
          exact copyArm (c ++ [x]) (fun k' hk' => by rw [hxk] at hk'; cases hk'; exact ⟨rfl, hfc⟩)
            (fun hk' => by rw [hxk] at hk'; cases hk') hcp h
    · next hnokey =>
      have hxk : x.key = none := by
        obtain ⟨loc, kind, mode, uid, gid, mtime⟩ := x
        cases kind with
        | reg d k => cases k with
          | none => rfl
          | some k => exact absurd rfl (hnokey d k)
        | _ => rfl
      generalize hcp : copyfile env s x = r at h
      obtain ⟨s1, r1⟩ := r
      cases r1 with
      | ok u =>
        simp only at h
        exact copyArm c (fun k' hk' => by rw [hxk] at hk'; cases hk') (fun _ => rfl) hcp h
      | error e =>
        cases e with
        | cannotOverwrite =>
          simp only at h
          split at h
          · next hskip =>
            -- a symlink entry over an existing directory: excluded by the guard
            exfalso
            obtain ⟨j, nd, hv, hk⟩ := copyfile_cannotOverwrite hcp
            have hsymx : x.isSym = true := by
              unfold symOverDirSkips at hskip
              unfold Entry.isSym
              split at hskip
              · next t hkx => first | rfl | simp [hkx]
              · cases hskip
            rw [m.todo x List.mem_cons_self] at hv
            exact g.nosym x hx hsymx ⟨j, nd, hv, hk⟩
          · simp at h
        | failedCopy => simp at h
        | os n => simp at h

end loops

/-! ## 8. the whole merge -/

/-- the order in which `merge_contents` processes the entries -/
def order (es : List Entry) : List Entry :=
  sortDirs (es.filter (·.isDir)) ++ es.filter (fun e => !e.isDir)

theorem insertByKey_perm (x : Entry) (l : List Entry) : (insertByKey x l).Perm (x :: l) := by
  induction l with
  | nil => exact List.Perm.refl _
  | cons y ys ih =>
    simp only [insertByKey]
    split
    · exact ((List.Perm.cons y ih).trans (List.Perm.swap x y ys))
    · exact List.Perm.refl _

theorem sortDirs_perm (l : List Entry) : (sortDirs l).Perm l := by
  induction l with
  | nil => exact List.Perm.refl _
  | cons x xs ih => exact (insertByKey_perm x _).trans (List.Perm.cons x ih)

theorem order_perm (es : List Entry) : (order es).Perm es := by
  unfold order
  exact ((sortDirs_perm _).append_right _).trans (List.filter_append_perm _ es)

theorem sortDirs_isDir {es : List Entry} : ∀ x ∈ sortDirs (es.filter (·.isDir)), x.isDir = true := by
  intro x hx
  have := ((sortDirs_perm _).mem_iff).mp hx
  exact (List.mem_filter.mp this).2

theorem mid_init {pre : Fs} {es : List Entry} (hpre : pre.WF) (hd : DistinctLocs es) : Mid pre es [] (order es) pre where
  wf := hpre
  nextLe := Nat.le_refl _
  nodup := by
    simp only [List.nil_append]
    unfold DistinctLocs locs at hd
    unfold locs
    exact (((order_perm es).map (fun e => e.loc)).nodup_iff).mpr hd
  sub := by intro e; simp only [List.nil_append]; exact (order_perm es).mem_iff
  nondirs := by intro e he; cases he
  dirs := by intro e he; cases he
  todo := fun _ _ => rfl
  frame := fun _ _ => rfl
  parents := fun _ _ h => Or.inl h.1
  tmps := by intro e he; cases he
  inos := fun _ i nd h => Or.inl ⟨nd, h⟩

theorem nil_properAnc {p : Path} (hp : p ≠ []) : ProperAnc [] p := ⟨fun e => hp e.symm, List.nil_suffix⟩

theorem merge_main {env : Env} {off : Bool} {pre : Fs} {es : List Entry} {s' : St}
    (hpre : pre.WF) (g : Guards pre es) (hd : DistinctLocs es) (hroot : RootGuard off pre es)
    (h : mergeContents env off es pre = (s', .ok ())) :
    ∃ c, Mid pre es (order es) [] s'.fs ∧ CandsOK (order es) c s'.fs ∧ Traj env (Reach pre es) ⟨pre, []⟩ s' := by
  unfold mergeContents at h
  simp only at h
  generalize h0 : (if off = true ∧ pre.view [] = none then
      St.sysAll env ⟨pre, []⟩ [.mkdir [] (maskMode 0o777 env.umask)] else (⟨pre, []⟩, .ok ())) = r0 at h
  obtain ⟨s1, r1⟩ := r0
  cases r1 with
  | error e => simp at h
  | ok u =>
    simp only at h
    -- state after the optional creation of the root
    have hinit : Mid pre es [] (order es) s1.fs ∧ Traj env (Reach pre es) ⟨pre, []⟩ s1 := by
      have m0 := mid_init hpre hd
      split at h0
      · next hc =>
        obtain ⟨hoff, hv0⟩ := hc
        obtain ⟨hnl, hne⟩ := hroot hoff hv0
        obtain ⟨s2, h1, hnil⟩ := sysAll_cons_ok h0
        obtain ⟨e0, -⟩ := sysAll_nil hnil
        subst e0
        have e1 := (St.sys_ok h1).1
        simp only [step, if_true, hv0, Option.isSome_none, Bool.false_eq_true, if_false] at e1
        injection e1 with e1
        have hv1 : ∀ q, s1.fs.view q = if q = [] then some (pre.next, ⟨.dir, newDirMode pre [] ((maskMode 0o777 env.umask) &&& 0o1777), env.uid, newGid env pre [], 0⟩)
            else pre.view q := by
          intro q; rw [← e1]; simp
        have hmp : MissingParent pre es [] := by
          obtain ⟨e, he⟩ := List.exists_mem_of_ne_nil es hne
          have : e.loc ≠ [] := fun e0 => hnl (mem_locs.mpr ⟨e, he, e0⟩)
          exact ⟨hv0, e, he, nil_properAnc this⟩
        have hwf1 := step_WF hpre (St.sys_ok h1).1
        have p1 : Reach pre es s1.fs := by
          intro q; rw [hv1]
          by_cases hq : q = []
          · subst hq; exact Or.inr (Or.inr (Or.inl ⟨hv0, hmp.2.imp fun e he => ⟨he.1, he.2.2⟩⟩))
          · rw [if_neg hq]; exact Or.inl rfl
        refine ⟨{ wf := hwf1.1, nextLe := hwf1.2, nodup := m0.nodup, sub := m0.sub,
                  nondirs := (by intro e he; cases he), dirs := (by intro e he; cases he),
                  tmps := (by intro e he; cases he), todo := ?_, frame := ?_, parents := ?_, inos := ?_ },
          Traj.step_ok h1 m0.reach p1⟩
        · intro e he
          have : e.loc ≠ [] := fun e0 => hnl (mem_locs.mpr ⟨e, m0.todo_mem (s := ⟨pre, []⟩) he, e0⟩)
          rw [hv1, if_neg this]
        · intro q hq
          have : q ≠ [] := fun e0 => hq.2.1 (e0 ▸ hmp)
          rw [hv1, if_neg this]
        · intro q _ hq
          rw [hv1]
          by_cases h0 : q = []
          · right; exact ⟨_, _, by rw [if_pos h0], rfl⟩
          · left; rw [if_neg h0]; exact hq.1
        · intro q i nd hq
          rw [hv1] at hq
          split at hq
          · cases hq; exact Or.inr (Nat.le_refl _)
          · exact Or.inl ⟨nd, hq⟩
      · simp only [Prod.mk.injEq, and_true] at h0
        subst h0
        exact ⟨m0, Traj.refl m0.reach⟩
    obtain ⟨m1, t1⟩ := hinit
    generalize hmd : mergeDirs env s1 (sortDirs (es.filter (·.isDir))) = r2 at h
    obtain ⟨s2, r2⟩ := r2
    cases r2 with
    | error e => simp at h
    | ok u2 =>
      simp only at h
      obtain ⟨m2, t2⟩ := mergeDirs_mid hpre g _ s1 [] _ m1 sortDirs_isDir hmd
      obtain ⟨c, m3, hc3, t3⟩ := mergeNonDirs_mid hpre g _ s2 [] _ m2
        (fun x hx => by simpa using (List.mem_filter.mp hx).2)
        { mem := (fun t ht => by cases ht)
          rep := (fun e he k hek => by
            have hdir : e.isDir = true := sortDirs_isDir e (by simpa using he)
            obtain ⟨d, hk⟩ := key_some_kind hek
            simp [Entry.isDir, hk] at hdir) } h
      exact ⟨c, m3, hc3, (t1.trans t2).trans t3⟩

theorem canHardlink_congr {a b : Entry} (h : canHardlink a b = true) (t : Entry) : canHardlink t a = canHardlink t b := by
  simp only [canHardlink, decide_eq_true_eq] at h
  obtain ⟨h1, h2, h3, h4⟩ := h
  simp only [canHardlink, h1, h2, h3, h4]

theorem placed_of_mid {pre : Fs} {es done : List Entry} {c : Cands} {fs : Fs} (m : Mid pre es done [] fs)
    (hc : CandsOK done c fs) : Placed pre es fs := by
  have hmem : ∀ e, e ∈ es → e ∈ done := fun e he => by simpa using (m.sub e).mpr he
  refine ⟨?_, ?_, ?_, m.frame, m.parents, ?_⟩
  · intro e he hnd
    obtain ⟨j, hj, _⟩ := m.nondirs e (hmem e he) hnd
    exact ⟨j, hj⟩
  · intro e he hd
    exact m.dirs e (hmem e he) hd
  · intro a ha b hb hs
    unfold SameSourceInode at hs
    split at hs
    · next da k db k' hka hkb =>
      obtain ⟨rfl, hcl⟩ := hs
      have hak : a.key = some k := by simp [Entry.key, hka]
      have hbk : b.key = some k := by simp [Entry.key, hkb]
      obtain ⟨ta, h1, h2⟩ := hc.rep a (hmem a ha) k hak
      obtain ⟨tb, h3, h4⟩ := hc.rep b (hmem b hb) k hbk
      have : firstCand c k a = firstCand c k b := by
        unfold firstCand
        congr 1
        funext t
        rw [canHardlink_congr hcl t]
      rw [this, h3] at h1
      cases h1
      rw [h2, h4]
    · exact absurd hs (by simp)
  · intro q _ ht
    obtain ⟨e, he, hnd, rfl, hpe⟩ := ht
    exact m.tmps e (hmem e he) hnd hpe

/-! ## 9. the bounded evaluation used by the driver is the specification -/

theorem lookup_none_of_not_mem {l : List Dirent} {q : Path} (h : q ∉ l.map (·.1)) : lookup l q = none := by
  cases hv : lookup l q with
  | none => rfl
  | some v => exact absurd (lookup_some_mem hv) h

theorem view_none_of_not_key {fs : Fs} {q : Path} (h : q ∉ keys fs) : fs.view q = none :=
  lookup_none_of_not_mem h

theorem frame_bounded {pre : Fs} {es : List Entry} {fin : Fs} :
    Frame pre es fin ↔ FrameOn (keys pre ++ keys fin) pre es fin := by
  constructor
  · intro h q _ hq; exact h q hq
  · intro h q hq
    by_cases hm : q ∈ keys pre ++ keys fin
    · exact h q hm hq
    · rw [List.mem_append, not_or] at hm
      rw [view_none_of_not_key hm.1, view_none_of_not_key hm.2]

theorem parents_bounded {pre : Fs} {es : List Entry} {fin : Fs} :
    ParentsAreDirs pre es fin ↔ ParentsOn (keys pre ++ keys fin) pre es fin := by
  constructor
  · intro h q _ h1 h2; exact h q h1 h2
  · intro h q h1 h2
    by_cases hm : q ∈ keys pre ++ keys fin
    · exact h q hm h1 h2
    · rw [List.mem_append, not_or] at hm
      exact Or.inl (view_none_of_not_key hm.2)

theorem tmps_bounded {pre : Fs} {es : List Entry} {fin : Fs} :
    NoTmpLeft pre es fin ↔ NoTmpOn (keys pre ++ keys fin) pre es fin := by
  constructor
  · intro h q _ h1 h2; exact h q h1 h2
  · intro h q h1 h2
    by_cases hm : q ∈ keys pre ++ keys fin
    · exact h q hm h1 h2
    · rw [List.mem_append, not_or] at hm
      exact view_none_of_not_key hm.2

theorem placed_iff_failures (pre : Fs) (es : List Entry) (fin : Fs) :
    Placed pre es fin ↔ placedFailures pre es fin = [] := by
  unfold placedFailures
  simp only [List.append_eq_nil_iff]
  constructor
  · intro h
    refine ⟨⟨⟨⟨⟨?_, ?_⟩, ?_⟩, ?_⟩, ?_⟩, ?_⟩
    · rw [if_pos h.nondirs]
    · rw [if_pos h.dirs]
    · rw [if_pos h.hardlinks]
    · rw [if_pos (frame_bounded.mp h.frame)]
    · rw [if_pos (parents_bounded.mp h.parents)]
    · rw [if_pos (tmps_bounded.mp h.tmps)]
  · rintro ⟨⟨⟨⟨⟨h1, h2⟩, h3⟩, h4⟩, h5⟩, h6⟩
    refine ⟨?_, ?_, ?_, frame_bounded.mpr ?_, parents_bounded.mpr ?_, tmps_bounded.mpr ?_⟩
    · by_cases h : PlacedNonDirs es fin
      · exact h
      · rw [if_neg h] at h1; cases h1
    · by_cases h : PlacedDirs pre es fin
      · exact h
      · rw [if_neg h] at h2; cases h2
    · by_cases h : Hardlinked es fin
      · exact h
      · rw [if_neg h] at h3; cases h3
    · by_cases h : FrameOn (keys pre ++ keys fin) pre es fin
      · exact h
      · rw [if_neg h] at h4; cases h4
    · by_cases h : ParentsOn (keys pre ++ keys fin) pre es fin
      · exact h
      · rw [if_neg h] at h5; cases h5
    · by_cases h : NoTmpOn (keys pre ++ keys fin) pre es fin
      · exact h
      · rw [if_neg h] at h6; cases h6

/-! ## 10. a concrete merge used by the non-vacuity examples of C18/C19 -/

def exPre : Fs :=
  ⟨[([], 1, ⟨.dir, 0o755, 0, 0, 0⟩), (["d"], 2, ⟨.dir, 0o700, 0, 0, 0⟩),
    (["f", "d"], 3, ⟨.file "6f6c64", 0o600, 0, 0, 1000⟩), (["u"], 4, ⟨.file "75", 0o644, 7, 7, 5⟩)], 5⟩
def exEs : List Entry :=
  [⟨["f", "d"], .reg "6e6577" (some (1, 5)), 0o644, 0, 0, 77⟩, ⟨["d"], .dir, 0o755, 3, 4, 9⟩,
   ⟨["g", "d"], .reg "6e6577" (some (1, 5)), 0o644, 0, 0, 77⟩, ⟨["l", "n", "m"], .sym "../../d/f", 0o777, 0, 0, 8⟩]
def exEnv : Env := ⟨0o022, 0, 0⟩

end Pkgcore.C18
