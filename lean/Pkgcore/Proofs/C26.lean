import Pkgcore.Spec.C26
/-! # C26 helper lemmas (see `Props/C26.lean` for the property theorems) -/
namespace Pkgcore.C26
open Pkgcore.Generated.C26

abbrev Map := List (List Char × Val)

deriving instance DecidableEq for Except

/-! ## bytes, integers, codecs -/

theorem magicPack_eq : Spec.magicPack = headerPre := by decide
theorem magicStop_eq : Spec.magicStop = trailerPre := by decide
theorem magicEnd_eq : Spec.magicEnd = trailerPost := by decide

theorem be32_length (n : Nat) : (be32 n).length = 4 := rfl

theorem rd32_be32 (n : Nat) (h : n < 4294967296) : rd32 (be32 n) = n := by
  simp only [be32, rd32, UInt8.toNat_ofNat']
  omega

theorem u32_eq_be32 (n : Nat) : Spec.u32 n = be32 n := by
  simp only [Spec.u32, be32]
  congr 1
  · apply UInt8.toNat_inj.mp; simp only [UInt8.toNat_ofNat']; omega
  congr 1
  · apply UInt8.toNat_inj.mp; simp only [UInt8.toNat_ofNat']; omega
  congr 1
  · apply UInt8.toNat_inj.mp; simp only [UInt8.toNat_ofNat']; omega
  congr 1
  · apply UInt8.toNat_inj.mp; simp only [UInt8.toNat_ofNat']; omega

theorem pack32_ok (n : Nat) (h : n < 4294967296) : pack32 n = .ok (be32 n) := by simp [pack32, h]

theorem encKey_eq (k : List Char) : encKey k = k.flatMap String.utf8EncodeChar := by
  simp [encKey, String.toUTF8, String.ofList, List.utf8Encode]

theorem utf8EncodeChar_ascii (c : Char) (h : c.toNat < 128) : String.utf8EncodeChar c = [UInt8.ofNat c.toNat] := by
  have h' : c.val.toNat ≤ 127 := by show c.toNat ≤ 127; omega
  unfold String.utf8EncodeChar
  simp only [h', if_true]
  rfl

theorem encKey_ascii (k : List Char) (h : Spec.asciiKey k) : encKey k = k.map fun c => UInt8.ofNat c.toNat := by
  rw [encKey_eq]
  induction k with
  | nil => rfl
  | cons c k ih =>
    have hc : c.toNat < 128 := h c (by simp)
    have hk : Spec.asciiKey k := fun d hd => h d (by simp [hd])
    simp [List.flatMap_cons, utf8EncodeChar_ascii c hc, ih hk]

theorem decAscii_encKey (k : List Char) (h : Spec.asciiKey k) : decAscii (encKey k) = some k := by
  rw [encKey_ascii k h]
  have h1 : (k.map fun c => UInt8.ofNat c.toNat).all (· < 128) = true := by
    simp only [List.all_map, List.all_eq_true]
    intro c hc
    have := h c hc
    simp only [Function.comp, decide_eq_true_eq, UInt8.lt_iff_toNat_lt, UInt8.toNat_ofNat']
    show c.toNat % 256 < 128
    omega
  simp only [decAscii, h1, if_true, List.map_map]
  congr 1
  conv => rhs; rw [← List.map_id k]
  apply List.map_congr_left
  intro c hc
  have := h c hc
  simp only [Function.comp, UInt8.toNat_ofNat', id]
  rw [Nat.mod_eq_of_lt (by omega)]
  exact Char.ofNat_toNat c

theorem decUtf8_raw (s : String) : decUtf8 (Val.text s).raw = some s := by
  have e : (⟨(Val.text s).raw.toArray⟩ : ByteArray) = s.toByteArray := by
    simp [Val.raw, String.toUTF8]
  unfold decUtf8
  rw [e]
  simp [String.fromUTF8?, s.isValidUTF8, String.fromUTF8]

/-! ## the writer produces the documented format -/

/-- index records of `m` when the first value starts at data offset `cur` -/
def idxFrom : Map → Nat → Bytes
  | [], _ => []
  | (k, v) :: rest, cur =>
    be32 (encKey k).length ++ encKey k ++ be32 cur ++ be32 v.raw.length ++ idxFrom rest (cur + v.raw.length)

def dataOf : Map → Bytes
  | [] => []
  | (_, v) :: rest => v.raw ++ dataOf rest

theorem idxFrom_length (m : Map) (c c' : Nat) : (idxFrom m c).length = (idxFrom m c').length := by
  induction m generalizing c c' with
  | nil => rfl
  | cons p r ih => simp [idxFrom, be32_length, ih (c + p.2.raw.length) (c' + p.2.raw.length)]

theorem encodeLoop_ok (m : Map) (cur : Nat)
    (h : (idxFrom m cur).length + cur + (dataOf m).length < 4294967296) :
    encodeLoop m cur = .ok (idxFrom m cur, dataOf m) := by
  induction m generalizing cur with
  | nil => rfl
  | cons p r ih =>
    obtain ⟨k, v⟩ := p
    simp only [idxFrom, dataOf, List.length_append, be32_length] at h
    have ih' := ih (cur + v.raw.length) (by omega)
    simp only [encodeLoop, pack32_ok _ (show (encKey k).length < 4294967296 by omega),
      pack32_ok _ (show cur < 4294967296 by omega), pack32_ok _ (show v.raw.length < 4294967296 by omega), ih',
      idxFrom, dataOf, bind, Except.bind, pure, Except.pure, List.append_assoc]

theorem spec_data_eq (m : Map) : Spec.data m = dataOf m := by
  induction m with
  | nil => rfl
  | cons p r ih => simp [Spec.data, dataOf] at ih ⊢; rw [ih]

theorem spec_index_aux (done rest : Map) :
    ((rest.zipIdx done.length).map fun x => Spec.indexRecord (done ++ rest) x.2 x.1).flatten
      = idxFrom rest ((done.map fun p => p.2.raw.length).sum) := by
  induction rest generalizing done with
  | nil => rfl
  | cons p r ih =>
    obtain ⟨k, v⟩ := p
    have e : done ++ (k, v) :: r = (done ++ [(k, v)]) ++ r := by simp
    have ih' := ih (done ++ [(k, v)])
    simp only [List.length_append, List.length_singleton, List.map_append, List.sum_append, List.map_cons,
      List.map_nil, List.sum_cons, List.sum_nil, Nat.add_zero] at ih'
    rw [← e] at ih'
    simp only [List.zipIdx_cons, List.map_cons, List.flatten_cons, ih', idxFrom]
    simp only [Spec.indexRecord, Spec.offsetOf, List.take_left' rfl, u32_eq_be32, List.append_assoc]

theorem spec_index_eq (m : Map) : Spec.index m = idxFrom m 0 := by
  have := spec_index_aux [] m
  simpa [Spec.index] using this

/-- the bytes `write_xpak` lays down for index `idx` and data `dat` -/
def layout (idx dat : Bytes) : Bytes :=
  headerPre ++ be32 idx.length ++ be32 dat.length ++ (idx ++ dat)
    ++ (trailerPre ++ be32 (idx.length + dat.length + trailerSize + 8) ++ trailerPost)

theorem segment_eq_layout (m : Map) : Spec.segment m = layout (idxFrom m 0) (dataOf m) := by
  simp [Spec.segment, layout, spec_index_eq, spec_data_eq, magicPack_eq, magicStop_eq, magicEnd_eq,
    u32_eq_be32, trailerSize]

theorem fits_bound (m : Map) (h : (Spec.index m).length + (Spec.data m).length + 24 < 4294967296) :
    (idxFrom m 0).length + 0 + (dataOf m).length + 24 < 4294967296 := by
  rw [spec_index_eq, spec_data_eq] at h; omega

theorem checkMagic_start_le (f : Bytes) (st il dl : Nat) (hc : checkMagic f = .ok (st, il, dl)) : st ≤ f.length := by
  unfold checkMagic at hc
  split at hc; · cases hc
  dsimp only at hc
  split at hc; · cases hc
  split at hc; · cases hc
  split at hc; · cases hc
  split at hc; · cases hc
  simp only [Except.ok.injEq, Prod.mk.injEq] at hc
  omega

/-! ## file handle -/

theorem write_take (h : Handle) (b : Bytes) (hp : h.pos ≤ h.content.length) :
    (h.write b).content.take (h.write b).pos = h.content.take h.pos ++ b ∧
    (h.write b).pos ≤ (h.write b).content.length := by
  have e : h.pos - h.content.length = 0 := by omega
  simp only [Handle.write, e, List.replicate_zero, List.append_nil]
  constructor
  · apply List.take_left'
    simp [List.length_take]; omega
  · simp [List.length_take]; omega

theorem truncate_content (h : Handle) (hp : h.pos ≤ h.content.length) :
    h.truncate.content = h.content.take h.pos := by
  have e : h.pos - h.content.length = 0 := by omega
  simp [Handle.truncate, e]

theorem write_sequence (f : Bytes) (start : Nat) (a b c : Bytes) (hs : start ≤ f.length) :
    ((((Handle.mk f 0).seek start).write a).write b |>.write c).truncate.content = f.take start ++ a ++ b ++ c := by
  let h0 := (Handle.mk f 0).seek start
  have p0 : h0.pos ≤ h0.content.length := hs
  have ⟨t1, p1⟩ := write_take h0 a p0
  have ⟨t2, p2⟩ := write_take (h0.write a) b p1
  have ⟨t3, p3⟩ := write_take ((h0.write a).write b) c p2
  rw [truncate_content _ p3, t3, t2, t1]
  rfl

/-! ## the reader on `pre ++ layout idx dat` -/

theorem headerPre_length : headerPre.length = 8 := rfl
theorem trailerPre_length : trailerPre.length = 8 := rfl
theorem trailerPost_length : trailerPost.length = 4 := rfl

theorem layout_length (idx dat : Bytes) : (layout idx dat).length = idx.length + dat.length + 32 := by
  simp only [layout, List.length_append, be32_length, headerPre_length, trailerPre_length, trailerPost_length]
  omega

theorem checkMagic_layout (pre idx dat : Bytes) (h : idx.length + dat.length + 24 < 4294967296) :
    checkMagic (pre ++ layout idx dat) = .ok (pre.length, idx.length, dat.length) := by
  have hlen : (pre ++ layout idx dat).length = pre.length + idx.length + dat.length + 32 := by
    rw [List.length_append, layout_length]; omega
  have hoff : idx.length + dat.length + trailerSize + 8 = idx.length + dat.length + 24 := by
    show idx.length + dat.length + 16 + 8 = _; omega
  have hdrop : (pre ++ layout idx dat).drop ((pre ++ layout idx dat).length - trailerSize)
      = trailerPre ++ be32 (idx.length + dat.length + 24) ++ trailerPost := by
    unfold layout
    rw [hoff, ← List.append_assoc]
    apply List.drop_left'
    simp only [List.length_append, be32_length, headerPre_length, trailerPre_length, trailerPost_length]
    show _ = _ - 16
    omega
  have hstart : (pre ++ layout idx dat).length - (idx.length + dat.length + 24 + 8) = pre.length := by omega
  have hhead : ((pre ++ layout idx dat).drop pre.length).take headerSize
      = headerPre ++ be32 idx.length ++ be32 dat.length := by
    rw [List.drop_left' rfl]
    unfold layout
    rw [List.append_assoc]
    exact List.take_left' rfl
  have c1 : ¬ ((pre ++ layout idx dat).length < trailerSize) := by
    rw [hlen]; show ¬ (_ < 16); omega
  have c2 : ¬ ((pre ++ layout idx dat).length < idx.length + dat.length + 24 + 8) := by omega
  have t8 : (trailerPre ++ be32 (idx.length + dat.length + 24) ++ trailerPost).take 8 = trailerPre := by
    rw [List.append_assoc]; exact List.take_left' rfl
  have d12 : (trailerPre ++ be32 (idx.length + dat.length + 24) ++ trailerPost).drop 12 = trailerPost :=
    List.drop_left' rfl
  have d8 : ((trailerPre ++ be32 (idx.length + dat.length + 24) ++ trailerPost).drop 8).take 4
      = be32 (idx.length + dat.length + 24) := by
    rw [List.append_assoc, List.drop_left' (l₁ := trailerPre) (i := 8) rfl]; exact List.take_left' rfl
  have h8 : (headerPre ++ be32 idx.length ++ be32 dat.length).take 8 = headerPre := by
    rw [List.append_assoc]; exact List.take_left' rfl
  have h84 : ((headerPre ++ be32 idx.length ++ be32 dat.length).drop 8).take 4 = be32 idx.length := by
    rw [List.append_assoc, List.drop_left' (l₁ := headerPre) (i := 8) rfl]; exact List.take_left' rfl
  have h12 : (headerPre ++ be32 idx.length ++ be32 dat.length).drop 12 = be32 dat.length := List.drop_left' rfl
  have hl16 : ¬ ((headerPre ++ be32 idx.length ++ be32 dat.length).length < headerSize) := by
    show ¬ (16 < 16); omega
  unfold checkMagic
  rw [if_neg c1]
  simp only [hdrop, t8, d12, d8, rd32_be32 _ h, ne_eq, not_true_eq_false, or_self, if_false]
  rw [if_neg c2]
  simp only [hstart, hhead, h8, h84, h12, if_neg hl16, not_true_eq_false, if_false,
    rd32_be32 _ (show idx.length < 4294967296 by omega), rd32_be32 _ (show dat.length < 4294967296 by omega)]

/-! ## the index loop -/

/-- the `keys_dict` entries the loop must produce for `m` (data block at `ds`, first value at `cur`) -/
def slotsFrom (ds : Nat) : Map → Nat → List (List Char × Slot)
  | [], _ => []
  | (k, v) :: rest, cur =>
    (rewriteKey k, (ds + cur, v.raw.length, !isEnvKey (rewriteKey k))) :: slotsFrom ds rest (cur + v.raw.length)

theorem length_le_idxFrom (m : Map) (c : Nat) : m.length ≤ (idxFrom m c).length := by
  induction m generalizing c with
  | nil => simp
  | cons p r ih =>
    have := ih (c + p.2.raw.length)
    simp only [idxFrom, List.length_append, be32_length, List.length_cons]; omega

theorem keysLoop_succ (fuel : Nat) (rest : Bytes) (indexLen : Int) (ds : Nat) (acc : List (List Char × Slot)) :
    keysLoop (fuel + 1) rest indexLen ds acc =
    if indexLen = 0 then .ok acc
    else
      let b4 := rest.take 4
      if b4.length < 4 then .error .structError
      else
        let keyLen := rd32 b4
        let kb := (rest.drop 4).take keyLen
        match decAscii kb with
        | none => .error .unicode
        | some key =>
          if kb.length ≠ keyLen then .error .malformed
          else
            let b8 := (rest.drop (4 + keyLen)).take 8
            if b8.length < 8 then .error .malformed
            else
              let offset := rd32 (b8.take 4)
              let dataLen := rd32 (b8.drop 4)
              let key := rewriteKey key
              keysLoop fuel (rest.drop (12 + keyLen)) (indexLen - (keyLen + 12 : Nat)) ds
                (odSet acc key (ds + offset, dataLen, !isEnvKey key)) := by
  rfl

theorem keysLoop_idx (m : Map) (cur fuel ds : Nat) (tail : Bytes) (acc : List (List Char × Slot))
    (hb : (idxFrom m cur).length + cur + (dataOf m).length < 4294967296)
    (ha : ∀ p ∈ m, Spec.asciiKey p.1) (hf : m.length ≤ fuel) :
    keysLoop fuel (idxFrom m cur ++ tail) (idxFrom m cur).length ds acc
      = .ok ((slotsFrom ds m cur).foldl (fun a p => odSet a p.1 p.2) acc) := by
  induction m generalizing cur fuel acc with
  | nil => cases fuel <;> simp [keysLoop, idxFrom, slotsFrom]
  | cons p r ih =>
    obtain ⟨k, v⟩ := p
    cases fuel with
    | zero => simp at hf
    | succ fuel =>
      simp only [idxFrom, dataOf, List.length_append, be32_length] at hb
      have hk : Spec.asciiKey k := ha (k, v) (by simp)
      have ih' := ih (cur + v.raw.length) fuel (odSet acc (rewriteKey k) (ds + cur, v.raw.length, !isEnvKey (rewriteKey k)))
        (by omega) (fun p hp => ha p (by simp [hp])) (by simpa using hf)
      -- shape of the unread part of the file
      have hrest : idxFrom ((k, v) :: r) cur ++ tail
          = be32 (encKey k).length ++ (encKey k ++ (be32 cur ++ be32 v.raw.length
              ++ (idxFrom r (cur + v.raw.length) ++ tail))) := by
        simp [idxFrom, List.append_assoc]
      have hlen : ((idxFrom ((k, v) :: r) cur).length : Int)
          = ((idxFrom r (cur + v.raw.length)).length : Int) + ((encKey k).length + 12 : Nat) := by
        simp only [idxFrom, List.length_append, be32_length]; omega
      have hne : ((idxFrom ((k, v) :: r) cur).length : Int) ≠ 0 := by
        rw [hlen]; omega
      have r4 : (idxFrom ((k, v) :: r) cur ++ tail).take 4 = be32 (encKey k).length := by
        rw [hrest]; exact List.take_left' rfl
      have rk : ((idxFrom ((k, v) :: r) cur ++ tail).drop 4).take (encKey k).length = encKey k := by
        rw [hrest, List.drop_left' (l₁ := be32 _) (i := 4) rfl]; exact List.take_left' rfl
      have r8 : ((idxFrom ((k, v) :: r) cur ++ tail).drop (4 + (encKey k).length)).take 8
          = be32 cur ++ be32 v.raw.length := by
        rw [hrest, ← List.append_assoc, List.drop_left' (by simp [be32_length])]
        exact List.take_left' rfl
      have rd : (idxFrom ((k, v) :: r) cur ++ tail).drop (12 + (encKey k).length)
          = idxFrom r (cur + v.raw.length) ++ tail := by
        rw [hrest, ← List.append_assoc, ← List.append_assoc]
        apply List.drop_left'
        simp only [List.length_append, be32_length]; omega
      have b4 : (be32 cur ++ be32 v.raw.length).take 4 = be32 cur := List.take_left' rfl
      have b8 : (be32 cur ++ be32 v.raw.length).drop 4 = be32 v.raw.length := List.drop_left' rfl
      have l8 : ¬ ((be32 cur ++ be32 v.raw.length).length < 8) := by
        simp [be32_length]
      have l4 : ¬ ((be32 (encKey k).length).length < 4) := by simp [be32_length]
      rw [keysLoop_succ, if_neg hne]
      simp only [r4, if_neg l4, rd32_be32 _ (show (encKey k).length < 4294967296 by omega), rk,
        decAscii_encKey k hk, ne_eq, not_true_eq_false, if_false, r8, if_neg l8, b4, b8,
        rd32_be32 _ (show cur < 4294967296 by omega), rd32_be32 _ (show v.raw.length < 4294967296 by omega), rd]
      have hsub : ((idxFrom ((k, v) :: r) cur).length : Int) - ((encKey k).length + 12 : Nat)
          = ((idxFrom r (cur + v.raw.length)).length : Int) := by rw [hlen]; omega
      rw [hsub, ih']
      simp only [slotsFrom, List.foldl_cons]

theorem odSet_fresh (d : List (List Char × Slot)) (k : List Char) (v : Slot) (h : k ∉ d.map (·.1)) :
    odSet d k v = d ++ [(k, v)] := by
  have : d.any (·.1 == k) = false := by
    rw [List.any_eq_false]
    intro p hp hk
    have : p.1 = k := by simpa using hk
    exact h (by rw [← this]; exact List.mem_map_of_mem hp)
  simp [odSet, this]

theorem foldl_odSet_nodup (l acc : List (List Char × Slot)) (h : ((acc ++ l).map (·.1)).Nodup) :
    l.foldl (fun a p => odSet a p.1 p.2) acc = acc ++ l := by
  induction l generalizing acc with
  | nil => simp
  | cons p r ih =>
    have hp : p.1 ∉ acc.map (·.1) := by
      simp only [List.map_append, List.map_cons] at h
      have := (List.nodup_append.mp h).2.2
      intro hm
      exact this _ hm _ (by simp) rfl
    simp only [List.foldl_cons, odSet_fresh acc p.1 p.2 hp]
    rw [ih (acc ++ [p]) (by simpa using h)]
    simp

theorem slotsFrom_keys (ds : Nat) (m : Map) (cur : Nat) (hn : ∀ p ∈ m, rewriteKey p.1 = p.1) :
    (slotsFrom ds m cur).map (·.1) = m.map (·.1) := by
  induction m generalizing cur with
  | nil => rfl
  | cons p r ih =>
    obtain ⟨k, v⟩ := p
    simp only [slotsFrom, List.map_cons, hn (k, v) (by simp), ih _ (fun p hp => hn p (by simp [hp]))]

/-! ## reading the values -/

theorem getData_slots (f : Bytes) (ds : Nat) (m : Map) (cur : Nat) (tail : Bytes)
    (hf : f.drop (ds + cur) = dataOf m ++ tail)
    (hn : ∀ p ∈ m, rewriteKey p.1 = p.1)
    (ht : ∀ p ∈ m, isEnvKey p.1 = false → ∃ s, p.2 = .text s) :
    (slotsFrom ds m cur).mapM (fun (k, s) => (getData f s).map fun v => (k, v)) = .ok (Spec.expected m) := by
  induction m generalizing cur with
  | nil => rfl
  | cons p r ih =>
    obtain ⟨k, v⟩ := p
    have hk : rewriteKey k = k := hn (k, v) (by simp)
    have hf' : f.drop (ds + (cur + v.raw.length)) = dataOf r ++ tail := by
      have : ds + (cur + v.raw.length) = ds + cur + v.raw.length := by omega
      rw [this, ← List.drop_drop, hf]
      simp only [dataOf, List.append_assoc]
      exact List.drop_left' rfl
    have ih' := ih (cur + v.raw.length) hf' (fun p hp => hn p (by simp [hp])) (fun p hp => ht p (by simp [hp]))
    have hslice : (f.drop (ds + cur)).take v.raw.length = v.raw := by
      rw [hf]; simp only [dataOf, List.append_assoc]; exact List.take_left' rfl
    have hget : getData f (ds + cur, v.raw.length, !isEnvKey k) = .ok (Spec.expectedVal k v) := by
      unfold getData
      simp only [hslice, ne_eq, not_true_eq_false, if_false]
      cases he : isEnvKey k with
      | true => simp [Spec.expectedVal, he]
      | false =>
        obtain ⟨s, hs⟩ := ht (k, v) (by simp) he
        simp only at hs
        subst hs
        simp [Spec.expectedVal, he, decUtf8_raw]
    simp only [slotsFrom, hk, List.mapM_cons, hget, ih']
    rfl

/-! ## putting the reader together -/

theorem keysDict_layout (pre : Bytes) (m : Map)
    (hb : (idxFrom m 0).length + 0 + (dataOf m).length + 24 < 4294967296)
    (ha : ∀ p ∈ m, Spec.asciiKey p.1) :
    keysDict (pre ++ layout (idxFrom m 0) (dataOf m))
      = .ok ((slotsFrom (pre.length + headerSize + (idxFrom m 0).length) m 0).foldl (fun a p => odSet a p.1 p.2) []) := by
  unfold keysDict
  rw [checkMagic_layout pre _ _ (by omega)]
  simp only
  have hdrop : (pre ++ layout (idxFrom m 0) (dataOf m)).drop (pre.length + headerSize)
      = idxFrom m 0 ++ (dataOf m ++ (trailerPre ++ be32 ((idxFrom m 0).length + (dataOf m).length + trailerSize + 8) ++ trailerPost)) := by
    have e : pre ++ layout (idxFrom m 0) (dataOf m)
        = (pre ++ (headerPre ++ be32 (idxFrom m 0).length ++ be32 (dataOf m).length)) ++ (idxFrom m 0 ++ (dataOf m
            ++ (trailerPre ++ be32 ((idxFrom m 0).length + (dataOf m).length + trailerSize + 8) ++ trailerPost))) := by
      simp only [layout, List.append_assoc]
    rw [e]
    apply List.drop_left'
    simp only [List.length_append, be32_length, headerPre_length]
    show _ = _ + 16
    omega
  rw [hdrop]
  apply keysLoop_idx m 0 _ _ _ [] (by omega) ha
  have := length_le_idxFrom m 0
  rw [List.length_append, layout_length]
  omega

theorem items_layout (pre : Bytes) (m : Map)
    (hb : (idxFrom m 0).length + 0 + (dataOf m).length + 24 < 4294967296)
    (ha : ∀ p ∈ m, Spec.asciiKey p.1)
    (hd : (m.map (·.1)).Nodup)
    (hn : ∀ p ∈ m, rewriteKey p.1 = p.1)
    (ht : ∀ p ∈ m, isEnvKey p.1 = false → ∃ s, p.2 = .text s) :
    items (pre ++ layout (idxFrom m 0) (dataOf m)) = .ok (Spec.expected m) := by
  unfold items
  rw [keysDict_layout pre m hb ha]
  simp only
  rw [foldl_odSet_nodup _ [] (by simpa [slotsFrom_keys _ m 0 hn] using hd)]
  simp only [List.nil_append]
  apply getData_slots _ _ m 0
    (trailerPre ++ be32 ((idxFrom m 0).length + (dataOf m).length + trailerSize + 8) ++ trailerPost) _ hn ht
  have e : pre ++ layout (idxFrom m 0) (dataOf m)
      = (pre ++ (headerPre ++ be32 (idxFrom m 0).length ++ be32 (dataOf m).length ++ idxFrom m 0)) ++ (dataOf m
          ++ (trailerPre ++ be32 ((idxFrom m 0).length + (dataOf m).length + trailerSize + 8) ++ trailerPost)) := by
    simp only [layout, List.append_assoc]
  rw [e]
  apply List.drop_left'
  simp only [List.length_append, be32_length, headerPre_length]
  show _ = _ + 16 + _ + 0
  omega

